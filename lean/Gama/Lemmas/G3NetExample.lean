/-
  C19 (round 4) — a concrete network for the network-level theorems: one fixed point, one free and one
  constrained point with DIFFERENT local frames, two observed vectors.  All hypotheses of
  `C19_one_step_linear_network_reproduced` / `C19_consistent_network_reproduced_minx` hold together on it
  (generated from displaced coordinates, positive definite weights, full column rank, the regularisation
  set gama-g3 hands over), with a non-zero solution.
-/
import Gama.Lemmas.G3OneStep
namespace Gama
namespace G3Net
open Neu G3Book G3Lin Matrix
set_option linter.unusedSectionVars false

variable {ι : Type} [DecidableEq ι]

/-- unscaled form of `dispXYZ_ptsOf`: the rows of an observation applied to `y` see `R_n · y(indices of n)` -/
theorem dispXYZ_ptsOf_raw (net : Net ι ℝ) (b : Book ι) (y : Nat → ℝ) (hy0 : y 0 = 0) (ob : Obs ι) (r : Role) (n : ι)
    (hn : roleName ob r = some n) :
    dispXYZ (toPt (ptsOfR net b.idx.ind ob r)) y =
      neuDisp (ptsOfR net b.idx.ind ob r).R (fun c => y (b.idx.index (isFreePar net.points) (n, c))) := by
  obtain ⟨h1, h2, h3⟩ := disp_ptsOf net b y hy0 ob r n hn
  unfold dispXYZ neuDisp
  rw [h1, h2, h3]
  rfl

/-- **a kernel vector of the design matrix moves both ends of every active vector by the same ECEF displacement**
    (the translations are the only freedom vectors leave): `R_t · g_t = R_f · g_f` -/
theorem ker_vector_same_disp (net : Net ι ℝ) (nobs : List (NObs ι ℝ)) (g : Fin (bookOf net nobs).idx.cols → ℝ)
    (hA : designOf (bookOf net nobs).idx.cols (netEqsR net nobs) *ᵥ g = 0) (f t : ι) (o : GObs ℝ)
    (hno : (⟨.vector f t, o⟩ : NObs ι ℝ) ∈ activeOf net nobs) :
    neuDisp (ptsOfR net (bookOf net nobs).idx.ind (.vector f t) .to).R
        (fun c => vecAt g ((bookOf net nobs).idx.index (isFreePar net.points) (t, c))) =
      neuDisp (ptsOfR net (bookOf net nobs).idx.ind (.vector f t) .frm).R
        (fun c => vecAt g ((bookOf net nobs).idx.index (isFreePar net.points) (f, c))) := by
  have hrows : ∀ r ∈ (@linObs ι ℝ realTrig net (bookOf net nobs).idx.ind ⟨.vector f t, o⟩).rows,
      @rowDot ℝ realScalar r (vecAt g) = 0 := by
    intro r hr
    obtain ⟨c, hc⟩ := netEqs_rows_mem net nobs _ hno r hr
    exact design_ker_rows _ g hA _ hc
  have hmap : (@linObs ι ℝ realTrig net (bookOf net nobs).idx.ind ⟨.vector f t, o⟩).rows.map
      (fun r => @rowDot ℝ realScalar r (vecAt g)) =
        [ (dispXYZ (toPt (ptsOfR net (bookOf net nobs).idx.ind (.vector f t) .to)) (vecAt g)).1 -
            (dispXYZ (toPt (ptsOfR net (bookOf net nobs).idx.ind (.vector f t) .frm)) (vecAt g)).1,
          (dispXYZ (toPt (ptsOfR net (bookOf net nobs).idx.ind (.vector f t) .to)) (vecAt g)).2.1 -
            (dispXYZ (toPt (ptsOfR net (bookOf net nobs).idx.ind (.vector f t) .frm)) (vecAt g)).2.1,
          (dispXYZ (toPt (ptsOfR net (bookOf net nobs).idx.ind (.vector f t) .to)) (vecAt g)).2.2 -
            (dispXYZ (toPt (ptsOfR net (bookOf net nobs).idx.ind (.vector f t) .frm)) (vecAt g)).2.2 ] := by
    show (evalLin _ (@Gen.G3Lin.vector ℝ realTrig _ o net.tol)).rows.map _ = _
    rw [gen_vector_eq]
    exact linVector_rows _ _ _ _ _ _ _ _ (vecAt g)
  have hz : ∀ v ∈ (@linObs ι ℝ realTrig net (bookOf net nobs).idx.ind ⟨.vector f t, o⟩).rows.map
      (fun r => @rowDot ℝ realScalar r (vecAt g)), v = 0 := by
    intro v hv
    obtain ⟨r, hr, rfl⟩ := List.mem_map.mp hv
    exact hrows r hr
  rw [hmap] at hz
  have e1 := hz _ List.mem_cons_self
  have e2 := hz _ (List.mem_cons_of_mem _ List.mem_cons_self)
  have e3 := hz _ (List.mem_cons_of_mem _ (List.mem_cons_of_mem _ List.mem_cons_self))
  rw [dispXYZ_ptsOf_raw net _ (vecAt g) (vecAt_zero g) (.vector f t) .to t rfl,
    dispXYZ_ptsOf_raw net _ (vecAt g) (vecAt_zero g) (.vector f t) .frm f rfl] at e1 e2 e3
  refine Prod.ext ?_ (Prod.ext ?_ ?_)
  · linarith
  · linarith
  · linarith

/-! ### the example -/

/-- the frame at `B = 0, L = 0` (n → +Z, e → +Y, u → +X) -/
def rot0 : Rot ℝ := ⟨0, 0, 1, 0, 1, 0, 1, 0, 0⟩
/-- the frame at `B = 0, L = π/2` (n → +Z, e → −X, u → +Y): another local frame -/
def rot90 : Rot ℝ := ⟨0, -1, 0, 0, 0, 1, 1, 0, 0⟩

noncomputable def exPt (x y z : ℝ) (R : Rot ℝ) (s : PState) : NPt ℝ :=
  ⟨x, y, z, x, y, z, 0, 0, 0, 0, 0, 0, R, ⟨true, false, false, s, s, s⟩⟩

/-- point 0 fixed, point 1 free (frame `rot0`), point 2 constrained (frame `rot90`) -/
noncomputable def exNet : Net Nat ℝ :=
  ⟨fun n => if n = 0 then some (exPt 0 0 0 rot0 .fixed) else if n = 1 then some (exPt 10 0 0 rot0 .free)
            else if n = 2 then some (exPt 0 20 0 rot90 .constr) else none, 1000⟩

/-- two vectors from the fixed point with observed values `o₁`, `o₂` -/
def exObs (o₁ o₂ : GObs ℝ) : List (NObs Nat ℝ) := [⟨.vector 0 1, o₁⟩, ⟨.vector 0 2, o₂⟩]

/-- the observed values of the points displaced by (n, e, u) = (1, 2, 3) mm resp. (4, 5, 6) mm in their own frames -/
noncomputable def exD₁ : GObs ℝ := ⟨10 + 3 / 1000, 2 / 1000, 1 / 1000, 0, 0, 0, 0⟩
noncomputable def exD₂ : GObs ℝ := ⟨-(5 / 1000), 20 + 6 / 1000, 4 / 1000, 0, 0, 0, 0⟩
/-- the observed values at the approximate coordinates themselves -/
noncomputable def exE₁ : GObs ℝ := ⟨10, 0, 0, 0, 0, 0, 0⟩
noncomputable def exE₂ : GObs ℝ := ⟨0, 20, 0, 0, 0, 0, 0⟩

/-- the unknowns `x(k) = k` mm, `k = 1 … n` -/
def exXi (n : Nat) : Fin n → ℝ := fun j => (j.val : ℝ) + 1

theorem vecAt_exXi {n : Nat} (k : Nat) (h : 1 ≤ k ∧ k ≤ n) : vecAt (exXi n) k = k := by
  unfold vecAt exXi
  rw [dif_pos h]
  have : k = (k - 1) + 1 := by omega
  conv_rhs => rw [this]
  push_cast
  ring

theorem ex_bookOf (o₁ o₂ : GObs ℝ) :
    bookOf exNet (exObs o₁ o₂) = updateObservations exNet.points [.vector 0 1, .vector 0 2] := rfl

theorem ex_book (o₁ o₂ : GObs ℝ) :
    (bookOf exNet (exObs o₁ o₂)).idx.cols = 6 ∧ (bookOf exNet (exObs o₁ o₂)).rows = 6 ∧
    minx exNet.points (bookOf exNet (exObs o₁ o₂)) = [4, 5, 6] ∧
    (∀ c, (bookOf exNet (exObs o₁ o₂)).idx.index (isFreePar exNet.points) (0, c) = 0) ∧
    (bookOf exNet (exObs o₁ o₂)).idx.index (isFreePar exNet.points) (1, .N) = 1 ∧
    (bookOf exNet (exObs o₁ o₂)).idx.index (isFreePar exNet.points) (1, .E) = 2 ∧
    (bookOf exNet (exObs o₁ o₂)).idx.index (isFreePar exNet.points) (1, .U) = 3 ∧
    (bookOf exNet (exObs o₁ o₂)).idx.index (isFreePar exNet.points) (2, .N) = 4 ∧
    (bookOf exNet (exObs o₁ o₂)).idx.index (isFreePar exNet.points) (2, .E) = 5 ∧
    (bookOf exNet (exObs o₁ o₂)).idx.index (isFreePar exNet.points) (2, .U) = 6 := by
  rw [ex_bookOf]
  refine ⟨by decide, by decide, by decide, fun c => by cases c <;> decide, by decide, by decide, by decide, by decide,
    by decide, by decide⟩

theorem ex_active (o₁ o₂ : GObs ℝ) : activeOf exNet (exObs o₁ o₂) = exObs o₁ o₂ := by
  have h1 : (revision exNet.points (.vector 0 1)).isSome = true := by decide
  have h2 : (revision exNet.points (.vector 0 2)).isSome = true := by decide
  unfold activeOf exObs
  rw [List.filter_cons_of_pos (by simpa using h1), List.filter_cons_of_pos (by simpa using h2)]
  rfl

theorem ex_neuCorr (o₁ o₂ : GObs ℝ) :
    (∀ c, neuCorr exNet.points (bookOf exNet (exObs o₁ o₂)) (vecAt (exXi (bookOf exNet (exObs o₁ o₂)).idx.cols)) 0 c = 0) ∧
    neuCorr exNet.points (bookOf exNet (exObs o₁ o₂)) (vecAt (exXi (bookOf exNet (exObs o₁ o₂)).idx.cols)) 1 .N = 1 / 1000 ∧
    neuCorr exNet.points (bookOf exNet (exObs o₁ o₂)) (vecAt (exXi (bookOf exNet (exObs o₁ o₂)).idx.cols)) 1 .E = 2 / 1000 ∧
    neuCorr exNet.points (bookOf exNet (exObs o₁ o₂)) (vecAt (exXi (bookOf exNet (exObs o₁ o₂)).idx.cols)) 1 .U = 3 / 1000 ∧
    neuCorr exNet.points (bookOf exNet (exObs o₁ o₂)) (vecAt (exXi (bookOf exNet (exObs o₁ o₂)).idx.cols)) 2 .N = 4 / 1000 ∧
    neuCorr exNet.points (bookOf exNet (exObs o₁ o₂)) (vecAt (exXi (bookOf exNet (exObs o₁ o₂)).idx.cols)) 2 .E = 5 / 1000 ∧
    neuCorr exNet.points (bookOf exNet (exObs o₁ o₂)) (vecAt (exXi (bookOf exNet (exObs o₁ o₂)).idx.cols)) 2 .U = 6 / 1000 := by
  obtain ⟨hc, _, _, h0, h1, h2, h3, h4, h5, h6⟩ := ex_book o₁ o₂
  refine ⟨fun c => ?_, ?_, ?_, ?_, ?_, ?_, ?_⟩
  · rw [neuCorr_eq _ _ _ (vecAt_zero _), h0 c, vecAt_zero]; simp
  · rw [neuCorr_eq _ _ _ (vecAt_zero _), h1, vecAt_exXi 1 (by rw [hc]; omega)]; norm_num
  · rw [neuCorr_eq _ _ _ (vecAt_zero _), h2, vecAt_exXi 2 (by rw [hc]; omega)]; norm_num
  · rw [neuCorr_eq _ _ _ (vecAt_zero _), h3, vecAt_exXi 3 (by rw [hc]; omega)]; norm_num
  · rw [neuCorr_eq _ _ _ (vecAt_zero _), h4, vecAt_exXi 4 (by rw [hc]; omega)]; norm_num
  · rw [neuCorr_eq _ _ _ (vecAt_zero _), h5, vecAt_exXi 5 (by rw [hc]; omega)]; norm_num
  · rw [neuCorr_eq _ _ _ (vecAt_zero _), h6, vecAt_exXi 6 (by rw [hc]; omega)]; norm_num

/-- the observed vectors `exD₁`, `exD₂` are those of the coordinates displaced by `x = (1, …, 6)` mm -/
theorem ex_generated : ∀ no ∈ activeOf exNet (exObs exD₁ exD₂),
    GeneratedObs exNet (bookOf exNet (exObs exD₁ exD₂))
      (vecAt (exXi (bookOf exNet (exObs exD₁ exD₂)).idx.cols)) no.obs no.o := by
  obtain ⟨c0, c1, c2, c3, c4, c5, c6⟩ := ex_neuCorr exD₁ exD₂
  rw [ex_active]
  intro no hno
  simp only [exObs, List.mem_cons, List.not_mem_nil, or_false] at hno
  rcases hno with rfl | rfl
  · simp only [GeneratedObs, neuDisp, c0, c1, c2, c3]
    simp [ptsOf, roleName, exNet, mkGPt, exPt, GPt.Xdh, GPt.Ydh, GPt.Zdh, rot0, exD₁]
  · simp only [GeneratedObs, neuDisp, c0, c4, c5, c6]
    simp [ptsOf, roleName, exNet, mkGPt, exPt, GPt.Xdh, GPt.Ydh, GPt.Zdh, rot0, rot90, exD₂]

/-- the observed vectors `exE₁`, `exE₂` are consistent with the approximate coordinates -/
theorem ex_consistent : ∀ no ∈ activeOf exNet (exObs exE₁ exE₂),
    ConsistentAt (ptsOfR exNet (bookOf exNet (exObs exE₁ exE₂)).idx.ind no.obs) no.obs no.o := by
  rw [ex_active]
  intro no hno
  simp only [exObs, List.mem_cons, List.not_mem_nil, or_false] at hno
  rcases hno with rfl | rfl
  · simp [ConsistentAt, ptsOf, roleName, exNet, mkGPt, exPt, GPt.Xdh, GPt.Ydh, GPt.Zdh, rot0, exE₁]
  · simp [ConsistentAt, ptsOf, roleName, exNet, mkGPt, exPt, GPt.Xdh, GPt.Ydh, GPt.Zdh, rot0, rot90, exE₂]

theorem vecAt_succ {n : Nat} (g : Fin n → ℝ) (j : Fin n) : vecAt g (j.val + 1) = g j := by
  unfold vecAt
  rw [dif_pos ⟨by omega, by omega⟩]
  simp

theorem eq_zero_of_vecAt {n : Nat} (g : Fin n → ℝ) (h : ∀ k, 1 ≤ k → k ≤ n → vecAt g k = 0) : g = 0 := by
  funext j
  rw [← vecAt_succ g j]
  exact h _ (by omega) (by omega)

/-- the frame the linearisation reads for a point is the one in the point table -/
theorem ptsOf_R (net : Net ι ℝ) (ob : Obs ι) (r : Role) (n : ι) (hn : roleName ob r = some n) (ind : Par ι → Nat)
    (p : NPt ℝ) (hp : net.pts n = some p) : (ptsOfR net ind ob r).R = p.R := by
  unfold ptsOfR ptsOf
  rw [hn]
  simp only [hp]
  rfl

/-- the design matrix of the example has full column rank (the fixed point removes the translations),
    whatever was observed -/
theorem ex_ker (o₁ o₂ : GObs ℝ) :
    ∀ g, designOf (bookOf exNet (exObs o₁ o₂)).idx.cols (netEqsR exNet (exObs o₁ o₂)) *ᵥ g = 0 → g = 0 := by
  intro g hA
  obtain ⟨hc, _, _, h0, h1, h2, h3, h4, h5, h6⟩ := ex_book o₁ o₂
  have m1 : (⟨.vector 0 1, o₁⟩ : NObs Nat ℝ) ∈ activeOf exNet (exObs o₁ o₂) := by
    rw [ex_active]; simp [exObs]
  have m2 : (⟨.vector 0 2, o₂⟩ : NObs Nat ℝ) ∈ activeOf exNet (exObs o₁ o₂) := by
    rw [ex_active]; simp [exObs]
  have k1 := ker_vector_same_disp exNet (exObs o₁ o₂) g hA 0 1 o₁ m1
  have k2 := ker_vector_same_disp exNet (exObs o₁ o₂) g hA 0 2 o₂ m2
  simp only [neuDisp, h0, h1, h2, h3, vecAt_zero] at k1
  simp only [neuDisp, h0, h4, h5, h6, vecAt_zero] at k2
  rw [ptsOf_R exNet (.vector 0 1) .to 1 rfl _ (exPt 10 0 0 rot0 .free) rfl] at k1
  rw [ptsOf_R exNet (.vector 0 2) .to 2 rfl _ (exPt 0 20 0 rot90 .constr) rfl] at k2
  simp [exPt, rot0] at k1
  simp [exPt, rot90] at k2
  obtain ⟨g3, g2, g1⟩ := k1
  obtain ⟨g5, g6, g4⟩ := k2
  apply eq_zero_of_vecAt
  intro k hk1 hk2
  rw [hc] at hk2
  have : k = 1 ∨ k = 2 ∨ k = 3 ∨ k = 4 ∨ k = 5 ∨ k = 6 := by omega
  rcases this with h | h | h | h | h | h
  · rw [h]; exact g1
  · rw [h]; exact g2
  · rw [h]; exact g3
  · rw [h]; exact g4
  · rw [h]; exact g5
  · rw [h]; exact g6

/-- the regularisation set gama-g3 hands to `Adj` for the example: the three columns of the constrained point -/
theorem ex_regSet (o₁ o₂ : GObs ℝ) (k : Fin (bookOf exNet (exObs o₁ o₂)).idx.cols) :
    k ∈ regSet (bookOf exNet (exObs o₁ o₂)).idx.cols exNet.points (bookOf exNet (exObs o₁ o₂)) ↔ 3 ≤ k.val := by
  obtain ⟨hc, _, hm, _⟩ := ex_book o₁ o₂
  have hk : k.val < 6 := lt_of_lt_of_eq k.isLt hc
  unfold regSet
  rw [hm]
  simp only [List.cons_ne_nil, if_false, Finset.mem_filter, Finset.mem_univ, true_and, List.mem_cons, List.not_mem_nil,
    or_false]
  omega

/-- the solution `x = (1, …, 6)`, zero residuals, is a least-squares solution of the example (so the hypothesis
    `hsol` of the one-step theorem is satisfiable) -/
theorem ex_solution :
    LS.IsLSSolution (designOf (bookOf exNet (exObs exD₁ exD₂)).idx.cols (netEqsR exNet (exObs exD₁ exD₂)))
      (rhsOf (netEqsR exNet (exObs exD₁ exD₂))) 1
      (regSet (bookOf exNet (exObs exD₁ exD₂)).idx.cols exNet.points (bookOf exNet (exObs exD₁ exD₂)))
      (exXi _) 0 0 := by
  rw [rhsOf_eq_mulVec _ (exXi _) (netEqs_linear exNet _ _ (vecAt_zero _) ex_generated)]
  exact LS.IsLSSolution.of_regular (ex_ker _ _) (by simp) (by simp) (by simp)

end G3Net
end Gama
