/-
  C07 — the covariance matrix of the WHOLE mirrored network (round 10): the per-cluster conjugation
  (`C10`'s `flipCov_DCD` on the regenerated condition) assembled into `Ls.Net.Sigma np' = D_σ (Sigma np) D_σ`
  through the block bookkeeping of `Sigma` (`locate`, `activeIdx`, `activeClusters`).

  The clusters are given with their sign patterns: `L : List (List Bool × Cluster K)`, `np.clusters = L.map (·.2)`,
  `np'.clusters = L.map conj` (`conj (ms, c) = ⟨Gen.YSign.flipCov ms c.cov, c.active⟩`).  The sign of global row `s` is
  `rowSig L s` = the sign `sgn ms i` of the position `i` of that ACTIVE observation inside its cluster.
-/
import Gama.Lemmas.Ls.NetFacade
import Gama.Lemmas.Ls.AdjFacade
import Gama.Lemmas.CovYSign
import Gama.Gen.YSign
namespace Gama.C07Sig
open Gama Gama.Ls Gama.Ls.Net Gama.Ls.AdjM Gama.Cov.YSign Matrix

variable {K : Type} [Field K] [LinearOrder K] [IsStrictOrderedRing K] [SqrtFn K]
attribute [local instance 2000] scalarOfField

/-- the cluster of the mirrored description -/
def conj (p : List Bool × Cluster K) : Cluster K := ⟨Gen.YSign.flipCov p.1 p.2.cov, p.2.active⟩

/-- the clusters with active observations -/
def actL (L : List (List Bool × Cluster K)) : List (List Bool × Cluster K) := L.filter fun p => p.2.nAct != 0

theorem activeClusters_snd (np : NetProblem K) (L : List (List Bool × Cluster K)) (h : np.clusters = L.map (·.2)) :
    activeClusters np = (actL L).map (·.2) := by
  unfold activeClusters actL
  rw [h, List.filter_map]
  rfl

theorem activeClusters_conj (np : NetProblem K) (L : List (List Bool × Cluster K)) (h : np.clusters = L.map conj) :
    activeClusters np = (actL L).map conj := by
  unfold activeClusters actL
  rw [h, List.filter_map]
  rfl

theorem dimsN_conj (np np' : NetProblem K) (L : List (List Bool × Cluster K)) (h : np.clusters = L.map (·.2))
    (h' : np'.clusters = L.map conj) : dimsN np' = dimsN np := by
  rw [dimsN_eq, dimsN_eq, activeClusters_snd np L h, activeClusters_conj np' L h', List.map_map, List.map_map]
  rfl

/-- the 1-based positions of the active observations lie inside the cluster -/
theorem activeIdx_bound : ∀ (l : List Bool) (n : Nat),
    ∀ x ∈ Cov.activeIdx n (l.map fun a => (⟨a, 1⟩ : Cov.ObsInfo)), n ≤ x ∧ x < n + l.length := by
  intro l
  induction l with
  | nil => intro n x hx; simp [Cov.activeIdx] at hx
  | cons a l ih =>
    intro n x hx
    rw [List.map_cons] at hx
    unfold Cov.activeIdx at hx
    rw [List.mem_append] at hx
    rcases hx with hx | hx
    · cases a
      · simp at hx
      · simp at hx; subst hx; simp
    · obtain ⟨h1, h2⟩ := ih (n + 1) x hx
      simp only [List.length_cons]
      constructor <;> omega

/-- the sign of global row `s`: of the position of that active observation inside its cluster -/
def rowSig (L : List (List Bool × Cluster K)) (dims : List Nat) (s : Nat) : K :=
  let kr := locate dims s
  let p := (actL L).getD kr.1 ([], ⟨⟨0, 0, #[]⟩, []⟩)
  sgn p.1 ((Cov.activeIdx 1 p.2.obs).toArray.getD (s - kr.2) 0)

theorem rowSig_sq (L : List (List Bool × Cluster K)) (dims : List Nat) (s : Nat) :
    rowSig L dims s * rowSig L dims s = 1 := sgn_mul_self _ _

/-- **`Σ' = D_σ Σ D_σ`, entry by entry** -/
theorem sigmaF_conj (np np' : NetProblem K) (L : List (List Bool × Cluster K)) (h : np.clusters = L.map (·.2))
    (h' : np'.clusters = L.map conj)
    (hwf : ∀ p ∈ L, p.2.cov.WF ∧ p.2.cov.dim ≤ p.1.length ∧ p.2.active.length ≤ p.2.cov.dim)
    (s t : Nat) (hs : s < (dimsN np).sum) :
    sigmaF np' s t = rowSig L (dimsN np) s * sigmaF np s t * rowSig L (dimsN np) t := by
  have hc : ∀ a b : Bool, Gen.YSign.flipCond a b = (a != b) := by decide
  have hd := dimsN_conj np np' L h h'
  obtain ⟨l1, l2, l3, _, l5⟩ := locate_spec (dimsN np) s hs
  unfold sigmaF
  rw [hd, activeClusters_conj np' L h', activeClusters_snd np L h]
  by_cases hin : (locate (dimsN np) s).2 ≤ t ∧ t < (locate (dimsN np) s).2 + (dimsN np).getD (locate (dimsN np) s).1 0
  · rw [if_pos hin, if_pos hin]
    have hlt := l5 t hin.1 hin.2
    have hklen : (locate (dimsN np) s).1 < (actL L).length := by
      have : (dimsN np).length = (actL L).length := by
        rw [dimsN_eq, activeClusters_snd np L h, List.length_map, List.length_map]
      omega
    set k := (locate (dimsN np) s).1 with hk
    set off := (locate (dimsN np) s).2 with hoff
    have hp : (actL L)[k]? = some ((actL L)[k]) := List.getElem?_eq_getElem hklen
    set p := (actL L)[k] with hpdef
    have g1 : ((actL L).map conj).getD k ⟨⟨0, 0, #[]⟩, []⟩ = conj p := by
      rw [List.getD_eq_getElem?_getD, List.getElem?_map, hp]; rfl
    have g2 : ((actL L).map (·.2)).getD k ⟨⟨0, 0, #[]⟩, []⟩ = p.2 := by
      rw [List.getD_eq_getElem?_getD, List.getElem?_map, hp]; rfl
    have g3 : (actL L).getD k ([], ⟨⟨0, 0, #[]⟩, []⟩) = p := by
      rw [List.getD_eq_getElem?_getD, hp]; rfl
    have hpL : p ∈ L := List.mem_of_mem_filter (List.getElem_mem hklen)
    obtain ⟨w1, w2, w3⟩ := hwf p hpL
    rw [g1, g2]
    have hobs : (conj p).obs = p.2.obs := rfl
    rw [hobs]
    -- the dimension of block k is the number of active positions
    have hdk : (dimsN np).getD k 0 = (Cov.activeIdx 1 p.2.obs).length := by
      rw [dimsN_eq, activeClusters_snd np L h, List.map_map, List.getD_eq_getElem?_getD, List.getElem?_map, hp]
      show p.2.nAct = _
      unfold Cluster.nAct Cluster.obs
      rw [activeIdx_length_ones]
    have hpos : ∀ r, off ≤ r → r < off + (dimsN np).getD k 0 →
        1 ≤ (Cov.activeIdx 1 p.2.obs).toArray.getD (r - off) 0 ∧
        (Cov.activeIdx 1 p.2.obs).toArray.getD (r - off) 0 ≤ p.2.cov.dim := by
      intro r hr1 hr2
      have hlen : r - off < (Cov.activeIdx 1 p.2.obs).length := by rw [← hdk]; omega
      have hmem : (Cov.activeIdx 1 p.2.obs).toArray.getD (r - off) 0 ∈ Cov.activeIdx 1 p.2.obs := by
        simp [Array.getD, hlen]
      obtain ⟨b1, b2⟩ := activeIdx_bound p.2.active 1 _ hmem
      constructor <;> omega
    obtain ⟨i1, i2⟩ := hpos s l2 l3
    obtain ⟨j1, j2⟩ := hpos t hin.1 hin.2
    obtain ⟨_, _, _, g⟩ := flipCov_DCD Gen.YSign.flipCond hc p.1 p.2.cov w1 w2
    show (Gen.YSign.flipCov p.1 p.2.cov).get _ _ = _
    unfold Gen.YSign.flipCov
    rw [g _ _ i1 i2 j1 j2]
    unfold rowSig
    simp only []
    rw [hlt, ← hk, ← hoff, g3]
  · rw [if_neg hin, if_neg hin, mul_zero, zero_mul]

/-- **`Σ' = D_σ Σ D_σ`** for the covariance matrices of the active observations of the two descriptions -/
theorem Sigma_conj (np np' : NetProblem K) (L : List (List Bool × Cluster K)) (h : np.clusters = L.map (·.2))
    (h' : np'.clusters = L.map conj) (hm : np'.m = np.m) (hdim : (dimsN np).sum = np.m)
    (hwf : ∀ p ∈ L, p.2.cov.WF ∧ p.2.cov.dim ≤ p.1.length ∧ p.2.active.length ≤ p.2.cov.dim) :
    ∀ s t : Fin np.m, Sigma np' (Fin.cast hm.symm s) (Fin.cast hm.symm t) =
      rowSig L (dimsN np) s.val * Sigma np s t * rowSig L (dimsN np) t.val := by
  intro s t
  exact sigmaF_conj np np' L h h' hwf s.val t.val (by rw [hdim]; exact s.isLt)

end Gama.C07Sig
