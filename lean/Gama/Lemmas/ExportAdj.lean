/-
  C13, the adjustment clauses: what the exported coordinates are, and when adjusting the exported file reproduces the
  adjustment.
-/
import Gama.Model.ExportAdj
import Gama.Lemmas.ExportNet
namespace Gama.Export
open Gama.Gen.GkfDoc

variable {K : Type}

theorem refinePoint_id (upd : Nat → K → K → K) (z0 : K) (x : List K) (i : Nat) (u : UnkT) (p : Point K) :
    (refinePoint upd z0 x i u p).id = p.id := by
  cases u <;> simp only [refinePoint] <;> (try split) <;> rfl

/-- a pass for an unknown that is not a coordinate of `p` leaves `p` alone -/
theorem refinePoint_other (upd : Nat → K → K → K) (z0 : K) (x : List K) (i : Nat) (u : UnkT) (p : Point K)
    (hx : u ≠ .X p.id) (hz : u ≠ .Z p.id) : refinePoint upd z0 x i u p = p := by
  cases u with
  | X id =>
    have : ¬ p.id = id := fun e => hx (by rw [e])
    simp [refinePoint, this]
  | Z id =>
    have : ¬ p.id = id := fun e => hz (by rw [e])
    simp [refinePoint, this]
  | Y id => rfl
  | R => rfl

theorem adjusted_id (upd : Nat → K → K → K) (z0 : K) (x : List K) (unks : List UnkT) (p : Point K) :
    (adjusted upd z0 x unks p).id = p.id := rfl

theorem unkIndex_none_of_not_mem (u : UnkT) (us : List UnkT) (i : Nat) (h : u ∉ us) : unkIndex u us i = none := by
  induction us generalizing i with
  | nil => rfl
  | cons v vs ih =>
    have hv : ¬ v = u := fun e => h (by rw [← e]; exact List.mem_cons_self)
    simp [unkIndex, hv, ih (i + 1) (fun hm => h (List.mem_cons_of_mem _ hm))]

/-- refine_approx_coordinates, point by point: every point ends with its adjusted coordinates (the unknown list names
    each coordinate group at most once) — whatever its status, free or constrained -/
theorem refineFrom_eq_adjusted (upd : Nat → K → K → K) (z0 : K) (x : List K) (unks : List UnkT) (hnd : unks.Nodup) (i : Nat)
    (ps : List (Point K)) :
    refineFrom upd z0 x i unks ps = ps.map (fun p =>
      { p with
        xy := match unkIndex (.X p.id) unks i with
          | some j => p.xy.map (fun v => (upd refineXY.2.1 v.1 (xAt z0 x j), upd refineXY.2.2.2 v.2 (xAt z0 x (j + refineXY.2.2.1))))
          | none => p.xy
        z := match unkIndex (.Z p.id) unks i with
          | some j => p.z.map (fun z => upd refineZ.2 z (xAt z0 x j))
          | none => p.z }) := by
  induction unks generalizing i ps with
  | nil =>
    simp only [refineFrom, unkIndex]
    conv => lhs; rw [← List.map_id ps]
    rfl
  | cons u us ih =>
    have hnd' := (List.nodup_cons.mp hnd)
    rw [refineFrom, ih hnd'.2 (i + 1), List.map_map]
    apply List.map_congr_left
    intro p _
    simp only [Function.comp, refinePoint_id]
    by_cases hx : u = .X p.id
    · subst hx
      have hxn : unkIndex (.X p.id) us (i + 1) = none := unkIndex_none_of_not_mem _ _ _ hnd'.1
      have hzne : ¬ (UnkT.X p.id = UnkT.Z p.id) := by intro e; cases e
      simp only [unkIndex, if_true, hxn, hzne, if_false, refinePoint]
    · by_cases hz : u = .Z p.id
      · subst hz
        have hzn : unkIndex (.Z p.id) us (i + 1) = none := unkIndex_none_of_not_mem _ _ _ hnd'.1
        have hxne : ¬ (UnkT.Z p.id = UnkT.X p.id) := by intro e; cases e
        simp only [unkIndex, if_true, hzn, hxne, if_false, refinePoint]
      · rw [refinePoint_other upd z0 x i u p hx hz]
        simp only [unkIndex, hx, hz, if_false]

theorem refineNet_points (upd : Nat → K → K → K) (z0 : K) (x : List K) (unks : List UnkT) (hnd : unks.Nodup) (n : Net K) :
    (refineNet upd z0 x unks n).points = n.points.map (adjusted upd z0 x unks) := by
  simp only [refineNet, refineFrom_eq_adjusted upd z0 x unks hnd 1]
  rfl

/-! ## the refined network is still an exportable one (6848bc2a)

Since a point inside `<coordinates>` no longer replaces coordinates the point has, `Net.WF` does not relate the VALUES of
coordinate observations to the coordinates of the points (`agrees`: the groups only).  Moving the points therefore keeps
`Net.WF` (for a codec that gives every number back: the moved coordinates are arbitrary numbers), and the round trip
applies to the refined network. -/

theorem adjusted_shape (upd : Nat → K → K → K) (z0 : K) (x : List K) (unks : List UnkT) (p : Point K) :
    (adjusted upd z0 x unks p).id = p.id ∧ (adjusted upd z0 x unks p).sxy = p.sxy ∧ (adjusted upd z0 x unks p).sz = p.sz ∧
    (adjusted upd z0 x unks p).xy.isSome = p.xy.isSome ∧ (adjusted upd z0 x unks p).z.isSome = p.z.isSome := by
  refine ⟨rfl, rfl, rfl, ?_, ?_⟩
  · unfold adjusted
    simp only []
    split <;> simp
  · unfold adjusted
    simp only []
    split <;> simp

theorem adjusted_active (upd : Nat → K → K → K) (z0 : K) (x : List K) (unks : List UnkT) (p : Point K) :
    (adjusted upd z0 x unks p).active = p.active := rfl

theorem filter_active_adjusted (upd : Nat → K → K → K) (z0 : K) (x : List K) (unks : List UnkT) (ps : List (Point K)) :
    (ps.map (adjusted upd z0 x unks)).filter Point.active = (ps.filter Point.active).map (adjusted upd z0 x unks) := by
  induction ps with
  | nil => rfl
  | cons p ps ih =>
    simp only [List.map_cons, List.filter_cons, adjusted_active, ih]
    cases p.active <;> simp

/-- a cluster's invariants look at the points only through their ids and the coordinate groups they have -/
theorem Cluster.WF_map_points {C : Codec K} {R Rd : K → Prop} (gons : Bool) (s0 : K) (ps : List (Point K)) (f : Point K → Point K)
    (hf : ∀ p, (f p).id = p.id ∧ (f p).xy.isSome = p.xy.isSome ∧ (f p).z.isSome = p.z.isSome) (c : Cluster K)
    (h : c.WF C R Rd gons s0 ps) : c.WF C R Rd gons s0 (ps.map f) := by
  cases c with
  | coords ext pts cov =>
    obtain ⟨h1, h2, h3⟩ := h
    refine ⟨h1, h2, ?_⟩
    intro cp hcp
    obtain ⟨⟨p, hp, hpe⟩, hall⟩ := h3 cp hcp
    refine ⟨⟨f p, List.mem_map_of_mem hp, by rw [(hf p).1]; exact hpe⟩, ?_⟩
    intro q hq hqe
    obtain ⟨q0, hq0, rfl⟩ := List.mem_map.mp hq
    rw [(hf q0).1] at hqe
    obtain ⟨a1, a2⟩ := hall q0 hq0 hqe
    exact ⟨fun hc => by rw [(hf q0).2.1]; exact a1 hc, fun hc => by rw [(hf q0).2.2]; exact a2 hc⟩
  | obs sp cov => exact h
  | hdiffs dhs cov => exact h
  | vectors vecs cov => exact h

theorem refineNet_WF {C : Codec K} {Rd : K → Prop} (upd : Nat → K → K → K) (z0 : K) (x : List K) (unks : List UnkT)
    (hnd : unks.Nodup) (n : Net K) (hw : n.WF C (fun _ => True) Rd) : (refineNet upd z0 x unks n).WF C (fun _ => True) Rd := by
  have hp := refineNet_points upd z0 x unks hnd n
  have hpar : (refineNet upd z0 x unks n).par = n.par := rfl
  have hhead : (refineNet upd z0 x unks n).head = n.head := rfl
  have hcl : (refineNet upd z0 x unks n).clusters = n.clusters := rfl
  refine ⟨by rw [hpar]; exact hw.par, by rw [hhead]; exact hw.epoch, ?_, ?_, ?_⟩
  · rw [hp]
    intro q hq
    obtain ⟨p, hpm, rfl⟩ := List.mem_map.mp hq
    refine ⟨by rw [adjusted_id]; exact (hw.ids p hpm).1, ?_⟩
    unfold Point.Rep
    constructor <;> split <;> trivial
  · rw [hp, List.map_map]
    exact hw.nodup
  · rw [hp, hcl, hpar, filter_active_adjusted]
    intro c hc
    exact Cluster.WF_map_points _ _ _ _
      (fun p => ⟨(adjusted_shape upd z0 x unks p).1, (adjusted_shape upd z0 x unks p).2.2.2.1, (adjusted_shape upd z0 x unks p).2.2.2.2⟩)
      c (hw.clusters c hc)

/-! ## refine_adjustment -/

/-- a state in which neither test asks for a refinement is left as it is, with zero iterations -/
theorem refineLoop_stop {σ : Type} (step : σ → Option σ) (fuel : Nat) (s : σ) (h : step s = none) :
    refineLoop step fuel s = (s, 0) := by
  cases fuel with
  | zero => rfl
  | succ f => simp [refineLoop, h]

/-- … and a state in which one does, iterates (given the iteration budget) -/
theorem refineLoop_iterates {σ : Type} (step : σ → Option σ) (fuel : Nat) (s s' : σ) (h : step s = some s') :
    (refineLoop step (fuel + 1) s).2 = (refineLoop step fuel s').2 + 1 := by
  simp [refineLoop, h]

/-- the loop ends either in a state that needs no refinement or with its budget used up -/
theorem refineLoop_end {σ : Type} (step : σ → Option σ) (fuel : Nat) (s : σ) :
    step (refineLoop step fuel s).1 = none ∨ (refineLoop step fuel s).2 = fuel := by
  induction fuel generalizing s with
  | zero => right; rfl
  | succ f ih =>
    cases h : step s with
    | none => left; simp [refineLoop, h]
    | some s' =>
      rcases ih s' with h1 | h1
      · left; simp [refineLoop, h, h1]
      · right; simp [refineLoop, h, h1]

end Gama.Export
