/-
  C13, the adjustment clauses: what the exported coordinates are, and when adjusting the exported file reproduces the
  adjustment.
-/
import Gama.Model.ExportAdj
import Gama.Lemmas.ExportNet
namespace Gama.Export
open Gama.Gen.GkfDoc

variable {K : Type}

theorem refinePoint_id (upd : Nat → K → K → K) (z0 : K) (x : List K) (i : Nat) (u : UnkT) (p : Point K) :
    (refinePoint upd z0 x i u p).id = p.id := by
  cases u <;> simp only [refinePoint] <;> (try split) <;> rfl

/-- a pass for an unknown that is not a coordinate of `p` leaves `p` alone -/
theorem refinePoint_other (upd : Nat → K → K → K) (z0 : K) (x : List K) (i : Nat) (u : UnkT) (p : Point K)
    (hx : u ≠ .X p.id) (hz : u ≠ .Z p.id) : refinePoint upd z0 x i u p = p := by
  cases u with
  | X id =>
    have : ¬ p.id = id := fun e => hx (by rw [e])
    simp [refinePoint, this]
  | Z id =>
    have : ¬ p.id = id := fun e => hz (by rw [e])
    simp [refinePoint, this]
  | Y id => rfl
  | R => rfl

theorem adjusted_id (upd : Nat → K → K → K) (z0 : K) (x : List K) (unks : List UnkT) (p : Point K) :
    (adjusted upd z0 x unks p).id = p.id := rfl

theorem unkIndex_none_of_not_mem (u : UnkT) (us : List UnkT) (i : Nat) (h : u ∉ us) : unkIndex u us i = none := by
  induction us generalizing i with
  | nil => rfl
  | cons v vs ih =>
    have hv : ¬ v = u := fun e => h (by rw [← e]; exact List.mem_cons_self)
    simp [unkIndex, hv, ih (i + 1) (fun hm => h (List.mem_cons_of_mem _ hm))]

/-- refine_approx_coordinates, point by point: every point ends with its adjusted coordinates (the unknown list names
    each coordinate group at most once) — whatever its status, free or constrained -/
theorem refineFrom_eq_adjusted (upd : Nat → K → K → K) (z0 : K) (x : List K) (unks : List UnkT) (hnd : unks.Nodup) (i : Nat)
    (ps : List (Point K)) :
    refineFrom upd z0 x i unks ps = ps.map (fun p =>
      { p with
        xy := match unkIndex (.X p.id) unks i with
          | some j => p.xy.map (fun v => (upd refineXY.2.1 v.1 (xAt z0 x j), upd refineXY.2.2.2 v.2 (xAt z0 x (j + refineXY.2.2.1))))
          | none => p.xy
        z := match unkIndex (.Z p.id) unks i with
          | some j => p.z.map (fun z => upd refineZ.2 z (xAt z0 x j))
          | none => p.z }) := by
  induction unks generalizing i ps with
  | nil =>
    simp only [refineFrom, unkIndex]
    conv => lhs; rw [← List.map_id ps]
    rfl
  | cons u us ih =>
    have hnd' := (List.nodup_cons.mp hnd)
    rw [refineFrom, ih hnd'.2 (i + 1), List.map_map]
    apply List.map_congr_left
    intro p _
    simp only [Function.comp, refinePoint_id]
    by_cases hx : u = .X p.id
    · subst hx
      have hxn : unkIndex (.X p.id) us (i + 1) = none := unkIndex_none_of_not_mem _ _ _ hnd'.1
      have hzne : ¬ (UnkT.X p.id = UnkT.Z p.id) := by intro e; cases e
      simp only [unkIndex, if_true, hxn, hzne, if_false, refinePoint]
    · by_cases hz : u = .Z p.id
      · subst hz
        have hzn : unkIndex (.Z p.id) us (i + 1) = none := unkIndex_none_of_not_mem _ _ _ hnd'.1
        have hxne : ¬ (UnkT.Z p.id = UnkT.X p.id) := by intro e; cases e
        simp only [unkIndex, if_true, hzn, hxne, if_false, refinePoint]
      · rw [refinePoint_other upd z0 x i u p hx hz]
        simp only [unkIndex, hx, hz, if_false]

theorem refineNet_points (upd : Nat → K → K → K) (z0 : K) (x : List K) (unks : List UnkT) (hnd : unks.Nodup) (n : Net K) :
    (refineNet upd z0 x unks n).points = n.points.map (adjusted upd z0 x unks) := by
  simp only [refineNet, refineFrom_eq_adjusted upd z0 x unks hnd 1]
  rfl

/-! ## refine_adjustment -/

/-- a state in which neither test asks for a refinement is left as it is, with zero iterations -/
theorem refineLoop_stop {σ : Type} (step : σ → Option σ) (fuel : Nat) (s : σ) (h : step s = none) :
    refineLoop step fuel s = (s, 0) := by
  cases fuel with
  | zero => rfl
  | succ f => simp [refineLoop, h]

/-- … and a state in which one does, iterates (given the iteration budget) -/
theorem refineLoop_iterates {σ : Type} (step : σ → Option σ) (fuel : Nat) (s s' : σ) (h : step s = some s') :
    (refineLoop step (fuel + 1) s).2 = (refineLoop step fuel s').2 + 1 := by
  simp [refineLoop, h]

/-- the loop ends either in a state that needs no refinement or with its budget used up -/
theorem refineLoop_end {σ : Type} (step : σ → Option σ) (fuel : Nat) (s : σ) :
    step (refineLoop step fuel s).1 = none ∨ (refineLoop step fuel s).2 = fuel := by
  induction fuel generalizing s with
  | zero => right; rfl
  | succ f ih =>
    cases h : step s with
    | none => left; simp [refineLoop, h]
    | some s' =>
      rcases ih s' with h1 | h1
      · left; simp [refineLoop, h, h1]
      · right; simp [refineLoop, h, h1]

end Gama.Export
