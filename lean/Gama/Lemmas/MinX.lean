/-
  Lemmas about `Model/MinX.lean` (numbering of the unknowns and construction of the regularisation
  list in `LocalNetwork::project_equations`).

  A  `fillFrom_length`, `feed_*`            the two loops over `PD` agree (`min_n_` = length of `min_x_`)
  B  `Agree`, `number_agree`, `pe_noStale`  a call depends on the incoming state only through the statuses
  C  `Final`, `pe_final`                    what a completed call hands over, in terms of its LAST inner call
  D  `NumInv`, `number_inv`, `fill_valid`   indexes are 1..n, injective; the list has no 0, no repetition
  E  `perm_*`                               another observation order renumbers consistently
-/
import Gama.Model.MinX
import Mathlib.Data.List.Perm.Basic
import Mathlib.Data.List.Nodup
import Mathlib.Data.Finset.Card
import Mathlib.Order.Interval.Finset.Nat
import Mathlib.Tactic.Linarith

namespace Gama.MinX
open Gama Gama.NetDecision

set_option linter.unusedVariables false
set_option linter.unusedSimpArgs false

/-! ### A. the two loops -/

theorem fillFrom_length (idx : Unk → Nat) : ∀ (r : List PtS) (p : Nat),
    (fillFrom idx p r).length = countFrom idx p r := by
  intro r
  induction r with
  | nil => intro p; rfl
  | cons q r ih =>
    intro p
    simp only [fillFrom, countFrom, List.length_append, ih (p + 1)]
    congr 1
    congr 1 <;> split <;> rfl

theorem feed_fst (idx : Unk → Nat) (pts : List PtS) : (feed idx pts).1 = countMin idx pts := rfl

theorem feed_snd (idx : Unk → Nat) (pts : List PtS) : (feed idx pts).2 = fillMin idx pts := by
  unfold feed
  by_cases h : countMin idx pts = 0
  · have hl : (fillMin idx pts).length = 0 := by
      rw [fillMin, fillFrom_length]; exact h
    simp [h, List.length_eq_zero_iff.mp hl]
  · simp [h]

theorem feed_length (idx : Unk → Nat) (pts : List PtS) : (feed idx pts).2.length = (feed idx pts).1 := by
  rw [feed_snd, feed_fst, fillMin, fillFrom_length]; rfl

/-! ### B. no stale state -/

/-- two index states agree on everything a call can read -/
def Agree (pts : List PtS) (i j : Unk → Nat) : Prop := ∀ u, vis pts u = true → i u = j u

theorem live_vis (pts : List PtS) (u : Unk) (h : live pts u = true) : vis pts u = true := by
  cases u with
  | ori k => rfl
  | x p => simp only [live, vis] at *; cases hh : xyOf pts p <;> simp_all [CStat.adjusted, CStat.active]
  | y p => simp only [live, vis] at *; cases hh : xyOf pts p <;> simp_all [CStat.adjusted, CStat.active]
  | z p => simp only [live, vis] at *; cases hh : zOf pts p <;> simp_all [CStat.adjusted, CStat.active]

theorem reset_agree (pts : List PtS) (i j : Unk → Nat) :
    (reset pts i).maxn = (reset pts j).maxn ∧ Agree pts (reset pts i).idx (reset pts j).idx :=
  ⟨rfl, fun u hu => by simp [reset, hu]⟩

theorem touchG_agree (pts : List PtS) (s t : Num) (u : Unk) (hm : s.maxn = t.maxn)
    (ha : Agree pts s.idx t.idx) :
    (touchG pts s u).maxn = (touchG pts t u).maxn ∧ Agree pts (touchG pts s u).idx (touchG pts t u).idx := by
  unfold touchG
  by_cases hl : live pts u = true
  · have hv := live_vis pts u hl
    have e := ha u hv
    simp only [hl, if_true, touch]
    by_cases h0 : s.idx u = 0
    · have h0' : t.idx u = 0 := by rw [← e]; exact h0
      simp only [h0, h0', if_true]
      refine ⟨by rw [hm], fun v hv' => ?_⟩
      by_cases hvu : v = u
      · simp [hvu, hm]
      · simp [hvu, ha v hv']
    · have h0' : ¬ t.idx u = 0 := by rw [← e]; exact h0
      simp only [h0, h0', if_false]
      exact ⟨hm, ha⟩
  · simp only [hl]; exact ⟨hm, ha⟩

theorem refs_agree (pts : List PtS) : ∀ (us : List Unk) (s t : Num), s.maxn = t.maxn → Agree pts s.idx t.idx →
    (us.foldl (touchG pts) s).maxn = (us.foldl (touchG pts) t).maxn
      ∧ Agree pts (us.foldl (touchG pts) s).idx (us.foldl (touchG pts) t).idx := by
  intro us
  induction us with
  | nil => intro s t hm ha; exact ⟨hm, ha⟩
  | cons u us ih =>
    intro s t hm ha
    obtain ⟨h1, h2⟩ := touchG_agree pts s t u hm ha
    exact ih _ _ h1 h2

theorem number_agree (pts : List PtS) : ∀ (obs : List Obs) (s t : Num), s.maxn = t.maxn → Agree pts s.idx t.idx →
    (number pts obs s).maxn = (number pts obs t).maxn
      ∧ Agree pts (number pts obs s).idx (number pts obs t).idx := by
  intro obs
  induction obs with
  | nil => intro s t hm ha; exact ⟨hm, ha⟩
  | cons o obs ih =>
    intro s t hm ha
    obtain ⟨h1, h2⟩ := refs_agree pts o.refs s t hm ha
    exact ih _ _ h1 h2

theorem visible_agree (pts : List PtS) (i j : Unk → Nat) (h : Agree pts i j) : visible pts i = visible pts j := by
  funext u; unfold visible; by_cases hv : vis pts u = true
  · simp [hv, h u hv]
  · simp [hv]

theorem getElem?_xyOf (pts : List PtS) (p : Nat) (q : PtS) (h : pts[p]? = some q) : xyOf pts p = q.xy := by
  simp [xyOf, h]
theorem getElem?_zOf (pts : List PtS) (p : Nat) (q : PtS) (h : pts[p]? = some q) : zOf pts p = q.z := by
  simp [zOf, h]

/-- `r` is the tail of `pts` from position `p` -/
def TailAt (pts r : List PtS) (p : Nat) : Prop := ∀ i q, r[i]? = some q → pts[p + i]? = some q

theorem TailAt.self (pts : List PtS) : TailAt pts pts 0 := fun i q h => by simpa using h

theorem TailAt.tail {pts : List PtS} {q : PtS} {r : List PtS} {p : Nat} (h : TailAt pts (q :: r) p) :
    TailAt pts r (p + 1) := fun i q' hi => by
  have := h (i + 1) q' (by simpa using hi)
  rw [show p + 1 + i = p + (i + 1) by omega]; exact this

theorem TailAt.head {pts : List PtS} {q : PtS} {r : List PtS} {p : Nat} (h : TailAt pts (q :: r) p) :
    pts[p]? = some q := by simpa using h 0 q (by simp)

theorem singularFrom_agree (pts : List PtS) (degen : Nat → Bool) (i j : Unk → Nat) (ha : Agree pts i j) :
    ∀ (r : List PtS) (p : Nat), TailAt pts r p → singularFrom degen i p r = singularFrom degen j p r := by
  intro r
  induction r with
  | nil => intro p _; rfl
  | cons q r ih =>
    intro p ht
    have hq := ht.head
    have hsp : singularPoint degen i p q = singularPoint degen j p q := by
      unfold singularPoint
      by_cases h1 : (q.xy = .fixed || !q.xy.active) = true
      · simp only [h1, if_true]
      · have hact : q.xy.active = true := by
          cases hh : q.xy <;> simp_all [CStat.active]
        have hv : ∀ u, (u = Unk.x p ∨ u = Unk.y p) → vis pts u = true := by
          rintro u (rfl | rfl) <;> simp [vis, getElem?_xyOf pts p q hq, hact]
        rw [ha _ (hv _ (Or.inl rfl)), ha _ (hv _ (Or.inr rfl))]
    simp only [singularFrom, hsp, ih (p + 1) ht.tail]

theorem countFrom_agree (pts : List PtS) (i j : Unk → Nat) (ha : Agree pts i j) :
    ∀ (r : List PtS) (p : Nat), TailAt pts r p → countFrom i p r = countFrom j p r := by
  intro r
  induction r with
  | nil => intro p _; rfl
  | cons q r ih =>
    intro p ht
    have hq := ht.head
    simp only [countFrom, ih (p + 1) ht.tail]
    congr 1
    congr 1
    · by_cases hc : q.xy = .constrained
      · have : vis pts (.x p) = true := by simp [vis, getElem?_xyOf pts p q hq, hc, CStat.active]
        rw [ha _ this]
      · simp [hc]
    · by_cases hc : q.z = .constrained
      · have : vis pts (.z p) = true := by simp [vis, getElem?_zOf pts p q hq, hc, CStat.active]
        rw [ha _ this]
      · simp [hc]

theorem fillFrom_agree (pts : List PtS) (i j : Unk → Nat) (ha : Agree pts i j) :
    ∀ (r : List PtS) (p : Nat), TailAt pts r p → fillFrom i p r = fillFrom j p r := by
  intro r
  induction r with
  | nil => intro p _; rfl
  | cons q r ih =>
    intro p ht
    have hq := ht.head
    simp only [fillFrom, ih (p + 1) ht.tail]
    congr 1
    congr 1
    · by_cases hc : q.xy = .constrained
      · have hx : vis pts (.x p) = true := by simp [vis, getElem?_xyOf pts p q hq, hc, CStat.active]
        have hy : vis pts (.y p) = true := by simp [vis, getElem?_xyOf pts p q hq, hc, CStat.active]
        rw [ha _ hx, ha _ hy]
      · simp [hc]
    · by_cases hc : q.z = .constrained
      · have : vis pts (.z p) = true := by simp [vis, getElem?_zOf pts p q hq, hc, CStat.active]
        rw [ha _ this]
      · simp [hc]

theorem feed_agree (pts : List PtS) (i j : Unk → Nat) (ha : Agree pts i j) : feed i pts = feed j pts := by
  unfold feed countMin fillMin
  rw [countFrom_agree pts i j ha pts 0 (TailAt.self pts), fillFrom_agree pts i j ha pts 0 (TailAt.self pts)]

/-- what the rest of the program can observe of a completed call: the statuses and what was handed over -/
def obsv (r : Option (St × Out)) : Option (List PtS × Out) := r.map fun x => (x.1.pts, x.2)

/-- **no stale state**: a call of `project_equations` depends on the state the previous calls left
    behind ONLY through the point statuses — not on old indexes, not on the old `min_x_`/`min_n_` -/
theorem pe_noStale (W : World) : ∀ (fuel : Nat) (st st' : St) (rm : List String), st.pts = st'.pts →
    obsv (projectEquations W fuel st rm) = obsv (projectEquations W fuel st' rm) := by
  intro fuel
  induction fuel with
  | zero => intro st st' rm _; rfl
  | succ fuel ih =>
    intro st st' rm hp
    obtain ⟨h0m, h0a⟩ := reset_agree st.pts st.idx st'.idx
    obtain ⟨hm, ha⟩ := number_agree st.pts (W.rev st.pts) _ _ h0m h0a
    unfold projectEquations
    rw [← hp]
    simp only []
    rw [visible_agree st.pts _ _ ha]
    have hs := singularFrom_agree st.pts (W.degen st.pts (visible st.pts
      (number st.pts (W.rev st.pts) (reset st.pts st'.idx)).idx)) _ _ ha st.pts 0 (TailAt.self _)
    unfold singularCoords
    rw [hs]
    rcases hsc : singularFrom (W.degen st.pts (visible st.pts (number st.pts (W.rev st.pts) (reset st.pts st'.idx)).idx))
      (number st.pts (W.rev st.pts) (reset st.pts st'.idx)).idx 0 st.pts with ⟨sing, pts', ids⟩
    simp only []
    by_cases hsing : sing = true
    · simp only [hsing, if_true]
      exact ih _ _ _ rfl
    · simp only [hsing]
      rw [feed_agree st.pts _ _ ha, hm]
      rfl

/-- the state of a network on which nothing was ever computed -/
def St.fresh (pts : List PtS) : St := ⟨pts, fun _ => 0, 0, []⟩

/-- a history in which every call starts from a fresh state with the current statuses -/
def runFresh : List PtS → List Step → List (Option Out)
  | _, [] => []
  | pts, e :: r =>
    match projectEquations e.world (fuelFor (e.change pts)) (St.fresh (e.change pts)) [] with
    | none => [none]
    | some (st2, o) => some o :: runFresh st2.pts r

theorem run_eq_runFresh : ∀ (steps : List Step) (st : St), run projectEquations st steps = runFresh st.pts steps := by
  intro steps
  induction steps with
  | nil => intro st; rfl
  | cons e r ih =>
    intro st
    have h := pe_noStale e.world (fuelFor (e.change st.pts)) { st with pts := e.change st.pts }
      (St.fresh (e.change st.pts)) [] rfl
    unfold run runFresh
    simp only []
    rcases h1 : projectEquations e.world (fuelFor (e.change st.pts)) { st with pts := e.change st.pts } [] with _ | ⟨st2, o⟩
    · rw [h1] at h
      rcases h2 : projectEquations e.world (fuelFor (e.change st.pts)) (St.fresh (e.change st.pts)) [] with _ | ⟨st3, o3⟩
      · rfl
      · rw [h2] at h; simp [obsv] at h
    · rw [h1] at h
      rcases h2 : projectEquations e.world (fuelFor (e.change st.pts)) (St.fresh (e.change st.pts)) [] with _ | ⟨st3, o3⟩
      · rw [h2] at h; simp [obsv] at h
      · rw [h2] at h
        simp only [obsv, Option.map_some, Option.some.injEq, Prod.mk.injEq] at h
        simp only []
        rw [h.2, ih st2, h.1]

/-! ### C. what a completed call hands over -/

/-- the numbering of one pass computed from scratch: a function of the statuses and of the
    observation list of THIS pass only -/
def numbering (pts : List PtS) (obs : List Obs) : Num := number pts obs (reset pts fun _ => 0)

/-- description of a completed call by its last inner call (statuses `st2.pts`) -/
structure Final (W : World) (st2 : St) (o : Out) : Prop where
  maxn : o.unknowns = (numbering st2.pts (W.rev st2.pts)).maxn
  idx : Agree st2.pts st2.idx (numbering st2.pts (W.rev st2.pts)).idx
  nosing : (singularCoords (W.degen st2.pts (visible st2.pts st2.idx)) st2.idx st2.pts).1 = false
  minn : o.minn = countMin st2.idx st2.pts
  minx : o.minx = fillMin st2.idx st2.pts
  keepn : st2.minn = o.minn
  keepx : st2.minx = o.minx

theorem pe_final (W : World) : ∀ (fuel : Nat) (st : St) (rm : List String) (st2 : St) (o : Out),
    projectEquations W fuel st rm = some (st2, o) → Final W st2 o := by
  intro fuel
  induction fuel with
  | zero => intro st rm st2 o h; cases h
  | succ fuel ih =>
    intro st rm st2 o h
    unfold projectEquations at h
    simp only [] at h
    rcases hsc : singularCoords (W.degen st.pts (visible st.pts (number st.pts (W.rev st.pts) (reset st.pts st.idx)).idx))
      (number st.pts (W.rev st.pts) (reset st.pts st.idx)).idx st.pts with ⟨sing, pts', ids⟩
    rw [hsc] at h
    simp only [] at h
    by_cases hsing : sing = true
    · simp only [hsing, if_true] at h
      exact ih _ _ _ _ h
    · simp only [hsing] at h
      have hf : sing = false := by simpa using hsing
      simp only [Bool.false_eq_true, if_false, Option.some.injEq, Prod.mk.injEq] at h
      obtain ⟨h1, h2⟩ := h
      subst h1; subst h2
      obtain ⟨h0m, h0a⟩ := reset_agree st.pts st.idx (fun _ => 0)
      obtain ⟨hm, ha⟩ := number_agree st.pts (W.rev st.pts) _ _ h0m h0a
      refine ⟨hm, ha, ?_, ?_, ?_, rfl, rfl⟩
      · show (singularCoords _ _ st.pts).1 = false
        rw [hsc]; exact hf
      · exact feed_fst _ _
      · exact feed_snd _ _

/-! ### D. indexes are 1..n and injective on the unknowns of the pass -/

structure NumInv (pts : List PtS) (s : Num) : Prop where
  le : ∀ u, live pts u = true → s.idx u ≤ s.maxn
  inj : ∀ u v, live pts u = true → live pts v = true → s.idx u = s.idx v → s.idx u ≠ 0 → u = v
  surj : ∀ i, 1 ≤ i → i ≤ s.maxn → ∃ u, live pts u = true ∧ s.idx u = i

theorem reset_inv (pts : List PtS) (idx : Unk → Nat) : NumInv pts (reset pts idx) where
  le := fun u hu => by simp [reset, live_vis pts u hu]
  inj := fun u v hu _ _ h0 => absurd (by simp [reset, live_vis pts u hu]) h0
  surj := fun i h1 h2 => by simp [reset] at h2; omega

theorem touch_inv (pts : List PtS) (s : Num) (u : Unk) (hl : live pts u = true) (h : NumInv pts s) :
    NumInv pts (touch s u) := by
  unfold touch
  by_cases h0 : s.idx u = 0
  · simp only [h0, if_true]
    refine ⟨fun v hv => ?_, fun v w hv hw hvw hne => ?_, fun i h1 h2 => ?_⟩
    · by_cases e : v = u
      · simp [e]
      · simp only [e, if_false]; exact Nat.le_succ_of_le (h.le v hv)
    · by_cases ev : v = u <;> by_cases ew : w = u
      · rw [ev, ew]
      · simp only [ev, ew, if_true, if_false] at hvw
        have := h.le w hw; omega
      · simp only [ev, ew, if_true, if_false] at hvw
        have := h.le v hv; omega
      · simp only [ev, ew, if_false] at hvw hne
        exact h.inj v w hv hw hvw hne
    · by_cases e : i = s.maxn + 1
      · exact ⟨u, hl, by simp [e]⟩
      · obtain ⟨v, hv, hvi⟩ := h.surj i h1 (by simp at h2; omega)
        refine ⟨v, hv, ?_⟩
        have : v ≠ u := fun e' => by rw [e'] at hvi; omega
        simp [this, hvi]
  · simp only [h0, if_false]; exact h

theorem touchG_inv (pts : List PtS) (s : Num) (u : Unk) (h : NumInv pts s) : NumInv pts (touchG pts s u) := by
  unfold touchG
  by_cases hl : live pts u = true
  · simp only [hl, if_true]; exact touch_inv pts s u hl h
  · simp only [hl]; exact h

theorem number_inv (pts : List PtS) : ∀ (obs : List Obs) (s : Num), NumInv pts s → NumInv pts (number pts obs s) := by
  intro obs
  induction obs with
  | nil => intro s h; exact h
  | cons o obs ih =>
    intro s h
    have : ∀ (us : List Unk) (t : Num), NumInv pts t → NumInv pts (us.foldl (touchG pts) t) := by
      intro us
      induction us with
      | nil => intro t ht; exact ht
      | cons u us ihu => intro t ht; exact ihu _ (touchG_inv pts t u ht)
    exact ih _ (this o.refs s h)

/-- the unknowns whose indexes the filling loop writes, in the order it writes them -/
def consFrom (idx : Unk → Nat) : Nat → List PtS → List Unk
  | _, [] => []
  | p, q :: r =>
    (if q.xy = .constrained && idx (.x p) != 0 then [Unk.y p, Unk.x p] else [])
      ++ (if q.z = .constrained && idx (.z p) != 0 then [Unk.z p] else []) ++ consFrom idx (p + 1) r

theorem fillFrom_eq_map (idx : Unk → Nat) : ∀ (r : List PtS) (p : Nat), fillFrom idx p r = (consFrom idx p r).map idx := by
  intro r
  induction r with
  | nil => intro p; rfl
  | cons q r ih =>
    intro p
    simp only [fillFrom, consFrom, List.map_append, ih (p + 1)]
    congr 1
    congr 1 <;> split <;> rfl

def Unk.pos : Unk → Nat
  | .ori _ => 0 | .x p => p | .y p => p | .z p => p

theorem consFrom_pos (idx : Unk → Nat) : ∀ (r : List PtS) (p : Nat), ∀ u ∈ consFrom idx p r, p ≤ u.pos ∧ ∀ k, u ≠ .ori k := by
  intro r
  induction r with
  | nil => intro p u hu; cases hu
  | cons q r ih =>
    intro p u hu
    simp only [consFrom, List.mem_append] at hu
    rcases hu with (hu | hu) | hu
    · split at hu
      · simp at hu; rcases hu with rfl | rfl <;> exact ⟨Nat.le_refl _, fun k => by simp⟩
      · cases hu
    · split at hu
      · simp at hu; subst hu; exact ⟨Nat.le_refl _, fun k => by simp⟩
      · cases hu
    · obtain ⟨h1, h2⟩ := ih (p + 1) u hu
      exact ⟨by omega, h2⟩

theorem consFrom_nodup (idx : Unk → Nat) : ∀ (r : List PtS) (p : Nat), (consFrom idx p r).Nodup := by
  intro r
  induction r with
  | nil => intro p; exact List.nodup_nil
  | cons q r ih =>
    intro p
    simp only [consFrom]
    have hrest : ∀ u ∈ consFrom idx (p + 1) r, p + 1 ≤ u.pos := fun u hu => (consFrom_pos idx r (p + 1) u hu).1
    rw [List.nodup_append]
    refine ⟨?_, ih (p + 1), ?_⟩
    · rw [List.nodup_append]
      refine ⟨?_, ?_, ?_⟩
      · split <;> simp
      · split <;> simp
      · intro a ha b hb
        split at ha <;> split at hb <;> simp at ha hb
        rcases ha with rfl | rfl <;> subst hb <;> simp
    · intro a ha b hb hab
      subst hab
      have hp := hrest a hb
      simp only [List.mem_append] at ha
      rcases ha with ha | ha
      · split at ha
        · simp at ha; rcases ha with rfl | rfl <;> simp [Unk.pos] at hp
        · cases ha
      · split at ha
        · simp at ha; subst ha; simp [Unk.pos] at hp
        · cases ha

/-- all entries of `consFrom` are constrained coordinates of the corresponding point -/
theorem consFrom_mem (pts : List PtS) (idx : Unk → Nat) : ∀ (r : List PtS) (p : Nat), TailAt pts r p →
    ∀ u ∈ consFrom idx p r,
      (∃ k, (u = .x k ∨ u = .y k) ∧ xyOf pts k = .constrained ∧ idx (.x k) ≠ 0)
        ∨ (∃ k, u = .z k ∧ zOf pts k = .constrained ∧ idx (.z k) ≠ 0) := by
  intro r
  induction r with
  | nil => intro p _ u hu; cases hu
  | cons q r ih =>
    intro p ht u hu
    have hq := ht.head
    simp only [consFrom, List.mem_append] at hu
    rcases hu with (hu | hu) | hu
    · left
      split at hu
      · rename_i hc
        simp only [Bool.and_eq_true, bne_iff_ne, ne_eq, decide_eq_true_eq] at hc
        simp at hu
        exact ⟨p, by rcases hu with rfl | rfl <;> simp, by rw [getElem?_xyOf pts p q hq]; exact hc.1, hc.2⟩
      · cases hu
    · right
      split at hu
      · rename_i hc
        simp only [Bool.and_eq_true, bne_iff_ne, ne_eq, decide_eq_true_eq] at hc
        simp at hu
        exact ⟨p, hu, by rw [getElem?_zOf pts p q hq]; exact hc.1, hc.2⟩
      · cases hu
    · exact ih (p + 1) ht.tail u hu

/-- `singular_coords` returned `false`: every non-fixed active xy point has both indexes -/
theorem singularFrom_false (pts : List PtS) (degen : Nat → Bool) (idx : Unk → Nat) :
    ∀ (r : List PtS) (p : Nat), TailAt pts r p → (singularFrom degen idx p r).1 = false →
      ∀ i q, r[i]? = some q → q.xy ≠ .fixed → q.xy.active = true → idx (.x (p + i)) ≠ 0 ∧ idx (.y (p + i)) ≠ 0 := by
  intro r
  induction r with
  | nil => intro p _ _ i q hi; simp at hi
  | cons q0 r ih =>
    intro p ht h i q hi hnf hact
    simp only [singularFrom] at h
    rcases hsp : singularPoint degen idx p q0 with ⟨q', rm⟩
    rcases hsf : singularFrom degen idx (p + 1) r with ⟨b, r', ids⟩
    rw [hsp, hsf] at h
    simp only [Bool.or_eq_false_iff] at h
    cases i with
    | zero =>
      simp at hi; subst hi
      unfold singularPoint at hsp
      have h1 : ¬ ((q0.xy = .fixed || !q0.xy.active) = true) := by simp [hnf, hact]
      simp only [h1, if_false] at hsp
      by_cases h2 : (idx (.x p) = 0 || idx (.y p) = 0) = true
      · simp only [h2, if_true, Bool.false_eq_true, if_false, Prod.mk.injEq] at hsp
        rw [← hsp.2] at h; simp at h
      · simp only [Bool.or_eq_true, decide_eq_true_eq, not_or] at h2
        simpa using h2
    | succ i =>
      have := ih (p + 1) ht.tail (by rw [hsf]; exact h.2) i q (by simpa using hi) hnf hact
      rw [show p + (i + 1) = p + 1 + i by omega]; exact this

/-- **the list handed to the solver is a valid regularisation list**: entries in `1..n`, no repetition -/
theorem fill_valid (pts : List PtS) (s : Num) (hinv : NumInv pts s) (degen : Nat → Bool)
    (hns : (singularCoords degen s.idx pts).1 = false) :
    (∀ i ∈ fillMin s.idx pts, 1 ≤ i ∧ i ≤ s.maxn) ∧ (fillMin s.idx pts).Nodup := by
  have hmem := consFrom_mem pts s.idx pts 0 (TailAt.self pts)
  have hsf := singularFrom_false pts degen s.idx pts 0 (TailAt.self pts) hns
  -- every entry of consFrom is live with a non-zero index
  have hgood : ∀ u ∈ consFrom s.idx 0 pts, live pts u = true ∧ s.idx u ≠ 0 := by
    intro u hu
    rcases hmem u hu with ⟨k, huk, hc, hx⟩ | ⟨k, rfl, hc, hz⟩
    · have hlive : live pts u = true := by rcases huk with rfl | rfl <;> simp [live, hc, CStat.adjusted]
      refine ⟨hlive, ?_⟩
      rcases huk with rfl | rfl
      · exact hx
      · -- index_y: from singular_coords = false
        rcases hk : pts[k]? with _ | q
        · simp [xyOf, hk] at hc
        · have hq : q.xy = .constrained := by rw [← getElem?_xyOf pts k q hk]; exact hc
          have := hsf k q hk (by rw [hq]; simp) (by rw [hq]; rfl)
          simpa using this.2
    · exact ⟨by simp [live, hc, CStat.adjusted], hz⟩
  unfold fillMin
  rw [fillFrom_eq_map]
  refine ⟨fun i hi => ?_, ?_⟩
  · obtain ⟨u, hu, rfl⟩ := List.mem_map.mp hi
    obtain ⟨hl, h0⟩ := hgood u hu
    exact ⟨Nat.pos_of_ne_zero h0, hinv.le u hl⟩
  · refine List.Nodup.map_on ?_ (consFrom_nodup s.idx pts 0)
    intro u hu v hv huv
    exact hinv.inj u v (hgood u hu).1 (hgood v hv).1 huv (hgood u hu).2

/-! ### E. another observation order renumbers consistently -/

/-- the unknowns the linearisation loop touches, in order -/
def touchSeq (pts : List PtS) (obs : List Obs) : List Unk := (obs.flatMap Obs.refs).filter (live pts)

theorem refs_foldl (pts : List PtS) : ∀ (us : List Unk) (s : Num),
    us.foldl (touchG pts) s = (us.filter (live pts)).foldl touch s := by
  intro us
  induction us with
  | nil => intro s; rfl
  | cons u us ih =>
    intro s
    by_cases hl : live pts u = true
    · simp only [List.foldl_cons, List.filter_cons, hl, if_true, ih]
      congr 1; simp [touchG, hl]
    · simp only [List.foldl_cons, List.filter_cons, hl, ih]
      congr 1; simp [touchG, hl]

theorem number_eq (pts : List PtS) : ∀ (obs : List Obs) (s : Num),
    number pts obs s = (touchSeq pts obs).foldl touch s := by
  intro obs
  induction obs with
  | nil => intro s; rfl
  | cons o obs ih =>
    intro s
    have : number pts (o :: obs) s = number pts obs (o.refs.foldl (touchG pts) s) := rfl
    rw [this, ih, refs_foldl]
    simp [touchSeq, List.flatMap_cons, List.filter_append, List.foldl_append]

theorem touch_keep (s : Num) (u v : Unk) (h : s.idx v ≠ 0) : (touch s u).idx v = s.idx v := by
  unfold touch
  by_cases h0 : s.idx u = 0
  · simp only [h0, if_true]
    have : v ≠ u := fun e => h (e ▸ h0)
    simp [this]
  · simp [h0]

theorem touch_self (s : Num) (u : Unk) : (touch s u).idx u ≠ 0 := by
  unfold touch
  by_cases h0 : s.idx u = 0
  · simp [h0]
  · simp [h0]

theorem touch_other (s : Num) (u v : Unk) (h : v ≠ u) : (touch s u).idx v = s.idx v := by
  unfold touch
  by_cases h0 : s.idx u = 0 <;> simp [h0, h]

theorem foldl_keep : ∀ (T : List Unk) (s : Num) (v : Unk), s.idx v ≠ 0 → (T.foldl touch s).idx v = s.idx v := by
  intro T
  induction T with
  | nil => intro s v _; rfl
  | cons u T ih =>
    intro s v h
    have h1 := touch_keep s u v h
    rw [List.foldl_cons, ih _ v (by rw [h1]; exact h), h1]

theorem foldl_mem_ne : ∀ (T : List Unk) (s : Num) (v : Unk), v ∈ T → (T.foldl touch s).idx v ≠ 0 := by
  intro T
  induction T with
  | nil => intro s v h; cases h
  | cons u T ih =>
    intro s v h
    rw [List.foldl_cons]
    rcases List.mem_cons.mp h with rfl | h'
    · rw [foldl_keep T _ v (touch_self s v)]; exact touch_self s v
    · by_cases hvT : (touch s u).idx v ≠ 0
      · rw [foldl_keep T _ v hvT]; exact hvT
      · exact ih _ v h'

theorem foldl_notMem : ∀ (T : List Unk) (s : Num) (v : Unk), v ∉ T → (T.foldl touch s).idx v = s.idx v := by
  intro T
  induction T with
  | nil => intro s v _; rfl
  | cons u T ih =>
    intro s v h
    have hvu : v ≠ u := fun e => h (e ▸ List.mem_cons_self)
    rw [List.foldl_cons, ih _ v (fun hm => h (List.mem_cons_of_mem _ hm)), touch_other s u v hvu]

/-- a completed numbering pass with touch sequence `T` -/
structure Pass (pts : List PtS) (T : List Unk) (s : Num) : Prop where
  inv : NumInv pts s
  mem : ∀ u, live pts u = true → (s.idx u ≠ 0 ↔ u ∈ T)
  sub : ∀ u ∈ T, live pts u = true

theorem pass_of_number (pts : List PtS) (obs : List Obs) (idx0 : Unk → Nat) :
    Pass pts (touchSeq pts obs) (number pts obs (reset pts idx0)) where
  inv := number_inv pts obs _ (reset_inv pts idx0)
  sub := fun u hu => by
    have := (List.mem_filter.mp hu).2
    simpa using this
  mem := fun u hl => by
    rw [number_eq]
    constructor
    · intro h
      by_contra hn
      rw [foldl_notMem _ _ u hn] at h
      exact h (by simp [reset, live_vis pts u hl])
    · exact foldl_mem_ne _ _ u

theorem mem_touchSeq (pts : List PtS) (obs : List Obs) (u : Unk) :
    u ∈ touchSeq pts obs ↔ live pts u = true ∧ ∃ o ∈ obs, u ∈ o.refs := by
  simp [touchSeq, List.mem_filter, List.mem_flatMap, and_comm]

/-- the renumbering from pass `s` (touch sequence `T`) to pass `s'` -/
def sigma (T : List Unk) (s s' : Num) (i : Nat) : Nat :=
  match T.find? (fun u => s.idx u == i) with
  | some u => s'.idx u
  | none => 0

theorem sigma_zero {pts : List PtS} {T : List Unk} {s : Num} (s' : Num) (hP : Pass pts T s) : sigma T s s' 0 = 0 := by
  unfold sigma
  have : T.find? (fun u => s.idx u == 0) = none := by
    rw [List.find?_eq_none]
    intro u hu
    have := (hP.mem u (hP.sub u hu)).mpr hu
    simpa using this
  rw [this]

theorem sigma_idx {pts : List PtS} {T T' : List Unk} {s s' : Num} (hP : Pass pts T s) (hP' : Pass pts T' s')
    (hTT : ∀ u, u ∈ T ↔ u ∈ T') (u : Unk) (hl : live pts u = true) : s'.idx u = sigma T s s' (s.idx u) := by
  by_cases hu : u ∈ T
  · unfold sigma
    rcases hf : T.find? (fun v => s.idx v == s.idx u) with _ | u0
    · rw [List.find?_eq_none] at hf
      exact absurd (by simp) (hf u hu)
    · have h1 : s.idx u0 = s.idx u := by simpa using List.find?_some hf
      have h2 : u0 ∈ T := List.mem_of_find?_eq_some hf
      have h3 : s.idx u0 ≠ 0 := (hP.mem u0 (hP.sub u0 h2)).mpr h2
      have : u0 = u := hP.inv.inj u0 u (hP.sub u0 h2) hl h1 h3
      simp [this]
  · have h0 : s.idx u = 0 := by
      by_contra h; exact hu ((hP.mem u hl).mp h)
    have h0' : s'.idx u = 0 := by
      by_contra h; exact hu ((hTT u).mpr ((hP'.mem u hl).mp h))
    rw [h0, sigma_zero s' hP, h0']

theorem sigma_range {pts : List PtS} {T T' : List Unk} {s s' : Num} (hP : Pass pts T s) (hP' : Pass pts T' s')
    (hTT : ∀ u, u ∈ T ↔ u ∈ T') (i : Nat) (h1 : 1 ≤ i) (h2 : i ≤ s.maxn) :
    1 ≤ sigma T s s' i ∧ sigma T s s' i ≤ s'.maxn := by
  obtain ⟨u, hl, hui⟩ := hP.inv.surj i h1 h2
  have hs := sigma_idx hP hP' hTT u hl
  rw [hui] at hs
  rw [← hs]
  have huT : u ∈ T := (hP.mem u hl).mp (by omega)
  have : s'.idx u ≠ 0 := (hP'.mem u hl).mpr ((hTT u).mp huT)
  exact ⟨Nat.pos_of_ne_zero this, hP'.inv.le u hl⟩

theorem sigma_inj {pts : List PtS} {T T' : List Unk} {s s' : Num} (hP : Pass pts T s) (hP' : Pass pts T' s')
    (hTT : ∀ u, u ∈ T ↔ u ∈ T') (i j : Nat) (hi1 : 1 ≤ i) (hi2 : i ≤ s.maxn) (hj1 : 1 ≤ j) (hj2 : j ≤ s.maxn)
    (h : sigma T s s' i = sigma T s s' j) : i = j := by
  obtain ⟨u, hlu, hui⟩ := hP.inv.surj i hi1 hi2
  obtain ⟨v, hlv, hvj⟩ := hP.inv.surj j hj1 hj2
  have hsu := sigma_idx hP hP' hTT u hlu
  have hsv := sigma_idx hP hP' hTT v hlv
  rw [hui] at hsu; rw [hvj] at hsv
  have huT : u ∈ T := (hP.mem u hlu).mp (by omega)
  have hne : s'.idx u ≠ 0 := (hP'.mem u hlu).mpr ((hTT u).mp huT)
  have : u = v := hP'.inv.inj u v hlu hlv (by rw [hsu, hsv, h]) hne
  rw [← hui, ← hvj, this]

theorem maxn_le {pts : List PtS} {T T' : List Unk} {s s' : Num} (hP : Pass pts T s) (hP' : Pass pts T' s')
    (hTT : ∀ u, u ∈ T ↔ u ∈ T') : s.maxn ≤ s'.maxn := by
  have := Finset.card_le_card_of_injOn (s := Finset.Icc 1 s.maxn) (t := Finset.Icc 1 s'.maxn) (sigma T s s')
    (fun i hi => by
      have hi' := Finset.mem_Icc.mp hi
      exact Finset.mem_Icc.mpr (sigma_range hP hP' hTT i hi'.1 hi'.2))
    (fun i hi j hj hij => by
      have hi' := Finset.mem_Icc.mp (Finset.mem_coe.mp hi)
      have hj' := Finset.mem_Icc.mp (Finset.mem_coe.mp hj)
      exact sigma_inj hP hP' hTT i j hi'.1 hi'.2 hj'.1 hj'.2 hij)
  simpa using this

theorem fillFrom_sigma (pts : List PtS) (σ : Nat → Nat) (i j : Unk → Nat)
    (hσ : ∀ u, live pts u = true → j u = σ (i u)) (hz : ∀ u, live pts u = true → (j u ≠ 0 ↔ i u ≠ 0)) :
    ∀ (r : List PtS) (p : Nat), TailAt pts r p →
      fillFrom j p r = (fillFrom i p r).map σ ∧ countFrom j p r = countFrom i p r := by
  intro r
  induction r with
  | nil => intro p _; exact ⟨rfl, rfl⟩
  | cons q r ih =>
    intro p ht
    have hq := ht.head
    obtain ⟨ih1, ih2⟩ := ih (p + 1) ht.tail
    simp only [fillFrom, countFrom, List.map_append, ih1, ih2]
    have hxy : q.xy = .constrained → live pts (.x p) = true ∧ live pts (.y p) = true := fun hc => by
      simp [live, getElem?_xyOf pts p q hq, hc, CStat.adjusted]
    have hzz : q.z = .constrained → live pts (.z p) = true := fun hc => by
      simp [live, getElem?_zOf pts p q hq, hc, CStat.adjusted]
    have e1 : (q.xy = .constrained && j (.x p) != 0) = (q.xy = .constrained && i (.x p) != 0) := by
      by_cases hc : q.xy = .constrained
      · have := hz _ (hxy hc).1
        by_cases h0 : i (.x p) = 0
        · have : j (.x p) = 0 := by by_contra h; exact (this.mp h) h0
          simp [hc, h0, this]
        · have hj : j (.x p) ≠ 0 := this.mpr h0
          have b1 : (j (.x p) != 0) = true := by simpa using hj
          have b2 : (i (.x p) != 0) = true := by simpa using h0
          simp [hc, b1, b2]
      · simp [hc]
    have e2 : (q.z = .constrained && j (.z p) != 0) = (q.z = .constrained && i (.z p) != 0) := by
      by_cases hc : q.z = .constrained
      · have := hz _ (hzz hc)
        by_cases h0 : i (.z p) = 0
        · have : j (.z p) = 0 := by by_contra h; exact (this.mp h) h0
          simp [hc, h0, this]
        · have hj : j (.z p) ≠ 0 := this.mpr h0
          have b1 : (j (.z p) != 0) = true := by simpa using hj
          have b2 : (i (.z p) != 0) = true := by simpa using h0
          simp [hc, b1, b2]
      · simp [hc]
    rw [e1, e2]
    refine ⟨?_, rfl⟩
    congr 1
    congr 1
    · by_cases hc : (q.xy = .constrained && i (.x p) != 0) = true
      · have hcc : q.xy = .constrained := by simp at hc; exact hc.1
        simp only [hc, if_true, List.map_cons, List.map_nil, hσ _ (hxy hcc).1, hσ _ (hxy hcc).2]
      · simp [hc]
    · by_cases hc : (q.z = .constrained && i (.z p) != 0) = true
      · have hcc : q.z = .constrained := by simp at hc; exact hc.1
        simp only [hc, if_true, List.map_cons, List.map_nil, hσ _ (hzz hcc)]
      · simp [hc]

/-- **renumbering**: two passes over the same statuses whose observation lists contain the same
    observations (e.g. one is a permutation of the other) give the same number of unknowns, and a
    bijection `σ` of `1..n` maps every index of the first pass to the index of the same unknown in
    the second; the regularisation list is mapped entry by entry -/
theorem renumber (pts : List PtS) (obs obs' : List Obs) (idx0 idx0' : Unk → Nat) (h : ∀ o, o ∈ obs' ↔ o ∈ obs) :
    let s := number pts obs (reset pts idx0)
    let s' := number pts obs' (reset pts idx0')
    s'.maxn = s.maxn ∧ ∃ σ : Nat → Nat, σ 0 = 0
      ∧ (∀ i, 1 ≤ i → i ≤ s.maxn → 1 ≤ σ i ∧ σ i ≤ s.maxn)
      ∧ (∀ i j, 1 ≤ i → i ≤ s.maxn → 1 ≤ j → j ≤ s.maxn → σ i = σ j → i = j)
      ∧ (∀ u, live pts u = true → s'.idx u = σ (s.idx u))
      ∧ fillMin s'.idx pts = (fillMin s.idx pts).map σ
      ∧ countMin s'.idx pts = countMin s.idx pts := by
  intro s s'
  have hP : Pass pts (touchSeq pts obs) s := pass_of_number pts obs idx0
  have hP' : Pass pts (touchSeq pts obs') s' := pass_of_number pts obs' idx0'
  have hTT : ∀ u, u ∈ touchSeq pts obs ↔ u ∈ touchSeq pts obs' := by
    intro u; rw [mem_touchSeq, mem_touchSeq]
    constructor
    · rintro ⟨hl, o, ho, hu⟩; exact ⟨hl, o, (h o).mpr ho, hu⟩
    · rintro ⟨hl, o, ho, hu⟩; exact ⟨hl, o, (h o).mp ho, hu⟩
  have hn : s'.maxn = s.maxn :=
    Nat.le_antisymm (maxn_le hP' hP fun u => (hTT u).symm) (maxn_le hP hP' hTT)
  refine ⟨hn, sigma (touchSeq pts obs) s s', sigma_zero s' hP, ?_, ?_, sigma_idx hP hP' hTT, ?_⟩
  · intro i h1 h2; rw [← hn]; exact sigma_range hP hP' hTT i h1 h2
  · exact sigma_inj hP hP' hTT
  · have hz : ∀ u, live pts u = true → (s'.idx u ≠ 0 ↔ s.idx u ≠ 0) := fun u hl => by
      rw [hP'.mem u hl, hP.mem u hl]; exact (hTT u).symm
    exact fillFrom_sigma pts _ s.idx s'.idx (sigma_idx hP hP' hTT) hz pts 0 (TailAt.self pts)

/-! ### F. the recursion through `singular_coords` terminates within the fuel -/

/-- number of points with an active xy group -/
def axy : List PtS → Nat
  | [] => 0
  | q :: r => (if q.xy.active then 1 else 0) + axy r

theorem axy_le_length : ∀ r : List PtS, axy r ≤ r.length
  | [] => Nat.le_refl _
  | q :: r => by
    have := axy_le_length r
    simp only [axy, List.length_cons]; split <;> omega

theorem singularPoint_axy (degen : Nat → Bool) (idx : Unk → Nat) (p : Nat) (q : PtS) :
    (if (singularPoint degen idx p q).1.xy.active then 1 else 0) + (if (singularPoint degen idx p q).2 then 1 else 0)
      ≤ (if q.xy.active then 1 else 0) := by
  unfold singularPoint
  by_cases h1 : (q.xy = .fixed || !q.xy.active) = true
  · simp [h1]
  · have hact : q.xy.active = true := by cases hh : q.xy <;> simp_all [CStat.active]
    simp only [h1, if_false]
    by_cases h2 : (idx (.x p) = 0 || idx (.y p) = 0) = true
    · simp only [h2, if_true, hact]; simp [CStat.active]
    · simp only [h2, if_false]
      by_cases h3 : degen p = true
      · simp only [h3, if_true, hact]; simp [CStat.active]
      · simp [h3, hact]

theorem singularFrom_axy (degen : Nat → Bool) (idx : Unk → Nat) : ∀ (r : List PtS) (p : Nat),
    axy (singularFrom degen idx p r).2.1 + (if (singularFrom degen idx p r).1 then 1 else 0) ≤ axy r := by
  intro r
  induction r with
  | nil => intro p; simp [singularFrom, axy]
  | cons q r ih =>
    intro p
    have h1 := singularPoint_axy degen idx p q
    have h2 := ih (p + 1)
    have helper : ∀ (a a0 c c0 : Nat) (x b : Bool), a + (if x = true then 1 else 0) ≤ a0 →
        c + (if b = true then 1 else 0) ≤ c0 → a + c + (if (x || b) = true then 1 else 0) ≤ a0 + c0 := by
      intro a a0 c c0 x b h1 h2
      cases x <;> cases b <;> simp at h1 h2 ⊢ <;> omega
    simp only [singularFrom, axy]
    exact helper _ _ _ _ _ _ h1 h2

/-- **termination**: `fuelFor` is always enough -/
theorem pe_fuel (W : World) : ∀ (fuel : Nat) (st : St) (rm : List String), axy st.pts < fuel →
    (projectEquations W fuel st rm).isSome = true := by
  intro fuel
  induction fuel with
  | zero => intro st rm h; omega
  | succ fuel ih =>
    intro st rm h
    unfold projectEquations
    simp only []
    have hax := singularFrom_axy (W.degen st.pts (visible st.pts (number st.pts (W.rev st.pts) (reset st.pts st.idx)).idx))
      (number st.pts (W.rev st.pts) (reset st.pts st.idx)).idx st.pts 0
    unfold singularCoords
    rcases hsc : singularFrom (W.degen st.pts (visible st.pts (number st.pts (W.rev st.pts) (reset st.pts st.idx)).idx))
      (number st.pts (W.rev st.pts) (reset st.pts st.idx)).idx 0 st.pts with ⟨sing, pts', ids⟩
    rw [hsc] at hax
    simp only [] at hax ⊢
    by_cases hsing : sing = true
    · simp only [hsing, if_true] at hax ⊢
      exact ih _ _ (by simp only []; omega)
    · simp [hsing]

theorem pe_fuelFor (W : World) (st : St) (rm : List String) :
    (projectEquations W (fuelFor st.pts) st rm).isSome = true :=
  pe_fuel W _ st rm (by have := axy_le_length st.pts; unfold fuelFor; omega)

theorem runFresh_all_some : ∀ (steps : List Step) (pts : List PtS), ∀ o ∈ runFresh pts steps, o.isSome = true := by
  intro steps
  induction steps with
  | nil => intro pts o ho; cases ho
  | cons e r ih =>
    intro pts o ho
    unfold runFresh at ho
    have hs := pe_fuelFor e.world (St.fresh (e.change pts)) []
    rcases h : projectEquations e.world (fuelFor (e.change pts)) (St.fresh (e.change pts)) [] with _ | ⟨st2, o2⟩
    · have : (St.fresh (e.change pts)).pts = e.change pts := rfl
      rw [this, h] at hs; cases hs
    · rw [h] at ho
      rcases List.mem_cons.mp ho with rfl | ho'
      · rfl
      · exact ih _ o ho'

/-! ### G. the specification of one completed call -/

/-- `u` is a constrained coordinate (`constrained_xy()` / `constrained_z()` of its point) -/
def consCoord (pts : List PtS) : Unk → Bool
  | .ori _ => false
  | .x k => xyOf pts k = .constrained
  | .y k => xyOf pts k = .constrained
  | .z k => zOf pts k = .constrained

theorem consFrom_of (idx : Unk → Nat) : ∀ (r : List PtS) (p : Nat) (i : Nat) (q : PtS), r[i]? = some q →
    (q.xy = .constrained → idx (.x (p + i)) ≠ 0 →
        Unk.x (p + i) ∈ consFrom idx p r ∧ Unk.y (p + i) ∈ consFrom idx p r) ∧
    (q.z = .constrained → idx (.z (p + i)) ≠ 0 → Unk.z (p + i) ∈ consFrom idx p r) := by
  intro r
  induction r with
  | nil => intro p i q hi; simp at hi
  | cons q0 r ih =>
    intro p i q hi
    cases i with
    | zero =>
      simp at hi; subst hi
      refine ⟨fun hc h0 => ?_, fun hc h0 => ?_⟩
      · have b : (idx (.x p) != 0) = true := by simpa using h0
        simp [consFrom, hc, b]
      · have b : (idx (.z p) != 0) = true := by simpa using h0
        simp [consFrom, hc, b]
    | succ i =>
      have := ih (p + 1) i q (by simpa using hi)
      rw [show p + 1 + i = p + (i + 1) by omega] at this
      refine ⟨fun hc h0 => ?_, fun hc h0 => ?_⟩
      · obtain ⟨a, b⟩ := this.1 hc h0
        simp only [consFrom, List.mem_append]
        exact ⟨Or.inr a, Or.inr b⟩
      · have a := this.2 hc h0
        simp only [consFrom, List.mem_append]
        exact Or.inr a

/-- everything the rest of the program and the solver get from one completed call, as a function of
    the statuses the call ends with and of the observation list `W.rev` gives for THEM -/
theorem pe_spec (W : World) (fuel : Nat) (st : St) (rm : List String) (st2 : St) (o : Out)
    (h : projectEquations W fuel st rm = some (st2, o)) :
    let s := numbering st2.pts (W.rev st2.pts)
    o.unknowns = s.maxn ∧ o.minx = fillMin s.idx st2.pts ∧ o.minn = countMin s.idx st2.pts
      ∧ o.minx.length = o.minn
      ∧ (∀ i ∈ o.minx, 1 ≤ i ∧ i ≤ o.unknowns) ∧ o.minx.Nodup
      ∧ (∀ i, i ∈ o.minx ↔ ∃ u, consCoord st2.pts u = true ∧ s.idx u ≠ 0 ∧ s.idx u = i)
      ∧ st2.minx = o.minx ∧ st2.minn = o.minn := by
  intro s
  have hF := pe_final W fuel st rm st2 o h
  have ha : Agree st2.pts st2.idx s.idx := hF.idx
  have hx : o.minx = fillMin s.idx st2.pts := by
    rw [hF.minx]; exact fillFrom_agree st2.pts _ _ ha st2.pts 0 (TailAt.self _)
  have hn : o.minn = countMin s.idx st2.pts := by
    rw [hF.minn]; exact countFrom_agree st2.pts _ _ ha st2.pts 0 (TailAt.self _)
  have hns : (singularCoords (W.degen st2.pts (visible st2.pts st2.idx)) s.idx st2.pts).1 = false := by
    have := hF.nosing
    unfold singularCoords at this ⊢
    rw [← singularFrom_agree st2.pts _ _ _ ha st2.pts 0 (TailAt.self _)]; exact this
  have hinv : NumInv st2.pts s := number_inv _ _ _ (reset_inv _ _)
  obtain ⟨hv1, hv2⟩ := fill_valid st2.pts s hinv _ hns
  have hsf := singularFrom_false st2.pts _ s.idx st2.pts 0 (TailAt.self _) hns
  refine ⟨hF.maxn, hx, hn, ?_, ?_, ?_, ?_, hF.keepx, hF.keepn⟩
  · rw [hx, hn, fillMin, fillFrom_length]; rfl
  · rw [hx, hF.maxn]; exact hv1
  · rw [hx]; exact hv2
  · intro i
    rw [hx, fillMin, fillFrom_eq_map, List.mem_map]
    constructor
    · rintro ⟨u, hu, rfl⟩
      refine ⟨u, ?_, ?_, rfl⟩
      · rcases consFrom_mem st2.pts s.idx st2.pts 0 (TailAt.self _) u hu with ⟨k, huk, hc, _⟩ | ⟨k, rfl, hc, _⟩
        · rcases huk with rfl | rfl <;> simp [consCoord, hc]
        · simp [consCoord, hc]
      · have := hv1 (s.idx u) (by rw [fillMin, fillFrom_eq_map]; exact List.mem_map_of_mem hu)
        omega
    · rintro ⟨u, hc, h0, rfl⟩
      refine ⟨u, ?_, rfl⟩
      cases u with
      | ori k => simp [consCoord] at hc
      | x k =>
        simp only [consCoord, decide_eq_true_eq] at hc
        rcases hk : st2.pts[k]? with _ | q
        · simp [xyOf, hk] at hc
        · have hq : q.xy = .constrained := by rw [← getElem?_xyOf st2.pts k q hk]; exact hc
          have := (consFrom_of s.idx st2.pts 0 k q hk).1 hq (by simpa using h0)
          simpa using this.1
      | y k =>
        simp only [consCoord, decide_eq_true_eq] at hc
        rcases hk : st2.pts[k]? with _ | q
        · simp [xyOf, hk] at hc
        · have hq : q.xy = .constrained := by rw [← getElem?_xyOf st2.pts k q hk]; exact hc
          have hxk := (hsf k q hk (by rw [hq]; simp) (by rw [hq]; rfl)).1
          have := (consFrom_of s.idx st2.pts 0 k q hk).1 hq (by simpa using hxk)
          simpa using this.2
      | z k =>
        simp only [consCoord, decide_eq_true_eq] at hc
        rcases hk : st2.pts[k]? with _ | q
        · simp [zOf, hk] at hc
        · have hq : q.z = .constrained := by rw [← getElem?_zOf st2.pts k q hk]; exact hc
          have := (consFrom_of s.idx st2.pts 0 k q hk).2 hq (by simpa using h0)
          simpa using this

/-! ### a concrete history (non-vacuity of Props/C08) -/

namespace Ex
/-- A, B constrained, C fixed; three distances -/
def pts : List PtS := [⟨"A", .constrained, .unused⟩, ⟨"B", .constrained, .unused⟩, ⟨"C", .fixed, .unused⟩]
def dAB : Obs := ⟨.distance, 0, 0, 1, 0⟩
def dBC : Obs := ⟨.distance, 0, 1, 2, 0⟩
def dAC : Obs := ⟨.distance, 0, 0, 2, 0⟩
def W1 : World := ⟨fun _ => [dAB, dBC, dAC], fun _ _ _ => false⟩
/-- the first observation (an outlier) has been removed: B is numbered before A now -/
def W2 : World := ⟨fun _ => [dBC, dAC], fun _ _ _ => false⟩
def steps : List Step := [⟨id, W1⟩, ⟨id, W2⟩]
end Ex

end Gama.MinX
