/-
  Shared vocabulary for the lemmas about `Homogenization::run` on a whole block-diagonal object
  (Model/Homogenization.lean, Model/BlockDiagonal.lean):

  * `rowsBefore Cs k`  — number of observation rows before block `k` (0-based `k`);
  * `TabOK tab Cs`     — the `UpperBlockDiagonal` table: row `i` of block `k` starts at the packed row
                         start `rowOff` of that block inside the whole buffer and has `rowLen` elements;
  * `denseRow`         — dense reading of a sparse row (sum of the entries with that column);
  * `colOf`            — a column of the rows `off+1 … off+d` of a sparse matrix as a vector.
-/
import Gama.Lemmas.CovBdMulti
import Gama.Model.Homogenization
import Gama.Model.Sparse
namespace Gama.Cov
open Packed CovMat

variable {K : Type}

/-- rows before block `k` (0-based) -/
def rowsBefore (Cs : List (CovMat K)) (k : Nat) : Nat := ((Cs.take k).map (fun C => C.dim)).sum

/-- floats before block `k` (0-based) = `begin(k+1) - nonz_` -/
def floatsBefore (Cs : List (CovMat K)) (k : Nat) : Nat := (flat (Cs.take k)).length

/-- the `UpperBlockDiagonal` row table describes the packed rows of the blocks `Cs` -/
def TabOK (tab : Array Nat) (Cs : List (CovMat K)) : Prop :=
  ∀ k (hk : k < Cs.length) i, 1 ≤ i → i ≤ (Cs[k]'hk).dim →
    (tab.getD (rowsBefore Cs k + i) 0 : Int) =
      (floatsBefore Cs k : Int) + rowOff (Cs[k]'hk).dim (Cs[k]'hk).band i ∧
    tab.getD (rowsBefore Cs k + i + 1) 0 =
      tab.getD (rowsBefore Cs k + i) 0 + rowLen (Cs[k]'hk).dim (Cs[k]'hk).band i

/-- dense reading of one sparse row: sum of the values stored with column `c` -/
def denseRow [Add K] [Zero K] (row : List (Nat × K)) (c : Nat) : K :=
  (row.filter (fun e => e.1 == c)).foldl (fun acc e => acc + e.2) 0

/-- column `c` of the rows `off+1 … off+d` of a sparse matrix, as a vector of length `d` -/
def colOf [Add K] [Zero K] [Inhabited K] (mat : SMat K) (off d c : Nat) : Array K :=
  ((List.range' 1 d).map fun i => denseRow (mat.rowEntries (off + i)) c).toArray

end Gama.Cov
