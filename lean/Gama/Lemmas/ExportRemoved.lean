/-
  C13 / F29 — when does the abs-term stage of the re-run reproduce the active flags of the exported run.
-/
import Gama.Model.ExportRemoved
import Mathlib.Tactic.Common
namespace Gama.Removed
open Gama Gama.Rev

variable {K : Type}

theorem removeHuge_length (test : List (Pt K) → Obs K → Bool) (pts : List (Pt K)) (obs : List (Obs K)) :
    (removeHuge test pts obs).length = obs.length := by simp [removeHuge]

/-- on parsed observations (all active) the stage sets `active := !test` and touches nothing else -/
theorem removeHuge_active (test : List (Pt K) → Obs K → Bool) (pts : List (Pt K)) (obs : List (Obs K))
    (hall : ∀ o ∈ obs, o.active = true) :
    removeHuge test pts obs = obs.map fun o => { o with active := !test pts o } := by
  unfold removeHuge
  apply List.map_congr_left
  intro o ho
  have ha := hall o ho
  cases ht : test pts o
  · cases o; simp_all
  · simp [ha]

/-- the export forgets the flags: after the stage, exporting gives the parsed observations back -/
theorem exported_removeHuge (test : List (Pt K) → Obs K → Bool) (pts : List (Pt K)) (obs : List (Obs K))
    (hall : ∀ o ∈ obs, o.active = true) : exported (removeHuge test pts obs) = obs := by
  rw [removeHuge_active test pts obs hall]
  unfold exported
  rw [List.map_map]
  calc List.map _ obs = List.map id obs := by
        apply List.map_congr_left
        intro o ho
        have ha := hall o ho
        cases o; simp_all
    _ = obs := List.map_id obs

/-- **characterisation**: the re-run's stage reproduces the flags of the first run iff the test gives the same verdict at
    the exported coordinates as at the given ones, on every observation -/
theorem rerun_eq_iff (test : List (Pt K) → Obs K → Bool) (pts pts' : List (Pt K)) (obs : List (Obs K))
    (hall : ∀ o ∈ obs, o.active = true) :
    rerun test pts' (removeHuge test pts obs) = removeHuge test pts obs ↔ ∀ o ∈ obs, test pts' o = test pts o := by
  unfold rerun
  rw [exported_removeHuge test pts obs hall, removeHuge_active test pts' obs hall, removeHuge_active test pts obs hall]
  constructor
  · intro h o ho
    have := List.map_inj_left.1 h o ho
    have h2 : (!test pts' o) = (!test pts o) := congrArg Obs.active this
    cases h1 : test pts' o <;> cases h3 : test pts o <;> simp_all
  · intro h
    apply List.map_congr_left
    intro o ho
    rw [h o ho]

/-- the verdicts agree iff neither kind of change happens -/
theorem verdicts_iff (test : List (Pt K) → Obs K → Bool) (pts pts' : List (Pt K)) (obs : List (Obs K)) :
    (∀ o ∈ obs, test pts' o = test pts o) ↔
      (¬ ∃ o ∈ obs, test pts o = true ∧ test pts' o = false) ∧ (¬ ∃ o ∈ obs, test pts o = false ∧ test pts' o = true) := by
  constructor
  · intro h
    refine ⟨?_, ?_⟩
    · rintro ⟨o, ho, h1, h2⟩; rw [h o ho, h1] at h2; cases h2
    · rintro ⟨o, ho, h1, h2⟩; rw [h o ho, h1] at h2; cases h2
  · rintro ⟨h1, h2⟩ o ho
    cases a : test pts o <;> cases b : test pts' o
    · rfl
    · exact absurd ⟨o, ho, a, b⟩ h2
    · exact absurd ⟨o, ho, a, b⟩ h1
    · rfl

theorem nActive_map_not (f : Obs K → Bool) (obs : List (Obs K)) :
    nActive (obs.map fun o => { o with active := !f o }) = (obs.filter fun o => !f o).length := by
  unfold nActive
  induction obs with
  | nil => rfl
  | cons o t ih =>
    simp only [List.map_cons, List.filter_cons]
    cases f o <;> simp_all

/-- F29's direction: some observation was removed that passes at the exported coordinates, and none that was kept fails
    there ⇒ the re-adjustment has MORE equations -/
theorem rerun_more_equations (test : List (Pt K) → Obs K → Bool) (pts pts' : List (Pt K)) (obs : List (Obs K))
    (hall : ∀ o ∈ obs, o.active = true)
    (hback : ∃ o ∈ obs, test pts o = true ∧ test pts' o = false)
    (hnone : ∀ o ∈ obs, test pts o = false → test pts' o = false) :
    nActive (removeHuge test pts obs) < nActive (rerun test pts' (removeHuge test pts obs)) := by
  unfold rerun
  rw [exported_removeHuge test pts obs hall, removeHuge_active test pts' obs hall, removeHuge_active test pts obs hall,
    nActive_map_not, nActive_map_not]
  clear hall
  induction obs with
  | nil => obtain ⟨o, ho, _⟩ := hback; cases ho
  | cons o t ih =>
    have hle : ∀ l : List (Obs K), (∀ o ∈ l, test pts o = false → test pts' o = false) →
        (l.filter fun o => !test pts o).length ≤ (l.filter fun o => !test pts' o).length := by
      intro l hl
      induction l with
      | nil => exact Nat.le_refl _
      | cons a l ihl =>
        have hl' := ihl (fun o ho => hl o (List.mem_cons_of_mem _ ho))
        have ha := hl a (List.mem_cons_self)
        simp only [List.filter_cons]
        cases h1 : test pts a <;> cases h2 : test pts' a <;> simp_all <;> omega
    have ht := hle t (fun o ho => hnone o (List.mem_cons_of_mem _ ho))
    obtain ⟨w, hw, h1, h2⟩ := hback
    simp only [List.filter_cons]
    rcases List.mem_cons.1 hw with rfl | hwt
    · simp [h1, h2]; omega
    · have ih' := ih ⟨w, hwt, h1, h2⟩ (fun o ho => hnone o (List.mem_cons_of_mem _ ho))
      have ho := hnone o List.mem_cons_self
      cases a : test pts o <;> cases b : test pts' o <;> simp_all <;> omega

end Gama.Removed
