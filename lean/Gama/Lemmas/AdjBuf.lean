/-
  C04 round 3 — the matrix `Adj` hands a full-matrix solver along any history denotes the homogenised
  system of the CURRENT problem (Model/AdjBuf.lean), hence the numeric answers are `adjFull`'s.
  Core Lean only.
-/
import Gama.Model.AdjBuf
import Gama.Lemmas.AdjHist
namespace Gama.C04.AdjM
open Gama Gama.Ls Gama.Ls.AdjM Gama.Ls.Dn

variable {K : Type} [Scalar K]

theorem getD_zeros (m n s : Nat) :
    (zeros (K := K) m n).getD s (Array.replicate n 0) = Array.replicate n 0 := by
  unfold zeros
  simp only [Array.getD]
  split <;> simp

/-- on a ZEROED matrix the copy loop produces the dense design matrix -/
theorem copyRows_zeros (p : Problem K) : copyRows (zeros p.m p.n) p = p.dense := by
  unfold copyRows Problem.dense
  simp only [getD_zeros]
  apply Array.ext
  · simp
  · intro i h1 h2
    simp

theorem homFrom_dense (p : Problem K) : homFrom p p.dense = homogenise p := rfl

/-- the provenance the code produces denotes the homogenised system of that problem -/
theorem denoteIn_fresh (W : Nat → Problem K) (d : Nat) :
    denoteIn W (.filled d .zero) = homogenise (W d) := by
  simp only [denoteIn, fillNum, copyRows_zeros, homFrom_dense]

theorem adjFullFrom_homogenise (alg : Ls.Alg) (p : Problem K) :
    adjFullFrom alg p (homogenise p) = adjFull alg p := by
  unfold adjFullFrom adjFull
  cases homogenise p with
  | error e => rfl
  | ok r => rfl

/-- the numeric answers behind the expected provenance are those of a fresh `Adj` on problem `d` -/
theorem adjNum_expected (W : Nat → Problem K) (inp : AInput) (a : AdjM.Alg) :
    adjNum W a inp.id (expectedIn inp a) = adjSolve (lsAlg a) (W inp.id) := by
  cases a <;> simp [expectedIn, adjNum, denoteIn_fresh, adjFullFrom_homogenise, lsAlg, adjSolve]

end Gama.C04.AdjM
