/-
  C07 — the MIRRORED description on the pass `project_equations()` itself executes (round 9; gap #9 rest of
  notes/CLAUSES.md audit #3, C07 rows 7b/7c).

  `C07_mirror_assembled` (Props/C07.lean) is about `C07Perm.codeMatrixOf` over hand-packed `GenRow`s.  Here the
  mirrored description is a function on what the pass READS (`Lin.Net`, `NObs`: `mirLin`, `mirNObs`) and the statement is
  about `passMatrix r` / `r.rhs` of two runs of `Lin.passFrom` over `Gen.Lin` (the loop `drv_lin` / `drv_pe` execute):

    * `view_mir`, `lin_mirView`   the record the mirrored pass hands to `LocalLinearization::<type>` is C07's `mirObs`
                                   of the original record (the 10 classes that do not read `orientation` / `xNorth`
                                   ignore that the mirrored network negates them: by unfolding the regenerated text)
    * `passFrom_mir_idx`           both passes end with the SAME numbering (`index_*` fields)
    * `mir_entry`, `mir_rhs`       entry `(i, idx u)` of the mirrored pass = `s_i · t_u ·` entry of the original,
                                   `s_i = −1` on direction / angle / azimuth / Y / Ydiff rows, `t_u = −1` on y and
                                   orientation unknowns; `rhs' = s_i · rhs` unless an angular rhs sits at `+200 gon`
    * `mirror_of_pass`             `A' = D_s A D_t`, `b' = D_s b`, and `IsLSSolution` transported (`D_t x`, `D_s v`, same Φ)
-/
import Gama.Lemmas.C07ProjectEquations
import Gama.Lemmas.C07Assemble
namespace Gama.C07Mir
open Gama Gama.Lin Gama.PE Gama.LS Gama.C06FP Gama.C07PE Matrix

/-! ### the mirrored description of what a pass reads -/

/-- C05's class ↦ C07's class -/
def toRK : Kind → RowKind
  | .direction => .direction | .distance => .distance | .angle => .angle | .h_diff => .h_diff
  | .s_distance => .s_distance | .z_angle => .z_angle | .x => .x | .y => .y | .z => .z
  | .xdiff => .xdiff | .ydiff => .ydiff | .zdiff => .zdiff | .azimuth => .azimuth

/-- is the observed value negated in the mirrored description (horizontal angles read in the other sense; `Y`, `Ydiff`) -/
def kNeg : Kind → Bool
  | .direction | .angle | .azimuth | .y | .ydiff => true
  | _ => false

/-- the observed value in the mirrored description -/
def mirVal : Kind → ℝ → ℝ
  | .direction, v | .angle, v | .azimuth, v | .y, v | .ydiff, v => -v
  | _, v => v

/-- sign of the mirrored row -/
def kSgn (k : Kind) : ℝ := rowSgn (toRK k)

theorem kSgn_sq (k : Kind) : kSgn k * kSgn k = 1 := rowSgn_sq _

theorem kSgn_eq (k : Kind) : kSgn k = if kNeg k then -1 else 1 := by cases k <;> simp [kSgn, toRK, rowSgn, kNeg]

theorem kSgn_of_angular (k : Kind) (h : (toRK k).angular = true) : kSgn k = -1 := by
  cases k <;> simp [toRK, RowKind.angular] at h <;> simp [kSgn, toRK, rowSgn]

def mirNObs (ob : NObs ℝ) : NObs ℝ := { ob with value := mirVal ob.kind ob.value }

/-- the mirrored network as the pass reads it: `y ↦ −y`, every orientation and `xNorthAngle` in the other sense -/
def mirLin (σ : Lin.Net ℝ) : Lin.Net ℝ :=
  { pt := fun i => flipPt (σ.pt i), ori := fun k => -σ.ori k, xNorth := -σ.xNorth }

/-- the record `LocalLinearization::<type>` reads in the mirrored network -/
def mirView (k : Kind) (o : Obs ℝ) : Obs ℝ :=
  { flipObs o with value := mirVal k o.value, orientation := -o.orientation, xNorth := -o.xNorth }

theorem view_mir (σ : Lin.Net ℝ) (ob : NObs ℝ) : (mirLin σ).view (mirNObs ob) = mirView ob.kind (σ.view ob) := rfl

theorem name_mir (ob : NObs ℝ) : (mirNObs ob).name = ob.name := by
  funext r c; cases r <;> rfl

theorem guard_iff (k : Kind) (o : Obs ℝ) : guard (toRK k) o ↔ Regular k o := by cases k <;> exact Iff.rfl

/-- the regenerated member function on the mirrored record = C07's mirrored row (`mirObs`): the classes that do not
    read `orientation` / `xNorth` do not see that the mirrored network negates them -/
theorem lin_mirView (k : Kind) (fuel : Nat) (o : Obs ℝ) :
    k.lin fuel (mirView k o) = Lin.lin (toRK k) fuel (mirObs (toRK k) o) := by
  cases k <;>
    simp only [Kind.lin, Lin.lin, toRK, mirObs, mirView, mirVal, negObs, Gen.Lin.direction, Gen.Lin.distance,
      Gen.Lin.angle, Gen.Lin.azimuth, Gen.Lin.s_distance, Gen.Lin.z_angle, Gen.Lin.h_diff, Gen.Lin.x, Gen.Lin.y,
      Gen.Lin.z, Gen.Lin.xdiff, Gen.Lin.ydiff, Gen.Lin.zdiff] <;> rfl

/-- one row: the mirrored record linearises to the mirrored row -/
theorem row_mir (k : Kind) (fuel fuel' : Nat) (o : Obs ℝ) (out out' : LinOut ℝ) (hreg : Regular k o)
    (hok : k.lin fuel o = .ok out) (hok' : k.lin fuel' (mirView k o) = .ok out') : MirrorRel (toRK k) out out' := by
  rw [lin_mirView] at hok'
  have hok2 : Lin.lin (toRK k) fuel o = .ok out := by cases k <;> exact hok
  exact row_mirror _ fuel fuel' o out out' ((guard_iff k o).2 hreg) hok2 hok'

/-! ### `symEntry` (C05) and `identCoef` (C07) are the same sum -/

theorem symEntry_eq_identCoef (name : Role → Coord → Unk) (evs : List (Ev ℝ)) (u : Unk) :
    symEntry name (pushes evs) u = identCoef ⟨name, evs⟩ u := by
  unfold identCoef
  simp only
  generalize pushes evs = l
  induction l with
  | nil => simp
  | cons p t ih =>
    obtain ⟨r, c, v⟩ := p
    rw [symEntry_cons, ih]
    by_cases h : name r c = u
    · simp [h]
    · simp [h]

theorem symEntry_mir (ob : NObs ℝ) (k : RowKind) (out out' : LinOut ℝ) (h : MirrorRel k out out') (u : Unk) :
    symEntry ob.name out'.pushes u = rowSgn k * mirrorSgn u.c * symEntry ob.name out.pushes u := by
  have hname : ∀ r c, (ob.name r c).c = c := fun r c => by rw [name_eq]
  show symEntry ob.name (pushes out'.evs) u = _ * symEntry ob.name (pushes out.evs) u
  rw [symEntry_eq_identCoef, symEntry_eq_identCoef]
  exact identCoef_sign ob.name hname out.evs out'.evs _ mirrorSgn h.2.1 u

/-! ### the two passes -/

section
variable (σ : Lin.Net ℝ) (fuel fuel' : Nat)

/-- both passes end with the same numbering of the unknowns -/
theorem passFrom_mir_idx : ∀ (obs : List (NObs ℝ)) (s : IdxState) (r r' : PassOut ℝ),
    passFrom σ fuel obs s = .ok r → passFrom (mirLin σ) fuel' (obs.map mirNObs) s = .ok r' →
    (∀ ob ∈ obs, Regular ob.kind (σ.view ob)) → r'.idx = r.idx
  | [], s, r, r', hp, hp', _ => by
    simp only [passFrom, List.map_nil] at hp hp'
    injection hp with hp; injection hp' with hp'; subst hp; subst hp'; rfl
  | ob :: t, s, r, r', hp, hp', hreg => by
    obtain ⟨out, rr, ho, hrr, rfl⟩ := passFrom_cons hp
    rw [List.map_cons] at hp'
    obtain ⟨out', rr', ho', hrr', rfl⟩ := passFrom_cons hp'
    rw [view_mir] at ho'
    have hk : (mirNObs ob).kind = ob.kind := rfl
    rw [hk] at ho'
    have hrel := row_mir ob.kind fuel fuel' _ out out' (hreg ob (List.mem_cons_self ..)) ho ho'
    have hst : (runEvs (mirNObs ob).name out'.evs s).1 = (runEvs ob.name out.evs s).1 := by
      rw [name_mir, runEvs_state_map, runEvs_state_map, hrel.1]
    rw [hst] at hrr'
    exact passFrom_mir_idx t _ rr rr' hrr hrr' (fun ob' h' => hreg ob' (List.mem_cons_of_mem _ h'))

variable (obs : List (NObs ℝ)) (s0 : IdxState) (r r' : PassOut ℝ)

/-- entries of the mirrored pass, by the unknown that owns the column -/
theorem mir_entry (hs0 : s0.WF) (hp : passFrom σ fuel obs s0 = .ok r)
    (hp' : passFrom (mirLin σ) fuel' (obs.map mirNObs) s0 = .ok r')
    (hreg : ∀ ob ∈ obs, Regular ob.kind (σ.view ob)) (i : Fin obs.length) (u : Unk) :
    codeMatrix r'.rows i.val (r.idx.get u) = kSgn obs[i].kind * mirrorSgn u.c * codeMatrix r.rows i.val (r.idx.get u) := by
  have hidx := passFrom_mir_idx σ fuel fuel' obs s0 r r' hp hp' hreg
  have hget : obs[i.val]? = some obs[i] := by simp
  have hget' : (obs.map mirNObs)[i.val]? = some (mirNObs obs[i]) := by simp
  obtain ⟨out, ho, _, hsym⟩ := passFrom_rows σ fuel obs s0 r hs0 hp i.val obs[i] hget
  obtain ⟨out', ho', _, hsym'⟩ := passFrom_rows (mirLin σ) fuel' (obs.map mirNObs) s0 r' hs0 hp' i.val _ hget'
  rw [view_mir] at ho'
  have hk : (mirNObs obs[i]).kind = obs[i].kind := rfl
  rw [hk] at ho'
  have hrel := row_mir obs[i].kind fuel fuel' _ out out' (hreg _ (List.getElem_mem i.isLt)) ho ho'
  have h1 := hsym (PE.lin_wellTouched _ _ _ _ ho) u
  have h2 := hsym' (PE.lin_wellTouched _ _ _ _ ho') u
  rw [hidx, name_mir] at h2
  rw [h2, h1]
  exact symEntry_mir obs[i] _ out out' hrel u

/-- right-hand sides of the mirrored pass -/
theorem mir_rhs (hs0 : s0.WF) (hp : passFrom σ fuel obs s0 = .ok r)
    (hp' : passFrom (mirLin σ) fuel' (obs.map mirNObs) s0 = .ok r')
    (hreg : ∀ ob ∈ obs, Regular ob.kind (σ.view ob))
    (hnb : ∀ i : Fin obs.length, (toRK obs[i].kind).angular = true → r.rhs.getD i.val 0 ≠ HALF) (i : Fin obs.length) :
    r'.rhs.getD i.val 0 = kSgn obs[i].kind * r.rhs.getD i.val 0 := by
  have hget : obs[i.val]? = some obs[i] := by simp
  have hget' : (obs.map mirNObs)[i.val]? = some (mirNObs obs[i]) := by simp
  obtain ⟨out, ho, hr, _⟩ := passFrom_rows σ fuel obs s0 r hs0 hp i.val obs[i] hget
  obtain ⟨out', ho', hr', _⟩ := passFrom_rows (mirLin σ) fuel' (obs.map mirNObs) s0 r' hs0 hp' i.val _ hget'
  rw [view_mir] at ho'
  have hk : (mirNObs obs[i]).kind = obs[i].kind := rfl
  rw [hk] at ho'
  have hrel := (row_mir obs[i].kind fuel fuel' _ out out' (hreg _ (List.getElem_mem i.isLt)) ho ho').2.2
  have e : r.rhs.getD i.val 0 = out.rhs := by simp [List.getD_eq_getElem?_getD, hr]
  have e' : r'.rhs.getD i.val 0 = out'.rhs := by simp [List.getD_eq_getElem?_getD, hr']
  rw [e, e']
  by_cases ha : (toRK obs[i].kind).angular = true
  · rw [if_pos ha] at hrel
    have hne : out.rhs ≠ HALF := by rw [← e]; exact hnb i ha
    rw [hrel.1 hne]
    rw [kSgn_of_angular _ ha]; ring
  · rw [if_neg ha] at hrel; exact hrel

end

/-! ### column signs -/

/-- sign of column `j` (0-based): −1 when the unknown that owns it is a `y` or an orientation -/
noncomputable def colSgn (s : IdxState) (j : Nat) : ℝ :=
  open Classical in if h : ∃ u : Unk, s.get u = j + 1 then mirrorSgn (choose h).c else 1

theorem colSgn_sq (s : IdxState) (j : Nat) : colSgn s j * colSgn s j = 1 := by
  unfold colSgn
  split
  · exact mirrorSgn_sq _
  · norm_num

theorem colSgn_spec (s : IdxState) (hs : s.WF) (j : Nat) (u : Unk) (hu : s.get u = j + 1) :
    colSgn s j = mirrorSgn u.c := by
  unfold colSgn
  have h : ∃ u : Unk, s.get u = j + 1 := ⟨u, hu⟩
  rw [dif_pos h]
  have h2 := Classical.choose_spec h
  have : Classical.choose h = u := IdxState.get_inj' hs (by omega) (by rw [h2, hu])
  rw [this]

/-! ### matrix form and the least-squares solution -/

section
variable (σ : Lin.Net ℝ) (fuel fuel' : Nat) (obs : List (NObs ℝ)) (s0 : IdxState) (r r' : PassOut ℝ)

/-- **the mirrored pass, matrix form, on the pass's own matrix**: same number of columns, `A' = D_s A D_t`,
    `b' = D_s b` -/
theorem mirror_matrix (hs0 : s0.WF) (hp : passFrom σ fuel obs s0 = .ok r)
    (hp' : passFrom (mirLin σ) fuel' (obs.map mirNObs) s0 = .ok r')
    (hreg : ∀ ob ∈ obs, Regular ob.kind (σ.view ob)) :
    r'.idx = r.idx ∧
    ∀ (i : Fin obs.length) (j : Nat), j < r.idx.maxn →
      codeMatrix r'.rows i.val (j + 1) = kSgn obs[i].kind * colSgn r.idx j * codeMatrix r.rows i.val (j + 1) := by
  have hidx := passFrom_mir_idx σ fuel fuel' obs s0 r r' hp hp' hreg
  refine ⟨hidx, fun i j hj => ?_⟩
  have hok := PE.passFrom_ok σ fuel obs s0 r hs0 hp
  obtain ⟨u, _, hu⟩ := IdxState.exists_key hok.wf (j + 1) (by omega) (by omega)
  rw [← hu, mir_entry σ fuel fuel' obs s0 r r' hs0 hp hp' hreg i u, colSgn_spec r.idx hok.wf j u hu]

/-- **mirror, on the executed pass**: a least-squares solution of the pass (`passMatrix r`, `r.rhs`, weights `P`,
    regularisation subset `S`) gives the solution of the mirrored pass with weights `D_s P D_s`: unknowns `D_t x`
    (`y` and orientation corrections negated), residuals `D_s v`, the same Φ, the same subset -/
theorem mirror_of_pass (hs0 : s0.WF) (hp : passFrom σ fuel obs s0 = .ok r)
    (hp' : passFrom (mirLin σ) fuel' (obs.map mirNObs) s0 = .ok r')
    (hreg : ∀ ob ∈ obs, Regular ob.kind (σ.view ob))
    (hnb : ∀ i : Fin obs.length, (toRK obs[i].kind).angular = true → r.rhs.getD i.val 0 ≠ HALF)
    (P : Matrix (Fin obs.length) (Fin obs.length) ℝ) (S : Finset (Fin r.idx.maxn))
    (x : Fin r.idx.maxn → ℝ) (v : Fin obs.length → ℝ) (rtr : ℝ)
    (h : IsLSSolution (passMatrix r obs.length) (fun i : Fin obs.length => r.rhs.getD i.val 0) P S x v rtr) :
    ∃ e : Fin r'.idx.maxn ≃ Fin r.idx.maxn, (∀ j, (e j).val = j.val) ∧
      passMatrix r' obs.length =
        (diagonal (fun i : Fin obs.length => kSgn obs[i].kind) * passMatrix r obs.length *
          diagonal (fun j : Fin r.idx.maxn => colSgn r.idx j.val)).submatrix id e ∧
      (fun i : Fin obs.length => r'.rhs.getD i.val 0) =
        diagonal (fun i : Fin obs.length => kSgn obs[i].kind) *ᵥ (fun i : Fin obs.length => r.rhs.getD i.val 0) ∧
      IsLSSolution (passMatrix r' obs.length) (fun i : Fin obs.length => r'.rhs.getD i.val 0)
        (diagonal (fun i : Fin obs.length => kSgn obs[i].kind) * P * diagonal (fun i : Fin obs.length => kSgn obs[i].kind))
        (S.map e.symm.toEmbedding)
        ((diagonal (fun j : Fin r.idx.maxn => colSgn r.idx j.val) *ᵥ x) ∘ e)
        (diagonal (fun i : Fin obs.length => kSgn obs[i].kind) *ᵥ v) rtr := by
  obtain ⟨hidx, hent⟩ := mirror_matrix σ fuel fuel' obs s0 r r' hs0 hp hp' hreg
  have hn : r'.idx.maxn = r.idx.maxn := by rw [hidx]
  let e : Fin r'.idx.maxn ≃ Fin r.idx.maxn := finCongr hn
  have hA : passMatrix r' obs.length =
      (diagonal (fun i : Fin obs.length => kSgn obs[i].kind) * passMatrix r obs.length *
        diagonal (fun j : Fin r.idx.maxn => colSgn r.idx j.val)).submatrix id e := by
    funext i j
    simp only [submatrix_apply, id, diagonal_mul, mul_diagonal]
    show codeMatrix r'.rows i.val (j.val + 1) = kSgn obs[i].kind * codeMatrix r.rows i.val ((e j).val + 1) * colSgn r.idx (e j).val
    have : (e j).val = j.val := rfl
    rw [this, hent i j.val (by rw [← hn]; exact j.isLt)]
    ring
  have hb : (fun i : Fin obs.length => r'.rhs.getD i.val 0) =
      diagonal (fun i : Fin obs.length => kSgn obs[i].kind) *ᵥ (fun i : Fin obs.length => r.rhs.getD i.val 0) := by
    funext i
    rw [mulVec_diagonal]
    exact mir_rhs σ fuel fuel' obs s0 r r' hs0 hp hp' hreg hnb i
  refine ⟨e, fun _ => rfl, hA, hb, ?_⟩
  rw [hA, hb]
  have h1 := (h.rowSign (fun i : Fin obs.length => kSgn obs[i].kind) (fun i => kSgn_sq _)).colSign
    (fun j : Fin r.idx.maxn => colSgn r.idx j.val) (fun j => colSgn_sq _ _)
  exact h1.perm (Equiv.refl _) e

end

end Gama.C07Mir
