/-
  The refusal half for `Doc'`: the run of the value parser over the events of a document in the documented vocabulary
  records its first error exactly at `Doc'.firstBad` (Model/GkfDocRefuse.lean), and `firstBad = none` iff the document
  is `valid` with `valuesOk`.

  `Res cs evs s P r` extends the segment calculus `Seg` of Lemmas/GkfDocTree.lean: for `r = none` it IS `Seg` (all
  documented conditions hold, clean in state `s`, members satisfy `P`), for `r = some (i, k)` the run has recorded the
  error `k` at the `i`-th event of the segment.
-/
import Gama.Model.GkfDocRefuse
import Gama.Lemmas.GkfDocTree
namespace Gama.Gkf
open Gama.Lit

theorem crun_n (evs : List CEvent) (cs : CSt) : (crun cs evs).st.n = cs.st.n + evs.length := by
  rw [crun_st, run_n, absEvents_length]

theorem crun_err_preserved (evs : List CEvent) (cs : CSt) (e : Nat × ErrKind) (h : cs.st.err = some e) :
    (crun cs evs).st.err = some e := by
  rw [crun_st]; exact run_err_preserved _ _ _ h

/-! ### the calculus -/

def Res (cs : CSt) (evs : List CEvent) (s : State) (P : Ctx → Prop) : Bad → Prop
  | none => Seg cs evs s P
  | some (i, k) => (crun cs evs).st.err = some (cs.st.n + i, k)

theorem seqBad_none_right (r : Bad) (n : Nat) : seqBad r n none = r := by cases r <;> rfl

theorem Res.append {cs : CSt} {a b : List CEvent} {s1 s2 : State} {P Q : Ctx → Prop} {r1 r2 : Bad}
    (h1 : Res cs a s1 P r1) (h2 : ∀ cs' : CSt, Clean cs'.st s1 → P cs'.ctx → Res cs' b s2 Q r2) :
    Res cs (a ++ b) s2 Q (seqBad r1 a.length r2) := by
  cases r1 with
  | some x =>
    obtain ⟨i, k⟩ := x
    show (crun cs (a ++ b)).st.err = some (cs.st.n + i, k)
    rw [crun_append]
    exact crun_err_preserved _ _ _ h1
  | none =>
    have h1' : Seg cs a s1 P := h1
    have h2' := h2 (crun cs a) h1'.2.1 h1'.2.2
    cases r2 with
    | none => exact Seg.append h1' (fun cs' hc hp => h2 cs' hc hp)
    | some x =>
      obtain ⟨i, k⟩ := x
      show (crun cs (a ++ b)).st.err = some (cs.st.n + (a.length + i), k)
      rw [crun_append]
      have : (crun (crun cs a) b).st.err = some ((crun cs a).st.n + i, k) := h2'
      rw [this, crun_n, Nat.add_assoc]

theorem Res.cons {cs : CSt} {e : CEvent} {b : List CEvent} {s1 s2 : State} {P Q : Ctx → Prop} {r1 r2 : Bad}
    (h1 : Res cs [e] s1 P r1) (h2 : ∀ cs' : CSt, Clean cs'.st s1 → P cs'.ctx → Res cs' b s2 Q r2) :
    Res cs (e :: b) s2 Q (seqBad r1 1 r2) := Res.append (a := [e]) h1 h2

theorem Res.mono {cs : CSt} {a : List CEvent} {s : State} {P Q : Ctx → Prop} {r : Bad} (h : Res cs a s P r)
    (hpq : ∀ c, P c → Q c) : Res cs a s Q r := by
  cases r with
  | none => exact Seg.mono (P := P) h hpq
  | some x => exact h

theorem Res.flatMap {α : Type} (s : State) (P : Ctx → Prop) (f : α → List CEvent) (bad : α → Bad) (len : α → Nat) :
    ∀ (l : List α) (cs : CSt), (∀ a ∈ l, (f a).length = len a) →
      (∀ a ∈ l, ∀ cs' : CSt, Clean cs'.st s → P cs'.ctx → Res cs' (f a) s P (bad a)) →
      Clean cs.st s → P cs.ctx → Res cs (l.flatMap f) s P (badList bad len l) := by
  intro l
  induction l with
  | nil => intro cs _ _ hc hp; exact Seg.nil cs s P hc hp
  | cons a r ih =>
    intro cs hlen h hc hp
    simp only [List.flatMap_cons, badList]
    rw [← hlen a List.mem_cons_self]
    exact Res.append (h a List.mem_cons_self cs hc hp)
      (fun cs' hc' hp' => ih cs' (fun b hb => hlen b (List.mem_cons_of_mem _ hb))
        (fun b hb => h b (List.mem_cons_of_mem _ hb)) hc' hp')

/-! ### one event -/

theorem entryOk_free (b : Bool) (s : List Char) : entryOk ⟨.free, b⟩ s = true := by simp [entryOk, checkOk]

/-- the attribute loop looks at every attribute, or every documented attribute of the element is a free token -/
def allOrFree (g : Handler) : Bool :=
  attrLoop g == .all || (docNames g).all (fun n => match docCheck g n with | some ⟨.free, _⟩ => true | _ => false)

theorem all_or_free_table : ∀ g : Handler, allOrFree g = true := forall_handler (by decide)

theorem names_of_vocab (t : Tag) (as : List CAttr) (h : attrsVocab t as = true) :
    ∀ a ∈ as, a.name ∈ docNames (tagHandler t) := by
  intro a ha
  have := (List.all_eq_true.mp h) a ha
  simp only [Bool.and_eq_true, List.contains_iff_mem] at this
  exact this.1

/-- documented names, the loosely checked attributes documented: a value outside its documented language / range is
    refused by the value checks of `process_g` -/
theorem valuesOk_false_of_doc (g : Handler) (as : List CAttr) (hv : ∀ a ∈ as, a.name ∈ docNames g ∧
      (a.name ∈ looseAttrs g → ∃ d, docCheck g a.name = some d ∧ entryOk d a.val = true))
    (hbad : docValuesOk g as = false) : valuesOk g (examined g as) = false := by
  rw [Bool.eq_false_iff]
  intro hall
  apply Bool.eq_false_iff.mp hbad
  simp only [docValuesOk, List.all_eq_true, Bool.and_eq_true, List.contains_iff_mem]
  intro a ha
  obtain ⟨hm, hl⟩ := hv a ha
  refine ⟨hm, ?_⟩
  have R := doc_refined_table g
  simp only [docRefined, List.all_eq_true] at R
  have R1 := R a.name hm
  have T := all_or_free_table g
  simp only [allOrFree, Bool.or_eq_true, beq_iff_eq, List.all_eq_true] at T
  cases hd : docCheck g a.name with
  | none => rw [hd] at R1; cases R1
  | some d =>
    rw [hd] at R1
    cases he : valueCheck g a.name with
    | none => rw [he] at R1; cases R1
    | some e =>
      show entryOk d a.val = true
      rcases T with hall' | hfree
      · by_cases hloose : a.name ∈ looseAttrs g
        · obtain ⟨d', hd', hok⟩ := hl hloose
          rw [hd] at hd'
          cases hd'
          exact hok
        · have heq : docCheck g a.name = valueCheck g a.name := by
            apply Classical.byContradiction
            intro hne
            apply hloose
            simp only [looseAttrs, List.mem_filter]
            exact ⟨hm, by simpa using hne⟩
          have hex : examined g as = as := by simp only [examined, hall']
          rw [hex] at hall
          have := (List.all_eq_true.mp hall) a ha
          simp only [valueOk, ← heq, hd] at this
          exact this
      · have := hfree a.name hm
        rw [hd] at this
        obtain ⟨c, b⟩ := d
        cases c <;> first | exact entryOk_free b a.val | cases this

theorem vocab_split (t : Tag) (as : List CAttr) (h : attrsVocab t as = true) :
    ∀ a ∈ as, a.name ∈ docNames (tagHandler t) ∧
      (a.name ∈ looseAttrs (tagHandler t) → ∃ d, docCheck (tagHandler t) a.name = some d ∧ entryOk d a.val = true) := by
  intro a ha
  have := (List.all_eq_true.mp h) a ha
  simp only [Bool.and_eq_true, List.contains_iff_mem, Bool.or_eq_true, Bool.not_eq_true'] at this
  refine ⟨this.1, ?_⟩
  intro hl
  rcases this.2 with hn | hm
  · have : (looseAttrs (tagHandler t)).contains a.name = true := by simpa using hl
    rw [hn] at this; cases this
  · cases hd : docCheck (tagHandler t) a.name with
    | none => rw [hd] at hm; cases hm
    | some d => rw [hd] at hm; exact ⟨d, rfl, hm⟩

/-- a start tag (documented vocabulary) whose values are not all documented or that breaks a documented rule records
    `handler` at this event -/
theorem start_fail (cs : CSt) (s : State) (t : Tag) (as : List CAttr) (h : Handler) (hc : Clean cs.st s)
    (hrun : start s t = .run h) (hv : attrsVocab t as = true) (hbad : elemOk cs.ctx.standpointId t as = false) :
    (cstep cs (.start t as)).st.err = some (cs.st.n, .handler) := by
  have hg := valueHandler_eq s t h hrun
  have hrun' : start cs.st.state t = .run h := by rw [hc.1]; exact hrun
  have hdoc := names_of_vocab t as hv
  have hh : handlerOk cs.ctx (tagHandler t) as = false := by
    cases hval : attrsDocOk t as with
    | false =>
      have := valuesOk_false_of_doc (tagHandler t) as (vocab_split t as hv) (by rw [← attrsDocOk_eq]; exact hval)
      simp [handlerOk, this]
    | true =>
      have hr : rulesOk cs.ctx.standpointId t as = false := by
        simpa [elemOk, hval] using hbad
      have : ∃ r ∈ docRules (tagHandler t), ruleOk cs.ctx.standpointId as r = false := by
        apply Classical.byContradiction
        intro hne
        have : rulesOk cs.ctx.standpointId t as = true := by
          simp only [rulesOk, List.all_eq_true]
          intro r hr'
          cases hb : ruleOk cs.ctx.standpointId as r with
          | true => rfl
          | false => exact absurd ⟨r, hr', hb⟩ hne
        rw [this] at hr; cases hr
      obtain ⟨r, hr1, hr2⟩ := this
      exact handlerOk_false_of_rule cs.ctx (tagHandler t) as r hdoc hr1 hr2
  simp only [cstep, toAbs, hrun', hg, hh]
  exact step_handler_fail _ t _ h hc.2 hrun'

theorem start_docOk (cs : CSt) (s : State) (t : Tag) (as : List CAttr) (h : Handler) (hc : cs.st.state = s)
    (hrun : start s t = .run h) (hvals : attrsDocOk t as = true) (hrules : rulesOk cs.ctx.standpointId t as = true) :
    docEventOk cs (.start t as) = true := by
  have hg := valueHandler_eq s t h hrun
  simp only [docEventOk, hc, hrun, hg, Bool.and_eq_true]
  have hv : docValuesOk (tagHandler t) (examined (tagHandler t) as) = true := by
    rw [attrsDocOk_eq] at hvals
    simp only [docValuesOk, List.all_eq_true] at hvals ⊢
    intro a ha
    exact hvals a (examined_sub _ _ a ha)
  have hn : ∀ a ∈ examined (tagHandler t) as, a.name ∈ docNames (tagHandler t) :=
    fun a ha => names_of_attrsDocOk t as hvals a (examined_sub _ _ a ha)
  have hr := rules_examined (tagHandler t) cs.ctx.standpointId as hrules
  exact ⟨⟨⟨hv, required_of_rules _ _ _ hn hr⟩, pairs_of_rules _ _ _ hn hr⟩, cross_of_rules _ _ _ hn hr⟩

/-- a `<point>` inside `<coordinates>` whose attributes pass every check but give neither x,y nor z -/
theorem xyz_fail (cs : CSt) (as : List CAttr) (hc : Clean cs.st .coords)
    (hok : elemOk cs.ctx.standpointId .point_ as = true) (hx : hasXYorZ (absAttrs as) = false) :
    (cstep cs (.start .point_ as)).st.err = some (cs.st.n, .handler) := by
  simp only [elemOk, Bool.and_eq_true] at hok
  have hstart : start .coords .point_ = .run .coords_point_ := rfl
  have hd := start_docOk cs .coords .point_ as .coords_point_ hc.1 hstart hok.1 hok.2
  have hattrs : attrsOk .point_ (absAttrs as) = true :=
    attrsOk_of_documented .point_ .point_ _ (documented_of_attrsDocOk .point_ as hok.1) (by decide)
  simp only [cstep, toAbs_of_docOk cs _ hd, shape, step, react, hc.1, hstart, handlerOps, execOps, hattrs, hx,
    Bool.and_self, if_true, Bool.false_eq_true, if_false, St.error, hc.2]

theorem stop_fail (cs : CSt) (s s1 : State) (f : Finish) (pd : Bool) (hc : Clean cs.st s)
    (hstop : stop s = .goto s1 (some f)) (hf : finishOk cs.ctx f pd = false) :
    (cstep cs (.stop pd)).st.err = some (cs.st.n, .finish) := by
  have hstop' : stop cs.st.state = .goto s1 (some f) := by rw [hc.1]; exact hstop
  simp only [cstep, toAbs, hstop', hf, step, react, St.error, hc.2, Bool.false_eq_true, if_false]

/-- a start tag in the documented vocabulary: accepted (members as `startCtx` says) or refused here -/
theorem start_res (cs : CSt) (s s1 : State) (t : Tag) (as : List CAttr) (h : Handler) (hc : Clean cs.st s)
    (hrun : start s t = .run h) (hs : startOk s t s1 = true) (hx : needsXYZ s t = false)
    (hv : attrsVocab t as = true) :
    Res cs [.start t as] s1 (fun c => elemOk cs.ctx.standpointId t as = true ∧ c = startCtx cs.ctx h as)
      (elemBad cs.ctx.standpointId t as) := by
  unfold elemBad
  cases hok : elemOk cs.ctx.standpointId t as with
  | true =>
    simp only [if_true]
    have hok' := hok
    simp only [elemOk, Bool.and_eq_true] at hok'
    have e := start_event_ok cs s s1 t as h hc hrun hs (by rw [hx]; intro hh; cases hh) hok'.1 hok'.2
    have hseg : Seg cs [.start t as] s1 (fun c => True ∧ c = startCtx cs.ctx h as) :=
      Seg.single cs _ s1 _ ⟨e.1, e.2.1, trivial, e.2.2⟩
    exact hseg
  | false =>
    simp only [Bool.false_eq_true, if_false]
    show (crun cs [.start t as]).st.err = some (cs.st.n + 0, .handler)
    exact start_fail cs s t as h hc hrun hv hok

/-! ### the closing tag of a cluster -/

theorem finish_nocov_eq (k : ClusterKind) (ctx : Ctx) (pd : Bool) (hd : ctx.idim = 0) :
    finishOk ctx k.finish pd = ((k == .obs || k == .hdiffs) && pd) := by
  cases k <;> simp [finishOk, ClusterKind.finish, finishSpec, hd]

theorem finish_cov_eq (k : ClusterKind) (ctx : Ctx) (pd : Bool) (d b n : Nat) (text : List Char)
    (hd : ctx.idim = d) (hb : ctx.iband = b) (hn : ctx.nobs = n) (ht : ctx.covData = text) (hbd : b < d) :
    finishOk ctx k.finish pd =
      (d == n && (Cov.words text).length == covElements d b && (Cov.words text).all toDoubleOk && pd) := by
  have hne : (d != 0) = true := by simpa using (by omega : d ≠ 0)
  have hz : (d == 0) = false := by simpa using (by omega : d ≠ 0)
  simp only [finishOk, hd, hb, hn, ht, finish_checks_dim_table k.finish, hne, hz, Bool.or_true, Bool.true_and,
    Bool.not_true, Bool.false_or]
  cases hfc : Cov.finishCov d b text with
  | ok ps =>
    obtain ⟨h1, h2, _⟩ := Cov.finishCov_ok d b text ps hbd hfc
    have : (Cov.words text).all toDoubleOk = true := List.all_eq_true.mpr h2
    simp [h1, this]
  | error e =>
    have : ((Cov.words text).length == covElements d b && (Cov.words text).all toDoubleOk) = false := by
      rw [Bool.eq_false_iff]
      intro hh
      simp only [Bool.and_eq_true, beq_iff_eq, List.all_eq_true] at hh
      obtain ⟨ps, hps⟩ := Cov.finishCov_complete d b text hh.1 hh.2
      rw [hps] at hfc
      cases hfc
    cases hdn : (d == n) <;> simp [this]

/-! ### clusters -/

theorem kidTags_eq (k : ClusterKind) : kidTags k = clusterTags k := by cases k <;> rfl

/-- a child of the cluster `k` (documented vocabulary): counted, or refused at its start tag -/
theorem leaf_res (k : ClusterKind) (inh : List Char) (cs : CSt) (l : Leaf') (hc : Clean cs.st k.state)
    (hinh : cs.ctx.standpointId = inh) (htag : l.tag ∈ clusterTags k) (hv : attrsVocab l.tag l.attrs = true) :
    Res cs l.events k.state (fun c => SameBut cs.ctx c ∧ c.nobs = cs.ctx.nobs + l.count) (l.bad (k == .coords) inh) := by
  have T := (List.all_eq_true.mp (item_effects_table k)) l.tag htag
  simp only [Bool.and_eq_true, beq_iff_eq] at T
  obtain ⟨⟨hleaf, hneed⟩, heff⟩ := T
  unfold Leaf'.bad
  cases hok : l.ok (k == .coords) inh with
  | true =>
    simp only [if_true]
    simp only [Leaf'.ok, elemOk, Bool.and_eq_true, Bool.or_eq_true, Bool.not_eq_true'] at hok
    obtain ⟨⟨hvals, hrules⟩, hxyz⟩ := hok
    obtain ⟨h, hstart, hseg⟩ := leaf_seg cs k.state l hc hleaf
      (by intro hn; rw [hneed] at hn; rcases hxyz with hf | ht
          · rw [hn] at hf; cases hf
          · exact ht) hvals (by rw [hinh]; exact hrules)
    rw [hstart] at heff
    simp only [beq_iff_eq] at heff
    have hseg' : Seg cs l.events k.state (fun c => SameBut cs.ctx c ∧ c.nobs = cs.ctx.nobs + l.count) := by
      refine Seg.mono hseg ?_
      intro c hcx
      refine ⟨hcx.1, ?_⟩
      have hcnt : l.count = _ := count_eq l.tag l.attrs
      rw [hcx.2, heff, hcnt]
      dsimp only
      omega
    exact hseg'
  | false =>
    simp only [Bool.false_eq_true, if_false]
    show (crun cs l.events).st.err = some (cs.st.n + 0, .handler)
    unfold Leaf'.events
    rw [crun_cons]
    apply crun_err_preserved
    unfold leafOk at hleaf
    cases hstart : start k.state l.tag with
    | run h =>
      cases hel : elemOk inh l.tag l.attrs with
      | false => exact start_fail cs k.state l.tag l.attrs h hc hstart hv (by rw [hinh]; exact hel)
      | true =>
        simp only [Leaf'.ok, hel, Bool.true_and, Bool.or_eq_false_iff, Bool.not_eq_false'] at hok
        have hk : k = .coords := by simpa using hok.1
        subst hk
        obtain ⟨t, as⟩ := l
        have ht : t = .point_ := by simpa [clusterTags] using htag
        subst ht
        exact xyz_fail cs as hc (by rw [hinh]; exact hel) hok.2
    | set s' => rw [hstart] at hleaf; cases hleaf
    | err e => rw [hstart] at hleaf; cases hleaf
    | ignore => rw [hstart] at hleaf; cases hleaf

theorem items_res (k : ClusterKind) (inh : List Char) : ∀ (items : List Leaf') (cs : CSt) (n : Nat),
    Clean cs.st k.state → InCluster inh n cs.ctx →
    (∀ l ∈ items, l.tag ∈ clusterTags k ∧ attrsVocab l.tag l.attrs = true) →
    Res cs (items.flatMap Leaf'.events) k.state (InCluster inh (n + (items.map Leaf'.count).sum))
      (badList (Leaf'.bad (k == .coords) inh) (fun _ => 2) items) := by
  intro items
  induction items with
  | nil => intro cs n hc hi _; exact Seg.nil cs _ _ hc (by simpa using hi)
  | cons l r ih =>
    intro cs n hc hi hall
    obtain ⟨htag, hv⟩ := hall l List.mem_cons_self
    have h1 := leaf_res k inh cs l hc hi.1 htag hv
    simp only [List.flatMap_cons, List.map_cons, List.sum_cons, badList]
    have hlen : l.events.length = 2 := rfl
    rw [← hlen]
    refine Res.append h1 ?_
    intro cs' hc' hp'
    have hin : InCluster inh (n + l.count) cs'.ctx := by
      obtain ⟨⟨a1, a2, _, a4⟩, a5⟩ := hp'
      exact ⟨a1.trans hi.1, a2.trans hi.2.1, a4.trans hi.2.2.1, by rw [a5, hi.2.2.2]⟩
    have := ih cs' (n + l.count) hc' hin (fun b hb => hall b (List.mem_cons_of_mem _ hb))
    rw [Nat.add_assoc] at this
    exact this

theorem cov_rule_indices (as : List CAttr) (hr : rulesOk [] .cov_mat as = true) :
    ∃ x y, toIndex (attrStr as "band") = some x ∧ toIndex (attrStr as "dim") = some y ∧ x < y := by
  simp only [rulesOk, tagHandler, docRules, List.all_cons, List.all_nil, ruleOk, Bool.and_true, Bool.and_eq_true] at hr
  have h3 := hr.2.2
  cases hb : toIndex (attrStr as "band") with
  | none => rw [hb] at h3; cases h3
  | some x =>
    cases hd : toIndex (attrStr as "dim") with
    | none => rw [hb, hd] at h3; cases h3
    | some y =>
      rw [hb, hd] at h3
      exact ⟨x, y, rfl, rfl, by simpa using h3⟩

/-- a cluster in the documented vocabulary, entered between two children of `<points-observations>`: accepted, leaving
    the members as it found them, or refused at `Cluster'.bad` -/
theorem cluster_res (c : Cluster') (cs : CSt) (hc : Clean cs.st .point_obs) (h0 : Inv0 cs.ctx) (hv : c.inVocab = true) :
    Res cs c.events .point_obs Inv0 c.bad := by
  have T := cluster_table c.kind
  simp only [clusterTableOk, Bool.and_eq_true] at T
  obtain ⟨⟨⟨⟨⟨⟨h_open, _⟩, h_cov⟩, h_txt⟩, _⟩, _⟩, _⟩ := T
  simp only [Cluster'.inVocab, Bool.and_eq_true] at hv
  obtain ⟨⟨⟨hv_attrs, hv_items⟩, hv_cov⟩, _⟩ := hv
  have hstart : start .point_obs c.kind.tag = .run c.kind.openHandler := by cases c.kind <;> rfl
  have hinh : c.kind ≠ .obs → c.inh = [] := by
    intro hk
    have : (c.kind == ClusterKind.obs) = false := by simpa using hk
    simp [Cluster'.inh, this]
  have hdocnames : ∀ a ∈ c.attrs, a.name ∈ docNames c.kind.openHandler := by
    have := names_of_vocab c.kind.tag c.attrs hv_attrs
    have hh : tagHandler c.kind.tag = c.kind.openHandler := by cases c.kind <;> rfl
    rwa [hh] at this
  unfold Cluster'.events Cluster'.bad
  have R1 := start_res cs .point_obs c.kind.state c.kind.tag c.attrs c.kind.openHandler hc hstart h_open
    (by cases c.kind <;> decide) hv_attrs
  rw [h0.1] at R1
  refine Res.cons R1 ?_
  intro cs1 hc1 hp1
  have hp1' : InCluster c.inh 0 cs1.ctx := by
    rw [hp1.2]; exact cluster_start_ctx c.kind cs.ctx c.attrs hdocnames h0
  have R2 := items_res c.kind c.inh c.items cs1 0 hc1 hp1' (by
    intro l hl
    have := (List.all_eq_true.mp hv_items) l hl
    simp only [Bool.and_eq_true, List.contains_iff_mem] at this
    exact ⟨by rw [← kidTags_eq]; exact this.1, this.2⟩)
  have hlen : (c.items.flatMap Leaf'.events).length = 2 * c.items.length := by
    induction c.items with
    | nil => rfl
    | cons l r ih => simp only [List.flatMap_cons, List.length_append, ih, List.length_cons]; simp [Leaf'.events]; omega
  rw [← hlen]
  refine Res.append R2 ?_
  intro cs2 hc2 hp2
  simp only [Nat.zero_add] at hp2
  cases hcov : c.cov with
  | none =>
    have hE : Res cs2 [] c.kind.state (InCluster c.inh c.count) (covBad none) := Seg.nil cs2 _ _ hc2 hp2
    refine Res.append (r1 := covBad none) hE ?_
    intro cs3 hc3 hp3
    have hstop : stop c.kind.state = .goto .point_obs (some c.kind.finish) := by cases c.kind <;> rfl
    have heq := finish_nocov_eq c.kind cs3.ctx c.pd hp3.2.1
    have hclose : c.closeOk = ((c.kind == .obs || c.kind == .hdiffs) && c.pd) := by simp [Cluster'.closeOk, hcov]
    cases hco : c.closeOk with
    | true =>
      simp only [if_true]
      rw [hclose] at hco
      have hk : c.kind = .obs ∨ c.kind = .hdiffs := by
        simp only [Bool.and_eq_true, Bool.or_eq_true, beq_iff_eq] at hco; exact hco.1
      have hf := finish_nocov c.kind cs3.ctx c.inh _ hk hp3 hinh
      have e := stop_finish_ok cs3 _ _ _ c.pd hc3 hstop (by rw [heq]; exact hco)
      have hseg : Seg cs3 [.stop c.pd] .point_obs Inv0 := Seg.single cs3 _ _ _ ⟨e.1, e.2.1, by rw [e.2.2]; exact hf.2⟩
      exact hseg
    | false =>
      simp only [Bool.false_eq_true, if_false]
      show (crun cs3 [.stop c.pd]).st.err = some (cs3.st.n + 0, .finish)
      exact stop_fail cs3 _ _ _ c.pd hc3 hstop (by rw [heq, ← hclose]; exact hco)
  | some cv =>
    rw [hcov] at hv_cov
    have hstartc : start c.kind.state .cov_mat = .run c.kind.covHandler := by cases c.kind <;> rfl
    have hstopc : stop c.kind.covState = .goto c.kind.afterCov none := by cases c.kind <;> rfl
    have hstopa : stop c.kind.afterCov = .goto .point_obs (some c.kind.finish) := by cases c.kind <;> rfl
    have hct : covTextState c.kind.covState = true := by cases c.kind <;> decide
    -- the `<cov-mat>` element
    have Rc : Res cs2 cv.events c.kind.afterCov (fun x => elemOk [] .cov_mat cv.attrs = true ∧ x.standpointId = c.inh ∧
        x.covData = cv.text.flatten ∧ x.nobs = c.count ∧ x.idim = cv.dim ∧ x.iband = cv.band) (covBad (some cv)) := by
      have R3 := start_res cs2 c.kind.state c.kind.covState .cov_mat cv.attrs c.kind.covHandler hc2 hstartc h_cov
        (by cases c.kind <;> decide) hv_cov
      have hE : elemOk cs2.ctx.standpointId .cov_mat cv.attrs = elemOk [] .cov_mat cv.attrs := rfl
      have hB : elemBad cs2.ctx.standpointId .cov_mat cv.attrs = elemBad [] .cov_mat cv.attrs := rfl
      rw [hE, hB] at R3
      unfold CovEl'.events
      show Res cs2 _ _ _ (elemBad [] .cov_mat cv.attrs)
      rw [← seqBad_none_right (elemBad [] .cov_mat cv.attrs) 1]
      refine Res.cons R3 ?_
      intro cs3 hc3 hp3
      have hel := hp3.1
      simp only [elemOk, Bool.and_eq_true] at hel
      have hcs := cov_start_ctx c.kind cs2.ctx cv.attrs (names_of_vocab .cov_mat cv.attrs hv_cov)
      have hseg : Seg cs3 (cv.text.map CEvent.text ++ [.stop true]) c.kind.afterCov (fun x => elemOk [] .cov_mat cv.attrs = true ∧
          x.standpointId = c.inh ∧ x.covData = cv.text.flatten ∧ x.nobs = c.count ∧ x.idim = cv.dim ∧ x.iband = cv.band) := by
        refine Seg.append (text_seg c.kind.covState h_txt cv.text cs3 hc3) ?_
        intro cs4 hc4 hp4
        simp only [hct, if_true] at hp4
        have e4 := stop_plain_ok cs4 _ _ true hc4 hstopc
        refine Seg.single cs4 _ _ _ ⟨e4.1, e4.2.1, hp3.1, ?_⟩
        rw [e4.2.2, hp4, hp3.2]
        exact ⟨hcs.1.trans hp2.1, by simp [hcs.2.1, hp2.2.2.1], hcs.2.2.1.trans hp2.2.2.2, hcs.2.2.2.1, hcs.2.2.2.2⟩
      exact hseg
    have hlenc : cv.events.length = covLen (some cv) := by simp [CovEl'.events, covLen, CovEl'.len]
    rw [← hlenc]
    refine Res.append Rc ?_
    intro cs5 hc5 hp5
    obtain ⟨hel, q1, q2, q3, q4, q5⟩ := hp5
    simp only [elemOk, Bool.and_eq_true] at hel
    obtain ⟨x, y, hx, hy, hxy⟩ := cov_rule_indices cv.attrs hel.2
    have hdim : cv.dim = y := by simp [CovEl'.dim, hy]
    have hband : cv.band = x := by simp [CovEl'.band, hx]
    have heq := finish_cov_eq c.kind cs5.ctx c.pd cv.dim cv.band c.count cv.text.flatten q4 q5 q3 q2 (by omega)
    have hclose : c.closeOk = (cv.dim == c.count && (Cov.words cv.text.flatten).length == covElements cv.dim cv.band &&
        (Cov.words cv.text.flatten).all toDoubleOk && c.pd) := by
      simp only [Cluster'.closeOk, hcov, hy, hdim, band_elems_table]
      cases hyc : (y == c.count) <;> simp [hyc] <;> simpa using hyc
    cases hco : c.closeOk with
    | true =>
      simp only [if_true]
      have hco' := hco
      rw [hclose] at hco'
      have e5 := stop_finish_ok cs5 _ _ _ c.pd hc5 hstopa (by rw [heq]; exact hco')
      simp only [Bool.and_eq_true, beq_iff_eq] at hco'
      have hf := finish_cov c.kind cs5.ctx c.inh c.count cv.dim cv.band cv.text.flatten q1 hinh q4 q5 q3 q2 hco'.1.1.1
        (by omega) hco'.1.1.2 hco'.1.2
      have hseg : Seg cs5 [.stop c.pd] .point_obs Inv0 := Seg.single cs5 _ _ _ ⟨e5.1, e5.2.1, by rw [e5.2.2]; exact hf.2⟩
      exact hseg
    | false =>
      simp only [Bool.false_eq_true, if_false]
      show (crun cs5 [.stop c.pd]).st.err = some (cs5.st.n + 0, .finish)
      exact stop_fail cs5 _ _ _ c.pd hc5 hstopa (by rw [heq, ← hclose]; exact hco)

/-! ### points-observations, network, document -/

theorem cluster_events_length (c : Cluster') : c.events.length = c.len := by
  have hlen : (c.items.flatMap Leaf'.events).length = 2 * c.items.length := by
    induction c.items with
    | nil => rfl
    | cons l r ih => simp only [List.flatMap_cons, List.length_append, ih, List.length_cons]; simp [Leaf'.events]; omega
  cases hcov : c.cov with
  | none => simp [Cluster'.events, Cluster'.len, hlen, hcov, covLen]; omega
  | some cv => simp [Cluster'.events, Cluster'.len, hlen, hcov, covLen, CovEl'.events, CovEl'.len]; omega

theorem poitem_events_length (p : POItem') : p.events.length = p.len := by
  cases p with
  | point l => rfl
  | cluster c => exact cluster_events_length c

/-- an empty element on the spine (`<point>` in `<points-observations>`, `<parameters>`) -/
theorem spine_leaf_res (cs : CSt) (s : State) (l : Leaf') (hc : Clean cs.st s) (h0 : Inv0 cs.ctx)
    (ht : leafOk s l.tag = true) (hx : needsXYZ s l.tag = false) (hv : attrsVocab l.tag l.attrs = true) :
    Res cs l.events s Inv0 (elemBad [] l.tag l.attrs) := by
  unfold elemBad
  cases hok : elemOk [] l.tag l.attrs with
  | true =>
    simp only [if_true]
    have hok' := hok
    simp only [elemOk, Bool.and_eq_true] at hok'
    obtain ⟨h, _, hseg⟩ := leaf_seg cs s l hc ht (by rw [hx]; intro hh; cases hh) hok'.1 (by rw [h0.1]; exact hok'.2)
    have hseg' : Seg cs l.events s Inv0 := Seg.mono hseg (fun c hcx => inv0_sameBut h0 hcx.1)
    exact hseg'
  | false =>
    simp only [Bool.false_eq_true, if_false]
    show (crun cs l.events).st.err = some (cs.st.n + 0, .handler)
    unfold Leaf'.events
    rw [crun_cons]
    apply crun_err_preserved
    unfold leafOk at ht
    cases hstart : start s l.tag with
    | run h => exact start_fail cs s l.tag l.attrs h hc hstart hv (by rw [h0.1]; exact hok)
    | set s' => rw [hstart] at ht; cases ht
    | err e => rw [hstart] at ht; cases ht
    | ignore => rw [hstart] at ht; cases ht

theorem poitem_res (p : POItem') (cs : CSt) (hc : Clean cs.st .point_obs) (h0 : Inv0 cs.ctx) (hv : p.inVocab = true) :
    Res cs p.events .point_obs Inv0 p.bad := by
  cases p with
  | point l =>
    simp only [POItem'.inVocab, Bool.and_eq_true, beq_iff_eq] at hv
    obtain ⟨t, as⟩ := l
    obtain ⟨ht, hva⟩ := hv
    simp only at ht
    subst ht
    have T := spine_leaf_table
    have := spine_leaf_res cs .point_obs ⟨.point_, as⟩ hc h0 T.1 T.2.2.1 hva
    have hb : POItem'.bad (.point ⟨.point_, as⟩) = elemBad [] .point_ as := by
      simp [POItem'.bad, Leaf'.bad, Leaf'.ok, elemBad]
    rw [hb]
    exact this
  | cluster c => exact cluster_res c cs hc h0 hv

theorem netitem_res (i : NetItem') (cs : CSt) (hc : Clean cs.st .network) (h0 : Inv0 cs.ctx) (hv : i.inVocab = true) :
    Res cs i.events .network Inv0 i.bad := by
  have T := spine_table
  have U := spine_ctx_table
  cases i with
  | description text =>
    simp only [NetItem'.events]
    have e1 := start_set_ok cs .network .description .description hc U.1
    have hseg : Seg cs (.start .description [] :: (text.map CEvent.text ++ [.stop true])) .network Inv0 := by
      refine Seg.cons (P := fun c => c = cs.ctx) e1 ?_
      intro cs1 hc1 hp1
      refine Seg.append (text_seg .description U.2.1 text cs1 hc1) ?_
      intro cs2 hc2 hp2
      simp only [U.2.2.1, Bool.false_eq_true, if_false] at hp2
      have e3 := stop_plain_ok cs2 _ _ true hc2 U.2.2.2.1
      exact Seg.single cs2 _ _ _ ⟨e3.1, e3.2.1, by rw [e3.2.2, hp2, hp1]; exact h0⟩
    exact hseg
  | parameters as =>
    have S := spine_leaf_table
    exact spine_leaf_res cs .network ⟨.parameters, as⟩ hc h0 S.2.1 S.2.2.2 hv
  | pointsObs as items =>
    simp only [NetItem'.inVocab, Bool.and_eq_true] at hv
    simp only [NetItem'.events, NetItem'.bad]
    have R1 := start_res cs .network .point_obs .points_observations as .point_obs_ hc U.2.2.2.2.1
      T.2.2.2.2.2.2.2.1 T.2.2.2.2.2.2.2.2.2.2.2.2.2.1 hv.1
    rw [h0.1] at R1
    rw [← seqBad_none_right (badList POItem'.bad POItem'.len items) (items.flatMap POItem'.events).length]
    refine Res.cons R1 ?_
    intro cs1 hc1 hp1
    have hp1' : Inv0 cs1.ctx := by rw [hp1.2]; exact inv0_plain _ _ _ U.2.2.2.2.2.1 U.2.2.2.2.2.2.1 h0
    refine Res.append (Res.flatMap .point_obs Inv0 POItem'.events POItem'.bad POItem'.len items cs1
      (fun p _ => poitem_events_length p) ?_ hc1 hp1') ?_
    · intro p hp cs' hc' h0'
      exact poitem_res p cs' hc' h0' ((List.all_eq_true.mp hv.2) p hp)
    intro cs2 hc2 hp2
    have e3 := stop_plain_ok cs2 _ _ true hc2 U.2.2.2.2.2.2.2.1
    have hseg : Seg cs2 [.stop true] .network Inv0 := Seg.single cs2 _ _ _ ⟨e3.1, e3.2.1, by rw [e3.2.2]; exact hp2⟩
    exact hseg

theorem flatMap_length_sum {α : Type} (f : α → List CEvent) (len : α → Nat) (h : ∀ a, (f a).length = len a) :
    ∀ l : List α, (l.flatMap f).length = (l.map len).sum := by
  intro l
  induction l with
  | nil => rfl
  | cons a r ih => simp [List.flatMap_cons, h a, ih]

theorem netitem_events_length (i : NetItem') : i.events.length = i.len := by
  cases i with
  | description text => simp [NetItem'.events, NetItem'.len]
  | parameters as => rfl
  | pointsObs as items =>
    simp [NetItem'.events, NetItem'.len, flatMap_length_sum POItem'.events POItem'.len poitem_events_length]; omega

/-- the whole document (documented vocabulary): every documented condition holds along its events and the run ends
    clean in `state_stop`, or the first error is recorded at `Doc'.firstBad` -/
theorem doc_res (d : Doc') (hv : d.inVocab = true) : Res CSt.init d.events .stop_ Inv0 d.firstBad := by
  have T := spine_table
  have U := spine_ctx_table
  simp only [Doc'.inVocab, Bool.and_eq_true] at hv
  unfold Doc'.events Doc'.firstBad
  have hc0 : Clean CSt.init.st .start_ := ⟨rfl, rfl⟩
  have R1 := start_res CSt.init .start_ .gama_xml .gama_xml d.attrs .gama_xml_ hc0 U.2.2.2.2.2.2.2.2.1 T.1
    T.2.2.2.2.2.2.2.2.2.2.2.2.2.2.2.1 hv.1.1
  refine Res.cons R1 ?_
  intro cs1 hc1 hp1
  have hp1' : Inv0 cs1.ctx := by
    rw [hp1.2]; exact inv0_plain _ _ _ U.2.2.2.2.2.2.2.2.2.1 U.2.2.2.2.2.2.2.2.2.2.1 inv0_init
  have R2 := start_res cs1 .gama_xml .network .network d.netAttrs .network_ hc1 U.2.2.2.2.2.2.2.2.2.2.2.1 T.2.1
    T.2.2.2.2.2.2.2.2.2.2.2.2.2.2.2.2.1 hv.1.2
  rw [hp1'.1] at R2
  refine Res.cons R2 ?_
  intro cs2 hc2 hp2
  have hp2' : Inv0 cs2.ctx := by
    rw [hp2.2]; exact inv0_plain _ _ _ U.2.2.2.2.2.2.2.2.2.2.2.2.1 U.2.2.2.2.2.2.2.2.2.2.2.2.2.1 hp1'
  rw [← seqBad_none_right (badList NetItem'.bad NetItem'.len d.items) (d.items.flatMap NetItem'.events).length]
  refine Res.append (Res.flatMap .network Inv0 NetItem'.events NetItem'.bad NetItem'.len d.items cs2
    (fun i _ => netitem_events_length i) ?_ hc2 hp2') ?_
  · intro i hi cs' hc' h0'
    exact netitem_res i cs' hc' h0' ((List.all_eq_true.mp hv.2) i hi)
  intro cs3 hc3 hp3
  have e3 := stop_plain_ok cs3 _ _ true hc3 U.2.2.2.2.2.2.2.2.2.2.2.2.2.2.1
  have hseg : Seg cs3 [.stop true, .stop true] .stop_ Inv0 := by
    refine Seg.cons (P := Inv0) ⟨e3.1, e3.2.1, by rw [e3.2.2]; exact hp3⟩ ?_
    intro cs4 hc4 hp4
    have e4 := stop_plain_ok cs4 _ _ true hc4 U.2.2.2.2.2.2.2.2.2.2.2.2.2.2.2
    exact Seg.single cs4 _ _ _ ⟨e4.1, e4.2.1, by rw [e4.2.2]; exact hp4⟩
  exact hseg

/-- the run over a document in the documented vocabulary: accepted when there is no violating element, else refused
    with the error recorded AT the first violating element -/
theorem doc_verdict (d : Doc') (hv : d.inVocab = true) :
    match d.firstBad with
    | none => (crun CSt.init d.events).st.state = .stop_ ∧ (crun CSt.init d.events).st.err = none ∧
        outcome (crun CSt.init d.events).st = .accepted
    | some loc => (crun CSt.init d.events).st.err = some loc ∧
        outcome (crun CSt.init d.events).st = .refused (some loc) := by
  have R := doc_res d hv
  cases hb : d.firstBad with
  | none =>
    rw [hb] at R
    have R' : Seg CSt.init d.events .stop_ Inv0 := R
    refine ⟨R'.2.1.1, R'.2.1.2, ?_⟩
    simp [outcome, R'.2.1.1]
  | some loc =>
    obtain ⟨i, k⟩ := loc
    rw [hb] at R
    have herr : (crun CSt.init d.events).st.err = some (0 + i, k) := R
    rw [Nat.zero_add] at herr
    refine ⟨herr, ?_⟩
    have hst : (crun CSt.init d.events).st.state = .error_ := by
      have h1 := crun_st d.events CSt.init
      have h2 := run_errImplies (absEvents CSt.init d.events) St.init (fun h0 => by cases h0)
      rw [h1] at herr ⊢
      have herr' : (run St.init (absEvents CSt.init d.events)).err = some (i, k) := herr
      exact h2 (by rw [herr']; rfl)
    simp [outcome, hst, herr]

end Gama.Gkf
