/-
  The `Scalar` structure carried by a linearly ordered field (with a chosen square-root
  function): the bridge that lets theorems about models written over `[Scalar K]` be stated
  over an ordered field.  All fields are the field's own operations, so after unfolding the
  model definitions the goals are plain field statements.

  (C15 keeps this in its own file; a project-wide `LawfulScalar` may replace it later.)
-/
import Gama.Scalar
import Mathlib.Algebra.Order.Field.Basic
namespace Gama.MatVec

/-- `Scalar K` whose operations are those of the ordered field `K`; `sq` plays `sqrt` -/
@[reducible] def fieldScalar (K : Type) [Field K] [LinearOrder K] (sq : K → K) : Scalar K where
  toAdd := inferInstance
  toSub := inferInstance
  toMul := inferInstance
  toDiv := inferInstance
  toNeg := inferInstance
  toZero := inferInstance
  toOne := inferInstance
  toLT := inferInstance
  toLE := inferInstance
  sqrt := sq
  ofNat := fun n => (n : K)
  ofSci := fun m s e => if s then (m : K) / (10 : K) ^ e else (m : K) * (10 : K) ^ e
  decLt := fun _ _ => inferInstance
  decLe := fun _ _ => inferInstance
  beq := fun a b => decide (a = b)
  abs := fun x => |x|

end Gama.MatVec
