/-
  Invariant of the `Adj` state machine (Model/AdjState.lean) and the refinement to the
  history-free specification, composed from the solver-level results
  (Lemmas/EnvState.lean, Lemmas/FullState.lean).  Core Lean only.
-/
import Gama.Model.AdjState
import Gama.Lemmas.EnvState
import Gama.Lemmas.FullState
namespace Gama.C04.AdjM
open Gama Gama.C04 Gama.C04.Full

/-- configuration `init_least_squares` gives a chol/gso object -/
def cfgF (m : Option (List Nat)) : FState :=
  match m with | none => Full.init true none | some l => Full.init false (some l)

/-- configuration `init_least_squares` gives an svd object -/
def cfgS (m : Option (List Nat)) : SState :=
  match m with | none => Full.sinit false none | some l => Full.sinit true (some l)

/-- admissible input: 1-based indices within the system (`1..n`, round 4: bounded), and the regularisation list stored with the data resolves
    the defect for every algorithm (the property's quantifier) -/
structure AInput.Ok (inp : AInput) : Prop where
  pos : inp.env.Pos
  rowsPos : ∀ i, ∀ c ∈ inp.rows i, 1 ≤ c ∧ c ≤ inp.env.n
  envRes : inp.env.nullity = 0 ∨ inp.env.resolves (C04.eff inp.env inp.minx) = true
  chol : Full.Inv .chol inp.chol (cfgF inp.minx)
  gso : Full.Inv .gso inp.gso (cfgF inp.minx)
  svd : Full.SInv inp.svd (cfgS inp.minx)

def QOp.Valid (n : Nat) : QOp → Prop
  | .qxx i j => (1 ≤ i ∧ i ≤ n) ∧ (1 ≤ j ∧ j ≤ n)
  | .q0xx i j => (1 ≤ i ∧ i ≤ n) ∧ (1 ≤ j ∧ j ≤ n)
  | _ => True

/-- cofactor indices are unknowns of the system (`1 ≤ i ≤ n`) -/
def AOp.Valid (n : Nat) : AOp → Prop
  | .qxx i j => (1 ≤ i ∧ i ≤ n) ∧ (1 ≤ j ∧ j ≤ n)
  | _ => True

instance (n : Nat) (o : AOp) : Decidable (o.Valid n) := by
  cases o <;> simp only [AOp.Valid] <;> infer_instance

def AOp.IsQuery : AOp → Prop
  | .setAlg _ => False
  | .set => False
  | _ => True

def SolverInv (inp : AInput) : Solver → Prop
  | .env s => C04.Inv inp.env s ∧ C04.eff inp.env s.minx = C04.eff inp.env inp.minx
  | .full .chol s => Full.Inv .chol inp.chol s ∧ Full.eff inp.chol s = Full.eff inp.chol (cfgF inp.minx)
  | .full .gso s => Full.Inv .gso inp.gso s ∧ Full.eff inp.gso s = Full.eff inp.gso (cfgF inp.minx)
  | .svd s => Full.SInv inp.svd s ∧ Full.seff s = Full.seff (cfgS inp.minx)

/-- the solver's history-free answer for the data's configuration -/
def sspecOf (inp : AInput) : Alg → QOp → SOut
  | .env, q => .env (C04.spec inp.env (C04.eff inp.env inp.minx) q.toEnv)
  | .chol, q => .full (Full.spec .chol inp.chol (Full.eff inp.chol (cfgF inp.minx)) q.toFull)
  | .gso, q => .full (Full.spec .gso inp.gso (Full.eff inp.gso (cfgF inp.minx)) q.toFull)
  | .svd, q => .full (Full.sspec inp.svd (Full.seff (cfgS inp.minx)) q.toFull)

theorem toEnv_valid {n : Nat} {q : QOp} (hv : q.Valid n) : q.toEnv.Valid n ∧ q.toEnv.IsQuery := by
  cases q <;> simp_all [QOp.toEnv, C04.Op.Valid, C04.Op.IsQuery, QOp.Valid]

theorem toFull_ok (inp : Full.Input) (q : QOp) : q.toFull.Ok inp ∧ q.toFull.IsQuery := by
  cases q <;> simp [QOp.toFull, Full.Op.Ok, Full.Op.IsQuery]

theorem solver_step_spec {inp : AInput} (hok : inp.Ok) {sv : Solver} (h : SolverInv inp sv)
    (q : QOp) (hv : q.Valid inp.env.n) :
    SolverInv inp (sv.step inp q).1 ∧ (sv.step inp q).2 = sspecOf inp sv.alg q
    ∧ (sv.step inp q).1.alg = sv.alg := by
  cases sv with
  | env s =>
    have hq := toEnv_valid hv
    have h1 := C04.step_spec h.1 hok.pos q.toEnv hq.1
    have h2 := C04.step_query_eff h.1 hok.pos q.toEnv hq.1 hq.2
    refine ⟨⟨h1.1, by rw [h2]; exact h.2⟩, ?_, rfl⟩
    simp only [Solver.step, sspecOf, Solver.alg]
    rw [h1.2, h.2]
  | full k s =>
    cases k with
    | chol =>
      have hq := toFull_ok inp.chol q
      have h1 := Full.step_spec h.1 q.toFull hq.1
      refine ⟨⟨h1.1, by rw [h1.2.2 hq.2]; exact h.2⟩, ?_, rfl⟩
      simp only [Solver.step, sspecOf, Solver.alg]
      rw [h1.2.1, h.2]
    | gso =>
      have hq := toFull_ok inp.gso q
      have h1 := Full.step_spec h.1 q.toFull hq.1
      refine ⟨⟨h1.1, by rw [h1.2.2 hq.2]; exact h.2⟩, ?_, rfl⟩
      simp only [Solver.step, sspecOf, Solver.alg]
      rw [h1.2.1, h.2]
  | svd s =>
    have hq := toFull_ok inp.svd q
    have h1 := Full.sstep_spec h.1 q.toFull hq.1
    refine ⟨⟨h1.1, by rw [h1.2.2 hq.2]; exact h.2⟩, ?_, rfl⟩
    simp only [Solver.step, sspecOf, Solver.alg]
    rw [h1.2.1, h.2]

theorem isThrow_env {o : C04.Out} (h : o ≠ .badReg) : (SOut.env o).isThrow = false := by
  cases o <;> simp_all [SOut.isThrow]

theorem isThrow_full {o : Full.Out} (h : o ≠ .badReg) : (SOut.full o).isThrow = false := by
  cases o <;> simp_all [SOut.isThrow]

theorem q0spec_ne (inp : EnvInput) (i j : Nat) : C04.q0spec inp i j ≠ .badReg := by
  simp only [C04.q0spec]
  split <;> simp

/-- with a resolving list no query of `Adj` makes the solver throw -/
theorem sspecOf_noThrow {inp : AInput} (hok : inp.Ok) (a : Alg) (q : QOp) :
    (sspecOf inp a q).isThrow = false := by
  cases a with
  | env =>
    have hr := hok.envRes
    apply isThrow_env
    cases q with
    | unknowns =>
      simp only [QOp.toEnv, C04.spec]
      by_cases h0 : inp.env.nullity = 0
      · simp [h0]
      · rcases hr with h1 | h1
        · exact absurd h1 h0
        · simp [h0, h1]
    | qxx i j =>
      simp only [QOp.toEnv, C04.spec]
      by_cases h0 : inp.env.nullity = 0
      · simp only [h0, if_true]; exact q0spec_ne _ _ _
      · rcases hr with h1 | h1
        · exact absurd h1 h0
        · simp [h0, h1]
    | q0xx i j => simp only [QOp.toEnv, C04.spec]; exact q0spec_ne _ _ _
    | residuals => simp [QOp.toEnv, C04.spec]
    | sumsq => simp [QOp.toEnv, C04.spec]
    | defect => simp [QOp.toEnv, C04.spec]
  | chol =>
    apply isThrow_full
    cases q <;> simp only [QOp.toFull, Full.spec] <;> (try split) <;> simp
  | gso =>
    apply isThrow_full
    cases q <;> simp [QOp.toFull, Full.spec]
  | svd =>
    apply isThrow_full
    cases q <;> simp [QOp.toFull, Full.sspec]

theorem mkSolver_inv {inp : AInput} (hok : inp.Ok) (a : Alg) :
    SolverInv inp (mkSolver inp a) ∧ (mkSolver inp a).alg = a := by
  cases a with
  | env => exact ⟨⟨C04.inv_init inp.env inp.minx, by simp [C04.init, C04.setStage]⟩, rfl⟩
  | chol =>
    refine ⟨⟨?_, ?_⟩, rfl⟩ <;> cases hm : inp.minx <;> simp only [mkSolver, cfgF, hm]
    · have := hok.chol; simpa [cfgF, hm] using this
    · have := hok.chol; simpa [cfgF, hm] using this
  | gso =>
    refine ⟨⟨?_, ?_⟩, rfl⟩ <;> cases hm : inp.minx <;> simp only [mkSolver, cfgF, hm]
    · have := hok.gso; simpa [cfgF, hm] using this
    · have := hok.gso; simpa [cfgF, hm] using this
  | svd =>
    refine ⟨⟨?_, ?_⟩, rfl⟩ <;> cases hm : inp.minx <;> simp only [mkSolver, cfgS, hm]
    · have := hok.svd; simpa [cfgS, hm] using this
    · have := hok.svd; simpa [cfgS, hm] using this

/-- what `x_`, `r_`, `rtr_` hold after `init_least_squares` of algorithm `a` -/
def xcOf (inp : AInput) (a : Alg) : Alg × SOut := (a, sspecOf inp a .unknowns)
def rcOf (inp : AInput) (a : Alg) : Alg × SOut :=
  match a with | .env => (a, sspecOf inp a .residuals) | _ => (a, sspecOf inp a .unknowns)
def rtrcOf (inp : AInput) (a : Alg) : Alg × SOut :=
  match a with | .env => (a, sspecOf inp a .sumsq) | _ => (a, sspecOf inp a .residuals)

structure AInv (inp : AInput) (s : AState) : Prop where
  solved : s.solved = true → ∃ sv, s.ls = some sv ∧ SolverInv inp sv ∧ sv.alg = s.alg
            ∧ s.xc = some (xcOf inp s.alg) ∧ s.rc = some (rcOf inp s.alg) ∧ s.rtrc = some (rtrcOf inp s.alg)

theorem initLS_spec {inp : AInput} (hok : inp.Ok) (s : AState) :
    (initLS inp s).2 = none ∧ (initLS inp s).1.solved = true ∧ (initLS inp s).1.alg = s.alg
    ∧ AInv inp (initLS inp s).1 := by
  obtain ⟨h0, ha0⟩ := mkSolver_inv hok s.alg
  cases hal : s.alg with
  | env =>
    rw [hal] at h0 ha0
    have s1 := solver_step_spec hok h0 .unknowns trivial
    have s2 := solver_step_spec hok s1.1 .residuals trivial
    have s3 := solver_step_spec hok s2.1 .sumsq trivial
    have a1 : ((mkSolver inp .env).step inp .unknowns).1.alg = .env := by rw [s1.2.2, ha0]
    have a2 := s2.2.2; rw [a1] at a2
    have a3 := s3.2.2; rw [a2] at a3
    have e1 := s1.2.1; rw [ha0] at e1
    have e2 := s2.2.1; rw [a1] at e2
    have e3 := s3.2.1; rw [a2] at e3
    have t1 := sspecOf_noThrow hok .env .unknowns
    have t2 := sspecOf_noThrow hok .env .residuals
    have t3 := sspecOf_noThrow hok .env .sumsq
    simp only [initLS, hal, e1, e2, e3, t1, t2, t3, Bool.false_eq_true, if_false]
    refine ⟨trivial, trivial, trivial, ⟨fun _ => ⟨_, rfl, s3.1, ?_, ?_, ?_, ?_⟩⟩⟩
    · rw [a3]
    · simp [xcOf, hal]
    · simp [rcOf, hal]
    · simp [rtrcOf, hal]
  | gso =>
    rw [hal] at h0 ha0
    have s1 := solver_step_spec hok h0 .residuals trivial
    have s2 := solver_step_spec hok s1.1 .unknowns trivial
    have a1 : ((mkSolver inp .gso).step inp .residuals).1.alg = .gso := by rw [s1.2.2, ha0]
    have a2 := s2.2.2; rw [a1] at a2
    have e1 := s1.2.1; rw [ha0] at e1
    have e2 := s2.2.1; rw [a1] at e2
    have t1 := sspecOf_noThrow hok .gso .residuals
    have t2 := sspecOf_noThrow hok .gso .unknowns
    simp only [initLS, hal, e1, e2, t1, t2, Bool.false_eq_true, if_false]
    refine ⟨trivial, trivial, trivial, ⟨fun _ => ⟨_, rfl, s2.1, ?_, ?_, ?_, ?_⟩⟩⟩
    · rw [a2]
    · simp [xcOf, hal]
    · simp [rcOf, hal]
    · simp [rtrcOf, hal]
  | svd =>
    rw [hal] at h0 ha0
    have s1 := solver_step_spec hok h0 .residuals trivial
    have s2 := solver_step_spec hok s1.1 .unknowns trivial
    have a1 : ((mkSolver inp .svd).step inp .residuals).1.alg = .svd := by rw [s1.2.2, ha0]
    have a2 := s2.2.2; rw [a1] at a2
    have e1 := s1.2.1; rw [ha0] at e1
    have e2 := s2.2.1; rw [a1] at e2
    have t1 := sspecOf_noThrow hok .svd .residuals
    have t2 := sspecOf_noThrow hok .svd .unknowns
    simp only [initLS, hal, e1, e2, t1, t2, Bool.false_eq_true, if_false]
    refine ⟨trivial, trivial, trivial, ⟨fun _ => ⟨_, rfl, s2.1, ?_, ?_, ?_, ?_⟩⟩⟩
    · rw [a2]
    · simp [xcOf, hal]
    · simp [rcOf, hal]
    · simp [rtrcOf, hal]
  | chol =>
    rw [hal] at h0 ha0
    have s1 := solver_step_spec hok h0 .residuals trivial
    have s2 := solver_step_spec hok s1.1 .unknowns trivial
    have a1 : ((mkSolver inp .chol).step inp .residuals).1.alg = .chol := by rw [s1.2.2, ha0]
    have a2 := s2.2.2; rw [a1] at a2
    have e1 := s1.2.1; rw [ha0] at e1
    have e2 := s2.2.1; rw [a1] at e2
    have t1 := sspecOf_noThrow hok .chol .residuals
    have t2 := sspecOf_noThrow hok .chol .unknowns
    simp only [initLS, hal, e1, e2, t1, t2, Bool.false_eq_true, if_false]
    refine ⟨trivial, trivial, trivial, ⟨fun _ => ⟨_, rfl, s2.1, ?_, ?_, ?_, ?_⟩⟩⟩
    · rw [a2]
    · simp [xcOf, hal]
    · simp [rcOf, hal]
    · simp [rtrcOf, hal]

theorem ensure_spec {inp : AInput} (hok : inp.Ok) {s : AState} (h : AInv inp s) :
    (ensure inp s).2 = none ∧ (ensure inp s).1.solved = true ∧ (ensure inp s).1.alg = s.alg
    ∧ AInv inp (ensure inp s).1 := by
  by_cases hs : s.solved = true
  · simp [ensure, hs, h]
  · have hs' : s.solved = false := by simpa using hs
    simp only [ensure, hs', Bool.false_eq_true, if_false]
    exact initLS_spec hok s

/-- the history-free specification of `Adj` -/
def aspec (inp : AInput) (a : Alg) : AOp → AOut
  | .x => .x a (xcOf inp a).2
  | .r => .r a (rcOf inp a).2
  | .rtr => .rtr a (rtrcOf inp a).2
  | .defect => .del a (sspecOf inp a .defect)
  | .qxx i j => .del a (sspecOf inp a (.qxx i j))
  | .qbb i j => .qbb a ((qbbPairs inp i j).map fun p => sspecOf inp a (.q0xx p.1 p.2))
  | .setAlg _ => .ok
  | .set => .ok

theorem qbbLoop_spec {inp : AInput} (hok : inp.Ok) (ps : List (Nat × Nat))
    (hps : ∀ p ∈ ps, (1 ≤ p.1 ∧ p.1 ≤ inp.env.n) ∧ (1 ≤ p.2 ∧ p.2 ≤ inp.env.n)) :
    ∀ (sv : Solver) (acc : List SOut), SolverInv inp sv →
      SolverInv inp (qbbLoop inp sv ps acc).1 ∧ (qbbLoop inp sv ps acc).1.alg = sv.alg
      ∧ (qbbLoop inp sv ps acc).2.2 = none
      ∧ (qbbLoop inp sv ps acc).2.1 = acc.reverse ++ ps.map fun p => sspecOf inp sv.alg (.q0xx p.1 p.2) := by
  induction ps with
  | nil => intro sv acc h; simp [qbbLoop, h]
  | cons p ps ih =>
    intro sv acc h
    obtain ⟨a, b⟩ := p
    have hv : (QOp.q0xx a b).Valid inp.env.n := hps (a, b) (List.mem_cons_self ..)
    have s1 := solver_step_spec hok h (.q0xx a b) hv
    have t1 := sspecOf_noThrow hok sv.alg (.q0xx a b)
    have := ih (fun p hp => hps p (List.mem_cons_of_mem _ hp)) (sv.step inp (.q0xx a b)).1
      ((sv.step inp (.q0xx a b)).2 :: acc) s1.1
    simp only [qbbLoop, s1.2.1, t1, Bool.false_eq_true, if_false]
    rw [s1.2.1] at this
    refine ⟨this.1, by rw [this.2.1, s1.2.2], this.2.2.1, ?_⟩
    rw [this.2.2.2, s1.2.2]
    simp

theorem qbbPairs_pos {inp : AInput} (hok : inp.Ok) (i j : Nat) :
    ∀ p ∈ qbbPairs inp i j, (1 ≤ p.1 ∧ p.1 ≤ inp.env.n) ∧ (1 ≤ p.2 ∧ p.2 ≤ inp.env.n) := by
  intro p hp
  simp only [qbbPairs, List.mem_flatMap, List.mem_map] at hp
  obtain ⟨jn, hjn, in_, hin, rfl⟩ := hp
  exact ⟨hok.rowsPos i in_ hin, hok.rowsPos j jn hjn⟩

theorem astep_spec {inp : AInput} (hok : inp.Ok) {s : AState} (h : AInv inp s) (op : AOp) (hv : op.Valid inp.env.n) :
    AInv inp (astep inp s op).1 ∧ (astep inp s op).2 = aspec inp s.alg op
    ∧ (op.IsQuery → (astep inp s op).1.alg = s.alg) := by
  have he := ensure_spec hok h
  generalize hE : ensure inp s = E at he
  obtain ⟨E1, E2⟩ := E
  simp only at he
  obtain ⟨he2, hes, hea, hei⟩ := he
  subst he2
  obtain ⟨sv, hls, hsv, hsa, hxc, hrc, hrtr⟩ := hei.solved hes
  cases op with
  | x => simp [astep, hE, cached, hxc, aspec, hea, hei, xcOf]
  | r =>
    simp only [astep, hE, cached, hrc, aspec, hea]
    exact ⟨hei, by cases s.alg <;> simp [rcOf], fun _ => trivial⟩
  | rtr =>
    simp only [astep, hE, cached, hrtr, aspec, hea]
    exact ⟨hei, by cases s.alg <;> simp [rtrcOf], fun _ => trivial⟩
  | defect =>
    have s1 := solver_step_spec hok hsv .defect trivial
    have t1 := sspecOf_noThrow hok sv.alg .defect
    simp only [astep, hE, hls, s1.2.1, t1, Bool.false_eq_true, if_false, aspec]
    refine ⟨⟨fun _ => ⟨_, rfl, s1.1, by rw [s1.2.2]; exact hsa, hxc, hrc, hrtr⟩⟩, by rw [hsa, hea], fun _ => hea⟩
  | qxx i j =>
    have s1 := solver_step_spec hok hsv (.qxx i j) hv
    have t1 := sspecOf_noThrow hok sv.alg (.qxx i j)
    simp only [astep, hE, hls, s1.2.1, t1, Bool.false_eq_true, if_false, aspec]
    refine ⟨⟨fun _ => ⟨_, rfl, s1.1, by rw [s1.2.2]; exact hsa, hxc, hrc, hrtr⟩⟩, by rw [hsa, hea], fun _ => hea⟩
  | qbb i j =>
    have hl := qbbLoop_spec hok (qbbPairs inp i j) (qbbPairs_pos hok i j) sv [] hsv
    generalize hL : qbbLoop inp sv (qbbPairs inp i j) [] = L at hl
    obtain ⟨L1, L2, L3⟩ := L
    simp only at hl
    obtain ⟨hl1, hl2, hl3, hl4⟩ := hl
    subst hl3
    simp only [astep, hE, hls, hL, aspec]
    refine ⟨⟨fun _ => ⟨_, rfl, hl1, by rw [hl2]; exact hsa, hxc, hrc, hrtr⟩⟩, ?_, fun _ => hea⟩
    rw [hl4, hsa, hea]; simp
  | setAlg a =>
    exact ⟨⟨fun hh => absurd hh (by simp [astep])⟩, rfl, fun hq => absurd hq (by simp [AOp.IsQuery])⟩
  | set =>
    exact ⟨⟨fun hh => absurd hh (by simp [astep])⟩, rfl, fun hq => absurd hq (by simp [AOp.IsQuery])⟩

theorem ainv_init (inp : AInput) (a : Alg) : AInv inp (ainit a) :=
  ⟨fun hh => absurd hh (by simp [ainit])⟩

theorem arun_inv {inp : AInput} (hok : inp.Ok) {s : AState} (h : AInv inp s) {ops : List AOp}
    (hops : ∀ o ∈ ops, o.Valid inp.env.n) : AInv inp (arun inp s ops) := by
  induction ops generalizing s with
  | nil => exact h
  | cons o ops ih =>
    exact ih (astep_spec hok h o (hops o (List.mem_cons_self ..))).1
      (fun o' ho' => hops o' (List.mem_cons_of_mem _ ho'))

theorem astep_eq_fresh {inp : AInput} (hok : inp.Ok) {s : AState} (h : AInv inp s) (op : AOp) (hv : op.Valid inp.env.n) :
    (astep inp s op).2 = afresh inp s.alg op := by
  rw [(astep_spec hok h op hv).2.1]
  unfold afresh
  rw [(astep_spec hok (ainv_init inp s.alg) op hv).2.1]
  rfl

theorem astep_twice {inp : AInput} (hok : inp.Ok) {s : AState} (h : AInv inp s) (q : AOp) (hv : q.Valid inp.env.n)
    (hq : q.IsQuery) : (astep inp (astep inp s q).1 q).2 = (astep inp s q).2 := by
  have h1 := astep_spec hok h q hv
  rw [(astep_spec hok h1.1 q hv).2.1, h1.2.1, h1.2.2 hq]

theorem astep_after_set {inp : AInput} (hok : inp.Ok) {s : AState} (h : AInv inp s) (q : AOp) (hv : q.Valid inp.env.n) :
    (astep inp (astep inp s .set).1 q).2 = (astep inp s q).2 := by
  have h1 := astep_spec hok h .set trivial
  rw [(astep_spec hok h1.1 q hv).2.1, (astep_spec hok h q hv).2.1]
  rfl

/-- switching the algorithm and back changes no answer -/
theorem astep_roundtrip {inp : AInput} (hok : inp.Ok) {s : AState} (h : AInv inp s) (a : Alg)
    (mid : List AOp) (hmid : ∀ o ∈ mid, o.Valid inp.env.n ∧ o.IsQuery) (q : AOp) (hv : q.Valid inp.env.n) :
    (astep inp (astep inp (arun inp (astep inp s (.setAlg a)).1 mid) (.setAlg s.alg)).1 q).2
      = (astep inp s q).2 := by
  have h1 := astep_spec hok h (.setAlg a) trivial
  have h2 : AInv inp (arun inp (astep inp s (.setAlg a)).1 mid) :=
    arun_inv hok h1.1 (fun o ho => (hmid o ho).1)
  have h3 := astep_spec hok h2 (.setAlg s.alg) trivial
  rw [(astep_spec hok h3.1 q hv).2.1, (astep_spec hok h q hv).2.1]
  rfl

/-- every answer names the currently selected algorithm -/
theorem aspec_by (inp : AInput) (a : Alg) (q : AOp) (hq : q.IsQuery) : (aspec inp a q).by? = some a := by
  cases q <;> simp_all [aspec, AOut.by?, AOp.IsQuery]

end Gama.C04.AdjM
