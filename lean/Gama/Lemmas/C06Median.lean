/-
  C06 — lemmas about the median / orientation / Gauss-Newton models over ℝ.
-/
import Gama.Lemmas.C06Real
import Gama.Model.GaussNewton
import Mathlib.Tactic.Ring
import Mathlib.Tactic.Linarith
open Gama Gama.Median Gama.C06R Gama.Cogo
namespace Gama.C06L

theorem mem_insertSorted (a x : ℝ) (l : List ℝ) : x ∈ insertSorted a l ↔ x = a ∨ x ∈ l := by
  induction l with
  | nil => simp [insertSorted]
  | cons b l ih =>
    unfold insertSorted
    split_ifs
    · simp
    · simp only [List.mem_cons, ih]; tauto

theorem length_insertSorted (a : ℝ) (l : List ℝ) : (insertSorted a l).length = l.length + 1 := by
  induction l with
  | nil => simp [insertSorted]
  | cons b l ih => unfold insertSorted; split_ifs <;> simp [ih]

theorem mem_sort (x : ℝ) (l : List ℝ) : x ∈ sort l ↔ x ∈ l := by
  induction l with
  | nil => simp [sort]
  | cons b l ih =>
    have : sort (b :: l) = insertSorted b (sort l) := rfl
    rw [this, mem_insertSorted, ih]; simp

theorem length_sort (l : List ℝ) : (sort l).length = l.length := by
  induction l with
  | nil => simp [sort]
  | cons b l ih =>
    have : sort (b :: l) = insertSorted b (sort l) := rfl
    rw [this, length_insertSorted, ih]; simp

theorem nth_of_all (l : List ℝ) (c : ℝ) (h : ∀ x ∈ l, x = c) (i : ℕ) (hi : i < l.length) : nth l i = c := by
  unfold nth
  rw [List.getD_eq_getElem?_getD, List.getElem?_eq_getElem hi]
  exact h _ (List.getElem_mem hi)

theorem median_const (v : List ℝ) (c : ℝ) (hne : v ≠ []) (h : ∀ x ∈ v, x = c) : median v = c := by
  have hs : ∀ x ∈ sort v, x = c := fun x hx => h x ((mem_sort x v).mp hx)
  have hl : 0 < (sort v).length := by rw [length_sort]; exact List.length_pos_of_ne_nil hne
  unfold median
  simp only []
  split_ifs with hpar
  · rw [nth_of_all _ c hs _ (by omega), nth_of_all _ c hs _ (by omega)]
    simp only [add_eq, div_eq, two_eq]; ring
  · exact nth_of_all _ c hs _ (by omega)

theorem median2_const (v : List ℝ) (c : ℝ) (hne : v ≠ []) (h : ∀ x ∈ v, x = c) : median2 v = c := by
  have hs : ∀ x ∈ sort v, x = c := fun x hx => h x ((mem_sort x v).mp hx)
  have hl : 0 < (sort v).length := by rw [length_sort]; exact List.length_pos_of_ne_nil hne
  unfold median2
  simp only []
  rw [nth_of_all _ c hs _ (by omega), nth_of_all _ c hs _ (by omega)]
  simp only [add_eq, div_eq, two_eq]; ring

/-! ### the `median(s, dev)` lambda -/

theorem twoPi_eq : (twoPi : ℝ) = 2 * Real.pi := by simp [twoPi]

theorem devFold_eq' (m : ℝ) (l : List ℝ) : ∀ acc : ℝ,
    l.foldl (fun acc x => acc + |x - m|) acc = acc + (l.map (fun x => |x - m|)).sum := by
  induction l with
  | nil => intro acc; simp
  | cons a l ih =>
    intro acc
    rw [List.foldl_cons, ih, List.map_cons, List.sum_cons]
    ring

theorem devFold_eq (m : ℝ) (l : List ℝ) (acc : ℝ) :
    l.foldl (fun acc x => acc + Scalar.abs (x - m)) acc = acc + (l.map (fun x => |x - m|)).sum :=
  devFold_eq' m l acc

theorem devSum_nonneg (m : ℝ) (l : List ℝ) : 0 ≤ (l.map (fun x => |x - m|)).sum := by
  induction l with
  | nil => simp
  | cons a l ih => simp only [List.map_cons, List.sum_cons]; exact add_nonneg (abs_nonneg _) ih

theorem devSum_eq_zero (m : ℝ) (l : List ℝ) (h : (l.map (fun x => |x - m|)).sum = 0) : ∀ x ∈ l, x = m := by
  induction l with
  | nil => intro x hx; cases hx
  | cons a l ih =>
    simp only [List.map_cons, List.sum_cons] at h
    have h1 : |a - m| = 0 := by linarith [abs_nonneg (a - m), devSum_nonneg m l]
    have h2 : (l.map (fun x => |x - m|)).sum = 0 := by linarith [abs_nonneg (a - m), devSum_nonneg m l]
    intro x hx
    rcases List.mem_cons.mp hx with rfl | hx
    · exact sub_eq_zero.mp (abs_eq_zero.mp h1)
    · exact ih h2 x hx

/-- value of the mean deviation computed by `medianDev` -/
theorem medianDev_dev (s : List ℝ) :
    (medianDev s).2.2 = ((sort s).map (fun x => |x - (medianDev s).2.1|)).sum / (s.length : ℝ) := by
  unfold medianDev
  simp only [devFold_eq, zero_eq, zero_add, div_eq, ofNat_eq]

theorem medianDev_fst (s : List ℝ) : (medianDev s).1 = sort s := rfl

theorem medianDev_dev_nonneg (s : List ℝ) : 0 ≤ (medianDev s).2.2 := by
  rw [medianDev_dev]; exact div_nonneg (devSum_nonneg _ _) (Nat.cast_nonneg _)

theorem medianDev_dev_zero (s : List ℝ) (hne : s ≠ []) (h : (medianDev s).2.2 = 0) :
    ∀ x ∈ s, x = (medianDev s).2.1 := by
  rw [medianDev_dev] at h
  have hn : (s.length : ℝ) ≠ 0 := by
    have := List.length_pos_of_ne_nil hne; exact_mod_cast this.ne'
  have := (div_eq_zero_iff.mp h).resolve_right hn
  intro x hx
  exact devSum_eq_zero _ _ this x ((mem_sort x s).mpr hx)

/-- all elements equal c: median c, deviation 0 -/
theorem medianDev_const (s : List ℝ) (c : ℝ) (hne : s ≠ []) (h : ∀ x ∈ s, x = c) :
    (medianDev s).2.1 = c ∧ (medianDev s).2.2 = 0 := by
  have hs : ∀ x ∈ sort s, x = c := fun x hx => h x ((mem_sort x s).mp hx)
  have hl : 0 < s.length := List.length_pos_of_ne_nil hne
  have hl' : (sort s).length = s.length := length_sort s
  have hmed : (medianDev s).2.1 = c := by
    unfold medianDev
    simp only []
    rw [nth_of_all _ c hs _ (by omega), nth_of_all _ c hs _ (by omega)]
    have : (c + c) / 2 = c := by ring
    simp only [add_eq, div_eq, two_eq, this, ite_self]
  refine ⟨hmed, ?_⟩
  rw [medianDev_dev, hmed]
  have : ((sort s).map (fun x => |x - c|)).sum = 0 := by
    have : (sort s).map (fun x => |x - c|) = (sort s).map (fun _ => (0 : ℝ)) := by
      apply List.map_congr_left; intro x hx; rw [hs x hx]; simp
    rw [this]; simp
  rw [this]; simp

/-- the median of a non-empty list is one of ... we only need: if every element is in {p, q} so is
    nothing more than membership of the head when the deviation vanishes -/
theorem orientationOfShifts_unfold (sz : List ℝ) (hne : sz ≠ []) :
    orientationOfShifts sz =
      (let l1 := if (medianDev ((sort sz).map (fun x => if x < 0 then x + 2 * Real.pi else x))).2.2 < (medianDev sz).2.2
                 then (medianDev ((sort sz).map (fun x => if x < 0 then x + 2 * Real.pi else x))).2.1
                 else (medianDev sz).2.1
       (if l1 < 0 then l1 + 2 * Real.pi else l1, sz.length)) := by
  have hl : 0 < sz.length := List.length_pos_of_ne_nil hne
  have hn : ¬ sz.length = 0 := by omega
  unfold orientationOfShifts
  simp only [hn, if_false, medianDev_fst, twoPi_eq, lt_eq, zero_eq, add_eq]

/-- shifts that all equal c (|c| ≤ π): the reported orientation is c brought to [0,2π) -/
theorem orientationOfShifts_const (sz : List ℝ) (c : ℝ) (hne : sz ≠ []) (h : ∀ x ∈ sz, x = c) :
    orientationOfShifts sz = (if c < 0 then c + 2 * Real.pi else c, sz.length) := by
  rw [orientationOfShifts_unfold sz hne]
  obtain ⟨hm, hd⟩ := medianDev_const sz c hne h
  set sw := (sort sz).map (fun x => if x < 0 then x + 2 * Real.pi else x) with hsw
  have hswne : sw ≠ [] := by
    rw [hsw]; intro e
    have := congrArg List.length e
    rw [List.length_map, length_sort] at this
    exact hne (List.length_eq_zero_iff.mp this)
  have hswall : ∀ x ∈ sw, x = (if c < 0 then c + 2 * Real.pi else c) := by
    intro x hx
    obtain ⟨y, hy, rfl⟩ := List.mem_map.mp hx
    rw [h y ((mem_sort y sz).mp hy)]
  obtain ⟨_, hdw⟩ := medianDev_const sw _ hswne hswall
  simp only [hd, hdw, lt_self_iff_false, if_false, hm]

theorem wrapDown_of_le (n : ℕ) (x : ℝ) (h : x ≤ Real.pi) : wrapDown n x = x := by
  cases n with
  | zero => rfl
  | succ n => unfold wrapDown; simp only [pi_eq, lt_eq, not_lt.mpr h, if_false]

theorem wrapUp_of_ge (n : ℕ) (x : ℝ) (h : -Real.pi ≤ x) : wrapUp n x = x := by
  cases n with
  | zero => rfl
  | succ n => unfold wrapUp; simp only [pi_eq, lt_eq, neg_eq, not_lt.mpr h, if_false]

theorem wrap_mid (n : ℕ) (x : ℝ) (h1 : -Real.pi ≤ x) (h2 : x ≤ Real.pi) : wrap n x = x := by
  unfold wrap; rw [wrapDown_of_le n x h2, wrapUp_of_ge n x h1]

theorem wrap_hi (n : ℕ) (x : ℝ) (h1 : Real.pi < x) (h2 : x ≤ 3 * Real.pi) : wrap (n + 1) x = x - 2 * Real.pi := by
  unfold wrap
  have : wrapDown (n + 1) x = x - 2 * Real.pi := by
    unfold wrapDown; simp only [pi_eq, lt_eq, h1, if_true, sub_eq, twoPi_eq]
    exact wrapDown_of_le n _ (by linarith)
  rw [this]; exact wrapUp_of_ge _ _ (by linarith)

theorem wrap_lo (n : ℕ) (x : ℝ) (h1 : x < -Real.pi) (h2 : -3 * Real.pi ≤ x) : wrap (n + 1) x = x + 2 * Real.pi := by
  unfold wrap
  have hp := Real.pi_pos
  rw [wrapDown_of_le _ x (by linarith)]
  unfold wrapUp; simp only [pi_eq, lt_eq, neg_eq, h1, if_true, add_eq, twoPi_eq]
  exact wrapUp_of_ge n _ (by linarith)


/-- one consistent direction: the shift is the representative of the true orientation in (−π, π],
    or −π when the orientation is exactly π and the direction value was reduced by 2π -/
theorem shift_consistent (n : ℕ) (o zn sn : ℝ) (ho0 : 0 ≤ o) (ho2 : o < 2 * Real.pi) (hoπ : o ≠ Real.pi)
    (hsn : sn = zn - o ∨ sn = zn - o + 2 * Real.pi) :
    shift (n + 1) zn sn = if o < Real.pi then o else o - 2 * Real.pi := by
  have hp := Real.pi_pos
  unfold shift; simp only [sub_eq]
  rcases hsn with h | h <;> rw [h]
  · have : zn - (zn - o) = o := by ring
    rw [this]
    split_ifs with hlt
    · exact wrap_mid _ _ (by linarith) hlt.le
    · exact wrap_hi _ _ (lt_of_le_of_ne (not_lt.mp hlt) (Ne.symm hoπ)) (by linarith)
  · have : zn - (zn - o + 2 * Real.pi) = o - 2 * Real.pi := by ring
    rw [this]
    split_ifs with hlt
    · rw [wrap_lo _ _ (by linarith) (by linarith)]; ring
    · exact wrap_mid _ _ (by linarith [not_lt.mp hlt]) (by linarith)

theorem shift_seam (n : ℕ) (zn sn : ℝ)
    (hsn : sn = zn - Real.pi ∨ sn = zn - Real.pi + 2 * Real.pi) :
    shift (n + 1) zn sn = Real.pi ∨ shift (n + 1) zn sn = -Real.pi := by
  have hp := Real.pi_pos
  unfold shift; simp only [sub_eq]
  rcases hsn with h | h <;> rw [h]
  · left
    have : zn - (zn - Real.pi) = Real.pi := by ring
    rw [this]; exact wrap_mid _ _ (by linarith) le_rfl
  · right
    have : zn - (zn - Real.pi + 2 * Real.pi) = -Real.pi := by ring
    rw [this]; exact wrap_mid _ _ le_rfl (by linarith)

/-- shifts that are all ±π (true orientation exactly on the seam): the result is π -/
theorem orientationOfShifts_seam (sz : List ℝ) (hne : sz ≠ [])
    (h : ∀ x ∈ sz, x = Real.pi ∨ x = -Real.pi) :
    orientationOfShifts sz = (Real.pi, sz.length) := by
  have hp := Real.pi_pos
  rw [orientationOfShifts_unfold sz hne]
  set sw := (sort sz).map (fun x => if x < 0 then x + 2 * Real.pi else x) with hsw
  have hswne : sw ≠ [] := by
    rw [hsw]; intro e
    have := congrArg List.length e
    rw [List.length_map, length_sort] at this
    exact hne (List.length_eq_zero_iff.mp this)
  have hswall : ∀ x ∈ sw, x = Real.pi := by
    intro x hx
    obtain ⟨y, hy, rfl⟩ := List.mem_map.mp hx
    rcases h y ((mem_sort y sz).mp hy) with e | e <;> rw [e]
    · simp [not_lt.mpr hp.le]
    · simp [hp]; ring
  obtain ⟨hmw, hdw⟩ := medianDev_const sw _ hswne hswall
  simp only [hmw, hdw]
  by_cases hd : 0 < (medianDev sz).2.2
  · simp only [hd, if_true, not_lt.mpr hp.le, if_false]
  · have hd0 : (medianDev sz).2.2 = 0 := le_antisymm (not_lt.mp hd) (medianDev_dev_nonneg sz)
    have hall := medianDev_dev_zero sz hne hd0
    obtain ⟨a, l, rfl⟩ := List.exists_cons_of_ne_nil hne
    have ha := hall a List.mem_cons_self
    simp only [hd, if_false]
    rcases h a List.mem_cons_self with e | e
    · rw [← ha, e]; simp [not_lt.mpr hp.le]
    · rw [← ha, e]; simp [hp]; ring

theorem orientation_consistent (n : ℕ) (o : ℝ) (dirs : List (ℝ × ℝ)) (hne : dirs ≠ [])
    (ho0 : 0 ≤ o) (ho2 : o < 2 * Real.pi)
    (h : ∀ p ∈ dirs, p.2 = p.1 - o ∨ p.2 = p.1 - o + 2 * Real.pi) :
    orientation (n + 1) dirs = (o, dirs.length) := by
  have hp := Real.pi_pos
  unfold orientation
  have hmne : dirs.map (fun p => shift (n + 1) p.1 p.2) ≠ [] := by simpa using hne
  by_cases hoπ : o = Real.pi
  · subst hoπ
    have hall : ∀ x ∈ dirs.map (fun p => shift (n + 1) p.1 p.2), x = Real.pi ∨ x = -Real.pi := by
      intro x hx
      obtain ⟨p, hp', rfl⟩ := List.mem_map.mp hx
      exact shift_seam n p.1 p.2 (h p hp')
    rw [orientationOfShifts_seam _ hmne hall, List.length_map]
  · set c := if o < Real.pi then o else o - 2 * Real.pi with hc
    have hall : ∀ x ∈ dirs.map (fun p => shift (n + 1) p.1 p.2), x = c := by
      intro x hx
      obtain ⟨p, hp', rfl⟩ := List.mem_map.mp hx
      exact shift_consistent n o p.1 p.2 ho0 ho2 hoπ (h p hp')
    rw [orientationOfShifts_const _ c hmne hall, List.length_map]
    congr 1
    rw [hc]
    split_ifs with h1 h2 h2
    · linarith
    · rfl
    · ring
    · exfalso; linarith


/-- regression for F15 (fixed by 01e764d): the shifts that used to give orientation 0 now give π -/
theorem orientation_seam_regression (ε : ℝ) (h0 : 0 < ε) (h1 : ε < Real.pi / 2) :
    orientationOfShifts [-(Real.pi - ε), -(Real.pi - ε), Real.pi - ε, Real.pi - ε] = (Real.pi, 4) := by
  have hp := Real.pi_pos
  set a := Real.pi - ε with ha
  have hapos : 0 < a := by rw [ha]; linarith
  have hs : sort [-a, -a, a, a] = [-a, -a, a, a] := by
    have l1 : (a : ℝ) ≤ a := le_refl a
    have l2 : -a ≤ a := by linarith
    have l3 : -a ≤ -a := le_refl _
    simp [sort, insertSorted, l1, l2, l3]
  rw [orientationOfShifts_unfold _ (by simp)]
  set b := -a + 2 * Real.pi with hb
  have hab : a < b := by rw [hb, ha]; linarith
  have hsw : (sort [-a, -a, a, a]).map (fun x => if x < 0 then x + 2 * Real.pi else x) = [b, b, a, a] := by
    rw [hs]; simp [hapos, not_lt.mpr hapos.le, hb]
  have hs2 : sort [b, b, a, a] = [a, a, b, b] := by
    have l1 : (a : ℝ) ≤ a := le_refl a
    have l2 : ¬ b ≤ a := not_le.mpr hab
    have l3 : b ≤ b := le_refl _
    have l4 : a ≤ b := hab.le
    simp [sort, insertSorted, l1, l2, l3, l4]
  have hm1 : (medianDev [-a, -a, a, a]).2.1 = 0 := by
    unfold medianDev
    simp only [hs, List.length_cons, List.length_nil]
    norm_num [nth]
  have hd1 : (medianDev [-a, -a, a, a]).2.2 = a := by
    rw [medianDev_dev, hm1, hs]
    simp [abs_of_pos hapos]; ring
  have hm2 : (medianDev [b, b, a, a]).2.1 = Real.pi := by
    unfold medianDev
    simp only [hs2, List.length_cons, List.length_nil]
    norm_num [nth]
    rw [hb, ha]; ring
  have hd2 : (medianDev [b, b, a, a]).2.2 = ε := by
    rw [medianDev_dev, hm2, hs2]
    have e1 : |a - Real.pi| = ε := by rw [ha]; rw [show Real.pi - ε - Real.pi = -ε by ring, abs_neg, abs_of_pos h0]
    have e2 : |b - Real.pi| = ε := by rw [hb, ha]; rw [show -(Real.pi - ε) + 2 * Real.pi - Real.pi = ε by ring, abs_of_pos h0]
    simp [e1, e2]; ring
  rw [hsw]
  simp only [hm1, hd1, hm2, hd2]
  have : ε < a := by rw [ha]; linarith
  simp [this, not_lt.mpr hp.le]

end Gama.C06L
