/-
  C06 — lemmas about the median / orientation / Gauss-Newton models over ℝ.
-/
import Gama.Lemmas.C06Real
import Gama.Model.GaussNewton
import Mathlib.Tactic.Ring
import Mathlib.Tactic.Linarith
open Gama Gama.Median Gama.C06R Gama.Cogo
namespace Gama.C06L

theorem mem_insertSorted (a x : ℝ) (l : List ℝ) : x ∈ insertSorted a l ↔ x = a ∨ x ∈ l := by
  induction l with
  | nil => simp [insertSorted]
  | cons b l ih =>
    unfold insertSorted
    split_ifs
    · simp
    · simp only [List.mem_cons, ih]; tauto

theorem length_insertSorted (a : ℝ) (l : List ℝ) : (insertSorted a l).length = l.length + 1 := by
  induction l with
  | nil => simp [insertSorted]
  | cons b l ih => unfold insertSorted; split_ifs <;> simp [ih]

theorem mem_sort (x : ℝ) (l : List ℝ) : x ∈ sort l ↔ x ∈ l := by
  induction l with
  | nil => simp [sort]
  | cons b l ih =>
    have : sort (b :: l) = insertSorted b (sort l) := rfl
    rw [this, mem_insertSorted, ih]; simp

theorem length_sort (l : List ℝ) : (sort l).length = l.length := by
  induction l with
  | nil => simp [sort]
  | cons b l ih =>
    have : sort (b :: l) = insertSorted b (sort l) := rfl
    rw [this, length_insertSorted, ih]; simp

theorem nth_of_all (l : List ℝ) (c : ℝ) (h : ∀ x ∈ l, x = c) (i : ℕ) (hi : i < l.length) : nth l i = c := by
  unfold nth
  rw [List.getD_eq_getElem?_getD, List.getElem?_eq_getElem hi]
  exact h _ (List.getElem_mem hi)

theorem median_const (v : List ℝ) (c : ℝ) (hne : v ≠ []) (h : ∀ x ∈ v, x = c) : median v = c := by
  have hs : ∀ x ∈ sort v, x = c := fun x hx => h x ((mem_sort x v).mp hx)
  have hl : 0 < (sort v).length := by rw [length_sort]; exact List.length_pos_of_ne_nil hne
  unfold median
  simp only []
  split_ifs with hpar
  · rw [nth_of_all _ c hs _ (by omega), nth_of_all _ c hs _ (by omega)]
    simp only [add_eq, div_eq, two_eq]; ring
  · exact nth_of_all _ c hs _ (by omega)

theorem median2_const (v : List ℝ) (c : ℝ) (hne : v ≠ []) (h : ∀ x ∈ v, x = c) : median2 v = c := by
  have hs : ∀ x ∈ sort v, x = c := fun x hx => h x ((mem_sort x v).mp hx)
  have hl : 0 < (sort v).length := by rw [length_sort]; exact List.length_pos_of_ne_nil hne
  unfold median2
  simp only []
  rw [nth_of_all _ c hs _ (by omega), nth_of_all _ c hs _ (by omega)]
  simp only [add_eq, div_eq, two_eq]; ring

/-- the orientation computed from shifts that are all equal to `c` -/
theorem orientationOfShifts_const (sz : List ℝ) (c : ℝ) (hne : sz ≠ []) (h : ∀ x ∈ sz, x = c) :
    orientationOfShifts sz = (if c < 0 then c + 2 * Real.pi else c, sz.length) := by
  have hs : ∀ x ∈ sort sz, x = c := fun x hx => h x ((mem_sort x sz).mp hx)
  have hl : 0 < sz.length := List.length_pos_of_ne_nil hne
  have hl' : (sort sz).length = sz.length := length_sort sz
  unfold orientationOfShifts
  simp only []
  have hn : ¬ sz.length = 0 := by omega
  simp only [hn, if_false]
  rw [nth_of_all _ c hs _ (by omega), nth_of_all _ c hs _ (by omega)]
  have h1 : ¬ ((Trig.pi : ℝ) / Cogo.two < Scalar.abs (c - c) ∧ sz.length < 3) := by
    simp only [sub_eq, abs_eq, pi_eq, two_eq, div_eq, lt_eq, sub_self, abs_zero]
    intro h; have := Real.pi_pos; linarith [h.1]
  have : (c + c) / 2 = c := by ring
  simp only [add_eq, div_eq, two_eq, lt_eq, zero_eq, Cogo.twoPi, mul_eq, pi_eq, this, ite_self]


theorem twoPi_eq : (twoPi : ℝ) = 2 * Real.pi := by simp [twoPi]

theorem wrapDown_of_le (n : ℕ) (x : ℝ) (h : x ≤ Real.pi) : wrapDown n x = x := by
  cases n with
  | zero => rfl
  | succ n => unfold wrapDown; simp only [pi_eq, lt_eq, not_lt.mpr h, if_false]

theorem wrapUp_of_ge (n : ℕ) (x : ℝ) (h : -Real.pi ≤ x) : wrapUp n x = x := by
  cases n with
  | zero => rfl
  | succ n => unfold wrapUp; simp only [pi_eq, lt_eq, neg_eq, not_lt.mpr h, if_false]

theorem wrap_mid (n : ℕ) (x : ℝ) (h1 : -Real.pi ≤ x) (h2 : x ≤ Real.pi) : wrap n x = x := by
  unfold wrap; rw [wrapDown_of_le n x h2, wrapUp_of_ge n x h1]

theorem wrap_hi (n : ℕ) (x : ℝ) (h1 : Real.pi < x) (h2 : x ≤ 3 * Real.pi) : wrap (n + 1) x = x - 2 * Real.pi := by
  unfold wrap
  have : wrapDown (n + 1) x = x - 2 * Real.pi := by
    unfold wrapDown; simp only [pi_eq, lt_eq, h1, if_true, sub_eq, twoPi_eq]
    exact wrapDown_of_le n _ (by linarith)
  rw [this]; exact wrapUp_of_ge _ _ (by linarith)

theorem wrap_lo (n : ℕ) (x : ℝ) (h1 : x < -Real.pi) (h2 : -3 * Real.pi ≤ x) : wrap (n + 1) x = x + 2 * Real.pi := by
  unfold wrap
  have hp := Real.pi_pos
  rw [wrapDown_of_le _ x (by linarith)]
  unfold wrapUp; simp only [pi_eq, lt_eq, neg_eq, h1, if_true, add_eq, twoPi_eq]
  exact wrapUp_of_ge n _ (by linarith)

/-- consistent directions: every shift equals the same representative of the true orientation -/
theorem shift_consistent (n : ℕ) (o zn sn : ℝ) (ho0 : 0 ≤ o) (ho2 : o < 2 * Real.pi) (hoπ : o ≠ Real.pi)
    (hsn : sn = zn - o ∨ sn = zn - o + 2 * Real.pi) :
    shift (n + 1) zn sn = if o < Real.pi then o else o - 2 * Real.pi := by
  have hp := Real.pi_pos
  unfold shift; simp only [sub_eq]
  rcases hsn with h | h <;> rw [h]
  · have : zn - (zn - o) = o := by ring
    rw [this]
    split_ifs with hlt
    · exact wrap_mid _ _ (by linarith) hlt.le
    · exact wrap_hi _ _ (lt_of_le_of_ne (not_lt.mp hlt) (Ne.symm hoπ)) (by linarith)
  · have : zn - (zn - o + 2 * Real.pi) = o - 2 * Real.pi := by ring
    rw [this]
    split_ifs with hlt
    · rw [wrap_lo _ _ (by linarith) (by linarith)]; ring
    · exact wrap_mid _ _ (by linarith [not_lt.mp hlt]) (by linarith)

theorem orientation_consistent (n : ℕ) (o : ℝ) (dirs : List (ℝ × ℝ)) (hne : dirs ≠ [])
    (ho0 : 0 ≤ o) (ho2 : o < 2 * Real.pi) (hoπ : o ≠ Real.pi)
    (h : ∀ p ∈ dirs, p.2 = p.1 - o ∨ p.2 = p.1 - o + 2 * Real.pi) :
    orientation (n + 1) dirs = (o, dirs.length) := by
  unfold orientation
  set c := if o < Real.pi then o else o - 2 * Real.pi with hc
  have hall : ∀ x ∈ dirs.map (fun p => shift (n + 1) p.1 p.2), x = c := by
    intro x hx
    obtain ⟨p, hp, rfl⟩ := List.mem_map.mp hx
    exact shift_consistent n o p.1 p.2 ho0 ho2 hoπ (h p hp)
  rw [orientationOfShifts_const _ c (by simpa using hne) hall, List.length_map]
  congr 1
  rw [hc]
  have hp := Real.pi_pos
  split_ifs with h1 h2 h2
  · linarith
  · rfl
  · ring
  · exfalso; linarith

/-- F15: shifts on both sides of the ±π seam (even count, half and half) — the median is 0,
    i.e. off by π from the common orientation π (mod 2π) that every shift is within ε of -/
theorem orientation_seam (ε : ℝ) (h0 : 0 < ε) (h1 : ε < Real.pi) :
    orientationOfShifts [-(Real.pi - ε), -(Real.pi - ε), Real.pi - ε, Real.pi - ε] = (0, 4) := by
  set a := Real.pi - ε with ha
  have hapos : 0 < a := by rw [ha]; linarith
  have hs : sort [-a, -a, a, a] = [-a, -a, a, a] := by
    have l1 : (a : ℝ) ≤ a := le_refl a
    have l2 : -a ≤ a := by linarith
    have l3 : -a ≤ -a := le_refl _
    simp [sort, insertSorted, l1, l2, l3]
  unfold orientationOfShifts
  simp only [hs, List.length_cons, List.length_nil]
  norm_num [nth]

end Gama.C06L
