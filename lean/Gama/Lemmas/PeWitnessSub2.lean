/-
  The sub-configuration `(fixed, constrained, unused)` of `Ex.netWobs` (`C` unused) evaluated over ℝ: the revision leaves the one
  height difference `A→B` of the CORRELATED cluster (active pattern `[t,f,f]`, `activeCov() = [16]`); `project_equations()` hands over
  the 1×1 system `rows = [(1,1)]` (`B.z ↦ 1`), `rhs_ = (1)`, `min_x_ = [1]`; `NetHyp .gso` holds (`Σ = [16]`, `AᵀPA = [1/4]`, full rank).
-/
import Gama.Lemmas.PeWitnessSub
namespace Gama.C06NZ.Ex
open Gama Gama.Lin Gama.PE Gama.Ls Gama.Ls.Net Gama.LS Gama.C06FP Gama.C06NZ Gama.Ls.Ex Gama.Props.C01 Matrix Gama.NetDecision

noncomputable def net2 : PE.Net ℝ := netWs .fixed .constrained .unused
noncomputable def rn2 : PE.Net ℝ := revise net2
noncomputable def b2 : PassOut ℝ := ⟨[[(1, 1)]], [1], ⟨1, [(⟨1, .z⟩, 1)]⟩⟩
noncomputable def np2 : NetProblem ℝ :=
  { m := 1, n := 1, rows := #[#[(1, 1)]], rhs := #[1], clusters := npClusters rn2, m0 := 2, minx := [1] }

theorem robs2 : revisedObs rn2 = [⟨.h_diff, 0, 0, 1, 0, 10 + 1 / 1000⟩] := rfl

theorem pass2_real : @passFrom ℝ instTrigScalarReal (sigmaOf rn2) rn2.fuel (revisedObs rn2) IdxState.init = .ok b2 := by
  rw [robs2]
  simp only [passFrom, Kind.lin, h_diff_eq]
  show Except.ok (⟨[[(1, 1)]], [((10 + 1 / 1000 : ℝ) - (110 - 100)) * 1000], ⟨1, [(⟨1, .z⟩, 1)]⟩⟩ : PassOut ℝ) = _
  unfold b2
  norm_num

section facade
attribute [local instance] sqrtFnOfSqrtField
attribute [local instance 2000] scalarOfField
attribute [local instance 3000] fieldTrig
attribute [-simp] Gama.C06R.add_eq Gama.C06R.sub_eq Gama.C06R.mul_eq Gama.C06R.div_eq Gama.C06R.neg_eq Gama.C06R.zero_eq
  Gama.C06R.one_eq Gama.C06R.lt_eq Gama.C06R.le_eq

theorem pass2 : passFrom (sigmaOf rn2) rn2.fuel (revisedObs rn2) IdxState.init = .ok b2 := by
  rw [passFrom_inst]; exact pass2_real

noncomputable def asm2 : Asm ℝ := { np := { np2 with minx := [] }, idx := b2.idx, list := unknownsList rn2 b2.idx }

theorem assemble2 : assemble rn2 = .ok asm2 := by
  have hlin : linPass rn2 (revisedObs rn2) (rn2.idx.resetPass (guardOf rn2)) = .ok b2 := by
    unfold linPass
    have h1 : (revisedObs rn2).takeWhile (oriOK rn2) = revisedObs rn2 := rfl
    have h2 : rn2.idx.resetPass (guardOf rn2) = IdxState.init := rfl
    simp only [h1, h2, pass2, if_true]
  unfold assemble
  simp only [hlin]
  rfl

theorem activeCov_3_2_tff {K : Type} [Zero K] (a b c d e f : K) :
    Cov.activeCov ⟨3, 2, #[a, b, c, d, e, f]⟩ [⟨true, 1⟩, ⟨false, 1⟩, ⟨false, 1⟩] = ⟨1, 0, #[a]⟩ := by
  simp [Cov.activeCov, Cov.activeCovOf, Cov.activeIdx, Cov.CovMat.mk', Cov.Packed.size, Cov.CovMat.set, Cov.CovMat.get,
    Cov.Packed.idx, Cov.Packed.rowOff, Cov.CovMat.rawSet, Cov.CovMat.raw, Cov.CovMat.inBuf, List.range, List.range.loop,
    List.range'_succ, List.range'_zero]

theorem np2_act : activeClusters np2 = [⟨⟨3, 2, #[16, 3, 8, 25, 5, 40]⟩, [true, false, false]⟩] := rfl

theorem np2_cofs : cofs np2 = [⟨1, 0, #[16 * (1 / (2 * 2))]⟩] := by
  unfold cofs
  rw [np2_act]
  have e2 := activeCov_3_2_tff (K := ℝ) 16 3 8 25 5 40
  have hm : np2.m0 = 2 := rfl
  simp only [List.map_cons, List.map_nil, Cluster.cofactor, Net.Cluster.obs, e2, scaleBuf, hm, List.map_toArray]

theorem np2_prepare : ∃ hh, prepare np2 = .ok hh := by
  have e1 := covEps_pos
  have e2 := covEps_small
  have hf : factors (cofs np2) = .ok [⟨1, 0, #[Real.sqrt 4]⟩] := by
    rw [np2_cofs, show (16 : ℝ) * (1 / (2 * 2)) = 4 by norm_num]
    have h2 : Cov.adjCholdec (⟨1, 0, #[4]⟩ : Cov.CovMat ℝ) = .ok ⟨1, 0, #[Real.sqrt 4]⟩ :=
      adjCholdec_1_0 4 (by rw [tolOfS, maxS]; norm_num; linarith)
    simp only [factors, h2]
  unfold prepare
  simp only [hf]
  exact ⟨_, rfl⟩

noncomputable def u2 : Unknowns ℝ := ⟨1, asm2.list, { rn2 with idx := b2.idx }, []⟩

theorem pe2 : projectEquations net2 = .ok (np2, u2) := by
  obtain ⟨hh, hp⟩ := np2_prepare
  have hp' : prepare asm2.np = .ok hh := hp
  have hs : (SingularCoords.singularCoords hh.Ad (idxFn asm2.idx) (ptsOf rn2)).1 = false := rfl
  have hr : revise net2 = rn2 := rfl
  show peLoop 4 net2 [] = _
  unfold peLoop
  simp only [hr, assemble2, hp', hs]
  rfl

theorem np2_dimsN : dimsN np2 = [1] := by unfold dimsN; rw [np2_cofs]; rfl

theorem np2_Sigma : (Sigma np2 : Matrix (Fin 1) (Fin 1) ℝ) = !![16] := by
  ext i j
  show sigmaF np2 i.val j.val = _
  unfold sigmaF
  rw [np2_dimsN, np2_act]
  fin_cases i <;> fin_cases j <;>
    simp [AdjM.locate, Net.Cluster.obs, Cov.activeIdx, Cov.CovMat.get, Cov.Packed.idx, Cov.Packed.rowOff, Cov.CovMat.raw,
      Cov.CovMat.inBuf, List.range, List.range.loop] <;> rfl

noncomputable def Pc2 : Matrix (Fin (toProblem np2).m) (Fin (toProblem np2).m) ℝ := (!![1 / 16] : Matrix (Fin 1) (Fin 1) ℝ)

theorem np2_sigma_inv : Sigma np2 * Pc2 = 1 := by
  have h := np2_Sigma
  have e : (!![16] : Matrix (Fin 1) (Fin 1) ℝ) * !![1 / 16] = 1 := by
    ext i j; fin_cases i; fin_cases j; simp [Matrix.mul_apply]
  exact (congrArg (fun M : Matrix (Fin 1) (Fin 1) ℝ => M * !![1 / 16]) h).trans e

theorem np2_A : ((toProblem np2).A : Matrix (Fin 1) (Fin 1) ℝ) = !![1] := by
  have h : (toProblem np2).A = toMatrix 1 1 (toProblem np2).dense := rfl
  have hd : (toProblem np2).dense = #[#[1]] := by
    simp [Problem.dense, toProblem, np2]
  rw [h, hd]
  ext i j; fin_cases i; fin_cases j; rfl

theorem gap2 : GapAllP (!![1] : Matrix (Fin 1) (Fin 1) ℝ) (((2 : ℝ) * 2) • (!![1 / 16] : Matrix (Fin 1) (Fin 1) ℝ)) (1 / 8192) := by
  intro k β hk _
  right
  have : β 0 = 1 := by fin_cases k; exact hk
  simp [Matrix.mulVec, dotProduct, this]
  norm_num

theorem kerLit2 (g : Fin 1 → ℝ) (hg : (!![1] : Matrix (Fin 1) (Fin 1) ℝ) *ᵥ g = 0) : g = 0 := by
  have h0 := congrFun hg 0
  simp [Matrix.mulVec, dotProduct] at h0
  funext i; fin_cases i; exact h0

theorem np2_netHyp : NetHyp .gso np2 := by
  have hrows : RowsOK (toProblem np2) := by
    intro i hi
    have : i = 0 := by have : i < 1 := hi; omega
    subst this
    simp [toProblem, np2, Array.getD]
  have hm0 : np2.m0 ≠ 0 := by show (2 : ℝ) ≠ 0; norm_num
  have hdim : (dimsN np2).sum = np2.m := by rw [np2_dimsN]; rfl
  have hreg : Env.RegListOK (toProblem np2) := by
    intro l hl
    have : l = [1] := by
      have h : Reg.subset [1] = Reg.subset l := hl
      injection h with h'; exact h'.symm
    subst this
    have hn : (toProblem np2).n = 1 := rfl
    rw [hn]
    exact ⟨by decide, by decide⟩
  have hker : ∀ g : Fin (toProblem np2).n → ℝ, (toProblem np2).A *ᵥ g = 0 → g = 0 := by
    intro g hg
    have h := kerLit2 g
    rw [← np2_A] at h
    exact h hg
  have hgap : RankGap (toProblem np2).A ((np2.m0 * np2.m0) • Pc2) (toProblem np2).S (1 / 8192) := by
    refine ⟨?_, fun g hg hne => (hne (hker g hg)).elim⟩
    have h := gap2
    rw [← np2_A] at h
    exact h
  exact { rows := hrows, m0 := hm0, weight := ⟨Pc2, np2_sigma_inv⟩
          first := C01_net_solverhyp_of_gap np2 hdim hrows hm0 Pc2 np2_sigma_inv hreg C01_gap_thresholds_default hgap .gso (by decide)
          second := trivial }

theorem cfg2_netHyp (np : NetProblem ℝ) (hp : (peWorld netWobs (dcfg .fixed .constrained .unused)).prob = some np) :
    NetHyp .gso np := by
  have h : projectEquations (withStatuses netWobs (dcfg .fixed .constrained .unused)) = .ok (np2, u2) := pe2
  rw [peWorld_prob_eq netWobs _ _ _ h np hp]
  exact np2_netHyp

end facade
end Gama.C06NZ.Ex
