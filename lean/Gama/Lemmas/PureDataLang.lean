/-
  `pure_data(istr >> f)` (libstdc++ extraction of a double, then nothing but white space) accepts exactly the strings
  `CoreParser::toDouble` accepts: `numberOk s = toDoubleOk s` for every string, hence the accepted language is
  the documented float format with a finite value.
-/
import Gama.Lemmas.PureData
import Gama.Lemmas.LiteralsComplete
namespace Gama.PD
open Gama.Lit

/-! ### `dropBack` and the scanner stages commute -/

theorem dropBack_cons_cases (c : Char) (cs : List Char) :
    (dropBack (c :: cs) = [] ∧ isSpace c = true ∧ dropBack cs = []) ∨ dropBack (c :: cs) = c :: dropBack cs := by
  rw [dropBack]
  cases h : dropBack cs with
  | nil =>
    cases hc : isSpace c
    · right; simp
    · left; simp
  | cons a as => right; rfl

theorem dropBack_cons_nonspace (c : Char) (cs : List Char) (h : isSpace c = false) :
    dropBack (c :: cs) = c :: dropBack cs := by
  rcases dropBack_cons_cases c cs with ⟨_, h2, _⟩ | h1
  · rw [h] at h2; cases h2
  · exact h1

theorem dropBack_isEmpty (l : List Char) : (dropBack l).isEmpty = l.all isSpace := by
  induction l with
  | nil => rfl
  | cons c cs ih =>
    rcases dropBack_cons_cases c cs with ⟨h1, h2, h3⟩ | h1
    · rw [h3] at ih
      rw [h1, List.all_cons, h2, ← ih]; rfl
    · rw [h1]
      cases hc : isSpace c
      · simp [hc]
      · rw [dropBack] at h1
        cases h3 : dropBack cs with
        | nil => rw [h3] at h1; simp [hc] at h1
        | cons a as =>
          rw [h3] at ih
          simp [hc, ← ih]

theorem skipDigits_dropBack (t : List Char) : skipDigits (dropBack t) = dropBack (skipDigits t) := by
  induction t with
  | nil => rfl
  | cons c cs ih =>
    cases hc : isDigit c
    · rw [skipDigits_cons_nondigit c cs hc]
      rcases dropBack_cons_cases c cs with ⟨h1, _, _⟩ | h1
      · rw [h1]; rfl
      · rw [h1, skipDigits_cons_nondigit _ _ hc]
    · rw [dropBack_cons_nonspace c cs (isDigit_not_space hc)]
      simp only [skipDigits, hc, if_true]
      exact ih

theorem skipSign_dropBack (t : List Char) : skipSign (dropBack t) = dropBack (skipSign t) := by
  cases t with
  | nil => rfl
  | cons c cs =>
    cases hc : isSign c
    · rw [skipSign_cons_nonsign c cs hc]
      rcases dropBack_cons_cases c cs with ⟨h1, _, _⟩ | h1
      · rw [h1]; rfl
      · rw [h1, skipSign_cons_nonsign _ _ hc]
    · rw [dropBack_cons_nonspace c cs (isSign_not_space hc), skipSign_cons_sign _ _ hc, skipSign_cons_sign _ _ hc]

theorem afterDot_cons_ne (c : Char) (cs : List Char) (h : c ≠ '.') : afterDot (c :: cs) = c :: cs := by
  unfold afterDot
  split
  · rename_i heq; cases heq; exact absurd rfl h
  · rfl

theorem afterDot_dropBack (t : List Char) : afterDot (dropBack t) = dropBack (afterDot t) := by
  cases t with
  | nil => rfl
  | cons c cs =>
    by_cases hc : c = '.'
    · subst hc
      rw [dropBack_cons_nonspace '.' cs (by decide)]
      rfl
    · rw [afterDot_cons_ne c cs hc]
      rcases dropBack_cons_cases c cs with ⟨h1, _, _⟩ | h1
      · rw [h1]; rfl
      · rw [h1, afterDot_cons_ne _ _ hc]

/-- the scan made progress iff the text starts with a digit -/
def startsDigit : List Char → Bool
  | c :: _ => isDigit c
  | [] => false

theorem skipDigits_length_le (t : List Char) : (skipDigits t).length ≤ t.length := by
  induction t with
  | nil => exact Nat.le_refl _
  | cons c cs ih =>
    rw [skipDigits]
    split
    · exact Nat.le_succ_of_le ih
    · exact Nat.le_refl _

theorem progress_eq_startsDigit (t : List Char) :
    decide ((skipDigits t).length < t.length) = startsDigit t := by
  cases t with
  | nil => rfl
  | cons c cs =>
    cases hc : isDigit c
    · rw [skipDigits_cons_nondigit c cs hc]
      simp [startsDigit, hc]
    · have := skipDigits_length_le cs
      simp only [skipDigits, hc, if_true, startsDigit, List.length_cons, decide_eq_true_eq]
      omega

theorem startsDigit_dropBack (t : List Char) : startsDigit (dropBack t) = startsDigit t := by
  cases t with
  | nil => rfl
  | cons c cs =>
    rcases dropBack_cons_cases c cs with ⟨h1, h2, _⟩ | h1
    · rw [h1]
      simp only [startsDigit]
      cases hc : isDigit c
      · rfl
      · rw [isDigit_not_space hc] at h2; cases h2
    · rw [h1]; rfl

theorem skipDigits_not_startsDigit (t : List Char) (h : startsDigit t = false) : skipDigits t = t := by
  cases t with
  | nil => rfl
  | cons c cs => exact skipDigits_cons_nondigit c cs h

/-! ### the scan after the mantissa -/

/-- the part of `scanDouble` behind the mantissa -/
def scanTail (mant : Bool) (t4 : List Char) : Bool × List Char :=
  match t4 with
  | c :: r =>
    if isExp c && mant then
      let t6 := skipSign r
      let t7 := skipDigits t6
      (decide (t7.length < t6.length), t7)
    else (mant, t4)
  | [] => (mant, [])

theorem scanDouble_eq (t : List Char) :
    scanDouble t =
      (let t1 := skipSign t
       let t2 := skipDigits t1
       let t3 := afterDot t2
       let t4 := skipDigits t3
       scanTail (decide (t2.length < t1.length) || decide (t4.length < t3.length)) t4) := rfl

/-- the part of `floatBody` behind the mantissa -/
def bodyTail (mant : Bool) (t4 : List Char) : Bool :=
  if t4.isEmpty then mant else if expPart t4 then mant else false

theorem expPart_cons_nonexp (c : Char) (cs : List Char) (h : isExp c = false) : expPart (c :: cs) = false := by
  simp [expPart, h]

theorem expPart_cons_exp (c : Char) (cs : List Char) (h : isExp c = true) :
    expPart (c :: cs) =
      (if cs.isEmpty then false else if (skipSign cs).isEmpty then false else (skipDigits (skipSign cs)).isEmpty) := by
  cases cs with
  | nil => simp [expPart, h]
  | cons a as =>
    cases hs : skipSign (a :: as) with
    | nil => simp [expPart, h, hs]
    | cons b bs => simp [expPart, h, hs]

theorem tail_agree (mant : Bool) (t4 : List Char) :
    ((scanTail mant t4).1 && (scanTail mant t4).2.all isSpace) = bodyTail mant (dropBack t4) := by
  cases t4 with
  | nil => simp [scanTail, bodyTail, dropBack]
  | cons c r =>
    by_cases hcm : (isExp c && mant) = true
    · have hc : isExp c = true := by simp only [Bool.and_eq_true] at hcm; exact hcm.1
      have hm : mant = true := by simp only [Bool.and_eq_true] at hcm; exact hcm.2
      subst hm
      have hL : scanTail true (c :: r) =
          (decide ((skipDigits (skipSign r)).length < (skipSign r).length), skipDigits (skipSign r)) := by
        simp [scanTail, hc]
      rw [hL, progress_eq_startsDigit, dropBack_cons_nonspace c r (isExp_not_space hc)]
      simp only [bodyTail, List.isEmpty_cons, Bool.false_eq_true, if_false]
      rw [expPart_cons_exp _ _ hc, skipSign_dropBack, skipDigits_dropBack, dropBack_isEmpty, dropBack_isEmpty,
        dropBack_isEmpty]
      cases hd : startsDigit (skipSign r)
      · rw [skipDigits_not_startsDigit _ hd]
        cases (skipSign r).all isSpace <;> cases r.all isSpace <;> simp
      · have h6 : (skipSign r).all isSpace = false := by
          cases h : skipSign r with
          | nil => rw [h] at hd; cases hd
          | cons a as =>
            rw [h] at hd
            simp only [startsDigit] at hd
            simp [isDigit_not_space hd]
        have hr : r.all isSpace = false := by
          cases hra : r.all isSpace
          · rfl
          · exfalso
            rw [← dropBack_isEmpty] at hra h6
            have : dropBack r = [] := by simpa using hra
            rw [← skipSign_dropBack, this] at h6
            simp [skipSign] at h6
        rw [h6, hr]
        cases (skipDigits (skipSign r)).all isSpace <;> simp
    · have hL : scanTail mant (c :: r) = (mant, c :: r) := by
        simp only [scanTail]; rw [if_neg hcm]
      rw [hL]
      simp only [bodyTail]
      rw [dropBack_isEmpty]
      cases hb : (c :: r).all isSpace
      · simp only [Bool.and_false, Bool.false_eq_true, if_false]
        cases hm : mant
        · simp
        · have hc : isExp c = false := by
            cases h : isExp c
            · rfl
            · exfalso; apply hcm; rw [h, hm]; rfl
          have hne : dropBack (c :: r) = c :: dropBack r := by
            rcases dropBack_cons_cases c r with ⟨h1, _, _⟩ | h1
            · have := dropBack_isEmpty (c :: r)
              rw [h1, hb] at this; cases this
            · exact h1
          rw [hne, expPart_cons_nonexp _ _ hc]; simp
      · simp

/-- the extraction succeeds (before the overflow test) and leaves only blanks  iff  `IsFloat` accepts the text without its
    trailing blanks -/
theorem core_agree (t : List Char) :
    ((scanDouble t).1 && (scanDouble t).2.all isSpace) = floatBody (dropBack t) := by
  rw [scanDouble_eq, floatBody_eq']
  simp only
  rw [tail_agree]
  simp only [progress_eq_startsDigit]
  simp only [skipSign_dropBack, skipDigits_dropBack, afterDot_dropBack, startsDigit_dropBack]
  rfl

/-! ### what the extraction consumes -/

/-- `b` is `a` without a blank-free prefix -/
def NSP (a b : List Char) : Prop := ∃ p, a = p ++ b ∧ NoSpace p

theorem NSP.refl (a : List Char) : NSP a a := ⟨[], rfl, by intro c hc; cases hc⟩

theorem NSP.trans {a b c : List Char} (h1 : NSP a b) (h2 : NSP b c) : NSP a c := by
  obtain ⟨p, hp, np⟩ := h1
  obtain ⟨q, hq, nq⟩ := h2
  exact ⟨p ++ q, by rw [hp, hq, List.append_assoc], noSpace_append np nq⟩

theorem NSP.cons (c : Char) (r : List Char) (h : isSpace c = false) : NSP (c :: r) r :=
  ⟨[c], rfl, by intro x hx; rcases List.mem_singleton.mp hx with rfl; exact h⟩

theorem NSP.skipSign (t : List Char) : NSP t (skipSign t) := by
  obtain ⟨sg, h1, h2⟩ := skipSign_decomp t
  exact ⟨sg, h1, signOpt_noSpace h2⟩

theorem NSP.skipDigits (t : List Char) : NSP t (skipDigits t) := by
  obtain ⟨ds, h1, h2, _⟩ := skipDigits_decomp t
  exact ⟨ds, h1, allDigit_noSpace h2⟩

theorem NSP.afterDot (t : List Char) : NSP t (afterDot t) := by
  cases t with
  | nil => exact NSP.refl _
  | cons c cs =>
    by_cases hc : c = '.'
    · subst hc; exact NSP.cons '.' cs (by decide)
    · rw [afterDot_cons_ne c cs hc]; exact NSP.refl _

theorem NSP.scanTail (mant : Bool) (t4 : List Char) : NSP t4 (scanTail mant t4).2 := by
  cases t4 with
  | nil => exact NSP.refl _
  | cons c r =>
    by_cases hcm : (isExp c && mant) = true
    · have hc : isExp c = true := by simp only [Bool.and_eq_true] at hcm; exact hcm.1
      have hL : (Gama.PD.scanTail mant (c :: r)).2 = Lit.skipDigits (Lit.skipSign r) := by
        simp only [Gama.PD.scanTail]; rw [if_pos hcm]
      rw [hL]
      exact (NSP.cons c r (isExp_not_space hc)).trans ((NSP.skipSign r).trans (NSP.skipDigits _))
    · have hL : (Gama.PD.scanTail mant (c :: r)).2 = c :: r := by
        simp only [Gama.PD.scanTail]; rw [if_neg hcm]
      rw [hL]; exact NSP.refl _

/-- the characters accumulated by the extraction contain no blank -/
theorem scanDouble_decomp (t : List Char) : ∃ acc, t = acc ++ (scanDouble t).2 ∧ NoSpace acc := by
  rw [scanDouble_eq]
  exact (NSP.skipSign t).trans ((NSP.skipDigits _).trans ((NSP.afterDot _).trans
    ((NSP.skipDigits _).trans (NSP.scanTail _ _))))

theorem trim_noSpace (acc : List Char) (h : NoSpace acc) : trim acc = acc := by
  have := trim_eq [] acc [] (by intro c hc; cases hc) (by intro c hc; cases hc) h
  simpa using this

theorem finiteLit_congr (a b : List Char) (h : trim a = trim b) : finiteLit a = finiteLit b := by
  unfold finiteLit; rw [h]

theorem floatBody_nil : floatBody [] = false := by decide

theorem isFloat_eq (s : List Char) : isFloat s = floatBody (trim s) := by
  unfold isFloat
  split
  · rename_i h; rw [h, floatBody_nil]
  · rfl

/-! ### the theorems -/

/-- `pure_data(istr >> f)` and `CoreParser::toDouble` accept the same strings -/
theorem numberOk_eq_toDoubleOk (s : List Char) : numberOk s = toDoubleOk s := by
  have hinv := extractDouble_inv _ (ofText_inv s)
  rw [Bool.eq_iff_iff, numberOk, pureData_spec _ hinv]
  unfold toDoubleOk
  rw [isFloat_eq]
  unfold extractDouble Stream.ofText
  simp only [Bool.false_eq_true, if_false]
  cases ht : skipWs s with
  | nil =>
    have : trim s = [] := by unfold trim; rw [ht]; rfl
    simp [this, floatBody_nil]
  | cons c cs =>
    simp only
    have hcore := core_agree (c :: cs)
    obtain ⟨acc, hacc, nacc⟩ := scanDouble_decomp (c :: cs)
    generalize hr : scanDouble (c :: cs) = r at hcore hacc
    have htake : (c :: cs).take ((c :: cs).length - r.2.length) = acc := by
      conv => lhs; rw [hacc]
      simp
    rw [htake]
    have htrim : trim s = dropBack (c :: cs) := by unfold trim; rw [ht]
    rw [htrim, ← hcore]
    cases hsp : r.2.all isSpace
    · simp
    · have hfin : finiteLit acc = finiteLit s := by
        apply finiteLit_congr
        rw [trim_noSpace acc nacc, htrim, hacc]
        have : AllSpace r.2 := fun x hx => List.all_eq_true.mp hsp x hx
        exact (dropBack_noSpace_append acc r.2 nacc this).symm
      rw [hfin]
      simp

/-- the accepted language of `pure_data(istr >> f)`: the documented float format with a finite value -/
theorem numberOk_language (s : List Char) : numberOk s = true ↔ (FloatLang s ∧ finiteLit s = true) := by
  rw [numberOk_eq_toDoubleOk, toDoubleOk, Bool.and_eq_true, isFloat_iff]

end Gama.PD
