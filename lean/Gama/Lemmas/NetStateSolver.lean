/-
  C04 round 4 — the solver object of `LocalNetwork` and its regularisation list (Model/NetState.lean, `MState`):
  whenever the adjustment artefacts are valid, the solver that produced them had been given the list of the CURRENT
  numbering (invariant along every history with `set_algorithm`).  Core Lean only.
-/
import Gama.Lemmas.NetState
namespace Gama.C04.Net
open Gen

def MOp.Ok : MOp → Prop
  | .net op => op.Ok
  | .setAlgorithm _ => True

/-- **the hand-over site as read from network.cpp** (`Gen.handOver`): one call `least_squares->min_x(min_n_, min_x_)`, a
    statement at depth 0 after the list was rebuilt and after the solver's `reset`, before `tst_rov_opr_ = true`: on
    every run the solver is told the list just built.  Breaks when the call is moved before the rebuild (stale list),
    guarded, given other arguments or removed. -/
theorem handCode_eq (prev : Option (List Nat)) (new : List Nat) (held : SList) : handCode prev new held = .given new := rfl

/-- **`set_algorithm` as read from network.cpp** (`Gen.setAlg`): a brand-new object of the class the name selects, told
    nothing (default list), `update(Points)`.  Breaks when the old object survives on some path, when the new one is fed
    from it, or when the `update` is missing / conditional / at a higher level. -/
theorem setAlgCode_eq (m : MState) (name : String) :
    setAlgGen Gen.setAlg m name
      = { m with net := update { m.net with cfg := bump m.net.cfg 0 } 0, held := .dflt, cls := classOf Gen.setAlg name } := rfl

/-- the four names and the fall-back of `set_algorithm` (regenerated table) -/
theorem classOf_table :
    classOf Gen.setAlg "gso" = "AdjGSO" ∧ classOf Gen.setAlg "svd" = "AdjSVD" ∧ classOf Gen.setAlg "cholesky" = "AdjCholDec"
    ∧ classOf Gen.setAlg "envelope" = "AdjEnvelope" ∧ classOf Gen.setAlg "" = "AdjEnvelope"
    ∧ Gen.setAlg.storesName = true := by decide

/-- the list of the current numbering -/
def curList (inp : MInput) (s : NState) : SList := .given (inp.lst (snap s.cfg 2))

structure MInv (inp : MInput) (m : MState) : Prop where
  net : NInv m.net
  /-- while the equations are valid, the CURRENT solver object holds the list of the current numbering -/
  held : m.net.f2 = true → m.held = curList inp m.net
  /-- while the adjustment is valid, it was produced by a solver holding that list -/
  adj : m.net.f3 = true → m.a3list = some (curList inp m.net)
  /-- … and by the CURRENT solver object's class (`set_algorithm` clears `tst_vyrovnani_`) -/
  cls : m.net.f3 = true → m.a3cls = some m.cls

theorem minv_init (inp : MInput) (c : Cfg) (cls : String := Gen.setAlg.dflt.2) : MInv inp (minit c cls) :=
  ⟨ninv_init c, fun h => by simp [minit, ninit] at h, fun h => by simp [minit, ninit] at h, fun h => by simp [minit, ninit] at h⟩

/-- `update` only clears flags -/
theorem update_flags (s : NState) (l : Nat) (hl : l ≤ 3) :
    ((update s l).f2 = true → s.f2 = true) ∧ ((update s l).f3 = true → s.f3 = true) ∧ (l ≤ 2 → (update s l).f2 = false)
    ∧ (update s l).f3 = false := by
  have hu := update_eq s
  have : l = 0 ∨ l = 1 ∨ l = 2 ∨ l = 3 := by omega
  rcases this with rfl | rfl | rfl | rfl
  · rw [hu.1]; simp
  · rw [hu.2.1]; simp
  · rw [hu.2.2.1]; simp
  · rw [hu.2.2.2]; simp

/-- the state after the unconditional prefix of a call (no throw): invariant, same configuration -/
theorem prefix_spec (inp : NInput) (hthr : inp.throws = false) {s : NState} (h : NInv s) (op : NOp) (hop : op.Ok) :
    NInv (prefixState inp s op) ∧ (prefixState inp s op).cfg = s.cfg
    ∧ (readsAdjustment op = true → (prefixState inp s op).f3 = true) := by
  cases op with
  | change l => exact ⟨h, rfl, fun hh => by simp [readsAdjustment] at hh⟩
  | touch l => exact ⟨h, rfl, fun hh => by simp [readsAdjustment] at hh⟩
  | call m =>
    obtain ⟨_, hreads, hens, _⟩ := hop
    cases he : m.ensures with
    | none =>
      refine ⟨by simpa [prefixState, prefixRun, he] using h, by simp [prefixState, prefixRun, he], ?_⟩
      intro hh
      simp only [readsAdjustment, List.contains_eq_mem, decide_eq_true_eq] at hh
      obtain ⟨e, he', _⟩ := hreads 3 hh
      rw [he] at he'; cases he'
    | some L =>
      have hL := hens L he
      have hr := run_spec inp hthr h L hL
      refine ⟨by simpa [prefixState, prefixRun, he] using hr.2.1, by simpa [prefixState, prefixRun, he] using hr.2.2.1, ?_⟩
      intro hh
      simp only [readsAdjustment, List.contains_eq_mem, decide_eq_true_eq] at hh
      obtain ⟨e, he', hre⟩ := hreads 3 hh
      rw [he] at he'; cases he'
      have : L = 3 := by omega
      subst this
      simpa [prefixState, prefixRun, he] using hr.2.2.2.2.2.2 (by omega)

/-- how the flags and the configuration after the whole call relate to the prefix state -/
theorem nstep_flags (inp : NInput) (hthr : inp.throws = false) {s : NState} (h : NInv s) (op : NOp) (hop : op.Ok) :
    let p := prefixState inp s op
    let s' := (nstep inp s op).1
    (s'.f2 = true → p.f2 = true ∧ snap s'.cfg 2 = snap s.cfg 2) ∧ (s'.f3 = true → p.f3 = true ∧ snap s'.cfg 2 = snap s.cfg 2) := by
  intro p s'
  cases op with
  | change l =>
    have hu := update_flags { s with cfg := bump s.cfg l } l hop
    have hl : l = 0 ∨ l = 1 ∨ l = 2 ∨ l = 3 := by have : l ≤ 3 := hop; omega
    refine ⟨fun h2 => ?_, fun h3 => ?_⟩
    · have h2' : (update { s with cfg := bump s.cfg l } l).f2 = true := h2
      rcases hl with rfl | rfl | rfl | rfl
      · rw [hu.2.2.1 (by omega)] at h2'; cases h2'
      · rw [hu.2.2.1 (by omega)] at h2'; cases h2'
      · rw [hu.2.2.1 (by omega)] at h2'; cases h2'
      · refine ⟨hu.1 h2', ?_⟩
        show snap (update { s with cfg := bump s.cfg 3 } 3).cfg 2 = _
        rw [(update_frame _ 3 (by omega)).1]
        exact snap_bump s.cfg 3 2 (by omega) (by omega)
    · have h3' : (update { s with cfg := bump s.cfg l } l).f3 = true := h3
      rw [hu.2.2.2] at h3'; cases h3'
  | touch l =>
    have hu := update_flags s l hop
    have hc : (update s l).cfg = s.cfg := (update_frame s l hop).1
    exact ⟨fun h2 => ⟨hu.1 h2, by show snap (update s l).cfg 2 = _; rw [hc]⟩,
           fun h3 => ⟨hu.2.1 h3, by show snap (update s l).cfg 2 = _; rw [hc]⟩⟩
  | call m =>
    have hp := prefix_spec inp hthr h (.call m) hop
    have hnt : (prefixRun inp m s).2 = false := by
      obtain ⟨_, _, hens, _⟩ := hop
      cases he : m.ensures with
      | none => simp [prefixRun, he]
      | some L => simpa [prefixRun, he] using (run_spec inp hthr h L (hens L he)).1
    have hst : s' = (match m.updates with | some u => update p u | none => p) := by
      show (nstep inp s (.call m)).1 = _
      simp only [nstep, hnt, Bool.false_eq_true, if_false]
      rfl
    cases hu : m.updates with
    | none =>
      rw [hu] at hst
      simp only at hst
      rw [hst]
      exact ⟨fun h2 => ⟨h2, by rw [hp.2.1]⟩, fun h3 => ⟨h3, by rw [hp.2.1]⟩⟩
    | some u =>
      rw [hu] at hst
      simp only at hst
      rw [hst]
      have hu' := update_flags p u (hop.upd u hu)
      have hc : (update p u).cfg = s.cfg := by rw [(update_frame p u (hop.upd u hu)).1, hp.2.1]
      exact ⟨fun h2 => ⟨hu'.1 h2, by rw [hc]⟩, fun h3 => ⟨hu'.2.1 h3, by rw [hc]⟩⟩

/-- one step keeps the invariant (the code's hand-over) -/
theorem mstep_inv (inp : MInput) (hthr : inp.net.throws = false) {m : MState} (hi : MInv inp m) (o : MOp) (ho : o.Ok) :
    MInv inp (mstep inp m o).1 := by
  cases o with
  | setAlgorithm name =>
    have hn := ninv_change hi.net 0 (by omega)
    have hf := update_flags { m.net with cfg := bump m.net.cfg 0 } 0 (by omega)
    show MInv inp (setAlgGen Gen.setAlg m name)
    rw [setAlgCode_eq]
    refine ⟨hn, fun h2 => ?_, fun h3 => ?_, fun h3 => ?_⟩
    · have : (update { m.net with cfg := bump m.net.cfg 0 } 0).f2 = true := h2
      rw [hf.2.2.1 (by omega)] at this; cases this
    · have : (update { m.net with cfg := bump m.net.cfg 0 } 0).f3 = true := h3
      rw [hf.2.2.2] at this; cases this
    · have : (update { m.net with cfg := bump m.net.cfg 0 } 0).f3 = true := h3
      rw [hf.2.2.2] at this; cases this
  | net op =>
    have hs := nstep_spec inp.net hthr hi.net op ho
    have hp := prefix_spec inp.net hthr hi.net op ho
    have hf := nstep_flags inp.net hthr hi.net op ho
    -- the list the solver holds once the prefix has run, whenever the equations are then valid
    have hheld : (prefixState inp.net m.net op).f2 = true →
        (if (!m.net.f2 && (prefixState inp.net m.net op).f2) = true
          then handCode m.netList (inp.lst (snap m.net.cfg 2)) m.held else m.held) = curList inp m.net := by
      intro hp2
      by_cases h2 : m.net.f2 = true
      · simp [h2, hi.held h2]
      · have h2' : m.net.f2 = false := by simpa using h2
        simp [h2', hp2, handCode_eq, curList]
    refine ⟨hs.1, fun h2 => ?_, fun h3 => ?_, fun h3 => ?_⟩
    · obtain ⟨hp2, hc⟩ := hf.1 h2
      show (if (!m.net.f2 && (prefixState inp.net m.net op).f2) = true then _ else _) = curList inp (nstep inp.net m.net op).1
      rw [hheld hp2]
      simp only [curList, hc]
    · obtain ⟨hp3, hc⟩ := hf.2 h3
      have hp2 : (prefixState inp.net m.net op).f2 = true := hp.1.m3 hp3
      show (if (!m.net.f3 && (prefixState inp.net m.net op).f3) = true then some _ else m.a3list) = some (curList inp (nstep inp.net m.net op).1)
      by_cases h3' : m.net.f3 = true
      · simp only [h3', Bool.not_true, Bool.false_and, Bool.false_eq_true, if_false]
        rw [hi.adj h3']
        simp only [curList, hc]
      · have h3'' : m.net.f3 = false := by simpa using h3'
        simp only [h3'', Bool.not_false, Bool.true_and, hp3, if_true]
        rw [hheld hp2]
        simp only [curList, hc]
    · obtain ⟨hp3, _⟩ := hf.2 h3
      show (if (!m.net.f3 && (prefixState inp.net m.net op).f3) = true then some m.cls else m.a3cls) = some m.cls
      by_cases h3' : m.net.f3 = true
      · simp only [h3', Bool.not_true, Bool.false_and, Bool.false_eq_true, if_false]
        exact hi.cls h3'
      · have h3'' : m.net.f3 = false := by simpa using h3'
        simp only [h3'', Bool.not_false, Bool.true_and, hp3, if_true]

theorem mrun_inv (inp : MInput) (hthr : inp.net.throws = false) {m : MState} (hi : MInv inp m) {ops : List MOp}
    (hops : ∀ o ∈ ops, o.Ok) : MInv inp (mrun inp m ops) := by
  induction ops generalizing m with
  | nil => exact hi
  | cons o ops ih =>
    exact ih (mstep_inv inp hthr hi o (hops o (List.mem_cons_self ..)))
      (fun o' ho' => hops o' (List.mem_cons_of_mem _ ho'))

/-- a member that reads the adjustment artefacts reads artefacts of a solver that held the current list and is of the
    current class -/
theorem mstep_reads (inp : MInput) (hthr : inp.net.throws = false) {m : MState} (hi : MInv inp m) (op : NOp) (ho : op.Ok)
    (hr : readsAdjustment op = true) :
    (mstep inp m (.net op)).2.2 = some (curList inp m.net, m.cls) := by
  have hp := prefix_spec inp.net hthr hi.net op ho
  have hp3 := hp.2.2 hr
  have hp2 : (prefixState inp.net m.net op).f2 = true := hp.1.m3 hp3
  have hl : (if (!m.net.f3 && (prefixState inp.net m.net op).f3) = true then
        some (if (!m.net.f2 && (prefixState inp.net m.net op).f2) = true
          then handCode m.netList (inp.lst (snap m.net.cfg 2)) m.held else m.held) else m.a3list) = some (curList inp m.net) := by
    by_cases h3 : m.net.f3 = true
    · simp only [h3, Bool.not_true, Bool.false_and, Bool.false_eq_true, if_false]
      exact hi.adj h3
    · have h3' : m.net.f3 = false := by simpa using h3
      simp only [h3', Bool.not_false, Bool.true_and, hp3, if_true]
      by_cases h2 : m.net.f2 = true
      · simp [h2, hi.held h2]
      · have h2' : m.net.f2 = false := by simpa using h2
        simp [h2', hp2, handCode_eq, curList]
  have hc : (if (!m.net.f3 && (prefixState inp.net m.net op).f3) = true then some m.cls else m.a3cls) = some m.cls := by
    by_cases h3 : m.net.f3 = true
    · simp only [h3, Bool.not_true, Bool.false_and, Bool.false_eq_true, if_false]
      exact hi.cls h3
    · have h3' : m.net.f3 = false := by simpa using h3
      simp only [h3', Bool.not_false, Bool.true_and, hp3, if_true]
  show (if readsAdjustment op = true then
          (match (if (!m.net.f3 && (prefixState inp.net m.net op).f3) = true then some _ else m.a3list),
                 (if (!m.net.f3 && (prefixState inp.net m.net op).f3) = true then some m.cls else m.a3cls) with
            | some l, some c => some (l, c) | _, _ => none) else none) = _
  rw [if_pos hr, hl, hc]

end Gama.C04.Net
