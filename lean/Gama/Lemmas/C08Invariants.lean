/-
  C08 clause 6 — "all distances and angles between adjusted points are the same for every constraint set that resolves
  the defect" (round 11).

  What existed: two datum choices give `A x = A x'` (`C08_net_datum`, `C08_pe_datum(_gap)`), i.e. `x' − x ∈ ker A`, and a
  hand-shaped 2D distance matrix annihilates the rigid motions (`C08_datum_kernel_2d`).  Nothing about the rows the CODE
  produces, nothing about the derived quantities.

  Here, on the regenerated `LocalLinearization::<type>` (`Gen/Linearization.lean`) and the executed pass `Lin.passFrom`:

    * `Gen`, `genVec σ`   the five datum generators of a horizontal network with heights, written on the unknowns of the
                          network `σ` IN THE CODE'S UNITS (coordinate corrections in mm, orientation corrections in cc):
                          `tx = (1,0,…)`, `ty = (0,1,…)`, `tz`, `rot = (−y_i, x_i, …; 2000/π on every orientation)`
                          (an infinitesimal rotation by 1 mrad: `dx_i = −y_i·1000·dθ` mm, `dy_i = x_i·1000·dθ` mm,
                          orientation shift `dθ·R2CC` cc, `R2CC/1000 = 2000/π`), `scale = (x_i, y_i, …; 0)`
    * `Kind.inv`          the table class × generator "the observation function is invariant"
    * `row_annihilates`   every row of an invariant class (all its points adjusted, its own exclusion not applying)
                          has `row · g = 0` — from the coefficients the regenerated member function pushes
    * `passMatrix_mulVec` `passMatrix res m *ᵥ (ξ in the column numbering of the pass) = (row_r · ξ)_r`
    * `generators_in_kernel`   hence `passMatrix res m *ᵥ colOf res.idx (genVec σ g) = 0`
    * `linDist`, `linAngle`    the first-order part of the distance / angle BETWEEN ADJUSTED POINTS: the coefficients the
                          regenerated `distance` / `angle` push for a (virtual) observation between those points,
                          applied to the corrections
-/
import Gama.Lemmas.LinJacobian
import Gama.Lemmas.C06FixedPoint
namespace Gama.C08Inv
open Gama Gama.Lin Gama.C06FP Matrix Real

/-! ## §1 generators and the dot product of a row with a vector on the unknowns -/

/-- `∑ coeff · ξ(unknown the push is for)` over the pushes of one observation -/
def pushDot (name : Role → Coord → Unk) (ξ : Unk → ℝ) : List (Role × Coord × ℝ) → ℝ
  | [] => 0
  | p :: t => p.2.2 * ξ (name p.1 p.2.1) + pushDot name ξ t

@[simp] theorem pushDot_nil (name : Role → Coord → Unk) (ξ : Unk → ℝ) : pushDot name ξ [] = 0 := rfl
@[simp] theorem pushDot_cons (name : Role → Coord → Unk) (ξ : Unk → ℝ) (r : Role) (c : Coord) (v : ℝ) (t) :
    pushDot name ξ ((r, c, v) :: t) = v * ξ (name r c) + pushDot name ξ t := rfl
@[simp] theorem pushDot_append (name : Role → Coord → Unk) (ξ : Unk → ℝ) (a b : List (Role × Coord × ℝ)) :
    pushDot name ξ (a ++ b) = pushDot name ξ a + pushDot name ξ b := by
  induction a with
  | nil => simp
  | cons p t ih => obtain ⟨r, c, v⟩ := p; simp [ih, add_assoc]

theorem pushDot_add (name : Role → Coord → Unk) (ξ ζ : Unk → ℝ) (l : List (Role × Coord × ℝ)) :
    pushDot name (fun u => ξ u + ζ u) l = pushDot name ξ l + pushDot name ζ l := by
  induction l with
  | nil => simp
  | cons p t ih => obtain ⟨r, c, v⟩ := p; simp [ih]; ring

theorem pushDot_smul (name : Role → Coord → Unk) (a : ℝ) (ξ : Unk → ℝ) (l : List (Role × Coord × ℝ)) :
    pushDot name (fun u => a * ξ u) l = a * pushDot name ξ l := by
  induction l with
  | nil => simp
  | cons p t ih => obtain ⟨r, c, v⟩ := p; simp [ih]; ring

/-- the dot product only reads `ξ` at the unknowns the pushes are for -/
theorem pushDot_congr (name : Role → Coord → Unk) (ξ ζ : Unk → ℝ) (l : List (Role × Coord × ℝ))
    (h : ∀ p ∈ l, ξ (name p.1 p.2.1) = ζ (name p.1 p.2.1)) : pushDot name ξ l = pushDot name ζ l := by
  induction l with
  | nil => rfl
  | cons p t ih =>
    obtain ⟨r, c, v⟩ := p
    simp only [pushDot_cons]
    rw [h (r, c, v) List.mem_cons_self, ih (fun q hq => h q (List.mem_cons_of_mem _ hq))]

/-- the datum transformations of a horizontal network with heights -/
inductive Gen where
  | tx | ty | tz | rot | scale
deriving DecidableEq, Repr

/-- the generator as a vector on the unknowns, in the code's units (mm for coordinates, cc for orientations);
    `rot` is the rotation by 1 mrad (so that the coordinate entries are `−y_i`, `x_i` in metres = mm per mrad) and its
    orientation entry is `R2CC / 1000 = 2000/π` cc per mrad; `scale` is the dilatation by 1 ‰ -/
noncomputable def genVec (σ : Net ℝ) : Gen → Unk → ℝ
  | .tx, u => match u.c with | .x => 1 | _ => 0
  | .ty, u => match u.c with | .y => 1 | _ => 0
  | .tz, u => match u.c with | .z => 1 | _ => 0
  | .rot, u => match u.c with | .x => -(σ.pt u.id).y | .y => (σ.pt u.id).x | .ori => 2000 / π | .z => 0
  | .scale, u => match u.c with | .x => (σ.pt u.id).x | .y => (σ.pt u.id).y | _ => 0

/-- class × generator: is the observation function of the class invariant under the transformation (the orientation
    unknown shifting with the rotation)?  `x`/`y`/`z` (observed coordinates) are invariant only under the translations
    along the OTHER axes; `scale` is horizontal, so the spatial classes are not claimed invariant under it. -/
def _root_.Gama.Lin.Kind.inv : Kind → Gen → Bool
  | .direction, _ => true
  | .angle, _ => true
  | .distance, .scale => false
  | .distance, _ => true
  | .azimuth, .rot => false
  | .azimuth, _ => true
  | .h_diff, _ => true
  | .zdiff, _ => true
  | .xdiff, .rot => false
  | .xdiff, .scale => false
  | .xdiff, _ => true
  | .ydiff, .rot => false
  | .ydiff, .scale => false
  | .ydiff, _ => true
  | .x, .ty => true
  | .x, .tz => true
  | .x, _ => false
  | .y, .tx => true
  | .y, .tz => true
  | .y, _ => false
  | .z, .tz => false
  | .z, _ => true
  | .s_distance, .scale => false
  | .s_distance, _ => true
  | .z_angle, .scale => false
  | .z_angle, _ => true

/-- every point the class reads is adjusted (free or constrained): the premise "free network" for one row -/
def AllFree (k : Kind) (o : Obs ℝ) : Prop := ∀ rc ∈ k.roles, freeAt o rc = true

/-! ## §2 one row -/

section rows
variable (σ : Net ℝ) (ob : NObs ℝ)

private theorem kf_mul (d a b : ℝ) (hd : d ≠ 0) (hsq : d * d = a * a + b * b) :
    KF d * (a / d) * a + KF d * (b / d) * b = 2000 / π := by
  have hpi : π ≠ 0 := Real.pi_ne_zero
  have e : KF d * (a / d) * a + KF d * (b / d) * b = KF d / d * (a * a + b * b) := by ring
  rw [e, ← hsq]; unfold KF; field_simp

theorem distance_annihilates (g : Gen) (hinv : Kind.inv .distance g = true) (fuel : Nat) (out : LinOut ℝ)
    (hreg : ¬ hdist (σ.view ob) < CUT) (hfree : AllFree .distance (σ.view ob))
    (hok : Gen.Lin.distance fuel (σ.view ob) = .ok out) : pushDot ob.name (genVec σ g) out.pushes = 0 := by
  rw [distance_eq fuel _ hreg] at hok
  injection hok with hok; subst hok
  have f1 : (σ.view ob).pfrom.free_xy = true := hfree (.pfrom, .x) (by simp [Kind.roles])
  have f2 : (σ.view ob).pto.free_xy = true := hfree (.pto, .x) (by simp [Kind.roles])
  have hd : hdist (σ.view ob) ≠ 0 := (hdist_pos_of_not_cut hreg).ne'
  simp only [LinOut.pushes, f1, f2, if_true, pushes_append, pushes_touch, pushes_push, pushes_nil, pushDot_append,
    pushDot_cons, pushDot_nil]
  generalize hdist (σ.view ob) = d at hd ⊢
  cases g <;> simp only [Kind.inv, Bool.false_eq_true] at hinv <;>
    simp only [genVec, NObs.name, dX, dY, Net.view] <;> field_simp <;> ring

theorem direction_annihilates (g : Gen) (fuel : Nat) (out : LinOut ℝ)
    (hreg : ¬ hdist (σ.view ob) < CUT) (hfree : AllFree .direction (σ.view ob))
    (hok : Gen.Lin.direction fuel (σ.view ob) = .ok out) : pushDot ob.name (genVec σ g) out.pushes = 0 := by
  have he := (direction_ok fuel _ out hreg hok).2
  have f1 : (σ.view ob).pfrom.free_xy = true := hfree (.pfrom, .x) (by simp [Kind.roles])
  have f2 : (σ.view ob).pto.free_xy = true := hfree (.pto, .x) (by simp [Kind.roles])
  have hd : hdist (σ.view ob) ≠ 0 := (hdist_pos_of_not_cut hreg).ne'
  have hsq := hdist_mul_self (σ.view ob)
  have hk := kf_mul _ _ _ hd hsq
  unfold LinOut.pushes; rw [he]; unfold directionEvs
  simp only [f1, f2, if_true, pushes_append, pushes_touch, pushes_push, pushes_nil, pushDot_append,
    pushDot_cons, pushDot_nil]
  generalize hdist (σ.view ob) = d at hd hk ⊢
  generalize KF d = K at hk ⊢
  cases g <;> simp only [genVec, NObs.name, dX, dY, Net.view] at hk ⊢
  · ring
  · ring
  · ring
  · linear_combination hk
  · field_simp; ring

theorem azimuth_annihilates (g : Gen) (hinv : Kind.inv .azimuth g = true) (fuel : Nat) (out : LinOut ℝ)
    (hreg : ¬ hdist (σ.view ob) < CUT) (hfree : AllFree .azimuth (σ.view ob))
    (hok : Gen.Lin.azimuth fuel (σ.view ob) = .ok out) : pushDot ob.name (genVec σ g) out.pushes = 0 := by
  have he := (azimuth_ok fuel _ out hreg hok).2
  have f1 : (σ.view ob).pfrom.free_xy = true := hfree (.pfrom, .x) (by simp [Kind.roles])
  have f2 : (σ.view ob).pto.free_xy = true := hfree (.pto, .x) (by simp [Kind.roles])
  have hd : hdist (σ.view ob) ≠ 0 := (hdist_pos_of_not_cut hreg).ne'
  unfold LinOut.pushes; rw [he]; unfold azimuthEvs
  simp only [f1, f2, if_true, pushes_append, pushes_touch, pushes_push, pushes_nil, pushDot_append,
    pushDot_cons, pushDot_nil]
  generalize hdist (σ.view ob) = d at hd ⊢
  generalize KF d = K
  cases g <;> simp only [Kind.inv, Bool.false_eq_true] at hinv <;>
    simp only [genVec, NObs.name, dX, dY, Net.view] <;> field_simp <;> ring

theorem angle_annihilates (g : Gen) (fuel : Nat) (out : LinOut ℝ)
    (hreg : ¬ hdist (σ.view ob) < CUT) (hreg' : ¬ hdist2 (σ.view ob) < CUT) (hfree : AllFree .angle (σ.view ob))
    (hok : Gen.Lin.angle fuel (σ.view ob) = .ok out) : pushDot ob.name (genVec σ g) out.pushes = 0 := by
  have he := (angle_ok fuel _ out hreg hreg' hok).2
  have f1 : (σ.view ob).pfrom.free_xy = true := hfree (.pfrom, .x) (by simp [Kind.roles])
  have f2 : (σ.view ob).pto.free_xy = true := hfree (.pto, .x) (by simp [Kind.roles])
  have f3 : (σ.view ob).pfs.free_xy = true := hfree (.pfs, .x) (by simp [Kind.roles])
  have hd : hdist (σ.view ob) ≠ 0 := (hdist_pos_of_not_cut hreg).ne'
  have hd2 : hdist2 (σ.view ob) ≠ 0 := (hdist2_pos_of_not_cut hreg').ne'
  have hk := kf_mul _ _ _ hd (hdist_mul_self (σ.view ob))
  have hk2 := kf_mul _ _ _ hd2 (hdist2_mul_self (σ.view ob))
  unfold LinOut.pushes; rw [he]; unfold angleEvs
  simp only [f1, f2, f3, if_true, pushes_append, pushes_touch, pushes_push, pushes_nil, pushDot_append,
    pushDot_cons, pushDot_nil]
  generalize hdist (σ.view ob) = d at hd hk ⊢
  generalize hdist2 (σ.view ob) = d2 at hd2 hk2 ⊢
  generalize KF d = K at hk ⊢
  generalize KF d2 = K2 at hk2 ⊢
  cases g <;> simp only [genVec, NObs.name, dX, dY, dX2, dY2, Net.view] at hk hk2 ⊢
  · ring
  · ring
  · ring
  · linear_combination hk2 - hk
  · field_simp; ring

theorem s_distance_annihilates (g : Gen) (hinv : Kind.inv .s_distance g = true) (fuel : Nat) (out : LinOut ℝ)
    (hfree : AllFree .s_distance (σ.view ob))
    (hok : Gen.Lin.s_distance fuel (σ.view ob) = .ok out) : pushDot ob.name (genVec σ g) out.pushes = 0 := by
  rw [s_distance_eq] at hok
  split at hok
  · exact absurd hok (by simp)
  rename_i hd
  injection hok with hok; subst hok
  have f1 : (σ.view ob).pfrom.free_xy = true := hfree (.pfrom, .x) (by simp [Kind.roles])
  have f2 : (σ.view ob).pto.free_xy = true := hfree (.pto, .x) (by simp [Kind.roles])
  have f3 : (σ.view ob).pfrom.free_z = true := hfree (.pfrom, .z) (by simp [Kind.roles])
  have f4 : (σ.view ob).pto.free_z = true := hfree (.pto, .z) (by simp [Kind.roles])
  unfold LinOut.pushes sdistEvs
  simp only [f1, f2, f3, f4, if_true, pushes_append, pushes_touch, pushes_push, pushes_nil, pushDot_append,
    pushDot_cons, pushDot_nil]
  generalize sdist (σ.view ob) = d at hd ⊢
  cases g <;> simp only [Kind.inv, Bool.false_eq_true] at hinv <;>
    simp only [genVec, NObs.name, dX, dY, dZ, Net.view] <;> field_simp <;> ring

theorem z_angle_annihilates (g : Gen) (hinv : Kind.inv .z_angle g = true) (fuel : Nat) (out : LinOut ℝ)
    (hfree : AllFree .z_angle (σ.view ob))
    (hok : Gen.Lin.z_angle fuel (σ.view ob) = .ok out) : pushDot ob.name (genVec σ g) out.pushes = 0 := by
  rw [z_angle_eq] at hok
  split at hok
  · exact absurd hok (by simp)
  injection hok with hok; subst hok
  have f1 : (σ.view ob).pfrom.free_xy = true := hfree (.pfrom, .x) (by simp [Kind.roles])
  have f2 : (σ.view ob).pto.free_xy = true := hfree (.pto, .x) (by simp [Kind.roles])
  have f3 : (σ.view ob).pfrom.free_z = true := hfree (.pfrom, .z) (by simp [Kind.roles])
  have f4 : (σ.view ob).pto.free_z = true := hfree (.pto, .z) (by simp [Kind.roles])
  unfold LinOut.pushes zangleEvs
  simp only [f1, f2, f3, f4, if_true, pushes_append, pushes_touch, pushes_push, pushes_nil, pushDot_append,
    pushDot_cons, pushDot_nil]
  generalize zsign (σ.view ob) = s
  generalize KZ (σ.view ob) = K
  generalize hdist (σ.view ob) = d
  cases g <;> simp only [Kind.inv, Bool.false_eq_true] at hinv <;>
    simp only [genVec, NObs.name, dX, dY, dZ, Net.view] <;> ring

/-- the classes whose coefficients are constants ±1 -/
theorem affine_annihilates (k : Kind) (hk : k = .h_diff ∨ k = .zdiff ∨ k = .xdiff ∨ k = .ydiff ∨ k = .x ∨ k = .y ∨ k = .z)
    (g : Gen) (hinv : k.inv g = true) (fuel : Nat) (out : LinOut ℝ) (hfree : AllFree k (σ.view ob))
    (hok : k.lin fuel (σ.view ob) = .ok out) : pushDot ob.name (genVec σ g) out.pushes = 0 := by
  rcases hk with rfl | rfl | rfl | rfl | rfl | rfl | rfl
  · have e : Gen.Lin.h_diff fuel (σ.view ob) = .ok out := hok
    rw [h_diff_eq] at e; injection e with e; subst e
    have f1 : (σ.view ob).pfrom.free_z = true := hfree (.pfrom, .z) (by simp [Kind.roles])
    have f2 : (σ.view ob).pto.free_z = true := hfree (.pto, .z) (by simp [Kind.roles])
    cases g <;> simp [LinOut.pushes, f1, f2, genVec, NObs.name]
  · have e : Gen.Lin.zdiff fuel (σ.view ob) = .ok out := hok
    rw [zdiff_eq] at e; injection e with e; subst e
    have f1 : (σ.view ob).pfrom.free_z = true := hfree (.pfrom, .z) (by simp [Kind.roles])
    have f2 : (σ.view ob).pto.free_z = true := hfree (.pto, .z) (by simp [Kind.roles])
    cases g <;> simp [LinOut.pushes, f1, f2, genVec, NObs.name]
  · have e : Gen.Lin.xdiff fuel (σ.view ob) = .ok out := hok
    rw [xdiff_eq] at e; injection e with e; subst e
    have f1 : (σ.view ob).pfrom.free_xy = true := hfree (.pfrom, .x) (by simp [Kind.roles])
    have f2 : (σ.view ob).pto.free_xy = true := hfree (.pto, .x) (by simp [Kind.roles])
    cases g <;> simp [Kind.inv] at hinv <;> simp [LinOut.pushes, f1, f2, genVec, NObs.name]
  · have e : Gen.Lin.ydiff fuel (σ.view ob) = .ok out := hok
    rw [ydiff_eq] at e; injection e with e; subst e
    have f1 : (σ.view ob).pfrom.free_xy = true := hfree (.pfrom, .y) (by simp [Kind.roles])
    have f2 : (σ.view ob).pto.free_xy = true := hfree (.pto, .y) (by simp [Kind.roles])
    cases g <;> simp [Kind.inv] at hinv <;> simp [LinOut.pushes, f1, f2, genVec, NObs.name]
  · have e : Gen.Lin.x fuel (σ.view ob) = .ok out := hok
    rw [x_eq] at e; injection e with e; subst e
    have f1 : (σ.view ob).pfrom.free_xy = true := hfree (.pfrom, .x) (by simp [Kind.roles])
    cases g <;> simp [Kind.inv] at hinv <;> simp [LinOut.pushes, f1, genVec, NObs.name]
  · have e : Gen.Lin.y fuel (σ.view ob) = .ok out := hok
    rw [y_eq] at e; injection e with e; subst e
    have f1 : (σ.view ob).pfrom.free_xy = true := hfree (.pfrom, .y) (by simp [Kind.roles])
    cases g <;> simp [Kind.inv] at hinv <;> simp [LinOut.pushes, f1, genVec, NObs.name]
  · have e : Gen.Lin.z fuel (σ.view ob) = .ok out := hok
    rw [z_eq] at e; injection e with e; subst e
    have f1 : (σ.view ob).pfrom.free_z = true := hfree (.pfrom, .z) (by simp [Kind.roles])
    cases g <;> simp [Kind.inv] at hinv <;> simp [LinOut.pushes, f1, genVec, NObs.name]

/-- **every row of an invariant class annihilates the generator**, all 13 classes -/
theorem row_annihilates (k : Kind) (g : Gen) (hinv : k.inv g = true) (fuel : Nat) (out : LinOut ℝ)
    (hreg : Regular k (σ.view ob)) (hfree : AllFree k (σ.view ob))
    (hok : k.lin fuel (σ.view ob) = .ok out) : pushDot ob.name (genVec σ g) out.pushes = 0 := by
  cases k
  case direction => exact direction_annihilates σ ob g fuel out hreg hfree hok
  case distance => exact distance_annihilates σ ob g hinv fuel out hreg hfree hok
  case angle => exact angle_annihilates σ ob g fuel out hreg.1 hreg.2 hfree hok
  case azimuth => exact azimuth_annihilates σ ob g hinv fuel out hreg hfree hok
  case s_distance => exact s_distance_annihilates σ ob g hinv fuel out hfree hok
  case z_angle => exact z_angle_annihilates σ ob g hinv fuel out hfree hok
  case h_diff => exact affine_annihilates σ ob _ (by simp) g hinv fuel out hfree hok
  case zdiff => exact affine_annihilates σ ob _ (by simp) g hinv fuel out hfree hok
  case xdiff => exact affine_annihilates σ ob _ (by simp) g hinv fuel out hfree hok
  case ydiff => exact affine_annihilates σ ob _ (by simp) g hinv fuel out hfree hok
  case x => exact affine_annihilates σ ob _ (by simp) g hinv fuel out hfree hok
  case y => exact affine_annihilates σ ob _ (by simp) g hinv fuel out hfree hok
  case z => exact affine_annihilates σ ob _ (by simp) g hinv fuel out hfree hok

end rows

/-! ## §3 the pass: `A · (ξ in the column numbering)` row by row -/

/-- the unknown that owns column `j` (1-based) in the numbering `s` -/
def unkOfCol (s : IdxState) (j : Nat) : Unk :=
  match s.tab.find? (fun e => e.2 = j) with
  | some e => e.1
  | none => ⟨0, .x⟩

theorem unkOfCol_get {s : IdxState} (h : s.WF) (u : Unk) (hu : s.get u ≠ 0) : unkOfCol s (s.get u) = u := by
  have hm := IdxState.get_mem hu
  unfold unkOfCol
  cases hf : s.tab.find? (fun e => e.2 = s.get u) with
  | none =>
    have := List.find?_eq_none.mp hf _ hm
    simp at this
  | some e =>
    have hm' := List.mem_of_find?_eq_some hf
    have hk : e.2 = s.get u := by simpa using List.find?_some hf
    have hnd : (s.tab.map Prod.snd).Nodup := by
      rw [h.vals]; exact List.nodup_reverse.mpr (List.nodup_range' (step := 1) (by omega))
    have := List.inj_on_of_nodup_map hnd hm' hm (by simpa using hk)
    simp [this]

/-- a vector on the unknowns, written in the column numbering `s` (entry `j` ↦ column `j+1`) -/
def colOf (s : IdxState) (ξ : Unk → ℝ) : Fin s.maxn → ℝ := fun j => ξ (unkOfCol s (j.val + 1))

/-- a column vector read back on the unknowns (0 on unknowns without a column) -/
def unkFn (s : IdxState) (x : Fin s.maxn → ℝ) (u : Unk) : ℝ :=
  if h : 1 ≤ s.get u ∧ s.get u ≤ s.maxn then x ⟨s.get u - 1, by omega⟩ else 0

theorem unkFn_colOf {s : IdxState} (h : s.WF) (ζ : Unk → ℝ) (u : Unk) (hu : s.get u ≠ 0) :
    unkFn s (colOf s ζ) u = ζ u := by
  have h1 : 1 ≤ s.get u ∧ s.get u ≤ s.maxn := ⟨by omega, IdxState.get_pos_le h u⟩
  unfold unkFn colOf
  rw [dif_pos h1]
  have : s.get u - 1 + 1 = s.get u := by omega
  simp only [this, unkOfCol_get h u hu]

theorem unkFn_add (s : IdxState) (x y : Fin s.maxn → ℝ) (u : Unk) : unkFn s (x + y) u = unkFn s x u + unkFn s y u := by
  unfold unkFn; split <;> simp

theorem sum_rowSum (n : ℕ) (G : ℕ → ℝ) (row : List (Nat × ℝ)) (h : ∀ e ∈ row, 1 ≤ e.1 ∧ e.1 ≤ n) :
    ∑ j : Fin n, rowSum row (j.val + 1) * G (j.val + 1) = (row.map fun e => e.2 * G e.1).sum := by
  induction row with
  | nil => simp [rowSum_nil]
  | cons e t ih =>
    obtain ⟨i, v⟩ := e
    have hi := h (i, v) List.mem_cons_self
    simp only [rowSum_cons, add_mul, Finset.sum_add_distrib, List.map_cons, List.sum_cons]
    rw [ih (fun e he => h e (List.mem_cons_of_mem _ he))]
    congr 1
    rw [Finset.sum_eq_single (⟨i - 1, by omega⟩ : Fin n)]
    · have : i - 1 + 1 = i := by omega
      simp [this]
    · intro b _ hb
      have : ¬ i = b.val + 1 := by
        intro e; apply hb; ext; simp; omega
      simp [this]
    · simp

theorem rowDot_runEvs (name : Role → Coord → Unk) (sf : IdxState) (hsf : sf.WF) (ξ : Unk → ℝ) (evs : List (Ev ℝ)) :
    ∀ (s : IdxState) (seen : List (Role × Coord)), s.WF → (∀ rc ∈ seen, s.get (name rc.1 rc.2) ≠ 0) →
      wellTouched evs seen = true →
      (∀ v, (runEvs name evs s).1.get v ≠ 0 → sf.get v = (runEvs name evs s).1.get v) →
      ((runEvs name evs s).2.map fun e => e.2 * ξ (unkOfCol sf e.1)).sum = pushDot name ξ (pushes evs) := by
  induction evs with
  | nil => intro s seen _ _ _ _; rfl
  | cons e t ih =>
    intro s seen h hseen hw hext
    cases e with
    | touch r c =>
      have hw' : wellTouched t ((r, c) :: seen) = true := hw
      have hs' : ∀ rc ∈ (r, c) :: seen, (s.touch (name r c)).get (name rc.1 rc.2) ≠ 0 := by
        intro rc hrc
        rcases List.mem_cons.mp hrc with rfl | hm
        · have := (IdxState.touch_get h (name r c)).1; intro h0; simp only at h0; omega
        · rw [IdxState.touch_get_of_ne_zero s _ _ (hseen rc hm)]; exact hseen rc hm
      exact ih (s.touch (name r c)) _ (IdxState.touch_wf h _) hs' hw' hext
    | push r c v =>
      have hw' : ((r, c) ∈ seen) ∧ wellTouched t seen = true := by simpa [wellTouched] using hw
      have hrun : runEvs name (Ev.push r c v :: t) s =
          ((runEvs name t s).1, (s.get (name r c), v) :: (runEvs name t s).2) := rfl
      rw [hrun] at hext ⊢
      have h1 : s.get (name r c) ≠ 0 := hseen (r, c) hw'.1
      have h2 : (runEvs name t s).1.get (name r c) = s.get (name r c) := (runEvs_wf name t s h).2.2 _ h1
      have h3 : sf.get (name r c) = s.get (name r c) := by rw [hext _ (by rw [h2]; exact h1), h2]
      simp only [List.map_cons, List.sum_cons, pushes_push, pushDot_cons]
      rw [ih s seen h hseen hw'.2 hext, ← h3, unkOfCol_get hsf _ (by rw [h3]; exact h1)]

/-- **row `r` of `A · ξ`**, `ξ` a vector on the unknowns written in the column numbering the pass ends with:
    it is the dot product of what the row's member function pushed with `ξ` -/
theorem pass_row_dot (σ : Net ℝ) (fuel : Nat) (obs : List (NObs ℝ)) :
    ∀ (s : IdxState) (res : PassOut ℝ), s.WF → passFrom σ fuel obs s = .ok res →
      ∀ (ξ : Unk → ℝ) (r : Nat) (ob : NObs ℝ), obs[r]? = some ob →
        ∃ out, ob.kind.lin fuel (σ.view ob) = .ok out ∧
          (wellTouched out.evs [] = true →
            ∑ j : Fin res.idx.maxn, codeMatrix res.rows r (j.val + 1) * colOf res.idx ξ j
              = pushDot ob.name ξ out.pushes) := by
  induction obs with
  | nil => intro s res _ _ ξ r ob hr; simp at hr
  | cons ob0 t ih =>
    intro s res h hp ξ r ob hr
    obtain ⟨out, rr, ho, hrr, rfl⟩ := passFrom_cons hp
    obtain ⟨w1, w2, w3⟩ := runEvs_wf ob0.name out.evs s h
    obtain ⟨a, b, c, _, _⟩ := passFrom_wf σ fuel t _ rr w1 hrr
    cases r with
    | zero =>
      simp only [List.getElem?_cons_zero, Option.some.injEq] at hr
      subst hr
      refine ⟨out, ho, fun hw => ?_⟩
      show ∑ j : Fin rr.idx.maxn, rowSum ((runEvs ob0.name out.evs s).2) (j.val + 1) * ξ (unkOfCol rr.idx (j.val + 1)) = _
      rw [sum_rowSum rr.idx.maxn (fun i => ξ (unkOfCol rr.idx i))]
      · exact rowDot_runEvs ob0.name rr.idx a ξ out.evs s [] h (by simp) hw (fun v hv => c v hv)
      · intro e he
        have := runEvs_rows_in_range ob0.name out.evs s [] h (by simp) hw e he
        exact ⟨this.1, le_trans this.2 b⟩
    | succ n =>
      simp only [List.getElem?_cons_succ] at hr
      obtain ⟨out', h1, h3⟩ := ih _ rr w1 hrr ξ n ob hr
      exact ⟨out', h1, fun hw => by simpa [codeMatrix] using h3 hw⟩

theorem passMatrix_mulVec (σ : Net ℝ) (fuel : Nat) (obs : List (NObs ℝ)) (s : IdxState) (res : PassOut ℝ) (hs : s.WF)
    (hp : passFrom σ fuel obs s = .ok res) (hreg : ∀ ob ∈ obs, Regular ob.kind (σ.view ob)) (ξ : Unk → ℝ)
    (i : Fin obs.length) :
    ∃ out, obs[i].kind.lin fuel (σ.view obs[i]) = .ok out ∧
      (passMatrix res obs.length *ᵥ colOf res.idx ξ) i = pushDot obs[i].name ξ out.pushes := by
  obtain ⟨out, ho, hrow⟩ := pass_row_dot σ fuel obs s res hs hp ξ i.val obs[i] (by simp)
  have hsh := shape_of_regular obs[i].kind fuel _ out (hreg _ (List.getElem_mem _)) ho
  refine ⟨out, ho, ?_⟩
  rw [← hrow hsh.wt]
  simp [passMatrix, mulVec, dotProduct]

/-- **span{g} ⊆ ker A**: the design matrix of a pass over observations of classes invariant under `g`, none excluded,
    all their points adjusted, annihilates the generator written in the pass's own column numbering -/
theorem generators_in_kernel (σ : Net ℝ) (fuel : Nat) (obs : List (NObs ℝ)) (s : IdxState) (res : PassOut ℝ) (hs : s.WF)
    (hp : passFrom σ fuel obs s = .ok res) (g : Gen)
    (hall : ∀ ob ∈ obs, ob.kind.inv g = true ∧ Regular ob.kind (σ.view ob) ∧ AllFree ob.kind (σ.view ob)) :
    passMatrix res obs.length *ᵥ colOf res.idx (genVec σ g) = 0 := by
  funext i
  obtain ⟨out, ho, e⟩ := passMatrix_mulVec σ fuel obs s res hs hp (fun ob h => (hall ob h).2.1) (genVec σ g) i
  obtain ⟨h1, h2, h3⟩ := hall obs[i] (List.getElem_mem _)
  rw [e, row_annihilates σ obs[i] _ g h1 fuel out h2 h3 ho]; rfl

/-! ## §4 derived quantities: first-order invariance -/

/-- a combination of the generators -/
noncomputable def combo (σ : Net ℝ) (a : Gen → ℝ) (u : Unk) : ℝ :=
  a .tx * genVec σ .tx u + a .ty * genVec σ .ty u + a .tz * genVec σ .tz u + a .rot * genVec σ .rot u +
    a .scale * genVec σ .scale u

theorem colOf_combo (s : IdxState) (σ : Net ℝ) (a : Gen → ℝ) :
    colOf s (combo σ a) = a .tx • colOf s (genVec σ .tx) + a .ty • colOf s (genVec σ .ty) + a .tz • colOf s (genVec σ .tz) +
      a .rot • colOf s (genVec σ .rot) + a .scale • colOf s (genVec σ .scale) := by
  funext j; simp [colOf, combo]

/-- the coefficients of a (virtual) observation of a class invariant under every generator used in `a`, applied to two
    correction vectors that differ by the combination `a`, give the same value -/
theorem pushDot_combo (σ : Net ℝ) (ob : NObs ℝ) (a : Gen → ℝ) (ha : ∀ g, ob.kind.inv g = false → a g = 0)
    (fuel : Nat) (out : LinOut ℝ) (hreg : Regular ob.kind (σ.view ob)) (hfree : AllFree ob.kind (σ.view ob))
    (hok : ob.kind.lin fuel (σ.view ob) = .ok out) (ξ : Unk → ℝ) :
    pushDot ob.name (fun u => ξ u + combo σ a u) out.pushes = pushDot ob.name ξ out.pushes := by
  have hz : ∀ g, a g * pushDot ob.name (genVec σ g) out.pushes = 0 := by
    intro g
    cases hg : ob.kind.inv g with
    | false => rw [ha g hg, zero_mul]
    | true => rw [row_annihilates σ ob _ g hg fuel out hreg hfree hok, mul_zero]
  unfold combo
  rw [pushDot_add, pushDot_add, pushDot_add, pushDot_add, pushDot_add, pushDot_smul, pushDot_smul, pushDot_smul,
    pushDot_smul, pushDot_smul, hz, hz, hz, hz, hz]
  ring

/-- **two solutions whose difference is a datum transformation**: column vectors `x`, `x'` of the pass with
    `x' − x = ` the combination `a` of the generators (column numbering of the pass); `ob` any (virtual) observation
    between points of the network — they have columns — of a class invariant under the generators used: its
    linearised value is the same at `x` and `x'` -/
theorem derived_invariant (σ : Net ℝ) (res : PassOut ℝ) (hwf : res.idx.WF) (ob : NObs ℝ) (a : Gen → ℝ)
    (ha : ∀ g, ob.kind.inv g = false → a g = 0) (fuel : Nat) (out : LinOut ℝ)
    (hreg : Regular ob.kind (σ.view ob)) (hfree : AllFree ob.kind (σ.view ob))
    (hok : ob.kind.lin fuel (σ.view ob) = .ok out)
    (hidx : ∀ p ∈ out.pushes, res.idx.get (ob.name p.1 p.2.1) ≠ 0)
    (x x' : Fin res.idx.maxn → ℝ) (hx : x' = x + colOf res.idx (combo σ a)) :
    pushDot ob.name (unkFn res.idx x') out.pushes = pushDot ob.name (unkFn res.idx x) out.pushes := by
  rw [← pushDot_combo σ ob a ha fuel out hreg hfree hok (unkFn res.idx x)]
  apply pushDot_congr
  intro p hp
  rw [hx, unkFn_add, unkFn_colOf hwf _ _ (hidx p hp)]

/-! ## §5 a free triangle (non-vacuity) -/

/-- points 1 = (0,0), 2 = (3,4), 3 = (3,0), all free; sides 5, 3, 4 -/
noncomputable def triNet : Net ℝ :=
  { pt := fun i => if i = 2 then ⟨3, 4, 0, .free, .free⟩ else if i = 3 then ⟨3, 0, 0, .free, .free⟩
                   else ⟨0, 0, 0, .free, .free⟩,
    ori := fun _ => 0, xNorth := 0 }

/-- the three sides, observed (free network of defect 3) -/
noncomputable def triObs : List (NObs ℝ) :=
  [⟨.distance, 0, 1, 2, 0, 5⟩, ⟨.distance, 0, 1, 3, 0, 3⟩, ⟨.distance, 0, 2, 3, 0, 4⟩]

/-- the angle at 1 from 2 to 3 — NOT observed: a derived quantity -/
noncomputable def triAngle : NObs ℝ := ⟨.angle, 0, 1, 2, 3, 0⟩

theorem hdist_eq (o : Obs ℝ) (c : ℝ) (hc : 0 ≤ c) (h : dX o * dX o + dY o * dY o = c * c) : hdist o = c := by
  unfold hdist; rw [h, Real.sqrt_mul_self hc]
theorem hdist2_eq (o : Obs ℝ) (c : ℝ) (hc : 0 ≤ c) (h : dX2 o * dX2 o + dY2 o * dY2 o = c * c) : hdist2 o = c := by
  unfold hdist2; rw [h, Real.sqrt_mul_self hc]

theorem tri_h12 : hdist (triNet.view ⟨.distance, 0, 1, 2, 0, 5⟩) = 5 :=
  hdist_eq _ 5 (by norm_num) (by simp [dX, dY, Net.view, triNet]; norm_num)
theorem tri_h13 : hdist (triNet.view ⟨.distance, 0, 1, 3, 0, 3⟩) = 3 :=
  hdist_eq _ 3 (by norm_num) (by simp [dX, dY, Net.view, triNet])
theorem tri_h23 : hdist (triNet.view ⟨.distance, 0, 2, 3, 0, 4⟩) = 4 :=
  hdist_eq _ 4 (by norm_num) (by simp [dX, dY, Net.view, triNet])
theorem tri_ha1 : hdist (triNet.view triAngle) = 5 :=
  hdist_eq _ 5 (by norm_num) (by simp [dX, dY, Net.view, triNet, triAngle]; norm_num)
theorem tri_ha2 : hdist2 (triNet.view triAngle) = 3 :=
  hdist2_eq _ 3 (by norm_num) (by simp [dX2, dY2, Net.view, triNet, triAngle])

theorem not_cut_of_eq {o : Obs ℝ} {c : ℝ} (h : hdist o = c) (hc : 1 ≤ c) : ¬ hdist o < CUT := by
  rw [h]; unfold CUT; intro hlt
  have : (1 : ℝ) / 10 ^ 6 < 1 := by norm_num
  linarith

theorem triObs_regular : ∀ ob ∈ triObs, Regular ob.kind (triNet.view ob) := by
  intro ob hob
  simp only [triObs, List.mem_cons, List.not_mem_nil, or_false] at hob
  rcases hob with rfl | rfl | rfl
  · exact not_cut_of_eq tri_h12 (by norm_num)
  · exact not_cut_of_eq tri_h13 (by norm_num)
  · exact not_cut_of_eq tri_h23 (by norm_num)

theorem tri_allFree (ob : NObs ℝ) : AllFree ob.kind (triNet.view ob) := by
  have hf : ∀ i, (triNet.pt i).free_xy = true ∧ (triNet.pt i).free_z = true := by
    intro i; unfold triNet; simp only []; split_ifs <;> exact ⟨rfl, rfl⟩
  have hv : ∀ r, ((triNet.view ob).pt r).free_xy = true ∧ ((triNet.view ob).pt r).free_z = true := by
    intro r; cases r <;> exact hf _
  intro rc hrc
  obtain ⟨r, c⟩ := rc
  cases r <;> cases c <;> first
    | exact (hv _).1
    | exact (hv _).2
    | rfl
    | (exfalso; revert hrc; cases ob.kind <;> simp [Kind.roles])

theorem triObs_pass_ok : ∃ res, passFrom triNet 0 triObs IdxState.init = .ok res := by
  simp only [triObs, passFrom, Kind.lin, distance_eq _ _ (not_cut_of_eq tri_h12 (by norm_num)),
    distance_eq _ _ (not_cut_of_eq tri_h13 (by norm_num)), distance_eq _ _ (not_cut_of_eq tri_h23 (by norm_num))]
  exact ⟨_, rfl⟩

end Gama.C08Inv
