/-
  C20 / C02 row 8 on the executed models: `worldOf (PE.peWorld base) (Ls.Net.obsNet alg)`.

    A. `obsNet` is read off `netSolve` (any `Scalar`): an answer of `netSolve` ⇔ the object is not refused, with
       the same defect and diagonal cofactors; an error of `netSolve` is the object's refusal.
    B. the observation functions of `Model/Ls/ObsNet.lean` ARE `obsEnv`, `obsGso`, `obsChol` (ordered field).
    C. `SolverObs.Sound` is invariant under an invertible row transformation (`prepareProjectEquations()`
       hands `W A` to the full solvers: same kernel, same rank, same `S`).
    D. `obsNet_sound`: from `Net.SolverHyp alg np` (first stage: rank unambiguous) and `Net.SecondStage alg np`
       (the regularisation stage: what `SolverHyp` does not ask) the observations of the object behind
       `netSolve alg np` are `Sound` for the ORIGINAL system `(toProblem np).A`, `(toProblem np).S`
       (env, chol, gso; svd is not `Sound`: F7-svd).
    E. `peWorld_dim` (`hdim`: every slot of `unknowns_` is written, so the list of the world has `np.n`
       elements) from `C01_pe_unknowns_total`; `DirFromStation` is inherited from the base network;
       `peWorld_still` (`hstill` under `NoSingular`), `peWorld_facts` (what a configuration's problem inherits
       from `project_equations()`: `prepare` accepted, `dimsN`, `min_x_` distinct and in range).
-/
import Gama.Model.Ls.ObsNet
import Gama.Lemmas.NetWorldEnv
import Gama.Lemmas.NetWorldExamples
import Gama.Lemmas.Ls.NetFacadeCof
import Gama.Lemmas.Ls.ComposeAdjExample
import Gama.Lemmas.ProjectEquationsTotal
import Gama.Lemmas.ProjectEquationsGlue
import Gama.Props.C01.ProjectEquations
import Gama.Props.C20.SvdDecompose

namespace Gama.Ls.Net
open Gama Gama.Ls Gama.LS Gama.NetDecision Matrix

set_option linter.unusedSectionVars false
set_option linter.unusedVariables false
set_option linter.overlappingInstances false

/-! ### A. `obsNet` is read off `netSolve` -/

section tie
variable {K : Type} [Scalar K]

theorem fedProblem_ok (alg : Alg) (np : NetProblem K) (h : Hom K) (hp : prepare np = .ok h) :
    fedProblem alg np = .ok (match alg with
      | .env => toProblem np
      | _ => dotProblem np h) := by
  unfold fedProblem; rw [hp]; cases alg <;> rfl

theorem fedProblem_error (alg : Alg) (np : NetProblem K) (e : ErrKind) (hp : prepare np = .error e) :
    fedProblem alg np = .error e := by
  unfold fedProblem; rw [hp]

/-- **`netSolve` is `prepare` ↦ the fed problem ↦ a fresh solver object ↦ `unknowns()`** -/
theorem netSolve_fed (alg : Alg) (np : NetProblem K) :
    (∀ e, fedProblem alg np = .error e → netSolve alg np = .error e) ∧
    (∀ p, fedProblem alg np = .ok p →
      (∀ e, solverOf alg p = .error e → netSolve alg np = .error e) ∧
      (∀ s, solverOf alg p = .ok s →
        (∀ e, s.xErr = some e → netSolve alg np = .error e) ∧
        (s.xErr = none → ∃ a, netSolve alg np = .ok a ∧ a.defect = s.defect ∧ a.qxx = s.qxx ∧ a.x = s.x))) := by
  cases hp : prepare np with
  | error e0 =>
    refine ⟨fun e he => ?_, fun p hp' => ?_⟩
    · rw [fedProblem_error alg np e0 hp] at he
      cases he
      cases alg <;> simp [netSolve, netSparse, netFull, hp]
    · rw [fedProblem_error alg np e0 hp] at hp'; cases hp'
  | ok h =>
    refine ⟨fun e he => ?_, fun p hp' => ?_⟩
    · rw [fedProblem_ok alg np h hp] at he; cases he
    · rw [fedProblem_ok alg np h hp] at hp'
      have hp'' := (Except.ok.inj hp').symm
      subst hp''
      refine ⟨fun e he => ?_, fun s hs => ⟨fun e hx => ?_, fun hx => ?_⟩⟩
      · cases alg <;> simp only [netSolve, netSparse, netFull, hp] <;> simp only [] at he <;> rw [he]
      · cases alg <;> simp only [netSolve, netSparse, netFull, hp] <;> simp only [] at hs <;> rw [hs] <;>
          simp only [hx]
      · cases alg <;> simp only [netSolve, netSparse, netFull, hp] <;> simp only [] at hs <;> rw [hs] <;>
          simp only [hx] <;> exact ⟨_, rfl, rfl, rfl, rfl⟩

theorem gsoSolve_ok_false {p : Problem K} {s : Answer K} (h : gsoSolve p = .ok s) :
    gsoSolveWith false p = .ok s := by
  unfold gsoSolve gsoSolveWith at h
  unfold gsoSolveWith
  simp only [] at h ⊢
  split at h
  · cases h
  · rename_i h1
    rw [if_neg h1]
    split at h
    · cases h
    · simp only [Bool.false_and, Bool.false_eq_true, if_false]
      exact h

theorem gsoSolve_err_false {p : Problem K} {e : ErrKind} (h : gsoSolveWith false p = .error e) :
    gsoSolve p = .error e := by
  unfold gsoSolve
  unfold gsoSolveWith at h ⊢
  simp only [] at h ⊢
  split at h
  · rename_i h1; rw [if_pos h1]; exact h
  · simp at h

theorem cholSolve_xErr {p : Problem K} {s : Answer K} (h : cholSolve p = .ok s) : s.xErr = none := by
  unfold cholSolve at h
  cases hs : Chol.solve p with
  | error e => rw [hs] at h; cases h
  | ok t => rw [hs] at h; cases h; rfl

theorem svdSolve_xErr {p : Problem K} {s : Answer K} (h : svdSolve p = .ok s) : s.xErr = none := by
  unfold svdSolve svdSolveWith at h
  cases hd : Svd.decompose p.m p.n p.dense with
  | error e => rw [hd] at h; cases h
  | ok d => rw [hd] at h; exact Ex.answerOf_xErr h

/-- the solver object's refusal / defect / cofactors are those of `solverOf alg p` followed by `unknowns()` -/
theorem solverObj_tie (alg : Alg) (p : Problem K) :
    (∀ e, solverOf alg p = .error e → (solverObj alg p).refused = some e) ∧
    (∀ s, solverOf alg p = .ok s → (solverObj alg p).refused = s.xErr ∧ (solverObj alg p).defect = s.defect ∧
      ∀ i q, s.qxx i i = .ok q → (solverObj alg p).qxx i = q) := by
  cases alg with
  | env =>
    refine ⟨fun e he => ?_, fun s hs => ?_⟩
    · have he' : envSolve p = .error e := he
      simp only [solverObj, he']
    · have hs' : envSolve p = .ok s := hs
      simp only [solverObj, hs']
      exact ⟨rfl, rfl, fun i q hq => by simp only [obsOfAnswer, hq]⟩
  | gso =>
    refine ⟨fun e he => ?_, fun s hs => ?_⟩
    · have he' : gsoSolve p = .error e := he
      simp only [solverObj, he']
      cases hf : gsoSolveWith false p with
      | ok a => rfl
      | error e' => have := gsoSolve_err_false hf; rw [he'] at this; cases this; rfl
    · have hs' : gsoSolve p = .ok s := hs
      simp only [solverObj, hs', gsoSolve_ok_false hs']
      exact ⟨(gsoSolveWith_xErr (refuse := true) hs').symm ▸ rfl, rfl, fun i q hq => by simp only [obsOfAnswer, hq]⟩
  | chol =>
    refine ⟨fun e he => ?_, fun s hs => ?_⟩
    · have he' : cholSolve p = .error e := he
      simp only [solverObj, he']
      cases hf : cholSolve { p with reg := .all } with
      | ok a => rfl
      | error e' => rfl
    · have hs' : cholSolve p = .ok s := hs
      simp only [solverObj, hs']
      exact ⟨(cholSolve_xErr hs').symm ▸ rfl, rfl, fun i q hq => by simp only [obsOfAnswer, hq]⟩
  | svd =>
    refine ⟨fun e he => ?_, fun s hs => ?_⟩
    · have he' : svdSolve p = .error e := he
      simp only [solverObj, he']
      cases hf : svdSolve { p with reg := .all } with
      | ok a => rfl
      | error e' => rfl
    · have hs' : svdSolve p = .ok s := hs
      simp only [solverObj, hs']
      exact ⟨(svdSolve_xErr hs').symm ▸ rfl, rfl, fun i q hq => by simp only [obsOfAnswer, hq]⟩


/-- **read off `netSolve`, three ways**: an error of `netSolve` is the object's refusal; an answer means the
    object is not refused and shows the answer's defect and diagonal cofactors; and an object that is not
    refused IS an answer of `netSolve` -/
theorem obsNet_tie (alg : Alg) (np : NetProblem K) :
    (∀ e, netSolve alg np = .error e → (obsNet alg (some np)).refused = some e) ∧
    (∀ a, netSolve alg np = .ok a → (obsNet alg (some np)).refused = none ∧
      (obsNet alg (some np)).defect = a.defect ∧ ∀ i q, a.qxx i i = .ok q → (obsNet alg (some np)).qxx i = q) ∧
    ((obsNet alg (some np)).refused = none → ∃ a, netSolve alg np = .ok a) := by
  obtain ⟨f1, f2⟩ := netSolve_fed alg np
  have hobs : obsNet alg (some np) = match fedProblem alg np with
      | .error e => refusedObs e
      | .ok p => solverObj alg p := rfl
  cases hf : fedProblem alg np with
  | error e0 =>
    have hn := f1 e0 hf
    rw [hf] at hobs
    refine ⟨fun e he => ?_, fun a ha => ?_, fun hr => ?_⟩
    · rw [hn] at he; cases he; rw [hobs]; rfl
    · rw [hn] at ha; cases ha
    · rw [hobs] at hr; cases hr
  | ok p =>
    obtain ⟨g1, g2⟩ := f2 p hf
    obtain ⟨t1, t2⟩ := solverObj_tie alg p
    rw [hf] at hobs
    simp only [] at hobs
    cases hs : solverOf alg p with
    | error e1 =>
      have hn := g1 e1 hs
      refine ⟨fun e he => ?_, fun a ha => ?_, fun hr => ?_⟩
      · rw [hn] at he; cases he; rw [hobs]; exact t1 e1 hs
      · rw [hn] at ha; cases ha
      · rw [hobs, t1 e1 hs] at hr; cases hr
    | ok s =>
      obtain ⟨k1, k2⟩ := g2 s hs
      obtain ⟨u1, u2, u3⟩ := t2 s hs
      cases hx : s.xErr with
      | some e2 =>
        have hn := k1 e2 hx
        refine ⟨fun e he => ?_, fun a ha => ?_, fun hr => ?_⟩
        · rw [hn] at he; cases he; rw [hobs, u1, hx]
        · rw [hn] at ha; cases ha
        · rw [hobs, u1, hx] at hr; cases hr
      | none =>
        obtain ⟨a0, ha0, hd, hq, _⟩ := k2 hx
        refine ⟨fun e he => ?_, fun a ha => ?_, fun _ => ⟨a0, ha0⟩⟩
        · rw [ha0] at he; cases he
        · rw [ha0] at ha; cases ha
          rw [hobs]
          exact ⟨by rw [u1, hx], by rw [u2, hd], fun i q hq' => u3 i q (by rw [← hq]; exact hq')⟩

end tie


/-! ### C. `Sound` under an invertible row transformation -/

section whiten
variable {K : Type} [Field K] {m n : Nat}

theorem ker_whiten {A : Matrix (Fin m) (Fin n) K} {W : Matrix (Fin m) (Fin m) K}
    (hinj : ∀ d, W *ᵥ d = 0 → d = 0) (g : Fin n → K) : (W * A) *ᵥ g = 0 ↔ A *ᵥ g = 0 := by
  rw [← mulVec_mulVec]
  exact ⟨fun h => hinj _ h, fun h => by rw [h, mulVec_zero]⟩

/-- the observations of a solver fed with `W A` (`W` invertible) are sound for `A`: same kernel, same rank -/
theorem sound_whiten {A : Matrix (Fin m) (Fin n) K} {W Lg : Matrix (Fin m) (Fin m) K} {S : Finset (Fin n)}
    {o : SolverObs K} (hinv : Lg * W = 1) (hinj : ∀ d, W *ᵥ d = 0 → d = 0) (h : o.Sound (W * A) S) :
    o.Sound A S where
  refusal := by
    rw [h.refusal]
    constructor
    · intro hn hr; exact hn (fun g hg hz => hr g ((ker_whiten hinj g).1 hg) hz)
    · intro hn hr; exact hn (fun g hg hz => hr g ((ker_whiten hinj g).2 hg) hz)
  only_badreg := h.only_badreg
  count := h.count
  dependent := fun i hi => by
    obtain ⟨g, hg, hne⟩ := h.dependent i hi
    exact ⟨g, (ker_whiten hinj g).1 hg, hne⟩
  fullRank := fun g hg hz => h.fullRank g ((ker_whiten hinj g).2 hg) hz
  rank := by
    have hu : IsUnit W.det := Matrix.isUnit_det_of_left_inverse hinv
    have := h.rank
    rwa [Matrix.rank_mul_eq_right_of_isUnit_det _ _ hu] at this

/-- the object that is never asked is sound for the system without unknowns -/
theorem idleObs_sound [Scalar K] (A : Matrix (Fin 0) (Fin 0) K) (S : Finset (Fin 0)) :
    (idleObs : SolverObs K).Sound A S where
  refusal := ⟨fun h => (by cases h), fun h => absurd (show Resolves A S from fun g _ _ => funext fun i => i.elim0) h⟩
  only_badreg := fun e h => by cases h
  count := rfl
  dependent := fun i => i.elim0
  fullRank := fun g _ _ => funext fun i => i.elim0
  rank := by
    have := Matrix.rank_le_width A
    show 0 + A.rank = 0
    omega

end whiten

/-! ### B, D. the observations behind `netSolve` are sound -/

section sound
variable {K : Type} [Field K] [LinearOrder K] [IsStrictOrderedRing K] [Gso.SqrtField K]
attribute [local instance] sqrtFnOfSqrtField
attribute [local instance 2000] scalarOfField
open Gama.Ls.AdjM

theorem solverObj_env (p : Problem K) : solverObj .env p = obsEnv p := rfl
theorem solverObj_gso (p : Problem K) : solverObj .gso p = obsGso p := rfl
theorem solverObj_chol (p : Problem K) : solverObj .chol p = obsChol p := rfl

/-- what `Net.SolverHyp alg np` (the premise "rank numerically unambiguous" of C01/C02/C03 at the first stage)
    does not ask and `Sound` needs, because `Sound` also speaks about REFUSED configurations: the
    regularisation stage is unambiguous too.
    * envelope: `Env.SolveGSUnambiguous`, and `Homogenization::run` accepts the blocks `prepareProjectEquations()`
      accepted (two different pivot tests, C10-TINY);
    * cholesky: `Chol.GsUnamb` for the configured list, and the Gram–Schmidt stage with ALL unknowns in the list
      (the model's device for "the flags after a throw are those of the same factorisation");
    * gso: nothing (one stage) -/
def SecondStage (alg : Alg) (np : NetProblem K) : Prop :=
  match alg with
  | .env => Env.SolveGSUnambiguous (toProblem np) ∧ ∃ a, envSolve (toProblem np) = .ok a
  | .chol => ∀ hh, prepare np = .ok hh →
      Chol.GsUnamb (Net.dotProblem np hh) ∧ Chol.GsSqrtExact (allReg (Net.dotProblem np hh)) ∧
      Chol.GsUnamb (allReg (Net.dotProblem np hh))
  | .gso => True
  | .svd => True

/-- the structural facts about a handed-over system; all but `rows`/`weight` are theorems about
    `PE.projectEquations` (`peWorld_facts`), `rows` is `C01_pe_rowsOK` (no `NoAlias` since round 12) -/
structure Shape (np : NetProblem K) : Prop where
  dims : (dimsN np).sum = np.m
  rows : RowsOK (toProblem np)
  weight : ∃ P : Matrix (Fin (toProblem np).m) (Fin (toProblem np).m) K, (toProblem np).C * P = 1
  accepted : ∃ hh, prepare np = .ok hh
  minx_range : ∀ i ∈ np.minx, 1 ≤ i ∧ i ≤ np.n

theorem regInRange_minx (np : NetProblem K) (h : ∀ i ∈ np.minx, 1 ≤ i ∧ i ≤ np.n) :
    Gso.regInRange np.n (.subset np.minx) = true := by
  unfold Gso.regInRange
  simp only [List.all_eq_true, Bool.and_eq_true, decide_eq_true_eq]
  exact h

theorem regList_minx (np : NetProblem K) (h : ∀ i ∈ np.minx, 1 ≤ i ∧ i ≤ np.n) :
    Chol.regList np.n (.subset np.minx) ≠ none := by
  unfold Chol.regList
  simp only [ne_eq]
  have : (np.minx.all fun i => 1 ≤ i && i ≤ np.n) = true := by
    simp only [List.all_eq_true, Bool.and_eq_true, decide_eq_true_eq]
    exact h
  simp [this]

/-- **the observations of the solver object behind `netSolve alg np` are sound for the ORIGINAL system**
    (`alg` ≠ svd: the svd object names the wrong unknowns, F7-svd) -/
theorem obsNet_sound (alg : Alg) (halg : alg ≠ .svd) (np : NetProblem K) (hsh : Shape np)
    (hyp : SolverHyp alg np) (h2 : SecondStage alg np) :
    (obsNet alg (some np)).Sound (toProblem np).A (toProblem np).S := by
  have hsq : IsSqrt (SqrtFn.sq : K → K) := isSqrt_of_sqrtField
  obtain ⟨hh, hp⟩ := hsh.accepted
  obtain ⟨P, hP⟩ := hsh.weight
  have hobs : obsNet alg (some np) = solverObj alg (match alg with
      | .env => toProblem np
      | _ => Net.dotProblem np hh) := by
    show (match fedProblem alg np with
      | .error e => refusedObs e
      | .ok p => solverObj alg p) = _
    rw [fedProblem_ok alg np hh hp]
  obtain ⟨h1, hW, hinj, hA, hb⟩ := prepare_whiten hsq np hsh.dims hsh.rows P hP hh hp
  have eA : (Net.dotProblem np hh).A = ((Lgen np hh.Us)ᵀ * P) * (toProblem np).A := by
    unfold Net.dotProblem; rw [dotProblem_A, hA]
  have eS : (Net.dotProblem np hh).S = (toProblem np).S := rfl
  cases alg with
  | svd => exact absurd rfl halg
  | env =>
    rw [hobs]
    obtain ⟨a, ha⟩ := h2.2
    exact obsEnv_sound hsq (toProblem np) (inputOK np hsh.dims hsh.rows) hyp.1 hyp.2 h2.1 P hP a ha
  | gso =>
    rw [hobs]
    have hs := obsGso_sound (Net.dotProblem np hh) (hyp hh hp) (regInRange_minx np hsh.minx_range)
    rw [eA, eS] at hs
    exact sound_whiten h1 hinj hs
  | chol =>
    rw [hobs]
    obtain ⟨c1, c2, c3⟩ := hyp hh hp
    obtain ⟨d1, d2, d3⟩ := h2 hh hp
    have hs := obsChol_sound (Net.dotProblem np hh) c1 c2 d1 d2 d3 (regList_minx np hsh.minx_range)
    rw [eA, eS] at hs
    exact sound_whiten h1 hinj hs

end sound

/-! ### F. the world hypotheses on every configuration -/

section worldhyp
variable {K : Type} [Field K] [LinearOrder K] [IsStrictOrderedRing K] [Gso.SqrtField K]
attribute [local instance] sqrtFnOfSqrtField
attribute [local instance 2000] scalarOfField

/-- the linear problem behind what is handed to the solver (`none`: the system without unknowns) -/
def linO : Option (NetProblem K) → LinProb K
  | none => ⟨0, 0, 0, ∅⟩
  | some np => ⟨(toProblem np).m, (toProblem np).n, (toProblem np).A, (toProblem np).S⟩

/-- everything asked of ONE handed-over system that `project_equations()` does not guarantee by itself:
    column indices of the sparse rows in range (`RowsOK`; for `project_equations()` output a theorem, `C01_pe_rowsOK`), an invertible covariance matrix with
    `m0 ≠ 0`, the algorithm's rank decisions unambiguous at the first stage (`SolverHyp`, the premise of
    C01/C02/C03) and at the regularisation stage (`SecondStage`) -/
structure NetHyp (alg : Alg) (np : NetProblem K) : Prop where
  rows : RowsOK (toProblem np)
  m0 : np.m0 ≠ 0
  weight : ∃ Pc : Matrix (Fin (toProblem np).m) (Fin (toProblem np).m) K, Sigma np * Pc = 1
  first : SolverHyp alg np
  second : SecondStage alg np

theorem NetHyp.shape {alg : Alg} {np : NetProblem K} (h : NetHyp alg np) (hacc : ∃ hh, prepare np = .ok hh)
    (hdim : (dimsN np).sum = np.m) (hr : ∀ i ∈ np.minx, 1 ≤ i ∧ i ≤ np.n) : Shape np := by
  obtain ⟨Pc, hPc⟩ := h.weight
  exact ⟨hdim, h.rows, ⟨_, weight_of_sigma np hdim h.m0 Pc hPc⟩, hacc, hr⟩

/-- diagonal cofactors of two sound objects behind `netSolve alg`, `netSolve alg'` agree (`C02_same_net`'s
    proof on the diagonal): the hypothesis `hq` of the decision-layer agreement theorems, derived -/
theorem obsNet_qxx_agree (alg alg' : Alg) (np : NetProblem K) (hsh : Shape np) (hm0 : np.m0 ≠ 0)
    (Pc : Matrix (Fin (toProblem np).m) (Fin (toProblem np).m) K) (hPc : Sigma np * Pc = 1)
    (hyp : SolverHyp alg np) (hyp' : SolverHyp alg' np)
    (hS : Resolves (toProblem np).A (toProblem np).S)
    (hr : (obsNet alg (some np)).refused = none) (hr' : (obsNet alg' (some np)).refused = none)
    (i : Nat) (h1 : 1 ≤ i) (h2 : i ≤ np.n) :
    (obsNet alg (some np)).qxx i = (obsNet alg' (some np)).qxx i := by
  obtain ⟨-, t2, t3⟩ := obsNet_tie alg np
  obtain ⟨-, t2', t3'⟩ := obsNet_tie alg' np
  obtain ⟨a, ha⟩ := t3 hr
  obtain ⟨a', ha'⟩ := t3' hr'
  have hP := weight_of_sigma np hsh.dims hm0 Pc hPc
  obtain ⟨W, Q, B, hW, hinj, hA, -, hf⟩ := net_cofFacts alg np hsh.dims hsh.rows _ hP hyp a ha
  obtain ⟨W', Q', B', hW', -, hA', -, hf'⟩ := net_cofFacts alg' np hsh.dims hsh.rows _ hP hyp' a' ha'
  have hsym : ((np.m0 * np.m0) • Pc)ᵀ = (np.m0 * np.m0) • Pc := hW ▸ gram_symm W
  have hpd : ∀ d, d ≠ 0 → 0 < d ⬝ᵥ ((np.m0 * np.m0) • Pc) *ᵥ d := hW ▸ gram_pd W hinj
  have eQ : Q = Q' :=
    ginv_belongs_unique hsym hpd hS (hf.nqn' hW).1 (hf.nqn' hW).2 hf.symm hf.belongs
      (hf'.nqn' hW').1 (hf'.nqn' hW').2 hf'.symm hf'.belongs
  have hi : i - 1 < (toProblem np).n := by show i - 1 < np.n; omega
  have q1 := hf.qxx ⟨i - 1, hi⟩ ⟨i - 1, hi⟩
  have q2 := hf'.qxx ⟨i - 1, hi⟩ ⟨i - 1, hi⟩
  simp only [Nat.sub_add_cancel h1] at q1 q2
  rw [(t2 a ha).2.2 i _ q1, (t2' a' ha').2.2 i _ q2, eQ]

end worldhyp

end Gama.Ls.Net


/-! ### E. what a configuration of `peWorld` inherits from `project_equations()` -/

namespace Gama.PE
open Gama Gama.Lin Gama.NetDecision

section stands
variable {K : Type}

theorem reviseFrom_stand (pts : List MinX.PtS) (all : List (Bool × MinX.Obs)) (cs : List (Cluster K)) : ∀ k,
    (reviseFrom pts all k cs).map (·.stand) = cs.map (·.stand) := by
  induction cs with
  | nil => intro k; rfl
  | cons c cs ih => intro k; simp [reviseFrom, ih]

/-- `project_equations()` never touches the stand-points: station and orientation of every cluster are the input's -/
theorem peLoop_stands [TrigScalar K] : ∀ (fuel : Nat) (net0 : Net K) (rm : List String)
    (np : Ls.Net.NetProblem K) (u : Unknowns K), peLoop fuel net0 rm = .ok (np, u) →
    u.net.clusters.map (·.stand) = net0.clusters.map (·.stand) := by
  intro fuel
  induction fuel with
  | zero => intro net0 rm np u h; simp [peLoop] at h
  | succ f ih =>
    intro net0 rm np u h
    simp only [peLoop] at h
    split at h
    · cases h
    · rename_i a ha
      split at h
      · cases h
      · rename_i hh hp
        split at h
        · have := ih _ _ np u h
          rw [this]
          exact reviseFrom_stand _ _ _ 0
        · injection h with h
          injection h with h1 h2
          subst h1 h2
          exact reviseFrom_stand _ _ _ 0

theorem pe_stands [TrigScalar K] (net0 : Net K) (np : Ls.Net.NetProblem K) (u : Unknowns K)
    (h : projectEquations net0 = .ok (np, u)) : u.net.clusters.map (·.stand) = net0.clusters.map (·.stand) :=
  peLoop_stands _ net0 [] np u h

/-- **`DirFromStation` is inherited**: it is a property of the INPUT (the C++ constructor invariant of the
    observation data), not of what the call leaves -/
theorem dirFromStation_final [TrigScalar K] (net0 : Net K) (np : Ls.Net.NetProblem K) (u : Unknowns K)
    (h : projectEquations net0 = .ok (np, u)) (hds : DirFromStation net0) : DirFromStation u.net := by
  have hst := pe_stands net0 np u h
  have hsh : obsShape u.net = obsShape net0 := by
    obtain ⟨net', a, F⟩ := pe_final net0 np u h
    rw [F.u_net]; exact F.below.shape
  intro c' hc' st o hstand ob' hob' hkind
  obtain ⟨k, hk⟩ := List.mem_iff_getElem?.mp hc'
  have h1 : (u.net.clusters.map (·.stand))[k]? = some c'.stand := by rw [List.getElem?_map, hk]; rfl
  rw [hst, List.getElem?_map] at h1
  cases hc : net0.clusters[k]? with
  | none => rw [hc] at h1; cases h1
  | some c =>
    rw [hc] at h1
    have hcs : c.stand = c'.stand := by simpa using h1
    have h2 : (obsShape u.net)[k]? = some (c'.obs.map fun o => (o.kind, o.pfrom, o.pto, o.pfs)) := by
      unfold obsShape; rw [List.getElem?_map, hk]; rfl
    rw [hsh] at h2
    unfold obsShape at h2
    rw [List.getElem?_map, hc] at h2
    have h3 : c.obs.map (fun o => (o.kind, o.pfrom, o.pto, o.pfs)) = c'.obs.map fun o => (o.kind, o.pfrom, o.pto, o.pfs) := by
      simpa using h2
    have hm : (ob'.kind, ob'.pfrom, ob'.pto, ob'.pfs) ∈ c.obs.map (fun o => (o.kind, o.pfrom, o.pto, o.pfs)) := by
      rw [h3]; exact List.mem_map.mpr ⟨ob', hob', rfl⟩
    obtain ⟨ob, hob, heq⟩ := List.mem_map.mp hm
    have hk1 : ob.kind = ob'.kind := by have := congrArg Prod.fst heq; simpa using this
    have hk2 : ob.pfrom = ob'.pfrom := by have := congrArg (fun t => t.2.1) heq; simpa using this
    rw [← hk2]
    exact hds c (List.mem_of_getElem? hc) st o (hcs.trans hstand) ob hob (hk1.trans hkind)

theorem filterMap_total {α β : Type} (f : α → β) : ∀ l : List (Option α),
    (∀ j, j < l.length → ∃ e, l[j]? = some (some e)) → (l.filterMap (·.map f)).length = l.length := by
  intro l
  induction l with
  | nil => intro _; rfl
  | cons x l ih =>
    intro h
    obtain ⟨e, he⟩ := h 0 (by simp)
    have hx : x = some e := by simpa using he
    subst hx
    have ih' := ih (fun j hj => by
      obtain ⟨e', he'⟩ := h (j + 1) (by simp; omega)
      exact ⟨e', by simpa using he'⟩)
    simp [List.filterMap_cons, ih']

end stands

section world
variable {K : Type} [TrigScalar K]

/-- a configuration with a handed-over problem is a completed call of `project_equations()` -/
theorem peWorld_some (base : Net K) (dnet : NetDecision.Net) (np : Ls.Net.NetProblem K)
    (h : (peWorld base dnet).prob = some np) :
    (dnet.map (·.id)).Nodup ∧ ∃ u, projectEquations (withStatuses base dnet) = .ok (np, u) ∧
      (peWorld base dnet).unknowns = u.list.filterMap (·.map toUnknown) ∧
      (peWorld base dnet).net = dnetOfPts u.net.points ∧
      (peWorld base dnet).rm = u.removed.map fun i => (i, Rm.singular_xy) := by
  unfold peWorld at h ⊢
  by_cases hnd : (dnet.map (·.id)).Nodup
  · simp only [if_pos hnd] at h ⊢
    cases hpe : projectEquations (withStatuses base dnet) with
    | error e => rw [hpe] at h; cases h
    | ok r =>
      obtain ⟨np', u⟩ := r
      rw [hpe] at h
      simp only [Option.some.injEq] at h
      subst h
      exact ⟨hnd, u, rfl, rfl, rfl, rfl⟩
  · simp only [if_neg hnd] at h; cases h

/-- a configuration without a handed-over problem has no unknowns (nothing is asked of the solver) -/
theorem peWorld_none (base : Net K) (dnet : NetDecision.Net) (h : (peWorld base dnet).prob = none) :
    (peWorld base dnet).unknowns = [] := by
  unfold peWorld at h ⊢
  by_cases hnd : (dnet.map (·.id)).Nodup
  · simp only [if_pos hnd] at h ⊢
    cases hpe : projectEquations (withStatuses base dnet) with
    | error e => rfl
    | ok r => obtain ⟨np', u⟩ := r; rw [hpe] at h; cases h
  · simp only [if_neg hnd]

/-- the number of unknowns of what is handed to the solver (`none`: no system) -/
def dimO : Option (Ls.Net.NetProblem K) → Nat
  | none => 0
  | some np => np.n

/-- **`hdim` for the executed model of `project_equations()`** (`peWorld_dim`): on EVERY configuration the list
    `unknowns_` the decision layer reads has exactly `pocet_neznamych_` elements — every slot was written
    (`C01_pe_unknowns_total`), so flag `i` of the solver names element `i` of the list.  The one hypothesis is
    on the base network: directions of a stand-point are observed at its station. -/
theorem peWorld_dim (base : Net K) (hds : DirFromStation base) (dnet : NetDecision.Net) :
    dimO (peWorld base dnet).prob = (peWorld base dnet).unknowns.length := by
  cases hp : (peWorld base dnet).prob with
  | none => rw [peWorld_none base dnet hp]; rfl
  | some np =>
    obtain ⟨_, u, hpe, hu, _, _⟩ := peWorld_some base dnet np hp
    have hds' : DirFromStation u.net := dirFromStation_final _ np u hpe hds
    obtain ⟨hlen, _⟩ := Props.C01.C01_pe_unknowns (withStatuses base dnet) np u hpe
    obtain ⟨htot, _⟩ := Props.C01.C01_pe_unknowns_total (withStatuses base dnet) np u hpe hds'
    rw [hu, filterMap_total toUnknown u.list (fun j hj => by
      obtain ⟨e, he, _⟩ := htot j (by rw [← hlen]; exact hj); exact ⟨e, he⟩), hlen]
    rfl

/-- `singular_coords` does not fire on the first inner call of `project_equations()` on this configuration -/
def NoSingular (base : Net K) (dnet : NetDecision.Net) : Prop :=
  ∀ a h, assemble (revise (withStatuses base dnet)) = .ok a → Ls.Net.prepare a.np = .ok h →
    (SingularCoords.singularCoords h.Ad (idxFn a.idx) (ptsOf (revise (withStatuses base dnet)))).1 = false

/-- **`hstill` for the executed model**: `project_equations()` leaves the points alone and records nothing
    exactly on the configurations where `singular_coords` does not fire (the only statement of the function
    that touches `PD`; `revision_points` is not modelled).  It is NOT a theorem without that condition:
    `Props/C20/ProjectEquations.lean` evaluates a configuration where the call removes a point. -/
theorem peWorld_still (base : Net K) (dnet : NetDecision.Net) (hns : NoSingular base dnet) :
    (peWorld base dnet).net = dnet ∧ (peWorld base dnet).rm = [] := by
  cases hp : (peWorld base dnet).prob with
  | none =>
    unfold peWorld at hp ⊢
    by_cases hnd : (dnet.map (·.id)).Nodup
    · simp only [if_pos hnd] at hp ⊢
      cases hpe : projectEquations (withStatuses base dnet) with
      | error e => exact ⟨rfl, rfl⟩
      | ok r => obtain ⟨np', u⟩ := r; rw [hpe] at hp; cases hp
    · rw [if_neg hnd]; exact ⟨rfl, rfl⟩
  | some np =>
    obtain ⟨_, u, hpe, _, hnet, hrm⟩ := peWorld_some base dnet np hp
    rw [hnet, hrm]
    unfold projectEquations at hpe
    simp only [peLoop] at hpe
    split at hpe
    · cases hpe
    · rename_i a ha
      split at hpe
      · cases hpe
      · rename_i hh hprep
        have hf := hns a hh ha hprep
        rw [hf] at hpe
        simp only [Bool.false_eq_true, if_false] at hpe
        injection hpe with hpe
        injection hpe with h1 h2
        subst h2
        exact ⟨dnetOf_mkPts base dnet 0, rfl⟩

end world

section facts
open Gama.Ls Gama.Ls.Net
variable {K : Type} [Field K] [LinearOrder K] [IsStrictOrderedRing K] [SqrtFn K]
attribute [local instance 2000] scalarOfField

/-- **what the problem of a configuration inherits from `project_equations()`**: `prepareProjectEquations()`
    accepted it (otherwise the call throws and nothing is handed over), the clusters partition the rows, and the
    list `min_x_` is without repetition and within `1..n` -/
theorem peWorld_facts (t : TrigFns K) (base : PE.Net K) (dnet : NetDecision.Net) (np : NetProblem K)
    (h : (@peWorld K (trigOfField t) base dnet).prob = some np) :
    (∃ hh, prepare np = .ok hh) ∧ (dimsN np).sum = np.m ∧ np.minx.Nodup ∧ ∀ i ∈ np.minx, 1 ≤ i ∧ i ≤ np.n := by
  letI : TrigScalar K := trigOfField t
  obtain ⟨_, u, hpe, _, _, _⟩ := peWorld_some base dnet np h
  obtain ⟨net', a, F⟩ := pe_final _ np u hpe
  obtain ⟨hh, hprep, _⟩ := F.nosing
  obtain ⟨_, hnd, hr, _⟩ := Props.C01.C01_pe_minx _ np u hpe
  refine ⟨⟨hh, ?_⟩, Props.C01.C01_pe_dimsN t _ np u hpe, hnd, hr⟩
  rw [F.np_eq]; exact hprep

end facts

end Gama.PE


/-! ### G. soundness on every configuration of the executed `project_equations()` -/

namespace Gama.Ls.Net
open Gama Gama.Ls Gama.LS Gama.NetDecision Matrix Gama.PE

section G
variable {K : Type} [Field K] [LinearOrder K] [IsStrictOrderedRing K] [Gso.SqrtField K]
attribute [local instance] sqrtFnOfSqrtField
attribute [local instance 2000] scalarOfField

theorem obsNet_sound_opt (alg : Alg) (halg : alg ≠ .svd) : ∀ P : Option (NetProblem K),
    (∀ np, P = some np → Shape np ∧ SolverHyp alg np ∧ SecondStage alg np) →
    (obsNet alg P).Sound (linO P).A (linO P).S
  | none, _ => idleObs_sound _ _
  | some np, h => obsNet_sound alg halg np (h np rfl).1 (h np rfl).2.1 (h np rfl).2.2

/-- the per-configuration hypothesis of the theorems about `worldOf (peWorld base) (obsNet alg)` -/
def WorldHyp (t : TrigFns K) (base : PE.Net K) (alg : Alg) : Prop :=
  ∀ dnet np, (@peWorld K (trigOfField t) base dnet).prob = some np → NetHyp alg np

theorem worldHyp_shape (t : TrigFns K) (base : PE.Net K) (alg : Alg) (hH : WorldHyp t base alg)
    (dnet : NetDecision.Net) (np : NetProblem K) (hp : (@peWorld K (trigOfField t) base dnet).prob = some np) :
    Shape np := by
  obtain ⟨hacc, hdim, _, hr⟩ := peWorld_facts t base dnet np hp
  exact (hH dnet np hp).shape hacc hdim hr

/-- **`Sound` on every configuration** of the executed model of `project_equations()`, solver read off `netSolve` -/
theorem peWorld_obsNet_sound (t : TrigFns K) (base : PE.Net K) (alg : Alg) (halg : alg ≠ .svd)
    (hH : WorldHyp t base alg) (dnet : NetDecision.Net) :
    (obsNet alg (@peWorld K (trigOfField t) base dnet).prob).Sound
      (linO (@peWorld K (trigOfField t) base dnet).prob).A (linO (@peWorld K (trigOfField t) base dnet).prob).S :=
  obsNet_sound_opt alg halg _ (fun np hp =>
    ⟨worldHyp_shape t base alg hH dnet np hp, (hH dnet np hp).first, (hH dnet np hp).second⟩)

theorem linO_n (P : Option (NetProblem K)) : (linO P).n = @dimO K P := by cases P <;> rfl

/-- `hdim` of the decision-layer theorems for the executed model -/
theorem peWorld_hdim (t : TrigFns K) (base : PE.Net K) (hds : DirFromStation base) (dnet : NetDecision.Net) :
    (linO (@peWorld K (trigOfField t) base dnet).prob).n = (@peWorld K (trigOfField t) base dnet).unknowns.length := by
  rw [linO_n]; exact @peWorld_dim K (trigOfField t) base hds dnet

end G
end Gama.Ls.Net

/-! ### H. svd: what holds (`Counted`, rank, answered ⇒ resolves) for the object behind `netSolve .svd` -/

namespace Gama.Ls.Net
open Gama Gama.Ls Gama.LS Gama.NetDecision Matrix Gama.PE

section H
variable {K : Type} [Field K] [LinearOrder K] [IsStrictOrderedRing K] [Gso.SqrtField K]
attribute [local instance] sqrtFnOfSqrtField
attribute [local instance 2000] scalarOfField

/-- the svd premise on one handed-over system: the transliterated run of `SVD::svd()` on the homogenised matrix
    returns, and every returned singular value is exactly 0 or above `W_tol·max W` (`C02_net_svd_hyp_decompose`) -/
def SvdHyp (np : NetProblem K) : Prop :=
  ∀ hh, prepare np = .ok hh → ∃ d, Svd.decompose np.m np.n (Net.dotProblem np hh).dense = .ok d ∧
    Svd.Unambiguous (Gso.SqrtField.sqrt : K → K) Svd.wTol np.n (Svd.vget d.W)

theorem solverObj_svd (p : Problem K) (d : Svd.Dec K) (hd : Svd.decompose p.m p.n p.dense = .ok d) :
    solverObj .svd p = obsSvdCert true Svd.wTol d p := by
  have hd' : Svd.decompose ({ p with reg := .all } : Problem K).m ({ p with reg := .all } : Problem K).n
      ({ p with reg := .all } : Problem K).dense = .ok d := hd
  simp only [solverObj, svdSolve, svdSolveWith, obsSvdCert, hd, hd']
  rfl

/-- **what survives of `Sound` for the svd object behind `netSolve .svd`, for the ORIGINAL system**: `Counted`,
    `defect + rank A = n`, and not refused ⇒ `min_x_` resolves the defect -/
theorem obsNet_svd_partial (np : NetProblem K) (hsh : Shape np) (hnd : np.minx.Nodup) (hyp : SvdHyp np) :
    (obsNet .svd (some np)).Counted np.n ∧
    (obsNet .svd (some np)).defect + (toProblem np).A.rank = np.n ∧
    ((obsNet .svd (some np)).refused = none → Resolves (toProblem np).A (toProblem np).S) := by
  have hsq : IsSqrt (SqrtFn.sq : K → K) := isSqrt_of_sqrtField
  obtain ⟨hh, hp⟩ := hsh.accepted
  obtain ⟨P, hP⟩ := hsh.weight
  obtain ⟨d, hd, hun⟩ := hyp hh hp
  have hobs : obsNet .svd (some np) = obsSvdCert true Svd.wTol d (Net.dotProblem np hh) := by
    show (match fedProblem .svd np with
      | .error e => refusedObs e
      | .ok p => solverObj .svd p) = _
    rw [fedProblem_ok .svd np hh hp]
    exact solverObj_svd (Net.dotProblem np hh) d hd
  obtain ⟨h1, hW, hinj, hA, hb⟩ := prepare_whiten hsq np hsh.dims hsh.rows P hP hh hp
  have eA : (Net.dotProblem np hh).A = ((Lgen np hh.Us)ᵀ * P) * (toProblem np).A := by
    unfold Net.dotProblem; rw [Gama.Ls.dotProblem_A, hA]
  have eS : (Net.dotProblem np hh).S = (toProblem np).S := rfl
  obtain ⟨c1, c2, -, -, c5, -⟩ := Props.C20.C20_svd_decompose_sound_partial (sq := (Gso.SqrtField.sqrt : K → K))
    sqrtLaw_of_sqrtField true Svd.wTol_nonneg (Net.dotProblem np hh) d hd hun
    (fun l hl => by
      have : l = np.minx := by
        have h : Reg.subset np.minx = Reg.subset l := hl
        injection h with h'; exact h'.symm
      subst this
      exact ⟨hnd, hsh.minx_range⟩)
  rw [hobs]
  refine ⟨c1, ?_, fun hr => ?_⟩
  · have hu : IsUnit ((Lgen np hh.Us)ᵀ * P).det := Matrix.isUnit_det_of_left_inverse h1
    have hrk : (((Lgen np hh.Us)ᵀ * P) * (toProblem np).A).rank = (toProblem np).A.rank :=
      Matrix.rank_mul_eq_right_of_isUnit_det _ _ hu
    rw [← hrk, ← eA]
    exact c2
  · have hr' := c5 hr
    rw [eA, eS] at hr'
    intro g hg hz
    exact hr' g ((ker_whiten hinj g).2 hg) hz

theorem idleObs_counted : (idleObs : SolverObs K).Counted 0 := ⟨rfl, fun h => by cases h⟩

/-- the per-configuration hypothesis of the svd theorem about `worldOf (peWorld base) (obsNet .svd)` -/
def SvdWorldHyp (t : TrigFns K) (base : PE.Net K) : Prop :=
  ∀ dnet np, (@peWorld K (trigOfField t) base dnet).prob = some np →
    RowsOK (toProblem np) ∧ np.m0 ≠ 0 ∧
    (∃ Pc : Matrix (Fin (toProblem np).m) (Fin (toProblem np).m) K, Sigma np * Pc = 1) ∧ SvdHyp np

theorem svdWorldHyp_partial (t : TrigFns K) (base : PE.Net K) (hH : SvdWorldHyp t base)
    (dnet : NetDecision.Net) (np : NetProblem K) (hp : (@peWorld K (trigOfField t) base dnet).prob = some np) :
    (obsNet .svd (some np)).Counted np.n ∧
    (obsNet .svd (some np)).defect + (toProblem np).A.rank = np.n ∧
    ((obsNet .svd (some np)).refused = none → Resolves (toProblem np).A (toProblem np).S) := by
  obtain ⟨hacc, hdim, hnd, hr⟩ := peWorld_facts t base dnet np hp
  obtain ⟨hrows, hm0, ⟨Pc, hPc⟩, hsvd⟩ := hH dnet np hp
  exact obsNet_svd_partial np ⟨hdim, hrows, ⟨_, weight_of_sigma np hdim hm0 Pc hPc⟩, hacc, hr⟩ hnd hsvd

theorem peWorld_obsNet_svd_counted (t : TrigFns K) (base : PE.Net K) (hH : SvdWorldHyp t base)
    (dnet : NetDecision.Net) :
    (obsNet .svd (@peWorld K (trigOfField t) base dnet).prob).Counted
      (linO (@peWorld K (trigOfField t) base dnet).prob).n := by
  cases hp : (@peWorld K (trigOfField t) base dnet).prob with
  | none => exact idleObs_counted
  | some np => exact (svdWorldHyp_partial t base hH dnet np hp).1

end H
end Gama.Ls.Net
