/-
  `BlockDiagonal::cholDec` on one block (model `bdCholBlock tol C`, Model/BandChol.lean):
  **exact characterisation of acceptance**.

  The block is accepted  ⇔  `C` has a Cholesky factor `U` (upper triangular, positive diagonal,
  `C = Uᵀ U`) all of whose squared pivots `U(i,i)²` are `≥ tol`; the result then IS that factor.
  The block is rejected (`return block`)  ⇔  there is no Cholesky factor, or the (unique) factor has a
  squared pivot `< tol`.

  Structure as in `CovCholPD.lean` (dense `CovMat::cholDec`): if rows `≤ k` of the running matrix
  match `U`, the Schur complement row `k+1` is `U(k+1,k+1) · U(k+1,·)`; the pivot is `U(k+1,k+1)²`,
  its square root is `U(k+1,k+1)` (`sq_mul_self`), so the scaled row is row `k+1` of `U`.
-/
import Gama.Lemmas.CovBd
import Gama.Lemmas.CovAgree
import Mathlib.Analysis.SpecialFunctions.Sqrt
import Mathlib.Tactic.NormNum
namespace Gama.Cov
open Finset Packed CovMat

set_option linter.unusedSectionVars false

section Field
variable {K : Type} [Field K] [LinearOrder K] [IsStrictOrderedRing K] [SqrtFn K]

attribute [local instance] scalarOfField

/-- `U` is THE Cholesky factor of `C` (upper form, 1-based): positive diagonal and `C = UᵀU` on the
    upper triangle -/
def IsCholOf (C : CovMat K) (U : Nat → Nat → K) : Prop :=
  (∀ i, 1 ≤ i → i ≤ C.dim → 0 < U i i) ∧
  (∀ i j, 1 ≤ i → i ≤ j → j ≤ C.dim → C.get i j = ∑ r ∈ Icc 1 i, U r i * U r j)

/-- two Cholesky factors of the same block agree on the upper triangle (`chol_unique`) -/
theorem isCholOf_unique {C : CovMat K} {U V : Nat → Nat → K} (hU : IsCholOf C U) (hV : IsCholOf C V) :
    ∀ i j, 1 ≤ i → i ≤ j → j ≤ C.dim → U i j = V i j :=
  chol_unique C.dim (fun i j => C.get i j) U V hU.2 hV.2 hU.1 hV.1

/-- the square-root law determines `sq` on squares of positive numbers -/
theorem sq_mul_self (hsq : ∀ x : K, 0 < x → SqrtFn.sq x * SqrtFn.sq x = x ∧ 0 < SqrtFn.sq x)
    {x : K} (hx : 0 < x) : SqrtFn.sq (x * x) = x := by
  obtain ⟨h1, h2⟩ := hsq (x * x) (mul_pos hx hx)
  rcases mul_self_eq_mul_self_iff.mp h1 with h | h
  · exact h
  · rw [h] at h2; linarith

/-- rows `≤ k` of `a` are the rows of `U` -/
def MatchU (N : Nat) (U : Nat → Nat → K) (a : CovMat K) (k : Nat) : Prop :=
  ∀ r j, 1 ≤ r → r ≤ k → r ≤ j → j ≤ N → a.get r j = U r j

/-- the Schur complement row `k+1` is determined by the factor -/
theorem schurU_row {C a : CovMat K} {k : Nat} {U : Nat → Nat → K}
    (inv : BdInv C a k) (hk : k < C.dim) (hm : MatchU C.dim U a k) (hU : IsCholOf C U) :
    ∀ j, k + 1 ≤ j → j ≤ C.dim → a.get (k + 1) j = U (k + 1) (k + 1) * U (k + 1) j := by
  intro j h1 h2
  have e1 := inv.rest (k + 1) j (by omega) h1 h2
  have e2 := hU.2 (k + 1) j (by omega) h1 h2
  rw [Finset.sum_Icc_succ_top (by omega)] at e2
  have hs : ∑ r ∈ Icc 1 k, a.get r (k + 1) * a.get r j = ∑ r ∈ Icc 1 k, U r (k + 1) * U r j := by
    apply Finset.sum_congr rfl
    intro r hr
    rw [Finset.mem_Icc] at hr
    rw [hm r (k + 1) hr.1 hr.2 (by omega) (by omega), hm r j hr.1 hr.2 (by omega) h2]
  rw [hs] at e1
  rw [e1] at e2
  exact add_left_cancel e2

/-- one accepted row keeps the match -/
theorem matchU_step (hsq : ∀ x : K, 0 < x → SqrtFn.sq x * SqrtFn.sq x = x ∧ 0 < SqrtFn.sq x)
    {C a : CovMat K} {k : Nat} {U : Nat → Nat → K}
    (inv : BdInv C a k) (hk : k < C.dim) (hm : MatchU C.dim U a k)
    (hup : 0 < U (k + 1) (k + 1))
    (hrow : ∀ j, k + 1 ≤ j → j ≤ C.dim → a.get (k + 1) j = U (k + 1) (k + 1) * U (k + 1) j) :
    MatchU C.dim U (bdStep (k + 1) (a.get (k + 1) (k + 1)) a) (k + 1) := by
  obtain ⟨hw, hd, hb⟩ := inv.same
  have hpiv := hrow (k + 1) (le_refl _) (by omega)
  have hs : SqrtFn.sq (a.get (k + 1) (k + 1)) = U (k + 1) (k + 1) := by
    rw [hpiv]; exact sq_mul_self hsq hup
  have hne : U (k + 1) (k + 1) ≠ 0 := ne_of_gt hup
  intro r j hr1 hr2 hrj hj
  rw [bdStep_get hw _ (row := k + 1) (by omega) (by rw [hd]; omega) r j hr1 hrj (by rw [hd]; exact hj)]
  by_cases hrk : r ≤ k
  · rw [if_pos (by omega)]; exact hm r j hr1 hrk hrj hj
  · have hr : r = k + 1 := by omega
    subst hr
    rw [if_neg (by omega), if_pos rfl, hs]
    by_cases hjk : j = k + 1
    · rw [if_pos hjk, hjk]
    · rw [if_neg hjk, hrow j hrj hj, mul_div_cancel_left₀ _ hne]

/-- the row loop accepts every row and ends with the given factor -/
theorem bdRows_of_chol (hsq : ∀ x : K, 0 < x → SqrtFn.sq x * SqrtFn.sq x = x ∧ 0 < SqrtFn.sq x)
    {C : CovMat K} (tol : K) (U : Nat → Nat → K) (hU : IsCholOf C U)
    (hp : ∀ i, 1 ≤ i → i ≤ C.dim → tol ≤ U i i * U i i) :
    ∀ (cnt k : Nat) (a : CovMat K), k + cnt = C.dim → BdInv C a k → MatchU C.dim U a k →
      ∃ st, (List.range' (k + 1) cnt).foldlM (bdPtrStep C.band C.dim tol)
          (a, rowOff C.dim C.band (k + 1)) = .ok st ∧
        BdInv C st.1 C.dim ∧ MatchU C.dim U st.1 C.dim := by
  intro cnt
  induction cnt with
  | zero =>
    intro k a hk inv hm
    have : k = C.dim := by omega
    subst this
    exact ⟨(a, rowOff C.dim C.band (C.dim + 1)), rfl, inv, hm⟩
  | succ cnt ih =>
    intro k a hk inv hm
    have hrow := schurU_row inv (by omega) hm hU
    have hup := hU.1 (k + 1) (by omega) (by omega)
    have hpiv := hrow (k + 1) (le_refl _) (by omega)
    have hc : ¬ a.get (k + 1) (k + 1) < tol := by
      rw [hpiv]; exact not_lt.mpr (hp (k + 1) (by omega) (by omega))
    have hpos : 0 < a.get (k + 1) (k + 1) := by rw [hpiv]; exact mul_pos hup hup
    rw [List.range'_succ, List.foldlM_cons,
      bdPtrStep_at inv.same tol (by omega) (by omega), if_neg hc]
    exact ih (k + 1) _ (by omega) (bdInv_step hsq inv (by omega) hpos)
      (matchU_step hsq inv (by omega) hm hup hrow)

/-- the row loop: every accepted pivot (= squared diagonal of the result) is `≥ tol` -/
theorem bdRows_pivots (hsq : ∀ x : K, 0 < x → SqrtFn.sq x * SqrtFn.sq x = x ∧ 0 < SqrtFn.sq x)
    {C : CovMat K} (tol : K) (htol : 0 < tol) :
    ∀ (cnt k : Nat) (a : CovMat K) (st : CovMat K × Int), k + cnt = C.dim → BdInv C a k →
      (∀ i, 1 ≤ i → i ≤ k → tol ≤ a.get i i * a.get i i) →
      (List.range' (k + 1) cnt).foldlM (bdPtrStep C.band C.dim tol)
          (a, rowOff C.dim C.band (k + 1)) = .ok st →
      ∀ i, 1 ≤ i → i ≤ C.dim → tol ≤ st.1.get i i * st.1.get i i := by
  intro cnt
  induction cnt with
  | zero =>
    intro k a st hk inv hp h
    have e : st = (a, rowOff C.dim C.band (k + 1)) := by
      have h' : (Except.ok (a, rowOff C.dim C.band (k + 1)) : Except (CovMat K) (CovMat K × Int))
          = .ok st := h
      cases h'; rfl
    have : k = C.dim := by omega
    subst this
    rw [e]; exact hp
  | succ cnt ih =>
    intro k a st hk inv hp h
    rw [List.range'_succ, List.foldlM_cons,
      bdPtrStep_at inv.same tol (by omega) (by omega)] at h
    by_cases hc : a.get (k + 1) (k + 1) < tol
    · rw [if_pos hc] at h
      exact absurd h (by intro h'; cases h')
    · rw [if_neg hc] at h
      have hge : tol ≤ a.get (k + 1) (k + 1) := not_lt.mp hc
      have hpos : 0 < a.get (k + 1) (k + 1) := lt_of_lt_of_le htol hge
      obtain ⟨hw, hd, hb⟩ := inv.same
      refine ih (k + 1) _ st (by omega) (bdInv_step hsq inv (by omega) hpos) ?_ h
      intro i hi1 hi2
      rw [bdStep_get hw _ (row := k + 1) (by omega) (by rw [hd]; omega) i i hi1 (le_refl _)
        (by rw [hd]; omega)]
      by_cases hik : i ≤ k
      · rw [if_pos (by omega)]; exact hp i hi1 hik
      · have hi : i = k + 1 := by omega
        subst hi
        rw [if_neg (by omega), if_pos rfl, if_pos rfl, (hsq _ hpos).1]
        exact hge

/-- accepted ⇒ the result is the Cholesky factor and every pivot (= squared diagonal) is `≥ tol` -/
theorem bdCholBlock_pivots
    (hsq : ∀ x : K, 0 < x → SqrtFn.sq x * SqrtFn.sq x = x ∧ 0 < SqrtFn.sq x)
    {C F : CovMat K} (hC : C.WF) (tol : K) (htol : 0 < tol) (h : bdCholBlock tol C = .ok F) :
    IsCholOf C (fun i j => F.get i j) ∧ ∀ i, 1 ≤ i → i ≤ C.dim → tol ≤ F.get i i * F.get i i := by
  obtain ⟨_, _, _, hpos, hrep, _⟩ := bdCholBlock_reproduces hsq hC tol htol h
  refine ⟨⟨hpos, hrep⟩, ?_⟩
  rw [bdCholBlock_unfold] at h
  by_cases hd : C.dim = 0
  · intro i h1 h2; omega
  · have hd1 : 1 ≤ C.dim := by omega
    cases hfold : (List.range' 1 C.dim).foldlM (bdPtrStep C.band C.dim tol) (C, (0 : Int)) with
    | error e => rw [hfold] at h; exact absurd h (by intro h'; cases h')
    | ok st =>
      rw [hfold] at h
      have e : st.1 = F := by
        have h' : (Except.ok st.1 : Except (CovMat K) (CovMat K)) = .ok F := h
        cases h'; rfl
      have h0 : rowOff C.dim C.band (0 + 1) = 0 := rowOff_one C.dim C.band hd1 hC.band_le
      have hp := bdRows_pivots hsq tol htol C.dim 0 C st (by omega) (bdInv_init hC)
        (fun i h1 h2 => by omega) (by rw [h0]; exact hfold)
      rw [e] at hp
      exact hp

/-- a Cholesky factor with all squared pivots `≥ tol` ⇒ accepted, and the result IS that factor -/
theorem bdCholBlock_of_chol
    (hsq : ∀ x : K, 0 < x → SqrtFn.sq x * SqrtFn.sq x = x ∧ 0 < SqrtFn.sq x)
    {C : CovMat K} (hC : C.WF) (tol : K) (htol : 0 < tol) (U : Nat → Nat → K)
    (hU : IsCholOf C U) (hp : ∀ i, 1 ≤ i → i ≤ C.dim → tol ≤ U i i * U i i) :
    ∃ F, bdCholBlock tol C = .ok F ∧ ∀ i j, 1 ≤ i → i ≤ j → j ≤ C.dim → F.get i j = U i j := by
  have _ := htol
  by_cases hd : C.dim = 0
  · -- empty block: the loop does not run
    refine ⟨C, ?_, fun i j h1 h2 h3 => by omega⟩
    rw [bdCholBlock_unfold, hd]
    rfl
  · have hd1 : 1 ≤ C.dim := by omega
    have h0 : rowOff C.dim C.band (0 + 1) = 0 := rowOff_one C.dim C.band hd1 hC.band_le
    obtain ⟨st, hfold, _, hm⟩ := bdRows_of_chol hsq tol U hU hp C.dim 0 C (by omega)
      (bdInv_init hC) (fun r j h1 h2 => by omega)
    rw [h0] at hfold
    refine ⟨st.1, ?_, fun i j h1 h2 h3 => hm i j h1 (by omega) h2 h3⟩
    rw [bdCholBlock_unfold, hfold]
    rfl

/-- **accepted ⇔ the exact Cholesky pivots are all `≥ tol`** -/
theorem bdCholBlock_ok_iff
    (hsq : ∀ x : K, 0 < x → SqrtFn.sq x * SqrtFn.sq x = x ∧ 0 < SqrtFn.sq x)
    {C : CovMat K} (hC : C.WF) (tol : K) (htol : 0 < tol) :
    (∃ F, bdCholBlock tol C = .ok F) ↔
      ∃ U, IsCholOf C U ∧ ∀ i, 1 ≤ i → i ≤ C.dim → tol ≤ U i i * U i i := by
  constructor
  · rintro ⟨F, h⟩
    obtain ⟨h1, h2⟩ := bdCholBlock_pivots hsq hC tol htol h
    exact ⟨fun i j => F.get i j, h1, h2⟩
  · rintro ⟨U, hU, hp⟩
    obtain ⟨F, h, _⟩ := bdCholBlock_of_chol hsq hC tol htol U hU hp
    exact ⟨F, h⟩

/-- rejected ⇔ no Cholesky factor, or the (unique) factor has a squared pivot `< tol` -/
theorem bdCholBlock_error_iff
    (hsq : ∀ x : K, 0 < x → SqrtFn.sq x * SqrtFn.sq x = x ∧ 0 < SqrtFn.sq x)
    {C : CovMat K} (hC : C.WF) (tol : K) (htol : 0 < tol) :
    (∃ C', bdCholBlock tol C = .error C') ↔
      ∀ U, IsCholOf C U → ∃ i, 1 ≤ i ∧ i ≤ C.dim ∧ U i i * U i i < tol := by
  have hiff := bdCholBlock_ok_iff hsq hC tol htol
  constructor
  · rintro ⟨C', he⟩ U hU
    by_contra hno
    have hall : ∀ i, 1 ≤ i → i ≤ C.dim → tol ≤ U i i * U i i := by
      intro i h1 h2
      by_contra hlt
      exact hno ⟨i, h1, h2, not_le.mp hlt⟩
    obtain ⟨F, hF⟩ := hiff.mpr ⟨U, hU, hall⟩
    rw [he] at hF
    cases hF
  · intro hall
    cases hres : bdCholBlock tol C with
    | error C' => exact ⟨C', rfl⟩
    | ok F =>
      obtain ⟨U, hU, hp⟩ := hiff.mp ⟨F, hres⟩
      obtain ⟨i, h1, h2, hlt⟩ := hall U hU
      exact absurd (hp i h1 h2) (not_le.mpr hlt)

/-- rejected, stated with the uniqueness made explicit: if a Cholesky factor `U` exists, the block is
    rejected exactly when `U` has a squared pivot `< tol` -/
theorem bdCholBlock_error_iff_of_chol
    (hsq : ∀ x : K, 0 < x → SqrtFn.sq x * SqrtFn.sq x = x ∧ 0 < SqrtFn.sq x)
    {C : CovMat K} (hC : C.WF) (tol : K) (htol : 0 < tol) (U : Nat → Nat → K) (hU : IsCholOf C U) :
    (∃ C', bdCholBlock tol C = .error C') ↔ ∃ i, 1 ≤ i ∧ i ≤ C.dim ∧ U i i * U i i < tol := by
  rw [bdCholBlock_error_iff hsq hC tol htol]
  constructor
  · intro h; exact h U hU
  · rintro ⟨i, h1, h2, hlt⟩ V hV
    refine ⟨i, h1, h2, ?_⟩
    rw [← isCholOf_unique hU hV i i h1 (le_refl _) h2]
    exact hlt

end Field

/-! ### non-vacuity: `[[4,2],[2,5]]` (packed `4 2 | 5`) over ℝ with `Real.sqrt`, `U = [[2,1],[0,2]]` -/

section Examples

/-- the factor `[[2,1],[0,2]]` -/
def exU : Nat → Nat → ℝ := fun i j =>
  if i = 1 ∧ j = 1 then 2 else if i = 1 ∧ j = 2 then 1 else if i = 2 ∧ j = 2 then 2 else 0

theorem ex_isCholOf : (letI : SqrtFn ℝ := ⟨Real.sqrt⟩; letI := fieldScalar ℝ Real.sqrt;
    IsCholOf (⟨2, 1, #[4, 2, 5]⟩ : CovMat ℝ) exU) := by
  let _ : SqrtFn ℝ := ⟨Real.sqrt⟩
  let _ := fieldScalar ℝ Real.sqrt
  constructor
  · intro i h1 h2
    have h2' : i ≤ 2 := h2
    have hi : i = 1 ∨ i = 2 := by omega
    rcases hi with rfl | rfl <;> simp [exU]
  · intro i j h1 h2 h3
    have h3' : j ≤ 2 := h3
    have hij : (i = 1 ∧ j = 1) ∨ (i = 1 ∧ j = 2) ∨ (i = 2 ∧ j = 2) := by omega
    rcases hij with ⟨rfl, rfl⟩ | ⟨rfl, rfl⟩ | ⟨rfl, rfl⟩
    · simp [exU, CovMat.get, Packed.idx, Packed.rowOff, CovMat.raw, CovMat.inBuf]
      norm_num
    · simp [exU, CovMat.get, Packed.idx, Packed.rowOff, CovMat.raw, CovMat.inBuf]
    · rw [Finset.sum_Icc_succ_top (by omega)]
      simp [exU, CovMat.get, Packed.idx, Packed.rowOff, CovMat.raw, CovMat.inBuf]
      norm_num

/-- the hypotheses of `bdCholBlock_of_chol` / the right-hand side of `bdCholBlock_ok_iff` hold:
    the block is accepted with `tol = 1/100`, and the result is `[[2,1],[·,2]]` -/
example : ∃ F, (letI := fieldScalar ℝ Real.sqrt;
    bdCholBlock (1 / 100 : ℝ) (⟨2, 1, #[4, 2, 5]⟩ : CovMat ℝ)) = .ok F ∧
    (letI := fieldScalar ℝ Real.sqrt; F.get 1 1 = 2 ∧ F.get 1 2 = 1 ∧ F.get 2 2 = 2) := by
  let _ : SqrtFn ℝ := ⟨Real.sqrt⟩
  obtain ⟨F, h, hF⟩ := bdCholBlock_of_chol (K := ℝ)
    (fun x hx => ⟨Real.mul_self_sqrt hx.le, Real.sqrt_pos.mpr hx⟩)
    (C := ⟨2, 1, #[4, 2, 5]⟩) ⟨by decide, by decide⟩ (1 / 100) (by norm_num) exU ex_isCholOf
    (by
      intro i h1 h2
      have h2' : i ≤ 2 := h2
      have hi : i = 1 ∨ i = 2 := by omega
      rcases hi with rfl | rfl <;> simp [exU] <;> norm_num)
  refine ⟨F, h, ?_, ?_, ?_⟩
  · rw [hF 1 1 (by omega) (by omega) (by decide)]; simp [exU]
  · rw [hF 1 2 (by omega) (by omega) (by decide)]; simp [exU]
  · rw [hF 2 2 (by omega) (by omega) (by decide)]; simp [exU]

/-- `bdCholBlock_ok_iff`, right to left, on the same block -/
example : ∃ F, (letI := fieldScalar ℝ Real.sqrt;
    bdCholBlock (1 / 100 : ℝ) (⟨2, 1, #[4, 2, 5]⟩ : CovMat ℝ)) = .ok F := by
  let _ : SqrtFn ℝ := ⟨Real.sqrt⟩
  refine (bdCholBlock_ok_iff (K := ℝ)
    (fun x hx => ⟨Real.mul_self_sqrt hx.le, Real.sqrt_pos.mpr hx⟩)
    (C := ⟨2, 1, #[4, 2, 5]⟩) ⟨by decide, by decide⟩ (1 / 100) (by norm_num)).mpr
    ⟨exU, ex_isCholOf, ?_⟩
  intro i h1 h2
  have h2' : i ≤ 2 := h2
  have hi : i = 1 ∨ i = 2 := by omega
  rcases hi with rfl | rfl <;> simp [exU] <;> norm_num

/-- `bdCholBlock_error_iff_of_chol`, right to left: with `tol = 5 > U(1,1)² = 4` the same block is
    rejected (pivot below the tolerance although the block is positive definite) -/
example : ∃ C', (letI := fieldScalar ℝ Real.sqrt;
    bdCholBlock (5 : ℝ) (⟨2, 1, #[4, 2, 5]⟩ : CovMat ℝ)) = .error C' := by
  let _ : SqrtFn ℝ := ⟨Real.sqrt⟩
  refine (bdCholBlock_error_iff_of_chol (K := ℝ)
    (fun x hx => ⟨Real.mul_self_sqrt hx.le, Real.sqrt_pos.mpr hx⟩)
    (C := ⟨2, 1, #[4, 2, 5]⟩) ⟨by decide, by decide⟩ 5 (by norm_num) exU ex_isCholOf).mpr
    ⟨1, le_refl _, by decide, ?_⟩
  simp [exU]
  norm_num

end Examples

end Gama.Cov
