/-
  Lemmas about the run of the DataParser model (Model/DataParserRun.lean over Gen/DataParserAutomaton.lean).
  Facts about the GENERATED tables and handler skeletons are proved by evaluation (`rfl` / `decide`) of a
  per-state check (`stateOk`) over the abstract execution of the skeletons (all paths); they are re-checked
  whenever the C++ (hence the generated file) changes.
-/
import Gama.Model.DataParserRun
namespace Gama.DP

/-! ### CoreParser::error -/

theorem error_of_some {st : St} {e} (k : ErrKind) (h : st.err = some e) : st.error k = st := by
  simp [St.error, h]

theorem error_of_none {st : St} (k : ErrKind) (h : st.err = none) :
    st.error k = { st with err := some (st.n, k), state := .s_error } := by
  simp [St.error, h]

theorem error_err_isSome (st : St) (k : ErrKind) : (st.error k).err.isSome = true := by
  unfold St.error; split <;> simp_all

theorem error_n (st : St) (k : ErrKind) : (st.error k).n = st.n := by
  unfold St.error; split <;> simp

theorem error_state_of_error {st : St} (k : ErrKind) (h : st.state = .s_error) :
    (st.error k).state = .s_error := by
  unfold St.error; split <;> simp_all

theorem error_abs (st : St) (k : ErrKind) : (st.error k).abs = st.abs.error := by
  unfold St.error St.abs A.error
  split <;> simp_all

/-! ### a property closed under `error()` and under assignments to `state` is kept by every skeleton -/

theorem exec_inv (P : St → Prop) (hE : ∀ st k, P st → P (st.error k))
    (hS : ∀ (st : St) s, P st → P { st with state := s }) :
    ∀ (p : Prog) (c : Ctx) (d : List Bool) (st : St), P st → P (exec p c d st).1 := by
  intro p
  induction p with
  | skip => intro c d st h; exact h
  | ret => intro c d st h; exact h
  | setNext =>
    intro c d st h
    simp only [exec]
    split
    · exact hS _ _ (hE _ _ h)
    · exact hS _ _ h
  | setAfter => intro c d st h; exact hS _ _ h
  | noAttrs =>
    intro c d st h
    simp only [exec]
    split
    · exact h
    · exact hE _ _ h
  | err k => intro c d st h; exact hE _ _ h
  | seq a b iha ihb =>
    intro c d st h
    simp only [exec]
    split
    · exact iha c d st h
    · exact ihb _ _ _ (iha c d st h)
  | ifData a b iha ihb =>
    intro c d st h
    cases d with
    | nil => simp only [exec]; exact iha _ _ _ h
    | cons x r =>
      simp only [exec]
      split
      · exact iha _ _ _ h
      · exact ihb _ _ _ h
  | ifNoAttrs a b iha ihb =>
    intro c d st h
    simp only [exec]
    split
    · exact ihb _ _ _ h
    · exact iha _ _ _ (hE _ _ h)
  | ifHasAttrs a b iha ihb =>
    intro c d st h
    simp only [exec]
    split
    · exact ihb _ _ _ h
    · exact iha _ _ _ h
  | ifStateErr a b iha ihb =>
    intro c d st h
    simp only [exec]
    split
    · exact iha _ _ _ h
    · exact ihb _ _ _ h
  | ifBlank a b iha ihb =>
    intro c d st h
    simp only [exec]
    split
    · exact iha _ _ _ h
    · exact ihb _ _ _ h
  | scope a iha => intro c d st h; exact iha _ _ _ h

theorem exec_err_preserved (p : Prog) (c : Ctx) (d : List Bool) (st : St) {e} (h : st.err = some e) :
    (exec p c d st).1.err = some e :=
  exec_inv (fun s => s.err = some e) (fun s k hs => by rw [error_of_some k hs]; exact hs) (fun _ _ hs => hs) p c d st h

theorem exec_n (p : Prog) (c : Ctx) (d : List Bool) (st : St) : (exec p c d st).1.n = st.n :=
  exec_inv (fun s => s.n = st.n) (fun s k hs => by rw [error_n]; exact hs) (fun _ _ hs => hs) p c d st rfl

/-- a newly recorded error carries the position at entry -/
theorem exec_err_new (p : Prog) (c : Ctx) (d : List Bool) (st : St) (h : st.err = none) :
    (exec p c d st).1.err = none ∨ ∃ k, (exec p c d st).1.err = some (st.n, k) := by
  have := exec_inv (fun s => s.n = st.n ∧ (s.err = none ∨ ∃ k, s.err = some (st.n, k)))
    (fun s k hs => by
      refine ⟨by rw [error_n]; exact hs.1, ?_⟩
      rcases hs.2 with h0 | ⟨k', hk⟩
      · right; exact ⟨k, by rw [error_of_none k h0]; simp [hs.1]⟩
      · right; exact ⟨k', by rw [error_of_some k hk]; exact hk⟩)
    (fun _ _ hs => hs) p c d st ⟨rfl, Or.inl h⟩
  exact this.2

/-! ### abstract execution covers every concrete execution -/

theorem exec_abs (p : Prog) : ∀ (c : Ctx) (d : List Bool) (st : St),
    ((exec p c d st).1.abs, (exec p c d st).2.1) ∈ execAbs p c st.abs := by
  induction p with
  | skip => intro c d st; simp [exec, execAbs]
  | ret => intro c d st; simp [exec, execAbs]
  | setNext =>
    intro c d st
    simp only [exec, execAbs]
    split
    · have h2 := congrArg Prod.snd (error_abs st .unknown_tag)
      simp only [St.abs] at h2
      simp [St.abs, h2]
    · simp [St.abs]
  | setAfter => intro c d st; simp [exec, execAbs, St.abs]
  | noAttrs =>
    intro c d st
    simp only [exec, execAbs]
    split
    · simp
    · simp [error_abs]
  | err k => intro c d st; simp [exec, execAbs, error_abs]
  | seq a b iha ihb =>
    intro c d st
    simp only [exec, execAbs, List.mem_flatMap]
    refine ⟨((exec a c d st).1.abs, (exec a c d st).2.1), iha c d st, ?_⟩
    split
    · rename_i h; simp [h]
    · rename_i h; simp only [h]; exact ihb _ _ _
  | ifData a b iha ihb =>
    intro c d st
    cases d with
    | nil => simp only [exec, execAbs, List.mem_append]; exact Or.inl (iha _ _ _)
    | cons x r =>
      simp only [exec, execAbs, List.mem_append]
      split
      · exact Or.inl (iha _ _ _)
      · exact Or.inr (ihb _ _ _)
  | ifNoAttrs a b iha ihb =>
    intro c d st
    simp only [exec, execAbs]
    split
    · exact ihb _ _ _
    · rw [← error_abs st .attributes]; exact iha _ _ _
  | ifHasAttrs a b iha ihb =>
    intro c d st
    simp only [exec, execAbs]
    split
    · exact ihb _ _ _
    · exact iha _ _ _
  | ifStateErr a b iha ihb =>
    intro c d st
    simp only [exec, execAbs]
    have : st.abs.1 = st.state := rfl
    rw [this]
    split
    · exact iha _ _ _
    · exact ihb _ _ _
  | ifBlank a b iha ihb =>
    intro c d st
    simp only [exec, execAbs]
    split
    · exact iha _ _ _
    · exact ihb _ _ _
  | scope a iha =>
    intro c d st
    simp only [exec, execAbs, List.mem_map]
    exact ⟨_, iha c d st, rfl⟩

/-! ### the per-state check of the generated tables -/

def allGood (p : Prog) (c : Ctx) (a : A) : Bool := (execAbs p c a).all (fun r => r.1.good)
def allError (p : Prog) (c : Ctx) (a : A) : Bool := (execAbs p c a).all (fun r => r.1.1 == .s_error)

/-- a `Prog` that does not look at the tag / the attributes / the text -/
def Prog.plain : Prog → Bool
  | .setNext | .noAttrs => false
  | .ifNoAttrs _ _ | .ifHasAttrs _ _ => false
  | .seq a b | .ifData a b | .ifStateErr a b | .ifBlank a b => a.plain && b.plain
  | .scope a => a.plain
  | _ => true

/-- state `s ≠ s_error`, no error recorded: every entry written by `init()` has a real target state and a real
    handler, no entry is installed for `t_unknown`; on every path of every handler that can run in `s`
    (start: both with and without attributes; end; text: blank and not) the result satisfies
    `state == s_error ⇔ errCode != 0`; `etag[s]` is not a null pointer -/
def stateOk (s : State) : Bool :=
  (row s).all (fun e => e.tag != .t_unknown && e.next != .s_error && e.h != .h_parser_error &&
      allGood (startProg e.h) ⟨e.tag, true, true⟩ (s, false) &&
      allGood (startProg e.h) ⟨e.tag, false, true⟩ (s, false)) &&
  allGood (endProg (etag s)) ⟨.t_unused, true, true⟩ (s, false) &&
  allGood (dataProg (dataH s)) ⟨.t_unused, true, true⟩ (s, false) &&
  allGood (dataProg (dataH s)) ⟨.t_unused, true, false⟩ (s, false) &&
  etag s != .null_

/-- row `s_error` of the tables is untouched by `init()` and every handler that runs in `s_error` stays there -/
def errorOk : Bool :=
  (row .s_error).isEmpty && etag .s_error != .null_ &&
  [false, true].all (fun b =>
    allError (endProg (etag .s_error)) ⟨.t_unused, true, true⟩ (.s_error, b) &&
    allError (dataProg (dataH .s_error)) ⟨.t_unused, true, true⟩ (.s_error, b) &&
    allError (dataProg (dataH .s_error)) ⟨.t_unused, true, false⟩ (.s_error, b))

theorem error_ok : errorOk = true := by decide

theorem states_ok : ∀ s : State, s ≠ .s_error → stateOk s = true := by
  intro s
  cases s <;> first | (intro h; exact absurd rfl h) | (intro _; rfl)

/-- end and text handlers do not use `tag(name)` / the attributes (the model passes a dummy tag to them) -/
theorem end_plain : ∀ h : EndH, (endProg h).plain = true := by intro h; cases h <;> rfl
theorem data_plain : ∀ h : DataH, (dataProg h).plain = true := by intro h; cases h <;> rfl

/-! ### consequences for the tables -/

theorem lookup_mem {s : State} {t : Tag} {e : Entry} (h : lookup s t = some e) : e ∈ row s ∧ e.tag = t := by
  unfold lookup at h
  exact ⟨List.mem_of_find?_eq_some h, by simpa using List.find?_some h⟩

theorem row_error_nil : row .s_error = [] := by
  have := error_ok
  simp only [errorOk, Bool.and_eq_true, List.isEmpty_iff] at this
  exact this.1.1

theorem lookup_error (t : Tag) : lookup .s_error t = none := by
  simp [lookup, row_error_nil]

theorem entry_ok {s : State} (hs : s ≠ .s_error) {e : Entry} (he : e ∈ row s) :
    e.tag ≠ .t_unknown ∧ e.next ≠ .s_error ∧ e.h ≠ .h_parser_error ∧
    allGood (startProg e.h) ⟨e.tag, true, true⟩ (s, false) = true ∧
    allGood (startProg e.h) ⟨e.tag, false, true⟩ (s, false) = true := by
  have := states_ok s hs
  simp only [stateOk, Bool.and_eq_true, List.all_eq_true] at this
  have h := this.1.1.1.1 e he
  simp only [Bool.and_eq_true, bne_iff_ne, ne_eq] at h
  exact ⟨h.1.1.1.1, h.1.1.1.2, h.1.1.2, h.1.2, h.2⟩

theorem lookup_unknown (s : State) : lookup s .t_unknown = none := by
  by_cases hs : s = .s_error
  · rw [hs]; exact lookup_error _
  · cases h : lookup s .t_unknown with
    | none => rfl
    | some e =>
      obtain ⟨he, ht⟩ := lookup_mem h
      exact absurd ht (entry_ok hs he).1

theorem stag_unknown (s : State) : stag s .t_unknown = .h_parser_error := by
  simp [stag, lookup_unknown]

theorem etag_ne_null (s : State) : etag s ≠ .null_ := by
  by_cases hs : s = .s_error
  · have := error_ok
    simp only [errorOk, Bool.and_eq_true, bne_iff_ne, ne_eq] at this
    rw [hs]; exact this.1.2
  · have := states_ok s hs
    simp only [stateOk, Bool.and_eq_true, bne_iff_ne, ne_eq] at this
    exact this.2

/-- every (state, tag) pair is decided: refused (`parser_error`, target `s_error`) or a real transition -/
theorem table_total (s : State) (t : Tag) :
    (stag s t = .h_parser_error ∧ next s t = .s_error) ∨
    (stag s t ≠ .h_parser_error ∧ next s t ≠ .s_error ∧ s ≠ .s_error ∧ t ≠ .t_unknown) := by
  cases h : lookup s t with
  | none => left; simp [stag, next, h]
  | some e =>
    right
    have hs : s ≠ .s_error := by intro hs; rw [hs, lookup_error] at h; cases h
    obtain ⟨he, ht⟩ := lookup_mem h
    have := entry_ok hs he
    simp only [stag, next, h]
    exact ⟨this.2.2.1, this.2.1, hs, ht ▸ this.1⟩

/-- `parser_error` calls `error()` on every path and returns -/
theorem parser_error_exec (c : Ctx) (d : List Bool) (st : St) :
    (exec (startProg .h_parser_error) c d st).1 = st.error .context := rfl

/-! ### one event -/

theorem tagCall_n (st : St) (t : Tag) : (tagCall st t).n = st.n := by
  unfold tagCall; split <;> simp [error_n]

theorem react_n (st : St) (ev : Event) : (react st ev).n = st.n := by
  cases ev <;> simp [react, exec_n, tagCall_n]

theorem step_n (st : St) (e : Event) : (step st e).n = st.n + 1 := by simp [step]

theorem react_err_preserved (st : St) (ev : Event) {e} (h : st.err = some e) : (react st ev).err = some e := by
  cases ev with
  | start t ae d =>
    simp only [react]
    apply exec_err_preserved
    unfold tagCall; split
    · rw [error_of_some _ h]; exact h
    · exact h
  | stop d => exact exec_err_preserved _ _ _ _ h
  | text s d => exact exec_err_preserved _ _ _ _ h

theorem step_err_preserved (st : St) (ev : Event) {e} (h : st.err = some e) : (step st ev).err = some e := by
  simp [step, react_err_preserved st ev h]

theorem react_err_new (st : St) (ev : Event) (h : st.err = none) :
    (react st ev).err = none ∨ ∃ k, (react st ev).err = some (st.n, k) := by
  cases ev with
  | start t ae d =>
    simp only [react]
    unfold tagCall; split
    · right
      exact ⟨_, exec_err_preserved _ _ _ _ (by rw [error_of_none _ h])⟩
    · exact exec_err_new _ _ _ _ h
  | stop d => exact exec_err_new _ _ _ _ h
  | text s d => exact exec_err_new _ _ _ _ h

theorem step_err_new (st : St) (ev : Event) (h : st.err = none) :
    (step st ev).err = none ∨ ∃ k, (step st ev).err = some (st.n, k) := by
  simpa [step] using react_err_new st ev h

/-! ### the error state is absorbing -/

theorem abs_of_error {st : St} (h : st.state = .s_error) : st.abs = (.s_error, st.err.isSome) := by
  simp [St.abs, h]

theorem allError_sound {p : Prog} {c : Ctx} {b : Bool} (h : allError p c (.s_error, b) = true)
    (d : List Bool) (st : St) (hs : st.abs = (.s_error, b)) : (exec p c d st).1.state = .s_error := by
  have hm := exec_abs p c d st
  rw [hs] at hm
  have := (List.all_eq_true.mp h) _ hm
  simpa [St.abs] using this

theorem react_error_absorbing (st : St) (ev : Event) (h : st.state = .s_error) : (react st ev).state = .s_error := by
  have hok := error_ok
  simp only [errorOk, Bool.and_eq_true, List.all_cons, List.all_nil, Bool.and_true] at hok
  obtain ⟨_, ⟨⟨hf1, hf2⟩, hf3⟩, ⟨ht1, ht2⟩, ht3⟩ := hok
  cases ev with
  | start t ae d =>
    simp only [react, h, stag, lookup_error, parser_error_exec]
    apply error_state_of_error
    unfold tagCall; split
    · exact error_state_of_error _ h
    · exact h
  | stop d =>
    simp only [react, h]
    cases hb : st.err.isSome with
    | false => exact allError_sound hf1 d st (by rw [abs_of_error h, hb])
    | true => exact allError_sound ht1 d st (by rw [abs_of_error h, hb])
  | text s d =>
    simp only [react, h]
    cases hbl : isBlank s <;> cases hb : st.err.isSome
    · exact allError_sound hf3 d st (by rw [abs_of_error h, hb])
    · exact allError_sound ht3 d st (by rw [abs_of_error h, hb])
    · exact allError_sound hf2 d st (by rw [abs_of_error h, hb])
    · exact allError_sound ht2 d st (by rw [abs_of_error h, hb])

theorem step_error_absorbing (st : St) (ev : Event) (h : st.state = .s_error) : (step st ev).state = .s_error := by
  simp [step, react_error_absorbing st ev h]

/-! ### `state == s_error ⇔ errCode != 0` is an invariant -/

def Good (st : St) : Prop := st.abs.good = true

theorem good_iff (st : St) : Good st ↔ (st.state = .s_error ↔ st.err.isSome = true) := by
  unfold Good A.good St.abs
  cases h1 : st.err.isSome <;> by_cases h2 : st.state = .s_error <;> simp [h2]

theorem good_error {st : St} (k : ErrKind) (h : Good st) : Good (st.error k) := by
  rw [good_iff] at *
  cases he : st.err with
  | none => rw [error_of_none k he]; simp
  | some e => rw [error_of_some k he]; exact h

theorem allGood_sound {p : Prog} {c : Ctx} {a : A} (h : allGood p c a = true)
    (d : List Bool) (st : St) (hs : st.abs = a) : Good (exec p c d st).1 := by
  have hm := exec_abs p c d st
  rw [hs] at hm
  exact (List.all_eq_true.mp h) _ hm

theorem react_good (st : St) (ev : Event) (hg : Good st) : Good (react st ev) := by
  by_cases hs : st.state = .s_error
  · have hsome : st.err.isSome = true := ((good_iff st).mp hg).mp hs
    obtain ⟨e, he⟩ := Option.isSome_iff_exists.mp hsome
    rw [good_iff]
    have h1 := react_error_absorbing st ev hs
    have h2 := react_err_preserved st ev he
    simp [h1, h2]
  · have hnone : st.err = none := by
      cases he : st.err with
      | none => rfl
      | some e => exact absurd (((good_iff st).mp hg).mpr (by simp [he])) hs
    have habs : st.abs = (st.state, false) := by simp [St.abs, hnone]
    have hok := states_ok st.state hs
    simp only [stateOk, Bool.and_eq_true] at hok
    obtain ⟨⟨⟨⟨_, hend⟩, hblank⟩, htext⟩, _⟩ := hok
    cases ev with
    | start t ae d =>
      simp only [react]
      by_cases ht : t = .t_unknown
      · subst ht
        rw [stag_unknown, parser_error_exec]
        exact good_error _ (by unfold tagCall; simp; exact good_error _ hg)
      · have htc : tagCall st t = st := by simp [tagCall, ht]
        rw [htc]
        cases hl : lookup st.state t with
        | none =>
          have : stag st.state t = .h_parser_error := by simp [stag, hl]
          rw [this, parser_error_exec]; exact good_error _ hg
        | some e =>
          obtain ⟨he, hte⟩ := lookup_mem hl
          have hst : stag st.state t = e.h := by simp [stag, hl]
          have := entry_ok hs he
          rw [hst, ← hte]
          cases ae with
          | true => exact allGood_sound this.2.2.2.1 d st habs
          | false => exact allGood_sound this.2.2.2.2 d st habs
    | stop d => exact allGood_sound hend d st habs
    | text s d =>
      simp only [react]
      cases hb : isBlank s with
      | true => exact allGood_sound hblank d st habs
      | false => exact allGood_sound htext d st habs

theorem step_good (st : St) (ev : Event) (hg : Good st) : Good (step st ev) := by
  have := react_good st ev hg
  rw [good_iff] at *
  simpa [step] using this

/-! ### runs -/

theorem run_nil (st : St) : run st [] = st := rfl
theorem run_cons (st : St) (e : Event) (es : List Event) : run st (e :: es) = run (step st e) es := rfl
theorem run_append (st : St) (a b : List Event) : run st (a ++ b) = run (run st a) b := by
  simp [run, List.foldl_append]

theorem run_n (evs : List Event) : ∀ st : St, (run st evs).n = st.n + evs.length := by
  induction evs with
  | nil => intro st; simp [run]
  | cons e es ih => intro st; rw [run_cons, ih, step_n]; simp; omega

theorem run_err_preserved (evs : List Event) : ∀ (st : St) e, st.err = some e → (run st evs).err = some e := by
  induction evs with
  | nil => intro st e h; exact h
  | cons ev es ih => intro st e h; rw [run_cons]; exact ih _ _ (step_err_preserved st ev h)

theorem run_error_absorbing (evs : List Event) : ∀ st : St, st.state = .s_error → (run st evs).state = .s_error := by
  induction evs with
  | nil => intro st h; exact h
  | cons e es ih => intro st h; rw [run_cons]; exact ih _ (step_error_absorbing st e h)

theorem run_good (evs : List Event) : ∀ st : St, Good st → Good (run st evs) := by
  induction evs with
  | nil => intro st h; exact h
  | cons e es ih => intro st h; rw [run_cons]; exact ih _ (step_good st e h)

theorem init_good : Good St.init := by unfold Good; decide

/-- the recorded error is that of the first offending event -/
theorem run_err_located (evs : List Event) : ∀ (st : St) i k, st.err = none → (run st evs).err = some (i, k) →
    st.n ≤ i ∧ i < st.n + evs.length ∧
    (run st (evs.take (i - st.n))).err = none ∧
    (run st (evs.take (i - st.n + 1))).err = some (i, k) := by
  induction evs with
  | nil => intro st i k h h'; simp [run] at h'; rw [h] at h'; cases h'
  | cons ev es ih =>
    intro st i k h h'
    rw [run_cons] at h'
    rcases step_err_new st ev h with hn | ⟨k', hk⟩
    · have := ih (step st ev) i k hn h'
      rw [step_n] at this
      obtain ⟨h1, h2, h3, h4⟩ := this
      refine ⟨by omega, by simp; omega, ?_, ?_⟩
      · have : i - st.n = (i - (st.n + 1)) + 1 := by omega
        rw [this, List.take_succ_cons, run_cons]; exact h3
      · have : i - st.n + 1 = (i - (st.n + 1) + 1) + 1 := by omega
        rw [this, List.take_succ_cons, run_cons]; exact h4
    · have := run_err_preserved es (step st ev) _ hk
      rw [this] at h'
      cases h'
      refine ⟨Nat.le_refl _, by simp, ?_, ?_⟩
      · simpa [run] using h
      · simp [run, hk]

/-! ### order of evaluation in `stag[state][tag(name)]` (unspecified before C++17) -/

/-- startElement with `tag(name)` evaluated BEFORE `state` is read -/
def reactStartTagFirst (st : St) (t : Tag) (ae : Bool) (d : List Bool) : St :=
  (exec (startProg (stag (tagCall st t).state t)) ⟨t, ae, true⟩ d (tagCall st t)).1

theorem react_start_order (st : St) (t : Tag) (ae : Bool) (d : List Bool) :
    reactStartTagFirst st t ae d = react st (.start t ae d) := by
  unfold reactStartTagFirst
  simp only [react]
  by_cases ht : t = .t_unknown
  · subst ht; rw [stag_unknown, stag_unknown]
  · have : tagCall st t = st := by simp [tagCall, ht]
    rw [this]

/-! ### chunked delivery -/

theorem runChunks_error_iff (cs : List (List Event)) : ∀ st : St,
    (runChunks st cs).state = .s_error ↔ (run st cs.flatten).state = .s_error := by
  induction cs with
  | nil => intro st; simp [runChunks, run]
  | cons c cs ih =>
    intro st
    simp only [runChunks, List.flatten_cons, run_append]
    split
    · rename_i h
      constructor
      · intro _; exact run_error_absorbing _ _ h
      · intro _; exact h
    · exact ih _

/-! ### coding discipline of the generic handlers -/

def Prog.mayErr : Prog → Bool
  | .err _ | .noAttrs | .ifNoAttrs _ _ => true
  | .seq a b | .ifData a b | .ifHasAttrs a b | .ifStateErr a b | .ifBlank a b => a.mayErr || b.mayErr
  | .scope a => a.mayErr
  | _ => false

/-- `(ok, falls through, a check may have failed before the exit)` given "a check may have failed before entry":
    ok = no assignment to `state` is executed on a path on which `error()` may have been called before -/
def guardedAux : Prog → Bool → Bool × Bool × Bool
  | .skip, f => (true, true, f)
  | .ret, _ => (true, false, false)
  | .err _, _ => (true, true, true)
  | .noAttrs, _ => (true, true, true)
  | .setNext, f => (!f, true, f)
  | .setAfter, f => (!f, true, f)
  | .seq a b, f =>
      let ra := guardedAux a f
      if ra.2.1 then
        let rb := guardedAux b ra.2.2
        (ra.1 && rb.1, rb.2.1, rb.2.2)
      else (ra.1, false, false)
  | .ifNoAttrs a b, f =>
      let ra := guardedAux a true
      let rb := guardedAux b f
      (ra.1 && rb.1, ra.2.1 || rb.2.1, (ra.2.1 && ra.2.2) || (rb.2.1 && rb.2.2))
  | .ifData a b, f | .ifHasAttrs a b, f | .ifStateErr a b, f | .ifBlank a b, f =>
      let ra := guardedAux a f
      let rb := guardedAux b f
      (ra.1 && rb.1, ra.2.1 || rb.2.1, (ra.2.1 && ra.2.2) || (rb.2.1 && rb.2.2))
  | .scope a, f => ((guardedAux a f).1, true, f || a.mayErr)

def Prog.guarded (p : Prog) : Bool := (guardedAux p false).1

end Gama.DP
