/-
  C09 ∘ C03/C20 — the facts the solver theorems prove, collected per solver model into
  `Stats.SolverFacts` (`Lemmas/StatsCompose.lean`) AT THE SHARED `Scalar ℝ` (`Gama.instScalarReal`).

  The C01/C03/C20 theorems are stated over an ordered field `K` with a square-root function, the model
  instantiated at `LS.fieldScalar sq` (through `scalarOfField` for envelope / cholesky, `SqrtField` for
  gso, explicitly for svd).  At `K = ℝ`, `sq = Real.sqrt` that signature EQUALS the shared instance
  (`scalarReal_eq_fieldScalar`), so each lemma below is the C03 theorem after one rewrite.
  Hypotheses are exactly those of the C03 theorems (static well-formedness, "rank numerically
  unambiguous" on the model's own trace, the svd certificate).
-/
import Gama.Lemmas.StatsCompose
import Gama.Props.C03.EnvSolve
import Gama.Props.C03.CholBelongs
import Gama.Props.C03.Gso
import Gama.Props.C03.Svd
import Gama.Props.C20.Gso
import Gama.Props.C20.Svd
namespace Gama.Stats
open Gama Gama.Ls Gama.LS Matrix

/-- `Real.sqrt` in the role of the solvers' square root (scoped: active under `open Gama.Stats`) -/
noncomputable scoped instance instSqrtFnReal : Ls.SqrtFn ℝ := ⟨Real.sqrt⟩

theorem isSqrt_real : IsSqrt Real.sqrt := ⟨fun _ h => Real.mul_self_sqrt h, fun _ _ => Real.sqrt_nonneg _⟩

/-- envelope (`envSolve`: homogenisation + RCM ordering + `envCore`), weights `P` with `C·P = 1`:
    the whitening `W` of the homogenisation is part of the conclusion -/
theorem solverFacts_env (p : Problem ℝ) (hin : Env.InputOK p) (hreg : Env.RegListOK p)
    (hU : Env.SolveUnambiguous p) (P : Matrix (Fin p.m) (Fin p.m) ℝ) (hP : p.C * P = 1)
    (a : Answer ℝ) (h : envSolve p = .ok a) (hx : a.xErr = none) :
    ∃ W Q B, Wᵀ * W = P ∧ SolverFacts a p.A W p.S Q B := by
  revert hin hreg hU hP h
  rw [scalarReal_eq_fieldScalar]
  intro hin hreg hU hP h
  obtain ⟨Q, q1, q2, q3, q4, q5, q6, -⟩ :=
    Props.C03.C03_envsolve_cofactors isSqrt_real p hin hreg hU P hP a h hx
  obtain ⟨W, hW, b1, -, -, b4, b5⟩ := Props.C03.C03_envsolve_qbb isSqrt_real p hin hU P hP a h Q q3
  have hr := Props.C03.C03_envsolve_defect_rank isSqrt_real p hin hU P hP a h
  have hN := whiten_normalMatrix hW (@Problem.A ℝ (LS.fieldScalar Real.sqrt) p)
  rw [Matrix.mul_one] at hN
  exact ⟨W, Q, _, hW,
    { qxx := q1, qbb := b1, symm := q2, psd := q5, nqn := by rw [hN]; exact q3, qnq := by rw [hN]; exact q4,
      belongs := q6, hat := rfl, hat_diag := b4, redundancy := b5, defect_rank := by omega }⟩

section Chol
open Gama.Ls.Chol

/-- cholesky (`cholSolve`, handed the homogenised system: `W = 1`) -/
theorem solverFacts_chol (p : Problem ℝ) (hU : UnambiguousF (cholFact p)) (hsq : GsSqrtExact p)
    (hnd : ∀ S, regList p.n p.reg = some S → S.Nodup) (a : Answer ℝ) (h : cholSolve p = .ok a) :
    ∃ Q B, SolverFacts a p.A 1 p.S Q B := by
  revert hU hsq h
  rw [scalarReal_eq_fieldScalar]
  intro hU hsq h
  obtain ⟨Q, q1, q2, q3, q4, q5, q6, q7, -, -, q10, q11, q12⟩ :=
    Props.C03.C03_cholesky_cofactors p hU hsq hnd a h
  exact ⟨Q, _,
    { qxx := fun i j => (q6 i j).1, qbb := q7, symm := q1, psd := q4,
      nqn := by rw [Matrix.one_mul]; exact q2, qnq := by rw [Matrix.one_mul]; exact q3,
      belongs := q5, hat := by rw [Matrix.one_mul], hat_diag := q10, redundancy := q11, defect_rank := q12 }⟩

end Chol

section Gso
open Gama.Ls.Gso

/-- Gram–Schmidt (`gsoSolve`, `W = 1`) -/
theorem solverFacts_gso (p : Problem ℝ) (hU : Unambiguous p) (a : Answer ℝ) (h : gsoSolve p = .ok a) :
    ∃ Q B, SolverFacts a p.A 1 p.S Q B := by
  revert hU h
  rw [scalarReal_eq_fieldScalar]
  intro hU h
  obtain ⟨e1, -, e3, -⟩ := Props.C03.C03_gso_entries p hU a h
  obtain ⟨g1, g2, g3, g4⟩ := Props.C03.C03_gso p hU
  obtain ⟨b1, -, -, b4, b5⟩ := Props.C03.C03_gso_qbb p hU
  have hdr := (Props.C20.C20_gso_count p hU a h).2
  exact ⟨_, _,
    { qxx := e1, qbb := e3, symm := g1, psd := g2,
      nqn := by rw [Matrix.one_mul]; exact g3, qnq := by rw [Matrix.one_mul]; exact g4,
      belongs := fun y g hg => Props.C03.C03_gso_belongs p hU y g hg,
      hat := by rw [Matrix.one_mul]; exact b1, hat_diag := b4,
      redundancy := by
        have := congrArg (Nat.cast : ℕ → ℝ) hdr
        push_cast at this
        rw [b5]; linarith,
      defect_rank := hdr }⟩

end Gso

section Svd
open Gama.Ls.Svd

/-- svd, modulo the certificate `SvdCert` of the factorisation (`W = 1`) -/
theorem solverFacts_svd (fixed : Bool) {tol : ℝ} (htol : 0 ≤ tol) (p : Problem ℝ) (d : Dec ℝ)
    (hc : SvdCert Real.sqrt tol p.m p.n p.dense d) (hreg : RegOK p.reg) (a : Answer ℝ)
    (h : svdSolveCert fixed tol d p = .ok a) :
    ∃ Q B, SolverFacts a p.A 1 p.S Q B := by
  revert hc h
  rw [scalarReal_eq_fieldScalar]
  intro hc h
  obtain ⟨Q, B, X, s1, -, s3, -, s5, s6, s7, s8, -, s10, s11, -, -, -⟩ :=
    Props.C03.C03_svd_cert Ex.sqrtLaw_real fixed htol p d hc hreg a h
  obtain ⟨B', r1, r2, r3⟩ := Props.C03.C03_svd_cert_redundancy Ex.sqrtLaw_real fixed htol p d hc hreg a h
  have hBB : B' = B := by
    ext i j; exact Except.ok.inj ((r1 i j).symm.trans (s3 i j))
  subst hBB
  exact ⟨Q, B',
    { qxx := s1, qbb := s3, symm := s5, psd := s6,
      nqn := by rw [Matrix.one_mul]; exact s7, qnq := by rw [Matrix.one_mul]; exact s8,
      belongs := s10, hat := by rw [Matrix.one_mul]; exact s11, hat_diag := r2, redundancy := r3,
      defect_rank := Props.C20.C20_svd_count Ex.sqrtLaw_real fixed htol p d hc hreg a h }⟩

end Svd

end Gama.Stats
