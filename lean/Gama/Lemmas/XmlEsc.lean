/-
  Lemmas for C12 (escaping): round trip and well-formedness of `str2xmlT tbl` for every if-chain
  `tbl` that satisfies the decidable condition `goodTable`.
-/
import Gama.Model.XmlEsc
namespace Gama.XmlEsc
open Gama.Gen.XmlSites

theorem scan_text {c : Byte} (h1 : c ≠ 38) (h2 : c ≠ 60) (r : Bytes) :
    scan none (c :: r) = (scan none r).map (c :: ·) := by
  simp [scan, h1, h2]

theorem scan_predefined {e : Bytes} {c : Byte} (h : (e, c) ∈ predefined) (t : Bytes) :
    scan none (e ++ t) = (scan none t).map (c :: ·) := by
  simp only [predefined, List.mem_cons, Prod.mk.injEq, List.not_mem_nil, or_false] at h
  rcases h with ⟨rfl, rfl⟩ | ⟨rfl, rfl⟩ | ⟨rfl, rfl⟩ | ⟨rfl, rfl⟩ | ⟨rfl, rfl⟩ <;>
    simp [scan, entity]

theorem predefined_clean {e : Bytes} {c : Byte} (h : (e, c) ∈ predefined) :
    ∀ b ∈ e, b ≠ 60 ∧ b ≠ 62 ∧ b ≠ 34 := by
  simp only [predefined, List.mem_cons, Prod.mk.injEq, List.not_mem_nil, or_false] at h
  rcases h with ⟨rfl, rfl⟩ | ⟨rfl, rfl⟩ | ⟨rfl, rfl⟩ | ⟨rfl, rfl⟩ | ⟨rfl, rfl⟩ <;> decide

theorem lookup_mem {tbl : List (Byte × Bytes)} {c : Byte} {e : Bytes}
    (h : tbl.lookup c = some e) : (c, e) ∈ tbl := by
  induction tbl with
  | nil => simp at h
  | cons p tbl ih =>
    obtain ⟨k, v⟩ := p
    by_cases hk : c = k
    · subst hk; simp at h; simp [h]
    · have : (c == k) = false := by simpa using hk
      simp [List.lookup, this] at h
      exact List.mem_cons_of_mem _ (ih h)

structure Good (tbl : List (Byte × Bytes)) : Prop where
  ents : ∀ p ∈ tbl, (p.2, p.1) ∈ predefined
  lt : (tbl.lookup 60).isSome
  gt : (tbl.lookup 62).isSome
  amp : (tbl.lookup 38).isSome

theorem good_of {tbl : List (Byte × Bytes)} (h : goodTable tbl = true) : Good tbl := by
  simp only [goodTable, Bool.and_eq_true, List.all_eq_true, List.contains_iff_mem] at h
  exact ⟨fun p hp => h.1.1.1 p hp, h.1.1.2, h.1.2, h.2⟩

theorem scan_escByte {tbl : List (Byte × Bytes)} (g : Good tbl) (c : Byte) (t : Bytes) :
    scan none (escByte tbl c ++ t) = (scan none t).map (c :: ·) := by
  unfold escByte
  cases h : tbl.lookup c with
  | some e => exact scan_predefined (g.ents _ (lookup_mem h)) t
  | none =>
    have h1 : c ≠ 38 := by rintro rfl; have := g.amp; simp [h] at this
    have h2 : c ≠ 60 := by rintro rfl; have := g.lt; simp [h] at this
    simpa using scan_text h1 h2 t

/-- `unescape ∘ str2xml = id` for every byte string -/
theorem unescape_str2xmlT {tbl : List (Byte × Bytes)} (g : Good tbl) (s : Bytes) :
    unescape (str2xmlT tbl s) = some s := by
  unfold unescape
  induction s with
  | nil => simp [str2xmlT, scan]
  | cons c s ih => simp [str2xmlT, scan_escByte g, ih]

theorem escByte_clean {tbl : List (Byte × Bytes)} (g : Good tbl) (c : Byte) :
    ∀ b ∈ escByte tbl c, b ≠ 60 ∧ b ≠ 62 := by
  unfold escByte
  cases h : tbl.lookup c with
  | some e => intro b hb; exact ⟨(predefined_clean (g.ents _ (lookup_mem h)) b hb).1,
                                  (predefined_clean (g.ents _ (lookup_mem h)) b hb).2.1⟩
  | none =>
    intro b hb
    simp at hb; subst hb
    constructor
    · rintro rfl; have := g.lt; simp [h] at this
    · rintro rfl; have := g.gt; simp [h] at this

theorem str2xmlT_clean {tbl : List (Byte × Bytes)} (g : Good tbl) (s : Bytes) :
    ∀ b ∈ str2xmlT tbl s, b ≠ 60 ∧ b ≠ 62 := by
  induction s with
  | nil => simp [str2xmlT]
  | cons c s ih =>
    intro b hb
    simp only [str2xmlT, List.mem_append] at hb
    rcases hb with hb | hb
    · exact escByte_clean g c b hb
    · exact ih b hb

theorem hasCDEnd_mem : ∀ s : Bytes, hasCDEnd s = true → (62 : Byte) ∈ s := by
  intro s
  fun_induction hasCDEnd s with
  | case1 r => intro _; simp
  | case2 c r _ ih => intro h; exact List.mem_cons_of_mem _ (ih h)
  | case3 => intro h; simp at h

theorem wellFormedText_str2xmlT {tbl : List (Byte × Bytes)} (g : Good tbl) (s : Bytes) :
    wellFormedText (str2xmlT tbl s) = true := by
  simp only [wellFormedText, unescape_str2xmlT g, Option.isSome_some, Bool.true_and,
    Bool.not_eq_true']
  cases h : hasCDEnd (str2xmlT tbl s) with
  | false => rfl
  | true => exact absurd rfl (str2xmlT_clean g s 62 (hasCDEnd_mem _ h)).2

/-! attribute values -/

theorem escByte_noquote {tbl : List (Byte × Bytes)} (g : Good tbl) (q : (tbl.lookup 34).isSome)
    (c : Byte) : ∀ b ∈ escByte tbl c, b ≠ 34 := by
  unfold escByte
  cases h : tbl.lookup c with
  | some e => intro b hb; exact (predefined_clean (g.ents _ (lookup_mem h)) b hb).2.2
  | none =>
    intro b hb
    simp at hb; subst hb
    rintro rfl; simp [h] at q

theorem wellFormedAttr_str2xmlT {tbl : List (Byte × Bytes)} (h : goodAttrTable tbl = true) (s : Bytes) :
    wellFormedAttr (str2xmlT tbl s) = true := by
  simp only [goodAttrTable, Bool.and_eq_true] at h
  have g := good_of h.1
  have hq : ∀ b ∈ str2xmlT tbl s, b ≠ 34 := by
    induction s with
    | nil => simp [str2xmlT]
    | cons c s ih =>
      intro b hb
      simp only [str2xmlT, List.mem_append] at hb
      rcases hb with hb | hb
      · exact escByte_noquote g h.2 c b hb
      · exact ih b hb
  simp only [wellFormedAttr, unescape_str2xmlT g, Option.isSome_some, Bool.true_and,
    Bool.not_eq_true']
  cases hc : (str2xmlT tbl s).contains 34 with
  | false => rfl
  | true => exact absurd rfl (hq 34 (by simpa using hc))


/-! well-formedness needs less than the round trip: every replacement is *some* predefined entity -/

structure Weak (tbl : List (Byte × Bytes)) : Prop where
  ents : ∀ p ∈ tbl, ∃ c', (p.2, c') ∈ predefined
  lt : (tbl.lookup 60).isSome
  gt : (tbl.lookup 62).isSome
  amp : (tbl.lookup 38).isSome

theorem weak_of {tbl : List (Byte × Bytes)} (h : weakTable tbl = true) : Weak tbl := by
  simp only [weakTable, Bool.and_eq_true, List.all_eq_true, List.any_eq_true, beq_iff_eq] at h
  refine ⟨fun p hp => ?_, h.1.1.2, h.1.2, h.2⟩
  obtain ⟨q, hq, he⟩ := h.1.1.1 p hp
  exact ⟨q.2, by rw [← he]; exact hq⟩

theorem isSome_scan_escByte {tbl : List (Byte × Bytes)} (g : Weak tbl) (c : Byte) (t : Bytes) :
    (scan none (escByte tbl c ++ t)).isSome = (scan none t).isSome := by
  unfold escByte
  cases h : tbl.lookup c with
  | some e =>
    obtain ⟨c', hc'⟩ := g.ents _ (lookup_mem h)
    simp [scan_predefined hc' t]
  | none =>
    have h1 : c ≠ 38 := by rintro rfl; have := g.amp; simp [h] at this
    have h2 : c ≠ 60 := by rintro rfl; have := g.lt; simp [h] at this
    simp [scan_text h1 h2 t]

theorem escByte_clean_weak {tbl : List (Byte × Bytes)} (g : Weak tbl) (c : Byte) :
    ∀ b ∈ escByte tbl c, b ≠ 60 ∧ b ≠ 62 := by
  unfold escByte
  cases h : tbl.lookup c with
  | some e =>
    obtain ⟨c', hc'⟩ := g.ents _ (lookup_mem h)
    intro b hb; exact ⟨(predefined_clean hc' b hb).1, (predefined_clean hc' b hb).2.1⟩
  | none =>
    intro b hb
    simp at hb; subst hb
    constructor
    · rintro rfl; have := g.lt; simp [h] at this
    · rintro rfl; have := g.gt; simp [h] at this

theorem isSome_unescape_weak {tbl : List (Byte × Bytes)} (g : Weak tbl) (s : Bytes) :
    (unescape (str2xmlT tbl s)).isSome = true := by
  unfold unescape
  induction s with
  | nil => simp [str2xmlT, scan]
  | cons c s ih => simp [str2xmlT, isSome_scan_escByte g, ih]

theorem str2xmlT_clean_weak {tbl : List (Byte × Bytes)} (g : Weak tbl) (s : Bytes) :
    ∀ b ∈ str2xmlT tbl s, b ≠ 60 ∧ b ≠ 62 := by
  induction s with
  | nil => simp [str2xmlT]
  | cons c s ih =>
    intro b hb
    simp only [str2xmlT, List.mem_append] at hb
    rcases hb with hb | hb
    · exact escByte_clean_weak g c b hb
    · exact ih b hb

theorem wellFormedText_str2xmlT_weak {tbl : List (Byte × Bytes)} (g : Weak tbl) (s : Bytes) :
    wellFormedText (str2xmlT tbl s) = true := by
  simp only [wellFormedText, isSome_unescape_weak g, Bool.true_and, Bool.not_eq_true']
  cases h : hasCDEnd (str2xmlT tbl s) with
  | false => rfl
  | true => exact absurd rfl (str2xmlT_clean_weak g s 62 (hasCDEnd_mem _ h)).2

end Gama.XmlEsc
