/-
  C19 round 10 — the non-linear g3 observation types in the one-step theorem.

  `GeneratedObs` (round 4) covers the observation types that are LINEAR in the unknowns (vector, xyz, height,
  height difference).  A spatial distance and a zenith angle are not; one Gauss–Newton step reproduces them exactly
  iff the observed value is FIRST-ORDER EXACT: observed = observation function at the linearisation point + its
  directional derivative along the displacement (the `ExactObs` hypothesis of C06, here stated with `HasDerivAt`
  so that it does NOT mention the coded coefficients):

    distance :  `obs = dist₀ + d'/1000`,  `HasDerivAt (t ↦ dist (points moved by t·R·x)) d' 0`
    zenith   :  `(obs − zen₀)·scale = d'`, `HasDerivAt (t ↦ angPerLin · zen (l + t·δ(x))) d' 0`,
                `δ = R_fᵀ(R_t x_t − R_f x_f)` the change of the line of sight in the station's frame.

  The derivative is pinned by `HasDerivAt.unique` against `distRow_hasDerivAt` / `zenith_is_derivative` — the
  coefficient theorems of the REGENERATED `Gen/G3Linearization.lean` — which gives `rhs = row · x`: the hypothesis
  `hlin` of `C19_one_step_network_reproduced`.  The horizontal angle (its derivative theorem is stated for
  existentially chosen direction functions) and the azimuth (unreachable) stay `False`.
-/
import Gama.Lemmas.G3OneStep
import Gama.Lemmas.G3LinAngle
namespace Gama
namespace G3Net
open Neu G3Book G3Lin Matrix Gama.Gen.G3Lin

set_option linter.unusedSectionVars false
set_option linter.unusedVariables false

variable {ι : Type} [DecidableEq ι]

/-- the unknowns of a point's n, e, u as its rows read them (`x (index())`; 0 for a component that is not adjusted,
    because `index() = 0` then and `x 0 = 0`) -/
def xiOf (p : GPt ℝ) (x : Nat → ℝ) : E3 ℝ := ⟨x (@GPt.index ℝ p .N), x (@GPt.index ℝ p .E), x (@GPt.index ℝ p .U)⟩

/-- a row of the from/to shape (`if (free_horizontal_position()) {N, E}  if (free_height()) {U}` for both ends)
    applied to the unknowns = coefficient triples contracted with the points' unknowns -/
theorem rowDot_fromTo (P : Pts ℝ) (hN : Normal P) (x : Nat → ℝ) (hx0 : x 0 = 0) (cF cT : E3 ℝ) :
    @rowDot ℝ realScalar (evalRow P
      [⟨[(.frm, .freeH)], [⟨.frm, .N, cF.e1⟩, ⟨.frm, .E, cF.e2⟩]⟩, ⟨[(.frm, .freeU)], [⟨.frm, .U, cF.e3⟩]⟩,
       ⟨[(.to, .freeH)], [⟨.to, .N, cT.e1⟩, ⟨.to, .E, cT.e2⟩]⟩, ⟨[(.to, .freeU)], [⟨.to, .U, cT.e3⟩]⟩]) x
      = edot cF (xiOf (P .frm) x) + edot cT (xiOf (P .to) x) := by
  have hf := hN .frm
  have ht := hN .to
  cases h1 : (P .frm).sN.isFree <;> cases h2 : (P .frm).sU.isFree <;>
    cases h3 : (P .to).sN.isFree <;> cases h4 : (P .to).sU.isFree <;>
    (simp [evalRow, GBlock.active, Guard.holds, rowDot, xiOf, edot, GPt.index, GPt.state, ← hf, ← ht, h1, h2, h3, h4, hx0]
     try ring)

/-- **first-order exact observations** (see the header); the linear types keep `GeneratedObs` -/
def FirstOrderObs (net : Net ι ℝ) (b : Book ι) (x : Nat → ℝ) (ob : Obs ι) (o : GObs ℝ) : Prop :=
  match ob with
  | .distance f t =>
    (((ptsOfR net b.idx.ind (.distance f t) .to).X - (ptsOfR net b.idx.ind (.distance f t) .frm).X) ^ 2 +
     ((ptsOfR net b.idx.ind (.distance f t) .to).Y - (ptsOfR net b.idx.ind (.distance f t) .frm).Y) ^ 2 +
     ((ptsOfR net b.idx.ind (.distance f t) .to).Z - (ptsOfR net b.idx.ind (.distance f t) .frm).Z) ^ 2 ≠ 0) ∧
    ∃ d', HasDerivAt (distAlong (toPt (ptsOfR net b.idx.ind (.distance f t) .frm))
        (toPt (ptsOfR net b.idx.ind (.distance f t) .to)) x) d' 0 ∧
      o.v1 = distanceFn (ptsOfR net b.idx.ind (.distance f t)) o + d' / 1000
  | .zenith f t =>
    ((zLocal (ptsOfR net b.idx.ind (.zenith f t)) o).e1 * (zLocal (ptsOfR net b.idx.ind (.zenith f t)) o).e1 +
     (zLocal (ptsOfR net b.idx.ind (.zenith f t)) o).e2 * (zLocal (ptsOfR net b.idx.ind (.zenith f t)) o).e2 ≠ 0) ∧
    ∃ d', HasDerivAt (fun τ => angPerLin * zen
        ((zLocal (ptsOfR net b.idx.ind (.zenith f t)) o).e1 +
          (relDisp (frameOf (ptsOfR net b.idx.ind (.zenith f t) .frm)) (frameOf (ptsOfR net b.idx.ind (.zenith f t) .to))
            (xiOf (ptsOfR net b.idx.ind (.zenith f t) .frm) x) (xiOf (ptsOfR net b.idx.ind (.zenith f t) .to) x)).e1 * τ)
        ((zLocal (ptsOfR net b.idx.ind (.zenith f t)) o).e2 +
          (relDisp (frameOf (ptsOfR net b.idx.ind (.zenith f t) .frm)) (frameOf (ptsOfR net b.idx.ind (.zenith f t) .to))
            (xiOf (ptsOfR net b.idx.ind (.zenith f t) .frm) x) (xiOf (ptsOfR net b.idx.ind (.zenith f t) .to) x)).e2 * τ)
        ((zLocal (ptsOfR net b.idx.ind (.zenith f t)) o).e3 +
          (relDisp (frameOf (ptsOfR net b.idx.ind (.zenith f t) .frm)) (frameOf (ptsOfR net b.idx.ind (.zenith f t) .to))
            (xiOf (ptsOfR net b.idx.ind (.zenith f t) .frm) x) (xiOf (ptsOfR net b.idx.ind (.zenith f t) .to) x)).e3 * τ)) d' 0 ∧
      (o.v1 - zenithFn (ptsOfR net b.idx.ind (.zenith f t)) o) * angScaleR = d'
  | .angle _ _ _ => False
  | .azimuth _ _ => False
  | ob' => GeneratedObs net b x ob' o

/-- per observation: first-order exact ⇒ every right-hand side is the row applied to `x` -/
theorem linObs_firstOrder (net : Net ι ℝ) (b : Book ι) (x : Nat → ℝ) (hx0 : x 0 = 0) (no : NObs ι ℝ)
    (h : FirstOrderObs net b x no.obs no.o) :
    (@linObs ι ℝ realTrig net b.idx.ind no).rhs =
      (@linObs ι ℝ realTrig net b.idx.ind no).rows.map (fun r => @rowDot ℝ realScalar r x) := by
  obtain ⟨ob, o⟩ := no
  cases ob with
  | distance f t =>
    obtain ⟨hne, d', hd, hobs⟩ := h
    show (evalLin _ (@Gen.G3Lin.distance ℝ realTrig _ o net.tol)).rhs =
      (evalLin _ (@Gen.G3Lin.distance ℝ realTrig _ o net.tol)).rows.map _
    rw [gen_distance_eq, linDistance_rhs, linDistance_rows _ _ _ _ _ _ hne]
    have hu := hd.unique (distRow_hasDerivAt _ _ x hne)
    simp only [List.map_cons, List.map_nil]
    rw [← hu]
    simp only [distanceFn] at hobs
    rw [hobs]
    congr 1
    ring
  | zenith f t =>
    obtain ⟨hne, d', hd, hobs⟩ := h
    obtain ⟨cF, cT, hrows, hder⟩ := zenith_is_derivative (ptsOfR net b.idx.ind (.zenith f t)) o net.tol
      (xiOf (ptsOfR net b.idx.ind (.zenith f t) .frm) x) (xiOf (ptsOfR net b.idx.ind (.zenith f t) .to) x) hne
    have hu := hd.unique hder
    show (evalLin _ (@Gen.G3Lin.zenith ℝ realTrig _ o net.tol)).rhs =
      (evalLin _ (@Gen.G3Lin.zenith ℝ realTrig _ o net.tol)).rows.map _
    simp only [evalLin]
    rw [zenith_rhs, hrows]
    simp only [List.map_cons, List.map_nil]
    have hr := rowDot_fromTo (ptsOfR net b.idx.ind (.zenith f t)) (ptsOf_normal net b.idx.ind (.zenith f t)) x hx0 cF cT
    exact congrArg (fun v => [v]) (by rw [hobs, hu]; exact hr.symm)
  | angle _ _ _ => exact h.elim
  | azimuth _ _ => exact h.elim
  | vector f t => exact linObs_linear net b x hx0 ⟨.vector f t, o⟩ h
  | xyz p => exact linObs_linear net b x hx0 ⟨.xyz p, o⟩ h
  | height p => exact linObs_linear net b x hx0 ⟨.height p, o⟩ h
  | hdiff f t => exact linObs_linear net b x hx0 ⟨.hdiff f t, o⟩ h

/-- **`hlin` derived for networks with distances and zenith angles** -/
theorem netEqs_firstOrder (net : Net ι ℝ) (nobs : List (NObs ι ℝ)) (x : Nat → ℝ) (hx0 : x 0 = 0)
    (hgen : ∀ no ∈ activeOf net nobs, FirstOrderObs net (bookOf net nobs) x no.obs no.o) :
    ∀ p ∈ netEqsR net nobs, p.2 = @rowDot ℝ realScalar p.1 x := by
  intro p hm
  simp only [netEqsR, netEqs, linearizeNet, List.mem_flatMap, List.mem_map] at hm
  obtain ⟨e, ⟨no, hno, rfl⟩, hz⟩ := hm
  simp only at hz
  rw [linObs_firstOrder net (bookOf net nobs) x hx0 no (hgen no hno)] at hz
  exact mem_zip_map _ _ p hz

/-- the hypothesis is satisfiable for every distance between distinct points and every displacement: the observed
    value `dist₀ + (row · x)/1000` is first-order exact (the derivative exists) -/
theorem firstOrder_distance_witness (net : Net ι ℝ) (b : Book ι) (x : Nat → ℝ) (f t : ι) (o : GObs ℝ)
    (hne : ((ptsOfR net b.idx.ind (.distance f t) .to).X - (ptsOfR net b.idx.ind (.distance f t) .frm).X) ^ 2 +
     ((ptsOfR net b.idx.ind (.distance f t) .to).Y - (ptsOfR net b.idx.ind (.distance f t) .frm).Y) ^ 2 +
     ((ptsOfR net b.idx.ind (.distance f t) .to).Z - (ptsOfR net b.idx.ind (.distance f t) .frm).Z) ^ 2 ≠ 0)
    (hobs : o.v1 = distanceFn (ptsOfR net b.idx.ind (.distance f t)) o +
      @rowDot ℝ realScalar (distRow (toPt (ptsOfR net b.idx.ind (.distance f t) .frm))
        (toPt (ptsOfR net b.idx.ind (.distance f t) .to))) x / 1000) :
    FirstOrderObs net b x (.distance f t) o :=
  ⟨hne, _, distRow_hasDerivAt _ _ x hne, hobs⟩

end G3Net
end Gama
