/-
  C19 round 10 — the non-linear g3 observation types in the one-step theorem.

  `GeneratedObs` (round 4) covers the observation types that are LINEAR in the unknowns (vector, xyz, height,
  height difference).  A spatial distance and a zenith angle are not; one Gauss–Newton step reproduces them exactly
  iff the observed value is FIRST-ORDER EXACT: observed = observation function at the linearisation point + its
  directional derivative along the displacement (the `ExactObs` hypothesis of C06, here stated with `HasDerivAt`
  so that it does NOT mention the coded coefficients):

    distance :  `obs = dist₀ + d'/1000`,  `HasDerivAt (t ↦ dist (points moved by t·R·x)) d' 0`
    zenith   :  `(obs − zen₀)·scale = d'`, `HasDerivAt (t ↦ angPerLin · zen (l + t·δ(x))) d' 0`,
                `δ = R_fᵀ(R_t x_t − R_f x_f)` the change of the line of sight in the station's frame.

  The derivative is pinned by `HasDerivAt.unique` against `distRow_hasDerivAt` / `zenith_is_derivative` — the
  coefficient theorems of the REGENERATED `Gen/G3Linearization.lean` — which gives `rhs = row · x`: the hypothesis
  `hlin` of `C19_one_step_network_reproduced`.  Round 13: the HORIZONTAL ANGLE likewise — the observed value is first-order
  exact for SOME pair of direction-angle lifts `θl, θr` (`AngleLift`); the derivative does not depend on the lift
  (`angle_lift_unique`, C05's `deriv_zero_of_lattice` / `polarAngle_diff`), so it is the one of `angle_is_derivative`.
  The azimuth (unreachable from the parser) stays `False`.
-/
import Gama.Lemmas.G3OneStep
import Gama.Lemmas.G3LinAngle
import Gama.Lemmas.LinCutNegAng
namespace Gama
namespace G3Net
open Neu G3Book G3Lin Matrix Gama.Gen.G3Lin

set_option linter.unusedSectionVars false
set_option linter.unusedVariables false

variable {ι : Type} [DecidableEq ι]

/-- the unknowns of a point's n, e, u as its rows read them (`x (index())`; 0 for a component that is not adjusted,
    because `index() = 0` then and `x 0 = 0`) -/
def xiOf (p : GPt ℝ) (x : Nat → ℝ) : E3 ℝ := ⟨x (@GPt.index ℝ p .N), x (@GPt.index ℝ p .E), x (@GPt.index ℝ p .U)⟩

/-- a row of the from/to shape (`if (free_horizontal_position()) {N, E}  if (free_height()) {U}` for both ends)
    applied to the unknowns = coefficient triples contracted with the points' unknowns -/
theorem rowDot_fromTo (P : Pts ℝ) (hN : Normal P) (x : Nat → ℝ) (hx0 : x 0 = 0) (cF cT : E3 ℝ) :
    @rowDot ℝ realScalar (evalRow P
      [⟨[(.frm, .freeH)], [⟨.frm, .N, cF.e1⟩, ⟨.frm, .E, cF.e2⟩]⟩, ⟨[(.frm, .freeU)], [⟨.frm, .U, cF.e3⟩]⟩,
       ⟨[(.to, .freeH)], [⟨.to, .N, cT.e1⟩, ⟨.to, .E, cT.e2⟩]⟩, ⟨[(.to, .freeU)], [⟨.to, .U, cT.e3⟩]⟩]) x
      = edot cF (xiOf (P .frm) x) + edot cT (xiOf (P .to) x) := by
  have hf := hN .frm
  have ht := hN .to
  cases h1 : (P .frm).sN.isFree <;> cases h2 : (P .frm).sU.isFree <;>
    cases h3 : (P .to).sN.isFree <;> cases h4 : (P .to).sU.isFree <;>
    (simp [evalRow, GBlock.active, Guard.holds, rowDot, xiOf, edot, GPt.index, GPt.state, ← hf, ← ht, h1, h2, h3, h4, hx0]
     try ring)

/-- `θl`, `θr` are direction angles of the two sights along the motion by the unknowns `x`: polar angles
    (`Lin.IsPolarAngle`) of the horizontal parts of station → left / right target in the station's frame, starting at the
    code's `atan2` values as bearings — ANY such lift (the derivative does not depend on it: `angle_lift_unique`) -/
def AngleLift (P : Pts ℝ) (x : Nat → ℝ) (θl θr : ℝ → ℝ) : Prop :=
  θl 0 = Gama.Lin.brg (aLocal P .left).e1 (aLocal P .left).e2 ∧
  θr 0 = Gama.Lin.brg (aLocal P .right).e1 (aLocal P .right).e2 ∧
  (∀ t, Gama.Lin.IsPolarAngle
    ((aLocal P .left).e1 + (relDisp (frameOf (P .frm)) (frameOf (P .left)) (xiOf (P .frm) x) (xiOf (P .left) x)).e1 * t)
    ((aLocal P .left).e2 + (relDisp (frameOf (P .frm)) (frameOf (P .left)) (xiOf (P .frm) x) (xiOf (P .left) x)).e2 * t) (θl t)) ∧
  (∀ t, Gama.Lin.IsPolarAngle
    ((aLocal P .right).e1 + (relDisp (frameOf (P .frm)) (frameOf (P .right)) (xiOf (P .frm) x) (xiOf (P .right) x)).e1 * t)
    ((aLocal P .right).e2 + (relDisp (frameOf (P .frm)) (frameOf (P .right)) (xiOf (P .frm) x) (xiOf (P .right) x)).e2 * t) (θr t))

theorem angPerLin_two_pi : angPerLin * (2 * Real.pi) * 1000 = Gama.Lin.FULL := by
  unfold angPerLin Gama.Lin.FULL
  rw [angScale_real, linScale_real]
  unfold angScaleR
  have := Real.pi_ne_zero
  field_simp
  norm_num

/-- **the derivative of the lifted horizontal angle does not depend on the lift** (C05's argument,
    `Lin.deriv_zero_of_lattice` + `Lin.polarAngle_diff`): two pairs of lifts with the same start values differ near 0 by a
    `2πℤ`-valued function that is continuous at 0 and vanishes there -/
theorem angle_lift_unique (xl yl al bl xr yr ar br : ℝ) (hl : xl * xl + yl * yl ≠ 0) (hr : xr * xr + yr * yr ≠ 0)
    (θl θr φl φr : ℝ → ℝ) (h0l : θl 0 = φl 0) (h0r : θr 0 = φr 0)
    (pl : ∀ t, Gama.Lin.IsPolarAngle (xl + al * t) (yl + bl * t) (θl t))
    (pr : ∀ t, Gama.Lin.IsPolarAngle (xr + ar * t) (yr + br * t) (θr t))
    (ql : ∀ t, Gama.Lin.IsPolarAngle (xl + al * t) (yl + bl * t) (φl t))
    (qr : ∀ t, Gama.Lin.IsPolarAngle (xr + ar * t) (yr + br * t) (φr t))
    (v v' : ℝ) (hv : HasDerivAt (fun t => angPerLin * (θr t - θl t)) v 0)
    (hv' : HasDerivAt (fun t => angPerLin * (φr t - φl t)) v' 0) : v = v' := by
  have hsub := (hv.sub hv').const_mul (1000 : ℝ)
  have hg : HasDerivAt (fun t => 1000 * (angPerLin * ((θr t - φr t) - (θl t - φl t)))) (1000 * (v - v')) 0 := by
    refine hsub.congr_of_eventuallyEq (Filter.Eventually.of_forall fun t => ?_)
    simp only [Pi.sub_apply]; ring
  have hz := Gama.Lin.deriv_zero_of_lattice _ _ hg (by simp only [h0l, h0r]; ring) (by
    have hne := Gama.Lin.line_eventually_ne xl yl al bl hl
    have hne' := Gama.Lin.line_eventually_ne xr yr ar br hr
    filter_upwards [hne, hne'] with t ht ht'
    obtain ⟨k, hk⟩ := Gama.Lin.polarAngle_diff ht (pl t) (ql t)
    obtain ⟨k', hk'⟩ := Gama.Lin.polarAngle_diff ht' (pr t) (qr t)
    exact ⟨k' - k, by rw [hk, hk', ← angPerLin_two_pi]; push_cast; ring⟩)
  linarith

/-- one single-coefficient block of the angle row -/
theorem rowDot_cons_block (P : Pts ℝ) (x : Nat → ℝ) (hx0 : x 0 = 0) (r : Role) (g : Guard) (c : Comp) (coef : ℝ)
    (hg : g.holds (P r) = ((P r).state c).isFree) (rest : GRow ℝ) :
    @rowDot ℝ realScalar (evalRow P (⟨[(r, g)], [⟨r, c, coef⟩]⟩ :: rest)) x
      = coef * x (@GPt.index ℝ (P r) c) + @rowDot ℝ realScalar (evalRow P rest) x := by
  have e : evalRow P (⟨[(r, g)], [⟨r, c, coef⟩]⟩ :: rest)
      = (if ((P r).state c).isFree then [(coef, @GPt.index ℝ (P r) c)] else []) ++ evalRow P rest := by
    simp [evalRow, GBlock.active, hg]
  rw [e, rowDot_append]
  congr 1
  cases h : ((P r).state c).isFree
  · simp [rowDot, GPt.index, h, hx0]
  · simp [rowDot, h]

/-- the angle row applied to the unknowns -/
theorem rowDot_angle (P : Pts ℝ) (x : Nat → ℝ) (hx0 : x 0 = 0) (cF cL cR : E3 ℝ) :
    @rowDot ℝ realScalar (evalRow P
      [⟨[(.frm, .freeN)], [⟨.frm, .N, cF.e1⟩]⟩, ⟨[(.frm, .freeE)], [⟨.frm, .E, cF.e2⟩]⟩, ⟨[(.frm, .freeU)], [⟨.frm, .U, cF.e3⟩]⟩,
       ⟨[(.left, .freeN)], [⟨.left, .N, cL.e1⟩]⟩, ⟨[(.left, .freeE)], [⟨.left, .E, cL.e2⟩]⟩, ⟨[(.left, .freeU)], [⟨.left, .U, cL.e3⟩]⟩,
       ⟨[(.right, .freeN)], [⟨.right, .N, cR.e1⟩]⟩, ⟨[(.right, .freeE)], [⟨.right, .E, cR.e2⟩]⟩,
       ⟨[(.right, .freeU)], [⟨.right, .U, cR.e3⟩]⟩]) x
      = angleRowDot cF cL cR (xiOf (P .frm) x) (xiOf (P .left) x) (xiOf (P .right) x) := by
  rw [rowDot_cons_block P x hx0 _ _ _ _ rfl, rowDot_cons_block P x hx0 _ _ _ _ rfl, rowDot_cons_block P x hx0 _ _ _ _ rfl,
    rowDot_cons_block P x hx0 _ _ _ _ rfl, rowDot_cons_block P x hx0 _ _ _ _ rfl, rowDot_cons_block P x hx0 _ _ _ _ rfl,
    rowDot_cons_block P x hx0 _ _ _ _ rfl, rowDot_cons_block P x hx0 _ _ _ _ rfl, rowDot_cons_block P x hx0 _ _ _ _ rfl]
  simp [evalRow, rowDot, angleRowDot, edot, xiOf]
  ring

/-- **first-order exact observations** (see the header); the linear types keep `GeneratedObs` -/
def FirstOrderObs (net : Net ι ℝ) (b : Book ι) (x : Nat → ℝ) (ob : Obs ι) (o : GObs ℝ) : Prop :=
  match ob with
  | .distance f t =>
    (((ptsOfR net b.idx.ind (.distance f t) .to).X - (ptsOfR net b.idx.ind (.distance f t) .frm).X) ^ 2 +
     ((ptsOfR net b.idx.ind (.distance f t) .to).Y - (ptsOfR net b.idx.ind (.distance f t) .frm).Y) ^ 2 +
     ((ptsOfR net b.idx.ind (.distance f t) .to).Z - (ptsOfR net b.idx.ind (.distance f t) .frm).Z) ^ 2 ≠ 0) ∧
    ∃ d', HasDerivAt (distAlong (toPt (ptsOfR net b.idx.ind (.distance f t) .frm))
        (toPt (ptsOfR net b.idx.ind (.distance f t) .to)) x) d' 0 ∧
      o.v1 = distanceFn (ptsOfR net b.idx.ind (.distance f t)) o + d' / 1000
  | .zenith f t =>
    ((zLocal (ptsOfR net b.idx.ind (.zenith f t)) o).e1 * (zLocal (ptsOfR net b.idx.ind (.zenith f t)) o).e1 +
     (zLocal (ptsOfR net b.idx.ind (.zenith f t)) o).e2 * (zLocal (ptsOfR net b.idx.ind (.zenith f t)) o).e2 ≠ 0) ∧
    ∃ d', HasDerivAt (fun τ => angPerLin * zen
        ((zLocal (ptsOfR net b.idx.ind (.zenith f t)) o).e1 +
          (relDisp (frameOf (ptsOfR net b.idx.ind (.zenith f t) .frm)) (frameOf (ptsOfR net b.idx.ind (.zenith f t) .to))
            (xiOf (ptsOfR net b.idx.ind (.zenith f t) .frm) x) (xiOf (ptsOfR net b.idx.ind (.zenith f t) .to) x)).e1 * τ)
        ((zLocal (ptsOfR net b.idx.ind (.zenith f t)) o).e2 +
          (relDisp (frameOf (ptsOfR net b.idx.ind (.zenith f t) .frm)) (frameOf (ptsOfR net b.idx.ind (.zenith f t) .to))
            (xiOf (ptsOfR net b.idx.ind (.zenith f t) .frm) x) (xiOf (ptsOfR net b.idx.ind (.zenith f t) .to) x)).e2 * τ)
        ((zLocal (ptsOfR net b.idx.ind (.zenith f t)) o).e3 +
          (relDisp (frameOf (ptsOfR net b.idx.ind (.zenith f t) .frm)) (frameOf (ptsOfR net b.idx.ind (.zenith f t) .to))
            (xiOf (ptsOfR net b.idx.ind (.zenith f t) .frm) x) (xiOf (ptsOfR net b.idx.ind (.zenith f t) .to) x)).e3 * τ)) d' 0 ∧
      (o.v1 - zenithFn (ptsOfR net b.idx.ind (.zenith f t)) o) * angScaleR = d'
  | .angle f l r =>
    ((aLocal (ptsOfR net b.idx.ind (.angle f l r)) .left).e1 * (aLocal (ptsOfR net b.idx.ind (.angle f l r)) .left).e1 +
     (aLocal (ptsOfR net b.idx.ind (.angle f l r)) .left).e2 * (aLocal (ptsOfR net b.idx.ind (.angle f l r)) .left).e2 ≠ 0) ∧
    ((aLocal (ptsOfR net b.idx.ind (.angle f l r)) .right).e1 * (aLocal (ptsOfR net b.idx.ind (.angle f l r)) .right).e1 +
     (aLocal (ptsOfR net b.idx.ind (.angle f l r)) .right).e2 * (aLocal (ptsOfR net b.idx.ind (.angle f l r)) .right).e2 ≠ 0) ∧
    ∃ (θl θr : ℝ → ℝ) (d' : ℝ),
      AngleLift (ptsOfR net b.idx.ind (.angle f l r)) x θl θr ∧
      HasDerivAt (fun τ => angPerLin * (θr τ - θl τ)) d' 0 ∧
      (o.v1 - angleFn (ptsOfR net b.idx.ind (.angle f l r)) o) * angScaleR = d'
  | .azimuth _ _ => False
  | ob' => GeneratedObs net b x ob' o

/-- per observation: first-order exact ⇒ every right-hand side is the row applied to `x` -/
theorem linObs_firstOrder (net : Net ι ℝ) (b : Book ι) (x : Nat → ℝ) (hx0 : x 0 = 0) (no : NObs ι ℝ)
    (h : FirstOrderObs net b x no.obs no.o) :
    (@linObs ι ℝ realTrig net b.idx.ind no).rhs =
      (@linObs ι ℝ realTrig net b.idx.ind no).rows.map (fun r => @rowDot ℝ realScalar r x) := by
  obtain ⟨ob, o⟩ := no
  cases ob with
  | distance f t =>
    obtain ⟨hne, d', hd, hobs⟩ := h
    show (evalLin _ (@Gen.G3Lin.distance ℝ realTrig _ o net.tol)).rhs =
      (evalLin _ (@Gen.G3Lin.distance ℝ realTrig _ o net.tol)).rows.map _
    rw [gen_distance_eq, linDistance_rhs, linDistance_rows _ _ _ _ _ _ hne]
    have hu := hd.unique (distRow_hasDerivAt _ _ x hne)
    simp only [List.map_cons, List.map_nil]
    rw [← hu]
    simp only [distanceFn] at hobs
    rw [hobs]
    congr 1
    ring
  | zenith f t =>
    obtain ⟨hne, d', hd, hobs⟩ := h
    obtain ⟨cF, cT, hrows, hder⟩ := zenith_is_derivative (ptsOfR net b.idx.ind (.zenith f t)) o net.tol
      (xiOf (ptsOfR net b.idx.ind (.zenith f t) .frm) x) (xiOf (ptsOfR net b.idx.ind (.zenith f t) .to) x) hne
    have hu := hd.unique hder
    show (evalLin _ (@Gen.G3Lin.zenith ℝ realTrig _ o net.tol)).rhs =
      (evalLin _ (@Gen.G3Lin.zenith ℝ realTrig _ o net.tol)).rows.map _
    simp only [evalLin]
    rw [zenith_rhs, hrows]
    simp only [List.map_cons, List.map_nil]
    have hr := rowDot_fromTo (ptsOfR net b.idx.ind (.zenith f t)) (ptsOf_normal net b.idx.ind (.zenith f t)) x hx0 cF cT
    exact congrArg (fun v => [v]) (by rw [hobs, hu]; exact hr.symm)
  | angle f l r =>
    obtain ⟨hl, hr, θl, θr, d', ⟨a0, a0', ap, ap'⟩, hd, hobs⟩ := h
    obtain ⟨cF, cL, cR, hrows, φl, φr, b0, b0', bp, bp', hder⟩ := angle_is_derivative (ptsOfR net b.idx.ind (.angle f l r)) o net.tol
      (xiOf (ptsOfR net b.idx.ind (.angle f l r) .frm) x) (xiOf (ptsOfR net b.idx.ind (.angle f l r) .left) x)
      (xiOf (ptsOfR net b.idx.ind (.angle f l r) .right) x) hl hr
    have hu := angle_lift_unique _ _ _ _ _ _ _ _ hl hr θl θr φl φr (by rw [a0, b0]) (by rw [a0', b0']) ap ap' bp bp' _ _ hd hder
    show (evalLin _ (@Gen.G3Lin.angle ℝ realTrig _ o net.tol)).rhs =
      (evalLin _ (@Gen.G3Lin.angle ℝ realTrig _ o net.tol)).rows.map _
    simp only [evalLin]
    rw [angle_rhs, hrows]
    simp only [List.map_cons, List.map_nil]
    have hrd := rowDot_angle (ptsOfR net b.idx.ind (.angle f l r)) x hx0 cF cL cR
    exact congrArg (fun v => [v]) (by rw [hobs, hu]; exact hrd.symm)
  | azimuth _ _ => exact h.elim
  | vector f t => exact linObs_linear net b x hx0 ⟨.vector f t, o⟩ h
  | xyz p => exact linObs_linear net b x hx0 ⟨.xyz p, o⟩ h
  | height p => exact linObs_linear net b x hx0 ⟨.height p, o⟩ h
  | hdiff f t => exact linObs_linear net b x hx0 ⟨.hdiff f t, o⟩ h

/-- **`hlin` derived for networks with distances and zenith angles** -/
theorem netEqs_firstOrder (net : Net ι ℝ) (nobs : List (NObs ι ℝ)) (x : Nat → ℝ) (hx0 : x 0 = 0)
    (hgen : ∀ no ∈ activeOf net nobs, FirstOrderObs net (bookOf net nobs) x no.obs no.o) :
    ∀ p ∈ netEqsR net nobs, p.2 = @rowDot ℝ realScalar p.1 x := by
  intro p hm
  simp only [netEqsR, netEqs, linearizeNet, List.mem_flatMap, List.mem_map] at hm
  obtain ⟨e, ⟨no, hno, rfl⟩, hz⟩ := hm
  simp only at hz
  rw [linObs_firstOrder net (bookOf net nobs) x hx0 no (hgen no hno)] at hz
  exact mem_zip_map _ _ p hz

/-- the hypothesis is satisfiable for every distance between distinct points and every displacement: the observed
    value `dist₀ + (row · x)/1000` is first-order exact (the derivative exists) -/
theorem firstOrder_distance_witness (net : Net ι ℝ) (b : Book ι) (x : Nat → ℝ) (f t : ι) (o : GObs ℝ)
    (hne : ((ptsOfR net b.idx.ind (.distance f t) .to).X - (ptsOfR net b.idx.ind (.distance f t) .frm).X) ^ 2 +
     ((ptsOfR net b.idx.ind (.distance f t) .to).Y - (ptsOfR net b.idx.ind (.distance f t) .frm).Y) ^ 2 +
     ((ptsOfR net b.idx.ind (.distance f t) .to).Z - (ptsOfR net b.idx.ind (.distance f t) .frm).Z) ^ 2 ≠ 0)
    (hobs : o.v1 = distanceFn (ptsOfR net b.idx.ind (.distance f t)) o +
      @rowDot ℝ realScalar (distRow (toPt (ptsOfR net b.idx.ind (.distance f t) .frm))
        (toPt (ptsOfR net b.idx.ind (.distance f t) .to))) x / 1000) :
    FirstOrderObs net b x (.distance f t) o :=
  ⟨hne, _, distRow_hasDerivAt _ _ x hne, hobs⟩

end G3Net
end Gama
