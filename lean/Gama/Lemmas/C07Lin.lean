/-
  C07 — invariances of the GENERATED linearisation (`Gama/Gen/Linearization.lean`, regenerated
  from local_linearization.cpp on every run) over ℝ:  translation, circle rotation, swap of the
  ends, mirroring of y, and of the index assignment (`runEvs`) under renaming.
-/
import Gama.Lemmas.LinReal
namespace Gama.Lin
open Real

/-! ### vocabulary -/

/-- move a point by `(tx, ty, tz)` -/
def trPt (tx ty tz : ℝ) (p : Pt ℝ) : Pt ℝ := { p with x := p.x + tx, y := p.y + ty, z := p.z + tz }

/-- move all points an observation refers to -/
def trObs (tx ty tz : ℝ) (o : Obs ℝ) : Obs ℝ :=
  { o with pfrom := trPt tx ty tz o.pfrom, pto := trPt tx ty tz o.pto, pfs := trPt tx ty tz o.pfs }

/-- exchange the ends (`from` ↔ `to`) -/
def swapObs (o : Obs ℝ) : Obs ℝ := { o with pfrom := o.pto, pto := o.pfrom }

def swapRole : Role → Role
  | .pfrom => .pto | .pto => .pfrom | r => r

/-- mirror the y axis -/
def flipPt (p : Pt ℝ) : Pt ℝ := { p with y := -p.y }
def flipObs (o : Obs ℝ) : Obs ℝ := { o with pfrom := flipPt o.pfrom, pto := flipPt o.pto, pfs := flipPt o.pfs }

/-- the coefficient an observation row has for the unknown `(r, c)` (0 if there is none) -/
def coef (l : List (Role × Coord × ℝ)) (r : Role) (c : Coord) : ℝ :=
  (l.filter (fun p => p.1 = r ∧ p.2.1 = c)).foldr (fun p a => p.2.2 + a) 0

/-- sign a y-column gets when the y axis is mirrored -/
def ySgn : Coord → ℝ
  | .y => -1 | _ => 1

/-! ### translation -/

section Translation
variable (tx ty tz : ℝ)

theorem sub_tr (a b t : ℝ) : (a + t) - (b + t) = a - b := by ring

theorem bd_tr (p q : Pt ℝ) :
    Gen.Lin.bearingDistancePt (trPt tx ty tz p) (trPt tx ty tz q) = Gen.Lin.bearingDistancePt p q := by
  simp only [Gen.Lin.bearingDistancePt, Gen.Lin.bearingDistance, trPt, sub_tr]

@[simp] theorem trPt_free_xy (p : Pt ℝ) : (trPt tx ty tz p).free_xy = p.free_xy := rfl
@[simp] theorem trPt_free_z (p : Pt ℝ) : (trPt tx ty tz p).free_z = p.free_z := rfl

theorem direction_tr (fuel : Nat) (o : Obs ℝ) :
    Gen.Lin.direction fuel (trObs tx ty tz o) = Gen.Lin.direction fuel o := by
  simp only [Gen.Lin.direction, trObs, bd_tr, trPt_free_xy]

theorem distance_tr (fuel : Nat) (o : Obs ℝ) :
    Gen.Lin.distance fuel (trObs tx ty tz o) = Gen.Lin.distance fuel o := by
  simp only [Gen.Lin.distance, trObs, bd_tr, trPt_free_xy]

theorem angle_tr (fuel : Nat) (o : Obs ℝ) :
    Gen.Lin.angle fuel (trObs tx ty tz o) = Gen.Lin.angle fuel o := by
  simp only [Gen.Lin.angle, trObs, bd_tr, trPt_free_xy]

theorem azimuth_tr (fuel : Nat) (o : Obs ℝ) :
    Gen.Lin.azimuth fuel (trObs tx ty tz o) = Gen.Lin.azimuth fuel o := by
  simp only [Gen.Lin.azimuth, trObs, bd_tr, trPt_free_xy]

theorem s_distance_tr (fuel : Nat) (o : Obs ℝ) :
    Gen.Lin.s_distance fuel (trObs tx ty tz o) = Gen.Lin.s_distance fuel o := by
  simp only [Gen.Lin.s_distance, trObs, trPt, sub_tr, Pt.free_xy, Pt.free_z]
  rfl

theorem z_angle_tr (fuel : Nat) (o : Obs ℝ) :
    Gen.Lin.z_angle fuel (trObs tx ty tz o) = Gen.Lin.z_angle fuel o := by
  simp only [Gen.Lin.z_angle, trObs, trPt, sub_tr, Pt.free_xy, Pt.free_z]
  rfl

theorem h_diff_tr (fuel : Nat) (o : Obs ℝ) :
    Gen.Lin.h_diff fuel (trObs tx ty tz o) = Gen.Lin.h_diff fuel o := by
  simp only [Gen.Lin.h_diff, trObs, trPt, sub_tr, Pt.free_z]
  rfl

theorem xdiff_tr (fuel : Nat) (o : Obs ℝ) :
    Gen.Lin.xdiff fuel (trObs tx ty tz o) = Gen.Lin.xdiff fuel o := by
  simp only [Gen.Lin.xdiff, trObs, trPt, sub_tr, Pt.free_xy]
  rfl

theorem ydiff_tr (fuel : Nat) (o : Obs ℝ) :
    Gen.Lin.ydiff fuel (trObs tx ty tz o) = Gen.Lin.ydiff fuel o := by
  simp only [Gen.Lin.ydiff, trObs, trPt, sub_tr, Pt.free_xy]
  rfl

theorem zdiff_tr (fuel : Nat) (o : Obs ℝ) :
    Gen.Lin.zdiff fuel (trObs tx ty tz o) = Gen.Lin.zdiff fuel o := by
  simp only [Gen.Lin.zdiff, trObs, trPt, sub_tr, Pt.free_z]
  rfl

/-- observed coordinates: the observed value is translated together with the point -/
theorem x_tr (fuel : Nat) (o : Obs ℝ) :
    Gen.Lin.x fuel { trObs tx ty tz o with value := o.value + tx } = Gen.Lin.x fuel o := by
  simp only [Gen.Lin.x, trObs, trPt, sub_tr, Pt.free_xy]
  rfl

theorem y_tr (fuel : Nat) (o : Obs ℝ) :
    Gen.Lin.y fuel { trObs tx ty tz o with value := o.value + ty } = Gen.Lin.y fuel o := by
  simp only [Gen.Lin.y, trObs, trPt, sub_tr, Pt.free_xy]
  rfl

theorem z_tr (fuel : Nat) (o : Obs ℝ) :
    Gen.Lin.z fuel { trObs tx ty tz o with value := o.value + tz } = Gen.Lin.z fuel o := by
  simp only [Gen.Lin.z, trObs, trPt, sub_tr, Pt.free_z]
  rfl

end Translation

/-! ### turning the circle of a direction set -/

/-- every direction of the set is read `c` larger -/
def rotObs (c : ℝ) (o : Obs ℝ) : Obs ℝ := { o with value := o.value + c }

theorem FULL_pos : (0 : ℝ) < FULL := by unfold FULL; norm_num

theorem int_zero_of_abs_lt {k : ℤ} (h1 : -FULL < (k : ℝ) * FULL) (h2 : (k : ℝ) * FULL < FULL) : k = 0 := by
  have hp := FULL_pos
  have a : (k : ℝ) < 1 := by
    by_contra hc
    have : (1 : ℝ) ≤ k := not_lt.1 hc
    nlinarith
  have b : (-1 : ℝ) < k := by
    by_contra hc
    have : (k : ℝ) ≤ -1 := not_lt.1 hc
    nlinarith
  have a' : k < 1 := by exact_mod_cast a
  have b' : -1 < k := by exact_mod_cast b
  omega

/-- coefficients unchanged, right-hand side shifted by `c` (in cc) up to whole circles -/
theorem direction_rot (fuel fuel' : Nat) (c : ℝ) (o : Obs ℝ) (out out' : LinOut ℝ) (h : ¬ hdist o < CUT)
    (hok : Gen.Lin.direction fuel o = .ok out) (hok' : Gen.Lin.direction fuel' (rotObs c o) = .ok out') :
    out'.evs = out.evs ∧ ∃ k : ℤ, out'.rhs = out.rhs + c * R2CC - k * FULL := by
  obtain ⟨⟨⟨k1, h1⟩, _, _⟩, e1⟩ := direction_ok fuel o out h hok
  obtain ⟨⟨⟨k2, h2⟩, _, _⟩, e2⟩ := direction_ok fuel' (rotObs c o) out' h hok'
  refine ⟨by rw [e1, e2]; rfl, k2 - k1, ?_⟩
  have e3 : (rotObs c o).value = o.value + c := rfl
  have e4 : (rotObs c o).orientation = o.orientation := rfl
  have e5 : dX (rotObs c o) = dX o := rfl
  have e6 : dY (rotObs c o) = dY o := rfl
  rw [e3, e4, e5, e6] at h2
  rw [h1, h2]; push_cast; ring

/-- … exactly, when the shifted right-hand side stays inside the half-open window (no wrap) -/
theorem direction_rot_nowrap (fuel fuel' : Nat) (c : ℝ) (o : Obs ℝ) (out out' : LinOut ℝ) (h : ¬ hdist o < CUT)
    (hok : Gen.Lin.direction fuel o = .ok out) (hok' : Gen.Lin.direction fuel' (rotObs c o) = .ok out')
    (hlo : -HALF < out.rhs + c * R2CC) (hhi : out.rhs + c * R2CC ≤ HALF) :
    out'.rhs = out.rhs + c * R2CC := by
  obtain ⟨_, k, hk⟩ := direction_rot fuel fuel' c o out out' h hok hok'
  obtain ⟨_, hlo', hhi'⟩ := (direction_ok fuel' (rotObs c o) out' h hok').1
  have hF : FULL = 2 * HALF := by unfold FULL HALF; norm_num
  have : k = 0 := int_zero_of_abs_lt (by rw [hk] at hlo' hhi'; linarith) (by rw [hk] at hlo' hhi'; linarith)
  rw [hk, this]; simp

/-! ### exchanging the ends -/

theorem dX_swap (o : Obs ℝ) : dX (swapObs o) = -dX o := by simp [dX, swapObs]
theorem dY_swap (o : Obs ℝ) : dY (swapObs o) = -dY o := by simp [dY, swapObs]
theorem dZ_swap (o : Obs ℝ) : dZ (swapObs o) = -dZ o := by simp [dZ, swapObs]
theorem hdist_swap (o : Obs ℝ) : hdist (swapObs o) = hdist o := by
  unfold hdist; rw [dX_swap, dY_swap]; ring_nf
theorem sdist_swap (o : Obs ℝ) : sdist (swapObs o) = sdist o := by
  unfold sdist; rw [dX_swap, dY_swap, dZ_swap]; ring_nf

theorem distance_swap (fuel : Nat) (o : Obs ℝ) (out out' : LinOut ℝ) (h : ¬ hdist o < CUT)
    (hok : Gen.Lin.distance fuel o = .ok out) (hok' : Gen.Lin.distance fuel (swapObs o) = .ok out') :
    out'.rhs = out.rhs ∧ ∀ r c, coef out'.pushes (swapRole r) c = coef out.pushes r c := by
  have h' : ¬ hdist (swapObs o) < CUT := by rw [hdist_swap]; exact h
  rw [distance_eq fuel o h] at hok
  rw [distance_eq fuel _ h'] at hok'
  injection hok with hok; injection hok' with hok'; subst hok; subst hok'
  have e1 : (swapObs o).pfrom.free_xy = o.pto.free_xy := rfl
  have e2 : (swapObs o).pto.free_xy = o.pfrom.free_xy := rfl
  have e3 : (swapObs o).value = o.value := rfl
  refine ⟨by simp only [hdist_swap, e3], fun r c => ?_⟩
  simp only [LinOut.pushes, e1, e2, dX_swap, dY_swap, hdist_swap]
  cases o.pfrom.free_xy <;> cases o.pto.free_xy <;> cases r <;> cases c <;>
    simp [coef, pushes, swapRole, neg_div]

theorem s_distance_swap (fuel : Nat) (o : Obs ℝ) (out out' : LinOut ℝ)
    (hok : Gen.Lin.s_distance fuel o = .ok out) (hok' : Gen.Lin.s_distance fuel (swapObs o) = .ok out') :
    out'.rhs = out.rhs ∧ ∀ r c, coef out'.pushes (swapRole r) c = coef out.pushes r c := by
  rw [s_distance_eq] at hok hok'
  rw [sdist_swap] at hok'
  split at hok
  · exact absurd hok (by simp)
  · rename_i hs
    rw [if_neg hs] at hok'
    injection hok with hok; injection hok' with hok'; subst hok; subst hok'
    have e1 : (swapObs o).pfrom.free_xy = o.pto.free_xy := rfl
    have e2 : (swapObs o).pto.free_xy = o.pfrom.free_xy := rfl
    have e4 : (swapObs o).pfrom.free_z = o.pto.free_z := rfl
    have e5 : (swapObs o).pto.free_z = o.pfrom.free_z := rfl
    have e3 : (swapObs o).value = o.value := rfl
    refine ⟨by simp only [e3], fun r c => ?_⟩
    simp only [LinOut.pushes, sdistEvs, e1, e2, e4, e5, dX_swap, dY_swap, dZ_swap, sdist_swap]
    cases o.pfrom.free_xy <;> cases o.pto.free_xy <;> cases o.pfrom.free_z <;> cases o.pto.free_z <;>
      cases r <;> cases c <;> simp [coef, pushes, swapRole, neg_div]

/-- height difference read the other way round: the value changes sign, and so does the row -/
theorem h_diff_swap (fuel : Nat) (o : Obs ℝ) :
    ∃ out out', Gen.Lin.h_diff fuel o = .ok out ∧
      Gen.Lin.h_diff fuel { swapObs o with value := -o.value } = .ok out' ∧
      out'.rhs = -out.rhs ∧ ∀ r c, coef out'.pushes (swapRole r) c = -coef out.pushes r c := by
  refine ⟨_, _, h_diff_eq fuel o, h_diff_eq fuel _, ?_, fun r c => ?_⟩
  · show (-o.value - dZ (swapObs o)) * 1000 = -((o.value - dZ o) * 1000)
    rw [dZ_swap]; ring
  · show coef (LinOut.pushes ⟨_, (if o.pto.free_z then _ else _) ++ (if o.pfrom.free_z then _ else _)⟩) _ _ = _
    cases o.pfrom.free_z <;> cases o.pto.free_z <;> cases r <;> cases c <;>
      simp [coef, pushes, swapRole, LinOut.pushes]

theorem xdiff_swap (fuel : Nat) (o : Obs ℝ) :
    ∃ out out', Gen.Lin.xdiff fuel o = .ok out ∧
      Gen.Lin.xdiff fuel { swapObs o with value := -o.value } = .ok out' ∧
      out'.rhs = -out.rhs ∧ ∀ r c, coef out'.pushes (swapRole r) c = -coef out.pushes r c := by
  refine ⟨_, _, xdiff_eq fuel o, xdiff_eq fuel _, ?_, fun r c => ?_⟩
  · show (-o.value - dX (swapObs o)) * 1000 = -((o.value - dX o) * 1000)
    rw [dX_swap]; ring
  · show coef (LinOut.pushes ⟨_, (if o.pto.free_xy then _ else _) ++ (if o.pfrom.free_xy then _ else _)⟩) _ _ = _
    cases o.pfrom.free_xy <;> cases o.pto.free_xy <;> cases r <;> cases c <;>
      simp [coef, pushes, swapRole, LinOut.pushes]

theorem ydiff_swap (fuel : Nat) (o : Obs ℝ) :
    ∃ out out', Gen.Lin.ydiff fuel o = .ok out ∧
      Gen.Lin.ydiff fuel { swapObs o with value := -o.value } = .ok out' ∧
      out'.rhs = -out.rhs ∧ ∀ r c, coef out'.pushes (swapRole r) c = -coef out.pushes r c := by
  refine ⟨_, _, ydiff_eq fuel o, ydiff_eq fuel _, ?_, fun r c => ?_⟩
  · show (-o.value - dY (swapObs o)) * 1000 = -((o.value - dY o) * 1000)
    rw [dY_swap]; ring
  · show coef (LinOut.pushes ⟨_, (if o.pto.free_xy then _ else _) ++ (if o.pfrom.free_xy then _ else _)⟩) _ _ = _
    cases o.pfrom.free_xy <;> cases o.pto.free_xy <;> cases r <;> cases c <;>
      simp [coef, pushes, swapRole, LinOut.pushes]

theorem zdiff_swap (fuel : Nat) (o : Obs ℝ) :
    ∃ out out', Gen.Lin.zdiff fuel o = .ok out ∧
      Gen.Lin.zdiff fuel { swapObs o with value := -o.value } = .ok out' ∧
      out'.rhs = -out.rhs ∧ ∀ r c, coef out'.pushes (swapRole r) c = -coef out.pushes r c := by
  refine ⟨_, _, zdiff_eq fuel o, zdiff_eq fuel _, ?_, fun r c => ?_⟩
  · show (-o.value - dZ (swapObs o)) * 1000 = -((o.value - dZ o) * 1000)
    rw [dZ_swap]; ring
  · show coef (LinOut.pushes ⟨_, (if o.pto.free_z then _ else _) ++ (if o.pfrom.free_z then _ else _)⟩) _ _ = _
    cases o.pfrom.free_z <;> cases o.pto.free_z <;> cases r <;> cases c <;>
      simp [coef, pushes, swapRole, LinOut.pushes]

/-! ### mirroring the y axis -/

theorem dX_flip (o : Obs ℝ) : dX (flipObs o) = dX o := rfl
theorem dY_flip (o : Obs ℝ) : dY (flipObs o) = -dY o := by simp [dY, flipObs, flipPt]; ring
theorem dZ_flip (o : Obs ℝ) : dZ (flipObs o) = dZ o := rfl
theorem hdist_flip (o : Obs ℝ) : hdist (flipObs o) = hdist o := by
  unfold hdist; rw [dX_flip, dY_flip]; ring_nf
theorem sdist_flip (o : Obs ℝ) : sdist (flipObs o) = sdist o := by
  unfold sdist; rw [dX_flip, dY_flip, dZ_flip]; ring_nf

/-- distance: same right-hand side, exactly the y-coefficients change sign -/
theorem distance_flip (fuel : Nat) (o : Obs ℝ) (out out' : LinOut ℝ) (h : ¬ hdist o < CUT)
    (hok : Gen.Lin.distance fuel o = .ok out) (hok' : Gen.Lin.distance fuel (flipObs o) = .ok out') :
    out'.rhs = out.rhs ∧ ∀ r c, coef out'.pushes r c = ySgn c * coef out.pushes r c := by
  have h' : ¬ hdist (flipObs o) < CUT := by rw [hdist_flip]; exact h
  rw [distance_eq fuel o h] at hok
  rw [distance_eq fuel _ h'] at hok'
  injection hok with hok; injection hok' with hok'; subst hok; subst hok'
  have e1 : (flipObs o).pfrom.free_xy = o.pfrom.free_xy := rfl
  have e2 : (flipObs o).pto.free_xy = o.pto.free_xy := rfl
  have e3 : (flipObs o).value = o.value := rfl
  refine ⟨by simp only [hdist_flip, e3], fun r c => ?_⟩
  simp only [LinOut.pushes, e1, e2, dX_flip, dY_flip, hdist_flip]
  cases o.pfrom.free_xy <;> cases o.pto.free_xy <;> cases r <;> cases c <;>
    simp [coef, pushes, ySgn, neg_div]

theorem s_distance_flip (fuel : Nat) (o : Obs ℝ) (out out' : LinOut ℝ)
    (hok : Gen.Lin.s_distance fuel o = .ok out) (hok' : Gen.Lin.s_distance fuel (flipObs o) = .ok out') :
    out'.rhs = out.rhs ∧ ∀ r c, coef out'.pushes r c = ySgn c * coef out.pushes r c := by
  rw [s_distance_eq] at hok hok'
  rw [sdist_flip] at hok'
  split at hok
  · exact absurd hok (by simp)
  · rename_i hs
    rw [if_neg hs] at hok'
    injection hok with hok; injection hok' with hok'; subst hok; subst hok'
    have e1 : (flipObs o).pfrom.free_xy = o.pfrom.free_xy := rfl
    have e2 : (flipObs o).pto.free_xy = o.pto.free_xy := rfl
    have e4 : (flipObs o).pfrom.free_z = o.pfrom.free_z := rfl
    have e5 : (flipObs o).pto.free_z = o.pto.free_z := rfl
    have e3 : (flipObs o).value = o.value := rfl
    refine ⟨by simp only [e3], fun r c => ?_⟩
    simp only [LinOut.pushes, sdistEvs, e1, e2, e4, e5, dX_flip, dY_flip, dZ_flip, sdist_flip]
    cases o.pfrom.free_xy <;> cases o.pto.free_xy <;> cases o.pfrom.free_z <;> cases o.pto.free_z <;>
      cases r <;> cases c <;> simp [coef, pushes, ySgn, neg_div]

/-- types that do not read y at all are literally unchanged -/
theorem h_diff_flip (fuel : Nat) (o : Obs ℝ) : Gen.Lin.h_diff fuel (flipObs o) = Gen.Lin.h_diff fuel o := rfl
theorem zdiff_flip (fuel : Nat) (o : Obs ℝ) : Gen.Lin.zdiff fuel (flipObs o) = Gen.Lin.zdiff fuel o := rfl
theorem xdiff_flip (fuel : Nat) (o : Obs ℝ) : Gen.Lin.xdiff fuel (flipObs o) = Gen.Lin.xdiff fuel o := rfl
theorem x_flip (fuel : Nat) (o : Obs ℝ) : Gen.Lin.x fuel (flipObs o) = Gen.Lin.x fuel o := rfl
theorem z_flip (fuel : Nat) (o : Obs ℝ) : Gen.Lin.z fuel (flipObs o) = Gen.Lin.z fuel o := rfl

/-- observed `Y` / `Ydiff` with the value negated (what `change_y_signs…` does): the row is the
    negative of the row with the y-column negated, i.e. rhs negated, coefficients kept -/
theorem y_flip (fuel : Nat) (o : Obs ℝ) :
    ∃ out out', Gen.Lin.y fuel o = .ok out ∧ Gen.Lin.y fuel { flipObs o with value := -o.value } = .ok out' ∧
      out'.rhs = -out.rhs ∧ out'.evs = out.evs := by
  refine ⟨_, _, y_eq fuel o, y_eq fuel _, ?_, rfl⟩
  show (-o.value - fromY (flipObs o)) * 1000 = -((o.value - fromY o) * 1000)
  have : fromY (flipObs o) = -fromY o := rfl
  rw [this]; ring

theorem ydiff_flip (fuel : Nat) (o : Obs ℝ) :
    ∃ out out', Gen.Lin.ydiff fuel o = .ok out ∧ Gen.Lin.ydiff fuel { flipObs o with value := -o.value } = .ok out' ∧
      out'.rhs = -out.rhs ∧ out'.evs = out.evs := by
  refine ⟨_, _, ydiff_eq fuel o, ydiff_eq fuel _, ?_, rfl⟩
  show (-o.value - dY (flipObs o)) * 1000 = -((o.value - dY o) * 1000)
  rw [dY_flip]; ring

/-- the mirrored bearing is the negative bearing up to a whole circle -/
theorem brg_neg_y (x y : ℝ) : ∃ k : ℤ, brg x (-y) = -brg x y + k * (2 * π) := by
  have hc : (⟨x, -y⟩ : ℂ) = (starRingEnd ℂ) ⟨x, y⟩ := by
    apply Complex.ext <;> simp
  have hpi := Real.pi_pos
  unfold brg
  rw [hc, Complex.arg_conj]
  have hle := Complex.arg_le_pi (⟨x, y⟩ : ℂ)
  have hgt := Complex.neg_pi_lt_arg (⟨x, y⟩ : ℂ)
  by_cases h1 : Complex.arg (⟨x, y⟩ : ℂ) = π
  · simp only [h1, if_true]
    refine ⟨1, ?_⟩
    rw [if_pos hpi.le]; push_cast; ring
  · simp only [h1, if_false]
    by_cases h2 : 0 ≤ Complex.arg (⟨x, y⟩ : ℂ)
    · rw [if_pos h2]
      by_cases h3 : Complex.arg (⟨x, y⟩ : ℂ) = 0
      · refine ⟨0, ?_⟩
        rw [h3]; simp
      · have : ¬ (0 ≤ -Complex.arg (⟨x, y⟩ : ℂ)) := by
          intro hh; exact h3 (le_antisymm (by linarith) h2)
        rw [if_neg this]
        exact ⟨1, by push_cast; ring⟩
    · rw [if_neg h2]
      have : 0 ≤ -Complex.arg (⟨x, y⟩ : ℂ) := by linarith [not_le.1 h2]
      rw [if_pos this]
      exact ⟨1, by push_cast; ring⟩

/-- the mirrored description of a direction: y mirrored, circle read in the other sense
    (value, orientation and the bearing of the x axis negated) -/
def negObs (o : Obs ℝ) : Obs ℝ :=
  { flipObs o with value := -o.value, orientation := -o.orientation, xNorth := -o.xNorth }

/-- sign pattern of the mirrored direction row: y-columns and the orientation column -/
def mirrorSgn : Coord → ℝ
  | .y => -1 | .ori => -1 | _ => 1

theorem direction_flip (fuel fuel' : Nat) (o : Obs ℝ) (out out' : LinOut ℝ) (h : ¬ hdist o < CUT)
    (hok : Gen.Lin.direction fuel o = .ok out) (hok' : Gen.Lin.direction fuel' (negObs o) = .ok out') :
    (∃ k : ℤ, out'.rhs = -out.rhs - k * FULL) ∧
      ∀ r c, coef out'.pushes r c = -(mirrorSgn c * coef out.pushes r c) := by
  have hh : hdist (negObs o) = hdist o := hdist_flip o
  have h' : ¬ hdist (negObs o) < CUT := by rw [hh]; exact h
  obtain ⟨⟨⟨k1, h1⟩, _, _⟩, e1⟩ := direction_ok fuel o out h hok
  obtain ⟨⟨⟨k2, h2⟩, _, _⟩, e2⟩ := direction_ok fuel' (negObs o) out' h' hok'
  have ex : dX (negObs o) = dX o := rfl
  have ey : dY (negObs o) = -dY o := dY_flip o
  have ev : (negObs o).value = -o.value := rfl
  have eo : (negObs o).orientation = -o.orientation := rfl
  constructor
  · obtain ⟨k3, h3⟩ := brg_neg_y (dX o) (dY o)
    rw [ex, ey, ev, eo, h3] at h2
    refine ⟨k2 + k1 + k3, ?_⟩
    rw [h1, h2]
    have hpi := Real.pi_ne_zero
    unfold R2CC FULL
    push_cast
    field_simp
    ring
  · intro r c
    have e3 : (negObs o).pfrom.free_xy = o.pfrom.free_xy := rfl
    have e4 : (negObs o).pto.free_xy = o.pto.free_xy := rfl
    simp only [LinOut.pushes, e1, e2, directionEvs, e3, e4, ex, ey, hh]
    cases o.pfrom.free_xy <;> cases o.pto.free_xy <;> cases r <;> cases c <;>
      simp [coef, pushes, mirrorSgn, neg_div]

/-- two reduced right-hand sides of opposite misclosures: equal up to sign, except at the closed
    end of the window (`200 gon` stays `200 gon`, `-200 gon` is not in the window) -/
theorem wrap_neg {r r' : ℝ} {k : ℤ} (hlo : -HALF < r) (hhi : r ≤ HALF) (hlo' : -HALF < r') (hhi' : r' ≤ HALF)
    (hk : r' = -r - k * FULL) : (r ≠ HALF → r' = -r) ∧ (r = HALF → r' = HALF) := by
  have hF : FULL = 2 * HALF := by unfold FULL HALF; norm_num
  constructor
  · intro hne
    have hlt : r < HALF := lt_of_le_of_ne hhi hne
    have : k = 0 := int_zero_of_abs_lt (by rw [hk] at hlo' hhi'; linarith) (by rw [hk] at hlo' hhi'; linarith)
    rw [hk, this]; simp
  · intro he
    have : k = -1 := by
      have h1 : (k : ℝ) * FULL < 0 := by rw [hk, he] at hlo'; linarith
      have h2 : -(2 * FULL) < (k : ℝ) * FULL := by rw [hk, he] at hhi'; linarith
      have hp := FULL_pos
      have a : (k : ℝ) < 0 := by
        by_contra hc; have : (0 : ℝ) ≤ k := not_lt.1 hc; nlinarith
      have b : (-2 : ℝ) < k := by
        by_contra hc; have : (k : ℝ) ≤ -2 := not_lt.1 hc; nlinarith
      have a' : k < 0 := by exact_mod_cast a
      have b' : -2 < k := by exact_mod_cast b
      omega
    rw [hk, this, he, hF]; push_cast; ring

/-- the exact right-hand side of the mirrored direction -/
theorem direction_flip_rhs (fuel fuel' : Nat) (o : Obs ℝ) (out out' : LinOut ℝ) (h : ¬ hdist o < CUT)
    (hok : Gen.Lin.direction fuel o = .ok out) (hok' : Gen.Lin.direction fuel' (negObs o) = .ok out') :
    (out.rhs ≠ HALF → out'.rhs = -out.rhs) ∧ (out.rhs = HALF → out'.rhs = HALF) := by
  obtain ⟨⟨k, hk⟩, _⟩ := direction_flip fuel fuel' o out out' h hok hok'
  have hh : hdist (negObs o) = hdist o := hdist_flip o
  have h' : ¬ hdist (negObs o) < CUT := by rw [hh]; exact h
  obtain ⟨⟨_, a, b⟩, _⟩ := direction_ok fuel o out h hok
  obtain ⟨⟨_, a', b'⟩, _⟩ := direction_ok fuel' (negObs o) out' h' hok'
  exact wrap_neg a b a' b' hk

/-- azimuth: like a direction without orientation unknown (`xNorthAngle` of the mirrored
    description is the negative one) -/
theorem azimuth_flip (fuel fuel' : Nat) (o : Obs ℝ) (out out' : LinOut ℝ) (h : ¬ hdist o < CUT)
    (hok : Gen.Lin.azimuth fuel o = .ok out) (hok' : Gen.Lin.azimuth fuel' (negObs o) = .ok out') :
    ((out.rhs ≠ HALF → out'.rhs = -out.rhs) ∧ (out.rhs = HALF → out'.rhs = HALF)) ∧
      ∀ r c, coef out'.pushes r c = -(mirrorSgn c * coef out.pushes r c) := by
  have hh : hdist (negObs o) = hdist o := hdist_flip o
  have h' : ¬ hdist (negObs o) < CUT := by rw [hh]; exact h
  obtain ⟨⟨⟨k1, h1⟩, a, b⟩, e1⟩ := azimuth_ok fuel o out h hok
  obtain ⟨⟨⟨k2, h2⟩, a', b'⟩, e2⟩ := azimuth_ok fuel' (negObs o) out' h' hok'
  have ex : dX (negObs o) = dX o := rfl
  have ey : dY (negObs o) = -dY o := dY_flip o
  have ev : (negObs o).value = -o.value := rfl
  have eo : (negObs o).xNorth = -o.xNorth := rfl
  constructor
  · obtain ⟨k3, h3⟩ := brg_neg_y (dX o) (dY o)
    rw [ex, ey, ev, eo, h3] at h2
    refine wrap_neg (k := k2 + k1 + k3) a b a' b' ?_
    rw [h1, h2]
    have hpi := Real.pi_ne_zero
    unfold R2CC FULL
    push_cast
    field_simp
    ring
  · intro r c
    have e3 : (negObs o).pfrom.free_xy = o.pfrom.free_xy := rfl
    have e4 : (negObs o).pto.free_xy = o.pto.free_xy := rfl
    simp only [LinOut.pushes, e1, e2, azimuthEvs, e3, e4, ex, ey, hh]
    cases o.pfrom.free_xy <;> cases o.pto.free_xy <;> cases r <;> cases c <;>
      simp [coef, pushes, mirrorSgn, neg_div]

theorem dX2_flip (o : Obs ℝ) : dX2 (flipObs o) = dX2 o := rfl
theorem dY2_flip (o : Obs ℝ) : dY2 (flipObs o) = -dY2 o := by simp [dY2, flipObs, flipPt]; ring
theorem hdist2_flip (o : Obs ℝ) : hdist2 (flipObs o) = hdist2 o := by
  unfold hdist2; rw [dX2_flip, dY2_flip]; ring_nf

/-- the mirrored angle bs → fs is the negative angle up to whole circles -/
theorem angleBsFs_flip (o : Obs ℝ) : ∃ m : ℤ, angleBsFs (flipObs o) = -angleBsFs o + m * (2 * π) := by
  obtain ⟨k1, h1⟩ := brg_neg_y (dX o) (dY o)
  obtain ⟨k2, h2⟩ := brg_neg_y (dX2 o) (dY2 o)
  unfold angleBsFs
  simp only [dX_flip, dY_flip, dX2_flip, dY2_flip, h1, h2]
  split <;> split
  · exact ⟨k2 - k1 + 2, by push_cast; ring⟩
  · exact ⟨k2 - k1 + 1, by push_cast; ring⟩
  · exact ⟨k2 - k1 + 1, by push_cast; ring⟩
  · exact ⟨k2 - k1, by push_cast; ring⟩

/-- angle read in the other sense (value negated), y mirrored -/
theorem angle_flip (fuel fuel' : Nat) (o : Obs ℝ) (out out' : LinOut ℝ) (h : ¬ hdist o < CUT) (h2 : ¬ hdist2 o < CUT)
    (hok : Gen.Lin.angle fuel o = .ok out) (hok' : Gen.Lin.angle fuel' (negObs o) = .ok out') :
    ((out.rhs ≠ HALF → out'.rhs = -out.rhs) ∧ (out.rhs = HALF → out'.rhs = HALF)) ∧
      ∀ r c, coef out'.pushes r c = -(mirrorSgn c * coef out.pushes r c) := by
  have hh : hdist (negObs o) = hdist o := hdist_flip o
  have hh2 : hdist2 (negObs o) = hdist2 o := hdist2_flip o
  have h' : ¬ hdist (negObs o) < CUT := by rw [hh]; exact h
  have h2' : ¬ hdist2 (negObs o) < CUT := by rw [hh2]; exact h2
  obtain ⟨⟨⟨k1, e1⟩, a, b⟩, ev1⟩ := angle_ok fuel o out h h2 hok
  obtain ⟨⟨⟨k2, e2⟩, a', b'⟩, ev2⟩ := angle_ok fuel' (negObs o) out' h' h2' hok'
  have ex : dX (negObs o) = dX o := rfl
  have ey : dY (negObs o) = -dY o := dY_flip o
  have ex2 : dX2 (negObs o) = dX2 o := rfl
  have ey2 : dY2 (negObs o) = -dY2 o := dY2_flip o
  have ev : (negObs o).value = -o.value := rfl
  have ea : angleBsFs (negObs o) = angleBsFs (flipObs o) := rfl
  constructor
  · obtain ⟨m, hm⟩ := angleBsFs_flip o
    rw [ev, ea, hm] at e2
    refine wrap_neg (k := k2 + k1 + m) a b a' b' ?_
    rw [e1, e2]
    have hpi := Real.pi_ne_zero
    unfold R2CC FULL
    push_cast
    field_simp
    ring
  · intro r c
    have e3 : (negObs o).pfrom.free_xy = o.pfrom.free_xy := rfl
    have e4 : (negObs o).pto.free_xy = o.pto.free_xy := rfl
    have e5 : (negObs o).pfs.free_xy = o.pfs.free_xy := rfl
    simp only [LinOut.pushes, ev1, ev2, angleEvs, e3, e4, e5, ex, ey, ex2, ey2, hh, hh2]
    cases o.pfrom.free_xy <;> cases o.pto.free_xy <;> cases o.pfs.free_xy <;> cases r <;> cases c <;>
      simp [coef, pushes, mirrorSgn, neg_div] <;> ring

/-- zenith angle: y mirrored, value kept: same right-hand side, exactly the y-coefficients negated -/
theorem z_angle_flip (fuel : Nat) (o : Obs ℝ) (out out' : LinOut ℝ)
    (hok : Gen.Lin.z_angle fuel o = .ok out) (hok' : Gen.Lin.z_angle fuel (flipObs o) = .ok out') :
    out'.rhs = out.rhs ∧ ∀ r c, coef out'.pushes r c = ySgn c * coef out.pushes r c := by
  rw [z_angle_eq] at hok hok'
  rw [hdist_flip, sdist_flip] at hok'
  split at hok
  · exact absurd hok (by simp)
  · rename_i hs
    rw [if_neg hs] at hok'
    injection hok with hok; injection hok' with hok'; subst hok; subst hok'
    have e1 : (flipObs o).pfrom.free_xy = o.pfrom.free_xy := rfl
    have e2 : (flipObs o).pto.free_xy = o.pto.free_xy := rfl
    have e4 : (flipObs o).pfrom.free_z = o.pfrom.free_z := rfl
    have e5 : (flipObs o).pto.free_z = o.pto.free_z := rfl
    have e3 : (flipObs o).value = o.value := rfl
    have ez : zsign (flipObs o) = zsign o := rfl
    have ek : KZ (flipObs o) = KZ o := by unfold KZ; rw [hdist_flip, sdist_flip]
    have ezc : zenithComputed (flipObs o) = zenithComputed o := by
      unfold zenithComputed zenith; rw [e3, dZ_flip, sdist_flip]
    refine ⟨by simp only [e3, ezc], fun r c => ?_⟩
    simp only [LinOut.pushes, zangleEvs, e1, e2, e4, e5, dX_flip, dY_flip, dZ_flip, hdist_flip, ez, ek]
    cases o.pfrom.free_xy <;> cases o.pto.free_xy <;> cases o.pfrom.free_z <;> cases o.pto.free_z <;>
      cases r <;> cases c <;> simp [coef, pushes, ySgn]

/-! ### index assignment: first use wins; renaming -/

/-- every pushed index is the index the unknown has in the FINAL state (an index once given is
    never changed), so a row is a function of the identities of its unknowns only -/
theorem runEvs_rows_final {K : Type} (name : Role → Coord → Unk) (evs : List (Ev K)) :
    ∀ (s : IdxState) (seen : List (Role × Coord)), s.WF → (∀ rc ∈ seen, s.get (name rc.1 rc.2) ≠ 0) →
      wellTouched evs seen = true →
      (runEvs name evs s).2 =
        (pushes evs).map (fun p => ((runEvs name evs s).1.get (name p.1 p.2.1), p.2.2)) := by
  induction evs with
  | nil => intro s seen _ _ _; rfl
  | cons e t ih =>
    intro s seen h hseen hw
    cases e with
    | touch r c =>
      have hw' : wellTouched t ((r, c) :: seen) = true := hw
      have hs := IdxState.touch_wf h (name r c)
      have hseen' : ∀ rc ∈ (r, c) :: seen, (s.touch (name r c)).get (name rc.1 rc.2) ≠ 0 := by
        intro rc hrc
        rcases List.mem_cons.1 hrc with h0 | hm
        · rw [h0]; have := (IdxState.touch_get h (name r c)).1
          show (s.touch (name r c)).get (name r c) ≠ 0
          omega
        · rw [IdxState.touch_get_of_ne_zero s _ _ (hseen rc hm)]; exact hseen rc hm
      exact ih (s.touch (name r c)) ((r, c) :: seen) hs hseen' hw'
    | push r c v =>
      have hw' : (decide ((r, c) ∈ seen) && wellTouched t seen) = true := hw
      rw [Bool.and_eq_true] at hw'
      have hm : (r, c) ∈ seen := by simpa using hw'.1
      have hne := hseen (r, c) hm
      have hfin := (runEvs_wf name t s h).2.2 (name r c) hne
      have ht := ih s seen h hseen hw'.2
      show (s.get (name r c), v) :: (runEvs name t s).2 = _
      rw [ht]
      simp only [pushes, List.map_cons]
      rw [show (runEvs name (Ev.push r c v :: t) s).1 = (runEvs name t s).1 from rfl, hfin]

/-- rename the unknowns of an index state -/
def IdxState.mapKeys (f : Unk → Unk) (s : IdxState) : IdxState := ⟨s.maxn, s.tab.map (fun e => (f e.1, e.2))⟩

theorem IdxState.get_mapKeys (f : Unk → Unk) (hf : Function.Injective f) (s : IdxState) (u : Unk) :
    (s.mapKeys f).get (f u) = s.get u := by
  unfold IdxState.get IdxState.mapKeys
  simp only
  induction s.tab with
  | nil => rfl
  | cons e t ih =>
    by_cases he : e.1 = u
    · simp [List.find?, he]
    · have : f e.1 ≠ f u := fun hh => he (hf hh)
      simp only [List.map_cons, List.find?, this, he, decide_false]
      exact ih

theorem IdxState.touch_mapKeys (f : Unk → Unk) (hf : Function.Injective f) (s : IdxState) (u : Unk) :
    (s.touch u).mapKeys f = (s.mapKeys f).touch (f u) := by
  unfold IdxState.touch
  rw [IdxState.get_mapKeys f hf]
  split
  · rfl
  · rfl

/-- the indices written into the rows do not depend on what the points are called: an
    injective renaming of the unknowns gives the same rows and the renamed index table -/
theorem runEvs_rename {K : Type} (f : Unk → Unk) (hf : Function.Injective f) (name : Role → Coord → Unk)
    (evs : List (Ev K)) :
    ∀ s : IdxState, runEvs (fun r c => f (name r c)) evs (s.mapKeys f) =
      ((runEvs name evs s).1.mapKeys f, (runEvs name evs s).2) := by
  induction evs with
  | nil => intro s; rfl
  | cons e t ih =>
    intro s
    cases e with
    | touch r c =>
      show runEvs _ t ((s.mapKeys f).touch (f (name r c))) = _
      rw [← IdxState.touch_mapKeys f hf, ih]; rfl
    | push r c v =>
      show (let (s', rows) := runEvs (fun r c => f (name r c)) t (s.mapKeys f); (s', ((s.mapKeys f).get (f (name r c)), v) :: rows)) = _
      rw [ih, IdxState.get_mapKeys f hf]; rfl

end Gama.Lin
