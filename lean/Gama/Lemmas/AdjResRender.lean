/-
  C11 round trip, DATA side: the operand languages `leafKind` of Model/AdjResWriter.lean are tied to property C12's
  REGENERATED per-site format table (`Gen/XmlFmtSites.lean`: floatfield + precision in force at every numeric operand
  of `LocalNetworkXML::write`, `.int` for the `int` operands), and the renderings C12 models for those formats
  (`Dec.Fmt.print`: fixed / scientific / general with any precision, any rounding mode, any rational;
  `Dec.fmtIntL`: decimal digits of any `Int`) are in the language the reader checks (`Lit.isFloat` / `Lit.isInteger`).
  Imports C12 files READ-ONLY.
-/
import Gama.Lemmas.AdjResWriter
import Gama.Lemmas.XmlFmtSpec
import Gama.Lemmas.DecimalCodecSig
import Gama.Lemmas.DecimalCodecText
namespace Gama.AdjRes
open Gama.Lit Gama.Dec Gama.Gen.XmlFmtSites

/-! ### renderings are in the reader's languages -/

/-- every real printer, every precision, every rounding mode, every rational: `get_float()` accepts the text -/
theorem isFloat_print (m : RMode) (f : Fmt) (x : ℚ) : isFloat (f.print m x).toList = true := by
  have h := rd_print m f x
  unfold rdDecimal rdDecimalL at h
  by_cases hf : isFloat (f.print m x).toList = true
  · exact hf
  · simp [hf] at h

/-- the decimal digits of every `Int` (`operator<<(int)`): `get_int()` accepts the text -/
theorem isInteger_fmtIntL (i : Int) : isInteger (fmtIntL i) = true := by
  have h := rdIntL_fmtIntL i
  unfold rdIntL at h
  by_cases hf : isInteger (fmtIntL i) = true
  · exact hf
  · simp [hf] at h

/-! ### `leafKind` against the regenerated format table -/

/-- what the format of a site allows `leafKind` to claim of its element: an `int` site ⇒ integer language; a `double`
    site ⇒ float language (or nothing, where the reader only keeps the string: `err-obs`, `err-adj`); an undetermined
    site ⇒ nothing -/
def siteOK : SiteFmt → LeafKind → Bool
  | .int, k => k == .int
  | .num _, k => k == .float || k == .any
  | .unknown, k => k == .any

/-- the element-content sites of the regenerated table -/
def elemSites : List FmtSite := sites.filter (fun s => !s.attr)

/-- what a site of the writer model streams: the digits of an `Int`, resp. the rendering of a rational with the
    site's floatfield / precision (any rounding mode) -/
def Renders : SiteFmt → List Char → Prop
  | .int, cs => ∃ i : Int, cs = fmtIntL i
  | .num f, cs => ∃ (m : RMode) (x : ℚ), cs = (f.print m x).toList
  | .unknown, _ => False

/-- the operand of the writer MODEL inside `<tag>`, as expat delivers it: where `leafKind` claims a number language,
    the rendering of some number with the format of a site of that name in the regenerated table; the word list for
    `<used>`; anything elsewhere -/
def ModelOperand (tag : String) (cs : List Char) : Prop :=
  match leafKind tag with
  | .any => True
  | .str al => al.contains (String.ofList (getString cs)) = true
  | _ => ∃ s ∈ elemSites, s.name = tag ∧ Renders s.fmt cs

theorem lang_of_modelOperand (htab : ∀ s ∈ elemSites, siteOK s.fmt (leafKind s.name) = true)
    (tag : String) (cs : List Char) (h : ModelOperand tag cs) : (leafKind tag).lang cs := by
  unfold ModelOperand at h
  cases hk : leafKind tag with
  | any => trivial
  | str al => rw [hk] at h; exact h
  | int =>
    rw [hk] at h
    obtain ⟨s, hs, hn, hr⟩ := h
    have hok := htab s hs
    rw [hn, hk] at hok
    cases hf : s.fmt with
    | int =>
      rw [hf] at hr
      obtain ⟨i, rfl⟩ := hr
      exact isInteger_fmtIntL i
    | num f => rw [hf] at hok; simp [siteOK] at hok
    | unknown => rw [hf] at hok; simp [siteOK] at hok
  | float =>
    rw [hk] at h
    obtain ⟨s, hs, hn, hr⟩ := h
    have hok := htab s hs
    rw [hn, hk] at hok
    cases hf : s.fmt with
    | int => rw [hf] at hok; simp [siteOK] at hok
    | num f =>
      rw [hf] at hr
      obtain ⟨m, x, rfl⟩ := hr
      exact isFloat_print m f x
    | unknown => rw [hf] at hok; simp [siteOK] at hok

/-- the operand language READ OFF the regenerated format table: the kind of the first element-content site of that
    name (`.any` when there is none) -/
def leafKindG (tag : String) : LeafKind :=
  match elemSites.find? (fun s => s.name == tag) with
  | some s =>
    (match s.fmt with
     | .int => .int
     | .num _ => .float
     | .unknown => .any)
  | none => .any

theorem mem_tags_of_leafKind (t : String) (h : leafKind t = .int ∨ leafKind t = .float) : t ∈ intTags ++ floatTags := by
  unfold leafKind at h
  by_cases h1 : intTags.contains t = true
  · exact List.mem_append_left _ (by simpa using h1)
  · by_cases h2 : floatTags.contains t = true
    · exact List.mem_append_right _ (by simpa using h2)
    · exfalso
      simp only [h1, h2] at h
      by_cases h3 : (t == "used") = true
      · simp [h3] at h
      · simp [h3] at h

/-! ### the writer model: `Gen` with rendered operands -/

def ConcM (t : XmlDoc.TokSk) (c : XmlDoc.Tok) : Prop :=
  XmlDoc.Conc t c ∧
  (∀ tag k e b, t = .text tag k e → c = .chars b → ModelOperand tag (expatText b)) ∧
  (∀ n cs e, c = .stag n cs e → ∀ a ∈ cs, ∀ v, attrReq n a.1 = some v → String.ofList (expatText a.2) = v)

/-- the token sequences of the writer MODEL: the skeleton's sequences whose numeric operands are renderings -/
inductive GenM : XmlDoc.Sk → List XmlDoc.Tok → Prop
  | eps : GenM .eps []
  | tok {t : XmlDoc.TokSk} {c : XmlDoc.Tok} : ConcM t c → GenM (.tok t) [c]
  | seq {a b : XmlDoc.Sk} {u v : List XmlDoc.Tok} : GenM a u → GenM b v → GenM (.seq a b) (u ++ v)
  | altL {a b : XmlDoc.Sk} {u : List XmlDoc.Tok} : GenM a u → GenM (.alt a b) u
  | altR {a b : XmlDoc.Sk} {u : List XmlDoc.Tok} : GenM b u → GenM (.alt a b) u
  | starNil {a : XmlDoc.Sk} : GenM (.star a) []
  | starCons {a : XmlDoc.Sk} {u v : List XmlDoc.Tok} : GenM a u → GenM (.star a) v → GenM (.star a) (u ++ v)

theorem genD_of_genM (htab : ∀ s ∈ elemSites, siteOK s.fmt (leafKind s.name) = true) :
    ∀ {sk : XmlDoc.Sk} {toks : List XmlDoc.Tok}, GenM sk toks → GenD sk toks := by
  intro sk toks h
  induction h with
  | eps => exact .eps
  | tok hc =>
    exact .tok ⟨hc.1, fun tag k e b h1 h2 => lang_of_modelOperand htab tag _ (hc.2.1 tag k e b h1 h2), hc.2.2⟩
  | seq _ _ iha ihb => exact .seq iha ihb
  | altL _ ih => exact .altL ih
  | altR _ ih => exact .altR ih
  | starNil => exact .starNil
  | starCons _ _ iha ihb => exact .starCons iha ihb

end Gama.AdjRes

/-! ### a canonical document of the writer MODEL (for examples): operands are renderings with the site's format -/

namespace Gama.AdjRes
open Gama.Lit Gama.Dec Gama.Gen.XmlFmtSites

def byteOfChar (c : Char) : UInt8 := c.toNat.toUInt8

/-- the number rendered at the sites of an element in the canonical document: 1 for `<dim>`, else 0 -/
def canonRender (tag : String) (f : SiteFmt) : List Char :=
  match f with
  | .int => fmtIntL (if tag == "dim" then 1 else 0)
  | .num f => (f.print .halfEven 0).toList
  | .unknown => []

def canonOperandM (tag : String) : XmlEsc.Bytes :=
  match leafKind tag with
  | .any => [48]
  | .str _ => XmlDoc.bytesOf "apriori"
  | _ =>
    match elemSites.find? (fun s => s.name == tag) with
    | some s => (canonRender tag s.fmt).map byteOfChar
    | none => []

def modelOperandB (tag : String) (cs : List Char) : Bool :=
  match leafKind tag with
  | .any => true
  | .str al => al.contains (String.ofList (getString cs))
  | _ =>
    match elemSites.find? (fun s => s.name == tag) with
    | some s => s.fmt != .unknown && cs == canonRender tag s.fmt
    | none => false

theorem modelOperand_of_B (tag : String) (cs : List Char) (h : modelOperandB tag cs = true) : ModelOperand tag cs := by
  unfold modelOperandB at h
  unfold ModelOperand
  have core : (match elemSites.find? (fun s => s.name == tag) with
      | some s => s.fmt != .unknown && cs == canonRender tag s.fmt
      | none => false) = true → ∃ s ∈ elemSites, s.name = tag ∧ Renders s.fmt cs := by
    intro h
    cases hf : elemSites.find? (fun s => s.name == tag) with
    | none => simp [hf] at h
    | some s =>
      simp only [hf, Bool.and_eq_true, bne_iff_ne, ne_eq, beq_iff_eq] at h
      have hmem := List.mem_of_find?_eq_some hf
      have hname : s.name = tag := by simpa using List.find?_some hf
      refine ⟨s, hmem, hname, ?_⟩
      cases hfm : s.fmt with
      | int => rw [hfm] at h; exact ⟨_, h.2⟩
      | num f => rw [hfm] at h; exact ⟨.halfEven, 0, h.2⟩
      | unknown => exact absurd hfm h.1
  cases hk : leafKind tag with
  | any => trivial
  | str al => rw [hk] at h; exact h
  | int => rw [hk] at h; exact core h
  | float => rw [hk] at h; exact core h

def canonTokM : XmlDoc.TokSk → XmlDoc.Tok
  | .text tag _ _ => .chars (canonOperandM tag)
  | t => canonTok t

def tokGoodM : XmlDoc.TokSk → Bool
  | .text tag k _ => operandGood k (canonOperandM tag) && modelOperandB tag (expatText (canonOperandM tag))
  | t => tokGood t

def skGoodM : XmlDoc.Sk → Bool
  | .eps => true
  | .tok t => tokGoodM t
  | .seq a b => skGoodM a && skGoodM b
  | .alt a _ => skGoodM a
  | .star a => skGoodM a

def canonDocM : XmlDoc.Sk → List XmlDoc.Tok
  | .eps => []
  | .tok t => [canonTokM t]
  | .seq a b => canonDocM a ++ canonDocM b
  | .alt a _ => canonDocM a
  | .star a => canonDocM a

theorem concM_canon (t : XmlDoc.TokSk) (h : tokGoodM t = true) : ConcM t (canonTokM t) := by
  cases t with
  | text tag k e =>
    simp only [tokGoodM, Bool.and_eq_true] at h
    refine ⟨.text (operandOK_of_good k e _ h.1), ?_, (by intro _ _ _ h; simp [canonTokM] at h)⟩
    intro tag' k' e' b heq hb
    simp only [XmlDoc.TokSk.text.injEq] at heq
    obtain ⟨rfl, rfl, rfl⟩ := heq
    simp only [canonTokM, XmlDoc.Tok.chars.injEq] at hb
    subst hb
    exact modelOperand_of_B _ _ h.2
  | decl =>
    have hd := concD_canon .decl h
    exact ⟨hd.1, (by intro _ _ _ _ h; cases h), hd.2.2⟩
  | etag n =>
    have hd := concD_canon (.etag n) h
    exact ⟨hd.1, (by intro _ _ _ _ h; cases h), hd.2.2⟩
  | comment s =>
    have hd := concD_canon (.comment s) h
    exact ⟨hd.1, (by intro _ _ _ _ h; cases h), hd.2.2⟩
  | chars s =>
    have hd := concD_canon (.chars s) h
    exact ⟨hd.1, (by intro _ _ _ _ h; cases h), hd.2.2⟩
  | stag n as e =>
    have hd := concD_canon (.stag n as e) h
    exact ⟨hd.1, (by intro _ _ _ _ h; cases h), hd.2.2⟩

theorem genM_canon : ∀ sk : XmlDoc.Sk, skGoodM sk = true → GenM sk (canonDocM sk)
  | .eps, _ => .eps
  | .tok t, h => .tok (concM_canon t h)
  | .seq a b, h => by
    simp only [skGoodM, Bool.and_eq_true] at h
    exact .seq (genM_canon a h.1) (genM_canon b h.2)
  | .alt a _, h => .altL (genM_canon a h)
  | .star a, h => by
    have := GenM.starCons (genM_canon a h) (GenM.starNil (a := a))
    simpa [canonDocM] using this

end Gama.AdjRes
