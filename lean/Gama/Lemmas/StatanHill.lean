/-
  `Student`, N ≥ 3 (Hill's expansion): the two divisors that were left open in round 1.

  * first branch (`y > a + 0.05`): the divisor `c = (((0.05 d x − 5) x − 7) x − 2) x + b + c [+ 0.3 (r − 4.5)(x + 0.6)]`
    is positive for every `x ≤ 1`; the code calls it with `x = −Normal(α)`, α ∈ (0, ½], so the stated bound on
    `Normal` is the one-sided `−1 ≤ Normal(α)` (true value ≥ 0).  It does vanish for x ≈ 3.88 (N = 3).
  * second branch (`y ≤ a + 0.05`): `E = (r+6)/(r y) − 0.089 d − 0.822 > 0` for 3 ≤ r ≤ 10000.  Over ℝ this bound on r
    cannot be dropped: d grows like √(πr/2), so for r > 29 560 the divisor changes sign inside (0, a + 0.05] (at
    probabilities of order 0.05^(r/2), far below the smallest double — unreachable in floating point).
-/
import Mathlib.Analysis.Real.Pi.Bounds
import Gama.Lemmas.StatanReal
namespace Gama.Statan
open Real

theorem ofInt_real (n : ℤ) : (Scalar.ofInt n : ℝ) = (n : ℝ) := by
  unfold Scalar.ofInt
  split_ifs with h
  · rw [scalar_ofNat_real, Nat.cast_natAbs, abs_of_neg (by exact_mod_cast h)]; push_cast; ring
  · rw [scalar_ofNat_real, Nat.cast_natAbs, abs_of_nonneg (by exact_mod_cast (not_lt.mp h))]

/-- bounds on the prelude of Hill's expansion for r ≥ 3 -/
theorem hill_bounds {r : ℝ} (hr : 3 ≤ r) :
    (hillABCD r).1 = 1 / (r - 1 / 2) ∧ 300 ≤ (hillABCD r).2.1 ∧ 0 < (hillABCD r).2.2.1 ∧
      0 < (hillABCD r).2.2.2 ∧ (hillABCD r).2.2.2 ^ 2 ≤ 19 / 10 * r := by
  obtain ⟨_, hapos, hbpos, hcpos, hdpos, _, _⟩ := hill_defined hr (show (0 : ℝ) < 1 by norm_num)
  set abcd := hillABCD r with habcd
  have hpi := Real.pi_pos
  have ha : abcd.1 = 1 / (r - 1 / 2) := by
    show (1 : ℝ) / (r - lit 5 1) = _; rw [half_real]
  have ha4 : abcd.1 ≤ 2 / 5 := by
    rw [ha, div_le_div_iff₀ (by linarith) (by norm_num)]; linarith
  have hb : abcd.2.1 = 48 / (abcd.1 * abcd.1) := by
    show Scalar.ofNat 48 / (abcd.1 * abcd.1) = _; simp
  have hb300 : 300 ≤ abcd.2.1 := by
    rw [hb, le_div_iff₀ (by positivity)]; nlinarith
  have hd : abcd.2.2.2 = ((94.5 / (abcd.2.1 + abcd.2.2.1) - 3) / abcd.2.1 + 1) * Real.sqrt (π / 2 * abcd.1) * r := by
    show ((lit 945 1 / (abcd.2.1 + abcd.2.2.1) - Scalar.ofNat 3) / abcd.2.1 + 1) * Scalar.sqrt (Transc.pi / Scalar.ofNat 2 * abcd.1) * r = _
    simp only [scalar_ofNat_real, lit_real, scalar_sqrt_real, transc_pi_real]; norm_num
  refine ⟨ha, hb300, hcpos, hdpos, ?_⟩
  -- g := (94.5/(b+c) − 3)/b + 1 ∈ (0, 1]
  set g : ℝ := (94.5 / (abcd.2.1 + abcd.2.2.1) - 3) / abcd.2.1 + 1 with hg
  have hg1 : g ≤ 1 := by
    have h1 : 94.5 / (abcd.2.1 + abcd.2.2.1) ≤ 3 := by
      rw [div_le_iff₀ (by linarith)]; linarith
    have : (94.5 / (abcd.2.1 + abcd.2.2.1) - 3) / abcd.2.1 ≤ 0 :=
      div_nonpos_of_nonpos_of_nonneg (by linarith) hbpos.le
    linarith
  have hg0 : 0 ≤ g := by
    have hfrac : 0 ≤ 94.5 / (abcd.2.1 + abcd.2.2.1) := by positivity
    have h3 : -(1 / 100 : ℝ) ≤ (94.5 / (abcd.2.1 + abcd.2.2.1) - 3) / abcd.2.1 := by
      rw [le_div_iff₀ hbpos]; nlinarith
    linarith
  have hsq : Real.sqrt (π / 2 * abcd.1) ^ 2 = π / 2 * abcd.1 := Real.sq_sqrt (by positivity)
  rw [hd]
  have e1 : (g * Real.sqrt (π / 2 * abcd.1) * r) ^ 2 = g ^ 2 * (π / 2 * abcd.1) * r ^ 2 := by
    rw [mul_pow, mul_pow, hsq]
  rw [e1]
  have hg2 : g ^ 2 ≤ 1 := by nlinarith
  have har : abcd.1 * r ^ 2 ≤ 6 / 5 * r := by
    rw [ha, div_mul_eq_mul_div, one_mul, div_le_iff₀ (by linarith)]; nlinarith
  have hpi2 : π / 2 ≤ 63 / 40 := by linarith [Real.pi_lt_d2]
  have h1 : π / 2 * abcd.1 * r ^ 2 ≤ 63 / 40 * (6 / 5 * r) := by
    have : π / 2 * (abcd.1 * r ^ 2) ≤ 63 / 40 * (6 / 5 * r) :=
      mul_le_mul hpi2 har (by positivity) (by norm_num)
    linarith
  have h0 : 0 ≤ π / 2 * abcd.1 * r ^ 2 := by positivity
  nlinarith

theorem hillDiv1_real (N : ℤ) (r b c d x : ℝ) :
    hillDiv1 N r b c d x = (((0.05 * d * x - 5) * x - 7) * x - 2) * x + b
      + (if N < 5 then c + 0.3 * (r - 4.5) * (x + 0.6) else c) := by
  unfold hillDiv1; simp only [lit_real, scalar_ofNat_real]; norm_num

/-- first Hill branch: the divisor is positive for every x ≤ 1 (the code passes x = −Normal(α) ≤ 0) -/
theorem hillDiv1_pos {N : ℤ} {r b c d x : ℝ} (hr : 3 ≤ r) (hN : N < 5 → r < 5) (hb : 300 ≤ b) (hc : 0 < c)
    (hd : 0 < d) (hx : x ≤ 1) : 0 < hillDiv1 N r b c d x := by
  rw [hillDiv1_real]
  set s : ℝ := 1 - x with hs
  have hs0 : 0 ≤ s := by linarith
  have hx' : x = 1 - s := by linarith
  have h1 : 0 ≤ d * x ^ 4 := by positivity
  have h2 : 0 ≤ s * (5 * (s - 11 / 5) ^ 2 + 6) := by positivity
  have hpoly : (((0.05 * d * x - 5) * x - 7) * x - 2) * x + 300
      = 0.05 * (d * x ^ 4) + s * (5 * (s - 11 / 5) ^ 2 + 6) + 4 / 5 * s + 286 := by
    rw [hx']; ring
  split_ifs with h5
  · have hr5 := hN h5
    by_cases hx6 : 0 ≤ x + 0.6
    · have hT : -(0.45 : ℝ) * (x + 0.6) ≤ 0.3 * (r - 4.5) * (x + 0.6) := by nlinarith
      nlinarith
    · have hT : (0.15 : ℝ) * (x + 0.6) ≤ 0.3 * (r - 4.5) * (x + 0.6) := by nlinarith
      nlinarith
  · nlinarith

theorem hillDiv2_real (r d y : ℝ) : hillDiv2 r d y = (r + 6) / (r * y) - 0.089 * d - 0.822 := by
  unfold hillDiv2; simp only [lit_real, scalar_ofNat_real]; norm_num

/-- second Hill branch: the divisor is positive for 3 ≤ r ≤ 10000 and 0 < y ≤ a + 0.05 -/
theorem hillDiv2_pos {r d y : ℝ} (hr : 3 ≤ r) (hr' : r ≤ 10000) (hd0 : 0 < d) (hd : d ^ 2 ≤ 19 / 10 * r)
    (hy0 : 0 < y) (hy : y ≤ 1 / (r - 1 / 2) + 1 / 20) : 0 < hillDiv2 r d y := by
  rw [hillDiv2_real]
  have hrh : 0 < r - 1 / 2 := by linarith
  have hdle : d ≤ 19 / 2000 * r + 50 := by nlinarith [sq_nonneg (d - 100)]
  have hW : 0.089 * d + 0.822 ≤ 0.0008455 * r + 5.272 := by linarith
  have hW0 : 0 < 0.089 * d + 0.822 := by positivity
  have hY : (1 / (r - 1 / 2) + 1 / 20) * (r - 1 / 2) = 1 + (r - 1 / 2) / 20 := by
    rw [add_mul, div_mul_cancel₀ _ hrh.ne']; ring
  have hcubic : (0.0008455 * r + 5.272) * r * (1 + (r - 1 / 2) / 20) < (r + 6) * (r - 1 / 2) := by
    nlinarith [mul_nonneg (sub_nonneg.mpr hr') (mul_self_nonneg r), mul_nonneg (sub_nonneg.mpr hr) (sub_nonneg.mpr hr)]
  have h1 : (0.089 * d + 0.822) * (r * y) ≤ (0.0008455 * r + 5.272) * (r * (1 / (r - 1 / 2) + 1 / 20)) := by
    apply mul_le_mul hW (mul_le_mul_of_nonneg_left hy (by linarith)) (by positivity) (by positivity)
  have h2 : (0.0008455 * r + 5.272) * (r * (1 / (r - 1 / 2) + 1 / 20)) < r + 6 := by
    have : (0.0008455 * r + 5.272) * (r * (1 / (r - 1 / 2) + 1 / 20)) * (r - 1 / 2) < (r + 6) * (r - 1 / 2) := by
      calc (0.0008455 * r + 5.272) * (r * (1 / (r - 1 / 2) + 1 / 20)) * (r - 1 / 2)
          = (0.0008455 * r + 5.272) * r * ((1 / (r - 1 / 2) + 1 / 20) * (r - 1 / 2)) := by ring
        _ = (0.0008455 * r + 5.272) * r * (1 + (r - 1 / 2) / 20) := by rw [hY]
        _ < _ := hcubic
    exact lt_of_mul_lt_mul_right this hrh.le
  have h3 : 0.089 * d + 0.822 < (r + 6) / (r * y) := by
    rw [lt_div_iff₀ (by positivity)]; linarith
  linarith

/-- second Hill branch: with a positive divisor the radicand factor is positive (> 1) -/
theorem hillY2_pos {r d y : ℝ} (hr : 3 ≤ r) (hE : 0 < hillDiv2 r d y) (hy0 : 0 < y)
    (hy : y ≤ 1 / (r - 1 / 2) + 1 / 20) : 0 < hillY2 r d y := by
  unfold hillY2
  simp only [lit_real, scalar_ofNat_real]
  set E := hillDiv2 r d y
  push_cast
  have hT : 0 < (1 / (E * (r + 2) * 3) + 5 / 10 ^ 1 / (r + 4)) * y := by positivity
  set T : ℝ := (1 / (E * (r + 2) * 3) + 5 / 10 ^ 1 / (r + 4)) * y
  have hy45 : y ≤ 9 / 20 := by
    have : 1 / (r - 1 / 2) ≤ 2 / 5 := by
      rw [div_le_div_iff₀ (by linarith) (by norm_num)]; linarith
    linarith
  have hinv : 2 < 1 / y := by
    rw [lt_div_iff₀ hy0]; linarith
  have hfrac : -1 < (T - 1) * (r + 1) / (r + 2) := by
    rw [lt_div_iff₀ (by linarith)]; nlinarith
  linarith

end Gama.Statan
