/-
  C07 — from the rows `project_equations` writes (index on first use, `runEvs`) to a design
  matrix, and the relation between the design matrices of two processing orders of the same
  observations: `A_τ = A_σ.submatrix ρ κ` with explicit equivalences, so that LS5
  (`IsLSSolution.perm`) applies to the generated problem.
-/
import Gama.Lemmas.C07Lin
import Gama.Lemmas.LS.Transform
namespace Gama.Lin
open Matrix

/-- one observation as `project_equations` sees it: who its roles are and the generated events -/
structure Ob (K : Type) where
  name : Role → Coord → Unk
  evs : List (Ev K)

/-- the pass over the (revised) observation list: the index state is threaded through -/
def runAll {K : Type} : List (Ob K) → IdxState → IdxState × List (List (Nat × K))
  | [], s => (s, [])
  | ob :: t, s =>
    let r := runEvs ob.name ob.evs s
    let r2 := runAll t r.1
    (r2.1, r.2 :: r2.2)

/-- the unknowns an observation allocates (in program order) -/
def touchedU {K : Type} (ob : Ob K) : List Unk := (touches ob.evs).map (fun rc => ob.name rc.1 rc.2)

/-! ### which unknowns have an index -/

theorem IdxState.touch_get_ne_zero (s : IdxState) (v u : Unk) :
    (s.touch v).get u ≠ 0 ↔ s.get u ≠ 0 ∨ u = v := by
  unfold IdxState.touch
  split
  · rename_i h0
    by_cases huv : v = u
    · subst huv; simp [IdxState.get]
    · have : ¬ u = v := fun e => huv e.symm
      simp [IdxState.get, huv, this]
  · rename_i h0
    constructor
    · exact fun h => Or.inl h
    · rintro (h | h)
      · exact h
      · subst h; exact h0

theorem runEvs_get_ne_zero {K : Type} (name : Role → Coord → Unk) (evs : List (Ev K)) :
    ∀ (s : IdxState) (u : Unk), (runEvs name evs s).1.get u ≠ 0 ↔
      s.get u ≠ 0 ∨ u ∈ (touches evs).map (fun rc => name rc.1 rc.2) := by
  induction evs with
  | nil => intro s u; simp [runEvs, touches]
  | cons e t ih =>
    intro s u
    cases e with
    | touch r c =>
      show (runEvs name t (s.touch (name r c))).1.get u ≠ 0 ↔ _
      rw [ih, IdxState.touch_get_ne_zero]
      simp only [touches, List.map_cons, List.mem_cons]
      tauto
    | push r c v =>
      show (runEvs name t s).1.get u ≠ 0 ↔ _
      rw [ih]; simp [touches]

theorem runEvs_pushed_ne_zero {K : Type} (name : Role → Coord → Unk) (evs : List (Ev K)) :
    ∀ (s : IdxState) (seen : List (Role × Coord)), (∀ rc ∈ seen, s.get (name rc.1 rc.2) ≠ 0) →
      wellTouched evs seen = true →
      ∀ p ∈ pushes evs, (runEvs name evs s).1.get (name p.1 p.2.1) ≠ 0 := by
  induction evs with
  | nil => intro s seen _ _ p hp; simp [pushes] at hp
  | cons e t ih =>
    intro s seen hseen hw p hp
    cases e with
    | touch r c =>
      have hw' : wellTouched t ((r, c) :: seen) = true := hw
      have hseen' : ∀ rc ∈ (r, c) :: seen, (s.touch (name r c)).get (name rc.1 rc.2) ≠ 0 := by
        intro rc hrc
        rw [IdxState.touch_get_ne_zero]
        rcases List.mem_cons.1 hrc with h0 | hm
        · right; rw [h0]
        · left; exact hseen rc hm
      exact ih (s.touch (name r c)) ((r, c) :: seen) hseen' hw' p hp
    | push r c v =>
      have hw' : (decide ((r, c) ∈ seen) && wellTouched t seen) = true := hw
      rw [Bool.and_eq_true] at hw'
      have hm : (r, c) ∈ seen := by simpa using hw'.1
      rcases List.mem_cons.1 (show p ∈ (r, c, v) :: pushes t from hp) with h0 | hm'
      · rw [h0]
        show (runEvs name t s).1.get (name r c) ≠ 0
        rw [runEvs_get_ne_zero]; exact Or.inl (hseen (r, c) hm)
      · exact ih s seen hseen hw'.2 p hm'

/-! ### the whole pass -/

theorem runAll_spec {K : Type} (L : List (Ob K)) :
    ∀ s : IdxState, s.WF → (∀ ob ∈ L, wellTouched ob.evs [] = true) →
      (runAll L s).1.WF ∧ (∀ u, s.get u ≠ 0 → (runAll L s).1.get u = s.get u) ∧
      (runAll L s).2 = L.map (fun ob => (pushes ob.evs).map
          (fun p => ((runAll L s).1.get (ob.name p.1 p.2.1), p.2.2))) ∧
      (∀ ob ∈ L, ∀ p ∈ pushes ob.evs, (runAll L s).1.get (ob.name p.1 p.2.1) ≠ 0) ∧
      (∀ u, (runAll L s).1.get u ≠ 0 ↔ s.get u ≠ 0 ∨ ∃ ob ∈ L, u ∈ touchedU ob) := by
  induction L with
  | nil => intro s h _; exact ⟨h, fun _ _ => rfl, rfl, by simp, by simp [runAll]⟩
  | cons ob t ih =>
    intro s h hw
    have hwo := hw ob (List.mem_cons_self ..)
    have hwt : ∀ o ∈ t, wellTouched o.evs [] = true := fun o ho => hw o (List.mem_cons_of_mem _ ho)
    obtain ⟨w1, _, st1⟩ := runEvs_wf ob.name ob.evs s h
    obtain ⟨w2, st2, rows2, nz2, iff2⟩ := ih (runEvs ob.name ob.evs s).1 w1 hwt
    have rows1 := runEvs_rows_final ob.name ob.evs s [] h (by simp) hwo
    have nz1 := runEvs_pushed_ne_zero ob.name ob.evs s [] (by simp) hwo
    have e : runAll (ob :: t) s = ((runAll t (runEvs ob.name ob.evs s).1).1,
        (runEvs ob.name ob.evs s).2 :: (runAll t (runEvs ob.name ob.evs s).1).2) := rfl
    rw [e]
    refine ⟨w2, fun u hu => ?_, ?_, ?_, fun u => ?_⟩
    · rw [st2 u (by rw [st1 u hu]; exact hu), st1 u hu]
    · simp only [List.map_cons]
      congr 1
      · rw [rows1]
        apply List.map_congr_left
        intro p hp
        rw [st2 _ (nz1 p hp)]
    · intro o ho p hp
      rcases List.mem_cons.1 ho with h0 | hm
      · subst h0; rw [st2 _ (nz1 p hp)]; exact nz1 p hp
      · exact nz2 o hm p hp
    · simp only
      rw [iff2, runEvs_get_ne_zero]
      simp only [List.exists_mem_cons_iff]
      unfold touchedU
      tauto

/-! ### the index table as a bijection -/

/- `get_mem'`, `get_inj'`, `tab_length_eq_maxn`, `codeMatrixOf`: C05 has `IdxState.get_mem`, `get_inj`,
   `maxn_eq_length` (Lemmas/LinAssemble.lean) and `Lin.codeMatrix` (Model/LinPass.lean, the list form);
   the names differ so that `Props/C05.lean` and `Props/C07.lean` can be imported together. -/
theorem IdxState.get_mem' {s : IdxState} {u : Unk} (hu : s.get u ≠ 0) : (u, s.get u) ∈ s.tab := by
  unfold IdxState.get at hu ⊢
  cases hf : s.tab.find? (fun e => e.1 = u) with
  | none => simp [hf] at hu
  | some e =>
    have hm := List.mem_of_find?_eq_some hf
    have hk : e.1 = u := by simpa using List.find?_some hf
    simp only
    rw [← hk]; exact hm

theorem IdxState.get_inj' {s : IdxState} (h : s.WF) {u u' : Unk} (hu : s.get u ≠ 0) (e : s.get u = s.get u') :
    u = u' := by
  have m1 := IdxState.get_mem' hu
  have m2 := IdxState.get_mem' (u := u') (by rw [← e]; exact hu)
  have hnd : (s.tab.map Prod.snd).Nodup := by rw [h.vals]; exact List.nodup_reverse.2 (List.nodup_range' ..)
  have := List.inj_on_of_nodup_map hnd m1 m2 (by simp [e])
  exact (Prod.mk.inj this).1

theorem IdxState.tab_length_eq_maxn {s : IdxState} (h : s.WF) : s.tab.length = s.maxn := by
  have := congrArg List.length h.vals
  simpa using this

theorem IdxState.init_get (u : Unk) : IdxState.init.get u = 0 := rfl

/-- for a well-formed table whose indexed unknowns are exactly `T`: `u ↦ index(u) - 1` is a
    bijection of `T` onto `Fin maxn` (the columns of the design matrix) -/
noncomputable def colEquiv (s : IdxState) (h : s.WF) (T : Finset Unk) (hT : ∀ u, s.get u ≠ 0 ↔ u ∈ T) :
    {u // u ∈ T} ≃ Fin s.maxn :=
  Equiv.ofBijective
    (fun u => ⟨s.get u.1 - 1, by
      have h1 := IdxState.get_pos_le h u.1
      have h2 := (hT u.1).2 u.2
      omega⟩)
    (by
      rw [Fintype.bijective_iff_injective_and_card]
      constructor
      · intro u u' e
        have h2 := (hT u.1).2 u.2
        have h3 := (hT u'.1).2 u'.2
        have e' : s.get u.1 - 1 = s.get u'.1 - 1 := by simpa using congrArg Fin.val e
        exact Subtype.ext (IdxState.get_inj' h h2 (by omega))
      · rw [Fintype.card_coe, Fintype.card_fin]
        have hTe : T = (s.tab.map Prod.fst).toFinset := by
          ext u
          rw [← hT u, List.mem_toFinset]
          have := IdxState.get_eq_zero_iff h u
          constructor
          · intro hne; by_contra hc; exact hne (this.2 hc)
          · intro hm hz; exact (this.1 hz) hm
        rw [hTe, List.toFinset_card_of_nodup h.keys, List.length_map, IdxState.tab_length_eq_maxn h])

theorem colEquiv_get (s : IdxState) (h : s.WF) (T : Finset Unk) (hT : ∀ u, s.get u ≠ 0 ↔ u ∈ T) (j : Fin s.maxn) :
    s.get ((colEquiv s h T hT).symm j).1 = j.1 + 1 := by
  have e' : s.get ((colEquiv s h T hT).symm j).1 - 1 = j.1 :=
    congrArg Fin.val ((colEquiv s h T hT).apply_symm_apply j)
  have h2 := (hT ((colEquiv s h T hT).symm j).1).2 ((colEquiv s h T hT).symm j).2
  omega

/-! ### design matrices of two processing orders -/

section Order
variable {K : Type} [Field K] {m : Nat} (obs : Fin m → Ob K)

/-- the observation list in the order `σ` (row `r` of the pass is observation `σ r`) -/
def orderList (σ : Equiv.Perm (Fin m)) : List (Ob K) := List.ofFn (fun r => obs (σ r))
def finalState (σ : Equiv.Perm (Fin m)) : IdxState := (runAll (orderList obs σ) IdxState.init).1
def rowsOf (σ : Equiv.Perm (Fin m)) : List (List (Nat × K)) := (runAll (orderList obs σ) IdxState.init).2

/-- all unknowns some observation allocates: independent of the order -/
def touchedSet : Finset Unk := Finset.univ.biUnion (fun i => (touchedU (obs i)).toFinset)

/-- entry `k` of a sparse row (`A(row, index[i]) = coeff[i]`; a repeated index adds up) -/
def rowCoef (row : List (Nat × K)) (k : Nat) : K := ((row.filter (fun e => e.1 = k)).map Prod.snd).sum

/-- the design matrix `project_equations` builds when the observations are processed in order `σ` -/
def codeMatrixOf (σ : Equiv.Perm (Fin m)) : Matrix (Fin m) (Fin (finalState obs σ).maxn) K :=
  fun r j => rowCoef ((rowsOf obs σ).getD r []) (j.1 + 1)

/-- coefficient of the unknown `u` in an observation, by identity -/
def identCoef (ob : Ob K) (u : Unk) : K :=
  (((pushes ob.evs).filter (fun p => ob.name p.1 p.2.1 = u)).map (fun p => p.2.2)).sum

/-- the order-free design matrix: rows = observations, columns = allocated unknowns -/
def identMatrix : Matrix (Fin m) {u // u ∈ touchedSet obs} K := fun i u => identCoef (obs i) u.1

variable (hw : ∀ i, wellTouched (obs i).evs [] = true)
include hw

theorem orderList_wt (σ : Equiv.Perm (Fin m)) : ∀ ob ∈ orderList obs σ, wellTouched ob.evs [] = true := by
  intro ob hob
  obtain ⟨r, rfl⟩ := (List.mem_ofFn' _ _).1 hob
  exact hw (σ r)

theorem finalState_wf (σ : Equiv.Perm (Fin m)) : (finalState obs σ).WF :=
  (runAll_spec (orderList obs σ) IdxState.init IdxState.wf_init (orderList_wt obs hw σ)).1

theorem finalState_get (σ : Equiv.Perm (Fin m)) (u : Unk) : (finalState obs σ).get u ≠ 0 ↔ u ∈ touchedSet obs := by
  have := (runAll_spec (orderList obs σ) IdxState.init IdxState.wf_init (orderList_wt obs hw σ)).2.2.2.2 u
  unfold finalState
  rw [this]
  simp only [IdxState.init_get, ne_eq, not_true_eq_false, false_or, touchedSet, Finset.mem_biUnion, Finset.mem_univ,
    true_and, List.mem_toFinset]
  constructor
  · rintro ⟨ob, hob, hu⟩
    obtain ⟨r, rfl⟩ := (List.mem_ofFn' _ _).1 hob
    exact ⟨σ r, hu⟩
  · rintro ⟨i, hu⟩
    exact ⟨obs i, (List.mem_ofFn' _ _).2 ⟨σ.symm i, by simp⟩, hu⟩

/-- columns of the order-`σ` matrix ↔ allocated unknowns -/
noncomputable def colEq (σ : Equiv.Perm (Fin m)) : {u // u ∈ touchedSet obs} ≃ Fin (finalState obs σ).maxn :=
  colEquiv (finalState obs σ) (finalState_wf obs hw σ) (touchedSet obs) (finalState_get obs hw σ)

/-- the matrix the code builds in order `σ` is the order-free matrix with rows permuted by `σ` and
    columns numbered by the final index table -/
theorem codeMatrixOf_eq (σ : Equiv.Perm (Fin m)) :
    codeMatrixOf obs σ = (identMatrix obs).submatrix σ (colEq obs hw σ).symm := by
  ext r j
  obtain ⟨_, _, hrows, hnz, _⟩ := runAll_spec (orderList obs σ) IdxState.init IdxState.wf_init (orderList_wt obs hw σ)
  have hr : (rowsOf obs σ).getD r [] = (pushes (obs (σ r)).evs).map
      (fun p => ((finalState obs σ).get ((obs (σ r)).name p.1 p.2.1), p.2.2)) := by
    unfold rowsOf finalState
    rw [hrows, List.getD_eq_getElem?_getD, List.getElem?_map]
    simp [orderList, List.getElem?_ofFn]
  simp only [codeMatrixOf, submatrix_apply, identMatrix, identCoef, rowCoef, hr, List.filter_map, List.map_map]
  congr 1
  have hfil : (pushes (obs (σ r)).evs).filter
      ((fun e : Nat × K => decide (e.1 = j.1 + 1)) ∘ fun p => ((finalState obs σ).get ((obs (σ r)).name p.1 p.2.1), p.2.2)) =
      (pushes (obs (σ r)).evs).filter (fun p => decide ((obs (σ r)).name p.1 p.2.1 = ((colEq obs hw σ).symm j).1)) := by
    apply List.filter_congr
    intro p hp
    have hne : (finalState obs σ).get ((obs (σ r)).name p.1 p.2.1) ≠ 0 :=
      hnz (obs (σ r)) ((List.mem_ofFn' _ _).2 ⟨r, rfl⟩) p hp
    have hg := colEquiv_get (finalState obs σ) (finalState_wf obs hw σ) (touchedSet obs) (finalState_get obs hw σ) j
    simp only [Function.comp, decide_eq_decide]
    constructor
    · intro e
      exact IdxState.get_inj' (finalState_wf obs hw σ) hne (by rw [e]; exact hg.symm)
    · intro e
      rw [e]; exact hg
  rw [hfil]
  rfl

/-- the design matrices of two processing orders of the same observations differ by the row
    permutation `ρ = τ then σ⁻¹` and the column renumbering `κ = index_σ ∘ index_τ⁻¹` -/
theorem codeMatrixOf_perm (σ τ : Equiv.Perm (Fin m)) :
    codeMatrixOf obs τ = (codeMatrixOf obs σ).submatrix (τ.trans σ.symm) ((colEq obs hw τ).symm.trans (colEq obs hw σ)) := by
  rw [codeMatrixOf_eq obs hw σ, codeMatrixOf_eq obs hw τ]
  ext r j
  simp

end Order

end Gama.Lin
