/-
  C16: the constructor of `SparseMatrixGraph` (model `Gama.graphOf`, Gama/Model/Graph.lean)
  builds the column graph of a well-formed sparse matrix: `j` is listed as a neighbour of `i`
  iff `i ≠ j` and both column indices occur in one row; neighbour lists are strictly
  increasing (the iteration order of `std::set<pair>`), in range, symmetric, loop free.

  Main results: `graphOf_nodes`, `graphOf_nbrs_iff`, `graphOf_adjOf`, `graphOf_inRange`,
  `graphOf_sym`, `graphOf_loopfree`, `graphOf_nbrs_sorted`, `graphOf_nbrs_nodup`.

  Structure of the proof
  * `pairLt` is a strict total order; `insertPair` keeps a `pairLt`-sorted list sorted and adds
    exactly one element (`std::set::insert`);
  * `mem_edgeSet`, `edgeSet_psorted`: contents and order of the edge set;
  * `adjOfEdges_nbrs`: the fill loop cuts a list sorted by first component into the segments
    `edgeSeg edges i` (loop invariant `FillInv`).
-/
import Gama.Lemmas.SparseCountingSort
import Gama.Lemmas.EnvelopeProfile

set_option autoImplicit false

namespace Gama

/-! sanity -/
example : let g := graphOf (SMat.ofRows 2 3 [[(1,()),(3,())],[(3,()),(2,())]] [])
    (g.nodes, g.xadj, g.adjncy) = (3, #[0,0,1,2,4], #[3,3,1,2]) := by decide
example : (graphOf (SMat.ofRows 2 3 [[(1,()),(3,())],[(3,()),(2,())]] [])).nbrs 3 = [1,2] := by decide

/-! ### `pairLt` is a strict total order -/

theorem pairLt_iff (a b : Nat × Nat) : pairLt a b = true ↔ a.1 < b.1 ∨ (a.1 = b.1 ∧ a.2 < b.2) := by
  simp [pairLt]

theorem pairLt_trans {a b c : Nat × Nat} (h1 : pairLt a b = true) (h2 : pairLt b c = true) :
    pairLt a c = true := by
  rw [pairLt_iff] at *; omega

theorem pairLt_tri {a b : Nat × Nat} (h1 : ¬ pairLt a b = true) (h2 : ¬ pairLt b a = true) :
    a = b := by
  rw [pairLt_iff] at *
  apply Prod.ext <;> omega

theorem pairLt_fst_le {a b : Nat × Nat} (h : pairLt a b = true) : a.1 ≤ b.1 := by
  rw [pairLt_iff] at h; omega

/-- strictly sorted w.r.t. `pairLt`: the representation of `std::set<pair>` -/
def PSorted (l : List (Nat × Nat)) : Prop := l.Pairwise (fun a b => pairLt a b = true)

theorem mem_insertPair (p q : Nat × Nat) : ∀ l : List (Nat × Nat),
    q ∈ insertPair p l ↔ q = p ∨ q ∈ l
  | [] => by simp [insertPair]
  | r :: l => by
    unfold insertPair
    by_cases h1 : pairLt p r = true
    · simp [h1]
    · by_cases h2 : pairLt r p = true
      · rw [if_neg h1, if_pos h2]
        simp only [List.mem_cons, mem_insertPair p q l]
        tauto
      · rw [if_neg h1, if_neg h2]
        have := pairLt_tri h1 h2
        subst this
        simp only [List.mem_cons]
        tauto

theorem psorted_insertPair (p : Nat × Nat) : ∀ l : List (Nat × Nat),
    PSorted l → PSorted (insertPair p l)
  | [], _ => by simp [insertPair, PSorted]
  | r :: l, hs => by
    unfold insertPair
    have hs' := List.pairwise_cons.1 hs
    by_cases h1 : pairLt p r = true
    · rw [if_pos h1]
      refine List.pairwise_cons.2 ⟨?_, hs⟩
      intro a ha
      rcases List.mem_cons.1 ha with e | ha
      · exact e ▸ h1
      · exact pairLt_trans h1 (hs'.1 a ha)
    · by_cases h2 : pairLt r p = true
      · rw [if_neg h1, if_pos h2]
        refine List.pairwise_cons.2 ⟨?_, psorted_insertPair p l hs'.2⟩
        intro a ha
        rcases (mem_insertPair p a l).1 ha with e | ha
        · exact e ▸ h2
        · exact hs'.1 a ha
      · rw [if_neg h1, if_neg h2]; exact hs

/-! ### the edge set -/

theorem edgesFrom_spec (ci : Nat) (q : Nat × Nat) : ∀ (rest : List Nat) (es : List (Nat × Nat)),
    (PSorted es → PSorted (edgesFrom ci rest es)) ∧
    (q ∈ edgesFrom ci rest es ↔ q ∈ es ∨ ∃ cj ∈ rest, ci ≠ cj ∧ (q = (ci, cj) ∨ q = (cj, ci)))
  | [], es => by simp [edgesFrom]
  | cj :: rest, es => by
    have ih := edgesFrom_spec ci q rest
      (if ci != cj then insertPair (cj, ci) (insertPair (ci, cj) es) else es)
    have hunf : edgesFrom ci (cj :: rest) es = edgesFrom ci rest
      (if ci != cj then insertPair (cj, ci) (insertPair (ci, cj) es) else es) := rfl
    rw [hunf]
    by_cases h : ci = cj
    · subst h
      simp only [bne_self_eq_false, Bool.false_eq_true, if_false] at ih ⊢
      refine ⟨ih.1, ih.2.trans ?_⟩
      simp only [List.mem_cons]
      constructor
      · rintro (h | ⟨c, hc, h⟩)
        · exact Or.inl h
        · exact Or.inr ⟨c, Or.inr hc, h⟩
      · rintro (h | ⟨c, hc | hc, h⟩)
        · exact Or.inl h
        · exact absurd hc.symm h.1
        · exact Or.inr ⟨c, hc, h⟩
    · have hb : (ci != cj) = true := by simpa using h
      simp only [hb, if_true] at ih ⊢
      refine ⟨fun hs => ih.1 (psorted_insertPair _ _ (psorted_insertPair _ _ hs)), ih.2.trans ?_⟩
      simp only [mem_insertPair, List.mem_cons]
      constructor
      · rintro ((h' | h' | h') | ⟨c, hc, h'⟩)
        · exact Or.inr ⟨cj, Or.inl rfl, h, Or.inr h'⟩
        · exact Or.inr ⟨cj, Or.inl rfl, h, Or.inl h'⟩
        · exact Or.inl h'
        · exact Or.inr ⟨c, Or.inr hc, h'⟩
      · rintro (h' | ⟨c, hc | hc, h'⟩)
        · exact Or.inl (Or.inr (Or.inr h'))
        · subst hc
          rcases h'.2 with e | e
          · exact Or.inl (Or.inr (Or.inl e))
          · exact Or.inl (Or.inl e)
        · exact Or.inr ⟨c, hc, h'⟩

theorem rowEdges_spec (q : Nat × Nat) : ∀ (cs : List Nat) (es : List (Nat × Nat)),
    (PSorted es → PSorted (rowEdges cs es)) ∧
    (q ∈ rowEdges cs es ↔ q ∈ es ∨ (q.1 ≠ q.2 ∧ q.1 ∈ cs ∧ q.2 ∈ cs))
  | [], es => by simp [rowEdges]
  | ci :: rest, es => by
    have ih := rowEdges_spec q rest (edgesFrom ci rest es)
    have he := edgesFrom_spec ci q rest es
    have hunf : rowEdges (ci :: rest) es = rowEdges rest (edgesFrom ci rest es) := rfl
    rw [hunf]
    refine ⟨fun hs => ih.1 (he.1 hs), ih.2.trans ?_⟩
    rw [he.2]
    simp only [List.mem_cons]
    obtain ⟨a, b⟩ := q
    simp only [Prod.mk.injEq]
    constructor
    · rintro ((h | ⟨c, hc, hne, (⟨rfl, rfl⟩ | ⟨rfl, rfl⟩)⟩) | ⟨hne, ha, hb⟩)
      · exact Or.inl h
      · exact Or.inr ⟨hne, Or.inl rfl, Or.inr hc⟩
      · exact Or.inr ⟨fun e => hne e.symm, Or.inr hc, Or.inl rfl⟩
      · exact Or.inr ⟨hne, Or.inr ha, Or.inr hb⟩
    · rintro (h | ⟨hne, ha | ha, hb | hb⟩)
      · exact Or.inl (Or.inl h)
      · exact absurd (ha.trans hb.symm) hne
      · subst ha; exact Or.inl (Or.inr ⟨b, hb, hne, Or.inl ⟨rfl, rfl⟩⟩)
      · subst hb; exact Or.inl (Or.inr ⟨a, ha, fun e => hne e.symm, Or.inr ⟨rfl, rfl⟩⟩)
      · exact Or.inr ⟨hne, ha, hb⟩

theorem foldRowEdges_spec (f : Nat → List Nat) (q : Nat × Nat) (rs : List Nat) :
    ∀ (es : List (Nat × Nat)),
    (PSorted es → PSorted (rs.foldl (fun es k => rowEdges (f k) es) es)) ∧
    (q ∈ rs.foldl (fun es k => rowEdges (f k) es) es ↔
      q ∈ es ∨ ∃ k ∈ rs, q.1 ≠ q.2 ∧ q.1 ∈ f k ∧ q.2 ∈ f k) := by
  induction rs with
  | nil => intro es; simp
  | cons k rs ih =>
    intro es
    have ih := ih (rowEdges (f k) es)
    have hr := rowEdges_spec q (f k) es
    rw [List.foldl_cons]
    refine ⟨fun hs => ih.1 (hr.1 hs), ih.2.trans ?_⟩
    rw [hr.2]
    constructor
    · rintro ((h | h) | ⟨k', hk', h⟩)
      · exact Or.inl h
      · exact Or.inr ⟨k, List.mem_cons_self, h⟩
      · exact Or.inr ⟨k', List.mem_cons_of_mem _ hk', h⟩
    · rintro (h | ⟨k', hk', h⟩)
      · exact Or.inl (Or.inl h)
      · rcases List.mem_cons.1 hk' with e | hk'
        · subst e; exact Or.inl (Or.inr h)
        · exact Or.inr ⟨k', hk', h⟩

theorem edgeSet_psorted {K : Type} (A : SMat K) : PSorted (edgeSet A) :=
  (foldRowEdges_spec A.rowCols (0, 0) _ []).1 List.Pairwise.nil

theorem mem_edgeSet {K : Type} (A : SMat K) (a b : Nat) :
    (a, b) ∈ edgeSet A ↔ a ≠ b ∧ ∃ r, 1 ≤ r ∧ r ≤ A.rows ∧ a ∈ A.rowCols r ∧ b ∈ A.rowCols r := by
  unfold edgeSet
  rw [(foldRowEdges_spec A.rowCols (a, b) _ []).2]
  simp only [List.not_mem_nil, false_or, List.mem_range'_1]
  constructor
  · rintro ⟨r, hr, hne, ha, hb⟩; exact ⟨hne, r, hr.1, by omega, ha, hb⟩
  · rintro ⟨hne, r, h1, h2, ha, hb⟩; exact ⟨r, ⟨h1, by omega⟩, hne, ha, hb⟩

/-! ### the fill loop -/

/-- the neighbours of node `i` as the `std::set` lists them -/
def edgeSeg (edges : List (Nat × Nat)) (i : Nat) : List Nat :=
  (edges.filter (fun p => p.1 == i)).map Prod.snd

theorem takeDropWhile_fst (idx : Nat) : ∀ (l : List (Nat × Nat)),
    l.Pairwise (fun a b => a.1 ≤ b.1) → (∀ p ∈ l, idx ≤ p.1) →
    l.takeWhile (fun p => idx == p.1) = l.filter (fun p => p.1 == idx) ∧
    l.dropWhile (fun p => idx == p.1) = l.filter (fun p => decide (idx < p.1))
  | [], _, _ => by simp
  | (a, b) :: l, hs, hge => by
    have hs' := List.pairwise_cons.1 hs
    have hp : idx ≤ a := hge (a, b) List.mem_cons_self
    by_cases e : a = idx
    · have ih := takeDropWhile_fst idx l hs'.2 (fun q hq => hge q (List.mem_cons_of_mem _ hq))
      subst e
      simp [ih.1, ih.2]
    · have hlt : idx < a := by omega
      have h1 : (idx == a) = false := by simp; omega
      have hall : ∀ q ∈ (a, b) :: l, idx < q.1 := by
        intro q hq
        rcases List.mem_cons.1 hq with e' | hq
        · rw [e']; exact hlt
        · have := hs'.1 q hq; simp only at this; omega
      rw [List.takeWhile_cons, List.dropWhile_cons]
      simp only [h1, Bool.false_eq_true, if_false]
      refine ⟨?_, ?_⟩
      · symm; rw [List.filter_eq_nil_iff]
        intro q hq; have := hall q hq; simp; omega
      · symm; rw [List.filter_eq_self]
        intro q hq; simpa using hall q hq

theorem getElemBang_append_left {α : Type} [Inhabited α] (a b : Array α) (p : Nat)
    (h : p < a.size) : (a ++ b)[p]! = a[p]! := by
  simp only [getElem!_def, Array.getElem?_append_left h]

theorem getElemBang_append_right {α : Type} [Inhabited α] (a b : Array α) (j : Nat) :
    (a ++ b)[a.size + j]! = b[j]! := by
  simp only [getElem!_def, Array.getElem?_append_right (Nat.le_add_right _ _)]
  simp

theorem map_range'_append (a : Array Nat) (l : List Nat) :
    (List.range' a.size l.length).map (fun p => (a ++ l.toArray)[p]!) = l := by
  apply List.ext_getElem
  · simp
  · intro j h1 h2
    simp only [List.getElem_map, List.getElem_range', Nat.one_mul]
    rw [getElemBang_append_right]
    simp [h2]

/-- invariant of the fill loop after `index = 1..k` -/
structure FillInv (edges : List (Nat × Nat)) (nodes k : Nat) (s : FillState) : Prop where
  rest : s.rest = edges.filter (fun p => decide (k < p.1))
  xsize : s.xadj.size = max (nodes + 2) 3
  top : s.xadj[k+1]! = s.adjncy.size
  bound : ∀ i, 1 ≤ i → i ≤ k → s.xadj[i+1]! ≤ s.adjncy.size
  seg : ∀ i, 1 ≤ i → i ≤ k →
    (List.range' s.xadj[i]! (s.xadj[i+1]! - s.xadj[i]!)).map (fun p => s.adjncy[p]!) = edgeSeg edges i

theorem fillStep_inv {edges : List (Nat × Nat)} {nodes k : Nat} {s : FillState}
    (hs : edges.Pairwise (fun a b => a.1 ≤ b.1)) (J : FillInv edges nodes k s) (hk : k + 1 ≤ nodes) :
    FillInv edges nodes (k + 1) (fillStep s (k + 1)) := by
  -- the iterator
  have hrs : s.rest.Pairwise (fun a b => a.1 ≤ b.1) := by rw [J.rest]; exact hs.filter _
  have hrge : ∀ p ∈ s.rest, k + 1 ≤ p.1 := by
    intro p hp; rw [J.rest, List.mem_filter] at hp; have := hp.2; simp at this; omega
  obtain ⟨htake, hdrop⟩ := takeDropWhile_fst (k + 1) s.rest hrs hrge
  have htake' : (s.rest.takeWhile (fun p => k + 1 == p.1)).map Prod.snd = edgeSeg edges (k + 1) := by
    rw [htake, J.rest, List.filter_filter]; unfold edgeSeg
    congr 1; apply List.filter_congr; intro p _
    by_cases e : p.1 = k + 1 <;> simp [e]
  have hdrop' : s.rest.dropWhile (fun p => k + 1 == p.1)
      = edges.filter (fun p => decide (k + 1 < p.1)) := by
    rw [hdrop, J.rest, List.filter_filter]
    apply List.filter_congr; intro p _
    by_cases e : k + 1 < p.1
    · have : k < p.1 := by omega
      simp [e, this]
    · simp [e]
  -- the arrays
  have hsz := J.xsize
  have hx : ∀ i, (fillStep s (k + 1)).xadj[i]! =
      if i = k + 2 then (fillStep s (k + 1)).adjncy.size else s.xadj[i]! := by
    intro i
    show ((s.xadj.setIfInBounds (k + 1) s.adjncy.size).setIfInBounds (k + 1 + 1) _)[i]! = _
    rw [SMat.getElemBang_setIfInBounds, SMat.getElemBang_setIfInBounds]
    simp only [Array.size_setIfInBounds]
    by_cases e : i = k + 2
    · subst e
      have : k + 2 < s.xadj.size := by omega
      rw [if_pos (And.intro rfl this), if_pos rfl]; rfl
    · have e' : ¬ (k + 1 + 1 = i ∧ i < s.xadj.size) := by omega
      rw [if_neg e', if_neg e]
      by_cases e2 : k + 1 = i ∧ i < s.xadj.size
      · rw [if_pos e2, ← e2.1, J.top]
      · rw [if_neg e2]
  have ha : (fillStep s (k + 1)).adjncy = s.adjncy ++ (edgeSeg edges (k + 1)).toArray := by
    show s.adjncy ++ ((s.rest.takeWhile (fun p => k + 1 == p.1)).map Prod.snd).toArray = _
    rw [htake']
  have hasz : (fillStep s (k + 1)).adjncy.size = s.adjncy.size + (edgeSeg edges (k + 1)).length := by
    rw [ha]; simp
  refine ⟨hdrop', ?_, ?_, ?_, ?_⟩
  · show ((s.xadj.setIfInBounds (k + 1) s.adjncy.size).setIfInBounds (k + 1 + 1) _).size = _
    simp [hsz]
  · rw [hx, if_pos rfl]
  · intro i h1 h2
    rw [hx]
    by_cases e : i + 1 = k + 2
    · rw [if_pos e]
    · rw [if_neg e, hasz]
      have := J.bound i h1 (by omega); omega
  · intro i h1 h2
    rw [hx i, hx (i + 1), if_neg (by omega)]
    by_cases e : i = k + 1
    · subst e
      rw [if_pos rfl, J.top, hasz, Nat.add_sub_cancel_left, ha]
      exact map_range'_append _ _
    · rw [if_neg (by omega), ← J.seg i h1 (by omega)]
      apply List.map_congr_left
      intro p hp
      rw [List.mem_range'_1] at hp
      have := J.bound i h1 (by omega)
      rw [ha, getElemBang_append_left _ _ _ (by omega)]

theorem fillLoop_inv {edges : List (Nat × Nat)} {nodes : Nat}
    (hs : edges.Pairwise (fun a b => a.1 ≤ b.1)) : ∀ (d k : Nat) (s : FillState),
    FillInv edges nodes k s → k + d ≤ nodes →
    FillInv edges nodes (k + d) ((List.range' (k + 1) d).foldl fillStep s)
  | 0, _, _, J, _ => J
  | d + 1, k, s, J, h => by
    rw [List.range'_succ, List.foldl_cons, show k + (d + 1) = (k + 1) + d by omega]
    exact fillLoop_inv hs d (k + 1) _ (fillStep_inv hs J (by omega)) (by omega)

/-- the adjacency structure built from a sorted edge list lists, for every node, the second
    components of the pairs starting with this node, in order -/
theorem adjOfEdges_nbrs (nodes : Nat) (edges : List (Nat × Nat))
    (hs : edges.Pairwise (fun a b => a.1 ≤ b.1)) (h1 : ∀ p ∈ edges, 1 ≤ p.1)
    (i : Nat) (hi : 1 ≤ i) (hi' : i ≤ nodes) :
    (adjOfEdges nodes edges).nbrs i = edgeSeg edges i := by
  have J0 : FillInv edges nodes 0
      { rest := edges, xadj := Array.replicate (max (nodes + 2) 3) 0, adjncy := #[] } := by
    refine ⟨?_, by simp, ?_, fun i a b => by omega, fun i a b => by omega⟩
    · symm; rw [List.filter_eq_self]; intro p hp; have := h1 p hp; simp; omega
    · have : 1 < max (nodes + 2) 3 := by omega
      simp [this]
  have J := fillLoop_inv hs nodes 0 _ J0 (by omega)
  rw [Nat.zero_add] at J
  exact J.seg i hi hi'

theorem mem_edgeSeg (edges : List (Nat × Nat)) (i j : Nat) :
    j ∈ edgeSeg edges i ↔ (i, j) ∈ edges := by
  unfold edgeSeg
  simp only [List.mem_map, List.mem_filter, beq_iff_eq]
  constructor
  · rintro ⟨⟨a, b⟩, ⟨hm, rfl⟩, rfl⟩; exact hm
  · intro h; exact ⟨(i, j), ⟨h, rfl⟩, rfl⟩

theorem edgeSeg_sorted (edges : List (Nat × Nat)) (hs : PSorted edges) (i : Nat) :
    (edgeSeg edges i).Pairwise (· < ·) := by
  unfold edgeSeg
  rw [List.pairwise_map]
  have h1 : (edges.filter (fun p => p.1 == i)).Pairwise (fun a b => pairLt a b = true) :=
    List.Pairwise.filter _ hs
  have h2 : ∀ p ∈ edges.filter (fun p => p.1 == i), p.1 = i := by
    intro p hp; simpa using (List.mem_filter.1 hp).2
  refine List.Pairwise.imp_of_mem ?_ h1
  intro a b ha hb hab
  have := h2 a ha; have := h2 b hb
  rw [pairLt_iff] at hab; omega

/-! ### the graph of a well-formed sparse matrix -/

section Graph
variable {K : Type}

theorem graphOf_nodes (A : SMat K) : (graphOf A).nodes = A.cols := rfl

/-- the neighbour list of node `i` is the `i`-segment of the (sorted) edge set -/
theorem graphOf_nbrs_eq (A : SMat K) (h : A.WF) (i : Nat) (hi : 1 ≤ i) (hi' : i ≤ A.cols) :
    (graphOf A).nbrs i = edgeSeg (edgeSet A) i := by
  unfold graphOf
  apply adjOfEdges_nbrs _ _ _ _ i hi hi'
  · exact (edgeSet_psorted A).imp (fun hab => pairLt_fst_le hab)
  · rintro ⟨a, b⟩ hp
    obtain ⟨_, r, h1, h2, ha, _⟩ := (mem_edgeSet A a b).1 hp
    exact (Env.rowCols_range h h1 h2 ha).1

theorem graphOf_nbrs_iff (A : SMat K) (h : A.WF) (i j : Nat) (hi : 1 ≤ i) (hi' : i ≤ A.cols) :
    j ∈ (graphOf A).nbrs i ↔
      i ≠ j ∧ ∃ r, 1 ≤ r ∧ r ≤ A.rows ∧ i ∈ A.rowCols r ∧ j ∈ A.rowCols r := by
  rw [graphOf_nbrs_eq A h i hi hi', mem_edgeSeg, mem_edgeSet]

theorem graphOf_adjOf (A : SMat K) (h : A.WF) : Env.AdjOf A (graphOf A) :=
  fun i j hi hi' => graphOf_nbrs_iff A h i j hi hi'

theorem graphOf_inRange (A : SMat K) (h : A.WF) : (graphOf A).InRange := by
  intro i hi hi' j hj
  rw [graphOf_nodes] at hi' ⊢
  obtain ⟨_, r, h1, h2, _, hjr⟩ := (graphOf_nbrs_iff A h i j hi hi').1 hj
  exact Env.rowCols_range h h1 h2 hjr

theorem graphOf_sym (A : SMat K) (h : A.WF) : (graphOf A).Sym := by
  intro i j hi hi' hj hj' hm
  rw [graphOf_nodes] at hi' hj'
  obtain ⟨hne, r, h1, h2, hir, hjr⟩ := (graphOf_nbrs_iff A h i j hi hi').1 hm
  exact (graphOf_nbrs_iff A h j i hj hj').2 ⟨fun e => hne e.symm, r, h1, h2, hjr, hir⟩

theorem graphOf_loopfree (A : SMat K) (h : A.WF) (i : Nat) (hi : 1 ≤ i) (hi' : i ≤ A.cols) :
    i ∉ (graphOf A).nbrs i :=
  fun hm => ((graphOf_nbrs_iff A h i i hi hi').1 hm).1 rfl

/-- the order in which `std::set` iterates: strictly increasing, hence no duplicates -/
theorem graphOf_nbrs_sorted (A : SMat K) (h : A.WF) (i : Nat) (hi : 1 ≤ i) (hi' : i ≤ A.cols) :
    ((graphOf A).nbrs i).Pairwise (· < ·) := by
  rw [graphOf_nbrs_eq A h i hi hi']
  exact edgeSeg_sorted _ (edgeSet_psorted A) i

theorem graphOf_nbrs_nodup (A : SMat K) (h : A.WF) (i : Nat) (hi : 1 ≤ i) (hi' : i ≤ A.cols) :
    ((graphOf A).nbrs i).Nodup :=
  (graphOf_nbrs_sorted A h i hi hi').imp (fun hab => Nat.ne_of_lt hab)

end Graph

end Gama
