/-
  ℝ as an instance of the scalar signatures of the geodetic/statistical models
  (`Scalar`, `Transc`, `Trunc`), with Mathlib's functions: `Real.sqrt`, `Real.sin`, …,
  `atan2 y x := Complex.arg (x + y i)`, `trunc` = truncation toward zero.
  Theorems of C17/C18 are about the models instantiated here.
-/
import Mathlib.Analysis.SpecialFunctions.Trigonometric.Arctan
import Mathlib.Analysis.SpecialFunctions.Complex.Arg
import Mathlib.Analysis.SpecialFunctions.Pow.Real
import Mathlib.Analysis.SpecialFunctions.Sqrt
import Gama.Model.GeoScalar
import Gama.Lemmas.RealScalar
namespace Gama

/- `Scalar ℝ` (`Gama.instScalarReal`) is declared once, in `Lemmas/RealScalar.lean`, shared with the
   C05/C06/C07 and C09 lemma files. -/

noncomputable instance instTranscReal : Transc ℝ where
  sin := Real.sin
  cos := Real.cos
  atan := Real.arctan
  atan2 := fun y x => Complex.arg ⟨x, y⟩
  exp := Real.exp
  log := Real.log
  pow := Real.rpow
  pi := Real.pi

noncomputable instance instTruncReal : Trunc ℝ where
  trunc := fun x => if 0 ≤ x then ⌊x⌋ else ⌈x⌉

section simp_lemmas
@[simp] theorem scalar_sqrt_real (x : ℝ) : Scalar.sqrt x = Real.sqrt x := rfl
@[simp] theorem scalar_ofNat_real (n : ℕ) : (Scalar.ofNat n : ℝ) = (n : ℝ) := rfl
@[simp] theorem scalar_abs_real (x : ℝ) : Scalar.abs x = |x| := rfl
theorem scalar_ofSci_real (m e : ℕ) : (Scalar.ofSci m true e : ℝ) = (m : ℝ) / (10 : ℝ) ^ e := by
  simp [Scalar.ofSci]
@[simp] theorem scalar_beq_real (a b : ℝ) : Scalar.beq a b = true ↔ a = b := by
  simp [Scalar.beq]
@[simp] theorem scalar_beq_real_false (a b : ℝ) : Scalar.beq a b = false ↔ a ≠ b := by
  simp [Scalar.beq]
@[simp] theorem transc_sin_real (x : ℝ) : Transc.sin x = Real.sin x := rfl
@[simp] theorem transc_cos_real (x : ℝ) : Transc.cos x = Real.cos x := rfl
@[simp] theorem transc_atan_real (x : ℝ) : Transc.atan x = Real.arctan x := rfl
@[simp] theorem transc_atan2_real (y x : ℝ) : Transc.atan2 y x = Complex.arg ⟨x, y⟩ := rfl
@[simp] theorem transc_exp_real (x : ℝ) : Transc.exp x = Real.exp x := rfl
@[simp] theorem transc_log_real (x : ℝ) : Transc.log x = Real.log x := rfl
@[simp] theorem transc_pow_real (x y : ℝ) : Transc.pow x y = x ^ y := rfl
@[simp] theorem transc_pi_real : (Transc.pi : ℝ) = Real.pi := rfl
end simp_lemmas

end Gama
