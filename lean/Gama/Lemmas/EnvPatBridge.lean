/-
  The column pattern `Ls.Env.homogenize` hands to the ordering (`Homog.pat`, Model/Ls/Env/Homog.lean), row by row,
  and the graph built from a list of row patterns — the Env-side half of "pattern of `Hom.run`'s sparse output =
  `hh.pat`" (the Hom-side half is Lemmas/HomRunExport.lean).  No dependency on C10's `Hom` lemma files.

    * `patOf_length`, `patOf_getD` : row `s` of `patOf` is row `s − off` of `blockPat` of the block `locate` finds;
    * `occOf_eq_insertNew`         : `Env.occOf` = `foldl Hom.insertNew` over the column indices in storage order;
    * `graphOf_eq_patGraph`        : a sparse matrix whose rows have the column lists `pat` has the graph `patGraph`.
-/
import Gama.Model.Homogenization
import Gama.Lemmas.Ls.ComposeHomog
import Gama.Lemmas.Ls.ComposeOrd

namespace Gama.Ls
open Gama.Ls.AdjM Gama.Ls.Env

set_option linter.unusedSectionVars false
set_option linter.unusedVariables false

section
variable {K : Type} [Scalar K]

theorem Env.blockPat_length (p : Problem K) (At : DMat K) (off : Nat) (b : CovBlock K) :
    (Env.blockPat p At off b).length = b.dim := by
  unfold Env.blockPat
  split <;> simp

theorem Env.patOf_length (p : Problem K) (At : DMat K) : ∀ (bs : List (CovBlock K)) (off : Nat),
    (Env.patOf p At bs off).length = (bs.map (·.dim)).sum
  | [], _ => rfl
  | b :: bs, off => by
    show (Env.blockPat p At off b ++ Env.patOf p At bs (off + b.dim)).length = _
    rw [List.length_append, Env.blockPat_length, Env.patOf_length p At bs, List.map_cons, List.sum_cons]

/-- row `s` of the pattern: the block `k` and offset `o` that `locate` finds, row `s − o` of that block's pattern -/
theorem Env.patOf_getD (p : Problem K) (At : DMat K) : ∀ (bs : List (CovBlock K)) (off s : Nat),
    s < (bs.map (·.dim)).sum →
    (Env.patOf p At bs off).getD s [] =
      (Env.blockPat p At (off + (AdjM.locate (bs.map (·.dim)) s).2)
        (bs.getD (AdjM.locate (bs.map (·.dim)) s).1 ⟨0, 0, #[]⟩)).getD (s - (AdjM.locate (bs.map (·.dim)) s).2) []
  | [], _, s => by intro h; simp at h
  | b :: bs, off, s => by
    intro hs
    rw [List.map_cons, List.sum_cons] at hs
    show (Env.blockPat p At off b ++ Env.patOf p At bs (off + b.dim)).getD s [] = _
    rw [List.map_cons, locate_cons]
    by_cases h : s < b.dim
    · rw [if_pos h]
      simp only [List.getD_cons_zero, Nat.add_zero, Nat.sub_zero]
      rw [List.getD_eq_getElem?_getD, List.getElem?_append_left (by rw [Env.blockPat_length]; exact h),
        ← List.getD_eq_getElem?_getD]
    · rw [if_neg h]
      simp only [List.getD_cons_succ]
      have hs' : s - b.dim < (bs.map (·.dim)).sum := by
        have : s < b.dim + (bs.map (·.dim)).sum := hs
        omega
      rw [List.getD_eq_getElem?_getD, List.getElem?_append_right (by rw [Env.blockPat_length]; omega),
        Env.blockPat_length, ← List.getD_eq_getElem?_getD, Env.patOf_getD p At bs (off + b.dim) (s - b.dim) hs']
      generalize (AdjM.locate (bs.map (·.dim)) (s - b.dim)).2 = X
      rw [show off + b.dim + X = off + (X + b.dim) by omega, show s - b.dim - X = s - (X + b.dim) by omega]

/-- `Env.occOf` is the first-appearance list `std::set`-free `perm`/`invp` numbering produces: `insertNew` folded over the
    column indices of the rows in storage order -/
theorem Env.occOf_eq_insertNew (rows : List (Array (Nat × K))) :
    Env.occOf rows = (rows.flatMap fun r => r.toList.map (·.1)).foldl Cov.Hom.insertNew [] := by
  unfold Env.occOf
  have inner : ∀ (r : Array (Nat × K)) (occ : List Nat),
      r.foldl (fun occ e => if occ.contains e.1 then occ else occ ++ [e.1]) occ =
        (r.toList.map (·.1)).foldl Cov.Hom.insertNew occ := by
    intro r occ
    rw [← Array.foldl_toList, List.foldl_map]
    rfl
  have outer : ∀ (rows : List (Array (Nat × K))) (occ : List Nat),
      rows.foldl (fun occ r => r.foldl (fun occ e => if occ.contains e.1 then occ else occ ++ [e.1]) occ) occ =
        (rows.flatMap fun r => r.toList.map (·.1)).foldl Cov.Hom.insertNew occ := by
    intro rows
    induction rows with
    | nil => intro occ; rfl
    | cons r rows ih =>
      intro occ
      rw [List.foldl_cons, inner, ih, List.flatMap_cons, List.foldl_append]
  exact outer rows []

end

/-- a sparse matrix with `n` columns whose rows `1 … rows` have the column lists `pat` has the graph `patGraph n pat`
    (`SparseMatrixGraph(hom.mat())` = the graph `Env.rcmOrd` builds from `Homog.pat`) -/
theorem graphOf_eq_patGraph {K : Type} (A : SMat K) (n : Nat) (pat : Array (List Nat)) (hn : A.cols = n)
    (hpat : (List.range' 1 A.rows).map A.rowCols = pat.toList) : graphOf A = Env.patGraph n pat := by
  unfold graphOf Env.patGraph edgeSet
  rw [hn, ← Array.foldl_toList, ← hpat, List.foldl_map]

end Gama.Ls
