/-
  One outer iteration of `CovMat::cholDec` (`cholStep`, Model/BandChol.lean) as a function on
  matrix entries — pure bookkeeping over any `[Scalar K]` (no algebraic law is used):

    a'(ρ, j)  = a(ρ, j) / d                         ρ < j ≤ ρ+k
    a'(i, j)  = a(i, j) - (a(ρ,i)/d) * a(ρ,j)        ρ < i ≤ j ≤ ρ+k
    a'(i, j)  = a(i, j)                              otherwise          (k = min(W, N-ρ))
-/
import Gama.Lemmas.CovGetSet
import Gama.Model.BandChol
namespace Gama.Cov
open Packed CovMat

variable {K : Type} [Scalar K]

theorem setU_upper {m : CovMat K} {i j : Nat} (hb : InBand m.dim m.band i j) (v : K) :
    m.setU i j v = m.rawSet (off m.dim m.band i j) v := by
  unfold CovMat.setU; rw [idx_upper hb]

/-- shape invariant: well-formed, same `dim` and `band` as `m` -/
def Same (m c : CovMat K) : Prop := c.WF ∧ c.dim = m.dim ∧ c.band = m.band

theorem Same.refl {m : CovMat K} (h : m.WF) : Same m m := ⟨h, rfl, rfl⟩

theorem Same.setU {m c : CovMat K} (h : Same m c) {i j : Nat} (hb : InBand m.dim m.band i j) (v : K) :
    Same m (c.setU i j v) := by
  obtain ⟨hw, hd, hbd⟩ := h
  rw [setU_upper (by rw [hd, hbd]; exact hb)]
  exact ⟨rawSet_WF hw _ _, by rw [rawSet_dim]; exact hd, by rw [rawSet_band]; exact hbd⟩

theorem get_setU {m c : CovMat K} (h : Same m c) {i j i' j' : Nat}
    (hb : InBand m.dim m.band i j) (hb' : InBand m.dim m.band i' j') (v : K) :
    (c.setU i j v).get i' j' = if i' = i ∧ j' = j then v else c.get i' j' := by
  obtain ⟨hw, hd, hbd⟩ := h
  have h1 : InBand c.dim c.band i j := by rw [hd, hbd]; exact hb
  have h2 : InBand c.dim c.band i' j' := by rw [hd, hbd]; exact hb'
  rw [setU_upper h1, get_rawSet hw h1 h2]

/-! ### the inner elimination loop (fixed `n`) -/

/-- body of the `l` loop -/
def elimInnerStep (row n : Nat) (q : K) (c : CovMat K) (l : Nat) : CovMat K :=
  c.setU (row + n) (row + l) (c.get (row + n) (row + l) - q * c.get row (row + l))

theorem elimInner_spec {m a : CovMat K} (ha : Same m a) {row k n : Nat} (q : K)
    (hrow : 1 ≤ row) (hk : k ≤ m.band) (hkN : row + k ≤ m.dim) (hn1 : 1 ≤ n) (hnk : n ≤ k) :
    let R := (List.range' n (k + 1 - n)).foldl (elimInnerStep row n q) a
    Same m R ∧ ∀ i j, InBand m.dim m.band i j →
      R.get i j = if i = row + n ∧ j ≤ row + k then a.get i j - q * a.get row j else a.get i j := by
  intro R
  have hpos : ∀ l, n ≤ l → l ≤ k → InBand m.dim m.band (row + n) (row + l) := by
    intro l h1 h2; exact ⟨by omega, by omega, by omega, by omega⟩
  have hrowpos : ∀ l, 1 ≤ l → l ≤ k → InBand m.dim m.band row (row + l) := by
    intro l h1 h2; exact ⟨hrow, by omega, by omega, by omega⟩
  have key := foldl_nodup_cover (elimInnerStep row n q)
    (fun c => Same m c ∧ ∀ i j, InBand m.dim m.band i j → ¬ (i = row + n ∧ j ≤ row + k) → c.get i j = a.get i j)
    (fun l c => c.get (row + n) (row + l) = a.get (row + n) (row + l))
    (fun l c => c.get (row + n) (row + l) = a.get (row + n) (row + l) - q * a.get row (row + l))
    (fun l => n ≤ l ∧ l ≤ k)
    (by
      intro s l hl hinv hu
      obtain ⟨hs, hfr⟩ := hinv
      have hp := hpos l hl.1 hl.2
      refine ⟨⟨hs.setU hp _, ?_⟩, ?_⟩
      · intro i j hin hne
        unfold elimInnerStep
        rw [get_setU hs hp hin]
        have : ¬ (i = row + n ∧ j = row + l) := by
          intro e; apply hne; exact ⟨e.1, by omega⟩
        simp only [this, if_false]
        exact hfr i j hin hne
      · unfold elimInnerStep
        rw [get_setU hs hp hp]
        simp only [and_self, if_true]
        rw [hu, hfr row (row + l) (hrowpos l (by omega) hl.2) (by omega)])
    (by
      intro s l l' hl hl' hne hinv _
      obtain ⟨hs, _⟩ := hinv
      have hp := hpos l hl.1 hl.2
      have hp' := hpos l' hl'.1 hl'.2
      constructor <;> intro h <;> unfold elimInnerStep <;> rw [get_setU hs hp hp', if_neg (by omega)] <;> exact h)
    (List.range' n (k + 1 - n)) (List.nodup_range' (s := n) (n := k + 1 - n))
    (by intro l hl; rw [List.mem_range'_1] at hl; omega) a (fun _ => False) (by intro _ h; cases h)
    ⟨ha, fun _ _ _ _ => rfl⟩ (fun _ _ => rfl) (by intro _ h; cases h)
  refine ⟨key.1.1, ?_⟩
  intro i j hin
  by_cases hc : i = row + n ∧ j ≤ row + k
  · simp only [hc, and_self, if_true]
    obtain ⟨e, hj⟩ := hc
    subst e
    have hmem : (j - row) ∈ List.range' n (k + 1 - n) := by
      rw [List.mem_range'_1]; have := hin.2.1; omega
    have := key.2 (j - row) (Or.inr hmem)
    have e2 : row + (j - row) = j := by have := hin.2.1; omega
    rw [e2] at this
    exact this
  · simp only [hc, if_false]
    exact key.1.2 i j hin hc

/-! ### the whole elimination of one row -/

/-- body of the `n` loop -/
def elimOuterStep (row k : Nat) (pivot : K) (a : CovMat K) (n : Nat) : CovMat K :=
  (List.range' n (k + 1 - n)).foldl (elimInnerStep row n (a.get row (row + n) / pivot)) a

theorem elimRow_eq (row k : Nat) (pivot : K) (m : CovMat K) :
    elimRow row k pivot m = (List.range' 1 k).foldl (elimOuterStep row k pivot) m := rfl

theorem elimRow_spec {m : CovMat K} (hm : m.WF) {row k : Nat} (pivot : K)
    (hrow : 1 ≤ row) (hk : k ≤ m.band) (hkN : row + k ≤ m.dim) :
    let R := elimRow row k pivot m
    Same m R ∧ ∀ i j, InBand m.dim m.band i j →
      R.get i j = if row < i ∧ j ≤ row + k then m.get i j - m.get row i / pivot * m.get row j else m.get i j := by
  intro R
  have hrowpos : ∀ l, l ≤ k → InBand m.dim m.band row (row + l) := by
    intro l h2; exact ⟨hrow, by omega, by omega, by omega⟩
  have key := foldl_nodup_cover (elimOuterStep row k pivot)
    (fun a => Same m a ∧ ∀ i j, InBand m.dim m.band i j → ¬ (row < i ∧ j ≤ row + k) → a.get i j = m.get i j)
    (fun n a => ∀ j, InBand m.dim m.band (row + n) j → a.get (row + n) j = m.get (row + n) j)
    (fun n a => ∀ j, InBand m.dim m.band (row + n) j → j ≤ row + k →
        a.get (row + n) j = m.get (row + n) j - m.get row (row + n) / pivot * m.get row j)
    (fun n => 1 ≤ n ∧ n ≤ k)
    (by
      intro s n hn hinv hu
      obtain ⟨hs, hfr⟩ := hinv
      have sp := elimInner_spec hs (s.get row (row + n) / pivot) hrow hk hkN hn.1 hn.2
      refine ⟨⟨sp.1, ?_⟩, ?_⟩
      · intro i j hin hne
        have := sp.2 i j hin
        have hc : ¬ (i = row + n ∧ j ≤ row + k) := by
          intro e; apply hne; exact ⟨by omega, e.2⟩
        simp only [hc, if_false] at this
        unfold elimOuterStep
        rw [this]; exact hfr i j hin hne
      · intro j hin hj
        have := sp.2 (row + n) j hin
        simp only [hj, and_self, if_true] at this
        unfold elimOuterStep
        rw [this, hu j hin, hfr row (row + n) (hrowpos n hn.2) (by omega),
          hfr row j ⟨hrow, by have := hin.2.1; omega, hin.2.2.1, by omega⟩ (by omega)])
    (by
      intro s n n' hn hn' hne hinv _
      obtain ⟨hs, _⟩ := hinv
      have sp := elimInner_spec hs (s.get row (row + n) / pivot) hrow hk hkN hn.1 hn.2
      have hc : ∀ j, ¬ (row + n' = row + n ∧ j ≤ row + k) := by intro j e; omega
      constructor
      · intro h j hin
        have := sp.2 (row + n') j hin
        simp only [hc j, if_false] at this
        unfold elimOuterStep; rw [this]; exact h j hin
      · intro h j hin hj
        have := sp.2 (row + n') j hin
        simp only [hc j, if_false] at this
        unfold elimOuterStep; rw [this]; exact h j hin hj)
    (List.range' 1 k) (List.nodup_range' (s := 1) (n := k))
    (by intro n hn; rw [List.mem_range'_1] at hn; omega) m (fun _ => False) (by intro _ h; cases h)
    ⟨Same.refl hm, fun _ _ _ _ => rfl⟩ (fun _ _ _ _ => rfl) (by intro _ h; cases h)
  rw [show R = (List.range' 1 k).foldl (elimOuterStep row k pivot) m from rfl]
  refine ⟨key.1.1, ?_⟩
  intro i j hin
  by_cases hc : row < i ∧ j ≤ row + k
  · simp only [hc, and_self, if_true]
    have hmem : (i - row) ∈ List.range' 1 k := by
      rw [List.mem_range'_1]; have := hin.2.1; omega
    have := key.2 (i - row) (Or.inr hmem) j
    have e2 : row + (i - row) = i := by omega
    rw [e2] at this
    exact this hin hc.2
  · simp only [hc, if_false]
    exact key.1.2 i j hin hc

/-! ### scaling the pivot row -/

def scaleRowStep (row : Nat) (pivot : K) (a : CovMat K) (j : Nat) : CovMat K :=
  a.setU row (row + j) (a.get row (row + j) / pivot)

theorem scaleRow_spec {m a : CovMat K} (ha : Same m a) {row k : Nat} (pivot : K)
    (hrow : 1 ≤ row) (hk : k ≤ m.band) (hkN : row + k ≤ m.dim) :
    let R := scaleRow row k pivot a
    Same m R ∧ ∀ i j, InBand m.dim m.band i j →
      R.get i j = if i = row ∧ row < j ∧ j ≤ row + k then a.get i j / pivot else a.get i j := by
  intro R
  have hpos : ∀ l, l ≤ k → InBand m.dim m.band row (row + l) := by
    intro l h2; exact ⟨hrow, by omega, by omega, by omega⟩
  have key := foldl_nodup_cover (scaleRowStep row pivot)
    (fun c => Same m c ∧ ∀ i j, InBand m.dim m.band i j → ¬ (i = row ∧ row < j ∧ j ≤ row + k) → c.get i j = a.get i j)
    (fun l c => c.get row (row + l) = a.get row (row + l))
    (fun l c => c.get row (row + l) = a.get row (row + l) / pivot)
    (fun l => 1 ≤ l ∧ l ≤ k)
    (by
      intro s l hl hinv hu
      obtain ⟨hs, hfr⟩ := hinv
      have hp := hpos l hl.2
      refine ⟨⟨hs.setU hp _, ?_⟩, ?_⟩
      · intro i j hin hne
        unfold scaleRowStep
        rw [get_setU hs hp hin]
        have : ¬ (i = row ∧ j = row + l) := by
          intro e; apply hne; exact ⟨e.1, by omega, by omega⟩
        simp only [this, if_false]
        exact hfr i j hin hne
      · unfold scaleRowStep
        rw [get_setU hs hp hp]
        simp only [and_self, if_true]
        rw [hu])
    (by
      intro s l l' hl hl' hne hinv _
      obtain ⟨hs, _⟩ := hinv
      have hp := hpos l hl.2
      have hp' := hpos l' hl'.2
      constructor <;> intro h <;> unfold scaleRowStep <;> rw [get_setU hs hp hp', if_neg (by omega)] <;> exact h)
    (List.range' 1 k) (List.nodup_range' (s := 1) (n := k))
    (by intro l hl; rw [List.mem_range'_1] at hl; omega) a (fun _ => False) (by intro _ h; cases h)
    ⟨ha, fun _ _ _ _ => rfl⟩ (fun _ _ => rfl) (by intro _ h; cases h)
  rw [show R = (List.range' 1 k).foldl (scaleRowStep row pivot) a from rfl]
  refine ⟨key.1.1, ?_⟩
  intro i j hin
  by_cases hc : i = row ∧ row < j ∧ j ≤ row + k
  · simp only [hc, and_self, if_true]
    obtain ⟨e, h1, h2⟩ := hc
    subst e
    have hmem : (j - i) ∈ List.range' 1 k := by rw [List.mem_range'_1]; omega
    have := key.2 (j - i) (Or.inr hmem)
    have e2 : i + (j - i) = j := by omega
    rw [e2] at this
    exact this
  · simp only [hc, if_false]
    exact key.1.2 i j hin hc

/-! ### one full iteration -/

/-- entries after `cholStep row pivot m`, for every in-band upper pair -/
theorem cholStep_spec {m : CovMat K} (hm : m.WF) {row : Nat} (pivot : K) (hrow : 1 ≤ row) (hrN : row ≤ m.dim) :
    let k := min m.band (m.dim - row)
    let R := cholStep row pivot m
    Same m R ∧ ∀ i j, InBand m.dim m.band i j →
      R.get i j =
        if i = row ∧ row < j then m.get row j / pivot
        else if row < i ∧ j ≤ row + k then m.get i j - m.get row i / pivot * m.get row j
        else m.get i j := by
  intro k R
  have hk : k ≤ m.band := Nat.min_le_left _ _
  have hkN : row + k ≤ m.dim := by have := Nat.min_le_right m.band (m.dim - row); omega
  have e := elimRow_spec hm pivot hrow hk hkN
  have s := scaleRow_spec e.1 pivot hrow hk hkN
  rw [show R = scaleRow row k pivot (elimRow row k pivot m) from rfl]
  refine ⟨s.1, ?_⟩
  intro i j hin
  rw [s.2 i j hin, e.2 i j hin]
  by_cases h1 : i = row ∧ row < j
  · have hj : j ≤ row + k := by
      obtain ⟨e1, _⟩ := h1; subst e1
      have := hin.2.2.1; have := hin.2.2.2
      show j ≤ i + min m.band (m.dim - i)
      omega
    obtain ⟨e1, hlt⟩ := h1
    subst e1
    rw [if_pos ⟨rfl, hlt, hj⟩, if_neg (by omega), if_pos ⟨rfl, hlt⟩]
  · have h3 : ¬ (i = row ∧ row < j ∧ j ≤ row + k) := by
      intro e'; exact h1 ⟨e'.1, e'.2.1⟩
    simp only [h1, h3, if_false]

/-! ### `Adj::choldec`: the scaling loop -/

/-- body of the `j` loop of `Adj::choldec` -/
def scaleCholInner (i : Nat) (d : K) (c : CovMat K) (j : Nat) : CovMat K := c.setU i j (c.get i j * d)

/-- one row of the scaling loop -/
def scaleCholRow (a : CovMat K) (i : Nat) : CovMat K :=
  (List.range' (i + 1) (min a.dim (i + a.band) - i)).foldl
    (scaleCholInner i (Scalar.sqrt (a.get i i))) (a.setU i i (Scalar.sqrt (a.get i i)))

theorem scaleToChol_eq (m : CovMat K) : scaleToChol m = (List.range' 1 m.dim).foldl scaleCholRow m := rfl

theorem scaleCholRow_spec {m a : CovMat K} (ha : Same m a) {i : Nat} (hi : 1 ≤ i) (hiN : i ≤ m.dim) :
    Same m (scaleCholRow a i) ∧ ∀ i' j', InBand m.dim m.band i' j' →
      (scaleCholRow a i).get i' j' =
        if i' = i then (if j' = i then Scalar.sqrt (a.get i i) else a.get i j' * Scalar.sqrt (a.get i i))
        else a.get i' j' := by
  obtain ⟨hw, hd, hb⟩ := ha
  have hdiag : InBand m.dim m.band i i := ⟨hi, le_refl _, hiN, by omega⟩
  set d := Scalar.sqrt (a.get i i) with hdd
  set a1 := a.setU i i d with ha1
  have hs1 : Same m a1 := Same.setU ⟨hw, hd, hb⟩ hdiag d
  have hg1 : ∀ i' j', InBand m.dim m.band i' j' → a1.get i' j' = if i' = i ∧ j' = i then d else a.get i' j' := by
    intro i' j' hin; exact get_setU ⟨hw, hd, hb⟩ hdiag hin d
  have hpos : ∀ j, i < j → j ≤ min m.dim (i + m.band) → InBand m.dim m.band i j := by
    intro j h1 h2
    have := Nat.min_le_left m.dim (i + m.band); have := Nat.min_le_right m.dim (i + m.band)
    exact ⟨hi, by omega, by omega, by omega⟩
  have key := foldl_nodup_cover (scaleCholInner i d)
    (fun c => Same m c ∧ ∀ i' j', InBand m.dim m.band i' j' → ¬ (i' = i ∧ i < j') → c.get i' j' = a1.get i' j')
    (fun j c => c.get i j = a1.get i j)
    (fun j c => c.get i j = a1.get i j * d)
    (fun j => i < j ∧ j ≤ min m.dim (i + m.band))
    (by
      intro s j hj hinv hu
      obtain ⟨hs, hfr⟩ := hinv
      have hp := hpos j hj.1 hj.2
      refine ⟨⟨hs.setU hp _, ?_⟩, ?_⟩
      · intro i' j' hin hne
        unfold scaleCholInner
        rw [get_setU hs hp hin, if_neg (by intro e; apply hne; exact ⟨e.1, by omega⟩)]
        exact hfr i' j' hin hne
      · unfold scaleCholInner
        rw [get_setU hs hp hp, if_pos ⟨rfl, rfl⟩, hu])
    (by
      intro s j j' hj hj' hne hinv _
      obtain ⟨hs, _⟩ := hinv
      have hp := hpos j hj.1 hj.2
      have hp' := hpos j' hj'.1 hj'.2
      constructor <;> intro h <;> unfold scaleCholInner <;> rw [get_setU hs hp hp', if_neg (by omega)] <;> exact h)
    (List.range' (i + 1) (min m.dim (i + m.band) - i)) (List.nodup_range' (s := i + 1) (n := min m.dim (i + m.band) - i))
    (by intro j hj; rw [List.mem_range'_1] at hj; omega) a1 (fun _ => False) (by intro _ h; cases h)
    ⟨hs1, fun _ _ _ _ => rfl⟩ (fun _ _ => rfl) (by intro _ h; cases h)
  have hR : scaleCholRow a i = (List.range' (i + 1) (min m.dim (i + m.band) - i)).foldl (scaleCholInner i d) a1 := by
    unfold scaleCholRow; rw [hd, hb]
  rw [hR]
  refine ⟨key.1.1, ?_⟩
  intro i' j' hin
  by_cases hc : i' = i ∧ i < j'
  · obtain ⟨e, hlt⟩ := hc
    subst e
    have hmem : j' ∈ List.range' (i' + 1) (min m.dim (i' + m.band) - i') := by
      rw [List.mem_range'_1]; have := hin.2.2.1; have := hin.2.2.2; omega
    rw [key.2 j' (Or.inr hmem), hg1 i' j' hin, if_neg (by omega), if_pos rfl, if_neg (by omega)]
  · rw [key.1.2 i' j' hin hc, hg1 i' j' hin]
    by_cases e : i' = i
    · subst e
      have : j' = i' := by have := hin.2.1; omega
      subst this
      rw [if_pos ⟨rfl, rfl⟩, if_pos rfl, if_pos rfl]
    · rw [if_neg (by intro h; exact e h.1), if_neg e]

/-- entries after the scaling loop of `Adj::choldec`, for every in-band upper pair -/
theorem scaleToChol_spec {m : CovMat K} (hm : m.WF) :
    Same m (scaleToChol m) ∧ ∀ i j, InBand m.dim m.band i j →
      (scaleToChol m).get i j =
        if i = j then Scalar.sqrt (m.get i i) else m.get i j * Scalar.sqrt (m.get i i) := by
  rw [scaleToChol_eq]
  have key := foldl_nodup_cover scaleCholRow
    (fun a => Same m a)
    (fun i a => ∀ j, InBand m.dim m.band i j → a.get i j = m.get i j)
    (fun i a => ∀ j, InBand m.dim m.band i j →
        a.get i j = if i = j then Scalar.sqrt (m.get i i) else m.get i j * Scalar.sqrt (m.get i i))
    (fun i => 1 ≤ i ∧ i ≤ m.dim)
    (by
      intro s i hi hinv hu
      have sp := scaleCholRow_spec hinv hi.1 hi.2
      refine ⟨sp.1, ?_⟩
      intro j hin
      have hii : InBand m.dim m.band i i := ⟨hi.1, le_refl _, hi.2, by omega⟩
      rw [sp.2 i j hin, if_pos rfl, hu i hii]
      by_cases e : j = i
      · subst e; rw [if_pos rfl, if_pos rfl]
      · rw [if_neg e, if_neg (by omega), hu j hin])
    (by
      intro s i i' hi hi' hne hinv _
      have sp := scaleCholRow_spec hinv hi.1 hi.2
      constructor
      · intro h j hin; rw [sp.2 i' j hin, if_neg (by omega)]; exact h j hin
      · intro h j hin; rw [sp.2 i' j hin, if_neg (by omega)]; exact h j hin)
    (List.range' 1 m.dim) (List.nodup_range' (s := 1) (n := m.dim))
    (by intro i hi; rw [List.mem_range'_1] at hi; omega) m (fun _ => False) (by intro _ h; cases h)
    (Same.refl hm) (fun _ _ _ _ => rfl) (by intro _ h; cases h)
  refine ⟨key.1, ?_⟩
  intro i j hin
  exact key.2 i (Or.inr (by rw [List.mem_range'_1]; have := hin.1; have := hin.2.1; have := hin.2.2.1; omega)) j hin

end Gama.Cov
