/-
  C07 — the mirrored description through the WHOLE of `project_equations()` (round 10): the revision, the prologue, the
  linearisation loop from the state earlier calls left, `singular_coords` + `set_unused_xy()` and the recursion.

    * `revise_mir`        `revision_observations()` (structural part) commutes with `mirNet`
    * `assemble_mir_idx`  one inner call on `net` and on `mirNet net`: the SAME index fields at the end
    * `RegAll`            every observation of the input (active or not) is regular at the approximate coordinates —
                          invariant under the revision and under `set_unused_xy()` (`regAll_revise`, `regAll_step`)
    * `DegenInv`          what is NOT proved: the numeric half of `singular_coords` (`1 − |cos(a,b)| < 1e-12` on the x and y
                          columns of one point in the HOMOGENISED matrix) gives the same verdict on the homogenised
                          mirrored matrix (mathematically: `A_hom' = E A_hom D_t` with `E` a sign matrix, so `aa, bb` are
                          unchanged and `ab` changes sign at most; needs the Cholesky factor of `D C D`)
    * `peLoop_mir`        given `DegenInv`: both calls remove the same points in the same order, end with
                          `u'.net = { mirNet u.net with idx := u.net.idx }`, the same `removed` list and the same `min_x_`
-/
import Gama.Lemmas.C07MirrorNet
namespace Gama.C07Mir
open Gama Gama.Lin Gama.PE Gama.LS Gama.C06FP Gama.C07PE Gama.Cov.YSign Matrix

/-! ### statuses, revision -/

theorem ptsOf_mir (net : PE.Net ℝ) : ptsOf (mirNet net) = ptsOf net := by
  unfold ptsOf mirNet
  simp only [List.map_map]
  rfl

theorem flatFrom_mir : ∀ (k : Nat) (cs : List (PE.Cluster ℝ)), flatFrom k (cs.map mirCluster) = flatFrom k cs
  | _, [] => rfl
  | k, c :: cs => by
    simp only [List.map_cons, flatFrom, flatFrom_mir (k + 1) cs]
    congr 1
    simp only [mirCluster, List.map_map]
    rfl

theorem reviseFrom_mir (pts : List MinX.PtS) (all : List (Bool × MinX.Obs)) :
    ∀ (k : Nat) (cs : List (PE.Cluster ℝ)),
      reviseFrom pts all k (cs.map mirCluster) = (reviseFrom pts all k cs).map mirCluster
  | _, [] => rfl
  | k, c :: cs => by
    simp only [List.map_cons, reviseFrom, reviseFrom_mir pts all (k + 1) cs]
    congr 1
    simp only [mirCluster, msOf, List.map_map]
    rfl

theorem revise_mir (net : PE.Net ℝ) : revise (mirNet net) = mirNet (revise net) := by
  unfold revise
  rw [ptsOf_mir]
  show ({ mirNet net with
    clusters := reviseFrom (ptsOf net) (flatFrom 0 (net.clusters.map mirCluster)) 0 (net.clusters.map mirCluster) }
      : PE.Net ℝ) = _
  rw [flatFrom_mir, reviseFrom_mir]
  rfl

theorem guardOf_mir (net : PE.Net ℝ) : guardOf (mirNet net) = guardOf net := by
  funext i
  unfold guardOf
  rw [ptAt_mir]
  rfl

theorem oriOK_mir (net : PE.Net ℝ) (ob : NObs ℝ) : oriOK (mirNet net) (mirNObs ob) = oriOK net ob := by
  unfold oriOK
  simp only [show (mirNObs ob).kind = ob.kind from rfl, show (mirNObs ob).sp = ob.sp from rfl, mirNet,
    List.getElem?_map]
  cases ob.kind <;> try rfl
  cases net.clusters[ob.sp]? with
  | none => rfl
  | some c =>
    simp only [Option.map_some, mirCluster]
    cases c.stand with
    | none => rfl
    | some so =>
      obtain ⟨st, o⟩ := so
      cases o <;> rfl

/-! ### one inner call -/

/-- `assemble net = .ok a`: the pass over ALL revised observations from the state the prologue leaves -/
theorem assemble_inv (net : PE.Net ℝ) (a : Asm ℝ) (h : assemble net = .ok a) :
    ∃ r, passFrom (sigmaOf net) net.fuel (revisedObs net) (net.idx.resetPass (guardOf net)) = .ok r ∧ a.idx = r.idx ∧
      a.np.clusters = npClusters net ∧ a.np.m = (revisedObs net).length ∧ a.np.n = r.idx.maxn ∧ a.np.m0 = net.m0 ∧
      a.np.minx = [] := by
  unfold assemble linPass at h
  simp only [] at h
  split at h
  · cases h
  · rename_i r hr
    split at hr
    · cases hr
    · rename_i r' hp
      split at hr
      · rename_i hlen
        injection hr with hr; subst hr
        injection h with h; subst h
        have hpre : (revisedObs net).takeWhile (oriOK net) = revisedObs net :=
          (List.takeWhile_prefix _).eq_of_length hlen
        rw [hpre] at hp
        exact ⟨_, hp, rfl, rfl, rfl, rfl, rfl, rfl⟩
      · cases hr

/-- both inner calls leave the same index fields -/
theorem assemble_mir_idx (net : PE.Net ℝ) (a a' : Asm ℝ) (h : assemble net = .ok a)
    (h' : assemble (mirNet net) = .ok a')
    (hreg : ∀ ob ∈ revisedObs net, Regular ob.kind ((sigmaOf net).view ob)) : a'.idx = a.idx := by
  obtain ⟨r, hp, e, _⟩ := assemble_inv net a h
  obtain ⟨r', hp', e', _⟩ := assemble_inv (mirNet net) a' h'
  rw [sigmaOf_mir, revisedObs_mir, guardOf_mir] at hp'
  rw [e, e']
  exact passFrom_mir_idx (sigmaOf net) net.fuel net.fuel (revisedObs net) _ r r' hp hp' hreg

/-! ### regularity of every observation of the input -/

/-- all observations in `OD` order, active or not -/
def allFrom : Nat → List (PE.Cluster ℝ) → List (NObs ℝ)
  | _, [] => []
  | k, c :: cs => c.obs.map (Ob.toN k) ++ allFrom (k + 1) cs

/-- every observation of the input is regular (no sight shorter than the cut-off) at the approximate coordinates -/
def RegAll (net : PE.Net ℝ) : Prop := ∀ ob ∈ allFrom 0 net.clusters, Regular ob.kind ((sigmaOf net).view ob)

theorem revisedFrom_sub : ∀ (k : Nat) (cs : List (PE.Cluster ℝ)) (ob : NObs ℝ),
    ob ∈ revisedFrom k cs → ob ∈ allFrom k cs
  | _, [], _, h => by simp [revisedFrom] at h
  | k, c :: cs, ob, h => by
    simp only [revisedFrom, allFrom, List.mem_append, List.mem_map, List.mem_filter] at h ⊢
    rcases h with ⟨o, ⟨ho, _⟩, rfl⟩ | h
    · exact Or.inl ⟨o, ho, rfl⟩
    · exact Or.inr (revisedFrom_sub (k + 1) cs ob h)

theorem regAll_revised (net : PE.Net ℝ) (h : RegAll net) :
    ∀ ob ∈ revisedObs net, Regular ob.kind ((sigmaOf net).view ob) :=
  fun ob hob => h ob (revisedFrom_sub 0 net.clusters ob hob)

theorem allFrom_reviseFrom (pts : List MinX.PtS) (all : List (Bool × MinX.Obs)) :
    ∀ (k : Nat) (cs : List (PE.Cluster ℝ)), allFrom k (reviseFrom pts all k cs) = allFrom k cs
  | _, [] => rfl
  | k, c :: cs => by
    simp only [reviseFrom, allFrom, allFrom_reviseFrom pts all (k + 1) cs, List.map_map]
    rfl

/-- `Regular` reads the horizontal coordinates of the three points only -/
theorem regular_congr (k : Kind) (o o' : Obs ℝ)
    (h1 : o'.pfrom.x = o.pfrom.x) (h2 : o'.pfrom.y = o.pfrom.y) (h3 : o'.pto.x = o.pto.x) (h4 : o'.pto.y = o.pto.y)
    (h5 : o'.pfs.x = o.pfs.x) (h6 : o'.pfs.y = o.pfs.y) : Regular k o' ↔ Regular k o := by
  have e1 : hdist o' = hdist o := by unfold hdist dX dY; rw [h1, h2, h3, h4]
  have e2 : hdist2 o' = hdist2 o := by unfold hdist2 dX2 dY2; rw [h1, h2, h5, h6]
  cases k <;> simp only [Regular, e1, e2]

theorem regAll_revise (net : PE.Net ℝ) (h : RegAll net) : RegAll (revise net) := by
  intro ob hob
  have hob' : ob ∈ allFrom 0 net.clusters := by
    have : (revise net).clusters = reviseFrom (ptsOf net) (flatFrom 0 net.clusters) 0 net.clusters := rfl
    rw [this, allFrom_reviseFrom] at hob
    exact hob
  exact (regular_congr ob.kind ((sigmaOf net).view ob) ((sigmaOf (revise net)).view ob) rfl rfl rfl rfl rfl rfl).2 (h ob hob')

/-- `set_unused_xy()` changes a status, no coordinate -/
theorem ptAt_applySingular (net : PE.Net ℝ) (qs : List MinX.PtS) (i' : IdxState) (i : Nat) :
    (ptAt { net with points := applySingular net.points qs, idx := i' } i).x = (ptAt net i).x ∧
    (ptAt { net with points := applySingular net.points qs, idx := i' } i).y = (ptAt net i).y := by
  have key : ∀ (ps : List (PE.Point ℝ)) (qs : List MinX.PtS) (i : Nat),
      ((applySingular ps qs)[i]?.map fun p => (p.pt.x, p.pt.y)) = (ps[i]?.map fun p => (p.pt.x, p.pt.y)) := by
    intro ps
    induction ps with
    | nil => intro qs i; simp [applySingular]
    | cons p ps ih =>
      intro qs i
      cases qs with
      | nil => simp [applySingular]
      | cons q qs =>
        cases i with
        | zero =>
          simp only [applySingular, List.getElem?_cons_zero, Option.map_some]
          split <;> rfl
        | succ i => simpa [applySingular] using ih qs i
  have hk := key net.points qs i
  unfold ptAt
  simp only
  cases h1 : (applySingular net.points qs)[i]? with
  | none =>
    rw [h1] at hk
    cases h2 : net.points[i]? with
    | none => exact ⟨rfl, rfl⟩
    | some p => rw [h2] at hk; simp at hk
  | some p' =>
    rw [h1] at hk
    cases h2 : net.points[i]? with
    | none => rw [h2] at hk; simp at hk
    | some p =>
      rw [h2] at hk
      simp only [Option.map_some, Option.some.injEq, Prod.mk.injEq] at hk
      exact hk

theorem regAll_step (net : PE.Net ℝ) (qs : List MinX.PtS) (i' : IdxState) (h : RegAll net) :
    RegAll { net with points := applySingular net.points qs, idx := i' } := by
  intro ob hob
  have hp := fun i => ptAt_applySingular net qs i' i
  exact (regular_congr ob.kind _ _ (hp ob.pfrom).1 (hp ob.pfrom).2 (hp ob.pto).1 (hp ob.pto).2 (hp ob.pfs).1
    (hp ob.pfs).2).2 (h ob hob)

/-! ### `set_unused_xy()` and the mirror -/

theorem applySingular_mir : ∀ (ps : List (PE.Point ℝ)) (qs : List MinX.PtS),
    applySingular (ps.map mirPoint) qs = (applySingular ps qs).map mirPoint
  | [], _ => by simp [applySingular]
  | p :: ps, [] => by simp [applySingular]
  | p :: ps, q :: qs => by
    simp only [List.map_cons, applySingular, applySingular_mir ps qs]
    split <;> rfl

/-! ### well-formed covariance matrices (the parser's guarantee), invariant along the call -/

/-- every cluster carries a well-formed band matrix of the dimension of its observation list -/
def WfAll (net : PE.Net ℝ) : Prop := ∀ c ∈ net.clusters, c.cov.WF ∧ c.cov.dim = c.obs.length

theorem reviseFrom_shape (pts : List MinX.PtS) (all : List (Bool × MinX.Obs)) :
    ∀ (k : Nat) (cs : List (PE.Cluster ℝ)), ∀ c' ∈ reviseFrom pts all k cs,
      ∃ c ∈ cs, c'.cov = c.cov ∧ c'.obs.length = c.obs.length
  | _, [], c', h => by simp [reviseFrom] at h
  | k, c :: cs, c', h => by
    rw [reviseFrom, List.mem_cons] at h
    rcases h with rfl | h
    · exact ⟨c, List.mem_cons_self .., rfl, List.length_map _⟩
    · obtain ⟨c0, hc0, e⟩ := reviseFrom_shape pts all (k + 1) cs c' h
      exact ⟨c0, List.mem_cons_of_mem _ hc0, e⟩

theorem wfAll_revise (net : PE.Net ℝ) (h : WfAll net) : WfAll (revise net) := by
  intro c' hc'
  obtain ⟨c, hc, e1, e2⟩ := reviseFrom_shape _ _ _ _ c' hc'
  obtain ⟨w, d⟩ := h c hc
  rw [e1, e2]
  exact ⟨w, d⟩

/-! ### the recursion -/

/-- NOT proved (the remaining hypothesis of the mirror theorem for `project_equations()`): for every network with regular
    observations, the numeric test of `singular_coords` on the x and y columns of a point gives the same verdict on the
    homogenised matrix of the mirrored inner call as on that of the original inner call -/
def DegenInv : Prop :=
  ∀ (net : PE.Net ℝ) (a a' : Asm ℝ) (h h' : Ls.Net.Hom ℝ), RegAll net → WfAll net →
    assemble net = .ok a → assemble (mirNet net) = .ok a' →
    Ls.Net.prepare a.np = .ok h → Ls.Net.prepare a'.np = .ok h' →
    ∀ p : Nat, SingularCoords.degenTest h'.Ad (idxFn a.idx (.x p)) (idxFn a.idx (.y p)) =
      SingularCoords.degenTest h.Ad (idxFn a.idx (.x p)) (idxFn a.idx (.y p))

theorem peLoop_mir (hdeg : DegenInv) : ∀ (fuel : Nat) (net : PE.Net ℝ) (rm : List String)
    (np np' : Ls.Net.NetProblem ℝ) (u u' : Unknowns ℝ), RegAll net → WfAll net →
    peLoop fuel net rm = .ok (np, u) → peLoop fuel (mirNet net) rm = .ok (np', u') →
    u'.net = { mirNet u.net with idx := u.net.idx } ∧ u'.removed = u.removed ∧ np'.minx = np.minx ∧ RegAll u.net
  | 0, _, _, _, _, _, _, _, _, h, _ => by simp [peLoop] at h
  | fuel + 1, net, rm, np, np', u, u', hreg, hwf, h, h' => by
    simp only [peLoop] at h h'
    rw [revise_mir] at h'
    have hreg1 : RegAll (revise net) := regAll_revise net hreg
    have hwf1 : WfAll (revise net) := wfAll_revise net hwf
    cases hA : assemble (revise net) with
    | error e => rw [hA] at h; cases h
    | ok a =>
      cases hA' : assemble (mirNet (revise net)) with
      | error e => rw [hA'] at h'; cases h'
      | ok a' =>
        rw [hA] at h; rw [hA'] at h'
        simp only [] at h h'
        cases hP : Ls.Net.prepare a.np with
        | error e => rw [hP] at h; cases h
        | ok hh =>
          cases hP' : Ls.Net.prepare a'.np with
          | error e => rw [hP'] at h'; cases h'
          | ok hh' =>
            rw [hP] at h; rw [hP'] at h'
            simp only [] at h h'
            have hidx : a'.idx = a.idx := assemble_mir_idx (revise net) a a' hA hA' (regAll_revised _ hreg1)
            have hsc : SingularCoords.singularCoords hh'.Ad (idxFn a'.idx) (ptsOf (mirNet (revise net)))
                = SingularCoords.singularCoords hh.Ad (idxFn a.idx) (ptsOf (revise net)) := by
              rw [ptsOf_mir, hidx]
              unfold SingularCoords.singularCoords
              congr 1
              funext p
              exact hdeg (revise net) a a' hh hh' hreg1 hwf1 hA hA' hP hP' p
            rw [hsc, ptsOf_mir, hidx] at h'
            by_cases hb : (SingularCoords.singularCoords hh.Ad (idxFn a.idx) (ptsOf (revise net))).1 = true
            · rw [if_pos hb] at h h'
              have e : ({ mirNet (revise net) with
                  points := applySingular (mirNet (revise net)).points
                    (SingularCoords.singularCoords hh.Ad (idxFn a.idx) (ptsOf (revise net))).2.1, idx := a.idx } : PE.Net ℝ)
                  = mirNet { revise net with
                      points := applySingular (revise net).points
                        (SingularCoords.singularCoords hh.Ad (idxFn a.idx) (ptsOf (revise net))).2.1, idx := a.idx } := by
                show ({ mirNet (revise net) with
                  points := applySingular ((revise net).points.map mirPoint) _, idx := a.idx } : PE.Net ℝ) = _
                rw [applySingular_mir]
                rfl
              rw [e] at h'
              exact peLoop_mir hdeg fuel _ _ np np' u u' (regAll_step _ _ _ hreg1) (fun c hc => hwf1 c hc) h h'
            · rw [if_neg hb] at h h'
              injection h with h; injection h' with h'
              simp only [Prod.mk.injEq] at h h'
              obtain ⟨h1, h2⟩ := h
              obtain ⟨h1', h2'⟩ := h'
              subst h1 h2 h1' h2'
              refine ⟨rfl, rfl, rfl, ?_⟩
              intro ob hob
              exact hreg1 ob hob


/-- `m_0_apr_` handed over is the network's -/
theorem pe_m0 (net : PE.Net ℝ) (np : Ls.Net.NetProblem ℝ) (u : Unknowns ℝ)
    (h : projectEquations net = .ok (np, u)) : np.m0 = u.net.m0 := by
  obtain ⟨net', a, F⟩ := pe_final net np u h
  obtain ⟨b, Fr⟩ := assemble_fresh net' a F.asm
  rw [F.np_eq, F.u_net]
  exact Fr.m0

/-- the clusters of the network with the pattern of negated observations -/
def signedClusters (net : PE.Net ℝ) : List (List Bool × Ls.Net.Cluster ℝ) :=
  net.clusters.map fun c => (msOf c, ⟨c.cov, c.obs.map (·.active)⟩)

end Gama.C07Mir
