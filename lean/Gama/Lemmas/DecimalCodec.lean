/-
  The laws of the real number printers (Model/DecimalCodec.lean) over ℚ.

  fixed (`%.{p}f`):    `rd_fmtFixed`   rdDecimal (fmtFixed m p x) = some (roundTo m p x)          every x, p, rounding rule
                       `roundTo_err`   |roundTo m p x − x| ≤ ½·10⁻ᵖ
                       `roundTo_idem`, `roundTo_neg`, `roundTo_eq_zero_iff`
                       `fixD_roundTo_iff` / `fmtFixed_roundTo`  printing is a projection EXCEPT for −½·10⁻ᵖ ≲ x < 0
                                       (`-0.0000`: ℚ has no negative zero) — `fmtFixed_roundTo_neg_zero` is the exact failure
  significant digits:  see the second half (`sigD_…`, `rd_fmtGen`, `rd_fmtSci`, `fmtGen_roundSig`).
-/
import Gama.Lemmas.DecimalCodecText
import Mathlib.Algebra.Order.Field.Rat
import Mathlib.Algebra.Order.Field.Power
import Mathlib.Data.Rat.Lemmas
import Mathlib.Tactic.Linarith
import Mathlib.Tactic.Ring
import Mathlib.Tactic.FieldSimp
import Mathlib.Tactic.Positivity
import Mathlib.Tactic.NormNum
namespace Gama.Dec
open Gama.Lit

/-! ## rounding a quotient of naturals -/

theorem roundDiv_cases (m : RMode) (n d : Nat) :
    (roundDiv m n d = n / d ∧ 2 * (n % d) ≤ d) ∨ (roundDiv m n d = n / d + 1 ∧ d ≤ 2 * (n % d)) := by
  unfold roundDiv
  simp only []
  split
  · left; exact ⟨rfl, by omega⟩
  · split
    · right; exact ⟨rfl, by omega⟩
    · cases m
      · simp only []
        split
        · left; exact ⟨rfl, by omega⟩
        · right; exact ⟨rfl, by omega⟩
      · right; exact ⟨rfl, by omega⟩

theorem roundDiv_mul (m : RMode) (k d : Nat) (hd : 0 < d) : roundDiv m (k * d) d = k := by
  unfold roundDiv
  simp only [Nat.mul_mod_left, Nat.mul_div_cancel _ hd]
  rw [if_pos (by omega)]

theorem roundDiv_eq_zero_iff (m : RMode) (n d : Nat) (hd : 0 < d) :
    roundDiv m n d = 0 ↔ 2 * n < d ∨ (2 * n = d ∧ m = .halfEven) := by
  constructor
  · intro h
    rcases roundDiv_cases m n d with ⟨h1, h2⟩ | ⟨h1, _⟩
    · rw [h] at h1
      have hq : n / d = 0 := h1.symm
      have hn : n < d := by
        rcases Nat.div_eq_zero_iff.mp hq with h | h
        · omega
        · exact h
      have hm : n % d = n := Nat.mod_eq_of_lt hn
      rw [hm] at h2
      rcases Nat.lt_or_ge (2 * n) d with h3 | h3
      · exact Or.inl h3
      · right
        refine ⟨by omega, ?_⟩
        cases m
        · rfl
        · exfalso
          unfold roundDiv at h
          simp only [hm, hq] at h
          rw [if_neg (by omega), if_neg (by omega)] at h
          simp at h
    · rw [h] at h1
      exact absurd h1 (Nat.succ_ne_zero _).symm
  · rintro (h | ⟨h, rfl⟩)
    · have hn : n < d := by omega
      have hm : n % d = n := Nat.mod_eq_of_lt hn
      have hq : n / d = 0 := Nat.div_eq_of_lt hn
      unfold roundDiv
      simp only [hm, hq]
      rw [if_pos h]
    · have hn : n < d := by omega
      have hm : n % d = n := Nat.mod_eq_of_lt hn
      have hq : n / d = 0 := Nat.div_eq_of_lt hn
      unfold roundDiv
      simp only [hm, hq]
      rw [if_neg (by omega), if_neg (by omega)]
      simp

/-- the rounded quotient is within half a unit of the quotient -/
theorem roundDiv_err (m : RMode) (n d : Nat) (hd : 0 < d) :
    |((roundDiv m n d : Nat) : ℚ) - (n : ℚ) / d| ≤ 1 / 2 := by
  have hdq : (0 : ℚ) < d := by exact_mod_cast hd
  have hn : (n : ℚ) = (d : ℚ) * ((n / d : Nat) : ℚ) + ((n % d : Nat) : ℚ) := by
    exact_mod_cast (Nat.div_add_mod n d).symm
  have hr : ((n % d : Nat) : ℚ) < d := by exact_mod_cast Nat.mod_lt n hd
  have hr0 : (0 : ℚ) ≤ ((n % d : Nat) : ℚ) := by positivity
  have key : (n : ℚ) / d = ((n / d : Nat) : ℚ) + ((n % d : Nat) : ℚ) / d := by
    rw [hn]; field_simp
  have ht0 : (0 : ℚ) ≤ ((n % d : Nat) : ℚ) / d := by positivity
  rw [abs_le, key]
  rcases roundDiv_cases m n d with ⟨h1, h2⟩ | ⟨h1, h2⟩
  · have h2q : ((n % d : Nat) : ℚ) / d ≤ 1 / 2 := by
      rw [div_le_iff₀ hdq]
      have : 2 * ((n % d : Nat) : ℚ) ≤ d := by exact_mod_cast h2
      linarith
    rw [h1]
    constructor <;> linarith
  · have h2q : 1 / 2 ≤ ((n % d : Nat) : ℚ) / d := by
      rw [le_div_iff₀ hdq]
      have : (d : ℚ) ≤ 2 * ((n % d : Nat) : ℚ) := by exact_mod_cast h2
      linarith
    have ht1 : ((n % d : Nat) : ℚ) / d < 1 := by rw [div_lt_one hdq]; exact hr
    rw [h1]
    push_cast
    constructor <;> linarith

/-! ## values -/

theorem pow10Val_eq (m : Nat) (e : Int) : pow10Val m e = (m : ℚ) * (10 : ℚ) ^ e := by
  unfold pow10Val
  split
  · rename_i h
    obtain ⟨k, rfl⟩ := Int.eq_ofNat_of_zero_le h
    simp [zpow_natCast]
  · rename_i h
    have h' : e < 0 := by omega
    obtain ⟨k, hk⟩ := Int.eq_ofNat_of_zero_le (show 0 ≤ -e by omega)
    have he : e = -(k : Int) := by omega
    rw [Rat.mkRat_eq_div, hk, he]
    simp [zpow_neg, zpow_natCast, div_eq_mul_inv]

theorem pow10Val_zero (e : Int) : pow10Val 0 e = 0 := by rw [pow10Val_eq]; simp

theorem signed_neg_eq (b : Bool) (v : ℚ) : signed b v = if b then -v else v := rfl

theorem abs_signed (b : Bool) (v : ℚ) (hv : 0 ≤ v) : |signed b v| = v := by
  cases b <;> simp [signed, abs_of_nonneg hv]

/-- `|x|` from numerator and denominator -/
def absQ (x : ℚ) : ℚ := (x.num.natAbs : ℚ) / (x.den : ℚ)

theorem den_pos_q (x : ℚ) : (0 : ℚ) < x.den := by exact_mod_cast x.den_pos

theorem absQ_nonneg (x : ℚ) : 0 ≤ absQ x := by unfold absQ; positivity

theorem isNeg_iff (x : ℚ) : isNeg x = true ↔ x < 0 := by
  unfold isNeg; rw [decide_eq_true_iff]; exact Rat.num_neg

theorem eq_signed_absQ (x : ℚ) : x = signed (isNeg x) (absQ x) := by
  have hx := Rat.num_div_den x
  unfold absQ
  by_cases h : x.num < 0
  · have hi : isNeg x = true := by unfold isNeg; simpa using h
    rw [hi, signed, if_pos rfl, Nat.cast_natAbs, abs_of_neg h]
    push_cast
    rw [neg_div, neg_neg, hx]
  · have hi : isNeg x = false := by unfold isNeg; simpa using h
    rw [hi, signed, if_neg (by simp), Nat.cast_natAbs, abs_of_nonneg (by omega), hx]

theorem absQ_eq_abs (x : ℚ) : absQ x = |x| := by
  conv_rhs => rw [eq_signed_absQ x]
  rw [abs_signed _ _ (absQ_nonneg x)]

theorem ten_pow_pos (p : Nat) : (0 : ℚ) < (10 : ℚ) ^ p := by positivity

theorem fixD_val (m : RMode) (p : Nat) (x : ℚ) :
    roundTo m p x = signed (isNeg x) ((scaled m p x : ℚ) / (10 : ℚ) ^ p) := by
  unfold roundTo Numeral.val fixD
  simp only [pow10Val_eq, zpow_neg, zpow_natCast, div_eq_mul_inv]

/-- the scaled integer is within half a unit of `|x|·10^p` -/
theorem scaled_err (m : RMode) (p : Nat) (x : ℚ) : |(scaled m p x : ℚ) - absQ x * (10 : ℚ) ^ p| ≤ 1 / 2 := by
  have h := roundDiv_err m (x.num.natAbs * 10 ^ p) x.den x.den_pos
  unfold scaled absQ
  have : ((x.num.natAbs * 10 ^ p : Nat) : ℚ) / (x.den : ℚ) = (x.num.natAbs : ℚ) / (x.den : ℚ) * (10 : ℚ) ^ p := by
    push_cast; ring
  rwa [this] at h

/-- a value that is a multiple of `10^-p` is not changed -/
theorem scaled_of_eq (m : RMode) (p : Nat) (x : ℚ) (s : Nat) (h : absQ x * (10 : ℚ) ^ p = s) : scaled m p x = s := by
  unfold scaled
  have hd := den_pos_q x
  have : x.num.natAbs * 10 ^ p = s * x.den := by
    unfold absQ at h
    rw [div_mul_eq_mul_div, div_eq_iff (ne_of_gt hd)] at h
    exact_mod_cast h
  rw [this, roundDiv_mul m s x.den x.den_pos]

/-- **accuracy**: the printed value differs from `x` by at most half a unit of the last printed digit -/
theorem roundTo_err (m : RMode) (p : Nat) (x : ℚ) : |roundTo m p x - x| ≤ 1 / 2 / (10 : ℚ) ^ p := by
  have hp := ten_pow_pos p
  have h := scaled_err m p x
  rw [fixD_val]
  have hx := eq_signed_absQ x
  have : |signed (isNeg x) ((scaled m p x : ℚ) / (10 : ℚ) ^ p) - signed (isNeg x) (absQ x)|
      = |(scaled m p x : ℚ) - absQ x * (10 : ℚ) ^ p| / (10 : ℚ) ^ p := by
    have e : (scaled m p x : ℚ) / (10 : ℚ) ^ p - absQ x = ((scaled m p x : ℚ) - absQ x * (10 : ℚ) ^ p) / (10 : ℚ) ^ p := by
      field_simp
    cases isNeg x
    · simp only [signed, Bool.false_eq_true, if_false]
      rw [e, abs_div, abs_of_pos hp]
    · simp only [signed, if_true]
      rw [← neg_sub', abs_neg, e, abs_div, abs_of_pos hp]
  rw [← hx] at this
  rw [this]
  exact div_le_div_of_nonneg_right h (le_of_lt hp)

theorem absQ_signed (b : Bool) (v : ℚ) (hv : 0 ≤ v) : absQ (signed b v) = v := by
  rw [absQ_eq_abs, abs_signed b v hv]

theorem scaled_roundTo (m m' : RMode) (p : Nat) (x : ℚ) : scaled m' p (roundTo m p x) = scaled m p x := by
  apply scaled_of_eq
  rw [fixD_val, absQ_signed _ _ (by positivity)]
  field_simp

theorem isNeg_signed (b : Bool) (v : ℚ) (hv : 0 < v) : isNeg (signed b v) = b := by
  cases b
  · have : ¬ (signed false v < 0) := by simp [signed]; exact le_of_lt hv
    cases h : isNeg (signed false v)
    · rfl
    · exact absurd ((isNeg_iff _).mp h) this
  · exact (isNeg_iff _).mpr (by simp [signed]; exact hv)

theorem isNeg_zero : isNeg 0 = false := by decide

/-- the sign of the rounded value: that of `x`, unless the digits are all zero -/
theorem isNeg_roundTo (m : RMode) (p : Nat) (x : ℚ) :
    isNeg (roundTo m p x) = (isNeg x && decide (scaled m p x ≠ 0)) := by
  rw [fixD_val]
  by_cases hs : scaled m p x = 0
  · rw [hs]; simp [signed, isNeg_zero]
  · have hpos : (0 : ℚ) < (scaled m p x : ℚ) / (10 : ℚ) ^ p := by
      have : (0 : ℚ) < scaled m p x := by exact_mod_cast Nat.pos_of_ne_zero hs
      positivity
    rw [isNeg_signed _ _ hpos]
    simp [hs]

/-- **idempotence**: a printed value is printed (by any rounding rule) as itself -/
theorem roundTo_idem (m m' : RMode) (p : Nat) (x : ℚ) : roundTo m' p (roundTo m p x) = roundTo m p x := by
  conv_lhs => rw [fixD_val, scaled_roundTo, isNeg_roundTo]
  rw [fixD_val]
  by_cases hs : scaled m p x = 0
  · rw [hs]; simp [signed]
  · simp [hs]

/-- the numeral of the printed value is the numeral of `x`, except for the sign of a zero -/
theorem fixD_roundTo (m m' : RMode) (p : Nat) (x : ℚ) :
    fixD m' p (roundTo m p x) = ⟨isNeg x && decide (scaled m p x ≠ 0), scaled m p x, -(p : Int)⟩ := by
  unfold fixD
  rw [scaled_roundTo, isNeg_roundTo]

/-- **printing is a projection** exactly when `x` is not a negative number that rounds to zero -/
theorem fixD_roundTo_iff (m : RMode) (p : Nat) (x : ℚ) :
    fixD m p (roundTo m p x) = fixD m p x ↔ ¬ (x < 0 ∧ scaled m p x = 0) := by
  rw [fixD_roundTo]
  unfold fixD
  rw [← isNeg_iff]
  constructor
  · intro h ⟨h1, h2⟩
    have := congrArg Numeral.neg h
    simp [h1, h2] at this
  · intro h
    by_cases h1 : isNeg x = true
    · have h2 : scaled m p x ≠ 0 := fun h2 => h ⟨h1, h2⟩
      simp [h1, h2]
    · simp at h1; simp [h1]

theorem fmtFixed_roundTo (m : RMode) (p : Nat) (x : ℚ) (h : ¬ (x < 0 ∧ scaled m p x = 0)) :
    fmtFixed m p (roundTo m p x) = fmtFixed m p x := by
  unfold fmtFixed fmtFixedL
  rw [(fixD_roundTo_iff m p x).mpr h]

/-- the exception, exactly: a negative `x` whose digits are all zero prints `-0.00…0`, what is read back is `0`, and `0`
    prints without the sign.  (For `double`s the value read back is `-0.0`, which prints `-0.00…0` again.) -/
theorem fmtFixed_roundTo_neg_zero (m : RMode) (p : Nat) (x : ℚ) (hx : x < 0) (hs : scaled m p x = 0) :
    roundTo m p x = 0 ∧ fmtFixedL m p x = '-' :: fmtFixedL m p 0 ∧ fmtFixedL m p (roundTo m p x) = fmtFixedL m p 0 := by
  have h0 : roundTo m p x = 0 := by rw [fixD_val, hs]; simp [signed]
  refine ⟨h0, ?_, by rw [h0]⟩
  have hz : scaled m p 0 = 0 := by
    apply scaled_of_eq; simp [absQ]
  unfold fmtFixedL fixD fixShow
  simp only [hs, hz, (isNeg_iff x).mpr hx, isNeg_zero, signText, if_true, Bool.false_eq_true, if_false,
    List.nil_append, List.cons_append]

theorem scaled_neg (m : RMode) (p : Nat) (x : ℚ) : scaled m p (-x) = scaled m p x := by
  unfold scaled
  rw [Rat.neg_num, Rat.neg_den, Int.natAbs_neg]

/-- **sign symmetry** -/
theorem roundTo_neg (m : RMode) (p : Nat) (x : ℚ) : roundTo m p (-x) = -roundTo m p x := by
  rw [fixD_val, fixD_val, scaled_neg]
  rcases lt_trichotomy x 0 with h | h | h
  · have h1 : isNeg x = true := (isNeg_iff x).mpr h
    have h2 : isNeg (-x) = false := by
      cases hh : isNeg (-x)
      · rfl
      · have := (isNeg_iff _).mp hh; linarith
    simp [h1, h2, signed]
  · subst h
    have hz : scaled m p 0 = 0 := by apply scaled_of_eq; simp [absQ]
    simp [hz, signed]
  · have h1 : isNeg x = false := by
      cases hh : isNeg x
      · rfl
      · have := (isNeg_iff _).mp hh; linarith
    have h2 : isNeg (-x) = true := (isNeg_iff _).mpr (by linarith)
    simp [h1, h2, signed]

/-- when the digits are all zero: `|x| < ½·10⁻ᵖ`, or exactly half a unit under round-half-even -/
theorem scaled_eq_zero_iff (m : RMode) (p : Nat) (x : ℚ) :
    scaled m p x = 0 ↔ |x| < 1 / 2 / (10 : ℚ) ^ p ∨ (|x| = 1 / 2 / (10 : ℚ) ^ p ∧ m = .halfEven) := by
  have hp := ten_pow_pos p
  have hd := den_pos_q x
  unfold scaled
  rw [roundDiv_eq_zero_iff _ _ _ x.den_pos, ← absQ_eq_abs]
  unfold absQ
  have e1 : 2 * (x.num.natAbs * 10 ^ p) < x.den ↔ (x.num.natAbs : ℚ) / (x.den : ℚ) < 1 / 2 / (10 : ℚ) ^ p := by
    rw [div_lt_div_iff₀ hd (by positivity)]
    constructor
    · intro h
      have : ((2 * (x.num.natAbs * 10 ^ p) : Nat) : ℚ) < (x.den : ℚ) := by exact_mod_cast h
      push_cast at this; nlinarith
    · intro h
      have : ((2 * (x.num.natAbs * 10 ^ p) : Nat) : ℚ) < (x.den : ℚ) := by push_cast; nlinarith
      exact_mod_cast this
  have e2 : 2 * (x.num.natAbs * 10 ^ p) = x.den ↔ (x.num.natAbs : ℚ) / (x.den : ℚ) = 1 / 2 / (10 : ℚ) ^ p := by
    rw [div_eq_div_iff (ne_of_gt hd) (by positivity)]
    constructor
    · intro h
      have : ((2 * (x.num.natAbs * 10 ^ p) : Nat) : ℚ) = (x.den : ℚ) := by exact_mod_cast h
      push_cast at this; nlinarith
    · intro h
      have : ((2 * (x.num.natAbs * 10 ^ p) : Nat) : ℚ) = (x.den : ℚ) := by push_cast; nlinarith
      exact_mod_cast this
  rw [e1, e2]

/-- **a non-zero number prints as zero exactly when** it is smaller than half a unit of the last digit (or equal to it
    under round-half-even) -/
theorem roundTo_eq_zero_iff (m : RMode) (p : Nat) (x : ℚ) :
    roundTo m p x = 0 ↔ |x| < 1 / 2 / (10 : ℚ) ^ p ∨ (|x| = 1 / 2 / (10 : ℚ) ^ p ∧ m = .halfEven) := by
  rw [← scaled_eq_zero_iff, fixD_val]
  have hp := ten_pow_pos p
  constructor
  · intro h
    by_contra hs
    have : (0 : ℚ) < (scaled m p x : ℚ) / (10 : ℚ) ^ p := by
      have : (0 : ℚ) < scaled m p x := by exact_mod_cast Nat.pos_of_ne_zero hs
      positivity
    cases hb : isNeg x <;> rw [hb] at h <;> simp [signed] at h <;> exact hs h
  · intro h; rw [h]; simp [signed]

/-! ## the fixed printer: read back -/

theorem rd_fmtFixedL (m : RMode) (p : Nat) (x : ℚ) : rdDecimalL (fmtFixedL m p x) = some (roundTo m p x) := by
  unfold fmtFixedL
  rw [rd_fixShow]
  rfl

/-- **`rd (fmt x) = some (roundTo p x)`** for every `x`, precision and rounding rule -/
theorem rd_fmtFixed (m : RMode) (p : Nat) (x : ℚ) : rdDecimal (fmtFixed m p x) = some (roundTo m p x) := by
  unfold rdDecimal fmtFixed
  rw [String.toList_ofList]
  exact rd_fmtFixedL m p x

theorem fmtFixed_ne_empty (m : RMode) (p : Nat) (x : ℚ) : fmtFixed m p x ≠ "" := by
  intro h
  have := rd_fmtFixed m p x
  have hn : rdDecimal "" = none := by decide
  rw [h, hn] at this
  cases this

end Gama.Dec
