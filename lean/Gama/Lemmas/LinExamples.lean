/-
  C05 — concrete objects for the non-vacuity examples of `Props/C05.lean` (round 3).
-/
import Gama.Lemmas.LinJacobian
namespace Gama.Lin
open Real

/-- two free points 5 m apart (3-4-5), everything else at the origin -/
noncomputable def exNet : Net ℝ :=
  { pt := fun i => if i = 8 then ⟨3, 4, 0, .free, .free⟩ else ⟨0, 0, 0, .free, .free⟩, ori := fun _ => 0, xNorth := 0 }
/-- a point levelled to itself, then the 5 m distance -/
noncomputable def exObs : List (NObs ℝ) := [⟨.h_diff, 0, 7, 7, 0, 1⟩, ⟨.distance, 0, 7, 8, 0, 5⟩]

theorem ex_hdist : hdist (exNet.view ⟨.distance, 0, 7, 8, 0, 5⟩) = 5 := by
  simp [hdist, dX, dY, Net.view, exNet]
  rw [show (3:ℝ) * 3 + 4 * 4 = 5 ^ 2 by norm_num]; exact Real.sqrt_sq (by norm_num)


end Gama.Lin
