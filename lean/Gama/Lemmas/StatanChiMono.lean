/-
  C17, round 9: monotonicity of `Chi_square` (n ≥ 3) in the normal critical value it is computed from.

  `Chi_square(p, n) = n · z³`, `z = (|t| ≥ (n−1)/4 ? A : B)(1/n, t/√n)`, `t = Normal(p)` — the value depends on `p` through
  `t` only (`chiSquare_eq_chiZ`).  Both polynomials (REGENERATED: `StatanGen.chiPolyA/B`) are strictly increasing in
  `f2 = t/√n` on `[−7/4, 7/4]` for every `0 ≤ 1/n ≤ 1/3`; the proof expands them against the regenerated text (`ring`),
  so a changed coefficient in statan.cpp breaks it (numbers: tools/gen/c17_chimono.py).
  The two pieces do NOT always join monotonically: at `t = −(n−1)/4` the step `A − B` is positive for n = 9
  (`chi_junction_9_fails`, a finding replayed on the C++: n = 7, 8, 9).
-/
import Gama.Lemmas.StatanMono
import Gama.Lemmas.StatanHill
namespace Gama.Statan
open Real

/-- `|v^(k+1) − u^(k+1)| ≤ (k+1)·F^k·(v − u)` on `[−F, F]` -/
theorem pow_sub_pow_le {F u v : ℝ} (hu : |u| ≤ F) (hv : |v| ≤ F) (huv : u ≤ v) (k : ℕ) :
    |v ^ (k + 1) - u ^ (k + 1)| ≤ ((k : ℝ) + 1) * F ^ k * (v - u) := by
  have hF : 0 ≤ F := le_trans (abs_nonneg u) hu
  have hd : 0 ≤ v - u := by linarith
  induction k with
  | zero => simp [abs_of_nonneg hd]
  | succ k ih =>
    have e : v ^ (k + 1 + 1) - u ^ (k + 1 + 1) = v * (v ^ (k + 1) - u ^ (k + 1)) + u ^ (k + 1) * (v - u) := by ring
    have h1 : |v * (v ^ (k + 1) - u ^ (k + 1))| ≤ F * (((k : ℝ) + 1) * F ^ k * (v - u)) := by
      rw [abs_mul]; exact mul_le_mul hv ih (abs_nonneg _) hF
    have h2 : |u ^ (k + 1) * (v - u)| ≤ F ^ (k + 1) * (v - u) := by
      rw [abs_mul, abs_of_nonneg hd, abs_pow]
      exact mul_le_mul_of_nonneg_right (pow_le_pow_left₀ (abs_nonneg u) hu _) hd
    have h3 := abs_add_le (v * (v ^ (k + 1) - u ^ (k + 1))) (u ^ (k + 1) * (v - u))
    rw [e]
    have e2 : F * (((k : ℝ) + 1) * F ^ k * (v - u)) + F ^ (k + 1) * (v - u)
        = (((k + 1 : ℕ) : ℝ) + 1) * F ^ (k + 1) * (v - u) := by push_cast; ring
    linarith

theorem mul_ge_of_abs {c Δ C D : ℝ} (hc : |c| ≤ C) (hΔ : |Δ| ≤ D) : -(C * D) ≤ c * Δ := by
  have h2 : |c * Δ| ≤ C * D := by
    rw [abs_mul]; exact mul_le_mul hc hΔ (abs_nonneg _) (le_trans (abs_nonneg _) hc)
  linarith [neg_abs_le (c * Δ)]

/-- `chiPolyA f1 ·` is strictly increasing on `[-7/4, 7/4]` for every `0 ≤ f1 ≤ 1/3` (n ≥ 3): coefficient of the linear term
    minus the Lipschitz constants `k·(7/4)^(k-1)·|c_k|` of the higher terms is positive (GENERATED numbers: tools/gen/c17_chimono.py) -/
theorem chiPolyA_strictMono {f1 u v : ℝ} (h0 : 0 ≤ f1) (h1 : f1 ≤ 1 / 3) (hu : |u| ≤ 7 / 4) (hv : |v| ≤ 7 / 4) (huv : u < v) :
    StatanGen.chiPolyA f1 u < StatanGen.chiPolyA f1 v := by
  have hd : 0 < v - u := by linarith
  have P := pow_sub_pow_le hu hv huv.le
  have hf2 : f1 * f1 ≤ 1 / 9 := by nlinarith
  have hf2' : 0 ≤ f1 * f1 := by positivity
  have hf3 : f1 * f1 * f1 ≤ 1 / 27 := by nlinarith
  have hf3' : 0 ≤ f1 * f1 * f1 := by positivity
  have p2 : |v ^ 2 - u ^ 2| ≤ (7 / 2 : ℝ) * (v - u) := by have h := P 1; norm_num at h; linarith
  have c2 : |((337007 / 2500000000 : ℝ) + (564093 / 50000000 : ℝ) * f1 + (2277679 / 100000000 : ℝ) * (f1 * f1))| ≤ (36147247 / 5625000000 : ℝ) := by rw [abs_le]; constructor <;> linarith
  have t2 := mul_ge_of_abs c2 p2
  have p3 : |v ^ 3 - u ^ 3| ≤ (147 / 16 : ℝ) * (v - u) := by have h := P 2; norm_num at h; linarith
  have c3 : |((-8553069 / 1000000000 : ℝ) + (-1153761 / 100000000 : ℝ) * f1 + (-1323293 / 100000000 : ℝ) * (f1 * f1))| ≤ (124823381 / 9000000000 : ℝ) := by rw [abs_le]; constructor <;> linarith
  have t3 := mul_ge_of_abs c3 p3
  have p4 : |v ^ 4 - u ^ 4| ≤ (343 / 16 : ℝ) * (v - u) := by have h := P 3; norm_num at h; linarith
  have c4 : |((156279 / 50000000 : ℝ) + (2584827 / 500000000 : ℝ) * f1 + (-1737589 / 250000000 : ℝ) * (f1 * f1))| ≤ (25294769 / 4500000000 : ℝ) := by rw [abs_le]; constructor <;> linarith
  have t4 := mul_ge_of_abs c4 p4
  have p5 : |v ^ 5 - u ^ 5| ≤ (12005 / 256 : ℝ) * (v - u) := by have h := P 4; norm_num at h; linarith
  have c5 : |((-2106703 / 2500000000 : ℝ) + (253001 / 100000000 : ℝ) * f1 + (530219 / 500000000 : ℝ) * (f1 * f1))| ≤ (40586497 / 22500000000 : ℝ) := by rw [abs_le]; constructor <;> linarith
  have t5 := mul_ge_of_abs c5 p5
  have p6 : |v ^ 6 - u ^ 6| ≤ (50421 / 512 : ℝ) * (v - u) := by have h := P 5; norm_num at h; linarith
  have c6 : |((9780499 / 100000000000 : ℝ) + (-1450117 / 1000000000 : ℝ) * f1 + (782663 / 500000000 : ℝ) * (f1 * f1))| ≤ (679592191 / 900000000000 : ℝ) := by rw [abs_le]; constructor <;> linarith
  have t6 := mul_ge_of_abs c6 p6
  have c1 : (4233560893 / 9000000000 : ℝ) ≤ ((4713941 / 10000000 : ℝ) + (2607083 / 100000000 : ℝ) * f1 + (-8986007 / 1000000000 : ℝ) * (f1 * f1)) := by linarith
  have t1 := mul_le_mul_of_nonneg_right c1 hd.le
  have e : StatanGen.chiPolyA f1 v - StatanGen.chiPolyA f1 u = ((4713941 / 10000000 : ℝ) + (2607083 / 100000000 : ℝ) * f1 + (-8986007 / 1000000000 : ℝ) * (f1 * f1)) * (v - u) + ((337007 / 2500000000 : ℝ) + (564093 / 50000000 : ℝ) * f1 + (2277679 / 100000000 : ℝ) * (f1 * f1)) * (v ^ 2 - u ^ 2) + ((-8553069 / 1000000000 : ℝ) + (-1153761 / 100000000 : ℝ) * f1 + (-1323293 / 100000000 : ℝ) * (f1 * f1)) * (v ^ 3 - u ^ 3) + ((156279 / 50000000 : ℝ) + (2584827 / 500000000 : ℝ) * f1 + (-1737589 / 250000000 : ℝ) * (f1 * f1)) * (v ^ 4 - u ^ 4) + ((-2106703 / 2500000000 : ℝ) + (253001 / 100000000 : ℝ) * f1 + (530219 / 500000000 : ℝ) * (f1 * f1)) * (v ^ 5 - u ^ 5) + ((9780499 / 100000000000 : ℝ) + (-1450117 / 1000000000 : ℝ) * f1 + (782663 / 500000000 : ℝ) * (f1 * f1)) * (v ^ 6 - u ^ 6) := by
    unfold StatanGen.chiPolyA; simp only [scalar_ofSci_real, Nat.cast_ofNat]; ring
  linarith [e, t1, t2, t3, t4, t5, t6, hd]

/-- `chiPolyB f1 ·` is strictly increasing on `[-7/4, 7/4]` for every `0 ≤ f1 ≤ 1/3` (n ≥ 3): coefficient of the linear term
    minus the Lipschitz constants `k·(7/4)^(k-1)·|c_k|` of the higher terms is positive (GENERATED numbers: tools/gen/c17_chimono.py) -/
theorem chiPolyB_strictMono {f1 u v : ℝ} (h0 : 0 ≤ f1) (h1 : f1 ≤ 1 / 3) (hu : |u| ≤ 7 / 4) (hv : |v| ≤ 7 / 4) (huv : u < v) :
    StatanGen.chiPolyB f1 u < StatanGen.chiPolyB f1 v := by
  have hd : 0 < v - u := by linarith
  have P := pow_sub_pow_le hu hv huv.le
  have hf2 : f1 * f1 ≤ 1 / 9 := by nlinarith
  have hf2' : 0 ≤ f1 * f1 := by positivity
  have hf3 : f1 * f1 * f1 ≤ 1 / 27 := by nlinarith
  have hf3' : 0 ≤ f1 * f1 * f1 := by positivity
  have p2 : |v ^ 2 - u ^ 2| ≤ (7 / 2 : ℝ) * (v - u) := by have h := P 1; norm_num at h; linarith
  have c2 : |((164609 / 12500000 : ℝ) * f1 + (1400483 / 100000000 : ℝ) * (f1 * f1))| ≤ (5351099 / 900000000 : ℝ) := by rw [abs_le]; constructor <;> linarith
  have t2 := mul_ge_of_abs c2 p2
  have p3 : |v ^ 3 - u ^ 3| ≤ (147 / 16 : ℝ) * (v - u) := by have h := P 2; norm_num at h; linarith
  have c3 : |((-8729713 / 1000000000 : ℝ) + (-9699681 / 1000000000 : ℝ) * f1 + (-588609 / 100000000 : ℝ) * (f1 * f1))| ≤ (252339 / 20000000 : ℝ) := by rw [abs_le]; constructor <;> linarith
  have t3 := mul_ge_of_abs c3 p3
  have p4 : |v ^ 4 - u ^ 4| ≤ (343 / 16 : ℝ) * (v - u) := by have h := P 3; norm_num at h; linarith
  have c4 : |((3292181 / 1000000000 : ℝ) + (3135411 / 1000000000 : ℝ) * f1)| ≤ (2168659 / 500000000 : ℝ) := by rw [abs_le]; constructor <;> linarith
  have t4 := mul_ge_of_abs c4 p4
  have p5 : |v ^ 5 - u ^ 5| ≤ (12005 / 256 : ℝ) * (v - u) := by have h := P 4; norm_num at h; linarith
  have c5 : |((-7274761 / 10000000000 : ℝ) + (-682121 / 2500000000 : ℝ) * f1)| ≤ (24552767 / 30000000000 : ℝ) := by rw [abs_le]; constructor <;> linarith
  have t5 := mul_ge_of_abs c5 p5
  have p6 : |v ^ 6 - u ^ 6| ≤ (50421 / 512 : ℝ) * (v - u) := by have h := P 5; norm_num at h; linarith
  have c6 : |((3483789 / 100000000000 : ℝ))| ≤ (3483789 / 100000000000 : ℝ) := by rw [abs_le]; constructor <;> linarith
  have t6 := mul_ge_of_abs c6 p6
  have p7 : |v ^ 7 - u ^ 7| ≤ (823543 / 4096 : ℝ) * (v - u) := by have h := P 6; norm_num at h; linarith
  have c7 : |((2703337 / 50000000000 : ℝ))| ≤ (2703337 / 50000000000 : ℝ) := by rw [abs_le]; constructor <;> linarith
  have t7 := mul_ge_of_abs c7 p7
  have c1 : (317023303 / 675000000 : ℝ) ≤ ((942809 / 2000000 : ℝ) + (1309457 / 50000000 : ℝ) * f1 + (-545607 / 50000000 : ℝ) * (f1 * f1) + (-89081 / 6250000 : ℝ) * (f1 * f1 * f1)) := by linarith
  have t1 := mul_le_mul_of_nonneg_right c1 hd.le
  have e : StatanGen.chiPolyB f1 v - StatanGen.chiPolyB f1 u = ((942809 / 2000000 : ℝ) + (1309457 / 50000000 : ℝ) * f1 + (-545607 / 50000000 : ℝ) * (f1 * f1) + (-89081 / 6250000 : ℝ) * (f1 * f1 * f1)) * (v - u) + ((164609 / 12500000 : ℝ) * f1 + (1400483 / 100000000 : ℝ) * (f1 * f1)) * (v ^ 2 - u ^ 2) + ((-8729713 / 1000000000 : ℝ) + (-9699681 / 1000000000 : ℝ) * f1 + (-588609 / 100000000 : ℝ) * (f1 * f1)) * (v ^ 3 - u ^ 3) + ((3292181 / 1000000000 : ℝ) + (3135411 / 1000000000 : ℝ) * f1) * (v ^ 4 - u ^ 4) + ((-7274761 / 10000000000 : ℝ) + (-682121 / 2500000000 : ℝ) * f1) * (v ^ 5 - u ^ 5) + ((3483789 / 100000000000 : ℝ)) * (v ^ 6 - u ^ 6) + ((2703337 / 50000000000 : ℝ)) * (v ^ 7 - u ^ 7) := by
    unfold StatanGen.chiPolyB; simp only [scalar_ofSci_real, Nat.cast_ofNat]; ring
  linarith [e, t1, t2, t3, t4, t5, t6, t7, hd]

/-! ### `Chi_square` as a function of the normal critical value -/

/-- the cube root of `Chi_square(p, n)/n` as a function of `t = Normal(p)`: selector and both polynomials regenerated -/
noncomputable def chiZ (n : ℤ) (t : ℝ) : ℝ :=
  if StatanGen.chiSel n t then StatanGen.chiPolyA (1 / (n : ℝ)) (Real.sqrt (1 / (n : ℝ)) * t)
  else StatanGen.chiPolyB (1 / (n : ℝ)) (Real.sqrt (1 / (n : ℝ)) * t)

/-- n ≥ 3: `Chi_square(p, n) = n · chiZ n (Normal p)³` — the probability enters through `Normal(p)` only -/
theorem chiSquare_eq_chiZ (fuel : ℕ) (p : ℝ) {n : ℤ} (hn : 3 ≤ n) :
    chiSquare fuel p n = (n : ℝ) * chiZ n (normal fuel p) ^ 3 := by
  unfold chiSquare chiZ
  rw [if_neg (by omega), if_neg (by omega)]
  simp only [ofInt_real, scalar_sqrt_real]
  split_ifs <;> ring

/-- the window `t² ≤ (49/16)·n` is `|t/√n| ≤ 7/4` -/
theorem chi_window {n : ℤ} (hn : 3 ≤ n) {t : ℝ} (ht : t ^ 2 ≤ 49 / 16 * (n : ℝ)) :
    |Real.sqrt (1 / (n : ℝ)) * t| ≤ 7 / 4 := by
  have hn' : (0 : ℝ) < (n : ℝ) := by exact_mod_cast (by omega : (0 : ℤ) < n)
  have hs : Real.sqrt (1 / (n : ℝ)) ^ 2 = 1 / (n : ℝ) := Real.sq_sqrt (by positivity)
  have h : (Real.sqrt (1 / (n : ℝ)) * t) ^ 2 ≤ (7 / 4 : ℝ) ^ 2 := by
    rw [mul_pow, hs]
    have : 1 / (n : ℝ) * t ^ 2 ≤ 1 / (n : ℝ) * (49 / 16 * (n : ℝ)) := by gcongr
    have e : 1 / (n : ℝ) * (49 / 16 * (n : ℝ)) = (7 / 4 : ℝ) ^ 2 := by field_simp; norm_num
    linarith
  exact abs_le_of_sq_le_sq h (by norm_num)

/-- **piecewise monotone**: inside the window and inside one piece of the selector, `chiZ n` (hence `Chi_square`) is
    strictly increasing in the normal critical value, every n ≥ 3 -/
theorem chiZ_strictMono_piece {n : ℤ} (hn : 3 ≤ n) {s t : ℝ} (hst : s < t)
    (hsel : StatanGen.chiSel n s = StatanGen.chiSel n t)
    (hs : s ^ 2 ≤ 49 / 16 * (n : ℝ)) (ht : t ^ 2 ≤ 49 / 16 * (n : ℝ)) : chiZ n s < chiZ n t := by
  have hn' : (3 : ℝ) ≤ (n : ℝ) := by exact_mod_cast hn
  have h0 : (0 : ℝ) ≤ 1 / (n : ℝ) := by positivity
  have h1 : 1 / (n : ℝ) ≤ 1 / 3 := by
    rw [div_le_div_iff₀ (by linarith) (by norm_num)]; linarith
  have hq : 0 < Real.sqrt (1 / (n : ℝ)) := Real.sqrt_pos.mpr (by positivity)
  have huv : Real.sqrt (1 / (n : ℝ)) * s < Real.sqrt (1 / (n : ℝ)) * t := mul_lt_mul_of_pos_left hst hq
  unfold chiZ
  rw [hsel]
  split_ifs
  · exact chiPolyA_strictMono h0 h1 (chi_window hn hs) (chi_window hn ht) huv
  · exact chiPolyB_strictMono h0 h1 (chi_window hn hs) (chi_window hn ht) huv

/-- the cube keeps the order (no sign condition: odd power) -/
theorem chi_cube_lt {n : ℤ} (hn : 3 ≤ n) {a b : ℝ} (h : a < b) : (n : ℝ) * a ^ 3 < (n : ℝ) * b ^ 3 := by
  have hn' : (0 : ℝ) < (n : ℝ) := by exact_mod_cast (by omega : (0 : ℤ) < n)
  have : a ^ 3 < b ^ 3 := (Odd.strictMono_pow (by decide : Odd 3)) h
  exact mul_lt_mul_of_pos_left this hn'

/-- `Chi_square` strictly decreasing in p wherever `Normal` is (that is the hypothesis `hN`), inside the window and
    inside one piece of the selector -/
theorem chiSquare_anti_of_normal (fuel : ℕ) {n : ℤ} (hn : 3 ≤ n) {p q : ℝ}
    (hN : normal fuel q < normal fuel p)
    (hsel : StatanGen.chiSel n (normal fuel q) = StatanGen.chiSel n (normal fuel p))
    (hq : normal fuel q ^ 2 ≤ 49 / 16 * (n : ℝ)) (hp : normal fuel p ^ 2 ≤ 49 / 16 * (n : ℝ)) :
    chiSquare fuel q n < chiSquare fuel p n := by
  rw [chiSquare_eq_chiZ fuel q hn, chiSquare_eq_chiZ fuel p hn]
  exact chi_cube_lt hn (chiZ_strictMono_piece hn hN hsel hq hp)

/-! ### the junctions of the two pieces (`|t| = (n−1)/4`), for the n with a rational root -/

theorem chiPolyA_rat (f1 f2 : ℝ) : StatanGen.chiPolyA f1 f2 =
    (((((((0.1565326e-2*f2 + 0.1060438e-2)*f2 - 0.6950356e-2)*f2 - 0.1323293e-1)*f2 + 0.2277679e-1)*f2 - 0.8986007e-2)*f2 - 0.1513904e-1)*f1+((((((0.253001e-2 - 0.1450117e-2*f2)*f2 + 0.5169654e-2)*f2 - 0.1153761e-1)*f2 + 0.1128186e-1)*f2 + 0.2607083e-1)*f2 - 0.2237368))*f1+(((((0.9780499e-4*f2 - 0.8426812e-3)*f2 + 0.312558e-2)*f2 - 0.8553069e-2)*f2 + 0.1348028e-3)*f2 + 0.4713941)*f2 + 1.0000886 := by
  unfold StatanGen.chiPolyA; simp only [scalar_ofSci_real, Nat.cast_ofNat]; ring

theorem chiPolyB_rat (f1 f2 : ℝ) : StatanGen.chiPolyB f1 f2 =
    (((0.1264616e-1 - 0.1425296e-1*f2)*f1+(((0.1400483e-1 - 0.588609e-2*f2)*f2 - 0.1091214e-1)*f2 - 0.2304527e-1))*f1 + (((((0.3135411e-2 - 0.2728484e-3*f2)*f2 - 0.9699681e-2)*f2 + 0.1316872e-1)*f2+0.2618914e-1)*f2-0.2222222))*f1+(((((0.5406674e-4*f2+0.3483789e-4)*f2-0.7274761e-3)*f2+0.3292181e-2)*f2-0.8729713e-2)*f2*f2+0.4714045)*f2+1 := by
  unfold StatanGen.chiPolyB; simp only [scalar_ofSci_real, Nat.cast_ofNat]; ring

/-- n = 4 (junction |t| = 3/4, f2 = ±3/8) and n = 16 (|t| = 15/4, f2 = ±15/16): the pieces join in the right order -/
theorem chi_junction_4_16 :
    StatanGen.chiPolyB (1 / 4 : ℝ) (3 / 8) < StatanGen.chiPolyA (1 / 4) (3 / 8) ∧
    StatanGen.chiPolyA (1 / 4 : ℝ) (-(3 / 8)) < StatanGen.chiPolyB (1 / 4) (-(3 / 8)) ∧
    StatanGen.chiPolyB (1 / 16 : ℝ) (15 / 16) < StatanGen.chiPolyA (1 / 16) (15 / 16) ∧
    StatanGen.chiPolyA (1 / 16 : ℝ) (-(15 / 16)) < StatanGen.chiPolyB (1 / 16) (-(15 / 16)) := by
  simp only [chiPolyA_rat, chiPolyB_rat]; norm_num

/-- n = 9, junction t = −2 (f2 = −2/3, p = Φ(2) = 0.97725): the piece used below the junction (A) lies ABOVE the piece
    used above it (B) — a downward step of `Chi_square` where it should increase (upper junction t = +2 is in order) -/
theorem chi_junction_9_fails :
    StatanGen.chiPolyB (1 / 9 : ℝ) (-(2 / 3)) < StatanGen.chiPolyA (1 / 9) (-(2 / 3)) ∧
    StatanGen.chiPolyB (1 / 9 : ℝ) (2 / 3) < StatanGen.chiPolyA (1 / 9) (2 / 3) := by
  simp only [chiPolyA_rat, chiPolyB_rat]; norm_num

/-- extreme lower tail, n = 4 (f2 = t/2): polynomial A turns round below t ≈ −5.27 — C17-F1 in the model -/
theorem chi_extreme_tail_4_fails :
    StatanGen.chiPolyA (1 / 4 : ℝ) (-(11 / 4)) < StatanGen.chiPolyA (1 / 4) (-3) := by
  simp only [chiPolyA_rat]; norm_num

end Gama.Statan
