/-
  `CovMat::cholDec` (model `cholDec`, Model/BandChol.lean) over a linearly ordered field:
  if the factorisation is not rejected then every pivot is `> Tol ≥ 0` and
  `C = L D Lᵀ` entrywise, where `D(r) = F(r,r)`, `L(i,r) = F(r,i)` (`r < i`), `L(i,i) = 1` are read
  from the result `F` with the band convention (entries outside the band are 0: no fill).
-/
import Gama.Lemmas.CovCholStep
import Gama.Lemmas.CovField
import Mathlib.Algebra.BigOperators.Intervals
import Mathlib.Tactic.FieldSimp
import Mathlib.Tactic.Ring
import Mathlib.Tactic.Linarith
namespace Gama.Cov
open Finset Packed CovMat

set_option linter.unusedSectionVars false

/-- carrier of the square-root function, so that `fieldScalar` can be a local instance -/
class SqrtFn (K : Type) where
  sq : K → K

variable {K : Type} [Field K] [LinearOrder K] [IsStrictOrderedRing K] [SqrtFn K]

@[reducible] local instance scalarOfField : Scalar K := fieldScalar K SqrtFn.sq

/-- entries after one iteration, for EVERY upper pair `1 ≤ i ≤ j ≤ N` (inside or outside the band) -/
theorem cholStep_get {m : CovMat K} (hm : m.WF) {row : Nat} (d : K) (hrow : 1 ≤ row) (hrN : row ≤ m.dim)
    (i j : Nat) (hi : 1 ≤ i) (hij : i ≤ j) (hj : j ≤ m.dim) :
    (cholStep row d m).get i j =
      if i < row then m.get i j
      else if i = row then (if j = row then m.get row row else m.get row j / d)
      else m.get i j - m.get row i / d * m.get row j := by
  obtain ⟨hsame, hspec⟩ := cholStep_spec hm d hrow hrN
  by_cases hin : j ≤ i + m.band
  · have hb : InBand m.dim m.band i j := ⟨hi, hij, hj, hin⟩
    rw [hspec i j hb]
    by_cases h1 : i < row
    · rw [if_neg (by omega), if_neg (by omega), if_pos h1]
    · rw [if_neg h1]
      by_cases h2 : i = row
      · subst h2
        rw [if_pos rfl]
        by_cases h3 : j = i
        · subst h3; rw [if_neg (by omega), if_neg (by omega), if_pos rfl]
        · rw [if_pos ⟨rfl, by omega⟩, if_neg h3]
      · rw [if_neg (by omega), if_neg h2]
        by_cases h3 : j ≤ row + min m.band (m.dim - row)
        · rw [if_pos ⟨by omega, h3⟩]
        · rw [if_neg (by omega)]
          have hz : m.get row j = 0 := get_outside m (by omega) (by omega)
          rw [hz]
          show m.get i j = m.get i j - m.get row i / d * 0
          rw [mul_zero, sub_zero]
  · have hz : (cholStep row d m).get i j = 0 :=
      get_outside _ hij (by rw [hsame.2.2]; omega)
    have hz' : m.get i j = 0 := get_outside m hij (by omega)
    rw [hz]
    by_cases h1 : i < row
    · rw [if_pos h1, hz']
    · rw [if_neg h1]
      by_cases h2 : i = row
      · subst h2
        rw [if_pos rfl, if_neg (by omega), hz']
        show (0 : K) = 0 / d
        rw [zero_div]
      · rw [if_neg h2, hz']
        have hz2 : m.get row j = 0 := get_outside m (by omega) (by omega)
        rw [hz2]
        show (0 : K) = 0 - m.get row i / d * 0
        rw [mul_zero, sub_zero]

/-- invariant after `k` rows: rows `≤ k` are final and reproduce `C`; rows `> k` hold the Schur complement -/
structure CholInv (C a : CovMat K) (k : Nat) : Prop where
  same : Same C a
  done : ∀ i j, 1 ≤ i → i ≤ k → i ≤ j → j ≤ C.dim →
    C.get i j = (∑ r ∈ Ico 1 i, a.get r i * a.get r r * a.get r j) + a.get i i * (if i = j then 1 else a.get i j)
  rest : ∀ i j, k < i → i ≤ j → j ≤ C.dim →
    C.get i j = (∑ r ∈ Ico 1 (k + 1), a.get r i * a.get r r * a.get r j) + a.get i j
  pos  : ∀ i, 1 ≤ i → i ≤ k → 0 < a.get i i

theorem cholInv_init {C : CovMat K} (h : C.WF) : CholInv C C 0 := by
  refine ⟨Same.refl h, ?_, ?_, ?_⟩
  · intro i j h1 h2; omega
  · intro i j _ _ _; simp
  · intro i h1 h2; omega

theorem cholInv_step {C a : CovMat K} {k : Nat} (inv : CholInv C a k) (hk : k < C.dim)
    (hp : 0 < a.get (k + 1) (k + 1)) :
    CholInv C (cholStep (k + 1) (a.get (k + 1) (k + 1)) a) (k + 1) := by
  obtain ⟨⟨hw, hd, hb⟩, hdone, hrest, hpos⟩ := inv
  set d := a.get (k + 1) (k + 1) with hdef
  have hd0 : d ≠ 0 := ne_of_gt hp
  have hk1 : k + 1 ≤ C.dim := by omega
  have hget : ∀ i j, 1 ≤ i → i ≤ j → j ≤ C.dim →
      (cholStep (k + 1) d a).get i j =
        if i < k + 1 then a.get i j
        else if i = k + 1 then (if j = k + 1 then a.get (k + 1) (k + 1) else a.get (k + 1) j / d)
        else a.get i j - a.get (k + 1) i / d * a.get (k + 1) j := by
    intro i j h1 h2 h3
    exact cholStep_get hw d (row := k + 1) (by omega) (by rw [hd]; omega) i j h1 h2 (by rw [hd]; exact h3)
  obtain ⟨hsame', _⟩ := cholStep_spec hw d (by omega : 1 ≤ k + 1) (by rw [hd]; omega : k + 1 ≤ a.dim)
  have hsame : Same C (cholStep (k + 1) d a) :=
    ⟨hsame'.1, by rw [hsame'.2.1]; exact hd, by rw [hsame'.2.2]; exact hb⟩
  -- rows above the pivot row are untouched
  have hup : ∀ r x, 1 ≤ r → r ≤ k → r ≤ x → x ≤ C.dim → (cholStep (k + 1) d a).get r x = a.get r x := by
    intro r x h1 h2 h3 h4
    rw [hget r x h1 h3 h4, if_pos (by omega)]
  refine ⟨hsame, ?_, ?_, ?_⟩
  · intro i j h1 h2 h3 h4
    by_cases hik : i ≤ k
    · -- an old row
      rw [hdone i j h1 hik h3 h4]
      congr 1
      · apply Finset.sum_congr rfl
        intro r hr
        rw [Finset.mem_Ico] at hr
        rw [hup r i hr.1 (by omega) (by omega) (by omega), hup r r hr.1 (by omega) (le_refl _) (by omega),
          hup r j hr.1 (by omega) (by omega) h4]
      · rw [hup i i h1 hik (le_refl _) (by omega), hup i j h1 hik h3 h4]
    · -- the pivot row
      have hi : i = k + 1 := by omega
      subst hi
      rw [hrest (k + 1) j (by omega) h3 h4]
      congr 1
      · apply Finset.sum_congr rfl
        intro r hr
        rw [Finset.mem_Ico] at hr
        rw [hup r (k + 1) hr.1 (by omega) (by omega) (by omega), hup r r hr.1 (by omega) (le_refl _) (by omega),
          hup r j hr.1 (by omega) (by omega) h4]
      · rw [hget (k + 1) (k + 1) (by omega) (le_refl _) hk1, hget (k + 1) j (by omega) h3 h4]
        have hn : ¬ (k + 1 < k + 1) := by omega
        by_cases hj : j = k + 1
        · subst hj; simp [hn]
        · have hj' : ¬ (k + 1 = j) := fun e => hj e.symm
          simp only [hn, hj, hj', if_false, if_true]
          field_simp
          rw [hdef]
  · intro i j h1 h2 h3
    rw [hrest i j (by omega) h2 h3, Finset.sum_Ico_succ_top (by omega : 1 ≤ k + 1)]
    have e1 : ∑ r ∈ Ico 1 (k + 1), (cholStep (k + 1) d a).get r i * (cholStep (k + 1) d a).get r r *
          (cholStep (k + 1) d a).get r j = ∑ r ∈ Ico 1 (k + 1), a.get r i * a.get r r * a.get r j := by
      apply Finset.sum_congr rfl
      intro r hr
      rw [Finset.mem_Ico] at hr
      rw [hup r i hr.1 (by omega) (by omega) (by omega), hup r r hr.1 (by omega) (le_refl _) (by omega),
        hup r j hr.1 (by omega) (by omega) h3]
    rw [e1, hget (k + 1) i (by omega) (by omega) (by omega), hget (k + 1) (k + 1) (by omega) (le_refl _) hk1,
      hget (k + 1) j (by omega) (by omega) h3, hget i j (by omega) h2 h3]
    have hn : ¬ (k + 1 < k + 1) := by omega
    have hi1 : ¬ (i = k + 1) := by omega
    have hi2 : ¬ (i < k + 1) := by omega
    have hj1 : ¬ (j = k + 1) := by omega
    simp only [hn, hi1, hi2, hj1, if_false, if_true]
    field_simp
    ring
  · intro i h1 h2
    by_cases hik : i ≤ k
    · rw [hup i i h1 hik (le_refl _) (by omega)]; exact hpos i h1 hik
    · have hi : i = k + 1 := by omega
      subst hi
      rw [hget (k + 1) (k + 1) (by omega) (le_refl _) hk1, if_neg (by omega), if_pos rfl, if_pos rfl]
      exact hp

/-- the row loop -/
theorem cholRows_spec {C : CovMat K} (tol : K) (htol : 0 ≤ tol) :
    ∀ (cnt k : Nat) (a F : CovMat K), k + cnt = C.dim → CholInv C a k →
      cholRows tol (k + 1) cnt a = .ok F → CholInv C F C.dim := by
  intro cnt
  induction cnt with
  | zero =>
    intro k a F hk inv h
    simp only [cholRows] at h
    cases h
    have : k = C.dim := by omega
    subst this; exact inv
  | succ cnt ih =>
    intro k a F hk inv h
    simp only [cholRows] at h
    split at h
    · cases h
    · rename_i hpiv
      have hp : 0 < a.get (k + 1) (k + 1) := by
        have : tol < a.get (k + 1) (k + 1) := lt_of_not_ge hpiv
        exact lt_of_le_of_lt htol this
      exact ih (k + 1) _ F (by omega) (cholInv_step inv (by omega) hp) h

theorem epsilon_pos : (0 : K) < (epsilon : K) := by
  show (0 : K) < ((1 : Nat) : K) / ((4503599627370496 : Nat) : K)
  apply div_pos <;> norm_num

theorem maxDiag_nonneg (m : CovMat K) : (0 : K) ≤ maxDiag m := by
  unfold maxDiag
  apply foldl_inv (fun q row => Scalar.max (m.get row row) q) (fun q => (0 : K) ≤ q)
  · intro q row _ hq
    show (0 : K) ≤ if m.get row row < q then q else m.get row row
    split
    · exact hq
    · rename_i h; exact le_trans hq (not_lt.mp h)
  · exact le_refl _

theorem tolOf_nonneg (N : Nat) (q : K) (hq : 0 ≤ q) : (0 : K) ≤ tolOf N q := by
  show (0 : K) ≤ (N : K) * epsilon * q
  exact mul_nonneg (mul_nonneg (Nat.cast_nonneg N) (le_of_lt epsilon_pos)) hq

/-- **`CovMat::cholDec` reproduces the matrix.**  If it does not throw, then for all `1 ≤ i ≤ j ≤ N`
    `C(i,j) = Σ_{r<i} L(i,r) D(r) L(j,r) + D(i) L(j,i)` with `D(r) = F(r,r) > 0`, `L(x,r) = F(r,x)`,
    `L(i,i) = 1`; `F` has the band of `C` (entries outside are read as 0, so there is no fill). -/
theorem cholDec_reproduces {C F : CovMat K} (hC : C.WF) (h : cholDec C = .ok F) :
    F.WF ∧ F.dim = C.dim ∧ F.band = C.band ∧
    (∀ i, 1 ≤ i → i ≤ C.dim → 0 < F.get i i) ∧
    (∀ i j, 1 ≤ i → i ≤ j → j ≤ C.dim →
      C.get i j = (∑ r ∈ Ico 1 i, F.get r i * F.get r r * F.get r j) + F.get i i * (if i = j then 1 else F.get i j)) ∧
    (∀ i j, i ≤ j → j > i + C.band → F.get i j = 0) := by
  unfold cholDec at h
  split at h
  · cases h
  · have inv := cholRows_spec (C := C) (tolOf C.dim (maxDiag C)) (tolOf_nonneg _ _ (maxDiag_nonneg C))
      C.dim 0 C F (by omega) (cholInv_init hC) h
    obtain ⟨⟨hw, hd, hb⟩, hdone, _, hpos⟩ := inv
    refine ⟨hw, hd, hb, fun i h1 h2 => hpos i h1 h2, fun i j h1 h2 h3 => hdone i j h1 (by omega) h2 h3, ?_⟩
    intro i j h1 h2
    exact get_outside F h1 (by rw [hb]; exact h2)

/-- rejection happens only at a pivot `≤ Tol` (and `dim = 0` gives `BadRank`) -/
theorem cholDec_error_kinds (C : CovMat K) (e : Err) (h : cholDec C = .error e) :
    (e = .BadRank ∧ C.dim = 0) ∨ e = .NonPositiveDefinite := by
  unfold cholDec at h
  split at h
  · rename_i h0; cases h; exact Or.inl ⟨rfl, h0⟩
  · right
    generalize tolOf C.dim (maxDiag C) = tol at h
    generalize C.dim = cnt at h
    generalize (1 : Nat) = row at h
    generalize hC : C = a at h
    clear hC
    induction cnt generalizing row a with
    | zero => simp [cholRows] at h
    | succ cnt ih =>
      simp only [cholRows] at h
      split at h
      · cases h; rfl
      · exact ih _ _ h

/-! ### `Adj::choldec`: LDLᵀ scaled to a Cholesky factor -/

/-- entries of `scaleToChol F` for EVERY upper pair `1 ≤ i ≤ j ≤ N` -/
theorem scaleToChol_get {F : CovMat K} (hF : F.WF) (i j : Nat) (hi : 1 ≤ i) (hij : i ≤ j) (hj : j ≤ F.dim) :
    (scaleToChol F).get i j =
      if i = j then SqrtFn.sq (F.get i i) else F.get i j * SqrtFn.sq (F.get i i) := by
  obtain ⟨hsame, hspec⟩ := scaleToChol_spec hF
  by_cases hin : j ≤ i + F.band
  · exact hspec i j ⟨hi, hij, hj, hin⟩
  · have hz : (scaleToChol F).get i j = 0 := get_outside _ hij (by rw [hsame.2.2]; omega)
    have hz' : F.get i j = 0 := get_outside F hij (by omega)
    rw [hz, if_neg (by omega), hz']
    show (0 : K) = 0 * SqrtFn.sq (F.get i i)
    rw [zero_mul]

/-- **`Adj::choldec` (stable name, used by the Adj façade): `L̃ L̃ᵀ = C`.**
    If `Adj::choldec` does not throw and `sqrt x * sqrt x = x` for `x > 0`, the result `U` has the
    shape of `C`, a non-zero diagonal, and for all `1 ≤ i ≤ j ≤ N`
    `C(i,j) = Σ_{r=1..i} U(r,i)·U(r,j)`; with `L̃(x,r) = U(r,x) = U.get x r` (`get` is symmetric) this is
    `C = L̃ L̃ᵀ`.  Entries outside the band are 0. -/
theorem adjCholdec_LLt {C U : CovMat K} (hC : C.WF)
    (hsq : ∀ x : K, 0 < x → SqrtFn.sq x * SqrtFn.sq x = x) (h : adjCholdec C = .ok U) :
    U.WF ∧ U.dim = C.dim ∧ U.band = C.band ∧
    (∀ i, 1 ≤ i → i ≤ C.dim → U.get i i ≠ 0) ∧
    (∀ i j, 1 ≤ i → i ≤ j → j ≤ C.dim → C.get i j = ∑ r ∈ Icc 1 i, U.get r i * U.get r j) ∧
    (∀ i j, i ≤ j → j > i + C.band → U.get i j = 0) := by
  unfold adjCholdec at h
  cases hF : cholDec C with
  | error e => rw [hF] at h; cases h
  | ok F =>
    rw [hF] at h
    have hU : U = scaleToChol F := by cases h; rfl
    subst hU
    obtain ⟨hFw, hFd, hFb, hpos, hLDL, _⟩ := cholDec_reproduces hC hF
    obtain ⟨hsame, _⟩ := scaleToChol_spec hFw
    have hget := fun i j (h1 : 1 ≤ i) (h2 : i ≤ j) (h3 : j ≤ C.dim) =>
      scaleToChol_get hFw i j h1 h2 (by rw [hFd]; exact h3)
    refine ⟨hsame.1, by rw [hsame.2.1]; exact hFd, by rw [hsame.2.2]; exact hFb, ?_, ?_, ?_⟩
    · intro i h1 h2
      rw [hget i i h1 (le_refl _) h2, if_pos rfl]
      intro hz
      have := hsq _ (hpos i h1 h2)
      rw [hz, mul_zero] at this
      exact absurd this.symm (ne_of_gt (hpos i h1 h2))
    · intro i j h1 h2 h3
      rw [hLDL i j h1 h2 h3, ← Finset.Ico_add_one_right_eq_Icc, Finset.sum_Ico_succ_top h1]
      congr 1
      · apply Finset.sum_congr rfl
        intro r hr
        rw [Finset.mem_Ico] at hr
        rw [hget r i hr.1 (by omega) (by omega), hget r j hr.1 (by omega) h3, if_neg (by omega), if_neg (by omega)]
        have := hsq _ (hpos r hr.1 (by omega))
        calc F.get r i * F.get r r * F.get r j
            = F.get r i * (SqrtFn.sq (F.get r r) * SqrtFn.sq (F.get r r)) * F.get r j := by rw [this]
          _ = F.get r i * SqrtFn.sq (F.get r r) * (F.get r j * SqrtFn.sq (F.get r r)) := by ring
      · rw [hget i i h1 (le_refl _) (by omega), hget i j h1 h2 h3, if_pos rfl]
        have := hsq _ (hpos i h1 (by omega))
        by_cases e : i = j
        · subst e; rw [if_pos rfl, if_pos rfl, mul_one, this]
        · rw [if_neg e, if_neg e]
          calc F.get i i * F.get i j
              = SqrtFn.sq (F.get i i) * SqrtFn.sq (F.get i i) * F.get i j := by rw [this]
            _ = SqrtFn.sq (F.get i i) * (F.get i j * SqrtFn.sq (F.get i i)) := by ring
    · intro i j h1 h2
      exact get_outside _ h1 (by rw [hsame.2.2, hFb]; exact h2)

/-- `Adj::choldec` throws exactly when `CovMat::cholDec` does -/
theorem adjCholdec_error_iff (C : CovMat K) (e : Err) : adjCholdec C = .error e ↔ cholDec C = .error e := by
  unfold adjCholdec
  cases cholDec C <;> simp [Except.map]

end Gama.Cov
