/-
  "What is finally reported contains no removed point" (C20, huge-covariance loop and `null_space`):
  the invariant `Gone s` — every recorded removal `(id, code)` has its coordinate group(s) switched off
  at the point `id` of the current configuration — is kept by `project_equations()` (when it leaves the
  points alone, `W.Still`), by every round of the huge-covariance loop and by every step of `null_space`,
  for networks whose point identifiers are distinct (`PointData` is a `std::map`).
-/
import Gama.Lemmas.NetDecision
namespace Gama.NetDecision
open Gama Gama.Ls

/-- the identifiers of the points are pairwise distinct -/
def IdsNodup (net : Net) : Prop := (net.map (·.id)).Nodup

/-- every recorded removal is in force: its coordinate groups are unused at the point it names -/
def Gone (s : St) : Prop := ∀ idc ∈ s.removed, ∀ Q ∈ s.net, Q.id = idc.1 → Q.strip idc.2 = Q

theorem strip_idem (Q : Point) (c : Rm) : (Q.strip c).strip c = Q.strip c := by
  obtain ⟨id, xy, z⟩ := Q
  cases c <;> rfl

theorem strip_keeps (Q : Point) (c c' : Rm) (h : Q.strip c = Q) : (Q.strip c').strip c = Q.strip c' := by
  obtain ⟨id, xy, z⟩ := Q
  cases c <;> cases c' <;> cases xy <;> cases z <;> simp_all [Point.strip]

theorem hugePass_ids (a : Abs) : ∀ net : Net, (hugePass a net).1.map (·.id) = net.map (·.id)
  | [] => rfl
  | P :: rest => by
    have ih := hugePass_ids a rest
    cases h : a.huge P with
    | error e => simp [hugePass, h]
    | ok o => cases o <;> simp [hugePass, h, ih, strip_id]

theorem hugePass_rec_ids (a : Abs) : ∀ (net : Net) (idc : String × Rm), idc ∈ (hugePass a net).2.1 →
    idc.1 ∈ net.map (·.id)
  | [], idc, h => by simp [hugePass] at h
  | P :: rest, idc, h => by
    cases hP : a.huge P with
    | error e => simp [hugePass, hP] at h
    | ok o =>
      cases o with
      | none =>
        have h' : idc ∈ (hugePass a rest).2.1 := by simpa [hugePass, hP] using h
        exact List.mem_cons_of_mem _ (hugePass_rec_ids a rest idc h')
      | some c =>
        have h' : idc = (P.id, c) ∨ idc ∈ (hugePass a rest).2.1 := by simpa [hugePass, hP] using h
        rcases h' with rfl | h'
        · simp
        · exact List.mem_cons_of_mem _ (hugePass_rec_ids a rest idc h')

/-- one pass: the new records are in force in the new configuration, and every new point is an old one,
    possibly stripped -/
theorem hugePass_gone (a : Abs) : ∀ net : Net, IdsNodup net →
    (∀ idc ∈ (hugePass a net).2.1, ∀ Q ∈ (hugePass a net).1, Q.id = idc.1 → Q.strip idc.2 = Q) ∧
    (∀ Q ∈ (hugePass a net).1, ∃ P ∈ net, Q = P ∨ ∃ c, Q = P.strip c)
  | [], _ => by simp [hugePass]
  | P :: rest, hnd => by
    have hnd' : IdsNodup rest := (List.nodup_cons.1 hnd).2
    have hPn : P.id ∉ rest.map (·.id) := (List.nodup_cons.1 hnd).1
    obtain ⟨ih1, ih2⟩ := hugePass_gone a rest hnd'
    have hid : ∀ Q ∈ (hugePass a rest).1, Q.id ∈ rest.map (·.id) := by
      intro Q hQ
      rw [← hugePass_ids a rest]
      exact List.mem_map_of_mem hQ
    cases hP : a.huge P with
    | error e =>
      have e1 : hugePass a (P :: rest) = (P :: rest, [], some e) := by simp [hugePass, hP]
      rw [e1]
      exact ⟨by simp, fun Q hQ => ⟨Q, hQ, Or.inl rfl⟩⟩
    | ok o =>
      cases o with
      | none =>
        have e1 : hugePass a (P :: rest) = (P :: (hugePass a rest).1, (hugePass a rest).2.1, (hugePass a rest).2.2) := by
          simp [hugePass, hP]
        rw [e1]
        constructor
        · intro idc hidc Q hQ hQid
          rcases List.mem_cons.1 hQ with rfl | hQ'
          · exact absurd (hQid ▸ hugePass_rec_ids a rest idc hidc) hPn
          · exact ih1 idc hidc Q hQ' hQid
        · intro Q hQ
          rcases List.mem_cons.1 hQ with rfl | hQ'
          · exact ⟨Q, List.mem_cons_self .., Or.inl rfl⟩
          · obtain ⟨P', hP', h⟩ := ih2 Q hQ'
            exact ⟨P', List.mem_cons_of_mem _ hP', h⟩
      | some c =>
        have e1 : hugePass a (P :: rest) = (P.strip c :: (hugePass a rest).1, (P.id, c) :: (hugePass a rest).2.1,
            (hugePass a rest).2.2) := by simp [hugePass, hP]
        rw [e1]
        constructor
        · intro idc hidc Q hQ hQid
          rcases List.mem_cons.1 hidc with rfl | hidc'
          · rcases List.mem_cons.1 hQ with rfl | hQ'
            · exact strip_idem P c
            · have hQid' : Q.id = P.id := hQid
              exact absurd (hQid' ▸ hid Q hQ') hPn
          · rcases List.mem_cons.1 hQ with rfl | hQ'
            · rw [strip_id] at hQid
              exact absurd (hQid ▸ hugePass_rec_ids a rest idc hidc') hPn
            · exact ih1 idc hidc' Q hQ' hQid
        · intro Q hQ
          rcases List.mem_cons.1 hQ with rfl | hQ'
          · exact ⟨P, List.mem_cons_self .., Or.inr ⟨c, rfl⟩⟩
          · obtain ⟨P', hP', h⟩ := ih2 Q hQ'
            exact ⟨P', List.mem_cons_of_mem _ hP', h⟩

/-- the invariant of the runs -/
def Kept (s : St) : Prop := IdsNodup s.net ∧ Gone s

theorem kept_congr {s s' : St} (h : Kept s) (hn : s'.net = s.net) (hr : s'.removed = s.removed) : Kept s' := by
  unfold Kept Gone at *
  rw [hn, hr]; exact h

theorem vS2_kept (W : WorldA) (hS : W.Still) {s : St} (h : Kept s) : Kept (vS2 W s) := by
  have h1 : Kept (vS1 W s) := kept_congr h (vS1_still W hS s).1 (vS1_still W hS s).2
  obtain ⟨hnd, hg⟩ := h1
  obtain ⟨g1, g2⟩ := hugePass_gone (vA W s) (vS1 W s).net hnd
  refine ⟨?_, ?_⟩
  · show ((vR W s).1.map (·.id)).Nodup
    unfold vR; rw [hugePass_ids]; exact hnd
  · intro idc hidc Q hQ hQid
    have hQ' : Q ∈ (hugePass (vA W s) (vS1 W s).net).1 := hQ
    have hidc' : idc ∈ (vS1 W s).removed ++ (hugePass (vA W s) (vS1 W s).net).2.1 := hidc
    rcases List.mem_append.1 hidc' with ho | hn
    · obtain ⟨P, hP, hPQ⟩ := g2 Q hQ'
      rcases hPQ with rfl | ⟨c, rfl⟩
      · exact hg idc ho Q hP hQid
      · rw [strip_id] at hQid
        exact strip_keeps P idc.2 c (hg idc ho P hP hQid)
    · exact g1 idc hn Q hQ' hQid

theorem removeUnknown_kept {s : St} (h : Kept s) (u : Unknown) : Kept (removeUnknown s u) := by
  obtain ⟨hnd, hg⟩ := h
  rw [removeUnknown_eq]
  refine ⟨?_, ?_⟩
  · show ((s.net.map fun P => if P.id == u.pid then P.strip (rmCode u) else P).map (·.id)).Nodup
    have : (s.net.map fun P => if P.id == u.pid then P.strip (rmCode u) else P).map (·.id) = s.net.map (·.id) := by
      rw [List.map_map]
      apply List.map_congr_left
      intro P _
      simp only [Function.comp]
      split
      · exact strip_id _ _
      · rfl
    rw [this]; exact hnd
  · intro idc hidc Q hQ hQid
    obtain ⟨P, hP, rfl⟩ := List.mem_map.1 hQ
    rcases List.mem_append.1 hidc with ho | hn
    · by_cases hp : (P.id == u.pid) = true
      · simp only [hp, if_true] at hQid ⊢
        rw [strip_id] at hQid
        exact strip_keeps P idc.2 _ (hg idc ho P hP hQid)
      · simp only [hp] at hQid ⊢
        exact hg idc ho P hP hQid
    · have : idc = (u.pid, rmCode u) := by simpa using hn
      subst this
      by_cases hp : (P.id == u.pid) = true
      · simp only [hp, if_true]
        exact strip_idem P _
      · simp only [hp] at hQid
        exact absurd (by simpa using hQid) hp

theorem VRun.kept {W : WorldA} (hS : W.Still) {s s' : St} {o : Outcome} (h : VRun W s s' o) (hK : Kept s) : Kept s' := by
  induction h with
  | adj s _ => exact hK
  | fuel s _ => exact hK
  | early s o _ _ => exact kept_congr hK (vS1_still W hS s).1 (vS1_still W hS s).2
  | cleanOk s _ _ _ => exact kept_congr hK (vS1_still W hS s).1 (vS1_still W hS s).2
  | cleanErr s _ _ _ => exact kept_congr hK (vS1_still W hS s).1 (vS1_still W hS s).2
  | err s e _ _ _ => exact vS2_kept W hS hK
  | loop s s' o _ _ _ _ ih => exact ih (vS2_kept W hS hK)

theorem NRun.kept {W : WorldA} (hS : W.Still) {s s' : St} {r : NsOut} (h : NRun W s s' r) (hK : Kept s) : Kept s' := by
  induction h with
  | fuel s => exact hK
  | ok s s1 a hv _ => exact hv.kept hS hK
  | okNone s s1 hv _ => exact hv.kept hS hK
  | exc s s1 o hv _ _ => exact hv.kept hS hK
  | fall s s1 hv _ => exact kept_congr (hv.kept hS hK) (vS1_still W hS s1).1 (vS1_still W hS s1).2
  | step s s1 i t u s' r hv _ _ _ ih =>
    exact ih (removeUnknown_kept (kept_congr (hv.kept hS hK) (vS1_still W hS s1).1 (vS1_still W hS s1).2) u)

/-- **every recorded removal is in force in the final configuration** -/
theorem decideA_gone (W : WorldA) (hS : W.Still) (net : Net) (hnd : IdsNodup net) :
    Gone (generalParameters W (fuelFor net) (fuelFor net) (St.init net)).1 :=
  (generalParameters_preserves W _ _ Kept
    (fun s h => kept_congr h (vS1_still W hS s).1 (vS1_still W hS s).2)
    (fun s h => (vyrovnani_run W _ s).kept hS h)
    (fun s h => (nullSpace_run W _ _ s).kept hS h) _ ⟨hnd, fun idc h => by simp [St.init] at h⟩).2

/-- the coordinate group of unknown `u` is switched off by removal code `c` -/
def Rm.covers (c : Rm) (u : Unknown) : Bool :=
  match c, u.type with
  | .huge_cov_xyz, _ | .missing_xyz, _ => true
  | .huge_cov_xy, .Z | .singular_xy, .Z | .missing_xy, .Z => false
  | .huge_cov_xy, _ | .singular_xy, _ | .missing_xy, _ => true
  | .huge_cov_z, .Z | .singular_z, .Z | .missing_z, .Z => true
  | .huge_cov_z, _ | .singular_z, _ | .missing_z, _ => false

theorem covers_inactive (Q : Point) (c : Rm) (u : Unknown) (hc : c.covers u = true) (hQ : Q.strip c = Q) :
    (if u.type = .Z then Q.z.active else Q.xy.active) = false := by
  obtain ⟨id, xy, z⟩ := Q
  obtain ⟨pid, t⟩ := u
  cases c <;> cases t <;> cases xy <;> cases z <;> simp_all [Rm.covers, Point.strip, CStat.active]

end Gama.NetDecision
