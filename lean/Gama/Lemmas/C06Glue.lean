/-
  C06 (round 4) — glue between the three round-4 lemma files:
    * Lemmas/C06Reset.lean  (`aiExecute_sound_exact`: AcordIntersection::execute on exact clusters, no `ResetOK` left)
    * Lemmas/C06Mono.lean   (the modelled Acord2 as a machine: `Sound5`, `MonoHyps`, `acord2_modelled_monotone_partial`,
                             with the soundness of the intersection strategy as a hypothesis)
  `aiAlg_sound5` discharges that hypothesis; `modelledAlgs_sound` is soundness of `Acord2::execute` over the
  constructor's list restricted to the five modelled strategies (any of the five present or absent).
-/
import Gama.Lemmas.C06Mono
import Gama.Lemmas.C06Reset
open Gama Gama.Cogo Gama.Median Gama.C06R Gama.C06L Gama.Acord Gama.C06A Gama.C06S Gama.C06M Gama.C06I

namespace Gama.C06G
open Real
variable {ι : Type} [DecidableEq ι]

/-- the invariant of the private part AcordIntersection shares with nobody: every orientation written to a real
    stand-point is the true one, one entry per cluster, the static small-angle limit is positive -/
def IRai (tori : Nat → ℝ) (ncl : Nat) (q : AiPriv ℝ) : Prop :=
  OriOK tori q.oris ∧ q.oris.length = ncl ∧ 0 < q.sal

/-- AcordIntersection as a strategy of the list keeps the soundness invariant of the whole machine -/
theorem aiAlg_sound5 (T : Truth ι) (xN : ℝ) (hx0 : 0 ≤ xN) (hx2 : xN < 2 * π) (tori : Nat → ℝ)
    (cls : List (Inter.Cl ι ℝ)) (hex : ExactCl T xN tori cls) (n : Nat) (lt : ι → ι → Bool) (keys : List ι)
    (extra : Bool) (g : G5 ι) (h : Sound5 T xN (IRai tori cls.length) g) :
    Sound5 T xN (IRai tori cls.length) ((aiAlg (n + 1) lt keys extra xN cls).exec g) := by
  obtain ⟨r1, r2, r3⟩ := h.rest
  have k := aiExecute_sound_exact T n lt keys extra xN hx0 hx2 tori cls hex g.priv.rest.alg
    ⟨g.st.pd, g.priv.rest.oris, g.st.missXY, g.priv.rest.sal⟩ h.sxy h.sz r1 r2 r3
  exact ⟨k.1, k.2.1, h.cxy, h.cz, h.az, h.hd, h.vec, ⟨k.2.2.1, k.2.2.2.1, k.2.2.2.2⟩⟩

/-- every strategy of the constructor's list (modelled part, whichever of the five are present) keeps the invariant -/
theorem modelledAlgs_mem_sound {lt : ι → ι → Bool} (htri : Tri lt) (T : Truth ι) (xN : ℝ) (hx0 : 0 ≤ xN)
    (hx2 : xN < 2 * π) (tori : Nat → ℝ) (o : ObsSet ι) (hobs : ExactObs T xN o.od) (hcl : ExactCl T xN tori o.cls)
    (n : Nat) (b1 b2 b3 b4 b5 : Bool) :
    ∀ a ∈ modelledAlgs (n + 1) lt o.keys o.extra xN o.od o.cls b1 b2 b3 b4 b5, ∀ g,
      Sound5 T xN (IRai tori o.cls.length) g → Sound5 T xN (IRai tori o.cls.length) (a.exec g) := by
  intro a ha g hg
  unfold modelledAlgs at ha
  simp only [List.mem_append] at ha
  rcases ha with (((ha | ha) | ha) | ha) | ha
  · cases b1 <;> simp at ha; subst ha
    exact azAlg_soundInv htri T xN o.od n hobs.az hobs.dist _ g hg
  · cases b2 <;> simp at ha; subst ha
    exact hdAlg_soundInv T xN (n + 1) o.od hobs.hdiff _ g hg
  · cases b3 <;> simp at ha; subst ha
    exact zdAlg_soundInv T xN o.od hobs.zd _ g hg
  · cases b4 <;> simp at ha; subst ha
    exact vecAlg_soundInv T xN (n + 1) o.od hobs.vec _ g hg
  · cases b5 <;> simp at ha; subst ha
    exact aiAlg_sound5 T xN hx0 hx2 tori o.cls hcl n lt o.keys o.extra g hg

/-- `Acord2::execute` over the modelled strategies, exact observations: every coordinate in the point list afterwards
    is the true one (any fuel, any number of rounds, any subset of the five strategies in the constructor's order) -/
theorem modelledAlgs_sound {lt : ι → ι → Bool} (htri : Tri lt) (T : Truth ι) (xN : ℝ) (hx0 : 0 ≤ xN)
    (hx2 : xN < 2 * π) (tori : Nat → ℝ) (o : ObsSet ι) (hobs : ExactObs T xN o.od) (hcl : ExactCl T xN tori o.cls)
    (n : Nat) (b1 b2 b3 b4 b5 slope : Bool) (fuel : Nat) (g : G5 ι) (hg : Sound5 T xN (IRai tori o.cls.length) g) :
    Sound5 T xN (IRai tori o.cls.length)
      (execute slope (Priv.clearTraverses id) fuel
        (modelledAlgs (n + 1) lt o.keys o.extra xN o.od o.cls b1 b2 b3 b4 b5) g).state :=
  acord_execute_sound (Sound5 T xN (IRai tori o.cls.length)) slope _ fuel _
    (modelledAlgs_mem_sound htri T xN hx0 hx2 tori o hobs hcl n b1 b2 b3 b4 b5)
    (fun g h => bookkeeping_soundInv T xN _ slope id (fun _ h => h) g h) g hg

/-- the hypotheses of `C06M.MonoHyps` with the soundness of the intersection strategy DISCHARGED: what is left is its
    step monotonicity `aiMono` -/
theorem monoHyps_of_exact {lt : ι → ι → Bool} (hord : StrictTotal lt) (T : Truth ι) (xN : ℝ) (hx0 : 0 ≤ xN)
    (hx2 : xN < 2 * π) (tori : Nat → ℝ) (Rai : AiPriv ℝ → AiPriv ℝ → Prop) (n : Nat) (o o' : ObsSet ι)
    (hle : ObsSet.le o o') (hobs : ExactObs T xN o.od) (hobs' : ExactObs T xN o'.od)
    (hcl : ExactCl T xN tori o.cls) (hcl' : ExactCl T xN tori o'.cls) (hlen : o'.cls.length = o.cls.length)
    (f1 : (hdKeys o.od).length < n + 1) (f2 : (hdKeys o'.od).length < n + 1)
    (f3 : (vecKeys o.od).length < n + 1) (f4 : (vecKeys o'.od).length < n + 1)
    (haiMono : StepMono (Sound5 T xN (IRai tori o.cls.length)) (KL (n + 1) Rai o o')
      (idle (aiAlg (n + 1) lt o.keys o.extra xN o.cls)) (idle (aiAlg (n + 1) lt o'.keys o'.extra xN o'.cls))) :
    MonoHyps lt T xN (IRai tori o.cls.length) Rai n o o' :=
  ⟨hord, hle, hobs, hobs', f1, f2, f3, f4,
   fun g h => aiAlg_sound5 T xN hx0 hx2 tori o.cls hcl n lt o.keys o.extra g h,
   fun g h => by
     have := aiAlg_sound5 T xN hx0 hx2 tori o'.cls hcl' n lt o'.keys o'.extra g (by rw [hlen]; exact h)
     rw [hlen] at this; exact this,
   haiMono⟩

/-! ### AcordIntersection::execute never clears a flag and never enlarges `missing_xy_` (arbitrary data) -/

def KXY (a b : PD ι ℝ) : Prop := ∀ i, (a i).bxy = true → (b i).bxy = true

theorem KXY.refl (a : PD ι ℝ) : KXY a a := fun _ h => h
theorem KXY.trans {a b c : PD ι ℝ} (h1 : KXY a b) (h2 : KXY b c) : KXY a c := fun i h => h2 i (h1 i h)

theorem kxy_upd (pd : PD ι ℝ) (i : ι) (x y : ℝ) : KXY pd (pd.upd i ((pd i).setXY x y)) := by
  intro j hj
  unfold PD.upd
  by_cases e : j = i
  · subst e; simp [LP.setXY]
  · simp [e, hj]

theorem siPass_kxy (fuel : Nat) (sal : ℝ) (sm : List (Inter.SMo ι ℝ)) :
    ∀ (what : List ι) (st : Inter.ACState ι ℝ), KXY st.pd (Inter.siPass fuel sal sm what st).1.pd := by
  intro what
  induction what with
  | nil => intro st; exact KXY.refl _
  | cons i rest ih =>
    intro st
    unfold Inter.siPass
    dsimp only
    split
    · rename_i p _
      exact KXY.trans (kxy_upd st.pd i p.x p.y)
        (ih ⟨st.pd.upd i ((st.pd i).setXY p.x p.y), (Inter.apPoint fuel st.pd sal sm st.oris i).2⟩)
    · exact ih ⟨st.pd, (Inter.apPoint fuel st.pd sal sm st.oris i).2⟩

theorem solveIntersection_kxy (fuel : Nat) (sal : ℝ) (sm : List (Inter.SMo ι ℝ)) :
    ∀ (n : Nat) (what : List ι) (st : Inter.ACState ι ℝ),
      KXY st.pd (Inter.solveIntersection fuel sal sm n what st).1.pd := by
  intro n
  induction n with
  | zero => intro what st; exact KXY.refl _
  | succ n ih =>
    intro what st
    unfold Inter.solveIntersection
    dsimp only
    split_ifs
    · exact KXY.refl _
    · exact KXY.trans (siPass_kxy fuel sal sm what st) (ih _ _)
    · exact siPass_kxy fuel sal sm what st

theorem compLoop_go_kxy (fuel : Nat) (sal : ℝ) (sm : List (Inter.SMo ι ℝ)) :
    ∀ (n : Nat) (what : List ι) (st : Inter.ACState ι ℝ), KXY st.pd (Inter.compLoop.go fuel sal sm n what st).pd := by
  intro n
  induction n with
  | zero => intro what st; exact KXY.refl _
  | succ n ih =>
    intro what st
    unfold Inter.compLoop.go
    dsimp only
    split_ifs
    · exact KXY.trans (solveIntersection_kxy fuel sal sm _ what st) (ih _ _)
    · exact solveIntersection_kxy fuel sal sm _ what st

theorem acCalculation_kxy (fuel : Nat) (lt : ι → ι → Bool) (keys : List ι) (extra : Bool) (sal : ℝ)
    (sm : List (Inter.SMo ι ℝ)) (st : Inter.ACState ι ℝ) :
    KXY st.pd (Inter.acCalculation fuel lt keys extra sal sm st).pd := by
  unfold Inter.acCalculation
  dsimp only
  split_ifs
  · exact KXY.refl _
  · exact compLoop_go_kxy fuel sal sm _ _ st
  · exact KXY.refl _

/-- what a call leaves: no xy flag cleared, heights untouched, `missing_xy_` not enlarged -/
structure AiKeeps (st st' : Inter.AiState ι ℝ) : Prop where
  kxy : KXY st.pd st'.pd
  sz : SameZ st.pd st'.pd
  miss : ∀ i ∈ st'.missXY, i ∈ st.missXY

theorem AiKeeps.refl (st : Inter.AiState ι ℝ) : AiKeeps st st := ⟨KXY.refl _, SameZ.refl _, fun _ h => h⟩
theorem AiKeeps.trans {a b c : Inter.AiState ι ℝ} (h1 : AiKeeps a b) (h2 : AiKeeps b c) : AiKeeps a c :=
  ⟨h1.kxy.trans h2.kxy, SameZ.trans h1.sz h2.sz, fun i h => h1.miss i (h2.miss i h)⟩

theorem aiLoop_keeps (fuel : Nat) (lt : ι → ι → Bool) (keys : List ι) (extra : Bool) (xN : ℝ)
    (cls : List (Inter.Cl ι ℝ)) (st : Inter.AiState ι ℝ) : AiKeeps st (Inter.aiLoop fuel lt keys extra xN cls st).1 := by
  unfold Inter.aiLoop
  dsimp only
  split_ifs
  · exact ⟨KXY.refl _, SameZ.refl _, fun i h => (List.mem_filter.mp h).1⟩
  · exact ⟨acCalculation_kxy _ _ _ _ _ _ ⟨st.pd, st.oris ++ [some xN]⟩,
      acCalculation_sameZ _ _ _ _ _ _ ⟨st.pd, st.oris ++ [some xN]⟩, fun i h => (List.mem_filter.mp h).1⟩

theorem aiExecute_keeps (fuel : Nat) (lt : ι → ι → Bool) (keys : List ι) (extra : Bool) (xN : ℝ)
    (cls : List (Inter.Cl ι ℝ)) (alg : Inter.AiAlg) (st : Inter.AiState ι ℝ) :
    AiKeeps st (Inter.aiExecute fuel lt keys extra xN cls alg st).2 := by
  have c : AiKeeps st { st with
      pd := (Inter.acCalculation fuel lt keys extra st.sal (Inter.copyHorizontal cls) ⟨st.pd, st.oris⟩).pd,
      oris := (Inter.acCalculation fuel lt keys extra st.sal (Inter.copyHorizontal cls) ⟨st.pd, st.oris⟩).oris } :=
    ⟨acCalculation_kxy _ _ _ _ _ _ ⟨st.pd, st.oris⟩, acCalculation_sameZ _ _ _ _ _ _ ⟨st.pd, st.oris⟩, fun _ h => h⟩
  unfold Inter.aiExecute
  dsimp only
  split_ifs
  all_goals first | exact AiKeeps.refl _ | skip
  all_goals first
    | exact c.trans (aiLoop_keeps fuel lt keys extra xN cls _)
    | exact (c.trans (aiLoop_keeps fuel lt keys extra xN cls _)).trans (aiLoop_keeps fuel lt keys extra xN cls _)

/-- AcordIntersection as a strategy never clears a flag and never enlarges a `missing` set (ARBITRARY data) -/
theorem aiAlg_flags (fuel : Nat) (lt : ι → ι → Bool) (keys : List ι) (extra : Bool) (xN : ℝ)
    (cls : List (Inter.Cl ι ℝ)) (g : G5 ι) : FlagsKept g ((aiAlg fuel lt keys extra xN cls).exec g) := by
  have k := aiExecute_keeps fuel lt keys extra xN cls g.priv.rest.alg
    ⟨g.st.pd, g.priv.rest.oris, g.st.missXY, g.priv.rest.sal⟩
  exact ⟨k.kxy, fun i hi => by rw [← hi]; exact (k.sz i).1, k.miss, fun _ h => h⟩

/-- no stand-point clusters: nothing to be exact about -/
theorem exactCl_nil (T : Truth ι) (xN : ℝ) (tori : Nat → ℝ) : ExactCl T xN tori ([] : List (Inter.Cl ι ℝ)) :=
  ⟨by intro k c h; simp at h, by intro c h; simp at h, by intro k c o h; simp at h, by intro c h; simp at h, by simp,
   by intro c h; simp at h, by intro c h; simp at h⟩

/-- `C06M.MonoHyps` WITHOUT any hypothesis about AcordIntersection, for observation sets without stand-point clusters as
    AcordIntersection sees them (`cls = []`: its `execute()` finds nothing to read) -/
theorem monoHyps_nil {lt : ι → ι → Bool} (hord : StrictTotal lt) (T : Truth ι) (xN : ℝ) (n : Nat) (o o' : ObsSet ι)
    (hle : ObsSet.le o o') (hobs : ExactObs T xN o.od) (hobs' : ExactObs T xN o'.od)
    (hc : o.cls = []) (hc' : o'.cls = [])
    (f1 : (hdKeys o.od).length < n + 1) (f2 : (hdKeys o'.od).length < n + 1)
    (f3 : (vecKeys o.od).length < n + 1) (f4 : (vecKeys o'.od).length < n + 1) :
    MonoHyps lt T xN (fun _ => True) (fun _ _ => True) n o o' :=
  ⟨hord, hle, hobs, hobs', f1, f2, f3, f4,
   fun g h => by rw [hc]; exact aiNil_sound T xN _ (fun _ => trivial) (n + 1) lt _ _ xN g h,
   fun g h => by rw [hc']; exact aiNil_sound T xN _ (fun _ => trivial) (n + 1) lt _ _ xN g h,
   aiNil_mono (n + 1) lt xN _ o o' hc hc'⟩

end Gama.C06G
