/-
  VALUE of `operator*(const Mat&, const SymMat&)` (round 12): `A · Square(B)` — the Mathlib product with the full
  symmetric matrix the packed triangle denotes; all dimensions, any semiring.
-/
import Gama.Lemmas.MatVecValues2
namespace Gama.MatVec
open Finset
variable {K : Type}

/-- entry `(i,j)`, 0-based, of the symmetric matrix a `SymMat` denotes (`operator()(i+1,j+1)`) -/
def SMat.at (B : SMat K) (d : K) (i j : Nat) : K := B.data.getD (symIdx (i + 1) (j + 1)) d
def SMat.toMatrix (B : SMat K) (d : K) (n : Nat) : Matrix (Fin n) (Fin n) K := fun i j => B.at d i.val j.val

theorem SMat.at_symm (B : SMat K) (d : K) (i j : Nat) : B.at d i j = B.at d j i := by
  simp only [SMat.at, symIdx_symm (i + 1) (j + 1)]

theorem SMat.toMatrix_symm (B : SMat K) (d : K) (n : Nat) : (B.toMatrix d n).transpose = B.toMatrix d n := by
  funext i j; simp [SMat.toMatrix, Matrix.transpose_apply, SMat.at_symm B d j.val i.val]

theorem symIdx_lt' {n i j : Nat} (hi : i < n) (hj : j < n) : symIdx (i + 1) (j + 1) < n * (n + 1) / 2 := by
  by_cases h : j ≤ i
  · exact symIdx_lt (by omega) (by omega) (by omega)
  · rw [symIdx_symm]; exact symIdx_lt (by omega) (by omega) (by omega)

theorem SMat.rd_at {B : SMat K} (hB : B.WF) (d : K) {i j : Nat} (hi : i < B.dim) (hj : j < B.dim) :
    rd B.data (symIdx (i + 1) (j + 1)) = .ok (B.at d i j) := by
  have : symIdx (i + 1) (j + 1) < B.data.size := by rw [hB]; exact symIdx_lt' hi hj
  rw [rd_ok this]; simp [SMat.at, Array.getD, this]

/-- `operator*(Mat,SymMat)`: `A · Square(B)` -/
theorem matMulSym_toMatrix [Semiring K] (A : Mat K) (B : SMat K) (hA : A.WF) (hB : B.WF) (hc : A.cols = B.dim) (d : K) :
    ∃ C, matMulSym A B = .ok C ∧ C.rows = A.rows ∧ C.cols = A.cols ∧ C.WF ∧
      C.toMatrix d A.rows A.cols = A.toMatrix d A.rows A.cols * B.toMatrix d A.cols := by
  obtain ⟨a, ha, hs, he⟩ := prod_spec A.data B.data A.rows A.cols A.cols
    (fun i k => i * A.cols + k) (fun j k => symWalk (j + 1) (k + 1) - 1) (A.at d) (B.at d)
    (fun i k hi hk => Mat.rd_at hA d hi hk)
    (fun k j hk hj => by
      rw [symWalk_eq, symIdx_symm]; exact SMat.rd_at hB d (by omega) (by omega))
  refine ⟨⟨A.rows, A.cols, a⟩, ?_, rfl, rfl, hs, ?_⟩
  · have hg : ¬ (A.cols ≠ B.dim) := by simp [hc]
    simp only [matMulSym, hg, if_false, ha]
  · rw [toMatrix_of_cells ⟨A.rows, A.cols, a⟩ d _ he]
    funext i j
    simp only [Matrix.mul_apply, SMat.toMatrix, Mat.toMatrix]
    exact (Fin.sum_univ_eq_sum_range (fun k => A.at d i.val k * B.at d k j.val) A.cols).symm

end Gama.MatVec
