/-
  C06 — a NON-degenerate joint witness over ℝ of `C06_exact_network_solution_zero` (round 10; replaces the empty network).

  `netWexact : PE.Net ℝ` — levelling: `A` fixed (100 m), `B` constrained (110 m), `C` free (105 m);
    * a CORRELATED cluster of three height differences, `covariance_matrix = [[16,3,8],[3,25,5],[8,5,40]]` (band 2):
      `A→B = 10`, `B→C = −4` SWITCHED OFF (and wrong: it must not matter), `B→C = −5`;
    * a cluster whose only observation `C→A = −5` is switched off;
    * an uncorrelated cluster: `A→C = 5` of variance 16;
    * `m_0_apr_ = 2`.
  The clusters are those of b-W7b's `Ex.npW 2 [1]` (`Lemmas/Ls/NetFacadeReal.lean`), so its evaluation lemmas of
  `Cluster::activeCov`, `CovMat::cholDec`, `Adj::choldec` over ℝ apply: `prepareProjectEquations()` accepts
  (cofactor blocks `[[4,2],[2,10]]`, `[4]`, factors `[[2,0],[1,3]]`, `[2]`).
  `projectEquations netWexact = .ok (npX, uX)` with `npX`: rows `[(1,1)]`, `[(1,−1),(2,1)]`, `[(2,1)]` (`B.z ↦ 1`, `C.z ↦ 2`),
  `rhs_ = (0,0,0)`, `min_x_ = [1]`; the three kept observations are exact.  `A = [[1,0],[−1,1],[0,1]]` has full column rank;
  `AᵀPA = [[1/2,−1/6],[−1/6,13/36]]` with `P = m0²Σ⁻¹`: every Schur pivot ≥ 1/8 — `RankGap` with `τ = 2⁻¹³`.
  cholesky and gso ANSWER by `C02_net_answered_iff_resolves` (no solver run is evaluated); the envelope needs an evaluation of
  `Homogenization::run` + the envelope factorisation over ℝ on this matrix (b-W7b's is for `[[4,4],[5,5],[4,4]]`): not done.
-/
import Gama.Lemmas.C06NetZero
import Gama.Props.C01.NetWitness
import Gama.Props.C02NetFour
namespace Gama.C06NZ.Ex
open Gama Gama.Lin Gama.PE Gama.Ls Gama.Ls.Net Gama.LS Gama.C06FP Gama.C06NZ Gama.Ls.Ex Gama.Props.C01 Matrix

def hdR (a : Bool) (f t : Nat) (v : ℝ) : PE.Ob ℝ := ⟨a, .h_diff, f, t, 0, v⟩

noncomputable def netWexact : PE.Net ℝ :=
  { points := [⟨"A", ⟨0, 0, 100, .unused, .fixed⟩⟩, ⟨"B", ⟨0, 0, 110, .unused, .constrained⟩⟩, ⟨"C", ⟨0, 0, 105, .unused, .free⟩⟩]
    clusters := [⟨none, ⟨3, 2, #[16, 3, 8, 25, 5, 40]⟩, [hdR true 0 1 10, hdR false 1 2 (-4), hdR true 1 2 (-5)]⟩,
                 ⟨none, ⟨1, 0, #[1]⟩, [hdR false 2 0 (-5)]⟩,
                 ⟨none, ⟨1, 0, #[16]⟩, [hdR true 0 2 5]⟩]
    m0 := 2, xNorth := 0, fuel := 10, idx := IdxState.init }

theorem revise_eq : revise netWexact = netWexact := rfl

/-- `revised_obs_`: the three active observations in `OD` order -/
theorem robs : revisedObs netWexact =
    [⟨.h_diff, 0, 0, 1, 0, 10⟩, ⟨.h_diff, 0, 1, 2, 0, -5⟩, ⟨.h_diff, 2, 0, 2, 0, 5⟩] := rfl

theorem ncl : npClusters netWexact = (npW 2 [1]).clusters := rfl

/-- every kept observation is exact at the approximate heights -/
theorem robs_exact : ∀ ob ∈ revisedObs netWexact, ExactObs (sigmaOf netWexact) ob := by
  intro ob hob
  rw [robs] at hob
  simp only [List.mem_cons, List.not_mem_nil, or_false] at hob
  rcases hob with rfl | rfl | rfl
  · show (10 : ℝ) = 110 - 100; norm_num
  · show (-5 : ℝ) = 105 - 110; norm_num
  · show (5 : ℝ) = 105 - 100; norm_num

theorem robs_noalias : ∀ ob ∈ revisedObs netWexact, NoAlias ob := by
  intro ob hob
  rw [robs] at hob
  simp only [List.mem_cons, List.not_mem_nil, or_false] at hob
  rcases hob with rfl | rfl | rfl <;> decide

/-- what the pass returns -/
noncomputable def bX : PassOut ℝ :=
  ⟨[[(1, 1)], [(1, -1), (2, 1)], [(2, 1)]], [0, 0, 0], ⟨2, [(⟨2, .z⟩, 2), (⟨1, .z⟩, 1)]⟩⟩

theorem pass_eq : passFrom (sigmaOf netWexact) netWexact.fuel (revisedObs netWexact) IdxState.init = .ok bX := by
  rw [robs]
  simp only [passFrom, Kind.lin, h_diff_eq]
  show Except.ok (⟨[[(1, 1)], [(1, -1), (2, 1)], [(2, 1)]],
    [((10 : ℝ) - (110 - 100)) * 1000, ((-5 : ℝ) - (105 - 110)) * 1000, ((5 : ℝ) - (105 - 100)) * 1000],
    ⟨2, [(⟨2, .z⟩, 2), (⟨1, .z⟩, 1)]⟩⟩ : PassOut ℝ) = _
  unfold bX
  norm_num

section facade
attribute [local instance] sqrtFnOfSqrtField
attribute [local instance 2000] scalarOfField
attribute [local instance 3000] fieldTrig

theorem pass_eq' : passFrom (sigmaOf netWexact) netWexact.fuel (revisedObs netWexact) IdxState.init = .ok bX := by
  rw [passFrom_inst]; exact pass_eq

/-- what `project_equations()` hands to the solver: `npW 2 [1]`'s clusters, `m_0_apr_`, `min_x_`; levelling rows; zero `rhs_` -/
noncomputable def npX : NetProblem ℝ :=
  { npW 2 [1] with rows := #[#[(1, 1)], #[(1, -1), (2, 1)], #[(2, 1)]], rhs := #[0, 0, 0] }

noncomputable def asmX : Asm ℝ :=
  { np := { npX with minx := [] }, idx := bX.idx, list := unknownsList netWexact bX.idx }

theorem assemble_eq : assemble netWexact = .ok asmX := by
  have hlin : linPass netWexact (revisedObs netWexact) (netWexact.idx.resetPass (guardOf netWexact)) = .ok bX := by
    unfold linPass
    have h1 : (revisedObs netWexact).takeWhile (oriOK netWexact) = revisedObs netWexact := rfl
    have h2 : netWexact.idx.resetPass (guardOf netWexact) = IdxState.init := rfl
    simp only [h1, h2, pass_eq', if_true]
  unfold assemble
  simp only [hlin]
  rfl

theorem cofs_eq : cofs asmX.np = cofs (npW 2 [1]) := rfl

theorem prepare_ok : ∃ hh, prepare asmX.np = .ok hh := by
  have hf : factors (cofs asmX.np) = .ok [⟨2, 1, #[2, 1, 3]⟩, ⟨1, 0, #[2]⟩] := by rw [cofs_eq]; exact npW2_factors [1]
  unfold prepare
  simp only [hf]
  exact ⟨_, rfl⟩

theorem prepare_ok' : ∃ hh, prepare npX = .ok hh := by
  have hf : factors (cofs npX) = .ok [⟨2, 1, #[2, 1, 3]⟩, ⟨1, 0, #[2]⟩] := by
    rw [show cofs npX = cofs (npW 2 [1]) from rfl]; exact npW2_factors [1]
  unfold prepare
  simp only [hf]
  exact ⟨_, rfl⟩

/-- the network as the call leaves it -/
noncomputable def uX : Unknowns ℝ := ⟨2, asmX.list, { netWexact with idx := bX.idx }, []⟩

/-- **`project_equations()` on the levelling network over ℝ** (no point is removed by `singular_coords`: no xy) -/
theorem pe_eq : projectEquations netWexact = .ok (npX, uX) := by
  obtain ⟨hh, hp⟩ := prepare_ok
  have hs : (SingularCoords.singularCoords hh.Ad (idxFn asmX.idx) (ptsOf netWexact)).1 = false := rfl
  show peLoop 4 netWexact [] = _
  unfold peLoop
  simp only [revise_eq, assemble_eq, hp, hs]
  rfl

/-! ### the hypotheses of `C06_exact_network_solution_zero` on `npX` -/

attribute [-simp] Gama.C06R.add_eq Gama.C06R.sub_eq Gama.C06R.mul_eq Gama.C06R.div_eq Gama.C06R.neg_eq Gama.C06R.zero_eq
  Gama.C06R.one_eq Gama.C06R.lt_eq Gama.C06R.le_eq

theorem npX_dims : (dimsN npX).sum = npX.m := npW_dims 2 [1]

theorem uX_robs : revisedObs uX.net = revisedObs netWexact := rfl
theorem uX_sigma : sigmaOf uX.net = sigmaOf netWexact := rfl

theorem npX_rows : RowsOK (toProblem npX) :=
  C01_pe_rowsOK netWexact npX uX pe_eq

/-- `Σ⁻¹` at the index type of `npX` -/
noncomputable def PcX : Matrix (Fin (toProblem npX).m) (Fin (toProblem npX).m) ℝ := PcR

theorem npX_sigma_inv : Sigma npX * PcX = 1 := npW_sigma_inv 2 [1]

theorem npX_reg : Env.RegListOK (toProblem npX) := npW_regListOK 2 [1] (Or.inl rfl)

theorem npX_dense : (toProblem npX).dense = #[#[1, 0], #[-1, 1], #[0, 1]] := by
  simp [Problem.dense, toProblem, npX, npW]
  refine ⟨?_, ?_, ?_⟩ <;> rfl

theorem npX_A : ((toProblem npX).A : Matrix (Fin 3) (Fin 2) ℝ) = !![1, 0; -1, 1; 0, 1] := by
  have h : (toProblem npX).A = toMatrix 3 2 (toProblem npX).dense := rfl
  rw [h, npX_dense]
  ext i j; fin_cases i <;> fin_cases j <;> rfl

/-- the quadratic form `(Aβ)ᵀ P (Aβ)` of the network: `x²/2 − xy/3 + 13y²/36` -/
theorem quadLit (β : Fin 2 → ℝ) :
    ((!![1, 0; -1, 1; 0, 1] : Matrix (Fin 3) (Fin 2) ℝ) *ᵥ β) ⬝ᵥ ((((2 : ℝ) * 2) • PcR) *ᵥ
      ((!![1, 0; -1, 1; 0, 1] : Matrix (Fin 3) (Fin 2) ℝ) *ᵥ β))
      = β 0 * β 0 / 2 - β 0 * β 1 / 3 + 13 * (β 1 * β 1) / 36 := by
  simp [PcR, Matrix.mulVec, dotProduct, Fin.sum_univ_three, Fin.sum_univ_two, Matrix.smul_apply]
  ring

/-- every exact Schur pivot of `AᵀPA` (any order) is ≥ 1/8 -/
theorem gapLit : GapAllP (!![1, 0; -1, 1; 0, 1] : Matrix (Fin 3) (Fin 2) ℝ) (((2 : ℝ) * 2) • PcR) (1 / 8192) := by
  intro k β hk _
  right
  rw [quadLit]
  have h1 : (1 : ℝ) ≤ β 0 * β 0 + β 1 * β 1 := by
    fin_cases k
    · have : β 0 = 1 := hk
      nlinarith [mul_self_nonneg (β 1)]
    · have : β 1 = 1 := hk
      nlinarith [mul_self_nonneg (β 0)]
  nlinarith [mul_self_nonneg (3 * β 0 - 4 / 3 * β 1), mul_self_nonneg (β 1), mul_self_nonneg (β 0)]

/-- the design matrix has full column rank -/
theorem kerLit (g : Fin 2 → ℝ) (hg : (!![1, 0; -1, 1; 0, 1] : Matrix (Fin 3) (Fin 2) ℝ) *ᵥ g = 0) : g = 0 := by
  have h0 := congrFun hg 0
  have h2 := congrFun hg 2
  simp [Matrix.mulVec, dotProduct, Fin.sum_univ_two] at h0 h2
  funext i; fin_cases i
  · exact h0
  · exact h2

theorem npX_ker (g : Fin (toProblem npX).n → ℝ) (hg : (toProblem npX).A *ᵥ g = 0) : g = 0 := by
  have h := kerLit g
  rw [← npX_A] at h
  exact h hg

theorem npX_gap : GapAllP (toProblem npX).A ((npX.m0 * npX.m0) • PcX) (1 / 8192) := by
  have h := gapLit
  rw [← npX_A] at h
  exact h

/-- **`RankGap` on the levelling network** (`τ = 2⁻¹³`, the default dominating every threshold) -/
theorem npX_rankGap : RankGap (toProblem npX).A ((npX.m0 * npX.m0) • PcX) (toProblem npX).S (1 / 8192) :=
  ⟨npX_gap, fun g hg hne => (hne (npX_ker g hg)).elim⟩

/-- **cholesky and gso answer** on `npX` — by `C02_net_answered_iff_resolves`, no solver run evaluated -/
theorem npX_answers (alg : Alg) (halg : alg = .chol ∨ alg = .gso) : ∃ a, netSolve alg npX = .ok a := by
  obtain ⟨hh, hp⟩ := prepare_ok'
  refine (Gama.Props.C02.C02_net_answered_iff_resolves npX npX_dims npX_rows (by show (2 : ℝ) ≠ 0; norm_num) PcX
    npX_sigma_inv npX_reg alg (fun _ => ⟨C01_gap_thresholds_default, npX_gap⟩)
    (fun h => by rcases halg with rfl | rfl <;> cases h)
    (fun g hg hne => (hne (npX_ker g hg)).elim) hh hp
    (fun h => by rcases halg with rfl | rfl <;> cases h)
    (fun h => by rcases halg with rfl | rfl <;> cases h)).2 ?_
  intro g hg _
  exact npX_ker g hg

/-- **`C06_exact_network_solution_zero` applied to the levelling network**: whatever cholesky / gso answer on what
    `project_equations()` assembled from `netWexact` is `x = 0`, `r = 0`, `[pvv] = 0` -/
theorem netWexact_zero (alg : Alg) (halg : alg = .chol ∨ alg = .gso) :
    ∃ a, netSolve alg npX = .ok a ∧ toVec (toProblem npX).n a.x = 0 ∧ toVec (toProblem npX).m a.r = 0 ∧ a.pvv = 0 := by
  obtain ⟨a, ha⟩ := npX_answers alg halg
  refine ⟨a, ha, ?_⟩
  exact exact_network_solution_zero netWexact npX uX pe_eq (by rw [uX_robs, uX_sigma]; exact robs_exact)
    (by show (2 : ℝ) ≠ 0; norm_num) PcX npX_sigma_inv npX_reg
    C01_gap_thresholds_default npX_rankGap alg (by rcases halg with rfl | rfl <;> decide) a ha

/-- `Homogenization::run` inside the envelope solver accepts the blocks of `npX` (b-W7b's evaluated `BlockDiagonal::cholDec`,
    `pSp_factorsU`; the blocks do not depend on rows / right-hand side) -/
theorem npX_envSolve : ∃ s, envSolve (toProblem npX) = .ok s := by
  have hc : (toProblem npX).cov.toList = (pSp [1]).cov.toList := by
    rw [cov_toList, show cofs npX = cofs (npW 2 [1]) from rfl, npW2_cofs]; rfl
  have hf : Env.factorsU (toProblem npX).cov.toList = some [⟨2, 1, #[2, 1, 3]⟩, ⟨1, 0, #[2]⟩] := by
    rw [hc]; exact pSp_factorsU [1]
  unfold envSolve envAnswer envAnswerOrd Env.homogenize
  simp only [hf]
  exact ⟨_, rfl⟩

/-- **envelope, cholesky and gso answer** on `npX` -/
theorem npX_answers3 (alg : Alg) (halg : alg ≠ .svd) : ∃ a, netSolve alg npX = .ok a := by
  obtain ⟨hh, hp⟩ := prepare_ok'
  refine (Gama.Props.C02.C02_net_answered_iff_resolves npX npX_dims npX_rows (by show (2 : ℝ) ≠ 0; norm_num) PcX
    npX_sigma_inv npX_reg alg (fun _ => ⟨C01_gap_thresholds_default, npX_gap⟩)
    (fun h => absurd h halg)
    (fun g hg hne => (hne (npX_ker g hg)).elim) hh hp
    (fun h => absurd h halg)
    (fun _ => npX_envSolve)).2 ?_
  intro g hg _
  exact npX_ker g hg

end facade

end Gama.C06NZ.Ex
