/-
  Loop facts for the kernels that walk the PACKED triangle of a `SymMat` (round 12): an accumulation continued by a
  second loop (`sumFrom`, `forE_accFrom`, `sumFrom_add`), and the closed form of the walk `l += k` down a column of the
  packed lower triangle (`walk_tri`: after `t` steps from row `lo` the offset is `(lo+t)(lo+t-1)/2 + c`).
-/
import Gama.Lemmas.KernelLoopsNested
namespace Gama.MatVec
variable {K : Type}

/-- `for …: s += f k` continued from an accumulator value (or an earlier failure) -/
def sumFrom [Add K] (s : Except Err K) : Nat → (Nat → Except Err K) → Except Err K
  | 0, _ => s
  | n+1, f => match sumFrom s n f with
              | .error e => .error e
              | .ok a => match f n with
                         | .error e => .error e
                         | .ok x => .ok (a + x)

theorem sumLoop_eq_sumFrom [Add K] [Zero K] (n : Nat) (f : Nat → Except Err K) :
    sumLoop n f = sumFrom (.ok 0) n f := by
  induction n with
  | zero => rfl
  | succ n ih => simp only [sumLoop, sumFrom, ih]; rfl

theorem sumFrom_error [Add K] (e : Err) (n : Nat) (f : Nat → Except Err K) : sumFrom (.error e) n f = .error e := by
  induction n with
  | zero => rfl
  | succ n ih => simp only [sumFrom, ih]

theorem sumFrom_add [Add K] (s : Except Err K) (a b : Nat) (f : Nat → Except Err K) :
    sumFrom s (a + b) f = sumFrom (sumFrom s a f) b (fun k => f (a + k)) := by
  induction b with
  | zero => rfl
  | succ b ih => rw [← Nat.add_assoc]; simp only [sumFrom, ih]

theorem sumFrom_congr [Add K] (s : Except Err K) (n : Nat) (f g : Nat → Except Err K) (h : ∀ k, k < n → f k = g k) :
    sumFrom s n f = sumFrom s n g := by
  induction n with
  | zero => rfl
  | succ n ih => simp only [sumFrom, ih (fun k hk => h k (by omega)), h n (by omega)]

/-- a counted accumulation that starts from the value `s0` the accumulator already holds -/
theorem forE_accFrom [Add K] {τ : Type} (lo n : Nat) (s0 : K) (t0 : τ) (g : Nat → τ → Except Err K) (h : Nat → τ → τ) :
    forE lo n (s0, t0) (fun k st => (g k st.2) >>= fun x => pure (st.1 + x, h k st.2))
      = (sumFrom (.ok s0) n (fun k => g (lo + k) (walk h lo k t0))) >>= fun s => pure (s, walk h lo n t0) := by
  induction n with
  | zero => rfl
  | succ n ih =>
    simp only [forE, ih, sumFrom, walk]
    cases sumFrom (.ok s0) n (fun k => g (lo + k) (walk h lo k t0)) with
    | error e => rfl
    | ok s =>
      simp only [bind, Except.bind, pure, Except.pure]
      cases g (lo + n) (walk h lo n t0) <;> rfl

/-- `aj++`, `l += k` for `k = lo, lo+1, …`: from the packed offset of row `lo` (plus `c`) to that of row `lo+t` -/
theorem walk_tri (lo t p c : Nat) :
    walk (fun k (u : Nat × Nat) => (u.1 + 1, u.2 + k)) lo t (p, lo * (lo - 1) / 2 + c)
      = (p + t, (lo + t) * (lo + t - 1) / 2 + c) := by
  induction t with
  | zero => simp [walk]
  | succ t ih =>
    simp only [walk, ih]
    have := tri_succ (lo + t)
    have e : (lo + (t + 1)) * (lo + (t + 1) - 1) / 2 = (lo + t) * (lo + t - 1) / 2 + (lo + t) := by
      rw [show lo + (t + 1) - 1 = lo + t by omega, show lo + (t + 1) = lo + t + 1 by omega]; exact this
    rw [e]
    simp only [Prod.mk.injEq]
    constructor <;> omega

end Gama.MatVec
