/-
  Refinement for object histories of `Mat` (Model/MatObj.lean): with `pentry` re-pointed at
  `this->begin()` on every `invert()` (`PInit.always`), every operation of the store-of-objects
  machine — construct, copy-construct, assign between any sizes, reset, element write, `set_all`,
  `*=`, in-place transpose, in-place Gauss–Jordan inversion, destroy — acts on the VALUES of the
  objects like the value-level semantics `spec`: only the target object changes.

  Invariant `MInv`: the ownership invariant of the `MemRep` sub-objects (`MemRep.Inv`) and the class
  invariant of `Mat`, `size() = row_ * col_`.  `pentry` does not occur in it: the code never reads the
  value a previous call (or a copy) left there.
-/
import Gama.Lemmas.MemRepRefine
import Gama.Model.MatObj
namespace Gama.MatObj
open Gama.MemRep (upd upd_same upd_other)

variable {K : Type} [Scalar K] [Inhabited K]

structure MInv (s : St K) : Prop where
  mem : MemRep.Inv s.mem
  /-- `size() == row_ * col_` -/
  size : ∀ i l, MemRep.val s.mem i = some l → l.length = (s.ext i).row * (s.ext i).col

theorem minv_init : MInv (St.init : St K) :=
  ⟨MemRep.inv_init, by intro i l h; simp [St.init, MemRep.val, MemRep.St.init] at h⟩

theorem val_init : val (St.init : St K) = fun _ => none := by
  funext k; simp [val, St.init, MemRep.val, MemRep.St.init]

/-- one slot of the buffer store changes and the other members of that slot are set -/
theorem val_install {s : St K} {m : MemRep.St K} {ext' : Nat → Ext} {i : Nat} {w : Option (List K)}
    (h : MemRep.val m = upd (MemRep.val s.mem) i w) (hext : ∀ k, k ≠ i → ext' k = s.ext k) :
    val (⟨m, ext'⟩ : St K) = upd (val s) i (w.map fun l => ⟨(ext' i).row, (ext' i).col, l⟩) := by
  funext k
  by_cases hk : k = i
  · subst hk; simp [val, h]
  · simp [val, h, upd_other _ _ hk, hext k hk]

theorem minv_install {s : St K} (hI : MInv s) {m : MemRep.St K} (hm : MemRep.Inv m)
    {ext' : Nat → Ext} {i : Nat} {w : Option (List K)}
    (h : MemRep.val m = upd (MemRep.val s.mem) i w) (hext : ∀ k, k ≠ i → ext' k = s.ext k)
    (hlen : ∀ l, w = some l → l.length = (ext' i).row * (ext' i).col) : MInv (⟨m, ext'⟩ : St K) := by
  refine ⟨hm, ?_⟩
  intro k l hk
  simp only at hk
  rw [h] at hk
  by_cases hki : k = i
  · subst hki; simp at hk; exact hlen l hk
  · rw [upd_other _ _ hki] at hk
    simp only [hext k hki]
    exact hI.size k l hk

theorem upd_ext_other (ext : Nat → Ext) (i : Nat) (e : Ext) : ∀ k, k ≠ i → upd ext i e k = ext k :=
  fun _ hk => upd_other _ _ hk

theorem val_none_iff' (s : St K) (i : Nat) : val s i = none ↔ s.mem.objs i = none := by
  simp [val, MemRep.val_none_iff]

/-! ### In-place loops on the object's own block -/

theorem readAt_own {s : MemRep.St K} (h : MemRep.Inv s) {i : Nat} {t : MemRep.Obj}
    (hi : s.objs i = some t) {l0 : List K} (hv : MemRep.val s i = some l0) :
    readAt s t.rep t.sz = .ok l0 ∧ l0.length = t.sz := by
  obtain ⟨l, hl, hlen, hblk, hnull⟩ := MemRep.val_of_obj h hi
  rw [hv] at hl; cases hl
  refine ⟨?_, hlen⟩
  unfold readAt
  by_cases hz : t.sz = 0
  · simp only [hz, if_true]
    have : l0 = [] := List.eq_nil_of_length_eq_zero (by omega)
    rw [this]
  · simp only [hz, if_false]
    rcases htr : t.rep with _ | a
    · exact absurd (h.null i t hi htr) hz
    · simp only [hblk a htr]
      rw [if_pos (by omega), ← hlen, List.take_length]

theorem writeAt_own {s : MemRep.St K} (h : MemRep.Inv s) {i : Nat} {t : MemRep.Obj}
    (hi : s.objs i = some t) {l0 l : List K} (hv : MemRep.val s i = some l0)
    (hl : l.length = l0.length) :
    ∃ m, writeAt s t.rep l = .ok m ∧ MemRep.Inv m ∧ MemRep.val m = upd (MemRep.val s) i (some l) := by
  obtain ⟨l1, hl1, hlen, hblk, hnull⟩ := MemRep.val_of_obj h hi
  rw [hv] at hl1; cases hl1
  unfold writeAt
  by_cases hz : l.length = 0
  · simp only [hz, if_true]
    have e1 : l = [] := List.eq_nil_of_length_eq_zero hz
    have e0 : l0 = [] := List.eq_nil_of_length_eq_zero (by omega)
    refine ⟨s, rfl, h, ?_⟩
    funext k
    by_cases hk : k = i
    · subst hk; simp [hv, e1, e0]
    · simp [upd_other _ _ hk]
  · simp only [hz, if_false]
    rcases htr : t.rep with _ | a
    · exact absurd (h.null i t hi htr) (by omega)
    · simp only [hblk a htr]
      rw [if_pos (by omega)]
      have hdrop : l0.drop l.length = [] := by rw [hl]; simp
      rw [hdrop, List.append_nil]
      refine ⟨_, rfl, ?_, ?_⟩
      · have hoth : ∀ k' o b, k' ≠ i → s.objs k' = some o → o.rep = some b →
            upd s.heap a (some l) b = s.heap b := by
          intro k' o b hk' hok hr
          exact upd_other _ _ (MemRep.other_block_ne h hk' hi hok htr hr)
        refine MemRep.inv_upd h i (some t) (by simp only []; rw [← hi, MemRep.upd_self]) (by simp) hoth ?_ ?_
        · intro o b ho hr; simp at ho; subst ho; rw [htr] at hr; cases hr
          refine ⟨(h.owned i _ _ hi htr).1, ⟨l, by simp, by omega⟩, ?_⟩
          intro k' o2 hk' hok hr2
          exact hk' (h.excl k' i o2 _ _ hok hi hr2 htr)
        · intro o ho hr; simp at ho; subst ho; exact h.null i _ hi hr
      · apply MemRep.val_eq_upd i
        · intro k' _; rfl
        · intro k' o b hk' hok hr
          exact upd_other _ _ (MemRep.other_block_ne h hk' hi hok htr hr)
        · simp [MemRep.val, hi, htr]

theorem rewriteAt_own {s : MemRep.St K} (h : MemRep.Inv s) {i : Nat} {t : MemRep.Obj}
    (hi : s.objs i = some t) {l0 : List K} (hv : MemRep.val s i = some l0) (f : List K → List K)
    (hf : (f l0).length = l0.length) :
    ∃ m, rewriteAt s t.rep t.sz f = .ok m ∧ MemRep.Inv m ∧
      MemRep.val m = upd (MemRep.val s) i (some (f l0)) := by
  unfold rewriteAt
  rw [(readAt_own h hi hv).1]
  exact writeAt_own h hi hv hf

theorem transposeList_length (r c : Nat) (l : List K) : (transposeList r c l).length = c * r := by
  simp [transposeList]

theorem invertList_length {N : Nat} {tol : K} {l l' : List K} (h : invertList N tol l = .ok l') :
    l'.length = N * N := by
  unfold invertList at h
  split at h
  · cases h
  · cases h; simp

/-! ### One step -/

/-- what an operation does, stated for both outcomes -/
@[reducible] def Post (sp : Except Stop (Vals K)) : Except Stop (St K) → Prop
  | .ok s' => MInv s' ∧ sp = .ok (val s')
  | .error e => sp = .error e

/-- operations delegated to the `MemRep` sub-object: the `MemRep` refinement, lifted -/
theorem viaMem_cases {s : St K} (h : MInv s) (op : MemRep.Op K) (i : Nat) (e : Ext) :
    (∃ m, viaMem s op i e = .ok ⟨m, upd s.ext i e⟩ ∧ MemRep.Inv m ∧
        MemRep.spec (MemRep.val s.mem) op = .ok (MemRep.val m)) ∨
    (∃ x, viaMem s op i e = .error (Stop.ofMem x) ∧ MemRep.spec (MemRep.val s.mem) op = .error x) := by
  unfold viaMem
  cases hs : MemRep.step s.mem op with
  | ok m => exact .inl ⟨m, rfl, MemRep.step_ok h.mem hs⟩
  | error x => exact .inr ⟨x, rfl, MemRep.step_error h.mem hs⟩

theorem refines_ctor (s : St K) (h : MInv s) (i r c : Nat) :
    Post (spec (val s) (.ctor i r c)) (step .always s (.ctor i r c)) := by
  simp only [step, spec, val]
  rcases viaMem_cases h (.ctor i ((r * c : Nat) : Int)) i ⟨r, c, none⟩ with ⟨m, hs, hm, hsp⟩ | ⟨x, hs, hsp⟩
  all_goals (rw [hs]; simp only [MemRep.spec] at hsp)
  · cases hvi : MemRep.val s.mem i with
    | some l => simp [hvi] at hsp
    | none =>
      simp only [hvi, Int.natCast_nonneg, if_true, Int.toNat_natCast, Except.ok.injEq] at hsp
      refine ⟨minv_install h hm hsp.symm (upd_ext_other _ _ _) (by intro l hl; cases hl; simp), ?_⟩
      rw [val_install hsp.symm (upd_ext_other _ _ _)]
      simp
  · cases hvi : MemRep.val s.mem i with
    | some l => simp only [hvi] at hsp; cases hsp; simp [Stop.ofMem]
    | none =>
      have hnn : (0 : Int) ≤ (r : Int) * (c : Int) := Int.mul_nonneg (Int.natCast_nonneg r) (Int.natCast_nonneg c)
      simp [hvi, hnn] at hsp

theorem refines_copyCtor (s : St K) (h : MInv s) (i j : Nat) :
    Post (spec (val s) (.copyCtor i j)) (step .always s (.copyCtor i j)) := by
  simp only [step, spec, val]
  rcases viaMem_cases h (.copyCtor i j) i (s.ext j) with ⟨m, hs, hm, hsp⟩ | ⟨x, hs, hsp⟩
  all_goals (rw [hs]; simp only [MemRep.spec] at hsp)
  · cases hvi : MemRep.val s.mem i with
    | some l => simp [hvi] at hsp
    | none =>
      cases hvj : MemRep.val s.mem j with
      | none => simp [hvi, hvj] at hsp
      | some lj =>
        simp only [hvi, hvj, Except.ok.injEq] at hsp
        refine ⟨minv_install h hm hsp.symm (upd_ext_other _ _ _)
          (by intro l hl; cases hl; simpa using h.size j lj hvj), ?_⟩
        rw [val_install hsp.symm (upd_ext_other _ _ _)]
        simp
  · cases hvi : MemRep.val s.mem i with
    | some l => simp only [hvi] at hsp; cases hsp; simp [Stop.ofMem]
    | none =>
      cases hvj : MemRep.val s.mem j with
      | none => simp only [hvi, hvj] at hsp; cases hsp; simp [Stop.ofMem]
      | some lj => simp [hvi, hvj] at hsp

theorem refines_assign (s : St K) (h : MInv s) (i j : Nat) :
    Post (spec (val s) (.assign i j)) (step .always s (.assign i j)) := by
  simp only [step, spec, val]
  rcases viaMem_cases h (.assign i j) i (s.ext j) with ⟨m, hs, hm, hsp⟩ | ⟨x, hs, hsp⟩
  all_goals (rw [hs]; simp only [MemRep.spec] at hsp)
  · cases hvi : MemRep.val s.mem i with
    | none => simp [hvi] at hsp
    | some li =>
      cases hvj : MemRep.val s.mem j with
      | none => simp [hvi, hvj] at hsp
      | some lj =>
        simp only [hvi, hvj, Except.ok.injEq] at hsp
        refine ⟨minv_install h hm hsp.symm (upd_ext_other _ _ _)
          (by intro l hl; cases hl; simpa using h.size j lj hvj), ?_⟩
        rw [val_install hsp.symm (upd_ext_other _ _ _)]
        simp
  · cases hvi : MemRep.val s.mem i with
    | none => simp only [hvi] at hsp; cases hsp; simp [Stop.ofMem]
    | some li =>
      cases hvj : MemRep.val s.mem j with
      | none => simp only [hvi, hvj] at hsp; cases hsp; simp [Stop.ofMem]
      | some lj => simp [hvi, hvj] at hsp

theorem refines_dtor (s : St K) (h : MInv s) (i : Nat) :
    Post (spec (val s) (.dtor i)) (step .always s (.dtor i)) := by
  simp only [step, spec, val]
  rcases viaMem_cases h (.dtor i) i (s.ext i) with ⟨m, hs, hm, hsp⟩ | ⟨x, hs, hsp⟩
  all_goals (rw [hs]; simp only [MemRep.spec] at hsp)
  · cases hvi : MemRep.val s.mem i with
    | none => simp [hvi] at hsp
    | some li =>
      simp only [hvi, Except.ok.injEq] at hsp
      refine ⟨minv_install h hm hsp.symm (upd_ext_other _ _ _) (by intro l hl; cases hl), ?_⟩
      rw [val_install hsp.symm (upd_ext_other _ _ _)]
      simp
  · cases hvi : MemRep.val s.mem i with
    | none => simp only [hvi] at hsp; cases hsp; simp [Stop.ofMem]
    | some li => simp [hvi] at hsp

theorem refines_reset (s : St K) (h : MInv s) (i r c : Nat) :
    Post (spec (val s) (.reset i r c)) (step .always s (.reset i r c)) := by
  simp only [step, spec]
  cases hi : s.mem.objs i with
  | none => simp [(val_none_iff' s i).2 hi]
  | some t =>
    obtain ⟨l0, hv0⟩ := MemRep.val_some_of_obj hi
    have hval : val s i = some ⟨(s.ext i).row, (s.ext i).col, l0⟩ := by simp [val, hv0]
    simp only [hval]
    by_cases hsame : r = (s.ext i).row ∧ c = (s.ext i).col
    · simp only [hsame, and_self, if_true]; exact ⟨h, rfl⟩
    · simp only [hsame, if_false]
      rcases viaMem_cases h (.resize i (r * c)) i { s.ext i with row := r, col := c } with
        ⟨m, hs, hm, hsp⟩ | ⟨x, hs, hsp⟩
      all_goals (rw [hs]; simp only [MemRep.spec, hv0] at hsp)
      · by_cases hsz : r * c = l0.length
        · simp only [hsz, if_true, Except.ok.injEq] at hsp ⊢
          have hsp' : MemRep.val m = upd (MemRep.val s.mem) i (some l0) := by
            rw [← hsp]; funext k; by_cases hk : k = i
            · subst hk; simp [hv0]
            · simp [upd_other _ _ hk]
          refine ⟨minv_install h hm hsp' (upd_ext_other _ _ _) (by intro l hl; cases hl; simpa using hsz.symm), ?_⟩
          rw [val_install hsp' (upd_ext_other _ _ _)]
          simp
        · simp only [hsz, if_false, Except.ok.injEq] at hsp ⊢
          refine ⟨minv_install h hm hsp.symm (upd_ext_other _ _ _) (by intro l hl; cases hl; simp), ?_⟩
          rw [val_install hsp.symm (upd_ext_other _ _ _)]
          simp
      · split at hsp <;> cases hsp

theorem refines_set (s : St K) (h : MInv s) (i r c : Nat) (x : K) :
    Post (spec (val s) (.set i r c x)) (step .always s (.set i r c x)) := by
  simp only [step, spec]
  cases hvi : MemRep.val s.mem i with
  | none =>
    have hval : val s i = none := by simp [val, hvi]
    simp only [hval]
    by_cases hrc : 1 ≤ r ∧ r ≤ (s.ext i).row ∧ 1 ≤ c ∧ c ≤ (s.ext i).col
    · simp only [hrc, and_self, if_true]
      rcases viaMem_cases h (.write i ((r - 1) * (s.ext i).col + (c - 1)) x) i (s.ext i) with
        ⟨m, hs, hm, hsp⟩ | ⟨y, hs, hsp⟩
      all_goals (rw [hs]; simp only [MemRep.spec, hvi] at hsp)
      · cases hsp
      · cases hsp; simp [Stop.ofMem]
    · simp [hrc]
  | some l0 =>
    have hval : val s i = some ⟨(s.ext i).row, (s.ext i).col, l0⟩ := by simp [val, hvi]
    have hlen := h.size i l0 hvi
    simp only [hval]
    by_cases hrc : 1 ≤ r ∧ r ≤ (s.ext i).row ∧ 1 ≤ c ∧ c ≤ (s.ext i).col
    · have hk : (r - 1) * (s.ext i).col + (c - 1) < l0.length := by
        rw [hlen]
        obtain ⟨h1, h2, h3, h4⟩ := hrc
        calc (r - 1) * (s.ext i).col + (c - 1) < (r - 1) * (s.ext i).col + (s.ext i).col := by omega
          _ = ((r - 1) + 1) * (s.ext i).col := by rw [Nat.add_mul, Nat.one_mul]
          _ ≤ (s.ext i).row * (s.ext i).col := Nat.mul_le_mul_right _ (by omega)
      simp only [hrc, hk, and_self, if_true]
      rcases viaMem_cases h (.write i ((r - 1) * (s.ext i).col + (c - 1)) x) i (s.ext i) with
        ⟨m, hs, hm, hsp⟩ | ⟨y, hs, hsp⟩
      all_goals (rw [hs]; simp only [MemRep.spec, hvi, hk, if_true] at hsp)
      · simp only [Except.ok.injEq] at hsp
        refine ⟨minv_install h hm hsp.symm (upd_ext_other _ _ _)
          (by intro l hl; cases hl; simpa using hlen), ?_⟩
        rw [val_install hsp.symm (upd_ext_other _ _ _)]
        simp
      · cases hsp
    · have : ¬ (1 ≤ r ∧ r ≤ (s.ext i).row ∧ 1 ≤ c ∧ c ≤ (s.ext i).col ∧
          (r - 1) * (s.ext i).col + (c - 1) < l0.length) := fun hh => hrc ⟨hh.1, hh.2.1, hh.2.2.1, hh.2.2.2.1⟩
      simp [hrc, this]

/-- in-place loops that keep the dimensions (and possibly reset `pentry`) -/
theorem refines_inplace {s : St K} (h : MInv s) {i : Nat} {t : MemRep.Obj} (hi : s.mem.objs i = some t)
    {l0 : List K} (hv0 : MemRep.val s.mem i = some l0) (f : List K → List K) (e' : Ext)
    (hf : (f l0).length = e'.row * e'.col) (hf0 : (f l0).length = l0.length) :
    ∃ m, rewriteAt s.mem t.rep t.sz f = .ok m ∧ MInv (⟨m, upd s.ext i e'⟩ : St K) ∧
      val (⟨m, upd s.ext i e'⟩ : St K) = upd (val s) i (some ⟨e'.row, e'.col, f l0⟩) := by
  obtain ⟨m, hm1, hm2, hm3⟩ := rewriteAt_own h.mem hi hv0 f hf0
  refine ⟨m, hm1, minv_install h hm2 hm3 (upd_ext_other _ _ _) (by intro l hl; cases hl; simpa using hf), ?_⟩
  rw [val_install hm3 (upd_ext_other _ _ _)]
  simp

theorem st_eta (s : St K) (m : MemRep.St K) : ({ s with mem := m } : St K) = ⟨m, upd s.ext 0 (s.ext 0)⟩ := by
  rw [MemRep.upd_self]

theorem refines_setAll (s : St K) (h : MInv s) (i : Nat) (x : K) :
    Post (spec (val s) (.setAll i x)) (step .always s (.setAll i x)) := by
  simp only [step, spec]
  cases hi : s.mem.objs i with
  | none => simp [(val_none_iff' s i).2 hi]
  | some t =>
    obtain ⟨l0, hv0⟩ := MemRep.val_some_of_obj hi
    have hval : val s i = some ⟨(s.ext i).row, (s.ext i).col, l0⟩ := by simp [val, hv0]
    obtain ⟨m, hm1, hm2, hm3⟩ := refines_inplace h hi hv0 (fun l => l.map fun _ => x) (s.ext i)
      (by simpa using h.size i l0 hv0) (by simp)
    rw [MemRep.upd_self] at hm2 hm3
    simp only [hval, hm1]
    exact ⟨hm2, by rw [hm3]⟩

theorem refines_scale (s : St K) (h : MInv s) (i : Nat) (f : K) :
    Post (spec (val s) (.scale i f)) (step .always s (.scale i f)) := by
  simp only [step, spec]
  cases hi : s.mem.objs i with
  | none => simp [(val_none_iff' s i).2 hi]
  | some t =>
    obtain ⟨l0, hv0⟩ := MemRep.val_some_of_obj hi
    have hval : val s i = some ⟨(s.ext i).row, (s.ext i).col, l0⟩ := by simp [val, hv0]
    obtain ⟨m, hm1, hm2, hm3⟩ := refines_inplace h hi hv0 (fun l => l.map (· * f)) (s.ext i)
      (by simpa using h.size i l0 hv0) (by simp)
    rw [MemRep.upd_self] at hm2 hm3
    simp only [hval, hm1]
    exact ⟨hm2, by rw [hm3]⟩

theorem refines_transpose (s : St K) (h : MInv s) (i : Nat) :
    Post (spec (val s) (.transpose i)) (step .always s (.transpose i)) := by
  simp only [step, spec]
  cases hi : s.mem.objs i with
  | none => simp [(val_none_iff' s i).2 hi]
  | some t =>
    obtain ⟨l0, hv0⟩ := MemRep.val_some_of_obj hi
    have hval : val s i = some ⟨(s.ext i).row, (s.ext i).col, l0⟩ := by simp [val, hv0]
    have hlen := h.size i l0 hv0
    obtain ⟨m, hm1, hm2, hm3⟩ := refines_inplace h hi hv0 (transposeList (s.ext i).row (s.ext i).col)
      ⟨(s.ext i).col, (s.ext i).row, none⟩
      (by rw [transposeList_length]) (by rw [transposeList_length, hlen, Nat.mul_comm])
    simp only [hval, hm1]
    exact ⟨hm2, by rw [hm3]⟩

theorem refines_invert (s : St K) (h : MInv s) (i : Nat) (tol : K) :
    Post (spec (val s) (.invert i tol)) (step .always s (.invert i tol)) := by
  simp only [step, spec]
  cases hi : s.mem.objs i with
  | none => simp [(val_none_iff' s i).2 hi]
  | some t =>
    obtain ⟨l0, hv0⟩ := MemRep.val_some_of_obj hi
    have hval : val s i = some ⟨(s.ext i).row, (s.ext i).col, l0⟩ := by simp [val, hv0]
    have hlen := h.size i l0 hv0
    simp only [hval]
    by_cases hsq : (s.ext i).row = (s.ext i).col
    · simp only [hsq, ne_eq, not_true_eq_false, if_false]
      obtain ⟨hread, hsz⟩ := readAt_own h.mem hi hv0
      have hNN : (s.ext i).col * (s.ext i).col = t.sz := by rw [← hsz, hlen, hsq]
      rw [hNN, hread]
      simp only []
      cases hinv : invertList (s.ext i).col tol l0 with
      | error x => simp
      | ok l' =>
        simp only []
        have hl' := invertList_length hinv
        obtain ⟨m, hw, hm, hmv⟩ := writeAt_own h.mem hi hv0 (l := l') (by rw [hl', hlen, hsq])
        rw [hw]
        simp only []
        refine ⟨minv_install h hm hmv (upd_ext_other _ _ _) (by intro l hl; cases hl; simpa [hsq] using hl'), ?_⟩
        rw [val_install hmv (upd_ext_other _ _ _)]
        simp [hsq]
    · simp [hsq]

/-- **Refinement, one step** (the code: `pentry = this->begin()` on every `invert`). -/
theorem step_refines (s : St K) (h : MInv s) (op : Op K) :
    Post (spec (val s) op) (step .always s op) := by
  cases op with
  | ctor i r c => exact refines_ctor s h i r c
  | copyCtor i j => exact refines_copyCtor s h i j
  | assign i j => exact refines_assign s h i j
  | reset i r c => exact refines_reset s h i r c
  | set i r c x => exact refines_set s h i r c x
  | setAll i x => exact refines_setAll s h i x
  | scale i f => exact refines_scale s h i f
  | transpose i => exact refines_transpose s h i
  | invert i tol => exact refines_invert s h i tol
  | dtor i => exact refines_dtor s h i

theorem step_ok {s s' : St K} (h : MInv s) {op : Op K} (hs : step .always s op = .ok s') :
    MInv s' ∧ spec (val s) op = .ok (val s') := by
  have := step_refines s h op; rw [hs] at this; exact this

theorem step_error {s : St K} (h : MInv s) {op : Op K} {e : Stop} (hs : step .always s op = .error e) :
    spec (val s) op = .error e := by
  have := step_refines s h op; rw [hs] at this; exact this

theorem invertList_ne_heapFault (N : Nat) (tol : K) (l : List K) :
    invertList N tol l ≠ .error .heapFault := by
  unfold invertList; split <;> simp

theorem spec_ne_heapFault (v : Vals K) (op : Op K) : spec v op ≠ .error .heapFault := by
  cases op with
  | invert i tol =>
    intro hh
    simp only [spec] at hh
    split at hh
    · cases hh
    · split at hh
      · cases hh
      · split at hh
        · rename_i hx; cases hh; exact invertList_ne_heapFault _ _ _ hx
        · cases hh
  | _ => simp only [spec] <;> repeat' split <;> first | simp | (repeat' split <;> simp)

/-- **Refinement, whole histories.** -/
theorem run_refines (ops : List (Op K)) : ∀ (s : St K), MInv s →
    match run .always s ops with
    | .ok s' => MInv s' ∧ specRun (val s) ops = .ok (val s')
    | .error e => specRun (val s) ops = .error e ∧ e ≠ .heapFault := by
  induction ops with
  | nil => intro s h; exact ⟨h, rfl⟩
  | cons op ops ih =>
    intro s h
    unfold run specRun
    cases hs : step .always s op with
    | error e =>
      have := step_error h hs
      simp only [this]
      exact ⟨trivial, fun he => spec_ne_heapFault _ op (he ▸ this)⟩
    | ok s1 =>
      obtain ⟨h1, hsp⟩ := step_ok h hs
      simp only [hsp]
      exact ih s1 h1

/-- the value-level semantics changes the target object only -/
theorem spec_frame {v v' : Vals K} {op : Op K} (h : spec v op = .ok v') :
    ∀ k, k ≠ op.target → v' k = v k := by
  intro k hk
  cases op <;> simp only [spec] at h <;> simp only [Op.target] at hk <;> (repeat' split at h) <;>
    first
      | (cases h; rfl)
      | (cases h; exact upd_other _ _ hk)
      | cases h

/-- **Independence**: an operation on one object never changes the value of another object. -/
theorem step_frame {s s' : St K} (h : MInv s) {op : Op K} (hs : step .always s op = .ok s') :
    ∀ k, k ≠ op.target → val s' k = val s k :=
  spec_frame (step_ok h hs).2

end Gama.MatObj
