/-
  Text level of Model/DecimalCodec.lean: digit strings, and what the reader (`Lit.isFloat` + `Lit.floatParts`) returns on
  a numeral text  `-? D+ (. D+)? (e [+-] D+)?`  — all three printers produce texts of this shape.
-/
import Gama.Model.DecimalCodec
import Gama.Lemmas.LiteralsComplete
namespace Gama.Dec
open Gama.Lit

/-! ## digits -/

theorem isDigit_digitChar (d : Nat) (h : d < 10) : isDigit (digitChar d) = true := by
  have : ∀ d : Fin 10, isDigit (digitChar d.1) = true := by decide
  exact this ⟨d, h⟩

theorem digitChar_val (d : Nat) (h : d < 10) : (digitChar d).toNat - '0'.toNat = d := by
  have : ∀ d : Fin 10, (digitChar d.1).toNat - '0'.toNat = d.1 := by decide
  exact this ⟨d, h⟩

theorem digitChar_zero : digitChar 0 = '0' := by decide

theorem digitChar_eq_zero_iff (d : Nat) (h : d < 10) : digitChar d = '0' ↔ d = 0 := by
  have : ∀ d : Fin 10, digitChar d.1 = '0' ↔ d.1 = 0 := by decide
  exact this ⟨d, h⟩

theorem allDigit_append {a b : List Char} (ha : AllDigit a) (hb : AllDigit b) : AllDigit (a ++ b) := by
  intro c hc
  rcases List.mem_append.mp hc with h | h
  · exact ha c h
  · exact hb c h

theorem allDigit_natDigits (w n : Nat) : AllDigit (natDigits w n) := by
  induction w generalizing n with
  | zero => exact allDigit_nil
  | succ w ih =>
    refine allDigit_append (ih _) ?_
    intro c hc
    rw [List.mem_singleton] at hc
    subst hc
    exact isDigit_digitChar _ (Nat.mod_lt _ (by decide))

theorem length_natDigits (w n : Nat) : (natDigits w n).length = w := by
  induction w generalizing n with
  | zero => rfl
  | succ w ih => simp [natDigits, ih]

theorem digitsVal_foldl (l : List Char) (a : Nat) :
    l.foldl (fun a c => a * 10 + (c.toNat - '0'.toNat)) a = a * 10 ^ l.length + digitsVal l := by
  induction l generalizing a with
  | nil => simp [digitsVal]
  | cons c cs ih =>
    unfold digitsVal
    rw [List.foldl_cons, List.foldl_cons, ih, ih (0 * 10 + _)]
    simp only [List.length_cons, Nat.pow_succ, Nat.zero_mul, Nat.zero_add, Nat.add_mul]
    rw [Nat.mul_assoc a 10, Nat.mul_comm 10 (10 ^ cs.length), Nat.add_assoc]

theorem digitsVal_append (a b : List Char) : digitsVal (a ++ b) = digitsVal a * 10 ^ b.length + digitsVal b := by
  unfold digitsVal
  rw [List.foldl_append, digitsVal_foldl b]
  rfl

theorem digitsVal_nil : digitsVal [] = 0 := rfl

theorem digitsVal_singleton (d : Nat) (h : d < 10) : digitsVal [digitChar d] = d := by
  have := digitChar_val d h
  simp only [digitsVal, List.foldl_cons, List.foldl_nil, Nat.zero_mul, Nat.zero_add]
  exact this

theorem digitsVal_natDigits (w n : Nat) : digitsVal (natDigits w n) = n % 10 ^ w := by
  induction w generalizing n with
  | zero => simp [natDigits, digitsVal, Nat.mod_one]
  | succ w ih =>
    rw [natDigits, digitsVal_append, ih, digitsVal_singleton _ (Nat.mod_lt _ (by decide))]
    simp only [List.length_singleton, Nat.pow_one]
    rw [Nat.pow_succ, Nat.mul_comm (10 ^ w) 10, Nat.mod_mul, Nat.add_comm, Nat.mul_comm]

theorem digitsVal_replicate_zero (k : Nat) : digitsVal (List.replicate k '0') = 0 := by
  induction k with
  | zero => rfl
  | succ k ih =>
    rw [List.replicate_succ, ← List.singleton_append, digitsVal_append, ih]
    simp [digitsVal]

theorem allDigit_replicate_zero (k : Nat) : AllDigit (List.replicate k '0') := by
  intro c hc
  rw [(List.mem_replicate.mp hc).2]
  decide

theorem lt_pow_width (n : Nat) : n < 10 ^ width n := by
  induction n using width.induct with
  | case1 n h => rw [width, if_pos h]; simpa using h
  | case2 n h ih =>
    rw [width, if_neg h, Nat.pow_succ]
    omega

theorem width_pos (n : Nat) : 0 < width n := by
  rw [width]; split <;> omega

theorem pow_width_le (n : Nat) (h : 0 < n) : 10 ^ (width n - 1) ≤ n := by
  induction n using width.induct with
  | case1 n h' => rw [width, if_pos h']; simp; omega
  | case2 n h' ih =>
    rw [width, if_neg h', Nat.add_sub_cancel]
    have h1 : 0 < n / 10 := by omega
    have h2 := ih h1
    have h3 := width_pos (n / 10)
    have : 10 ^ width (n / 10) = 10 ^ (width (n / 10) - 1) * 10 := by
      rw [← Nat.pow_succ]; congr 1; omega
    omega

theorem decDigits_ne_nil (n : Nat) : decDigits n ≠ [] := by
  intro h
  have := congrArg List.length h
  rw [decDigits, length_natDigits] at this
  have := width_pos n
  simp at *
  omega

theorem allDigit_decDigits (n : Nat) : AllDigit (decDigits n) := allDigit_natDigits _ _

theorem digitsVal_decDigits (n : Nat) : digitsVal (decDigits n) = n := by
  rw [decDigits, digitsVal_natDigits, Nat.mod_eq_of_lt (lt_pow_width n)]

/-- integer part and `p` fraction digits together spell the scaled integer -/
theorem digitsVal_fixed (p s : Nat) : digitsVal (decDigits (s / 10 ^ p) ++ natDigits p s) = s := by
  rw [digitsVal_append, digitsVal_decDigits, digitsVal_natDigits, length_natDigits]
  exact Nat.div_add_mod' s (10 ^ p)

theorem stripZeros_decomp (l : List Char) : ∃ k, l = stripZeros l ++ List.replicate k '0' := by
  induction l with
  | nil => exact ⟨0, rfl⟩
  | cons c cs ih =>
    obtain ⟨k, hk⟩ := ih
    rw [stripZeros]
    cases hs : stripZeros cs with
    | nil =>
      rw [hs, List.nil_append] at hk
      by_cases hc : (c == '0') = true
      · refine ⟨k + 1, ?_⟩
        simp only [hc, if_true, List.nil_append]
        rw [hk, List.replicate_succ, eq_of_beq hc]
      · refine ⟨k, ?_⟩
        simp only [hc, List.singleton_append]
        rw [hk]; rfl
    | cons a as =>
      refine ⟨k, ?_⟩
      show c :: cs = c :: (a :: as) ++ List.replicate k '0'
      rw [List.cons_append, ← hs, ← hk]

theorem allDigit_stripZeros {l : List Char} (h : AllDigit l) : AllDigit (stripZeros l) := by
  obtain ⟨k, hk⟩ := stripZeros_decomp l
  intro c hc
  apply h c
  rw [hk]
  exact List.mem_append_left _ hc

/-- removing trailing zeros of the fraction: the digits lose a factor `10^k`, the fraction gets `k` places shorter -/
theorem digitsVal_stripZeros (ip fp : List Char) :
    ∃ k, fp.length = (stripZeros fp).length + k ∧
      digitsVal (ip ++ fp) = digitsVal (ip ++ stripZeros fp) * 10 ^ k := by
  obtain ⟨k, hk⟩ := stripZeros_decomp fp
  refine ⟨k, ?_, ?_⟩
  · have := congrArg List.length hk
    simpa using this
  · have h2 : ip ++ fp = (ip ++ stripZeros fp) ++ List.replicate k '0' := by
      rw [List.append_assoc, ← hk]
    rw [h2, digitsVal_append, digitsVal_replicate_zero, List.length_replicate, Nat.add_zero]

/-! ## the reader on a numeral text -/

/-- nothing, or `e`, a sign and at least two digits -/
inductive ExpTail : List Char → Bool → Nat → Prop
  | none : ExpTail [] false 0
  | exp (c : Char) (hc : c = '+' ∨ c = '-') (ds : List Char) (hd : AllDigit ds) (hne : ds ≠ []) :
      ExpTail ('e' :: c :: ds) (c == '-') (digitsVal ds)

theorem expTail_expOpt {ex : List Char} {eneg : Bool} {E : Nat} (h : ExpTail ex eneg E) : ExpOpt ex := by
  cases h with
  | none => exact Or.inl rfl
  | exp c hc ds hd hne =>
    refine Or.inr ⟨'e', [c], ds, by decide, ?_, hd, hne, rfl⟩
    rcases hc with rfl | rfl
    · exact Or.inr (Or.inl rfl)
    · exact Or.inr (Or.inr rfl)

theorem expTail_expText (X : Int) : ExpTail (expText X) (decide (X < 0)) X.natAbs := by
  unfold expText
  have hw : 0 < max 2 (width X.natAbs) := by omega
  have hne : natDigits (max 2 (width X.natAbs)) X.natAbs ≠ [] := by
    intro h
    have := congrArg List.length h
    rw [length_natDigits] at this
    simp at this
  have hv : digitsVal (natDigits (max 2 (width X.natAbs)) X.natAbs) = X.natAbs := by
    rw [digitsVal_natDigits]
    apply Nat.mod_eq_of_lt
    exact Nat.lt_of_lt_of_le (lt_pow_width _) (Nat.pow_le_pow_right (by decide) (by omega))
  by_cases hX : X < 0
  · have := ExpTail.exp '-' (Or.inr rfl) _ (allDigit_natDigits (max 2 (width X.natAbs)) X.natAbs) hne
    rw [hv] at this
    simpa [hX] using this
  · have := ExpTail.exp '+' (Or.inl rfl) _ (allDigit_natDigits (max 2 (width X.natAbs)) X.natAbs) hne
    rw [hv] at this
    simpa [hX] using this

/-- `b` is empty or starts with something that is not a digit -/
def NoDigitHead (b : List Char) : Prop := ∀ c r, b = c :: r → isDigit c = false

theorem takeWhile_allDigit (a b : List Char) (ha : AllDigit a) (hb : NoDigitHead b) :
    (a ++ b).takeWhile isDigit = a := by
  induction a with
  | nil =>
    cases b with
    | nil => rfl
    | cons c r => simp [List.takeWhile, hb c r rfl]
  | cons c cs ih =>
    have hc : isDigit c = true := ha c (List.mem_cons_self ..)
    rw [List.cons_append, List.takeWhile_cons, if_pos hc, ih (fun x hx => ha x (List.mem_cons_of_mem _ hx))]

theorem dropWhile_allDigit (a b : List Char) (ha : AllDigit a) (hb : NoDigitHead b) :
    (a ++ b).dropWhile isDigit = b := by
  induction a with
  | nil =>
    cases b with
    | nil => rfl
    | cons c r => simp [List.dropWhile, hb c r rfl]
  | cons c cs ih =>
    have hc : isDigit c = true := ha c (List.mem_cons_self ..)
    rw [List.cons_append, List.dropWhile_cons, if_pos hc, ih (fun x hx => ha x (List.mem_cons_of_mem _ hx))]

theorem expTail_noDigitHead {ex : List Char} {eneg : Bool} {E : Nat} (h : ExpTail ex eneg E) : NoDigitHead ex := by
  intro c r hcr
  cases h with
  | none => cases hcr
  | exp c' hc ds hd hne =>
    injection hcr with h1 _
    subst h1
    decide

theorem expTail_not_dot {ex : List Char} {eneg : Bool} {E : Nat} (h : ExpTail ex eneg E) : afterDot ex = ex :=
  afterDot_expOpt (expTail_expOpt h)

/-- the exponent part of `floatParts` -/
def expOf : List Char → Bool × List Char
  | _ :: '-' :: r => (true, r.takeWhile isDigit)
  | _ :: '+' :: r => (false, r.takeWhile isDigit)
  | _ :: r => (false, r.takeWhile isDigit)
  | [] => (false, [])

theorem floatParts_eq' (t : List Char) :
    floatParts t =
      (let t1 := skipSign t
       let ip := t1.takeWhile isDigit
       let r2 := afterDot (t1.dropWhile isDigit)
       let fp := r2.takeWhile isDigit
       let ee := expOf (r2.dropWhile isDigit)
       (digitsVal (ip ++ fp), (ip ++ fp).length, fp.length, ee.1, digitsVal ee.2)) := rfl

theorem expTail_parts {ex : List Char} {eneg : Bool} {E : Nat} (h : ExpTail ex eneg E) :
    (expOf ex).1 = eneg ∧ digitsVal (expOf ex).2 = E := by
  cases h with
  | none => exact ⟨rfl, rfl⟩
  | exp c hc ds hd hne =>
    have ht : ds.takeWhile isDigit = ds := by
      have := takeWhile_allDigit ds [] hd (fun _ _ h => by cases h)
      rwa [List.append_nil] at this
    rcases hc with rfl | rfl
    · exact ⟨rfl, by show digitsVal (ds.takeWhile isDigit) = _; rw [ht]⟩
    · exact ⟨rfl, by show digitsVal (ds.takeWhile isDigit) = _; rw [ht]⟩

/-- the text of a numeral: optional `-`, integer digits, optional fraction, optional exponent -/
def numText (neg : Bool) (ip fp ex : List Char) : List Char := signText neg ++ (ip ++ (dotFrac fp ++ ex))

theorem numText_eq (neg : Bool) (ip fp ex : List Char) :
    numText neg ip fp ex = signText neg ++ (ip ++ ((if fp.isEmpty then [] else ['.']) ++ (fp ++ ex))) := by
  unfold numText dotFrac
  cases fp <;> simp

theorem signOpt_signText (neg : Bool) : SignOpt (signText neg) := by
  cases neg
  · exact Or.inl rfl
  · exact Or.inr (Or.inr rfl)

theorem numText_floatCore (neg : Bool) (ip fp ex : List Char) (hip : AllDigit ip) (hne : ip ≠ []) (hfp : AllDigit fp)
    (hex : ExpOpt ex) : FloatCore (numText neg ip fp ex) :=
  ⟨signText neg, ip, if fp.isEmpty then [] else ['.'], fp, ex, numText_eq .., signOpt_signText neg, hip,
    by cases fp <;> simp, hfp, Or.inl hne, hex⟩

theorem numText_isFloat (neg : Bool) (ip fp ex : List Char) (hip : AllDigit ip) (hne : ip ≠ []) (hfp : AllDigit fp)
    (hex : ExpOpt ex) : isFloat (numText neg ip fp ex) = true ∧ trim (numText neg ip fp ex) = numText neg ip fp ex := by
  have hc := numText_floatCore neg ip fp ex hip hne hfp hex
  have hn : AllSpace [] := fun _ h => nomatch h
  refine ⟨isFloat_complete _ ⟨[], numText neg ip fp ex, [], by simp, hn, hn, hc⟩, ?_⟩
  have := trim_eq [] (numText neg ip fp ex) [] hn hn (floatCore_noSpace hc)
  simpa using this

theorem skipSign_numText (neg : Bool) (ip r : List Char) (hip : AllDigit ip) (hne : ip ≠ []) :
    skipSign (signText neg ++ (ip ++ r)) = ip ++ r := by
  apply skipSign_signOpt_append _ _ (signOpt_signText neg)
  cases ip with
  | nil => exact absurd rfl hne
  | cons d ds => exact skipSign_cons_nonsign _ _ (isDigit_not_sign (hip d (List.mem_cons_self ..)))

theorem floatParts_numText (neg : Bool) (ip fp ex : List Char) (eneg : Bool) (E : Nat) (hip : AllDigit ip) (hne : ip ≠ [])
    (hfp : AllDigit fp) (hex : ExpTail ex eneg E) :
    floatParts (numText neg ip fp ex) = (digitsVal (ip ++ fp), (ip ++ fp).length, fp.length, eneg, E) := by
  have hnd := expTail_noDigitHead hex
  have hparts := expTail_parts hex
  rw [floatParts_eq']
  unfold numText
  simp only []
  rw [skipSign_numText neg ip _ hip hne]
  cases fp with
  | nil =>
    have h1 : (ip ++ (dotFrac [] ++ ex)).takeWhile isDigit = ip := takeWhile_allDigit _ _ hip (by simpa [dotFrac] using hnd)
    have h2 : (ip ++ (dotFrac [] ++ ex)).dropWhile isDigit = ex := by
      have := dropWhile_allDigit ip (dotFrac [] ++ ex) hip (by simpa [dotFrac] using hnd)
      simpa [dotFrac] using this
    have h3 : ex.takeWhile isDigit = [] := by
      have := takeWhile_allDigit [] ex allDigit_nil hnd
      simpa using this
    have h4 : ex.dropWhile isDigit = ex := by
      have := dropWhile_allDigit [] ex allDigit_nil hnd
      simpa using this
    simp only [h1, h2, expTail_not_dot hex, h3, h4, hparts.1, hparts.2, List.append_nil, List.length_nil]
  | cons f fs =>
    have hnd' : NoDigitHead (dotFrac (f :: fs) ++ ex) := by
      intro c r h
      simp only [dotFrac, List.isEmpty_cons, Bool.false_eq_true, if_false, List.cons_append] at h
      injection h with h _
      subst h; decide
    have h1 : (ip ++ (dotFrac (f :: fs) ++ ex)).takeWhile isDigit = ip := takeWhile_allDigit _ _ hip hnd'
    have h2 : (ip ++ (dotFrac (f :: fs) ++ ex)).dropWhile isDigit = '.' :: ((f :: fs) ++ ex) := by
      have := dropWhile_allDigit ip _ hip hnd'
      simpa [dotFrac] using this
    have h3 : ((f :: fs) ++ ex).takeWhile isDigit = f :: fs := takeWhile_allDigit _ _ hfp hnd
    have h4 : ((f :: fs) ++ ex).dropWhile isDigit = ex := dropWhile_allDigit _ _ hfp hnd
    have h5 : afterDot ('.' :: ((f :: fs) ++ ex)) = (f :: fs) ++ ex := rfl
    simp only [h1, h2, h5, h3, h4, hparts.1, hparts.2]

theorem numText_neg_flag (neg : Bool) (ip fp ex : List Char) (hip : AllDigit ip) (hne : ip ≠ []) :
    negHead (numText neg ip fp ex) = neg := by
  cases neg
  · cases ip with
    | nil => exact absurd rfl hne
    | cons d ds =>
      have hd : isDigit d = true := hip d (List.mem_cons_self ..)
      have : d ≠ '-' := by intro h; subst h; revert hd; decide
      simp only [numText, signText, Bool.false_eq_true, if_false, List.nil_append, List.cons_append]
      unfold negHead
      split
      · rename_i h; injection h with h _; exact absurd h this
      · rfl
  · rfl

/-- THE reader theorem: a numeral text is accepted and read as `± digits · 10^(±E − #fraction digits)` -/
theorem rdDecimalL_numText (neg : Bool) (ip fp ex : List Char) (eneg : Bool) (E : Nat) (hip : AllDigit ip) (hne : ip ≠ [])
    (hfp : AllDigit fp) (hex : ExpTail ex eneg E) :
    rdDecimalL (numText neg ip fp ex) =
      some (signed neg (pow10Val (digitsVal (ip ++ fp)) ((if eneg then -(E : Int) else (E : Int)) - (fp.length : Int)))) := by
  obtain ⟨h1, h2⟩ := numText_isFloat neg ip fp ex hip hne hfp (expTail_expOpt hex)
  unfold rdDecimalL
  rw [if_pos h1, h2]
  unfold litValue
  rw [floatParts_numText neg ip fp ex eneg E hip hne hfp hex, numText_neg_flag neg ip fp ex hip hne]

/-! ## what the three renderers produce -/

theorem rd_fixShow (p : Nat) (d : Numeral) : rdDecimalL (fixShow p d) = some (signed d.neg (pow10Val d.m (-(p : Int)))) := by
  have h := rdDecimalL_numText d.neg (decDigits (d.m / 10 ^ p)) (natDigits p d.m) [] false 0 (allDigit_decDigits _)
    (decDigits_ne_nil _) (allDigit_natDigits _ _) ExpTail.none
  rw [digitsVal_fixed, length_natDigits] at h
  simpa [numText, fixShow] using h

/-! ## integers -/

theorem rdIntL_fmtIntL (i : Int) : rdIntL (fmtIntL i) = some i := by
  have hd := allDigit_decDigits i.natAbs
  have hne := decDigits_ne_nil i.natAbs
  have hn : AllSpace [] := fun _ h => nomatch h
  have hlang : IntLang (fmtIntL i) :=
    ⟨[], signText (decide (i < 0)), decDigits i.natAbs, [], by simp [fmtIntL], hn, hn, signOpt_signText _, hd, hne⟩
  have hacc : isInteger (fmtIntL i) = true := (isInteger_iff _).mpr hlang
  have htrim : trim (fmtIntL i) = fmtIntL i := by
    have := trim_eq [] (fmtIntL i) [] hn hn
      (noSpace_append (signOpt_noSpace (signOpt_signText _)) (allDigit_noSpace hd))
    simpa [fmtIntL] using this
  unfold rdIntL
  rw [if_pos hacc, htrim]
  by_cases hi : i < 0
  · have : fmtIntL i = '-' :: decDigits i.natAbs := by simp [fmtIntL, signText, hi]
    rw [this]
    simp only [intValue, digitsVal_decDigits]
    congr 1; omega
  · have hfm : fmtIntL i = decDigits i.natAbs := by simp [fmtIntL, signText, hi]
    rw [hfm]
    cases hdd : decDigits i.natAbs with
    | nil => exact absurd hdd hne
    | cons c cs =>
      have hc : isDigit c = true := by apply hd; rw [hdd]; exact List.mem_cons_self ..
      have h1 : c ≠ '-' := by intro h; subst h; revert hc; decide
      have h2 : c ≠ '+' := by intro h; subst h; revert hc; decide
      have hv : intValue (c :: cs) = (digitsVal (c :: cs) : Int) := by
        unfold intValue
        split
        · rename_i h; injection h with h _; exact absurd h h1
        · rename_i h; injection h with h _; exact absurd h h2
        · rfl
      rw [hv, ← hdd, digitsVal_decDigits]
      congr 1; omega

end Gama.Dec
