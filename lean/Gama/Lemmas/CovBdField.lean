/-
  `BlockDiagonal::cholDec` on the whole object, consequences over an ordered field with a square root
  (`sq x * sq x = x`, `0 < sq x` for `x > 0`):

  * `bd_choldec_blockwise` — every block before the returned index (all blocks when 0 is returned) holds
    the exact Cholesky factor `U` of its block (`UᵀU = C`, positive diagonal, no fill), which is the
    factor the dense banded code `Adj::choldec` computes whenever that accepts the block; blocks after
    the returned index are untouched;
  * `bd_ret_zero_iff`, `bd_rejects_iff` — the return value is 0 iff every block has a Cholesky factor
    whose squared pivots are all `≥ tol`; it is `b ≠ 0` iff `b` is the first block that has none.
-/
import Gama.Lemmas.CovBdMulti
import Gama.Lemmas.CovBdIff
namespace Gama.Cov
open Finset Packed CovMat

set_option linter.unusedSectionVars false

variable {K : Type} [Field K] [LinearOrder K] [IsStrictOrderedRing K] [SqrtFn K]

attribute [local instance] scalarOfField

theorem bd_choldec_blockwise
    (hsq : ∀ x : K, 0 < x → SqrtFn.sq x * SqrtFn.sq x = x ∧ 0 < SqrtFn.sq x)
    (tol : K) (htol : 0 < tol) (bd : BlockDiag K) (Cs : List (CovMat K)) (tail : List K)
    (h : bd.Holds Cs tail) (hwf : ∀ C ∈ Cs, C.WF) :
    ∃ Fs : List (CovMat K), (bd.cholDec tol).2.Holds Fs tail ∧ Fs.length = Cs.length ∧
      ∀ k (hk : k < Cs.length) (hk' : k < Fs.length),
        (((bd.cholDec tol).1 = 0 ∨ k + 1 < (bd.cholDec tol).1) →
          bdCholBlock tol (Cs[k]'hk) = .ok (Fs[k]'hk') ∧
          (Fs[k]'hk').WF ∧ (Fs[k]'hk').dim = (Cs[k]'hk).dim ∧ (Fs[k]'hk').band = (Cs[k]'hk).band ∧
          (∀ i, 1 ≤ i → i ≤ (Cs[k]'hk).dim → 0 < (Fs[k]'hk').get i i) ∧
          (∀ i j, 1 ≤ i → i ≤ j → j ≤ (Cs[k]'hk).dim →
            (Cs[k]'hk).get i j = ∑ r ∈ Icc 1 i, (Fs[k]'hk').get r i * (Fs[k]'hk').get r j) ∧
          (∀ i j, i ≤ j → j > i + (Cs[k]'hk).band → (Fs[k]'hk').get i j = 0) ∧
          (∀ U, adjCholdec (Cs[k]'hk) = .ok U →
            ∀ i j, 1 ≤ i → i ≤ j → j ≤ (Cs[k]'hk).dim → (Fs[k]'hk').get i j = U.get i j)) ∧
        ((bd.cholDec tol).1 ≠ 0 → (bd.cholDec tol).1 < k + 1 → Fs[k]'hk' = Cs[k]'hk) := by
  obtain ⟨r1, r2, r3⟩ := BlockDiag.cholDec_blockwise tol bd Cs tail h hwf
  refine ⟨(bdCholDec tol Cs).2, r2, r3.length_eq.symm, ?_⟩
  intro k hk hk'
  rw [r1]
  have hlist := bdCholDec_eq_list tol Cs
  obtain ⟨_, l2, l3, _⟩ := bdCholList_spec tol Cs 1
  rw [← hlist] at l2 l3
  have hCk : (Cs[k]'hk).WF := hwf _ (List.getElem_mem hk)
  constructor
  · intro hcase
    -- block k is accepted and Fs[k] is its result
    have hacc : ∃ F, bdCholBlock tol (Cs[k]'hk) = .ok F ∧ (bdCholDec tol Cs).2[k]? = some F := by
      rcases hcase with h0 | hlt
      · exact l2 ⟨h0, le_refl _⟩ k hk
      · have hne : (bdCholDec tol Cs).1 ≠ 0 := by omega
        obtain ⟨j, hj1, hj, hj2, _, _⟩ := l3 hne (le_refl _)
        exact hj2 k (by omega)
    obtain ⟨F, hF, hget⟩ := hacc
    have hFk : (bdCholDec tol Cs).2[k]'hk' = F := by
      rw [List.getElem?_eq_getElem hk'] at hget
      exact Option.some.inj hget
    rw [hFk]
    obtain ⟨h1, h2, h3, h4, h5, h6⟩ := bdCholBlock_reproduces hsq hCk tol htol hF
    refine ⟨hF, h1, h2, h3, h4, h5, h6, ?_⟩
    intro U hU
    exact (sparse_dense_agree hCk hsq tol htol hU hF).1
  · intro hne hlt
    obtain ⟨j, hj1, hj, _, _, hj4⟩ := l3 hne (le_refl _)
    have := hj4 k (by omega)
    rw [List.getElem?_eq_getElem hk', List.getElem?_eq_getElem hk] at this
    exact Option.some.inj this

/-- return value 0 ⇔ every block has a Cholesky factor whose squared pivots are all `≥ tol` -/
theorem bd_ret_zero_iff
    (hsq : ∀ x : K, 0 < x → SqrtFn.sq x * SqrtFn.sq x = x ∧ 0 < SqrtFn.sq x)
    (tol : K) (htol : 0 < tol) (bd : BlockDiag K) (Cs : List (CovMat K)) (tail : List K)
    (h : bd.Holds Cs tail) (hwf : ∀ C ∈ Cs, C.WF) :
    (bd.cholDec tol).1 = 0 ↔
      ∀ k (hk : k < Cs.length), ∃ U, IsCholOf (Cs[k]'hk) U ∧
        ∀ i, 1 ≤ i → i ≤ (Cs[k]'hk).dim → tol ≤ U i i * U i i := by
  rw [(BlockDiag.cholDec_blockwise tol bd Cs tail h hwf).1, bdCholDec_ret_zero_iff]
  constructor
  · intro hall k hk
    exact (bdCholBlock_ok_iff hsq (hwf _ (List.getElem_mem hk)) tol htol).mp (hall k hk)
  · intro hall k hk
    exact (bdCholBlock_ok_iff hsq (hwf _ (List.getElem_mem hk)) tol htol).mpr (hall k hk)

/-- return value `b ≠ 0` ⇔ `b` is the first block whose exact Cholesky pivots are not all `≥ tol`
    (no Cholesky factor at all, or a squared pivot below the tolerance) -/
theorem bd_rejects_iff
    (hsq : ∀ x : K, 0 < x → SqrtFn.sq x * SqrtFn.sq x = x ∧ 0 < SqrtFn.sq x)
    (tol : K) (htol : 0 < tol) (bd : BlockDiag K) (Cs : List (CovMat K)) (tail : List K)
    (h : bd.Holds Cs tail) (hwf : ∀ C ∈ Cs, C.WF) (b : Nat) (hb : b ≠ 0) :
    (bd.cholDec tol).1 = b ↔
      ∃ (hlt : b - 1 < Cs.length),
        (∀ k (hk : k < b - 1), ∃ U, IsCholOf (Cs[k]'(by omega)) U ∧
          ∀ i, 1 ≤ i → i ≤ (Cs[k]'(by omega)).dim → tol ≤ U i i * U i i) ∧
        (∀ U, IsCholOf (Cs[b - 1]'hlt) U →
          ∃ i, 1 ≤ i ∧ i ≤ (Cs[b - 1]'hlt).dim ∧ U i i * U i i < tol) := by
  rw [(BlockDiag.cholDec_blockwise tol bd Cs tail h hwf).1, bdCholDec_ret_iff tol Cs b hb]
  constructor
  · rintro ⟨hlt, hok, herr⟩
    refine ⟨hlt, fun k hk => ?_, ?_⟩
    · exact (bdCholBlock_ok_iff hsq (hwf _ (List.getElem_mem _)) tol htol).mp (hok k hk)
    · exact (bdCholBlock_error_iff hsq (hwf _ (List.getElem_mem _)) tol htol).mp herr
  · rintro ⟨hlt, hok, herr⟩
    refine ⟨hlt, fun k hk => ?_, ?_⟩
    · exact (bdCholBlock_ok_iff hsq (hwf _ (List.getElem_mem _)) tol htol).mpr (hok k hk)
    · exact (bdCholBlock_error_iff hsq (hwf _ (List.getElem_mem _)) tol htol).mpr herr

/-! ### a concrete object (non-vacuity of the hypotheses): blocks `[9]` and `[[4,2],[2,5]]` over ℝ -/

section Examples

/-- `BlockDiagonal(2, 4)` after `add_block(1,0,[9])`, `add_block(2,1,[4,2,5])` -/
def exBd : BlockDiag ℝ := ⟨2, #[9, 4, 2, 5], 4, 3, #[0, 1, 2], #[0, 0, 1], #[0, 0, 1, 4]⟩
def exCs : List (CovMat ℝ) := [⟨1, 0, #[9]⟩, ⟨2, 1, #[4, 2, 5]⟩]

theorem exBd_holds : exBd.Holds exCs [] := by
  refine ⟨rfl, ?_, rfl⟩
  intro k hk
  have hk' : k < 2 := hk
  have : k = 0 ∨ k = 1 := by omega
  rcases this with rfl | rfl
  · exact ⟨rfl, rfl, rfl⟩
  · exact ⟨rfl, rfl, rfl⟩

theorem exCs_wf : ∀ C ∈ exCs, C.WF := by
  intro C hC
  simp only [exCs, List.mem_cons, List.not_mem_nil, or_false] at hC
  rcases hC with rfl | rfl <;> exact ⟨by decide, by decide⟩

theorem ex9_isCholOf : (letI : SqrtFn ℝ := ⟨Real.sqrt⟩; letI := fieldScalar ℝ Real.sqrt;
    IsCholOf (⟨1, 0, #[9]⟩ : CovMat ℝ) (fun _ _ => 3)) := by
  let _ : SqrtFn ℝ := ⟨Real.sqrt⟩
  let _ := fieldScalar ℝ Real.sqrt
  constructor
  · intro i _ _; norm_num
  · intro i j h1 h2 h3
    have h3' : j ≤ 1 := h3
    obtain ⟨rfl, rfl⟩ : i = 1 ∧ j = 1 := by omega
    simp [CovMat.get, Packed.idx, Packed.rowOff, CovMat.raw, CovMat.inBuf]
    norm_num

/-- with `tol = 1/100` both blocks are accepted: `cholDec` returns 0 -/
theorem exBd_accepts : (letI : SqrtFn ℝ := ⟨Real.sqrt⟩; letI := fieldScalar ℝ Real.sqrt;
    (exBd.cholDec (1 / 100 : ℝ)).1 = 0) := by
  let _ : SqrtFn ℝ := ⟨Real.sqrt⟩
  refine (bd_ret_zero_iff (K := ℝ) (fun x hx => ⟨Real.mul_self_sqrt hx.le, Real.sqrt_pos.mpr hx⟩)
    (1 / 100) (by norm_num) exBd exCs [] exBd_holds exCs_wf).mpr ?_
  intro k hk
  have hk' : k < 2 := hk
  have : k = 0 ∨ k = 1 := by omega
  rcases this with rfl | rfl
  · exact ⟨fun _ _ => 3, ex9_isCholOf, fun i _ _ => by norm_num⟩
  · refine ⟨exU, ex_isCholOf, ?_⟩
    intro i h1 h2
    have h2' : i ≤ 2 := h2
    have hi : i = 1 ∨ i = 2 := by omega
    rcases hi with rfl | rfl <;> simp [exU] <;> norm_num

/-- with `tol = 5` the first block (`9 ≥ 5`) is accepted and the second (`U(1,1)² = 4 < 5`) is the
    first rejected one: `cholDec` returns 2 -/
theorem exBd_rejects : (letI : SqrtFn ℝ := ⟨Real.sqrt⟩; letI := fieldScalar ℝ Real.sqrt;
    (exBd.cholDec (5 : ℝ)).1 = 2) := by
  let _ : SqrtFn ℝ := ⟨Real.sqrt⟩
  refine (bd_rejects_iff (K := ℝ) (fun x hx => ⟨Real.mul_self_sqrt hx.le, Real.sqrt_pos.mpr hx⟩)
    5 (by norm_num) exBd exCs [] exBd_holds exCs_wf 2 (by decide)).mpr ⟨by decide, ?_, ?_⟩
  · intro k hk
    have : k = 0 := by omega
    subst this
    exact ⟨fun _ _ => 3, ex9_isCholOf, fun i _ _ => by norm_num⟩
  · intro U hU
    refine ⟨1, le_refl _, by decide, ?_⟩
    have := isCholOf_unique hU ex_isCholOf 1 1 (le_refl _) (le_refl _) (by decide)
    rw [this]
    simp [exU]
    norm_num

end Examples

end Gama.Cov
