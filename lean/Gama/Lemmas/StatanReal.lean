/-
  Lemmas about the model of statan.cpp over ℝ.
-/
import Gama.Lemmas.GeoReal
import Gama.Model.Statan
namespace Gama.Statan
open Real

theorem lit_real (m e : ℕ) : (lit m e : ℝ) = (m : ℝ) / (10 : ℝ) ^ e := scalar_ofSci_real m e

theorem half_real : (lit 5 1 : ℝ) = 1 / 2 := by rw [lit_real]; norm_num

theorem fold_real (α : ℝ) : fold α = if 1 / 2 < α then 1 - α else α := by
  unfold fold; rw [half_real]

theorem fold_symm {α : ℝ} (h : α ≠ 1 / 2) : fold (1 - α) = fold α := by
  rw [fold_real, fold_real]
  rcases lt_or_gt_of_ne h with h1 | h1
  · rw [if_pos (by linarith), if_neg (by linarith)]; ring
  · rw [if_neg (by linarith), if_pos h1]

theorem fold_range {α : ℝ} (h0 : 0 < α) (h1 : α < 1) : 0 < fold α ∧ fold α ≤ 1 / 2 := by
  rw [fold_real]; split_ifs with h
  · constructor <;> linarith
  · constructor <;> linarith

/-- `Normal(1 − α) = −Normal(α)` for α ≠ ½ -/
theorem normalWith_antisym (d : Bool) (fuel : ℕ) {α : ℝ} (h : α ≠ 1 / 2) :
    normalWith d fuel (1 - α) = - normalWith d fuel α := by
  unfold normalWith
  simp only [fold_symm h, half_real]
  rcases lt_or_gt_of_ne h with h1 | h1
  · rw [if_pos (by linarith), if_neg (by linarith)]
  · rw [if_neg (by linarith), if_pos h1]; ring

theorem normal_antisym (fuel : ℕ) {α : ℝ} (h : α ≠ 1 / 2) : normal fuel (1 - α) = - normal fuel α :=
  normalWith_antisym _ fuel h

theorem beq_half (p q : ℝ) : Scalar.beq p q = decide (p = q) := by
  simp [Scalar.beq]

theorem student_half (fuel : ℕ) (N : ℤ) : student fuel (1 / 2 : ℝ) N = 0 := by
  unfold student; simp [beq_half, half_real]

theorem student_antisym (fuel : ℕ) (N : ℤ) {α : ℝ} (h : α ≠ 1 / 2) :
    student fuel (1 - α) N = - student fuel α N := by
  have h' : (1 - α) ≠ 1 / 2 := fun e => h (by linarith)
  unfold student
  simp only [beq_half, fold_symm h, half_real, h, h', decide_false, Bool.false_eq_true, if_false]
  rcases lt_or_gt_of_ne h with h1 | h1
  · rw [if_pos (by linarith), if_neg (by linarith)]
  · rw [if_neg (by linarith), if_pos h1]; ring

/-- value of `Student(α, N)` in terms of the unsigned part, α < ½ -/
theorem student_lt_half (fuel : ℕ) (N : ℤ) {α : ℝ} (h : α < 1 / 2) :
    student fuel α N = studentAbs fuel (α * 2) N := by
  unfold student
  have hne : α ≠ 1 / 2 := ne_of_lt h
  simp only [beq_half, hne, decide_false, Bool.false_eq_true, if_false, half_real, fold_real,
    if_neg (not_lt.mpr h.le), scalar_ofNat_real]
  norm_num

theorem student1_real (u : ℝ) : student1 u = Real.cos (π / 2 * u) / Real.sin (π / 2 * u) := by
  unfold student1; simp

theorem student2_real (u : ℝ) : student2 u = Real.sqrt (2 / (u * (2 - u)) - 2) := by
  unfold student2; simp

/-- N = 1: cot(πα) inverts the Cauchy upper tail ½ − arctan(t)/π -/
theorem cauchy_tail {α : ℝ} (h0 : 0 < α) (h1 : α < 1 / 2) :
    1 / 2 - Real.arctan (student1 (α * 2)) / π = α := by
  have hpi := Real.pi_pos
  rw [student1_real]
  have ha : π / 2 * (α * 2) = π * α := by ring
  rw [ha]
  have hcot : Real.cos (π * α) / Real.sin (π * α) = Real.tan (π / 2 - π * α) := by
    rw [Real.tan_pi_div_two_sub, Real.tan_eq_sin_div_cos, inv_div]
  rw [hcot, Real.arctan_tan (by nlinarith) (by nlinarith)]
  field_simp
  ring

/-- N = 2: the closed form inverts the t₂ upper tail ½ − t/(2√(2+t²)) -/
theorem t2_tail {α : ℝ} (h0 : 0 < α) (h1 : α < 1 / 2) :
    1 / 2 - student2 (α * 2) / (2 * Real.sqrt (2 + student2 (α * 2) * student2 (α * 2))) = α := by
  rw [student2_real]
  set u := α * 2 with hu
  have hu0 : 0 < u := by positivity
  have hu1 : u < 1 := by linarith
  have hd : 0 < u * (2 - u) := by nlinarith
  have hune : u ≠ 0 := hu0.ne'
  have h2u : 2 - u ≠ 0 := by intro h; linarith
  have harg : 2 / (u * (2 - u)) - 2 = 2 * (1 - u) ^ 2 / (u * (2 - u)) := by field_simp; ring
  have hnn : 0 ≤ 2 / (u * (2 - u)) - 2 := by rw [harg]; positivity
  have hsq : Real.sqrt (2 / (u * (2 - u)) - 2) * Real.sqrt (2 / (u * (2 - u)) - 2) = 2 / (u * (2 - u)) - 2 :=
    Real.mul_self_sqrt hnn
  rw [hsq]
  have h2 : 2 + (2 / (u * (2 - u)) - 2) = 2 / (u * (2 - u)) := by ring
  rw [h2]
  -- t / sqrt(2 + t²) = sqrt(t² / (2 + t²)) = 1 − u
  have hq : Real.sqrt (2 / (u * (2 - u)) - 2) / Real.sqrt (2 / (u * (2 - u))) = 1 - u := by
    rw [← Real.sqrt_div hnn]
    have : (2 / (u * (2 - u)) - 2) / (2 / (u * (2 - u))) = (1 - u) * (1 - u) := by
      rw [harg]; field_simp
    rw [this, Real.sqrt_mul_self (by linarith)]
  have hs : 0 < Real.sqrt (2 / (u * (2 - u))) := Real.sqrt_pos.mpr (by positivity)
  have : Real.sqrt (2 / (u * (2 - u)) - 2) / (2 * Real.sqrt (2 / (u * (2 - u)))) = (1 - u) / 2 := by
    rw [← hq]; field_simp
  rw [this, hu]; ring

/-- the density returned by `NormalDistribution` is positive, whatever the loops do -/
theorem normalDistribution_density_pos (fuel : ℕ) (x : ℝ) : 0 < (normalDistribution fuel x).2 := by
  have hf0 : (0 : ℝ) < f0 := by unfold f0; rw [lit_real]; positivity
  unfold normalDistribution
  simp only []
  split_ifs <;> first | exact hf0 | exact mul_pos hf0 (Real.exp_pos _)

/-- the density `Normal` divides by is positive in both variants -/
theorem normalTail_density_pos (d : Bool) (fuel : ℕ) (z : ℝ) : 0 < (normalTail d fuel z).2 := by
  unfold normalTail
  cases d
  · exact normalDistribution_density_pos fuel z
  · exact normalDistribution_density_pos fuel (-z)

theorem normalZ0_real (a : ℝ) : normalZ0 a = Real.sqrt (-2 * Real.log a) := by
  unfold normalZ0; simp

theorem normalDen_real (z : ℝ) : normalDen z = ((z + 117.9407) * z + 908.401) * z + 659.935 := by
  unfold normalDen; simp only [lit_real]; norm_num

/-- every operation of `Normal` is defined on (0,1): log of a positive number, root of a positive number,
    positive denominator, positive density -/
theorem normal_defined (fuel : ℕ) {α : ℝ} (h0 : 0 < α) (h1 : α < 1) :
    0 < fold α ∧ 0 < -2 * Real.log (fold α) ∧ 0 < normalZ0 (fold α) ∧ 0 < normalDen (normalZ0 (fold α)) ∧
      0 < (normalDistribution fuel (normalZ1 (normalZ0 (fold α)))).2 := by
  obtain ⟨ha0, ha1⟩ := fold_range h0 h1
  have hlog : Real.log (fold α) < 0 := Real.log_neg ha0 (by linarith)
  have hz : 0 < normalZ0 (fold α) := by rw [normalZ0_real]; exact Real.sqrt_pos.mpr (by linarith)
  refine ⟨ha0, by linarith, hz, ?_, normalDistribution_density_pos _ _⟩
  rw [normalDen_real]; positivity

/-- χ², n = 2: `−2 log p` inverts the upper tail exp(−x/2) -/
theorem chi2_two (fuel : ℕ) {p : ℝ} (hp : 0 < p) : Real.exp (-(chiSquare fuel p 2) / 2) = p := by
  unfold chiSquare
  simp only [show ¬ ((2 : ℤ) < 2) by norm_num, if_false, if_true, scalar_ofNat_real, transc_log_real]
  have : -(-((2 : ℕ) : ℝ) * Real.log p) / 2 = Real.log p := by push_cast; ring
  rw [this, Real.exp_log hp]

/-- χ², n = 1: the square of the normal critical value at p/2 -/
theorem chi2_one (fuel : ℕ) (p : ℝ) : chiSquare fuel p 1 = normal fuel (p / 2) * normal fuel (p / 2) := by
  unfold chiSquare
  have : (lit 5 1 : ℝ) * p = p / 2 := by rw [half_real]; ring
  simp [this]

/-- N ≤ 2 of `Student`: the divisor sin(π/2·u) and the radicand are fine for u = 2α ∈ (0, 1] -/
theorem student12_defined {u : ℝ} (h0 : 0 < u) (h1 : u ≤ 1) :
    0 < Real.sin (π / 2 * u) ∧ 0 < u * (2 - u) ∧ 0 ≤ 2 / (u * (2 - u)) - 2 := by
  have hpi := Real.pi_pos
  refine ⟨Real.sin_pos_of_pos_of_lt_pi (by positivity) (by nlinarith), by nlinarith, ?_⟩
  have hd : 0 < u * (2 - u) := by nlinarith
  have hune : u ≠ 0 := h0.ne'
  have h2u : 2 - u ≠ 0 := by intro h; linarith
  have : 2 / (u * (2 - u)) - 2 = 2 * (1 - u) ^ 2 / (u * (2 - u)) := by field_simp; ring
  rw [this]; positivity

/-- N ≥ 3 prelude of Hill's expansion: r − ½ > 0, a > 0, b > 0, c > 0 (so b + c ≠ 0), d > 0, hence the
    argument of `pow` is positive and so is its value -/
theorem hill_defined {r u : ℝ} (hr : 3 ≤ r) (hu : 0 < u) :
    let abcd := hillABCD r
    0 < r - 1 / 2 ∧ 0 < abcd.1 ∧ 0 < abcd.2.1 ∧ 0 < abcd.2.2.1 ∧ 0 < abcd.2.2.2 ∧
      0 ≤ π / 2 * abcd.1 ∧ 0 < abcd.2.2.2 * u := by
  intro abcd
  have hpi := Real.pi_pos
  have ha : abcd.1 = 1 / (r - 1 / 2) := by
    show (1 : ℝ) / (r - lit 5 1) = _; rw [half_real]
  have hapos : 0 < abcd.1 := by rw [ha]; apply div_pos one_pos; linarith
  have ha4 : abcd.1 ≤ 2 / 5 := by
    rw [ha, div_le_div_iff₀ (by linarith) (by norm_num)]; linarith
  have hb : abcd.2.1 = 48 / (abcd.1 * abcd.1) := by
    show Scalar.ofNat 48 / (abcd.1 * abcd.1) = _; simp
  have hbpos : 0 < abcd.2.1 := by rw [hb]; positivity
  have hc : abcd.2.2.1 = ((20700 * abcd.1 / abcd.2.1 - 98) * abcd.1 - 16) * abcd.1 + 96.36 := by
    show ((Scalar.ofNat 20700 * abcd.1 / abcd.2.1 - Scalar.ofNat 98) * abcd.1 - Scalar.ofNat 16) * abcd.1 + lit 9636 2 = _
    simp only [scalar_ofNat_real, lit_real]; norm_num
  have hq : 0 ≤ 20700 * abcd.1 / abcd.2.1 := by positivity
  have hcpos : 0 < abcd.2.2.1 := by
    rw [hc]
    have h1 : (20700 * abcd.1 / abcd.2.1 - 98) * abcd.1 ≥ -98 * abcd.1 := by nlinarith
    nlinarith
  have hd : abcd.2.2.2 = ((94.5 / (abcd.2.1 + abcd.2.2.1) - 3) / abcd.2.1 + 1) * Real.sqrt (π / 2 * abcd.1) * r := by
    show ((lit 945 1 / (abcd.2.1 + abcd.2.2.1) - Scalar.ofNat 3) / abcd.2.1 + 1) * Scalar.sqrt (Transc.pi / Scalar.ofNat 2 * abcd.1) * r = _
    simp only [scalar_ofNat_real, lit_real, scalar_sqrt_real, transc_pi_real]; norm_num
  have hb300 : 300 ≤ abcd.2.1 := by
    rw [hb, le_div_iff₀ (by positivity)]; nlinarith
  have hdpos : 0 < abcd.2.2.2 := by
    rw [hd]
    have hfrac : 0 ≤ 94.5 / (abcd.2.1 + abcd.2.2.1) := by positivity
    have h3 : -(1 / 100 : ℝ) ≤ (94.5 / (abcd.2.1 + abcd.2.2.1) - 3) / abcd.2.1 := by
      rw [le_div_iff₀ hbpos]; nlinarith
    have hs : 0 < Real.sqrt (π / 2 * abcd.1) := Real.sqrt_pos.mpr (by positivity)
    have : 0 < (94.5 / (abcd.2.1 + abcd.2.2.1) - 3) / abcd.2.1 + 1 := by linarith
    positivity
  exact ⟨by linarith, hapos, hbpos, hcpos, hdpos, by positivity, mul_pos hdpos hu⟩

/-- `Chi_square`, n ≥ 3: 1/f with f > 0, root of a positive number; the rest is polynomial -/
theorem chi_defined {n : ℤ} (hn : 3 ≤ n) : 0 < (Scalar.ofInt n : ℝ) ∧ 0 < 1 / (Scalar.ofInt n : ℝ) := by
  have : (Scalar.ofInt n : ℝ) = (n : ℝ) := by
    unfold Scalar.ofInt
    have h0 : ¬ n < 0 := by omega
    rw [if_neg h0, scalar_ofNat_real, Nat.cast_natAbs, abs_of_nonneg (by omega)]
  rw [this]
  have : (0 : ℝ) < n := by exact_mod_cast (by omega : (0 : ℤ) < n)
  exact ⟨this, by positivity⟩

end Gama.Statan
