/-
  C05, clause 6, negative finding for the ANGULAR types (direction, azimuth, angle) on the witness of
  `Lemmas/LinCutNeg.lean` (a sight of 0.5 µm along +y).

  `IsPartialBearing vec off o r c v` is existential over the lift `θ` (any choice of polar angle that starts at
  `brg (vec o)` — the TRUE polar angle of the vector in [0, 2π), not the bearing 0 that `bearing_distance` reports
  inside the cut — and makes `t ↦ R2CC·(θ t − off)` differentiable at 0).  To refute a coefficient one needs
  UNIQUENESS: two such lifts differ, near 0, by a function with values in `2πℤ` that is continuous at 0 and
  vanishes there, hence by 0 — so the derivative does not depend on the lift (`isPartialBearing_unique`,
  `isPartialAngle_unique`), provided the sight has non-zero length.
-/
import Gama.Lemmas.LinCutNeg
namespace Gama.Lin
open Real Filter Topology

/-- a function that is differentiable at 0, vanishes there and takes values in `FULL·ℤ` near 0 has derivative 0 -/
theorem deriv_zero_of_lattice (g : ℝ → ℝ) (v : ℝ) (hg : HasDerivAt g v 0) (h0 : g 0 = 0)
    (hl : ∀ᶠ t in 𝓝 (0:ℝ), ∃ k : ℤ, g t = k * FULL) : v = 0 := by
  have hc : ∀ᶠ t in 𝓝 (0:ℝ), g t ∈ Set.Ioo (-FULL) FULL := by
    apply hg.continuousAt.eventually
    rw [h0]
    exact Ioo_mem_nhds (by unfold FULL; norm_num) (by unfold FULL; norm_num)
  have hz : g =ᶠ[𝓝 0] fun _ => (0:ℝ) := by
    filter_upwards [hl, hc] with t ⟨k, hk⟩ hin
    rw [hk] at hin ⊢
    have hF : (0:ℝ) < FULL := by unfold FULL; norm_num
    have h1 : (-1 : ℝ) < k := by
      by_contra hh; push Not at hh
      have := hin.1; nlinarith
    have h2 : (k : ℝ) < 1 := by
      by_contra hh; push Not at hh
      have := hin.2; nlinarith
    have h1' : (-1 : ℤ) < k := by exact_mod_cast h1
    have h2' : k < (1 : ℤ) := by exact_mod_cast h2
    have : k = 0 := by omega
    simp [this]
  have h0' : HasDerivAt g 0 0 := (hasDerivAt_const (0:ℝ) (0:ℝ)).congr_of_eventuallyEq hz
  exact hg.unique h0'

/-- two polar angles of one non-zero vector differ by a multiple of 2π -/
theorem polarAngle_diff {x y θ θ' : ℝ} (hne : x * x + y * y ≠ 0) (h : IsPolarAngle x y θ) (h' : IsPolarAngle x y θ') :
    ∃ k : ℤ, θ - θ' = 2 * π * k := by
  have hd : Real.sqrt (x * x + y * y) ≠ 0 := by
    intro h0
    have hnn : 0 ≤ x * x + y * y := add_nonneg (mul_self_nonneg _) (mul_self_nonneg _)
    exact hne ((Real.sqrt_eq_zero hnn).mp h0)
  have hc : Real.cos θ = Real.cos θ' := by
    have := h.1.symm.trans h'.1
    exact mul_left_cancel₀ hd this
  have hs : Real.sin θ = Real.sin θ' := by
    have := h.2.symm.trans h'.2
    exact mul_left_cancel₀ hd this
  exact Real.Angle.angle_eq_iff_two_pi_dvd_sub.mp (Real.Angle.cos_sin_inj hc hs)

/-- along a line through a point other than the origin the vector stays non-zero near 0 -/
theorem line_eventually_ne (x0 y0 a b : ℝ) (h0 : x0 * x0 + y0 * y0 ≠ 0) :
    ∀ᶠ t in 𝓝 (0:ℝ), (x0 + a * t) * (x0 + a * t) + (y0 + b * t) * (y0 + b * t) ≠ 0 := by
  have hcont : ContinuousAt (fun t : ℝ => (x0 + a * t) * (x0 + a * t) + (y0 + b * t) * (y0 + b * t)) 0 := by
    fun_prop
  apply hcont.eventually_ne
  simpa using h0

theorem R2CC_two_pi : R2CC * (2 * π) = FULL := by
  unfold R2CC FULL; field_simp; norm_num

/-- **the derivative of a lifted bearing does not depend on the lift** (sight of non-zero length) -/
theorem isPartialBearing_unique {off : Obs ℝ → ℝ} {o : Obs ℝ} {r : Role} {c : Coord} {v v' : ℝ} (h : hdist o ≠ 0)
    (h1 : IsPartialBearing (fun o => (dX o, dY o)) off o r c v)
    (h2 : IsPartialBearing (fun o => (dX o, dY o)) off o r c v') : v = v' := by
  obtain ⟨θ, a0, ap, ad⟩ := h1
  obtain ⟨θ', b0, bp, bd⟩ := h2
  have hsub := ad.sub bd
  have hg : HasDerivAt (fun t => R2CC * (θ t - θ' t)) (v - v') 0 := by
    refine hsub.congr_of_eventuallyEq (Eventually.of_forall fun t => ?_)
    simp only [Pi.sub_apply]; ring
  have hz := deriv_zero_of_lattice _ _ hg (by simp only [a0, b0]; ring) (by
    have hne := line_eventually_ne (dX o) (dY o) (velX r c) (velY r c) (hdist_sq_ne h)
    filter_upwards [hne] with t ht
    have p1 := ap t; have p2 := bp t
    simp only [dX_bumpU, dY_bumpU] at p1 p2
    obtain ⟨k, hk⟩ := polarAngle_diff ht p1 p2
    exact ⟨k, by rw [hk, ← R2CC_two_pi]; ring⟩)
  linarith

/-- the same for the angle between two sights of non-zero length -/
theorem isPartialAngle_unique {o : Obs ℝ} {r : Role} {c : Coord} {v v' : ℝ} (h : hdist o ≠ 0) (h' : hdist2 o ≠ 0)
    (h1 : IsPartialAngle o r c v) (h2 : IsPartialAngle o r c v') : v = v' := by
  obtain ⟨θ₁, θ₂, a0, a0', ap, ap', ad⟩ := h1
  obtain ⟨φ₁, φ₂, b0, b0', bp, bp', bd⟩ := h2
  have hsub := ad.sub bd
  have hg : HasDerivAt (fun t => R2CC * ((θ₂ t - φ₂ t) - (θ₁ t - φ₁ t))) (v - v') 0 := by
    refine hsub.congr_of_eventuallyEq (Eventually.of_forall fun t => ?_)
    simp only [Pi.sub_apply]; ring
  have hz := deriv_zero_of_lattice _ _ hg (by simp only [a0, b0, a0', b0']; ring) (by
    have hne := line_eventually_ne (dX o) (dY o) (velX r c) (velY r c) (hdist_sq_ne h)
    have hne' := line_eventually_ne (dX2 o) (dY2 o) (velX2 r c) (velY2 r c) (hdist2_sq_ne h')
    filter_upwards [hne, hne'] with t ht ht'
    have p1 := ap t; have p2 := bp t; have q1 := ap' t; have q2 := bp' t
    simp only [dX_bumpU, dY_bumpU] at p1 p2
    simp only [dX2_bumpU, dY2_bumpU] at q1 q2
    obtain ⟨k, hk⟩ := polarAngle_diff ht p1 p2
    obtain ⟨k', hk'⟩ := polarAngle_diff ht' q1 q2
    exact ⟨k' - k, by rw [hk, hk', ← R2CC_two_pi]; push_cast; ring⟩)
  linarith

/-- a value already inside the half-open range is its own wrap -/
theorem isWrapOf_self_range {a r : ℝ} (h : IsWrapOf a r) (h1 : -HALF < a) (h2 : a ≤ HALF) : r = a := by
  obtain ⟨⟨k, hk⟩, l, u⟩ := h
  have hF : FULL = 2 * HALF := by unfold FULL HALF; norm_num
  have hH : (0:ℝ) < HALF := by unfold HALF; norm_num
  have k1 : (-1 : ℝ) < k := by
    by_contra hh; push Not at hh
    nlinarith
  have k2 : (k : ℝ) < 1 := by
    by_contra hh; push Not at hh
    nlinarith
  have k1' : (-1 : ℤ) < k := by exact_mod_cast k1
  have k2' : k < (1 : ℤ) := by exact_mod_cast k2
  have : k = 0 := by omega
  rw [hk, this]; simp

/-! ### the witness with an angular reading -/

/-- the witness of `LinCutNeg` with the reading π/2 = its true bearing (orientation 0, x-north 0) -/
noncomputable def witnessAng : Obs ℝ := { witness with value := π / 2 }

theorem witnessAng_geometry : dX witnessAng = 0 ∧ dY witnessAng = 1 / 2000000 ∧ hdist witnessAng = 1 / 2000000 :=
  witness_geometry

theorem witnessAng_brg : brg (dX witnessAng) (dY witnessAng) = π / 2 := by
  obtain ⟨hx, hy, -⟩ := witnessAng_geometry
  rw [hx, hy]
  have harg : Complex.arg ⟨0, 1 / 2000000⟩ = π / 2 :=
    Complex.arg_eq_pi_div_two_iff.mpr ⟨rfl, by norm_num⟩
  unfold brg
  rw [harg, if_pos (by positivity)]

theorem witnessAng_pos : hdist witnessAng ≠ 0 := by rw [witnessAng_geometry.2.2]; norm_num
theorem witnessAng_cut : hdist witnessAng < CUT := by rw [witnessAng_geometry.2.2]; unfold CUT; norm_num

theorem witnessAng_KF : KF (hdist witnessAng) * (dY witnessAng / hdist witnessAng) = 4000000000 / π := by
  obtain ⟨-, hy, hd⟩ := witnessAng_geometry
  rw [hy, hd]; unfold KF; field_simp; norm_num

/-- the TRUE coefficients of the direction at the witness: `∂/∂x_to = −4·10⁹/π` cc/mm, `∂/∂x_from = +4·10⁹/π` -/
theorem witnessAng_direction_true :
    IsPartialBearing (fun o => (dX o, dY o)) (fun o => o.orientation) witnessAng .pto .x (-(4000000000 / π)) ∧
    IsPartialBearing (fun o => (dX o, dY o)) (fun o => o.orientation) witnessAng .pfrom .x (4000000000 / π) := by
  obtain ⟨-, -, h3, -, h5⟩ := direction_partials witnessAng witnessAng_pos
  rw [witnessAng_KF] at h3 h5
  exact ⟨h5, h3⟩

theorem witnessAng_azimuth_true :
    IsPartialBearing (fun o => (dX o, dY o)) (fun o => o.xNorth) witnessAng .pto .x (-(4000000000 / π)) ∧
    IsPartialBearing (fun o => (dX o, dY o)) (fun o => o.xNorth) witnessAng .pfrom .x (4000000000 / π) := by
  obtain ⟨-, h3, -, h5⟩ := azimuth_partials witnessAng witnessAng_pos
  rw [witnessAng_KF] at h3 h5
  exact ⟨h5, h3⟩

theorem coeff_ne : (4000000000 / π : ℝ) ≠ 0 := by positivity

theorem witnessAng_reported : (witnessAng.value + witnessAng.orientation) * R2CC = 1000000 ∧
    (witnessAng.value + witnessAng.xNorth) * R2CC = 1000000 := by
  constructor <;> · simp [witnessAng, witness, R2CC]; field_simp; norm_num

/-- what `direction` returns at the witness: `x_to ↦ 0`, `x_from ↦ 0` (`K·sin 0`, whatever `K` is), rhs = 100 gon -/
theorem witnessAng_direction_code (fuel : Nat) (out : LinOut ℝ) (hok : Gen.Lin.direction fuel witnessAng = .ok out) :
    (Role.pto, Coord.x, (0 : ℝ)) ∈ out.pushes ∧ (Role.pfrom, Coord.x, (0 : ℝ)) ∈ out.pushes ∧ out.rhs = 1000000 := by
  obtain ⟨hw, he⟩ := direction_cut fuel witnessAng out witnessAng_cut hok
  rw [witnessAng_reported.1] at hw
  refine ⟨?_, ?_, isWrapOf_self_range hw (by unfold HALF; norm_num) (by unfold HALF; norm_num)⟩
  · simp [LinOut.pushes, he, pushes, xyBlock, witnessAng, witness, Pt.free_xy, Status.isFree]
  · simp [LinOut.pushes, he, pushes, xyBlock, witnessAng, witness, Pt.free_xy, Status.isFree]

theorem witnessAng_azimuth_code (fuel : Nat) (out : LinOut ℝ) (hok : Gen.Lin.azimuth fuel witnessAng = .ok out) :
    (Role.pto, Coord.x, (0 : ℝ)) ∈ out.pushes ∧ (Role.pfrom, Coord.x, (0 : ℝ)) ∈ out.pushes ∧ out.rhs = 1000000 := by
  obtain ⟨hw, he⟩ := azimuth_cut fuel witnessAng out witnessAng_cut hok
  rw [witnessAng_reported.2] at hw
  refine ⟨?_, ?_, isWrapOf_self_range hw (by unfold HALF; norm_num) (by unfold HALF; norm_num)⟩
  · simp [LinOut.pushes, he, pushes, xyBlock, witnessAng, witness, Pt.free_xy, Status.isFree]
  · simp [LinOut.pushes, he, pushes, xyBlock, witnessAng, witness, Pt.free_xy, Status.isFree]

/-- the true misclosure of the witness is 0: the reading IS the bearing -/
theorem witnessAng_true_misclosure :
    R2CC * (witnessAng.value + witnessAng.orientation - brg (dX witnessAng) (dY witnessAng)) = 0 ∧
    R2CC * (witnessAng.value + witnessAng.xNorth - brg (dX witnessAng) (dY witnessAng)) = 0 := by
  rw [witnessAng_brg]; constructor <;> simp [witnessAng, witness]

/-! ### an angle whose backsight is the 0.5 µm sight -/

/-- backsight = the witness sight (inside the cut), foresight = (1, 0) at 1 m (bearing 0); the true angle
    bs → fs is 3π/2 and is the reading -/
noncomputable def witnessAngle : Obs ℝ := { witness with pfs := ⟨1, 0, 0, .free, .free⟩, value := 3 * π / 2 }

theorem witnessAngle_geometry : dX witnessAngle = 0 ∧ dY witnessAngle = 1 / 2000000 ∧ hdist witnessAngle = 1 / 2000000 ∧
    dX2 witnessAngle = 1 ∧ dY2 witnessAngle = 0 ∧ hdist2 witnessAngle = 1 := by
  obtain ⟨hx, hy, hd⟩ := witness_geometry
  have hx2 : dX2 witnessAngle = 1 := by simp [dX2, witnessAngle, witness]
  have hy2 : dY2 witnessAngle = 0 := by simp [dY2, witnessAngle, witness]
  refine ⟨hx, hy, hd, hx2, hy2, ?_⟩
  unfold hdist2; rw [hx2, hy2]; simp

theorem witnessAngle_pos : hdist witnessAngle ≠ 0 ∧ hdist2 witnessAngle ≠ 0 := by
  obtain ⟨-, -, hd, -, -, hd2⟩ := witnessAngle_geometry
  rw [hd, hd2]; constructor <;> norm_num

theorem witnessAngle_cut : hdist witnessAngle < CUT := by
  rw [witnessAngle_geometry.2.2.1]; unfold CUT; norm_num

/-- the TRUE coefficient of the angle w.r.t. `x` of the backsight target: `+4·10⁹/π` cc/mm -/
theorem witnessAngle_true : IsPartialAngle witnessAngle .pto .x (4000000000 / π) := by
  obtain ⟨-, -, -, h4, -, -⟩ := angle_partials witnessAngle witnessAngle_pos.1 witnessAngle_pos.2
  have : KF (hdist witnessAngle) * (dY witnessAngle / hdist witnessAngle) = 4000000000 / π := by
    obtain ⟨-, hy, hd, -⟩ := witnessAngle_geometry
    rw [hy, hd]; unfold KF; field_simp; norm_num
  rwa [this] at h4

/-- `angle` pushes `x_bs ↦ K₁·sin 0 = 0` -/
theorem witnessAngle_code (fuel : Nat) (out : LinOut ℝ) (hok : Gen.Lin.angle fuel witnessAngle = .ok out) :
    (Role.pto, Coord.x, (0 : ℝ)) ∈ out.pushes := by
  obtain ⟨-, he⟩ := angle_cut_bs fuel witnessAngle out witnessAngle_cut hok
  simp [LinOut.pushes, he, pushes, xyBlock, witnessAngle, witness, Pt.free_xy, Status.isFree]

end Gama.Lin
