/-
  C17, round 13: the FIRST Hill branch of `Student` (N ≥ 3, `y = (d·alfa)^(2/N) > a + 0.05`).
  `studentHill = sqrt(r · hillExp(a · y₁²))`, `y₁ = hillY1 N r b c d x`, `x = −Normal(alfa/2)`: the probability enters through
  `Normal` only.  Proved: the outer map `y₂ ↦ sqrt(r·hillExp y₂)` is strictly increasing on [0, ∞) INCLUDING the switch at
  0.002 between `0.5y² + y` and `exp(y) − 1` (needs `1 + y + y²/2 ≤ exp y`); hence `Student` is strictly monotone in `y₁²`.
  NOT proved: `y₁²` strictly increasing in `|x|` (a rational function of x with the parameters N, r, b, c, d) — hypothesis
  `hY` below, together with `Normal` decreasing it is the exact residue of the first branch.
-/
import Gama.Lemmas.StatanHillMono
namespace Gama.Statan
open Real

/-- `y = (((((0.4*y+6.3)*y+36.0)*y+94.5)/c-y-3.0)/b+1.0)*x` with `y = x*x`, `c` the first Hill divisor -/
noncomputable def hillY1 (N : ℤ) (r b c d x : ℝ) : ℝ :=
  (((((lit 4 1 * (x * x) + lit 63 1) * (x * x) + Scalar.ofNat 36) * (x * x) + lit 945 1) / hillDiv1 N r b c d x
      - x * x - Scalar.ofNat 3) / b + 1) * x

/-- `if (y <= 0.002) y = 0.5*y*y+y; else y = exp(y)-1.0;` -/
noncomputable def hillExp (y : ℝ) : ℝ := if y ≤ lit 2 3 then lit 5 1 * y * y + y else Transc.exp y - 1

theorem hillExp_real (y : ℝ) : hillExp y = if y ≤ 1 / 500 then 1 / 2 * y * y + y else Real.exp y - 1 := by
  unfold hillExp
  have e1 : (lit 2 3 : ℝ) = 1 / 500 := by rw [lit_real]; norm_num
  rw [e1, half_real]; rfl

/-- the outer map of the first branch, INCLUDING its switch at 0.002, is strictly increasing on [0, ∞) -/
theorem hillExp_strictMono {s t : ℝ} (hs : 0 ≤ s) (hst : s < t) : hillExp s < hillExp t := by
  rw [hillExp_real, hillExp_real]
  by_cases h1 : t ≤ 1 / 500
  · rw [if_pos h1, if_pos (by linarith)]; nlinarith
  · by_cases h2 : s ≤ 1 / 500
    · rw [if_neg h1, if_pos h2]
      have ht : 0 ≤ t := by linarith
      have hq := Real.quadratic_le_exp_of_nonneg ht
      nlinarith
    · rw [if_neg h1, if_neg h2]
      have := Real.exp_lt_exp.mpr hst
      linarith

theorem hillExp_nonneg {s : ℝ} (hs : 0 ≤ s) : 0 ≤ hillExp s := by
  rw [hillExp_real]
  split_ifs
  · nlinarith
  · have := Real.add_one_le_exp s; linarith

/-- N ≥ 3, the first branch (`a + 0.05 < y`): the value through `x = −Normal(alfa/2)` only -/
theorem studentHill_first (fuel : ℕ) (N : ℤ) (u : ℝ)
    (hbr : (hillABCD (Scalar.ofInt N : ℝ)).1 + 1 / 20 < hillY N u) :
    studentHill fuel u N
      = Real.sqrt ((Scalar.ofInt N : ℝ) * hillExp ((hillABCD (Scalar.ofInt N : ℝ)).1 *
          hillY1 N (Scalar.ofInt N : ℝ) (hillABCD (Scalar.ofInt N : ℝ)).2.1 (hillABCD (Scalar.ofInt N : ℝ)).2.2.1
            (hillABCD (Scalar.ofInt N : ℝ)).2.2.2 (-(normal fuel (lit 5 1 * u))) *
          hillY1 N (Scalar.ofInt N : ℝ) (hillABCD (Scalar.ofInt N : ℝ)).2.1 (hillABCD (Scalar.ofInt N : ℝ)).2.2.1
            (hillABCD (Scalar.ofInt N : ℝ)).2.2.2 (-(normal fuel (lit 5 1 * u))))) := by
  unfold studentHill
  have e : (lit 5 2 : ℝ) = 1 / 20 := by rw [lit_real]; norm_num
  have hy : Transc.pow ((hillABCD (Scalar.ofInt N : ℝ)).2.2.2 * u) ((Scalar.ofNat 2 : ℝ) / (Scalar.ofInt N : ℝ)) = hillY N u := by
    unfold hillY; simp only [scalar_ofNat_real]; rfl
  simp only [hy, e, if_pos hbr, scalar_sqrt_real]
  rfl

/-- **first branch: strictly monotone in `y₁²`** — two doubled tail probabilities in the first branch whose `y₁²` are
    ordered give ordered (unsigned) critical values; `r = N ≥ 3`, `a > 0` -/
theorem studentHill_first_mono (fuel : ℕ) {N : ℤ} (hN : 3 ≤ N) {u v : ℝ}
    (hbu : (hillABCD (Scalar.ofInt N : ℝ)).1 + 1 / 20 < hillY N u)
    (hbv : (hillABCD (Scalar.ofInt N : ℝ)).1 + 1 / 20 < hillY N v)
    (hY : hillY1 N (Scalar.ofInt N : ℝ) (hillABCD (Scalar.ofInt N : ℝ)).2.1 (hillABCD (Scalar.ofInt N : ℝ)).2.2.1
            (hillABCD (Scalar.ofInt N : ℝ)).2.2.2 (-(normal fuel (lit 5 1 * v))) ^ 2
        < hillY1 N (Scalar.ofInt N : ℝ) (hillABCD (Scalar.ofInt N : ℝ)).2.1 (hillABCD (Scalar.ofInt N : ℝ)).2.2.1
            (hillABCD (Scalar.ofInt N : ℝ)).2.2.2 (-(normal fuel (lit 5 1 * u))) ^ 2) :
    studentHill fuel v N < studentHill fuel u N := by
  have hr : (3 : ℝ) ≤ (Scalar.ofInt N : ℝ) := by rw [ofInt_real]; exact_mod_cast hN
  obtain ⟨ha, _, _, _, _⟩ := hill_bounds hr
  rw [studentHill_first fuel N v hbv, studentHill_first fuel N u hbu]
  set r : ℝ := (Scalar.ofInt N : ℝ)
  set a := (hillABCD r).1
  have ha0 : 0 < a := by rw [ha]; apply div_pos one_pos; linarith
  have hr0 : 0 < r := by linarith
  set yv := hillY1 N r (hillABCD r).2.1 (hillABCD r).2.2.1 (hillABCD r).2.2.2 (-(normal fuel (lit 5 1 * v)))
  set yu := hillY1 N r (hillABCD r).2.1 (hillABCD r).2.2.1 (hillABCD r).2.2.2 (-(normal fuel (lit 5 1 * u)))
  have h0 : 0 ≤ a * yv * yv := by nlinarith [mul_self_nonneg yv]
  have hlt : a * yv * yv < a * yu * yu := by nlinarith
  have hE := hillExp_strictMono h0 hlt
  have hE0 := hillExp_nonneg h0
  exact Real.sqrt_lt_sqrt (by positivity) (mul_lt_mul_of_pos_left hE hr0)

/-- the same for `Student(α, N)` itself, `0 < α < β < ½` both in the first branch -/
theorem student_hill_first_mono (fuel : ℕ) {N : ℤ} (hN : 3 ≤ N) {α β : ℝ} (hab : α < β) (hb : β < 1 / 2)
    (hbu : (hillABCD (Scalar.ofInt N : ℝ)).1 + 1 / 20 < hillY N (α * 2))
    (hbv : (hillABCD (Scalar.ofInt N : ℝ)).1 + 1 / 20 < hillY N (β * 2))
    (hY : hillY1 N (Scalar.ofInt N : ℝ) (hillABCD (Scalar.ofInt N : ℝ)).2.1 (hillABCD (Scalar.ofInt N : ℝ)).2.2.1
            (hillABCD (Scalar.ofInt N : ℝ)).2.2.2 (-(normal fuel (lit 5 1 * (β * 2)))) ^ 2
        < hillY1 N (Scalar.ofInt N : ℝ) (hillABCD (Scalar.ofInt N : ℝ)).2.1 (hillABCD (Scalar.ofInt N : ℝ)).2.2.1
            (hillABCD (Scalar.ofInt N : ℝ)).2.2.2 (-(normal fuel (lit 5 1 * (α * 2)))) ^ 2) :
    student fuel β N < student fuel α N := by
  rw [student_lt_half fuel N hb, student_lt_half fuel N (by linarith : α < 1 / 2)]
  have e : ∀ w : ℝ, studentAbs fuel w N = studentHill fuel w N := by
    intro w; unfold studentAbs; rw [if_neg (by omega), if_neg (by omega)]
  rw [e, e]
  exact studentHill_first_mono fuel hN hbu hbv hY

end Gama.Statan
