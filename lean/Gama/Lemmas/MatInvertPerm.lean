/-
  The permutation-undo tail of `Mat<>::invert` (lib/matvec/mat.h), model in
  `Gama/Model/MatInvert.lean`:

  * `undoRows_spec` : the in-place cycle-following row loop turns `m` into `i,j ↦ m (perm i, j)`,
  * `undoCols_spec` : the column loop turns `m` into `i,j ↦ m (i, perm j)`,
  * `undoPermutation_spec` : with `indr`, `indc` bijections of `[0,N)`,
      `undoPermutation N indr indc m (indc s, indr t) = m (indr s, indc t)`.

  `perm` / `inv_perm` / `indr` / `indc` are only constrained on `[0,N)`; values outside are
  arbitrary.  Surjectivity of `indr`, `indc` is *derived* from injectivity (pigeonhole on `Fin N`,
  `Finite.injective_iff_surjective`), it is not an extra hypothesis of `undoPermutation_spec`.
-/
import Gama.Model.MatInvert
import Mathlib.Data.Fintype.Card
import Mathlib.Data.Fintype.EquivFin

namespace Gama.MatVec

/-! ### offsets -/

theorem off_inj {N a a' j j' : Nat} (hj : j < N) (hj' : j' < N)
    (h : a * N + j = a' * N + j') : a = a' ∧ j = j' := by
  rcases Nat.lt_trichotomy a a' with hlt | heq | hgt
  · have h1 : (a + 1) * N ≤ a' * N := Nat.mul_le_mul_right N hlt
    rw [Nat.succ_mul] at h1
    omega
  · subst heq
    omega
  · have h1 : (a' + 1) * N ≤ a * N := Nat.mul_le_mul_right N hgt
    rw [Nat.succ_mul] at h1
    omega

theorem off_eq_iff {N a a' j j' : Nat} (hj : j < N) (hj' : j' < N) :
    (a * N + j = a' * N + j') ↔ (a = a' ∧ j = j') :=
  ⟨off_inj hj hj', fun ⟨h1, h2⟩ => by rw [h1, h2]⟩

/-! ### physical row / column swaps -/

theorem swapRows_aux {α : Type} (N : Nat) (m : Nat → α) (i r : Nat) :
    ∀ n, n ≤ N → ∀ a j, j < N →
      (forUp n (fun j (b : Box (Nat → α)) =>
          ⟨fset (fset b.val (i*N + j) (b.val (r*N + j))) (r*N + j) (b.val (i*N + j)), b.cnt + 1⟩)
          ⟨m, 0⟩).val (a*N + j)
        = if j < n then (if a = i then m (r*N + j) else if a = r then m (i*N + j) else m (a*N + j))
          else m (a*N + j) := by
  intro n
  induction n with
  | zero => intro _ a j _; simp [forUp]
  | succ n ih =>
    intro hn a j hj
    have hnN : n < N := by omega
    have ih' := ih (by omega)
    simp only [forUp, fset, off_eq_iff hj hnN]
    rw [ih' i n hnN, ih' r n hnN, ih' a j hj]
    simp only [Nat.lt_irrefl, if_false]
    rcases Nat.lt_trichotomy j n with h | h | h
    · have h5 : j < n + 1 := by omega
      have h6 : j ≠ n := by omega
      simp [h, h5, h6]
    · subst h
      by_cases h1 : a = r <;> by_cases h2 : a = i <;> simp_all
    · have h5 : ¬ j < n + 1 := by omega
      have h6 : j ≠ n := by omega
      have h7 : ¬ j < n := by omega
      simp [h5, h6, h7]

theorem swapRows_spec {α : Type} (N : Nat) (m : Nat → α) (i r a j : Nat) (hj : j < N) :
    swapRows N m i r (a*N + j)
      = if a = i then m (r*N + j) else if a = r then m (i*N + j) else m (a*N + j) := by
  unfold swapRows
  rw [swapRows_aux N m i r N (Nat.le_refl N) a j hj]
  simp [hj]

theorem swapCols_aux {α : Type} (N : Nat) (m : Nat → α) (j c : Nat) (hj : j < N) (hc : c < N) :
    ∀ n, ∀ a b, b < N →
      (forUp n (fun i (b : Box (Nat → α)) =>
          ⟨fset (fset b.val (i*N + j) (b.val (i*N + c))) (i*N + c) (b.val (i*N + j)), b.cnt + 1⟩)
          ⟨m, 0⟩).val (a*N + b)
        = if a < n then (if b = j then m (a*N + c) else if b = c then m (a*N + j) else m (a*N + b))
          else m (a*N + b) := by
  intro n
  induction n with
  | zero => intro a b _; simp [forUp]
  | succ n ih =>
    intro a b hb
    simp only [forUp, fset, off_eq_iff hb hc, off_eq_iff hb hj]
    rw [ih n j hj, ih n c hc, ih a b hb]
    simp only [Nat.lt_irrefl, if_false]
    rcases Nat.lt_trichotomy a n with h | h | h
    · have h5 : a < n + 1 := by omega
      have h6 : a ≠ n := by omega
      simp [h, h5, h6]
    · subst h
      by_cases h1 : b = c <;> by_cases h2 : b = j <;> simp_all
    · have h5 : ¬ a < n + 1 := by omega
      have h6 : a ≠ n := by omega
      have h7 : ¬ a < n := by omega
      simp [h5, h6, h7]

theorem swapCols_spec {α : Type} (N : Nat) (m : Nat → α) (j c a b : Nat)
    (hj : j < N) (hc : c < N) (ha : a < N) (hb : b < N) :
    swapCols N m j c (a*N + b)
      = if b = j then m (a*N + c) else if b = c then m (a*N + j) else m (a*N + b) := by
  unfold swapCols
  rw [swapCols_aux N m j c hj hc N a b hb]
  simp [ha]

/-! ### the generic cycle-following loop -/

/-- the loop shared by `undoRows` and `undoCols`, parametrised by the physical swap -/
def genUndo {α : Type} (sw : (Nat → α) → Nat → Nat → Nat → α) (N : Nat) (u : Undo α) : Undo α :=
  forUp N (fun i u =>
    let r := u.perm i
    if i ≠ r then
      { m := sw u.m i r,
        perm := fset u.perm (u.inv_perm i) (u.perm i),
        inv_perm := fswap u.inv_perm i r }
    else u) u

theorem undoRows_eq {α : Type} (N : Nat) (u : Undo α) : undoRows N u = genUndo (swapRows N) N u := rfl
theorem undoCols_eq {α : Type} (N : Nat) (u : Undo α) : undoCols N u = genUndo (swapCols N) N u := rfl

/-- loop invariant before iteration `i` -/
structure GInv {α β : Type} (N : Nat) (view : (Nat → α) → Nat → β) (m : Nat → α) (perm : Nat → Nat)
    (i : Nat) (u : Undo α) : Prop where
  done : ∀ k, k < i → view u.m k = view m (perm k)
  todo : ∀ k, i ≤ k → k < N →
    i ≤ u.perm k ∧ u.perm k < N ∧ u.inv_perm (u.perm k) = k ∧ view u.m (u.perm k) = view m (perm k)
  back : ∀ t, i ≤ t → t < N → i ≤ u.inv_perm t ∧ u.inv_perm t < N ∧ u.perm (u.inv_perm t) = t

theorem genUndo_step {α β : Type} (N : Nat) (sw : (Nat → α) → Nat → Nat → Nat → α)
    (view : (Nat → α) → Nat → β)
    (hsw : ∀ m i r a, i < N → r < N → a < N →
      view (sw m i r) a = if a = i then view m r else if a = r then view m i else view m a)
    (m : Nat → α) (perm : Nat → Nat) (i : Nat) (hiN : i < N) (u : Undo α)
    (h : GInv N view m perm i u) :
    GInv N view m perm (i+1)
      (if i ≠ u.perm i then
        { m := sw u.m i (u.perm i),
          perm := fset u.perm (u.inv_perm i) (u.perm i),
          inv_perm := fswap u.inv_perm i (u.perm i) }
       else u) := by
  obtain ⟨hd, ht, hb⟩ := h
  obtain ⟨hri, hrN, hinvr, hviewr⟩ := ht i (Nat.le_refl i) hiN
  by_cases hr : i = u.perm i
  · -- nothing to do
    rw [if_neg (by simpa using hr)]
    refine ⟨?_, ?_, ?_⟩
    · intro k hk
      by_cases hki : k = i
      · subst hki; rw [← hr] at hviewr; exact hviewr
      · exact hd k (by omega)
    · intro k hk hkN
      obtain ⟨h1, h2, h3, h4⟩ := ht k (by omega) hkN
      refine ⟨?_, h2, h3, h4⟩
      by_cases he : u.perm k = i
      · rw [he] at h3; rw [hr, hinvr] at h3; omega
      · omega
    · intro t ht' htN
      obtain ⟨h1, h2, h3⟩ := hb t (by omega) htN
      refine ⟨?_, h2, h3⟩
      by_cases he : u.inv_perm t = i
      · rw [he, ← hr] at h3; omega
      · omega
  · rw [if_pos hr]
    obtain ⟨hk'i, hk'N, hpk'⟩ := hb i (Nat.le_refl i) hiN
    -- abbreviations
    generalize hrdef : u.perm i = r at *
    generalize hk'def : u.inv_perm i = k' at *
    have hk'ne : k' ≠ i := by
      intro he; rw [he, hrdef] at hpk'; omega
    have hrgt : i < r := by omega
    refine ⟨?_, ?_, ?_⟩
    · intro k hk
      show view (sw u.m i r) k = _
      rw [hsw u.m i r k hiN hrN (by omega)]
      by_cases hki : k = i
      · subst hki; simp only [if_true]; rw [← hrdef]; rw [← hrdef] at hviewr; exact hviewr
      · rw [if_neg hki, if_neg (by omega)]; exact hd k (by omega)
    · intro k hk hkN
      show i + 1 ≤ fset u.perm k' r k ∧ fset u.perm k' r k < N ∧
        fswap u.inv_perm i r (fset u.perm k' r k) = k ∧
        view (sw u.m i r) (fset u.perm k' r k) = view m (perm k)
      by_cases hkk : k = k'
      · subst hkk
        simp only [fset, if_true]
        refine ⟨by omega, hrN, ?_, ?_⟩
        · simp only [fswap, if_true]
          rw [if_neg (by omega)]; exact hk'def
        · rw [hsw u.m i r r hiN hrN hrN, if_neg (by omega), if_pos rfl]
          obtain ⟨_, _, _, h4⟩ := ht k (by omega) hkN
          rw [hpk'] at h4; exact h4
      · obtain ⟨h1, h2, h3, h4⟩ := ht k (by omega) hkN
        simp only [fset, if_neg hkk]
        have hne_i : u.perm k ≠ i := by
          intro he; rw [he, hk'def] at h3; exact hkk h3.symm
        have hne_r : u.perm k ≠ r := by
          intro he; rw [he, hinvr] at h3; omega
        refine ⟨by omega, h2, ?_, ?_⟩
        · simp only [fswap]; rw [if_neg hne_i, if_neg hne_r]; exact h3
        · rw [hsw u.m i r _ hiN hrN h2, if_neg hne_i, if_neg hne_r]; exact h4
    · intro t ht' htN
      show i + 1 ≤ fswap u.inv_perm i r t ∧ fswap u.inv_perm i r t < N ∧
        fset u.perm k' r (fswap u.inv_perm i r t) = t
      by_cases htr : t = r
      · subst htr
        simp only [fswap, if_true]
        rw [if_neg (by omega), hk'def]
        refine ⟨by omega, hk'N, ?_⟩
        simp only [fset, if_true]
      · obtain ⟨h1, h2, h3⟩ := hb t (by omega) htN
        simp only [fswap]
        rw [if_neg (by omega), if_neg htr]
        have hne_i : u.inv_perm t ≠ i := by
          intro he; rw [he, hrdef] at h3; exact htr h3.symm
        have hne_k' : u.inv_perm t ≠ k' := by
          intro he; rw [he, hpk'] at h3; omega
        refine ⟨by omega, h2, ?_⟩
        simp only [fset]; rw [if_neg hne_k']; exact h3

theorem genUndo_inv {α β : Type} (N : Nat) (sw : (Nat → α) → Nat → Nat → Nat → α)
    (view : (Nat → α) → Nat → β)
    (hsw : ∀ m i r a, i < N → r < N → a < N →
      view (sw m i r) a = if a = i then view m r else if a = r then view m i else view m a)
    (m : Nat → α) (perm inv : Nat → Nat)
    (hp : ∀ i, i < N → perm i < N) (hi : ∀ i, i < N → inv (perm i) = i)
    (hs : ∀ k, k < N → ∃ i, i < N ∧ perm i = k) :
    ∀ n, n ≤ N → GInv N view m perm n
      (forUp n (fun i u =>
        let r := u.perm i
        if i ≠ r then
          { m := sw u.m i r,
            perm := fset u.perm (u.inv_perm i) (u.perm i),
            inv_perm := fswap u.inv_perm i r }
        else u) ⟨m, perm, inv⟩) := by
  intro n
  induction n with
  | zero =>
    intro _
    refine ⟨fun k hk => by omega, ?_, ?_⟩
    · intro k _ hkN
      exact ⟨Nat.zero_le _, hp k hkN, hi k hkN, rfl⟩
    · intro t _ htN
      obtain ⟨i, hiN, hpi⟩ := hs t htN
      show 0 ≤ inv t ∧ inv t < N ∧ perm (inv t) = t
      rw [← hpi, hi i hiN]
      exact ⟨Nat.zero_le _, hiN, rfl⟩
  | succ n ih =>
    intro hn
    exact genUndo_step N sw view hsw m perm n (by omega) _ (ih (by omega))

theorem genUndo_spec {α β : Type} (N : Nat) (sw : (Nat → α) → Nat → Nat → Nat → α)
    (view : (Nat → α) → Nat → β)
    (hsw : ∀ m i r a, i < N → r < N → a < N →
      view (sw m i r) a = if a = i then view m r else if a = r then view m i else view m a)
    (m : Nat → α) (perm inv : Nat → Nat)
    (hp : ∀ i, i < N → perm i < N) (hi : ∀ i, i < N → inv (perm i) = i)
    (hs : ∀ k, k < N → ∃ i, i < N ∧ perm i = k) :
    ∀ i, i < N → view (genUndo sw N ⟨m, perm, inv⟩).m i = view m (perm i) := by
  intro i hiN
  exact (genUndo_inv N sw view hsw m perm inv hp hi hs N (Nat.le_refl N)).done i hiN

/-! ### the two loops of `invert` -/

/-- The row loop: afterwards physical row `i` holds the original row `perm i`.
    Hypotheses: `perm` maps `[0,N)` onto `[0,N)` and `inv` is its left inverse there. -/
theorem undoRows_spec {α : Type} (N : Nat) (m : Nat → α) (perm inv : Nat → Nat)
    (hp : ∀ i, i < N → perm i < N) (hi : ∀ i, i < N → inv (perm i) = i)
    (hs : ∀ k, k < N → ∃ i, i < N ∧ perm i = k) :
    ∀ i j, i < N → j < N → (undoRows N ⟨m, perm, inv⟩).m (i*N + j) = m (perm i * N + j) := by
  intro i j hiN hjN
  rw [undoRows_eq]
  exact genUndo_spec N (swapRows N) (fun m a => m (a*N + j))
    (fun m i r a _ _ _ => swapRows_spec N m i r a j hjN) m perm inv hp hi hs i hiN

/-- The column loop: afterwards physical column `j` holds the original column `perm j`. -/
theorem undoCols_spec {α : Type} (N : Nat) (m : Nat → α) (perm inv : Nat → Nat)
    (hp : ∀ i, i < N → perm i < N) (hi : ∀ i, i < N → inv (perm i) = i)
    (hs : ∀ k, k < N → ∃ i, i < N ∧ perm i = k) :
    ∀ i j, i < N → j < N → (undoCols N ⟨m, perm, inv⟩).m (i*N + j) = m (i*N + perm j) := by
  intro i j hiN hjN
  rw [undoCols_eq]
  exact genUndo_spec N (swapCols N) (fun m b => m (i*N + b))
    (fun m j c b hj hc hb => swapCols_spec N m j c i b hj hc hiN hb) m perm inv hp hi hs j hjN

/-! ### building `invr`, `invc`, `perm`, `inv_perm` -/

/-- pigeonhole: an injective self-map of `[0,N)` is onto -/
theorem surj_of_inj (N : Nat) (f : Nat → Nat) (hp : ∀ i, i < N → f i < N)
    (hinj : ∀ i j, i < N → j < N → f i = f j → i = j) :
    ∀ k, k < N → ∃ i, i < N ∧ f i = k := by
  intro k hk
  let g : Fin N → Fin N := fun i => ⟨f i.1, hp i.1 i.2⟩
  have hg : Function.Injective g := by
    intro a b hab
    have : f a.1 = f b.1 := congrArg Fin.val hab
    exact Fin.ext (hinj a.1 b.1 a.2 b.2 this)
  obtain ⟨i, hi⟩ := (Finite.injective_iff_surjective.mp hg) ⟨k, hk⟩
  exact ⟨i.1, i.2, congrArg Fin.val hi⟩

/-- `for i: invc[indc[i]] = i; invr[indr[i]] = i` -/
def invLoop (n : Nat) (indr indc : Nat → Nat) : (Nat → Nat) × (Nat → Nat) :=
  forUp n (fun i (p : (Nat → Nat) × (Nat → Nat)) => (fset p.1 (indc i) i, fset p.2 (indr i) i))
    ((fun _ => 0), (fun _ => 0))

/-- `for i: perm[i] = g i; inv_perm[perm[i]] = i` -/
def permLoop (n : Nat) (g : Nat → Nat) (init : (Nat → Nat) × (Nat → Nat)) :
    (Nat → Nat) × (Nat → Nat) :=
  forUp n (fun i (p : (Nat → Nat) × (Nat → Nat)) =>
    let v := g i; (fset p.1 i v, fset p.2 v i)) init

theorem undoPermutation_eq {α : Type} (N : Nat) (indr indc : Nat → Nat) (m : Nat → α) :
    undoPermutation N indr indc m =
      (undoCols N
        ⟨(undoRows N ⟨m, (permLoop N (fun i => indr ((invLoop N indr indc).1 i)) ((fun _ => 0), (fun _ => 0))).1,
                        (permLoop N (fun i => indr ((invLoop N indr indc).1 i)) ((fun _ => 0), (fun _ => 0))).2⟩).m,
         (permLoop N (fun i => indc ((invLoop N indr indc).2 i))
            ((undoRows N ⟨m, (permLoop N (fun i => indr ((invLoop N indr indc).1 i)) ((fun _ => 0), (fun _ => 0))).1,
                        (permLoop N (fun i => indr ((invLoop N indr indc).1 i)) ((fun _ => 0), (fun _ => 0))).2⟩).perm,
             (undoRows N ⟨m, (permLoop N (fun i => indr ((invLoop N indr indc).1 i)) ((fun _ => 0), (fun _ => 0))).1,
                        (permLoop N (fun i => indr ((invLoop N indr indc).1 i)) ((fun _ => 0), (fun _ => 0))).2⟩).inv_perm)).1,
         (permLoop N (fun i => indc ((invLoop N indr indc).2 i))
            ((undoRows N ⟨m, (permLoop N (fun i => indr ((invLoop N indr indc).1 i)) ((fun _ => 0), (fun _ => 0))).1,
                        (permLoop N (fun i => indr ((invLoop N indr indc).1 i)) ((fun _ => 0), (fun _ => 0))).2⟩).perm,
             (undoRows N ⟨m, (permLoop N (fun i => indr ((invLoop N indr indc).1 i)) ((fun _ => 0), (fun _ => 0))).1,
                        (permLoop N (fun i => indr ((invLoop N indr indc).1 i)) ((fun _ => 0), (fun _ => 0))).2⟩).inv_perm)).2⟩).m :=
  rfl

theorem invLoop_spec (N : Nat) (indr indc : Nat → Nat)
    (hr : ∀ i j, i < N → j < N → indr i = indr j → i = j)
    (hc : ∀ i j, i < N → j < N → indc i = indc j → i = j) :
    ∀ n, n ≤ N → ∀ i, i < n →
      (invLoop n indr indc).1 (indc i) = i ∧ (invLoop n indr indc).2 (indr i) = i := by
  intro n
  induction n with
  | zero => intro _ i hi; omega
  | succ n ih =>
    intro hn i hi
    show fset (invLoop n indr indc).1 (indc n) n (indc i) = i ∧
         fset (invLoop n indr indc).2 (indr n) n (indr i) = i
    by_cases hin : i = n
    · subst hin; simp [fset]
    · have hc' : indc i ≠ indc n := fun h => hin (hc i n (by omega) (by omega) h)
      have hr' : indr i ≠ indr n := fun h => hin (hr i n (by omega) (by omega) h)
      simp only [fset, if_neg hc', if_neg hr']
      exact ih (by omega) i (by omega)

theorem permLoop_spec (N : Nat) (g : Nat → Nat) (init : (Nat → Nat) × (Nat → Nat))
    (hg : ∀ i j, i < N → j < N → g i = g j → i = j) :
    ∀ n, n ≤ N → ∀ i, i < n →
      (permLoop n g init).1 i = g i ∧ (permLoop n g init).2 (g i) = i := by
  intro n
  induction n with
  | zero => intro _ i hi; omega
  | succ n ih =>
    intro hn i hi
    show fset (permLoop n g init).1 n (g n) i = g i ∧
         fset (permLoop n g init).2 (g n) n (g i) = i
    by_cases hin : i = n
    · subst hin; simp [fset]
    · have hg' : g i ≠ g n := fun h => hin (hg i n (by omega) (by omega) h)
      simp only [fset, if_neg hin, if_neg hg']
      exact ih (by omega) i (by omega)

/-- facts about `perm i = f (finv i)` where `finv` inverts the bijection `h` and `f` is a bijection -/
theorem comp_perm_facts (N : Nat) (f h finv : Nat → Nat)
    (hf : ∀ i, i < N → f i < N) (hfi : ∀ i j, i < N → j < N → f i = f j → i = j)
    (hh : ∀ i, i < N → h i < N) (hhi : ∀ i j, i < N → j < N → h i = h j → i = j)
    (hinv : ∀ i, i < N → finv (h i) = i) :
    (∀ i, i < N → f (finv i) < N) ∧
    (∀ i j, i < N → j < N → f (finv i) = f (finv j) → i = j) ∧
    (∀ k, k < N → ∃ i, i < N ∧ f (finv i) = k) := by
  have hhs := surj_of_inj N h hh hhi
  have hfs := surj_of_inj N f hf hfi
  have hfinv : ∀ i, i < N → finv i < N ∧ h (finv i) = i := by
    intro i hi
    obtain ⟨s, hs, hsi⟩ := hhs i hi
    rw [← hsi, hinv s hs]; exact ⟨hs, rfl⟩
  refine ⟨fun i hi => hf _ (hfinv i hi).1, ?_, ?_⟩
  · intro i j hi hj he
    have := hfi _ _ (hfinv i hi).1 (hfinv j hj).1 he
    rw [← (hfinv i hi).2, ← (hfinv j hj).2, this]
  · intro k hk
    obtain ⟨t, ht, htk⟩ := hfs k hk
    exact ⟨h t, hh t ht, by rw [hinv t ht, htk]⟩

/-- The tail of `invert`: with `σ (indr s) = indc s`, `final (u, v) = B (σ⁻¹ u, σ v)`.
    `indr`, `indc` are injective maps of `[0,N)` into itself (hence bijections). -/
theorem undoPermutation_spec {α : Type} (N : Nat) (indr indc : Nat → Nat) (m : Nat → α)
    (hr : (∀ i, i < N → indr i < N) ∧ (∀ i j, i < N → j < N → indr i = indr j → i = j))
    (hc : (∀ i, i < N → indc i < N) ∧ (∀ i j, i < N → j < N → indc i = indc j → i = j)) :
    ∀ s t, s < N → t < N →
      undoPermutation N indr indc m (indc s * N + indr t) = m (indr s * N + indc t) := by
  intro s t hs ht
  obtain ⟨hrp, hri⟩ := hr
  obtain ⟨hcp, hci⟩ := hc
  rw [undoPermutation_eq]
  have hinv := invLoop_spec N indr indc hri hci N (Nat.le_refl N)
  generalize invLoop N indr indc = iv at *
  obtain ⟨hR1, hR2, hR3⟩ := comp_perm_facts N indr indc iv.1 hrp hri hcp hci (fun i hi => (hinv i hi).1)
  obtain ⟨hC1, hC2, hC3⟩ := comp_perm_facts N indc indr iv.2 hcp hci hrp hri (fun i hi => (hinv i hi).2)
  have hpr := permLoop_spec N (fun i => indr (iv.1 i)) ((fun _ => 0), (fun _ => 0)) hR2 N (Nat.le_refl N)
  generalize permLoop N (fun i => indr (iv.1 i)) ((fun _ => 0), (fun _ => 0)) = pr at *
  have hrows := undoRows_spec N m pr.1 pr.2
    (fun i hi => by rw [(hpr i hi).1]; exact hR1 i hi)
    (fun i hi => by have := (hpr i hi).2; rw [(hpr i hi).1]; exact this)
    (fun k hk => by
      obtain ⟨i, hi, hik⟩ := hR3 k hk
      exact ⟨i, hi, by rw [(hpr i hi).1]; exact hik⟩)
  generalize undoRows N ⟨m, pr.1, pr.2⟩ = u1 at *
  have hpc := permLoop_spec N (fun i => indc (iv.2 i)) (u1.perm, u1.inv_perm) hC2 N (Nat.le_refl N)
  generalize permLoop N (fun i => indc (iv.2 i)) (u1.perm, u1.inv_perm) = pc at *
  have hcols := undoCols_spec N u1.m pc.1 pc.2
    (fun i hi => by rw [(hpc i hi).1]; exact hC1 i hi)
    (fun i hi => by have := (hpc i hi).2; rw [(hpc i hi).1]; exact this)
    (fun k hk => by
      obtain ⟨i, hi, hik⟩ := hC3 k hk
      exact ⟨i, hi, by rw [(hpc i hi).1]; exact hik⟩)
  rw [hcols (indc s) (indr t) (hcp s hs) (hrp t ht)]
  rw [(hpc (indr t) (hrp t ht)).1]
  show u1.m (indc s * N + indc (iv.2 (indr t))) = _
  rw [(hinv t ht).2]
  rw [hrows (indc s) (indc t) (hcp s hs) (hcp t ht)]
  rw [(hpr (indc s) (hcp s hs)).1]
  show m (indr (iv.1 (indc s)) * N + indc t) = _
  rw [(hinv s hs).1]

/-! ### non-vacuity: concrete 3-cycles -/

/-- `indr = (0 1 2 ↦ 1 2 0)`, `indc = id`: `final (s, indr t) = m (indr s, t)` -/
example :
    (List.range 9).map (undoPermutation 3 (fun i => (i + 1) % 3) (fun i => i) (fun o : Nat => o))
      = [5, 3, 4, 8, 6, 7, 2, 0, 1] := by decide

/-- `indr = id`, `indc = (0 1 2 ↦ 2 0 1)`: `final (indc s, t) = m (s, indc t)`; same `σ` as above -/
example :
    (List.range 9).map (undoPermutation 3 (fun i => i) (fun i => (i + 2) % 3) (fun o : Nat => o))
      = [5, 3, 4, 8, 6, 7, 2, 0, 1] := by decide

/-- both non-trivial: `indr = (1 2 0)`, `indc = (2 0 1)`, i.e. `σ x = x + 1 mod 3` and
    `final (u, v) = m (u - 1, v + 1)` (indices mod 3) -/
example :
    (List.range 9).map (undoPermutation 3 (fun i => (i + 1) % 3) (fun i => (i + 2) % 3) (fun o : Nat => o))
      = [7, 8, 6, 1, 2, 0, 4, 5, 3] := by decide

/-- the general theorem instantiated on the last example (hypotheses are satisfiable) -/
example (s t : Nat) (hs : s < 3) (ht : t < 3) :
    undoPermutation 3 (fun i => (i + 1) % 3) (fun i => (i + 2) % 3) (fun o : Nat => o)
        ((s + 2) % 3 * 3 + (t + 1) % 3) = (s + 1) % 3 * 3 + (t + 2) % 3 :=
  undoPermutation_spec 3 (fun i => (i + 1) % 3) (fun i => (i + 2) % 3) (fun o : Nat => o)
    ⟨fun i _ => by omega, fun i j hi hj h => by omega⟩
    ⟨fun i _ => by omega, fun i j hi hj h => by omega⟩ s t hs ht

end Gama.MatVec
