/-
  Lemmas about the model of bearing.cpp over ℝ (`atan2 y x = Complex.arg (x + y i)`).
-/
import Gama.Lemmas.GeoReal
import Gama.Model.Bearing
namespace Gama.Bearing
open Real

theorem cut_real : (cut : ℝ) = 1 / 10 ^ 6 := by
  simp [cut, scalar_ofSci_real]

/-- squared-sum under the root, as coded (`dy*dy + dx*dx`) -/
noncomputable def dist (ya xa yb xb : ℝ) : ℝ :=
  Real.sqrt ((yb - ya) * (yb - ya) + (xb - xa) * (xb - xa))

/-- the direction as a complex number `dx + dy·i` -/
def dir (ya xa yb xb : ℝ) : ℂ := ⟨xb - xa, yb - ya⟩

/-- normalisation `s >= 0 ? s : s + 2π` -/
noncomputable def norm2pi (s : ℝ) : ℝ := if 0 ≤ s then s else s + 2 * π

theorem bd_real (ya xa yb xb : ℝ) :
    bearingDistance ya xa yb xb =
      if dist ya xa yb xb < 1 / 10 ^ 6 then (0, 0)
      else (norm2pi (dir ya xa yb xb).arg, dist ya xa yb xb) := by
  unfold bearingDistance dist dir norm2pi
  simp only [cut_real, scalar_sqrt_real, transc_atan2_real, scalar_ofNat_real, transc_pi_real]
  norm_num

theorem distance_real (ya xa yb xb : ℝ) : distance ya xa yb xb = dist ya xa yb xb := by
  unfold distance dist; simp

theorem dist_eq_norm (ya xa yb xb : ℝ) : dist ya xa yb xb = ‖dir ya xa yb xb‖ := by
  unfold dist dir
  rw [Complex.norm_def, Complex.normSq_mk]
  congr 1; ring

theorem dist_symm (ya xa yb xb : ℝ) : dist ya xa yb xb = dist yb xb ya xa := by
  unfold dist; congr 1; ring

theorem dir_neg (ya xa yb xb : ℝ) : dir yb xb ya xa = - dir ya xa yb xb := by
  unfold dir; apply Complex.ext <;> simp

theorem norm2pi_range {s : ℝ} (h : s ∈ Set.Ioc (-π) π) : 0 ≤ norm2pi s ∧ norm2pi s < 2 * π := by
  unfold norm2pi
  have := Real.pi_pos
  obtain ⟨h1, h2⟩ := h
  split_ifs with h0
  · exact ⟨h0, by linarith⟩
  · push Not at h0; exact ⟨by linarith, by linarith⟩

theorem cos_norm2pi (s : ℝ) : Real.cos (norm2pi s) = Real.cos s := by
  unfold norm2pi; split_ifs <;> simp [Real.cos_add_two_pi]

theorem sin_norm2pi (s : ℝ) : Real.sin (norm2pi s) = Real.sin s := by
  unfold norm2pi; split_ifs <;> simp [Real.sin_add_two_pi]

/-- `d·cos s = Δx ∧ d·sin s = Δy` for the direction's argument -/
theorem polar (z : ℂ) (hz : z ≠ 0) :
    ‖z‖ * Real.cos (norm2pi z.arg) = z.re ∧ ‖z‖ * Real.sin (norm2pi z.arg) = z.im := by
  have hn : ‖z‖ ≠ 0 := by simpa using hz
  rw [cos_norm2pi, sin_norm2pi, Complex.cos_arg hz, Complex.sin_arg]
  constructor <;> field_simp

/-- the bearing of the opposite direction differs by π, folded back into [0, 2π) -/
theorem norm2pi_arg_neg (z : ℂ) (hz : z ≠ 0) :
    norm2pi (-z).arg = if norm2pi z.arg < π then norm2pi z.arg + π else norm2pi z.arg - π := by
  have hpi := Real.pi_pos
  have hmem := Complex.arg_mem_Ioc z
  obtain ⟨hlo, hhi⟩ := hmem
  by_cases hc : 0 < z.im ∨ z.im = 0 ∧ z.re < 0
  · -- arg z ∈ (0, π], arg (-z) = arg z - π
    have h1 : (-z).arg = z.arg - π := Complex.arg_neg_eq_arg_sub_pi_iff.mpr hc
    have hpos : 0 < z.arg := by
      rcases hc with h | ⟨h, h'⟩
      · have h0 : 0 ≤ z.arg := Complex.arg_nonneg_iff.mpr h.le
        refine lt_of_le_of_ne h0 (fun h0' => ?_)
        have := (Complex.arg_eq_zero_iff.mp h0'.symm).2
        linarith
      · have : z.arg = π := Complex.arg_eq_pi_iff.mpr ⟨h', h⟩
        linarith
    rw [h1]
    unfold norm2pi
    by_cases hpi' : z.arg = π
    · rw [hpi']; simp [hpi.le]
    · have hlt : z.arg < π := lt_of_le_of_ne hhi hpi'
      have : ¬ (0 ≤ z.arg - π) := by linarith
      simp only [this, if_false, hpos.le, if_true, hlt]
      ring
  · -- arg z ∈ (-π, 0], arg (-z) = arg z + π
    have hc' : z.im < 0 ∨ z.im = 0 ∧ 0 < z.re := by
      push Not at hc
      rcases lt_trichotomy z.im 0 with h | h | h
      · exact Or.inl h
      · right; refine ⟨h, ?_⟩
        have := hc.2 h
        rcases this.lt_or_eq with h' | h'
        · exact h'
        · exfalso; apply hz; apply Complex.ext <;> simp [h, ← h']
      · exact absurd h (by linarith [hc.1])
    have h1 : (-z).arg = z.arg + π := Complex.arg_neg_eq_arg_add_pi_iff.mpr hc'
    have hle : z.arg ≤ 0 := by
      rcases hc' with h | ⟨h, h'⟩
      · exact (Complex.arg_neg_iff.mpr h).le
      · have : z.arg = 0 := Complex.arg_eq_zero_iff.mpr ⟨h'.le, h⟩
        linarith
    rw [h1]
    unfold norm2pi
    have hge : 0 ≤ z.arg + π := by linarith
    simp only [hge, if_true]
    by_cases h0 : z.arg = 0
    · rw [h0]; simp [hpi]
    · have hneg : z.arg < 0 := lt_of_le_of_ne hle h0
      have : ¬ (0 ≤ z.arg) := by linarith
      simp only [this, if_false]
      have : ¬ (z.arg + 2 * π < π) := by linarith
      simp only [this, if_false]
      ring

end Gama.Bearing
