/-
  The fill loop of GKFparser::finish_cov (Model/GkfCov.lean) stays inside the band storage:
  the written positions are exactly the upper band positions, row by row, each once; their number is
  the closed formula `dim*(band+1) - band*(band+1)/2`; surplus words are refused before any write.
  Core Lean only (`omega`).
-/
import Gama.Lemmas.GkfCov
namespace Gama.Cov
open Gama.Lit

/-! ### the sequence of write positions -/

/-- the positions visited by `n` steps of `col++; if (col > row+iband || col > idim) col = ++row;` -/
def posSeq (dim band : Nat) : Nat → Nat × Nat → List (Nat × Nat)
  | 0, _ => []
  | n + 1, p => p :: posSeq dim band n (nextPos dim band p)

theorem posSeq_length (dim band : Nat) : ∀ (n : Nat) (p : Nat × Nat), (posSeq dim band n p).length = n := by
  intro n
  induction n with
  | zero => intro p; rfl
  | succ n ih => intro p; simp only [posSeq, List.length_cons, ih]

/-- `fill` succeeds iff there are exactly `e` words, all floats; it then writes the first `e` positions
    of the walk, one per word -/
theorem fill_ok_iff (dim band : Nat) : ∀ (ws : List (List Char)) (e : Nat) (p : Nat × Nat) (ps : List (Nat × Nat)),
    fill dim band ws e p = .ok ps ↔
      (ws.length = e ∧ (∀ w ∈ ws, toDoubleOk w = true) ∧ ps = posSeq dim band e p) := by
  intro ws
  induction ws with
  | nil =>
    intro e p ps
    unfold fill
    constructor
    · intro h
      split at h
      · rename_i he; cases h; subst he
        exact ⟨rfl, fun w hw => (by cases hw), rfl⟩
      · cases h
    · rintro ⟨he, _, hps⟩
      have he : e = 0 := he.symm
      subst he
      rw [if_pos rfl, hps]; rfl
  | cons w ws ih =>
    intro e p ps
    unfold fill
    constructor
    · intro h
      split at h
      · cases h
      · rename_i he
        split at h
        · cases h
        · rename_i hf
          split at h
          · rename_i ps' hrec
            cases h
            obtain ⟨h1, h2, h3⟩ := (ih (e - 1) _ ps').mp hrec
            have hf' : toDoubleOk w = true := by
              cases hfw : toDoubleOk w with
              | true => rfl
              | false => rw [hfw] at hf; exact absurd rfl hf
            refine ⟨by rw [List.length_cons]; omega, ?_, ?_⟩
            · intro x hx
              rcases List.mem_cons.mp hx with rfl | hx
              · exact hf'
              · exact h2 x hx
            · obtain ⟨e', rfl⟩ : ∃ e', e = e' + 1 := ⟨e - 1, by omega⟩
              rw [h3]; rfl
          · cases h
    · rintro ⟨he, hfl, hps⟩
      have hne : ¬ e = 0 := by rw [List.length_cons] at he; omega
      have hf : toDoubleOk w = true := hfl w (List.mem_cons_self ..)
      obtain ⟨e', rfl⟩ : ∃ e', e = e' + 1 := ⟨e - 1, by omega⟩
      have hrec := (ih e' (nextPos dim band p) (posSeq dim band e' (nextPos dim band p))).mpr
        ⟨by rw [List.length_cons] at he; omega, fun x hx => hfl x (List.mem_cons_of_mem _ hx), rfl⟩
      rw [if_neg hne]
      simp only [hf, Bool.not_true, Bool.false_eq_true, if_false, Nat.add_sub_cancel, hrec]
      rw [hps]; rfl

/-- surplus elements are refused before the write: with more words than `e` and the first `e` of them numbers,
    the loop stops at word `e+1` on the `elements == 0` test -/
theorem fill_too_many (dim band : Nat) : ∀ (ws : List (List Char)) (e : Nat) (p : Nat × Nat),
    e < ws.length → (∀ w ∈ ws.take e, toDoubleOk w = true) → fill dim band ws e p = .error .too_many := by
  intro ws
  induction ws with
  | nil => intro e p h; cases h
  | cons w ws ih =>
    intro e p hlen hfl
    unfold fill
    cases e with
    | zero => rfl
    | succ e =>
      have hf : toDoubleOk w = true := hfl w (by rw [List.take_succ_cons]; exact List.mem_cons_self ..)
      have hrec := ih e (nextPos dim band p) (by rw [List.length_cons] at hlen; omega)
        (fun x hx => hfl x (by rw [List.take_succ_cons]; exact List.mem_cons_of_mem _ hx))
      rw [if_neg (Nat.succ_ne_zero e)]
      simp only [hf, Bool.not_true, Bool.false_eq_true, if_false, Nat.add_sub_cancel, hrec]

/-- whatever the words are, more words than `e` never yield a successful fill (no write beyond the count) -/
theorem fill_surplus_not_ok (dim band : Nat) (ws : List (List Char)) (e : Nat) (p : Nat × Nat)
    (ps : List (Nat × Nat)) (hlen : e < ws.length) : fill dim band ws e p ≠ .ok ps := by
  intro h
  have := ((fill_ok_iff dim band ws e p ps).mp h).1
  omega

/-! ### the walk is the row-by-row enumeration of the upper band -/

theorem nextPos_stay (dim band r c : Nat) (h1 : c + 1 ≤ r + band) (h2 : c + 1 ≤ dim) :
    nextPos dim band (r, c) = (r, c + 1) := by
  unfold nextPos
  rw [if_neg]
  simp only [Bool.or_eq_true, decide_eq_true_eq]
  omega

theorem nextPos_wrap (dim band r c : Nat) (h : r + band < c + 1 ∨ dim < c + 1) :
    nextPos dim band (r, c) = (r + 1, r + 1) := by
  unfold nextPos
  rw [if_pos]
  simp only [Bool.or_eq_true, decide_eq_true_eq]
  omega

/-- from column `c` of row `r` (1-based) the walk runs to the end of the row, `min dim (r+band)`, and
    continues on the diagonal of the next row -/
theorem posSeq_row (dim band r : Nat) : ∀ (k c n : Nat), c + k = min dim (r + band) + 1 → 1 ≤ k →
    posSeq dim band (k + n) (r, c) =
      (List.range' c k).map (fun x => (r, x)) ++ posSeq dim band n (r + 1, r + 1) := by
  intro k
  induction k with
  | zero => intro c n _ h; omega
  | succ k ih =>
    intro c n hck _
    rw [show k + 1 + n = (k + n) + 1 by omega, posSeq, List.range'_succ, List.map_cons, List.cons_append]
    by_cases hk : k = 0
    · subst hk
      rw [nextPos_wrap dim band r c (by omega)]
      simp only [Nat.zero_add, List.range'_zero, List.map_nil, List.nil_append]
    · rw [nextPos_stay dim band r c (by omega) (by omega), ih (c + 1) n (by omega) (by omega)]

/-- number of entries of row `r` (0-based) of the upper band -/
def rowLen (dim band r : Nat) : Nat := min dim (r + 1 + band) - r

/-- entries of row `r` (0-based) as 1-based (row, col) pairs -/
def rowPos (dim band r : Nat) : List (Nat × Nat) :=
  (List.range (rowLen dim band r)).map (fun k => (r + 1, r + 1 + k))

/-- the upper band positions, row by row -/
def bandPositions (dim band : Nat) : List (Nat × Nat) := (List.range dim).flatMap (rowPos dim band)

/-- entries in rows `r, …, r+m-1` (0-based) -/
def rowSum (dim band r m : Nat) : Nat := ((List.range' r m).map (rowLen dim band)).sum

theorem rowSum_succ (dim band r m : Nat) :
    rowSum dim band r (m + 1) = rowLen dim band r + rowSum dim band (r + 1) m := by
  simp only [rowSum, List.range'_succ, List.map_cons, List.sum_cons]

theorem rowPos_eq (dim band r : Nat) :
    rowPos dim band r = (List.range' (r + 1) (rowLen dim band r)).map (fun x => (r + 1, x)) := by
  rw [rowPos, List.range'_eq_map_range, List.map_map]
  rfl

/-- started on the diagonal of row `r` (0-based) the walk enumerates rows `r … dim-1` and leaves the matrix -/
theorem posSeq_rows (dim band : Nat) : ∀ (m r n : Nat), r + m = dim →
    posSeq dim band (rowSum dim band r m + n) (r + 1, r + 1) =
      (List.range' r m).flatMap (rowPos dim band) ++ posSeq dim band n (dim + 1, dim + 1) := by
  intro m
  induction m with
  | zero =>
    intro r n h
    have : r = dim := by omega
    subst this
    simp only [rowSum, List.range'_zero, List.map_nil, List.sum_nil, Nat.zero_add, List.flatMap_nil,
      List.nil_append]
  | succ m ih =>
    intro r n h
    rw [rowSum_succ, Nat.add_assoc,
      posSeq_row dim band (r + 1) (rowLen dim band r) (r + 1) (rowSum dim band (r + 1) m + n)
        (by unfold rowLen; omega) (by unfold rowLen; omega),
      ih (r + 1) n (by omega), List.range'_succ, List.flatMap_cons, rowPos_eq, List.append_assoc]

/-- the first `rowSum 0 dim` steps from (1,1) are exactly the band positions -/
theorem posSeq_band (dim band : Nat) :
    posSeq dim band (rowSum dim band 0 dim) (1, 1) = bandPositions dim band := by
  have := posSeq_rows dim band dim 0 0 (by omega)
  rw [Nat.add_zero] at this
  rw [this, bandPositions, List.range_eq_range']
  simp only [posSeq, List.append_nil]

/-! ### the closed formula -/

/-- triangular numbers -/
def tri : Nat → Nat
  | 0 => 0
  | n + 1 => tri n + (n + 1)

theorem two_tri (n : Nat) : 2 * tri n = n * (n + 1) := by
  induction n with
  | zero => rfl
  | succ n ih =>
    have h1 : (n + 1) * (n + 1 + 1) = n * (n + 1 + 1) + (n + 1 + 1) := Nat.succ_mul n (n + 1 + 1)
    have h2 : n * (n + 1 + 1) = n * (n + 1) + n := Nat.mul_succ n (n + 1)
    simp only [tri]
    omega

/-- `band*(band+1)` is even: the division in `idim*(iband+1) - iband*(iband+1)/2` is exact -/
theorem band_mul_succ_even (band : Nat) : band * (band + 1) % 2 = 0 := by
  have := two_tri band; omega

/-- the last `m ≤ band+1` rows are cut by the matrix edge: `m, m-1, …, 1` entries -/
theorem rowSum_tail (dim band : Nat) : ∀ (m r : Nat), r + m = dim → m ≤ band + 1 →
    rowSum dim band r m = tri m := by
  intro m
  induction m with
  | zero => intro r _ _; rfl
  | succ m ih =>
    intro r h hm
    rw [rowSum_succ, ih (r + 1) (by omega) (by omega)]
    simp only [tri, rowLen]
    omega

/-- every row above them is full: `band+1` entries -/
theorem rowSum_full (dim band : Nat) : ∀ (k r : Nat), r + (band + 1 + k) = dim →
    rowSum dim band r (band + 1 + k) = tri (band + 1) + k * (band + 1) := by
  intro k
  induction k with
  | zero =>
    intro r h
    rw [Nat.zero_mul, Nat.add_zero]
    exact rowSum_tail dim band (band + 1) r h (Nat.le_refl _)
  | succ k ih =>
    intro r h
    have h1 : (k + 1) * (band + 1) = k * (band + 1) + (band + 1) := Nat.succ_mul k (band + 1)
    rw [show band + 1 + (k + 1) = (band + 1 + k) + 1 from rfl, rowSum_succ, ih (r + 1) (by omega), h1]
    simp only [rowLen]
    omega

/-- `Σ_r (min dim (r+1+band) - r) = dim*(band+1) - band*(band+1)/2` whenever `band < dim` -/
theorem rowSum_eq_covElements (dim band : Nat) (h : band < dim) :
    rowSum dim band 0 dim = Gkf.covElements dim band := by
  obtain ⟨k, rfl⟩ : ∃ k, dim = band + 1 + k := ⟨dim - (band + 1), by omega⟩
  rw [rowSum_full (band + 1 + k) band k 0 (by omega)]
  unfold Gkf.covElements
  have h1 := two_tri band
  have h2 : (band + 1 + k) * (band + 1) = (band + 1) * (band + 1) + k * (band + 1) := Nat.add_mul ..
  have h3 : (band + 1) * (band + 1) = band * (band + 1) + (band + 1) := Nat.succ_mul band (band + 1)
  simp only [tri]
  omega

theorem covElements_eq_sum (dim band : Nat) (h : band < dim) :
    Gkf.covElements dim band = ((List.range dim).map (fun r => min dim (r + 1 + band) - r)).sum := by
  rw [← rowSum_eq_covElements dim band h, rowSum, List.range_eq_range']
  rfl

/-- `covElements` steps from (1,1) are exactly the band positions -/
theorem posSeq_covElements (dim band : Nat) (h : band < dim) :
    posSeq dim band (Gkf.covElements dim band) (1, 1) = bandPositions dim band := by
  rw [← rowSum_eq_covElements dim band h]; exact posSeq_band dim band

/-! ### bounds, distinctness, linear index -/

theorem mem_bandPositions (dim band : Nat) (q : Nat × Nat) :
    q ∈ bandPositions dim band ↔ (1 ≤ q.1 ∧ q.1 ≤ q.2 ∧ q.2 ≤ dim ∧ q.2 ≤ q.1 + band) := by
  unfold bandPositions rowPos rowLen
  simp only [List.mem_flatMap, List.mem_map, List.mem_range]
  constructor
  · rintro ⟨r, hr, k, hk, rfl⟩
    simp only
    omega
  · rintro ⟨h1, h2, h3, h4⟩
    refine ⟨q.1 - 1, by omega, q.2 - q.1, by omega, ?_⟩
    apply Prod.ext <;> simp only <;> omega

/-- row-major order on positions -/
def LexLt (a b : Nat × Nat) : Prop := a.1 < b.1 ∨ (a.1 = b.1 ∧ a.2 < b.2)

theorem lexLt_nextPos (dim band : Nat) (p : Nat × Nat) : LexLt p (nextPos dim band p) := by
  unfold nextPos LexLt
  split
  · left; exact Nat.lt_succ_self _
  · right; exact ⟨rfl, Nat.lt_succ_self _⟩

theorem posSeq_lexLe (dim band : Nat) : ∀ (n : Nat) (p q : Nat × Nat), q ∈ posSeq dim band n p →
    q = p ∨ LexLt p q := by
  intro n
  induction n with
  | zero => intro p q h; cases h
  | succ n ih =>
    intro p q h
    rw [posSeq] at h
    rcases List.mem_cons.mp h with rfl | h
    · exact Or.inl rfl
    · right
      have h1 := lexLt_nextPos dim band p
      rcases ih _ _ h with rfl | h2
      · exact h1
      · unfold LexLt at *; omega

/-- the walk is strictly increasing in row-major order -/
theorem posSeq_sorted (dim band : Nat) : ∀ (n : Nat) (p : Nat × Nat),
    (posSeq dim band n p).Pairwise LexLt := by
  intro n
  induction n with
  | zero => intro p; exact List.Pairwise.nil
  | succ n ih =>
    intro p
    rw [posSeq, List.pairwise_cons]
    refine ⟨?_, ih _⟩
    intro q hq
    have h1 := lexLt_nextPos dim band p
    rcases posSeq_lexLe dim band n _ q hq with rfl | h2
    · exact h1
    · unfold LexLt at *; omega

theorem posSeq_nodup (dim band n : Nat) (p : Nat × Nat) : (posSeq dim band n p).Nodup := by
  refine List.Pairwise.imp ?_ (posSeq_sorted dim band n p)
  intro a b h hab
  subst hab
  unfold LexLt at h; omega

/-- `BandMat::operator()(r, s)`: offset `(r-1)*(band+1) + (s-r)` in a storage of `dim*(band+1)` numbers -/
theorem band_storage_index (dim band r c : Nat) (h1 : 1 ≤ r) (h2 : r ≤ c) (h3 : c ≤ dim) (h4 : c ≤ r + band) :
    (r - 1) * (band + 1) + (c - r) < dim * (band + 1) := by
  obtain ⟨r', rfl⟩ : ∃ r', r = r' + 1 := ⟨r - 1, by omega⟩
  have h5 : (r' + 1) * (band + 1) = r' * (band + 1) + (band + 1) := Nat.succ_mul r' (band + 1)
  have h6 : (r' + 1) * (band + 1) ≤ dim * (band + 1) := Nat.mul_le_mul_right _ (by omega)
  rw [Nat.add_sub_cancel]
  omega

/-- everything about an accepted `<cov-mat>` text -/
theorem finishCov_ok (dim band : Nat) (text : List Char) (ps : List (Nat × Nat)) (hb : band < dim)
    (h : finishCov dim band text = .ok ps) :
    (words text).length = Gkf.covElements dim band ∧ (∀ w ∈ words text, toDoubleOk w = true) ∧
    ps = bandPositions dim band := by
  obtain ⟨h1, h2, h3⟩ := (fill_ok_iff dim band _ _ _ _).mp h
  exact ⟨h1, h2, by rw [h3, posSeq_covElements dim band hb]⟩

/-- conversely: exactly `covElements` words, all numbers, are accepted -/
theorem finishCov_complete (dim band : Nat) (text : List Char)
    (h1 : (words text).length = Gkf.covElements dim band) (h2 : ∀ w ∈ words text, toDoubleOk w = true) :
    ∃ ps, finishCov dim band text = .ok ps :=
  ⟨_, (fill_ok_iff dim band _ _ _ _).mpr ⟨h1, h2, rfl⟩⟩

theorem bandPositions_nodup (dim band : Nat) (hb : band < dim) : (bandPositions dim band).Nodup := by
  rw [← posSeq_covElements dim band hb]; exact posSeq_nodup ..

theorem bandPositions_length (dim band : Nat) (hb : band < dim) :
    (bandPositions dim band).length = Gkf.covElements dim band := by
  rw [← posSeq_covElements dim band hb]; exact posSeq_length ..

/-- `process_cov` hands over `1 ≤ dim`, `band < dim`, both read by `toIndex` -/
theorem processCov_ok (sdim sband : List Char) (d b : Nat) (h : processCov sdim sband = .ok (d, b)) :
    1 ≤ d ∧ b < d ∧ toIndex sdim = some d ∧ toIndex sband = some b := by
  unfold processCov at h
  split at h
  · cases h
  · split at h
    · cases h
    · split at h
      · cases h
      · rename_i d' hd
        split at h
        · cases h
        · rename_i b' hb'
          split at h
          · cases h
          · split at h
            · cases h
            · cases h
              exact ⟨by omega, by omega, hd, hb'⟩

/-- the word loop never reports the verdict `ok` as an error -/
theorem fill_error_ne_ok (dim band : Nat) : ∀ (ws : List (List Char)) (e : Nat) (p : Nat × Nat),
    fill dim band ws e p ≠ .error .ok := by
  intro ws
  induction ws with
  | nil => intro e p h; unfold fill at h; split at h <;> cases h
  | cons w ws ih =>
    intro e p h
    unfold fill at h
    split at h
    · cases h
    · split at h
      · cases h
      · split at h
        · cases h
        · rename_i e' hrec
          cases h
          exact ih _ _ hrec

/-- `verdict = ok` unfolds to an accepted `process_cov` followed by an accepted `finish_cov` -/
theorem verdict_ok (sdim sband text : List Char) (h : verdict sdim sband text = .ok) :
    ∃ d b ps, processCov sdim sband = .ok (d, b) ∧ finishCov d b text = .ok ps := by
  unfold verdict at h
  split at h
  · rename_i e he
    subst h
    exfalso
    unfold processCov at he
    repeat (split at he <;> try cases he)
  · rename_i d b hp
    split at h
    · rename_i ps hf
      exact ⟨d, b, ps, hp, hf⟩
    · rename_i e hf
      subst h
      exfalso
      exact fill_error_ne_ok d b (words text) (Gkf.covElements d b) (1, 1) hf

end Gama.Cov
