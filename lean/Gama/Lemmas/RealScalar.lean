/-
  ℝ as THE instance of the shared scalar signature (`Gama/Scalar.lean`), declared once.

  Every lemma file that reads a model over ℝ (C05/C06/C07 via `Lemmas/LinSpec.lean`, C09 via
  `Lemmas/StatsReal.lean`, C17/C18 via `Lemmas/GeoReal.lean`) imports this file, so that the
  theorems of different properties are about the same `Scalar ℝ` and can be imported and
  composed together.  The per-property trig/transcendental signatures (`TrigScalar`, `Trig`,
  `Transc`, `Trunc`) are different classes and stay in their own files.

  `sqrt := Real.sqrt`, literals `m·10^(∓e)`, comparisons decided classically, `abs := |·|`.
-/
import Mathlib.Analysis.Real.Sqrt
import Gama.Scalar
namespace Gama

noncomputable instance instScalarReal : Scalar ℝ where
  sqrt := Real.sqrt
  ofNat n := (n : ℝ)
  ofSci m s e := if s then (m : ℝ) / 10 ^ e else (m : ℝ) * 10 ^ e
  decLt _ _ := Classical.propDecidable _
  decLe _ _ := Classical.propDecidable _
  beq a b := @decide (a = b) (Classical.propDecidable _)
  abs x := |x|

/- `Scalar ℝ` brings a second path to `Add ℝ`, `LT ℝ`, …; keep Mathlib's own instances
   preferred in statements and proofs (the generated definitions use the `Scalar` path, which
   unfolds to the same operations). -/
attribute [instance 10] Scalar.toAdd Scalar.toSub Scalar.toMul Scalar.toDiv Scalar.toNeg
  Scalar.toZero Scalar.toOne Scalar.toLT Scalar.toLE

/-- the literal of the signature is Lean's scientific literal at ℝ
    (`OfScientific.ofScientific m s e`, i.e. `(1.5 : ℝ)`-style numerals) -/
theorem scalar_ofSci_eq_ofScientific (m : ℕ) (s : Bool) (e : ℕ) :
    (Scalar.ofSci m s e : ℝ) = OfScientific.ofScientific m s e := by
  show (if s then (m : ℝ) / 10 ^ e else (m : ℝ) * 10 ^ e) = _
  cases s
  · simp [OfScientific.ofScientific, Rat.ofScientific_false_def]
  · simp [OfScientific.ofScientific, Rat.ofScientific_true_def, Rat.mkRat_eq_div]

end Gama
