/-
  C14 round 12 — PHYSICAL deletion (residue (c) of `C14_pe_solution_equals_deletion_partial`).

  Dropping a `<point>` / an emptied `<obs>` block shifts the positions of the remaining points / clusters:
  the executed model of `project_equations()` names a point by its position in `PD`, a stand-point by its
  position in `OD.clusters`, so the unknowns `⟨position, c⟩`, `⟨cluster, ori⟩` are RELABELLED by an
  order-preserving injection.  This file proves the relabelling lemma for the linearisation pass of the
  `PE` model (the `passFrom` of `Model/LinPass.lean` behind `PE.linPass`/`PE.assemble`) — the analogue, on
  the executed carrier, of b-W9g's `C07_rename_assembled` (which is about `C07Perm.runAll`), reusing its
  kernel `Lin.runEvs_rename`:

    * `relab g gc` : the relabelling of unknown identities induced by a map `g` of point positions and a map
      `gc` of cluster positions; injective when both are.
    * `passFrom_relabel` : if the renamed observations read the same records in the renamed network, the
      pass from the relabelled index state returns the SAME rows and right-hand side and the relabelled
      index table (same `maxn`), or the same exception.
    * `gmap keep` : the order-preserving injection of a physical deletion (kept position ↦ its rank among
      the kept ones; dropped positions are sent beyond the list, so that the map is injective on ℕ);
      `getElem?_filter_gmap` : the entry at the new position of the filtered list is the old entry.
    * `physDel` : points without an active coordinate group and clusters without observations removed from
      the lists, the point ids in observations and stand-points renamed.
-/
import Gama.Lemmas.ReviseDeleted
import Gama.Lemmas.C07Lin
namespace Gama.RevPE
open Gama Gama.Lin

variable {K : Type}

/-! ### the relabelling of the unknowns -/

def relab (g gc : Nat → Nat) (u : Unk) : Unk :=
  match u.c with
  | .ori => ⟨gc u.id, .ori⟩
  | c => ⟨g u.id, c⟩

theorem relab_injective (g gc : Nat → Nat) (hg : Function.Injective g) (hgc : Function.Injective gc) :
    Function.Injective (relab g gc) := by
  intro u v h
  obtain ⟨ui, uc⟩ := u
  obtain ⟨vi, vc⟩ := v
  cases uc <;> cases vc <;> simp only [relab, Unk.mk.injEq, and_true, reduceCtorEq, and_false] at h <;>
    first | exact absurd h (by simp) | (rw [hg h]) | (rw [hgc h])

/-- an observation of `revised_obs_` with its point positions and its cluster number renamed -/
def renN (g gc : Nat → Nat) (ob : NObs K) : NObs K :=
  { ob with sp := gc ob.sp, pfrom := g ob.pfrom, pto := g ob.pto, pfs := g ob.pfs }

theorem runEvs_congr_names (n1 n2 : Role → Coord → Unk) : ∀ (evs : List (Ev K)) (s : IdxState),
    (∀ e ∈ evs, evTarget n1 e = evTarget n2 e) → runEvs n1 evs s = runEvs n2 evs s
  | [], _, _ => rfl
  | .touch r c :: t, s, h => by
    have h1 : n1 r c = n2 r c := h (.touch r c) List.mem_cons_self
    simp only [runEvs, h1]
    exact runEvs_congr_names n1 n2 t _ (fun e he => h e (List.mem_cons_of_mem _ he))
  | .push r c v :: t, s, h => by
    have h1 : n1 r c = n2 r c := h (.push r c v) List.mem_cons_self
    simp only [runEvs, h1, runEvs_congr_names n1 n2 t s (fun e he => h e (List.mem_cons_of_mem _ he))]

/-- the orientation coordinate goes with the station role and with no other -/
theorem shapeB_station_iff_ori (k : Kind) (a b c d e : Bool) :
    ∀ x ∈ PE.shapeB k a b c d e, (x.2.1 = Role.station ↔ x.2.2 = Coord.ori) := by
  cases k <;> cases a <;> cases b <;> cases c <;> cases d <;> cases e <;> decide

theorem names_relab [TrigScalar K] (g gc : Nat → Nat) (ob : NObs K) (fuel : Nat) (o : Obs K) (out : LinOut K)
    (h : ob.kind.lin fuel o = .ok out) :
    ∀ e ∈ out.evs, evTarget (renN g gc ob).name e = evTarget (fun r c => relab g gc (ob.name r c)) e := by
  intro e he
  have hs : PE.shapeOfEv e ∈ PE.kindShape ob.kind o := by
    rw [← PE.shape_of_ok _ _ _ _ h, PE.evShape_eq_map]; exact List.mem_map_of_mem he
  have hi := shapeB_station_iff_ori _ _ _ _ _ _ _ hs
  rw [PE.evTarget_eq, PE.evTarget_eq]
  generalize PE.shapeOfEv e = x at hi
  obtain ⟨b, r, c⟩ := x
  simp only at hi ⊢
  cases r <;> cases c <;> first | rfl | (exact absurd (hi.1 rfl) (by simp)) | (exact absurd (hi.2 rfl) (by simp))

/-- **the pass under a relabelling of the unknowns**: same rows, same right-hand side, relabelled table -/
theorem passFrom_relabel [TrigScalar K] (σ σ' : Lin.Net K) (fuel : Nat) (g gc : Nat → Nat)
    (hg : Function.Injective g) (hgc : Function.Injective gc) :
    ∀ (obs : List (NObs K)), (∀ ob ∈ obs, σ'.view (renN g gc ob) = σ.view ob) → ∀ s : IdxState,
    passFrom σ' fuel (obs.map (renN g gc)) (s.mapKeys (relab g gc)) =
      match passFrom σ fuel obs s with
      | .error e => .error e
      | .ok r => .ok ⟨r.rows, r.rhs, r.idx.mapKeys (relab g gc)⟩
  | [], _, _ => rfl
  | ob :: t, hv, s => by
    have hf := relab_injective g gc hg hgc
    have hview := hv ob List.mem_cons_self
    have hk : (renN g gc ob).kind = ob.kind := rfl
    simp only [List.map_cons, passFrom, hk, hview]
    cases ho : ob.kind.lin fuel (σ.view ob) with
    | error e => rfl
    | ok out =>
      simp only
      rw [runEvs_congr_names _ _ out.evs _ (names_relab g gc ob fuel _ out ho), runEvs_rename (relab g gc) hf]
      simp only
      rw [passFrom_relabel σ σ' fuel g gc hg hgc t (fun ob' h' => hv ob' (List.mem_cons_of_mem _ h'))]
      cases passFrom σ fuel t (runEvs ob.name out.evs s).1 with
      | error e => rfl
      | ok r => rfl

/-! ### the order-preserving injection of a physical deletion -/

/-- number of kept entries among the first `i` -/
def rank (keep : List Bool) (i : Nat) : Nat := ((keep.take i).filter id).length

/-- kept position ↦ its rank; a dropped position is sent beyond the list (injective on ℕ) -/
def gmap (keep : List Bool) (i : Nat) : Nat := if keep.getD i false = true then rank keep i else keep.length + i

theorem rank_le (keep : List Bool) (i : Nat) : rank keep i ≤ i := by
  unfold rank
  exact le_trans (List.length_filter_le _ _) (by simp)

theorem rank_succ (keep : List Bool) (i : Nat) :
    rank keep (i + 1) = rank keep i + (if keep.getD i false = true then 1 else 0) := by
  unfold rank
  induction keep generalizing i with
  | nil => simp
  | cons b t ih =>
    cases i with
    | zero => cases b <;> simp
    | succ j =>
      have := ih j
      cases b <;> simp_all <;> omega

theorem rank_mono (keep : List Bool) {i j : Nat} (h : i ≤ j) : rank keep i ≤ rank keep j := by
  induction j, h using Nat.le_induction with
  | base => exact le_refl _
  | succ n _ ih => rw [rank_succ]; omega

theorem gmap_injective (keep : List Bool) : Function.Injective (gmap keep) := by
  intro i j h
  unfold gmap at h
  have kept_lt : ∀ t, keep.getD t false = true → t < keep.length := by
    intro t ht
    by_contra hc
    simp [List.getD, List.getElem?_eq_none (Nat.le_of_not_lt hc)] at ht
  by_cases hi : keep.getD i false = true <;> by_cases hj : keep.getD j false = true
  · rw [if_pos hi, if_pos hj] at h
    rcases Nat.lt_trichotomy i j with hlt | heq | hgt
    · have h1 := rank_succ keep i
      rw [if_pos hi] at h1
      have h2 := rank_mono keep (show i + 1 ≤ j from hlt)
      omega
    · exact heq
    · have h1 := rank_succ keep j
      rw [if_pos hj] at h1
      have h2 := rank_mono keep (show j + 1 ≤ i from hgt)
      omega
  · rw [if_pos hi, if_neg hj] at h
    have := rank_le keep i
    have := kept_lt i hi
    omega
  · rw [if_neg hi, if_pos hj] at h
    have := rank_le keep j
    have := kept_lt j hj
    omega
  · rw [if_neg hi, if_neg hj] at h
    omega

/-- the entry at the new position of the filtered list is the old entry -/
theorem getElem?_filter_rank {α : Type} (p : α → Bool) : ∀ (l : List α) (i : Nat) (a : α), l[i]? = some a → p a = true →
    (l.filter p)[rank (l.map p) i]? = some a
  | [], _, _, h, _ => by simp at h
  | b :: t, 0, a, h, hp => by
    simp only [List.getElem?_cons_zero, Option.some.injEq] at h
    subst h
    simp [rank, List.filter_cons, hp]
  | b :: t, i + 1, a, h, hp => by
    have ih := getElem?_filter_rank p t i a (by simpa using h) hp
    have hr : rank ((b :: t).map p) (i + 1) = (if p b = true then 1 else 0) + rank (t.map p) i := by
      unfold rank
      cases hb : p b <;> simp [hb] <;> omega
    rw [hr, List.filter_cons]
    cases hb : p b
    · simpa using ih
    · simp only [if_true]
      rw [Nat.add_comm, List.getElem?_cons_succ]
      exact ih

theorem getElem?_filter_gmap {α : Type} (p : α → Bool) (l : List α) (i : Nat) (a : α) (h : l[i]? = some a)
    (hp : p a = true) : (l.filter p)[gmap (l.map p) i]? = some a := by
  unfold gmap
  have : (l.map p).getD i false = true := by simp [List.getD, h, hp]
  rw [if_pos this]
  exact getElem?_filter_rank p l i a h hp

/-! ### physical deletion on `PE.Net` -/

/-- a point with some active coordinate group stays -/
def keepPt (p : PE.Point K) : Bool := p.pt.active_xy || p.pt.active_z
/-- a cluster with observations stays -/
def keepCl (c : PE.Cluster K) : Bool := !c.obs.isEmpty

def renOb (g : Nat → Nat) (o : PE.Ob K) : PE.Ob K := { o with pfrom := g o.pfrom, pto := g o.pto, pfs := g o.pfs }
def renCl (g : Nat → Nat) (c : PE.Cluster K) : PE.Cluster K :=
  { c with stand := c.stand.map fun so => (g so.1, so.2), obs := c.obs.map (renOb g) }

/-- the point map / the cluster map of the physical deletion of `net` -/
def gPt (net : PE.Net K) : Nat → Nat := gmap (net.points.map keepPt)
def gCl (net : PE.Net K) : Nat → Nat := gmap (net.clusters.map keepCl)

/-- **physical deletion**: the points with no active group and the clusters without observations are
    REMOVED from the lists; the remaining observations and stand-points name the points by their new positions -/
def physDel (net : PE.Net K) : PE.Net K :=
  { net with points := net.points.filter keepPt
             clusters := (net.clusters.filter keepCl).map (renCl (gPt net)) }

/-- a kept point is found at its new position -/
theorem ptAt_physDel [Zero K] (net : PE.Net K) (i : Nat) (p : PE.Point K) (h : net.points[i]? = some p)
    (hk : keepPt p = true) : PE.ptAt (physDel net) (gPt net i) = PE.ptAt net i := by
  unfold PE.ptAt physDel gPt
  simp only
  rw [getElem?_filter_gmap keepPt net.points i p h hk, h]

/-- a kept cluster is found at its new position (renamed) -/
theorem cluster_physDel (net : PE.Net K) (k : Nat) (c : PE.Cluster K) (h : net.clusters[k]? = some c)
    (hk : keepCl c = true) : (physDel net).clusters[gCl net k]? = some (renCl (gPt net) c) := by
  unfold physDel gCl
  simp only [List.getElem?_map]
  rw [getElem?_filter_gmap keepCl net.clusters k c h hk]
  rfl

/-- the record the linearisation reads for a renamed observation in the physically deleted network is the
    record it reads in the network, when the three point slots of the observation name kept points (or
    positions outside `PD`) and its cluster is kept -/
theorem view_physDel [Zero K] (net : PE.Net K) (ob : NObs K)
    (hp : ∀ i ∈ [ob.pfrom, ob.pto, ob.pfs], ∃ p, net.points[i]? = some p ∧ keepPt p = true)
    (hc : ∃ c, net.clusters[ob.sp]? = some c ∧ keepCl c = true) :
    (PE.sigmaOf (physDel net)).view (renN (gPt net) (gCl net) ob) = (PE.sigmaOf net).view ob := by
  obtain ⟨c, hc1, hc2⟩ := hc
  have h1 := hp ob.pfrom (by simp)
  have h2 := hp ob.pto (by simp)
  have h3 := hp ob.pfs (by simp)
  obtain ⟨p1, a1, b1⟩ := h1
  obtain ⟨p2, a2, b2⟩ := h2
  obtain ⟨p3, a3, b3⟩ := h3
  unfold Lin.Net.view renN PE.sigmaOf
  simp only
  rw [ptAt_physDel net _ p1 a1 b1, ptAt_physDel net _ p2 a2 b2, ptAt_physDel net _ p3 a3 b3,
    cluster_physDel net _ c hc1 hc2, hc1]
  have : (physDel net).xNorth = net.xNorth := rfl
  rw [this]
  congr 1
  unfold renCl
  obtain ⟨stand, cv, obs⟩ := c
  cases stand with
  | none => rfl
  | some so => obtain ⟨st, o⟩ := so; cases o <;> rfl


/-! ### `revised_obs_` of the physically deleted network -/

theorem rank_cons (b : Bool) (t : List Bool) (j : Nat) :
    rank (b :: t) (j + 1) = (if b = true then 1 else 0) + rank t j := by
  unfold rank
  cases b <;> simp <;> omega

theorem revisedFrom_physDel (g gc : Nat → Nat) : ∀ (cs : List (PE.Cluster K)) (k k' : Nat),
    (∀ j c, cs[j]? = some c → keepCl c = true → gc (k + j) = k' + rank (cs.map keepCl) j) →
    PE.revisedFrom k' ((cs.filter keepCl).map (renCl g)) = (PE.revisedFrom k cs).map (renN g gc)
  | [], _, _, _ => rfl
  | c :: cs, k, k', h => by
    by_cases hk : keepCl c = true
    · have h0 : gc k = k' := by simpa [rank] using h 0 c (by simp) hk
      have ih := revisedFrom_physDel g gc cs (k + 1) (k' + 1) (by
        intro j c' hj hc'
        have := h (j + 1) c' (by simpa using hj) hc'
        rw [show k + (j + 1) = k + 1 + j by omega] at this
        rw [List.map_cons, rank_cons, hk] at this
        simp only [if_true] at this
        omega)
      simp only [List.filter_cons, hk, if_true, List.map_cons, PE.revisedFrom, ih, List.map_append]
      congr 1
      simp only [renCl, List.filter_map, List.map_map]
      apply List.map_congr_left
      intro o _
      simp only [Function.comp, PE.Ob.toN, renOb, renN, h0]
    · have hemp : c.obs = [] := by
        unfold keepCl at hk
        cases hc : c.obs with
        | nil => rfl
        | cons a t => simp [hc] at hk
      have ih := revisedFrom_physDel g gc cs (k + 1) k' (by
        intro j c' hj hc'
        have := h (j + 1) c' (by simpa using hj) hc'
        rw [show k + (j + 1) = k + 1 + j by omega] at this
        rw [List.map_cons, rank_cons] at this
        simp only [Bool.not_eq_true] at hk
        simp only [hk, Bool.false_eq_true, if_false] at this
        omega)
      simp only [Bool.not_eq_true] at hk
      simp only [List.filter_cons, hk, Bool.false_eq_true, if_false, PE.revisedFrom, hemp, List.filter_nil,
        List.map_nil, List.nil_append, ih]

theorem revisedObs_physDel (net : PE.Net K) :
    PE.revisedObs (physDel net) = (PE.revisedObs net).map (renN (gPt net) (gCl net)) := by
  unfold PE.revisedObs physDel
  simp only
  apply revisedFrom_physDel
  intro j c hj hc
  unfold gCl gmap
  have : (net.clusters.map keepCl).getD (0 + j) false = true := by simp [List.getD, hj, hc]
  rw [if_pos this]
  simp

/-- the three point slots of every revised observation name kept points, its cluster is in the list
    (the second half holds for every network — an entry of `revised_obs_` comes from a cluster with an
    observation; carried as a hypothesis here) -/
def RolesKept (net : PE.Net K) : Prop :=
  ∀ ob ∈ PE.revisedObs net,
    (∀ i ∈ [ob.pfrom, ob.pto, ob.pfs], ∃ p, net.points[i]? = some p ∧ keepPt p = true) ∧
    ∃ c, net.clusters[ob.sp]? = some c ∧ keepCl c = true

/-- **the linearisation pass of the physically deleted network** (from the cleared index state, which is
    what every inner call amounts to — `PE.assemble_fresh`): the rows and the right-hand side of the pass
    of the network, the index table relabelled by the order-preserving injections of the deletion -/
theorem pass_physDel [TrigScalar K] (net : PE.Net K) (hR : RolesKept net) :
    passFrom (PE.sigmaOf (physDel net)) net.fuel (PE.revisedObs (physDel net)) IdxState.init =
      match passFrom (PE.sigmaOf net) net.fuel (PE.revisedObs net) IdxState.init with
      | .error e => .error e
      | .ok r => .ok ⟨r.rows, r.rhs, r.idx.mapKeys (relab (gPt net) (gCl net))⟩ := by
  rw [revisedObs_physDel]
  exact passFrom_relabel (PE.sigmaOf net) (PE.sigmaOf (physDel net)) net.fuel (gPt net) (gCl net)
    (gmap_injective _) (gmap_injective _) (PE.revisedObs net)
    (fun ob hob => view_physDel net ob (hR ob hob).1 (hR ob hob).2) IdxState.init


/-! ### one inner call on the physically deleted network -/

theorem takeWhile_all {α : Type} (p : α → Bool) : ∀ l : List α, (∀ x ∈ l, p x = true) → l.takeWhile p = l
  | [], _ => rfl
  | a :: t, h => by
    rw [List.takeWhile_cons, if_pos (h a List.mem_cons_self),
      takeWhile_all p t (fun x hx => h x (List.mem_cons_of_mem _ hx))]

theorem oriOK_physDel (net : PE.Net K) (ob : NObs K) (hc : ∃ c, net.clusters[ob.sp]? = some c ∧ keepCl c = true) :
    PE.oriOK (physDel net) (renN (gPt net) (gCl net) ob) = PE.oriOK net ob := by
  obtain ⟨c, h1, h2⟩ := hc
  obtain ⟨kind, sp, pf, pt, pfs, v⟩ := ob
  simp only at h1
  cases kind <;> try rfl
  unfold PE.oriOK renN
  simp only
  rw [cluster_physDel net _ c h1 h2, h1]
  obtain ⟨stand, cv, obs⟩ := c
  cases stand with
  | none => rfl
  | some so => obtain ⟨st, o⟩ := so; cases o <;> rfl

theorem nAct_renCl [Scalar K] (g : Nat → Nat) (c : PE.Cluster K) :
    (⟨(renCl g c).cov, (renCl g c).obs.map (·.active)⟩ : Ls.Net.Cluster K) = ⟨c.cov, c.obs.map (·.active)⟩ := by
  unfold renCl renOb
  simp only [List.map_map, Function.comp_def]

/-- the clusters with active observations, as the solver façade sees them, are those of the network -/
theorem activeClusters_physDel [Scalar K] (cs : List (PE.Cluster K)) (g : Nat → Nat) :
    ((((cs.filter keepCl).map (renCl g)).map fun c => (⟨c.cov, c.obs.map (·.active)⟩ : Ls.Net.Cluster K)).filter
        fun c => c.nAct != 0) =
    ((cs.map fun c => (⟨c.cov, c.obs.map (·.active)⟩ : Ls.Net.Cluster K)).filter fun c => c.nAct != 0) := by
  induction cs with
  | nil => rfl
  | cons c cs ih =>
    by_cases hk : keepCl c = true
    · simp only [List.filter_cons, hk, if_true, List.map_cons, nAct_renCl, ih]
    · have hemp : c.obs = [] := by
        unfold keepCl at hk
        cases hc : c.obs with
        | nil => rfl
        | cons a t => simp [hc] at hk
      simp only [Bool.not_eq_true] at hk
      simp only [List.filter_cons, hk, Bool.false_eq_true, if_false, List.map_cons, ih, hemp, List.map_nil]
      have : (({ cov := c.cov, active := [] } : Ls.Net.Cluster K).nAct != 0) = false := rfl
      rw [this]
      simp

/-- **one inner call on the physically deleted network**: if assembling the network succeeds, assembling the
    physically deleted network succeeds with the same `m`, `n`, rows, `rhs_`, `m_0`, the same clusters with
    active observations, and the index table relabelled on the unknowns the prologue clears -/
theorem assemble_physDel_core [TrigScalar K] (net : PE.Net K)
    (hpass : passFrom (PE.sigmaOf (physDel net)) net.fuel (PE.revisedObs (physDel net)) IdxState.init =
      match passFrom (PE.sigmaOf net) net.fuel (PE.revisedObs net) IdxState.init with
      | .error e => .error e
      | .ok r => .ok ⟨r.rows, r.rhs, r.idx.mapKeys (relab (gPt net) (gCl net))⟩)
    (hcl : ∀ ob ∈ PE.revisedObs net, ∃ c, net.clusters[ob.sp]? = some c ∧ keepCl c = true) (a : PE.Asm K)
    (h : PE.assemble net = .ok a) :
    ∃ a' b, PE.assemble (physDel net) = .ok a' ∧ PE.Fresh net a b ∧
      a'.np.m = a.np.m ∧ a'.np.n = a.np.n ∧ a'.np.rows = a.np.rows ∧ a'.np.rhs = a.np.rhs ∧
      Ls.Net.cofs a'.np = Ls.Net.cofs a.np ∧ a'.np.minx = a.np.minx ∧
      AgreeOn (PE.Cleared (physDel net)) (b.idx.mapKeys (relab (gPt net) (gCl net))) a'.idx := by
  obtain ⟨b, F⟩ := PE.assemble_fresh net a h
  have hp := hpass
  rw [F.pass] at hp
  simp only at hp
  -- from the cleared state to the state the prologue leaves
  have hag : AgreeOn (PE.Cleared (physDel net)) IdxState.init
      ((physDel net).idx.resetPass (PE.guardOf (physDel net))) :=
    AgreeOn.symm' (PE.cleared_agree (physDel net) (physDel net).idx)
  obtain ⟨r', h1, h2, h3, h4⟩ := PE.passFrom_agree (PE.sigmaOf (physDel net)) (physDel net).fuel
    (PE.Cleared (physDel net)) (PE.revisedObs (physDel net))
    (fun ob _ out ho => PE.lin_events_cleared (physDel net) ob out ho) _ _ hag _ hp
  have hall : (PE.revisedObs (physDel net)).takeWhile (PE.oriOK (physDel net)) = PE.revisedObs (physDel net) := by
    apply takeWhile_all
    intro ob' hob'
    rw [revisedObs_physDel, List.mem_map] at hob'
    obtain ⟨ob, hob, rfl⟩ := hob'
    rw [oriOK_physDel net ob (hcl ob hob)]
    exact F.oris ob hob
  have hasm : PE.assemble (physDel net) = .ok
      { np := { m := (PE.revisedObs (physDel net)).length, n := r'.idx.maxn
                rows := (r'.rows.map List.toArray).toArray, rhs := r'.rhs.toArray
                clusters := PE.npClusters (physDel net), m0 := (physDel net).m0, minx := [] }
        idx := r'.idx, list := PE.unknownsList (physDel net) r'.idx } := by
    unfold PE.assemble PE.linPass
    simp only [hall, h1, if_true]
  refine ⟨_, b, hasm, F, ?_, ?_, ?_, ?_, ?_, ?_, h4⟩
  · simp only [revisedObs_physDel, List.length_map, F.m]
  · simp only [← h4.1, F.n]; rfl
  · simp only [← h2, F.rows]
  · simp only [← h3, F.rhs]
  · unfold Ls.Net.cofs Ls.Net.activeClusters
    simp only [F.clusters, F.m0]
    unfold PE.npClusters physDel
    simp only
    rw [activeClusters_physDel]
  · obtain ⟨r0, hr0⟩ : ∃ r0, a.np.minx = r0 := ⟨_, rfl⟩
    unfold PE.assemble at h
    simp only at h
    split at h
    · cases h
    · injection h with h; subst h; rfl


theorem assemble_physDel [TrigScalar K] (net : PE.Net K) (hR : RolesKept net) (a : PE.Asm K)
    (h : PE.assemble net = .ok a) :
    ∃ a' b, PE.assemble (physDel net) = .ok a' ∧ PE.Fresh net a b ∧
      a'.np.m = a.np.m ∧ a'.np.n = a.np.n ∧ a'.np.rows = a.np.rows ∧ a'.np.rhs = a.np.rhs ∧
      Ls.Net.cofs a'.np = Ls.Net.cofs a.np ∧ a'.np.minx = a.np.minx ∧
      AgreeOn (PE.Cleared (physDel net)) (b.idx.mapKeys (relab (gPt net) (gCl net))) a'.idx :=
  assemble_physDel_core net (pass_physDel net hR) (fun ob hob => (hR ob hob).2) a h

end Gama.RevPE
