/-
  Loops of `NormalDistribution` and `KSprob` over ℝ (model: Gama/Model/Statan.lean, decision fragments:
  Gama/Gen/StatanGen.lean, regenerated from statan.cpp).

  * the `maxd/mind` rescaling multiplies q1, q2, p1, p2 by one positive factor, hence leaves every convergent,
    the loop test and the returned value unchanged (`cfStep_equiv`, `cfLoop_equiv`);
  * continued fraction: invariant `CFInv` (positive denominators, strictly decreasing positive convergents, gap
    bounded by 6·e₀/((k+1)(k+2)(k+3))), hence the loop test `|r − D| > DBL_EPSILON` fails after at most 10⁵
    passes and more fuel does not change the result (`cfLoop_stable`);
  * power series: over ℝ every term is positive, so the exit test `D − s ≤ 0` never fires (the C++ loop ends by
    absorption in floating point only); the model returns the partial sum and the truncation error is bounded
    geometrically (`seriesLoop_eq_sum`, `series_tail_bound`);
  * `KSprob`: the fuel 100 / 101 in the model is never exhausted before the syntactic bounds `j < 100`, `k <= 100`.
-/
import Gama.Lemmas.StatanReal
namespace Gama.Statan
open Real

/-! ### the generated fragments read at ℝ -/

theorem seriesStop_real (D s : ℝ) : (StatanGen.seriesStop D s = true) ↔ D - s ≤ 0 := by
  simp [StatanGen.seriesStop]

theorem rescaleGuard_real (M q1 q2 p1 p2 : ℝ) : (StatanGen.rescaleGuard M q1 q2 p1 p2 = true) ↔ M < q2 := by
  simp [StatanGen.rescaleGuard]

/-- the guarded block multiplies all four of q1, q2, p1, p2 by `mind` — fails to compile if the block in
    statan.cpp forgets one of them -/
theorem rescale_real (m M q1 q2 p1 p2 : ℝ) :
    StatanGen.rescale m M q1 q2 p1 p2 = (q1 * m, q2 * m, p1 * m, p2 * m) := rfl

theorem cfContinue_real (e r D : ℝ) : (StatanGen.cfContinue e r D = true) ↔ e < |r - D| := by
  simp [StatanGen.cfContinue]

theorem mind_pos : (0 : ℝ) < mind := by
  unfold mind; rw [scalar_ofSci_real]; positivity

theorem dblEps_real : (dblEps : ℝ) = 2220446049250313 / 10 ^ 31 := by
  unfold dblEps; rw [scalar_ofSci_real]; norm_num

/-! ### rescaling -/

theorem cfRescale_scale (q1 q2 p1 p2 : ℝ) :
    ∃ m : ℝ, 0 < m ∧ cfRescale (q1, q2, p1, p2) = (q1 * m, q2 * m, p1 * m, p2 * m) := by
  unfold cfRescale
  split_ifs
  · exact ⟨mind, mind_pos, rescale_real _ _ _ _ _ _⟩
  · exact ⟨1, one_pos, by simp⟩

/-- `tl typv v`: the value stored in `D` for the convergent `v` (`if (!typv) D = 1 - D`) -/
noncomputable def tl (typv : Bool) (v : ℝ) : ℝ := if !typv then 1 - v else v

/-- one pass of the loop, written out: the recurrence, one common positive factor `m` (1 or `mind`) -/
theorem cfStep_spec (typv : Bool) (c : CF ℝ) :
    ∃ m : ℝ, 0 < m ∧ cfStep typv c =
      { t := c.t + 4, a1 := c.a1 - 8, a2 := c.a2 + (c.a1 - 8), p1 := c.p2 * m, q1 := c.q2 * m,
        p2 := ((c.a2 + (c.a1 - 8)) * c.p1 + (c.t + 4) * c.p2) * m,
        q2 := ((c.a2 + (c.a1 - 8)) * c.q1 + (c.t + 4) * c.q2) * m, s := c.r, r := c.D,
        D := tl typv (((c.a2 + (c.a1 - 8)) * c.p1 + (c.t + 4) * c.p2) /
                      ((c.a2 + (c.a1 - 8)) * c.q1 + (c.t + 4) * c.q2)) } := by
  obtain ⟨m, hm, h⟩ := cfRescale_scale c.q2 ((c.a2 + (c.a1 - 8)) * c.q1 + (c.t + 4) * c.q2) c.p2
    ((c.a2 + (c.a1 - 8)) * c.p1 + (c.t + 4) * c.p2)
  refine ⟨m, hm, ?_⟩
  unfold cfStep tl
  simp only [scalar_ofNat_real, Nat.cast_ofNat, h, mul_div_mul_right _ _ hm.ne']

/-- two loop states that differ by a common positive factor on (p1, q1, p2, q2) only -/
def CFEquiv (c c' : CF ℝ) : Prop :=
  c'.t = c.t ∧ c'.a1 = c.a1 ∧ c'.a2 = c.a2 ∧ c'.s = c.s ∧ c'.r = c.r ∧ c'.D = c.D ∧
    ∃ m : ℝ, 0 < m ∧ c'.p1 = c.p1 * m ∧ c'.q1 = c.q1 * m ∧ c'.p2 = c.p2 * m ∧ c'.q2 = c.q2 * m

theorem CFEquiv.refl (c : CF ℝ) : CFEquiv c c :=
  ⟨rfl, rfl, rfl, rfl, rfl, rfl, 1, one_pos, by simp, by simp, by simp, by simp⟩

/-- one pass maps states equal up to scale to states equal up to scale (whether or not the `q2 > maxd`
    guard fires on either side), with the same `s`, `r`, `D` -/
theorem cfStep_equiv (typv : Bool) {c c' : CF ℝ} (h : CFEquiv c c') :
    CFEquiv (cfStep typv c) (cfStep typv c') := by
  obtain ⟨ht, ha1, ha2, _, hr, hD, k, hk, hp1, hq1, hp2, hq2⟩ := h
  obtain ⟨m, hm, e⟩ := cfStep_spec typv c
  obtain ⟨m', hm', e'⟩ := cfStep_spec typv c'
  rw [e, e']
  refine ⟨by simp [ht], by simp [ha1], by simp [ha1, ha2], hr, hD, ?_, k * m' / m, by positivity, ?_, ?_, ?_, ?_⟩
  · show tl typv _ = tl typv _
    rw [ht, ha1, ha2, hp1, hq1, hp2, hq2]
    congr 1
    rw [show (c.a2 + (c.a1 - 8)) * (c.p1 * k) + (c.t + 4) * (c.p2 * k)
          = ((c.a2 + (c.a1 - 8)) * c.p1 + (c.t + 4) * c.p2) * k by ring,
        show (c.a2 + (c.a1 - 8)) * (c.q1 * k) + (c.t + 4) * (c.q2 * k)
          = ((c.a2 + (c.a1 - 8)) * c.q1 + (c.t + 4) * c.q2) * k by ring,
        mul_div_mul_right _ _ hk.ne']
  · show c'.p2 * m' = c.p2 * m * (k * m' / m); rw [hp2]; field_simp
  · show c'.q2 * m' = c.q2 * m * (k * m' / m); rw [hq2]; field_simp
  · show (_ : ℝ) * m' = _ * m * (k * m' / m); rw [ht, ha1, ha2, hp1, hp2]; field_simp
  · show (_ : ℝ) * m' = _ * m * (k * m' / m); rw [ht, ha1, ha2, hq1, hq2]; field_simp

/-- the whole loop: same number of passes, same `s`, `r`, `D` -/
theorem cfLoop_equiv (typv : Bool) (fuel : ℕ) {c c' : CF ℝ} (h : CFEquiv c c') :
    CFEquiv (cfLoop typv fuel c) (cfLoop typv fuel c') := by
  induction fuel generalizing c c' with
  | zero => exact h
  | succ n ih =>
    have hs := cfStep_equiv typv h
    unfold cfLoop
    simp only []
    rw [hs.2.2.2.2.1, hs.2.2.2.2.2.1]
    split_ifs
    · exact ih hs
    · exact hs

/-- the loop without the overflow guard (the mathematical recurrence) -/
noncomputable def cfStepPlain (typv : Bool) (c : CF ℝ) : CF ℝ :=
  { t := c.t + 4, a1 := c.a1 - 8, a2 := c.a2 + (c.a1 - 8), p1 := c.p2, q1 := c.q2,
    p2 := (c.a2 + (c.a1 - 8)) * c.p1 + (c.t + 4) * c.p2,
    q2 := (c.a2 + (c.a1 - 8)) * c.q1 + (c.t + 4) * c.q2, s := c.r, r := c.D,
    D := tl typv (((c.a2 + (c.a1 - 8)) * c.p1 + (c.t + 4) * c.p2) /
                  ((c.a2 + (c.a1 - 8)) * c.q1 + (c.t + 4) * c.q2)) }

noncomputable def cfLoopPlain (typv : Bool) : ℕ → CF ℝ → CF ℝ
  | 0, c => c
  | n+1, c =>
    let c := cfStepPlain typv c
    if dblEps < |c.r - c.D| then cfLoopPlain typv n c else c

theorem cfStep_equiv_plain (typv : Bool) {c c' : CF ℝ} (h : CFEquiv c c') :
    CFEquiv (cfStepPlain typv c) (cfStep typv c') := by
  obtain ⟨m, hm, e⟩ := cfStep_spec typv c
  have h1 : CFEquiv (cfStepPlain typv c) (cfStep typv c) := by
    rw [e]; unfold cfStepPlain
    exact ⟨rfl, rfl, rfl, rfl, rfl, rfl, m, hm, rfl, rfl, rfl, rfl⟩
  have h2 := cfStep_equiv typv h
  obtain ⟨a1, a2, a3, a4, a5, a6, k, hk, b1, b2, b3, b4⟩ := h1
  obtain ⟨c1, c2, c3, c4, c5, c6, k', hk', d1, d2, d3, d4⟩ := h2
  exact ⟨c1.trans a1, c2.trans a2, c3.trans a3, c4.trans a4, c5.trans a5, c6.trans a6, k * k', by positivity,
    by rw [d1, b1]; ring, by rw [d2, b2]; ring, by rw [d3, b3]; ring, by rw [d4, b4]; ring⟩

/-- `rescale_invariant`: the coded loop (with the `maxd/mind` rescaling) and the plain recurrence make the same
    number of passes and end with the same `s`, `r`, `D` -/
theorem cfLoop_equiv_plain (typv : Bool) (fuel : ℕ) {c c' : CF ℝ} (h : CFEquiv c c') :
    CFEquiv (cfLoopPlain typv fuel c) (cfLoop typv fuel c') := by
  induction fuel generalizing c c' with
  | zero => exact h
  | succ n ih =>
    have hs := cfStep_equiv_plain typv h
    unfold cfLoop cfLoopPlain
    simp only [cfContinue_real]
    rw [hs.2.2.2.2.1, hs.2.2.2.2.2.1]
    split_ifs
    · exact ih hs
    · exact hs

/-! ### the continued fraction: invariant, convergence, termination of the loop -/

theorem tl_sub (typv : Bool) (a b : ℝ) : |tl typv a - tl typv b| = |a - b| := by
  unfold tl; cases typv <;> simp [abs_sub_comm]

/-- invariant of the loop state after `k` passes (`x2 = x²`, `e0` = gap between the first two convergents):
    counters, positive denominators growing by at least `x2 + 2k + 3`, positive numerators, strictly decreasing
    convergents `p2/q2 < p1/q1`, gap bounded by `6·e0/((k+1)(k+2)(k+3))`, `r` and `D` hold the last two convergents.
    Every clause is homogeneous in (p1, q1, p2, q2), so the `maxd/mind` rescaling does not disturb it. -/
structure CFInv (typv : Bool) (x2 e0 : ℝ) (k : ℕ) (c : CF ℝ) : Prop where
  ht : c.t = x2 + 3 + 4 * k
  ha1 : c.a1 = 2 - 8 * k
  ha2 : c.a2 = -(2 * k * (2 * k + 1))
  q1pos : 0 < c.q1
  qgrow : (x2 + 2 * k + 3) * c.q1 ≤ c.q2
  p1pos : 0 < c.p1
  pgrow : (x2 + 2 * k + 2) * c.p1 ≤ c.p2
  gap : c.p2 * c.q1 < c.p1 * c.q2
  gapbd : ((k : ℝ) + 1) * (k + 2) * (k + 3) * (c.p1 * c.q2 - c.p2 * c.q1) ≤ 6 * e0 * (c.q1 * c.q2)
  hr : c.r = tl typv (c.p1 / c.q1)
  hD : c.D = tl typv (c.p2 / c.q2)

theorem CFInv.q2pos {typv : Bool} {x2 e0 : ℝ} {k : ℕ} {c : CF ℝ} (h : CFInv typv x2 e0 k c) (hx : 5 ≤ x2) :
    0 < c.q2 := by
  have hk : (0 : ℝ) ≤ k := Nat.cast_nonneg k
  have := h.q1pos; have := h.qgrow
  nlinarith

theorem CFInv.p2pos {typv : Bool} {x2 e0 : ℝ} {k : ℕ} {c : CF ℝ} (h : CFInv typv x2 e0 k c) (hx : 5 ≤ x2) :
    0 < c.p2 := by
  have hk : (0 : ℝ) ≤ k := Nat.cast_nonneg k
  have := h.p1pos; have := h.pgrow
  nlinarith

/-- the arithmetic of one pass: with `A = 2(K+1)(2K+3)`, `Q = −A q1 + (x2+4K+7) q2`, `P = −A p1 + (x2+4K+7) p2` -/
theorem cf_arith {x2 e0 K q1 q2 p1 p2 : ℝ} (hx : 5 ≤ x2) (he : 0 ≤ e0) (hK : 0 ≤ K) (hq1 : 0 < q1)
    (hqg : (x2 + 2 * K + 3) * q1 ≤ q2) (hp1 : 0 < p1) (hpg : (x2 + 2 * K + 2) * p1 ≤ p2)
    (hgap : p2 * q1 < p1 * q2)
    (hgb : (K + 1) * (K + 2) * (K + 3) * (p1 * q2 - p2 * q1) ≤ 6 * e0 * (q1 * q2)) :
    (x2 + 2 * K + 5) * q2 ≤ -(2 * (K + 1) * (2 * K + 3)) * q1 + (x2 + 4 * K + 7) * q2 ∧
    (x2 + 2 * K + 4) * p2 ≤ -(2 * (K + 1) * (2 * K + 3)) * p1 + (x2 + 4 * K + 7) * p2 ∧
    (-(2 * (K + 1) * (2 * K + 3)) * p1 + (x2 + 4 * K + 7) * p2) * q2
      < p2 * (-(2 * (K + 1) * (2 * K + 3)) * q1 + (x2 + 4 * K + 7) * q2) ∧
    (K + 2) * (K + 3) * (K + 4) *
        (p2 * (-(2 * (K + 1) * (2 * K + 3)) * q1 + (x2 + 4 * K + 7) * q2)
          - (-(2 * (K + 1) * (2 * K + 3)) * p1 + (x2 + 4 * K + 7) * p2) * q2)
      ≤ 6 * e0 * (q2 * (-(2 * (K + 1) * (2 * K + 3)) * q1 + (x2 + 4 * K + 7) * q2)) := by
  have hq2 : 0 < q2 := lt_of_lt_of_le (by positivity) hqg
  have hq21 : (2 * K + 3) * q1 ≤ q2 := by
    have : (2 * K + 3) * q1 ≤ (x2 + 2 * K + 3) * q1 := mul_le_mul_of_nonneg_right (by linarith) hq1.le
    linarith
  have hq28 : (2 * K + 8) * q1 ≤ q2 := by
    have : (2 * K + 8) * q1 ≤ (x2 + 2 * K + 3) * q1 := mul_le_mul_of_nonneg_right (by linarith) hq1.le
    linarith
  have hp21 : (2 * K + 2) * p1 ≤ p2 := by
    have : (2 * K + 2) * p1 ≤ (x2 + 2 * K + 2) * p1 := mul_le_mul_of_nonneg_right (by linarith) hp1.le
    linarith
  have hQg : (x2 + 2 * K + 5) * q2 ≤ -(2 * (K + 1) * (2 * K + 3)) * q1 + (x2 + 4 * K + 7) * q2 := by
    have := mul_le_mul_of_nonneg_left hq21 (by positivity : (0 : ℝ) ≤ 2 * K + 2)
    linarith
  have hPg : (x2 + 2 * K + 4) * p2 ≤ -(2 * (K + 1) * (2 * K + 3)) * p1 + (x2 + 4 * K + 7) * p2 := by
    have := mul_le_mul_of_nonneg_left hp21 (by positivity : (0 : ℝ) ≤ 2 * K + 3)
    linarith
  have hGpos : 0 < p1 * q2 - p2 * q1 := by linarith
  have hA : 0 < 2 * (K + 1) * (2 * K + 3) := by positivity
  have hAG := mul_pos hA hGpos
  refine ⟨hQg, hPg, by linarith, ?_⟩
  have hQbig : 2 * (K + 4) * (2 * K + 3) * q1 ≤ -(2 * (K + 1) * (2 * K + 3)) * q1 + (x2 + 4 * K + 7) * q2 := by
    have h1 : (2 * K + 10) * q2 ≤ (x2 + 2 * K + 5) * q2 := mul_le_mul_of_nonneg_right (by linarith) hq2.le
    have h3 : (2 * K + 10) * ((2 * K + 8) * q1) ≤ (2 * K + 10) * q2 :=
      mul_le_mul_of_nonneg_left hq28 (by positivity)
    have h4 : 0 ≤ (34 * K + 56) * q1 := by positivity
    linarith
  have h3 : 2 * (K + 4) * (2 * K + 3) * ((K + 1) * (K + 2) * (K + 3) * (p1 * q2 - p2 * q1))
      ≤ 2 * (K + 4) * (2 * K + 3) * (6 * e0 * (q1 * q2)) := mul_le_mul_of_nonneg_left hgb (by positivity)
  have h4 := mul_le_mul_of_nonneg_left hQbig (by positivity : (0 : ℝ) ≤ 6 * e0 * q2)
  linarith

/-- the invariant is preserved by one pass of the coded loop (rescaling included) -/
theorem CFInv.step {typv : Bool} {x2 e0 : ℝ} {k : ℕ} {c : CF ℝ} (h : CFInv typv x2 e0 k c) (hx : 5 ≤ x2)
    (he : 0 ≤ e0) : CFInv typv x2 e0 (k + 1) (cfStep typv c) := by
  obtain ⟨m, hm, e⟩ := cfStep_spec typv c
  have hK : (0 : ℝ) ≤ k := Nat.cast_nonneg k
  have hq2 := h.q2pos hx
  have hp2 := h.p2pos hx
  have ha : c.a2 + (c.a1 - 8) = -(2 * ((k : ℝ) + 1) * (2 * k + 3)) := by rw [h.ha2, h.ha1]; ring
  have ht : c.t + 4 = x2 + 4 * k + 7 := by rw [h.ht]; ring
  obtain ⟨hQg, hPg, hlt, hbd⟩ := cf_arith hx he hK h.q1pos h.qgrow h.p1pos h.pgrow h.gap h.gapbd
  rw [e, ha, ht]
  have hmm : 0 < m * m := mul_pos hm hm
  refine ⟨?_, ?_, ?_, ?_, ?_, ?_, ?_, ?_, ?_, ?_, ?_⟩
  · show x2 + 4 * (k : ℝ) + 7 = x2 + 3 + 4 * ((k + 1 : ℕ) : ℝ); push_cast; ring
  · show c.a1 - 8 = 2 - 8 * ((k + 1 : ℕ) : ℝ); rw [h.ha1]; push_cast; ring
  · show -(2 * ((k : ℝ) + 1) * (2 * k + 3)) = -(2 * ((k + 1 : ℕ) : ℝ) * (2 * ((k + 1 : ℕ) : ℝ) + 1))
    push_cast; ring
  · show 0 < c.q2 * m; positivity
  · show (x2 + 2 * ((k + 1 : ℕ) : ℝ) + 3) * (c.q2 * m) ≤ _ * m
    push_cast
    have := mul_le_mul_of_nonneg_right hQg hm.le
    linarith
  · show 0 < c.p2 * m; positivity
  · show (x2 + 2 * ((k + 1 : ℕ) : ℝ) + 2) * (c.p2 * m) ≤ _ * m
    push_cast
    have := mul_le_mul_of_nonneg_right hPg hm.le
    linarith
  · show _ * m * (c.q2 * m) < c.p2 * m * (_ * m)
    have := mul_lt_mul_of_pos_right hlt hmm
    linarith
  · show (((k + 1 : ℕ) : ℝ) + 1) * (((k + 1 : ℕ) : ℝ) + 2) * (((k + 1 : ℕ) : ℝ) + 3) *
        (c.p2 * m * (_ * m) - _ * m * (c.q2 * m)) ≤ 6 * e0 * (c.q2 * m * (_ * m))
    push_cast
    have := mul_le_mul_of_nonneg_right hbd hmm.le
    linarith
  · show c.D = tl typv (c.p2 * m / (c.q2 * m)); rw [mul_div_mul_right _ _ hm.ne']; exact h.hD
  · show tl typv (_ / _) = tl typv (_ * m / (_ * m)); rw [mul_div_mul_right _ _ hm.ne']

theorem CFInv.iterate {typv : Bool} {x2 e0 : ℝ} {c : CF ℝ} (h : CFInv typv x2 e0 0 c) (hx : 5 ≤ x2)
    (he : 0 ≤ e0) (k : ℕ) : CFInv typv x2 e0 k ((cfStep typv)^[k] c) := by
  induction k with
  | zero => exact h
  | succ n ih => rw [Function.iterate_succ_apply']; exact ih.step hx he

/-- the loop test quantity: `|r − D|` is the gap of the last two convergents, positive and at most
    `6 e0 / ((k+1)(k+2)(k+3))` -/
theorem CFInv.test {typv : Bool} {x2 e0 : ℝ} {k : ℕ} {c : CF ℝ} (h : CFInv typv x2 e0 k c) (hx : 5 ≤ x2) :
    0 < |c.r - c.D| ∧ |c.r - c.D| ≤ 6 * e0 / (((k : ℝ) + 1) * (k + 2) * (k + 3)) := by
  have hq1 := h.q1pos
  have hq2 := h.q2pos hx
  have hK : (0 : ℝ) ≤ k := Nat.cast_nonneg k
  have hG : c.p1 / c.q1 - c.p2 / c.q2 = (c.p1 * c.q2 - c.p2 * c.q1) / (c.q1 * c.q2) := by
    rw [div_sub_div _ _ hq1.ne' hq2.ne']; ring
  have hGpos : 0 < c.p1 * c.q2 - c.p2 * c.q1 := by linarith [h.gap]
  have hpos : 0 < (c.p1 * c.q2 - c.p2 * c.q1) / (c.q1 * c.q2) := div_pos hGpos (mul_pos hq1 hq2)
  rw [h.hr, h.hD, tl_sub, hG, abs_of_pos hpos]
  refine ⟨hpos, ?_⟩
  rw [div_le_div_iff₀ (mul_pos hq1 hq2) (by positivity)]
  have := h.gapbd
  linarith

/-- convergents are positive and strictly decreasing: `0 < p2/q2 < p1/q1` -/
theorem CFInv.convergents {typv : Bool} {x2 e0 : ℝ} {k : ℕ} {c : CF ℝ} (h : CFInv typv x2 e0 k c)
    (hx : 5 ≤ x2) : 0 < c.p2 / c.q2 ∧ c.p2 / c.q2 < c.p1 / c.q1 := by
  refine ⟨div_pos (h.p2pos hx) (h.q2pos hx), ?_⟩
  rw [div_lt_div_iff₀ (h.q2pos hx) h.q1pos]; exact h.gap

/-- if the loop test fails after pass `k+1`, more fuel than `k+1` changes nothing -/
theorem cfLoop_stop (typv : Bool) (k : ℕ) (c : CF ℝ)
    (hstop : ¬ dblEps < |((cfStep typv)^[k + 1] c).r - ((cfStep typv)^[k + 1] c).D|) (fuel : ℕ)
    (hf : k + 1 ≤ fuel) : cfLoop typv fuel c = cfLoop typv (k + 1) c := by
  induction k generalizing c fuel with
  | zero =>
    obtain ⟨n, rfl⟩ : ∃ n, fuel = n + 1 := ⟨fuel - 1, by omega⟩
    simp only [Function.iterate_succ, Function.iterate_zero, Function.comp_apply, id_eq] at hstop
    unfold cfLoop
    simp only [cfContinue_real, if_neg hstop]
  | succ j ih =>
    obtain ⟨n, rfl⟩ : ∃ n, fuel = n + 1 := ⟨fuel - 1, by omega⟩
    rw [Function.iterate_succ_apply] at hstop
    show cfLoop typv (n + 1) c = cfLoop typv (j + 1 + 1) c
    unfold cfLoop
    simp only [cfContinue_real]
    split_ifs
    · exact ih (cfStep typv c) hstop n (by omega)
    · rfl

/-- with fuel ≥ 1 the loop returns an iterate of `cfStep` with index ≥ 1 -/
theorem cfLoop_is_iterate (typv : Bool) (fuel : ℕ) (c : CF ℝ) :
    ∃ k, k ≤ fuel ∧ (fuel ≠ 0 → k ≠ 0) ∧ cfLoop typv fuel c = (cfStep typv)^[k] c := by
  induction fuel generalizing c with
  | zero => exact ⟨0, le_rfl, fun h => absurd rfl h, rfl⟩
  | succ n ih =>
    unfold cfLoop
    simp only []
    split_ifs
    · obtain ⟨k, hk, _, e⟩ := ih (cfStep typv c)
      exact ⟨k + 1, by omega, fun _ => by omega, by rw [e, Function.iterate_succ_apply]⟩
    · exact ⟨1, by omega, fun _ => by omega, rfl⟩

/-- termination: from a state satisfying the invariant with `e0 ≤ 1/40`, the loop test fails at pass 10⁵ at the
    latest, so `cfLoop fuel = cfLoop 100000` for every `fuel ≥ 100000` (the driver runs with 10⁸) -/
theorem cfLoop_stable {typv : Bool} {x2 e0 : ℝ} {c : CF ℝ} (h : CFInv typv x2 e0 0 c) (hx : 5 ≤ x2)
    (he : 0 ≤ e0) (he' : e0 ≤ 1 / 40) (fuel : ℕ) (hf : 100000 ≤ fuel) :
    cfLoop typv fuel c = cfLoop typv 100000 c := by
  refine cfLoop_stop typv 99999 c ?_ fuel hf
  have hi := (h.iterate hx he (99999 + 1)).test hx
  rw [dblEps_real]
  refine not_lt.mpr (hi.2.trans ?_)
  rw [div_le_div_iff₀ (by positivity) (by positivity)]
  push_cast
  nlinarith

/-! ### `NormalDistribution` over ℝ, branch by branch -/

/-- the state the continued-fraction loop starts from -/
noncomputable def cfInit (typv : Bool) (x2 f b : ℝ) : CF ℝ :=
  { t := x2 + 3, a1 := 2, a2 := 0, p1 := f, q1 := b, p2 := (x2 + 3 - 1) * f, q2 := (x2 + 3) * b, s := 0,
    r := tl typv (f / b), D := tl typv ((x2 + 3 - 1) * f / ((x2 + 3) * b)) }

noncomputable def ndF (x : ℝ) : ℝ := f0 * Real.exp (-(1 / 2) * (x * x))

theorem ndF_pos (x : ℝ) : 0 < ndF x := by
  unfold ndF f0; rw [lit_real]; positivity

/-- `NormalDistribution` over ℝ, branch by branch (`x ≠ 0`): the `r <= 0` exit is dead (the density is positive) -/
noncomputable def ndSpec (fuel : ℕ) (x : ℝ) : ℝ × ℝ :=
  if |x| ≤ (if x ≤ 0 then 232 / 100 else 35 / 10) then
    let S := seriesLoop (x * x) fuel (ndF x * |x|) (ndF x * |x|) (ndF x * |x|) 3
    (if x ≤ 0 then 1 / 2 - S else S + 1 / 2, ndF x)
  else
    let c := cfLoop (decide (x ≤ 0)) fuel (cfInit (decide (x ≤ 0)) (x * x) (ndF x) |x|)
    (if c.s - c.D = 0 then (if x ≤ 0 then 0 else 1) else c.D, ndF x)

theorem nd_unfold (fuel : ℕ) {x : ℝ} (hx : x ≠ 0) : normalDistribution fuel x = ndSpec fuel x := by
  have hf := ndF_pos x
  have l232 : (lit 232 2 : ℝ) = 232 / 100 := by rw [lit_real]; norm_num
  have l35 : (lit 35 1 : ℝ) = 35 / 10 := by rw [lit_real]; norm_num
  rcases lt_or_gt_of_ne hx with hlt | hgt
  · have hle : x ≤ 0 := hlt.le
    have hr : ¬ (ndF x / (-x) ≤ 0) := not_le.mpr (div_pos hf (by linarith))
    unfold normalDistribution ndSpec cfInit tl
    unfold ndF at hr ⊢
    simp only [scalar_beq_real, hx, if_false, hle, hlt, decide_true, if_true, transc_exp_real, half_real,
      scalar_ofNat_real, hr, abs_of_neg hlt, l232, sub_nonpos, Nat.cast_ofNat, Bool.not_true, Bool.false_eq_true,
      Bool.not_eq_true', scalar_beq_real_false, ne_eq, ite_not]
    split_ifs <;> rfl
  · have hle : ¬ x ≤ 0 := not_le.mpr hgt
    have hnl : ¬ x < 0 := not_lt.mpr hgt.le
    have hr : ¬ (ndF x / x ≤ 0) := not_le.mpr (div_pos hf hgt)
    unfold normalDistribution ndSpec cfInit tl
    unfold ndF at hr ⊢
    simp only [scalar_beq_real, hx, if_false, hle, hnl, decide_false, transc_exp_real, half_real,
      scalar_ofNat_real, hr, abs_of_pos hgt, l35, sub_nonpos, Nat.cast_ofNat, Bool.not_false, if_true,
      Bool.not_eq_true', scalar_beq_real_false, ne_eq, ite_not, Bool.false_eq_true]
    split_ifs <;> rfl


theorem f0_le : (f0 : ℝ) ≤ 2 / 5 := by unfold f0; rw [lit_real]; norm_num

theorem ndF_le (x : ℝ) : ndF x ≤ 2 / 5 := by
  unfold ndF
  have h1 : Real.exp (-(1 / 2) * (x * x)) ≤ 1 := Real.exp_le_one_iff.mpr (by nlinarith [mul_self_nonneg x])
  have h0 : (0 : ℝ) < f0 := by unfold f0; rw [lit_real]; positivity
  nlinarith [f0_le]

/-- the initial state satisfies the invariant with `e0 = f/(b(x2+3))` -/
theorem cfInit_inv (typv : Bool) {x2 f b : ℝ} (hx : 0 ≤ x2) (hf : 0 < f) (hb : 0 < b) :
    CFInv typv x2 (f / (b * (x2 + 3))) 0 (cfInit typv x2 f b) := by
  unfold cfInit
  refine ⟨by simp, by simp, by simp, hb, by simp, hf, ?_, ?_, ?_, rfl, rfl⟩
  · show (x2 + 2 * ((0 : ℕ) : ℝ) + 2) * f ≤ (x2 + 3 - 1) * f; simp; nlinarith
  · show (x2 + 3 - 1) * f * b < f * ((x2 + 3) * b); nlinarith [mul_pos hf hb]
  · show (((0 : ℕ) : ℝ) + 1) * (((0 : ℕ) : ℝ) + 2) * (((0 : ℕ) : ℝ) + 3) * (f * ((x2 + 3) * b) - (x2 + 3 - 1) * f * b)
        ≤ 6 * (f / (b * (x2 + 3))) * (b * ((x2 + 3) * b))
    have : f / (b * (x2 + 3)) * (b * ((x2 + 3) * b)) = f * b := by field_simp
    push_cast
    nlinarith

/-- in the continued-fraction region (`x < −2.32` or `x > 3.5`): `x² ≥ 5`, `|x| ≥ 2`, `e0 ≤ 1/40` -/
theorem cf_region {x : ℝ} (h : ¬ |x| ≤ (if x ≤ 0 then 232 / 100 else 35 / 10)) :
    5 ≤ x * x ∧ 0 < |x| ∧ 0 ≤ ndF x / (|x| * (x * x + 3)) ∧ ndF x / (|x| * (x * x + 3)) ≤ 1 / 40 := by
  have hb : 232 / 100 < |x| := by
    split_ifs at h <;> linarith [not_le.mp h]
  have hxx : x * x = |x| * |x| := (abs_mul_abs_self x).symm
  have h5 : 5 ≤ x * x := by rw [hxx]; nlinarith
  have hf := ndF_pos x
  refine ⟨h5, by linarith, by positivity, ?_⟩
  rw [div_le_div_iff₀ (by positivity) (by norm_num)]
  have : 16 ≤ |x| * (x * x + 3) := by nlinarith
  nlinarith [ndF_le x]

/-- **termination of the continued-fraction loop**: for `x < −2.32` or `x > 3.5` the loop test fails after at most
    10⁵ passes; every fuel ≥ 10⁵ gives the same `NormalDistribution(x)` -/
theorem nd_cf_stable {x : ℝ} (h : ¬ |x| ≤ (if x ≤ 0 then 232 / 100 else 35 / 10)) (fuel : ℕ)
    (hfu : 100000 ≤ fuel) : normalDistribution fuel x = normalDistribution 100000 x := by
  have hx0 : x ≠ 0 := by
    intro e; rw [e] at h; simp at h; norm_num at h
  obtain ⟨h5, hb, he0, he1⟩ := cf_region h
  rw [nd_unfold fuel hx0, nd_unfold 100000 hx0]
  unfold ndSpec
  rw [if_neg h, if_neg h]
  have := cfLoop_stable (cfInit_inv (decide (x ≤ 0)) (by linarith) (ndF_pos x) hb) h5 he0 he1 fuel hfu
  simp only [this]

/-- after at least one pass the final test `if (s - D)` sees a non-zero difference: the special exit
    `D = 0 / D = 1` behind it is dead over ℝ -/
theorem cf_final_ne {typv : Bool} {x2 e0 : ℝ} {k : ℕ} {c : CF ℝ} (h : CFInv typv x2 e0 k c) (hx : 5 ≤ x2)
    (he : 0 ≤ e0) : (cfStep typv c).s - (cfStep typv c).D ≠ 0 := by
  have h' := h.step hx he
  obtain ⟨m, hm, e⟩ := cfStep_spec typv c
  have hs : (cfStep typv c).s = c.r := by rw [e]
  have hr : (cfStep typv c).r = c.D := by rw [e]
  have c1 := h.convergents hx
  have c2 := h'.convergents hx
  have hinj : (cfStep typv c).p1 / (cfStep typv c).q1 = c.p2 / c.q2 := by
    have := h'.hr; rw [hr, h.hD] at this
    unfold tl at this; cases typv <;> simp at this <;> linarith
  rw [hs, h.hr, h'.hD]
  unfold tl
  cases typv <;> simp <;> intro hh <;> linarith

/-- the value returned in the continued-fraction region with fuel ≥ 1: `D` of an iterate that satisfies the
    invariant -/
theorem nd_cf_value {x : ℝ} (h : ¬ |x| ≤ (if x ≤ 0 then 232 / 100 else 35 / 10)) (fuel : ℕ) (hfu : 1 ≤ fuel) :
    ∃ (k : ℕ) (c : CF ℝ), CFInv (decide (x ≤ 0)) (x * x) (ndF x / (|x| * (x * x + 3))) (k + 1) c ∧
      normalDistribution fuel x = (c.D, ndF x) := by
  have hx0 : x ≠ 0 := by
    intro e; rw [e] at h; simp at h; norm_num at h
  obtain ⟨h5, hb, he0, he1⟩ := cf_region h
  have hinit := cfInit_inv (decide (x ≤ 0)) (by linarith : 0 ≤ x * x) (ndF_pos x) hb
  obtain ⟨k, _, hk0, ek⟩ := cfLoop_is_iterate (decide (x ≤ 0)) fuel (cfInit (decide (x ≤ 0)) (x * x) (ndF x) |x|)
  obtain ⟨j, rfl⟩ : ∃ j, k = j + 1 := ⟨k - 1, by have := hk0 (by omega); omega⟩
  refine ⟨j, _, hinit.iterate h5 he0 (j + 1), ?_⟩
  rw [nd_unfold fuel hx0]
  unfold ndSpec
  rw [if_neg h]
  simp only [ek]
  have hne : ((cfStep (decide (x ≤ 0)))^[j + 1] (cfInit (decide (x ≤ 0)) (x * x) (ndF x) |x|)).s -
      ((cfStep (decide (x ≤ 0)))^[j + 1] (cfInit (decide (x ≤ 0)) (x * x) (ndF x) |x|)).D ≠ 0 := by
    rw [Function.iterate_succ_apply']
    exact cf_final_ne (hinit.iterate h5 he0 j) h5 he0
  rw [if_neg hne]

theorem cfStep_p1q1 (typv : Bool) (c : CF ℝ) :
    (cfStep typv c).p1 / (cfStep typv c).q1 = c.p2 / c.q2 := by
  obtain ⟨m, hm, e⟩ := cfStep_spec typv c
  rw [e]; exact mul_div_mul_right _ _ hm.ne'

/-- all convergents stay below the first one -/
theorem cf_upper {typv : Bool} {x2 e0 : ℝ} {c : CF ℝ} (h : CFInv typv x2 e0 0 c) (hx : 5 ≤ x2) (he : 0 ≤ e0)
    (k : ℕ) : ((cfStep typv)^[k] c).p1 / ((cfStep typv)^[k] c).q1 ≤ c.p1 / c.q1 := by
  induction k with
  | zero => exact le_rfl
  | succ n ih =>
    rw [Function.iterate_succ_apply', cfStep_p1q1]
    exact ((h.iterate hx he n).convergents hx).2.le.trans ih

/-- **range in the continued-fraction region** (fuel ≥ 1): the lower tail is computed directly for `x < −2.32`,
    `0 < D < φ(x)/|x|`; for `x > 3.5` the code returns `1 −` (upper tail), `1 − φ(x)/x < D < 1` -/
theorem nd_cf_range {x : ℝ} (h : ¬ |x| ≤ (if x ≤ 0 then 232 / 100 else 35 / 10)) (fuel : ℕ) (hfu : 1 ≤ fuel) :
    (x ≤ 0 → 0 < (normalDistribution fuel x).1 ∧ (normalDistribution fuel x).1 < ndF x / |x|) ∧
    (0 < x → 1 - ndF x / |x| < (normalDistribution fuel x).1 ∧ (normalDistribution fuel x).1 < 1) := by
  have hx0 : x ≠ 0 := by
    intro e; rw [e] at h; simp at h; norm_num at h
  obtain ⟨h5, hb, he0, he1⟩ := cf_region h
  have hinit := cfInit_inv (decide (x ≤ 0)) (by linarith : 0 ≤ x * x) (ndF_pos x) hb
  obtain ⟨k, _, hk0, ek⟩ := cfLoop_is_iterate (decide (x ≤ 0)) fuel (cfInit (decide (x ≤ 0)) (x * x) (ndF x) |x|)
  obtain ⟨j, rfl⟩ : ∃ j, k = j + 1 := ⟨k - 1, by have := hk0 (by omega); omega⟩
  have hinv := hinit.iterate h5 he0 (j + 1)
  have hval : (normalDistribution fuel x).1
      = ((cfStep (decide (x ≤ 0)))^[j + 1] (cfInit (decide (x ≤ 0)) (x * x) (ndF x) |x|)).D := by
    rw [nd_unfold fuel hx0]
    unfold ndSpec
    rw [if_neg h]
    simp only [ek]
    have hne : ((cfStep (decide (x ≤ 0)))^[j + 1] (cfInit (decide (x ≤ 0)) (x * x) (ndF x) |x|)).s -
        ((cfStep (decide (x ≤ 0)))^[j + 1] (cfInit (decide (x ≤ 0)) (x * x) (ndF x) |x|)).D ≠ 0 := by
      rw [Function.iterate_succ_apply']
      exact cf_final_ne (hinit.iterate h5 he0 j) h5 he0
    rw [if_neg hne]
  have hc := hinv.convergents h5
  have hup := cf_upper hinit h5 he0 (j + 1)
  have hfirst : (cfInit (decide (x ≤ 0)) (x * x) (ndF x) |x|).p1 / (cfInit (decide (x ≤ 0)) (x * x) (ndF x) |x|).q1
      = ndF x / |x| := rfl
  rw [hfirst] at hup
  have key : ∃ v, 0 < v ∧ v < ndF x / |x| ∧ (normalDistribution fuel x).1 = tl (decide (x ≤ 0)) v :=
    ⟨_, hc.1, lt_of_lt_of_le hc.2 hup, by rw [hval, hinv.hD]⟩
  obtain ⟨v, hv0, hv1, hv⟩ := key
  rw [hv]
  constructor
  · intro hle
    simp only [hle, decide_true, tl, Bool.not_true, Bool.false_eq_true, if_false]
    exact ⟨hv0, hv1⟩
  · intro hgt
    have hle : ¬ x ≤ 0 := not_le.mpr hgt
    simp only [hle, decide_false, tl, Bool.not_false, if_true]
    constructor <;> linarith

/-! ### complement: `NormalDistribution(−x)` against `1 − NormalDistribution(x)` -/

/-- mirrored loop states: the `typv` run stores the tail `v`, the `!typv` run stores `1 − v` -/
def CFMir (c c' : CF ℝ) : Prop :=
  c'.t = c.t ∧ c'.a1 = c.a1 ∧ c'.a2 = c.a2 ∧ c'.p1 = c.p1 ∧ c'.q1 = c.q1 ∧ c'.p2 = c.p2 ∧ c'.q2 = c.q2 ∧
    c'.r = 1 - c.r ∧ c'.D = 1 - c.D

theorem cfStep_mir {c c' : CF ℝ} (h : CFMir c c') :
    CFMir (cfStep true c) (cfStep false c') ∧ (cfStep false c').s = 1 - (cfStep true c).s := by
  obtain ⟨ht, ha1, ha2, hp1, hq1, hp2, hq2, hr, hD⟩ := h
  unfold CFMir cfStep
  simp [ht, ha1, ha2, hp1, hq1, hp2, hq2, hr, hD]

theorem cfLoop_mir (n : ℕ) {c c' : CF ℝ} (h : CFMir c c') :
    CFMir (cfLoop true (n + 1) c) (cfLoop false (n + 1) c') ∧
      (cfLoop false (n + 1) c').s = 1 - (cfLoop true (n + 1) c).s := by
  induction n generalizing c c' with
  | zero =>
    have hs := cfStep_mir h
    unfold cfLoop cfLoop
    simp only [cfContinue_real, ite_self]
    exact hs
  | succ m ih =>
    have hs := cfStep_mir h
    have htest : |(cfStep false c').r - (cfStep false c').D| = |(cfStep true c).r - (cfStep true c).D| := by
      rw [hs.1.2.2.2.2.2.2.2.1, hs.1.2.2.2.2.2.2.2.2]
      rw [show 1 - (cfStep true c).r - (1 - (cfStep true c).D) = -((cfStep true c).r - (cfStep true c).D) by ring,
        abs_neg]
    rw [show cfLoop true (m + 1 + 1) c = (if StatanGen.cfContinue dblEps (cfStep true c).r (cfStep true c).D = true
          then cfLoop true (m + 1) (cfStep true c) else cfStep true c) from rfl,
        show cfLoop false (m + 1 + 1) c' = (if StatanGen.cfContinue dblEps (cfStep false c').r (cfStep false c').D = true
          then cfLoop false (m + 1) (cfStep false c') else cfStep false c') from rfl]
    simp only [cfContinue_real, htest]
    split_ifs
    · exact ih hs.1
    · exact hs

/-- **complement as coded**: the density is even; `D(−x) = 1 − D(x)` exactly where both signs take the same
    branch — power series on both sides (`|x| ≤ 2.32`, any fuel) or continued fraction on both sides
    (`|x| > 3.5`, fuel ≥ 1).  For `2.32 < |x| ≤ 3.5` the negative argument runs the continued fraction and the
    positive one the series: there the identity holds only up to the truncation errors (oracle). -/
theorem nd_complement (fuel : ℕ) {x : ℝ} (hx : 0 < x) (h : x ≤ 232 / 100 ∨ (35 / 10 < x ∧ 1 ≤ fuel)) :
    (normalDistribution fuel (-x)).1 = 1 - (normalDistribution fuel x).1 ∧
    (normalDistribution fuel (-x)).2 = (normalDistribution fuel x).2 := by
  have hx0 : x ≠ 0 := hx.ne'
  have hnx0 : -x ≠ 0 := by linarith [neg_neg_of_pos hx |>.ne]
  have hF : ndF (-x) = ndF x := by unfold ndF; rw [neg_mul_neg]
  have hle : ¬ x ≤ 0 := not_le.mpr hx
  have hnle : -x ≤ 0 := by linarith
  rw [nd_unfold fuel hx0, nd_unfold fuel hnx0]
  unfold ndSpec
  simp only [hF, abs_neg, neg_mul_neg, hle, hnle, if_true, if_false, abs_of_pos hx, decide_true, decide_false]
  rcases h with h | ⟨h, hfu⟩
  · rw [if_pos h, if_pos (show x ≤ 35 / 10 by linarith)]
    exact ⟨by ring, rfl⟩
  · rw [if_neg (show ¬ x ≤ 232 / 100 by linarith), if_neg (show ¬ x ≤ 35 / 10 by linarith)]
    obtain ⟨n, rfl⟩ : ∃ n, fuel = n + 1 := ⟨fuel - 1, by omega⟩
    have hm : CFMir (cfInit true (x * x) (ndF x) x) (cfInit false (x * x) (ndF x) x) := by
      unfold cfInit tl
      exact ⟨rfl, rfl, rfl, rfl, rfl, rfl, rfl, by simp, by simp⟩
    obtain ⟨hmir, hs⟩ := cfLoop_mir n hm
    have hD := hmir.2.2.2.2.2.2.2.2
    refine ⟨?_, rfl⟩
    simp only []
    rw [hs, hD]
    by_cases hz : (cfLoop true (n + 1) (cfInit true (x * x) (ndF x) x)).s -
        (cfLoop true (n + 1) (cfInit true (x * x) (ndF x) x)).D = 0
    · rw [if_pos hz, if_pos (by linarith)]; ring
    · rw [if_neg hz, if_neg (by intro h'; apply hz; linarith)]; ring

/-! ### the power series -/

/-- sum of the next `n` terms of the series from the state `(y, r)` -/
noncomputable def serSum (x2 : ℝ) : ℕ → ℝ → ℝ → ℝ
  | 0, _, _ => 0
  | n+1, y, r => y * (x2 / r) + serSum x2 n (y * (x2 / r)) (r + 2)

/-- the term `y` after `n` passes -/
noncomputable def serY (x2 : ℝ) : ℕ → ℝ → ℝ → ℝ
  | 0, y, _ => y
  | n+1, y, r => serY x2 n (y * (x2 / r)) (r + 2)

theorem serY_pos {x2 : ℝ} (hx : 0 < x2) (n : ℕ) {y r : ℝ} (hy : 0 < y) (hr : 0 < r) : 0 < serY x2 n y r := by
  induction n generalizing y r with
  | zero => exact hy
  | succ m ih => exact ih (by positivity) (by linarith)

theorem serSum_nonneg {x2 : ℝ} (hx : 0 < x2) (n : ℕ) {y r : ℝ} (hy : 0 < y) (hr : 0 < r) :
    0 ≤ serSum x2 n y r := by
  induction n generalizing y r with
  | zero => exact le_rfl
  | succ m ih =>
    have := ih (y := y * (x2 / r)) (r := r + 2) (by positivity) (by linarith)
    have : 0 < y * (x2 / r) := by positivity
    show 0 ≤ y * (x2 / r) + serSum x2 m (y * (x2 / r)) (r + 2)
    linarith

/-- **the exit test of the series loop never fires over ℝ** (`x ≠ 0`): every term is positive, so `D − s ≤ 0` is
    false in every pass and the model with fuel `n` returns the partial sum with `n` more terms.  The C++ loop
    ends only because `D += y` stops changing `D` in floating point. -/
theorem seriesLoop_eq_sum {x2 : ℝ} (hx : 0 < x2) (n : ℕ) {y r : ℝ} (D : ℝ) (hy : 0 < y) (hr : 0 < r) :
    seriesLoop x2 n y D D r = D + serSum x2 n y r := by
  induction n generalizing y r D with
  | zero => simp [seriesLoop, serSum]
  | succ m ih =>
    have hpos : 0 < y * (x2 / r) := by positivity
    unfold seriesLoop serSum
    have : ¬ (StatanGen.seriesStop (D + y * (x2 / r)) D = true) := by
      rw [seriesStop_real]; linarith
    simp only [this, if_false, scalar_ofNat_real, Nat.cast_ofNat, Bool.false_eq_true]
    rw [ih (D + y * (x2 / r)) hpos (by linarith)]
    ring

theorem serSum_split (x2 : ℝ) (n m : ℕ) (y r : ℝ) :
    serSum x2 (n + m) y r = serSum x2 n y r + serSum x2 m (serY x2 n y r) (r + 2 * n) := by
  induction n generalizing y r with
  | zero => simp [serSum, serY]
  | succ k ih =>
    rw [show k + 1 + m = (k + m) + 1 by omega]
    show y * (x2 / r) + serSum x2 (k + m) (y * (x2 / r)) (r + 2) = y * (x2 / r) + serSum x2 k (y * (x2 / r)) (r + 2)
      + serSum x2 m (serY x2 k (y * (x2 / r)) (r + 2)) (r + 2 * ((k + 1 : ℕ) : ℝ))
    rw [ih]; push_cast
    rw [show r + 2 + 2 * (k : ℝ) = r + 2 * ((k : ℝ) + 1) by ring]; ring

/-- geometric tail bound: once `x2 < r` (ratio `x2/r < 1`) everything still to come is at most `y·x2/(r − x2)` -/
theorem serSum_le {x2 : ℝ} (hx : 0 < x2) (n : ℕ) {y r : ℝ} (hy : 0 < y) (hr : x2 < r) :
    serSum x2 n y r ≤ y * x2 / (r - x2) := by
  induction n generalizing y r with
  | zero => show (0 : ℝ) ≤ _; have : 0 < r - x2 := by linarith
            positivity
  | succ m ih =>
    have hr0 : 0 < r := by linarith
    have hd : 0 < r - x2 := by linarith
    have hd2 : 0 < r + 2 - x2 := by linarith
    have hy' : 0 < y * (x2 / r) := by positivity
    have h1 := ih hy' (show x2 < r + 2 by linarith)
    have h2 : y * (x2 / r) * x2 / (r + 2 - x2) ≤ y * (x2 / r) * x2 / (r - x2) := by
      apply div_le_div_of_nonneg_left (by positivity) hd (by linarith)
    have h3 : y * (x2 / r) + y * (x2 / r) * x2 / (r - x2) = y * x2 / (r - x2) := by
      field_simp; ring
    show y * (x2 / r) + serSum x2 m (y * (x2 / r)) (r + 2) ≤ _
    linarith

/-- **truncation of the series**: with `2n + 3 > x²` the value with `n + m` passes exceeds the value with `n`
    passes by at most `yₙ · x² / (2n + 3 − x²)`, `yₙ = y₀ · ∏_{j<n} x²/(2j+3)` the last term added -/
theorem series_truncation {x2 : ℝ} (hx : 0 < x2) (n m : ℕ) {y : ℝ} (hy : 0 < y) (hn : x2 < 2 * n + 3) :
    0 ≤ seriesLoop x2 (n + m) y y y 3 - seriesLoop x2 n y y y 3 ∧
    seriesLoop x2 (n + m) y y y 3 - seriesLoop x2 n y y y 3 ≤ serY x2 n y 3 * x2 / (2 * n + 3 - x2) := by
  rw [seriesLoop_eq_sum hx _ y hy (by norm_num), seriesLoop_eq_sum hx _ y hy (by norm_num), serSum_split]
  have hyn := serY_pos hx n hy (show (0 : ℝ) < 3 by norm_num)
  have h0 := serSum_nonneg hx m hyn (show (0 : ℝ) < 3 + 2 * n by positivity)
  have h1 := serSum_le hx m hyn (show x2 < 3 + 2 * (n : ℝ) by linarith)
  rw [show (3 : ℝ) + 2 * n - x2 = 2 * n + 3 - x2 by ring] at h1
  constructor <;> linarith

/-- the terms decrease geometrically from the first pass with `2n + 3 > x²` on -/
theorem serY_succ (x2 : ℝ) (n : ℕ) (y r : ℝ) : serY x2 (n + 1) y r = serY x2 n y r * (x2 / (r + 2 * n)) := by
  induction n generalizing y r with
  | zero => simp [serY]
  | succ k ih =>
    show serY x2 (k + 1) (y * (x2 / r)) (r + 2) = serY x2 k (y * (x2 / r)) (r + 2) * (x2 / (r + 2 * ((k + 1 : ℕ) : ℝ)))
    rw [ih]; push_cast
    rw [show r + 2 + 2 * (k : ℝ) = r + 2 * ((k : ℝ) + 1) by ring]

/-- the partial sums have a limit `L` (their supremum) and the truncation bound holds against it -/
theorem series_limit {x2 : ℝ} (hx : 0 < x2) {y : ℝ} (hy : 0 < y) :
    ∃ L : ℝ, ∀ n : ℕ, x2 < 2 * n + 3 →
      seriesLoop x2 n y y y 3 ≤ L ∧ L ≤ seriesLoop x2 n y y y 3 + serY x2 n y 3 * x2 / (2 * n + 3 - x2) := by
  obtain ⟨n0, hn0⟩ : ∃ n0 : ℕ, x2 < 2 * n0 + 3 := by
    obtain ⟨k, hk⟩ := exists_nat_gt x2
    exact ⟨k, by linarith [show (0 : ℝ) ≤ k from Nat.cast_nonneg k]⟩
  have mono : ∀ a b : ℕ, a ≤ b → seriesLoop x2 a y y y 3 ≤ seriesLoop x2 b y y y 3 := by
    intro a b hab
    obtain ⟨m, rfl⟩ := Nat.exists_eq_add_of_le hab
    have := seriesLoop_eq_sum hx a y hy (show (0 : ℝ) < 3 by norm_num)
    rw [seriesLoop_eq_sum hx _ y hy (by norm_num), seriesLoop_eq_sum hx _ y hy (by norm_num), serSum_split]
    have := serSum_nonneg hx m (serY_pos hx a hy (show (0 : ℝ) < 3 by norm_num))
      (show (0 : ℝ) < 3 + 2 * a by positivity)
    linarith
  have bdd : BddAbove (Set.range fun n : ℕ => seriesLoop x2 n y y y 3) := by
    refine ⟨seriesLoop x2 n0 y y y 3 + serY x2 n0 y 3 * x2 / (2 * n0 + 3 - x2), ?_⟩
    rintro _ ⟨n, rfl⟩
    rcases le_total n n0 with h | h
    · have := mono n n0 h
      have : 0 ≤ serY x2 n0 y 3 * x2 / (2 * n0 + 3 - x2) := by
        have := serY_pos hx n0 hy (show (0 : ℝ) < 3 by norm_num)
        have : 0 < 2 * (n0 : ℝ) + 3 - x2 := by linarith
        positivity
      show seriesLoop x2 n y y y 3 ≤ _
      linarith
    · obtain ⟨m, rfl⟩ := Nat.exists_eq_add_of_le h
      have := (series_truncation hx n0 m hy hn0).2
      show seriesLoop x2 (n0 + m) y y y 3 ≤ _
      linarith
  refine ⟨⨆ n : ℕ, seriesLoop x2 n y y y 3, fun n hn => ⟨le_ciSup bdd n, ?_⟩⟩
  apply ciSup_le
  intro k
  rcases le_total k n with h | h
  · have := mono k n h
    have : 0 ≤ serY x2 n y 3 * x2 / (2 * n + 3 - x2) := by
      have := serY_pos hx n hy (show (0 : ℝ) < 3 by norm_num)
      have : 0 < 2 * (n : ℝ) + 3 - x2 := by linarith
      positivity
    linarith
  · obtain ⟨m, rfl⟩ := Nat.exists_eq_add_of_le h
    have := (series_truncation hx n m hy hn).2
    linarith

/-! ### `KSprob`: the fuel written in the model (100, 101) is never exhausted before the syntactic bounds -/

theorem ksLoop1_fuel (pi2 xx8 eps : ℝ) (m : ℕ) (fuel fuel' : ℕ) (h : m ≤ fuel) (h' : m ≤ fuel') (sum : ℝ) :
    ksLoop1 pi2 xx8 eps fuel (100 - m) sum = ksLoop1 pi2 xx8 eps fuel' (100 - m) sum := by
  induction m generalizing fuel fuel' sum with
  | zero =>
    have hn : ¬ ((100 : ℝ) - ((0 : ℕ) : ℝ) < (100 : ℕ)) := by norm_num
    cases fuel <;> cases fuel' <;> simp [ksLoop1, hn]
  | succ k ih =>
    obtain ⟨n, rfl⟩ : ∃ n, fuel = n + 1 := ⟨fuel - 1, by omega⟩
    obtain ⟨n', rfl⟩ : ∃ n, fuel' = n + 1 := ⟨fuel' - 1, by omega⟩
    unfold ksLoop1
    have e : (100 : ℝ) - ((k + 1 : ℕ) : ℝ) + 1 = 100 - (k : ℝ) := by push_cast; ring
    simp only [e]
    split_ifs
    · rfl
    · exact ih n n' (by omega) (by omega) _
    · rfl

theorem ksLoop2_fuel (x2 eps : ℝ) (m : ℕ) (fuel fuel' : ℕ) (h : m + 1 ≤ fuel) (h' : m + 1 ≤ fuel') (s sum : ℝ) :
    ksLoop2 x2 eps fuel (100 - m) s sum = ksLoop2 x2 eps fuel' (100 - m) s sum := by
  induction m generalizing fuel fuel' s sum with
  | zero =>
    obtain ⟨n, rfl⟩ : ∃ n, fuel = n + 1 := ⟨fuel - 1, by omega⟩
    obtain ⟨n', rfl⟩ : ∃ n, fuel' = n + 1 := ⟨fuel' - 1, by omega⟩
    unfold ksLoop2
    have : ¬ (StatanGen.ksContinue2 eps (Transc.exp (x2 * (100 - ((0 : ℕ) : ℝ)) * (100 - ((0 : ℕ) : ℝ))))
        (100 - ((0 : ℕ) : ℝ) + 1) = true) := by
      simp [StatanGen.ksContinue2]
    simp only [this, if_false, Bool.false_eq_true]
  | succ k ih =>
    obtain ⟨n, rfl⟩ : ∃ n, fuel = n + 1 := ⟨fuel - 1, by omega⟩
    obtain ⟨n', rfl⟩ : ∃ n, fuel' = n + 1 := ⟨fuel' - 1, by omega⟩
    unfold ksLoop2
    have e : (100 : ℝ) - ((k + 1 : ℕ) : ℝ) + 1 = 100 - (k : ℝ) := by push_cast; ring
    simp only [e]
    split_ifs
    · exact ih n n' (by omega) (by omega) _ _
    · rfl

end Gama.Statan
