/-
  C04 round 6 — the chol / gso / svd solver models (`Gama.Ls.cholSolve`, `gsoSolve`, `svdSolve`) and the
  regularisation list: the analogue of `envSolve_reg`, `core_indep`, `core_regular` (Lemmas/EnvStateFacts.lean).

    `X_solve_reg`     `XSolve { p with reg := r }` decomposes `p` independently of `r`;
    `X_indep`         whenever the solve succeeds for `r` and for `r'`: the fields that do not depend on the
                      regularisation are the same (chol: r, rtr, defect, q_bb, lindep, cond; gso: r, rtr, defect,
                      lindep, cond — `q_bb` not proved, see `gso_indep_partial`; svd: defect, q_bb, lindep, cond —
                      `AdjSVD` computes `r = A x − b` from the REGULARISED `x`, so `r`, `rtr` depend on the list);
    `X_regular`       defect 0 ⇒ the WHOLE answer record is the same for every regularisation
                      (chol: for every list inside `1..n`; the model answers `NotModelled` otherwise whatever the
                      defect: `chol_out_of_range`);
    `X_all`           `min_x()` (`.all`) and `min_x(n, 1..n)` (`.subset (allList n)`) are the same configuration.

  Statements over `[Scalar K]`, as the models.  Core Lean only.
-/
import Gama.Model.FullDenote
import Gama.Lemmas.GsoTops
namespace Gama.C04.Full
open Gama Gama.Ls Gama.C04

variable {K : Type} [Scalar K]

/-! ### `AdjCholDec` -/

/-- `Chol.solve` after the list has been read: everything but `S` is computed from `(A, b)` -/
def cholCore (p : Problem K) (S : List Nat) : Except ErrKind (Chol.Solved K) :=
  let m := p.m
  let n := p.n
  let A := p.dense
  let b := p.rhs
  let f := Chol.factor n n 0 (Dn.pmk n id) (Chol.normalMat m n A)
  let N0 := n - f.nullity
  let x0 := Chol.solveX0 n N0 f.perm f.mat (Chol.normalRhs m n A b)
  let r := Chol.residuals m N0 f.perm A b x0
  let Q0 := Chol.q0Mat n N0 f.perm f.mat
  let invp := Chol.invPerm n f.perm
  if f.nullity = 0 then
    .ok ⟨m, n, A, f.perm, invp, f.mat, 0, N0, x0, Q0, r, S, #[], x0⟩
  else
    let G0 := Chol.gInit n N0 f.nullity f.perm f.mat x0
    match Chol.gsLoop n f.nullity S f.nullity 0 (Dn.pmk (f.nullity + 1) id) G0 with
    | .error e => .error e
    | .ok G => .ok ⟨m, n, A, f.perm, invp, f.mat, f.nullity, N0, x0, Q0, r, S, G, G.getD f.nullity #[]⟩

theorem chol_solve_reg (p : Problem K) (r : Reg) :
    Chol.solve { p with reg := r }
      = match Chol.regList p.n r with
        | none => .error .NotModelled
        | some S => cholCore p S := rfl

theorem cholSolve_some (p : Problem K) (r : Reg) (S : List Nat) (h : Chol.regList p.n r = some S) :
    Ls.cholSolve { p with reg := r } = (cholCore p S).map Chol.Solved.answer := by
  show (Chol.solve { p with reg := r }).map Chol.Solved.answer = _
  rw [chol_solve_reg, h]

theorem cholSolve_none (p : Problem K) (r : Reg) (h : Chol.regList p.n r = none) :
    Ls.cholSolve { p with reg := r } = .error .NotModelled := by
  show (Chol.solve { p with reg := r }).map Chol.Solved.answer = _
  rw [chol_solve_reg, h]
  rfl

/-- the model does not cover a list with an index outside `1..n` — whatever the defect (the C++ reads the list
    only when the system is singular).  This is why `chol_regular` asks for lists inside the range. -/
theorem chol_out_of_range (p : Problem K) (r : Reg) (h : Chol.regList p.n r = none) :
    Ls.cholSolve { p with reg := r } = .error .NotModelled := cholSolve_none p r h

theorem cholCore_indep (p : Problem K) (S S' : List Nat) (s s' : Chol.Solved K)
    (h : cholCore p S = .ok s) (h' : cholCore p S' = .ok s') :
    s.answer.r = s'.answer.r ∧ s.answer.rtr = s'.answer.rtr ∧ s.answer.defect = s'.answer.defect
    ∧ s.answer.qbb = s'.answer.qbb ∧ s.answer.lindep = s'.answer.lindep ∧ s.answer.cond = s'.answer.cond := by
  unfold cholCore at h h'
  simp only at h h'
  split at h
  · rename_i hn
    rw [if_pos hn] at h'
    injection h with h; injection h' with h'
    subst h; subst h'
    exact ⟨rfl, rfl, rfl, rfl, rfl, rfl⟩
  · rename_i hn
    rw [if_neg hn] at h'
    split at h
    · exact absurd h (by simp)
    · split at h'
      · exact absurd h' (by simp)
      · injection h with h; injection h' with h'
        subst h; subst h'
        exact ⟨rfl, rfl, rfl, rfl, rfl, rfl⟩

theorem cholCore_regular (p : Problem K) (S S' : List Nat) (s : Chol.Solved K)
    (h : cholCore p S = .ok s) (hd : s.nullity = 0) :
    ∃ s', cholCore p S' = .ok s' ∧ s'.answer = s.answer := by
  unfold cholCore at h ⊢
  simp only at h ⊢
  split at h
  · rename_i hn
    rw [if_pos hn]
    injection h with h
    subst h
    refine ⟨_, rfl, ?_⟩
    simp [Chol.Solved.answer, Chol.Solved.qxx0, Chol.Solved.qbx0, Chol.Solved.qbb0, Chol.Solved.aq,
      Chol.Solved.lindep0, Chol.Solved.idx, Chol.Solved.obs]
  · rename_i hn
    split at h
    · exact absurd h (by simp)
    · injection h with h
      subst h
      exact absurd hd hn

/-- **chol, any defect**: whenever the solve succeeds for `r` and for `r'`, the residuals, `[pvv]`, the defect,
    `q_bb`, `lindep` and `cond` are the same -/
theorem chol_indep (p : Problem K) (r r' : Reg) (a a' : Answer K)
    (h : Ls.cholSolve { p with reg := r } = .ok a) (h' : Ls.cholSolve { p with reg := r' } = .ok a') :
    a.r = a'.r ∧ a.rtr = a'.rtr ∧ a.defect = a'.defect ∧ a.qbb = a'.qbb ∧ a.lindep = a'.lindep ∧ a.cond = a'.cond := by
  cases hS : Chol.regList p.n r with
  | none => rw [cholSolve_none p r hS] at h; exact absurd h (by simp)
  | some S =>
    cases hS' : Chol.regList p.n r' with
    | none => rw [cholSolve_none p r' hS'] at h'; exact absurd h' (by simp)
    | some S' =>
      rw [cholSolve_some p r S hS] at h; rw [cholSolve_some p r' S' hS'] at h'
      cases hc : cholCore p S with
      | error e => rw [hc] at h; exact absurd h (by simp [Except.map])
      | ok s =>
        cases hc' : cholCore p S' with
        | error e => rw [hc'] at h'; exact absurd h' (by simp [Except.map])
        | ok s' =>
          rw [hc] at h; rw [hc'] at h'
          simp only [Except.map] at h h'
          injection h with h; injection h' with h'
          subst h; subst h'
          exact cholCore_indep p S S' s s' hc hc'

/-- **chol, defect 0**: the whole answer record is the same for every regularisation list inside `1..n` -/
theorem chol_regular (p : Problem K) (r r' : Reg) (a : Answer K)
    (h : Ls.cholSolve { p with reg := r } = .ok a) (hd : a.defect = 0) (hr : Chol.regList p.n r' ≠ none) :
    Ls.cholSolve { p with reg := r' } = .ok a := by
  cases hS : Chol.regList p.n r with
  | none => rw [cholSolve_none p r hS] at h; exact absurd h (by simp)
  | some S =>
    cases hS' : Chol.regList p.n r' with
    | none => exact absurd hS' hr
    | some S' =>
      rw [cholSolve_some p r S hS] at h
      rw [cholSolve_some p r' S' hS']
      cases hc : cholCore p S with
      | error e => rw [hc] at h; exact absurd h (by simp [Except.map])
      | ok s =>
        rw [hc] at h
        simp only [Except.map] at h
        injection h with h
        subst h
        obtain ⟨s', hs', he⟩ := cholCore_regular p S S' s hc hd
        simp only [hs', Except.map, he]

theorem chol_regList_allList (n : Nat) : Chol.regList n (.subset (allList n)) = Chol.regList n .all := by
  have h1 : (allList n).all (fun i => decide (1 ≤ i ∧ i ≤ n)) = true := by
    simp only [allList, List.all_eq_true, List.mem_map, List.mem_range, decide_eq_true_eq]
    rintro i ⟨j, hj, rfl⟩
    omega
  have h2 : (allList n).map (· - 1) = List.range n := by
    simp [allList, List.map_map, Function.comp_def]
  simp only [Chol.regList, h1, if_true, h2]

/-- `min_x()` and `min_x(n, 1..n)` are the same configuration for chol -/
theorem chol_all (p : Problem K) :
    Ls.cholSolve { p with reg := .subset (allList p.n) } = Ls.cholSolve { p with reg := .all } := by
  cases h : Chol.regList p.n .all with
  | none => rw [cholSolve_none p _ h, cholSolve_none p _ ((chol_regList_allList p.n).trans h)]
  | some S => rw [cholSolve_some p _ S h, cholSolve_some p _ S ((chol_regList_allList p.n).trans h)]

/-! ### `AdjGSO` -/

/-- the ICGS object after `icgs1()`: independent of the list -/
def gsoPhase1 (p : Problem K) : Gso.R1 K :=
  Gso.icgs1 (Gso.tolerance : K)
    (Gso.augmented p.m p.n (Gso.entry p.dense) (fun i => p.rhs.getD i 0)).1
    (Gso.augmented p.m p.n (Gso.entry p.dense) (fun i => p.rhs.getD i 0)).2

theorem gso_runOf_reg (p : Problem K) (r : Reg) :
    Gso.runOf { p with reg := r } = Gso.icgs2 (Gso.tolerance : K) (Gso.maskOf p.n r) (gsoPhase1 p) := rfl

theorem icgs2_dep (tol : K) (mask : List Bool) (r : Gso.R1 K) : (Gso.icgs2 tol mask r).dep = r.dep := by
  unfold Gso.icgs2
  split <;> rfl

theorem icgs2_rhs_top (tol : K) (mask : List Bool) (r : Gso.R1 K) : (Gso.icgs2 tol mask r).rhs.top = r.rhs.top := by
  unfold Gso.icgs2
  split <;> rfl

/-- no dependent column: `icgs2()` returns at once (`if (defect() == 0) return;`) -/
theorem icgs2_regular (tol : K) (mask mask' : List Bool) (r : Gso.R1 K) (h : r.dep = []) :
    Gso.icgs2 tol mask r = Gso.icgs2 tol mask' r := by
  unfold Gso.icgs2
  simp [h]

/-- what `gsoSolve` returns from the ICGS object `R` -/
def gsoPack (p : Problem K) (R : Gso.R2 K) : Answer K :=
  let q (lo hi : Nat) (f g : Nat → Gso.Col K → K) (i j : Nat) : Except ErrKind K :=
    if 1 ≤ i ∧ i ≤ lo ∧ 1 ≤ j ∧ j ≤ hi then .ok (Gso.rowdot R.cols (f (i - 1)) (g (j - 1)))
    else .error .NotModelled
  let t (i : Nat) (c : Gso.Col K) : K := c.top.getD i 0
  let u (i : Nat) (c : Gso.Col K) : K := c.bot.getD i 0
  { x := R.rhs.bot.toArray
    r := R.rhs.top.toArray
    rtr := Gso.dot R.rhs.top R.rhs.top
    defect := R.dep.length
    qxx := q p.n p.n u u
    q0xx := q p.n p.n u u
    qbb := q p.m p.m t t
    qbx := q p.m p.n t u
    lindep := fun i => .ok (R.dep.contains i)
    cond := .ok 0 }

theorem gsoSolve_reg (p : Problem K) (r : Reg) :
    Ls.gsoSolve { p with reg := r }
      = (let R := Gso.icgs2 (Gso.tolerance : K) (Gso.maskOf p.n r) (gsoPhase1 p)
         if !R.dep.isEmpty && !Gso.regInRange p.n r then .error .NotModelled
         else if true && R.err != 0 then .error .BadRegularization
         else .ok (gsoPack p R)) := rfl

/-- **gso, any defect**: whenever the solve succeeds for `r` and for `r'`, the residuals, `[pvv]`, the defect,
    `lindep`, `cond` AND `q_bb` are the same.  FULL: `q_bb` reads the tops of the storage columns, which `icgs2`
    does not touch — the model re-sorts the pointer-ordered columns into storage order (`mergeSort` on the storage
    index of a permutation built by `movePtrs`); `icgs2_tops` (Lemmas/GsoTops.lean) proves that this restores the
    tops, with no hypothesis on `lindep`. -/
theorem gso_indep (p : Problem K) (r r' : Reg) (a a' : Answer K)
    (h : Ls.gsoSolve { p with reg := r } = .ok a) (h' : Ls.gsoSolve { p with reg := r' } = .ok a') :
    a.r = a'.r ∧ a.rtr = a'.rtr ∧ a.defect = a'.defect ∧ a.lindep = a'.lindep ∧ a.cond = a'.cond
    ∧ a.qbb = a'.qbb := by
  rw [gsoSolve_reg] at h h'
  simp only at h h'
  split at h
  · exact absurd h (by simp)
  · split at h
    · exact absurd h (by simp)
    · split at h'
      · exact absurd h' (by simp)
      · split at h'
        · exact absurd h' (by simp)
        · injection h with h; injection h' with h'
          subst h; subst h'
          refine ⟨?_, ?_, ?_, ?_, ?_, ?_⟩ <;>
            simp only [gsoPack, icgs2_dep, icgs2_rhs_top, icgs2_rowdot_top]

/-- the statement of rounds 6–12 (without `q_bb`), kept for its users: a corollary of `gso_indep` -/
theorem gso_indep_partial (p : Problem K) (r r' : Reg) (a a' : Answer K)
    (h : Ls.gsoSolve { p with reg := r } = .ok a) (h' : Ls.gsoSolve { p with reg := r' } = .ok a') :
    a.r = a'.r ∧ a.rtr = a'.rtr ∧ a.defect = a'.defect ∧ a.lindep = a'.lindep ∧ a.cond = a'.cond :=
  let ⟨h1, h2, h3, h4, h5, _⟩ := gso_indep p r r' a a' h h'
  ⟨h1, h2, h3, h4, h5⟩

/-- **gso, defect 0**: the whole answer record is the same for EVERY regularisation (no condition on the list:
    `icgs2()` returns before it looks at `minx`) -/
theorem gso_regular (p : Problem K) (r r' : Reg) (a : Answer K)
    (h : Ls.gsoSolve { p with reg := r } = .ok a) (hd : a.defect = 0) :
    Ls.gsoSolve { p with reg := r' } = .ok a := by
  rw [gsoSolve_reg] at h ⊢
  simp only at h ⊢
  have hdep : (gsoPhase1 p).dep = [] := by
    split at h
    · exact absurd h (by simp)
    · split at h
      · exact absurd h (by simp)
      · injection h with h
        subst h
        simp only [gsoPack, icgs2_dep] at hd
        exact List.eq_nil_of_length_eq_zero hd
  rw [icgs2_regular _ (Gso.maskOf p.n r') (Gso.maskOf p.n r) _ hdep]
  have he : (Gso.icgs2 (Gso.tolerance : K) (Gso.maskOf p.n r) (gsoPhase1 p)).dep.isEmpty = true := by
    rw [icgs2_dep, hdep]; rfl
  simp only [he, Bool.not_true, Bool.false_and, Bool.false_eq_true, if_false] at h ⊢
  exact h

theorem gso_maskOf_allList (n : Nat) : Gso.maskOf n (.subset (allList n)) = Gso.maskOf n .all := by
  simp only [Gso.maskOf]
  apply List.ext_getElem
  · simp
  · intro i h1 h2
    simp only [List.length_map, List.length_range] at h1
    simp [allList, h1]

theorem gso_regInRange_allList (n : Nat) : Gso.regInRange n (.subset (allList n)) = true := by
  simp only [Gso.regInRange, allList, List.all_eq_true, List.mem_map, List.mem_range, Bool.and_eq_true, decide_eq_true_eq]
  rintro i ⟨j, hj, rfl⟩
  omega

/-- `min_x()` and `min_x(n, 1..n)` are the same configuration for gso -/
theorem gso_all (p : Problem K) :
    Ls.gsoSolve { p with reg := .subset (allList p.n) } = Ls.gsoSolve { p with reg := .all } := by
  rw [gsoSolve_reg, gsoSolve_reg, gso_maskOf_allList, gso_regInRange_allList]
  rfl

/-! ### `AdjSVD` -/

theorem svdSolve_reg (p : Problem K) (r : Reg) :
    Ls.svdSolve { p with reg := r }
      = match Svd.decompose p.m p.n p.dense with
        | .error e => .error e
        | .ok d => Svd.answerOf true Svd.wTol p.m p.n p.dense p.rhs r d := rfl

theorem minSubsetX_regular (fix : Option K) (n : Nat) (reg : Reg) (iw : Nat → K) (V : DMat K)
    (h : Svd.defectOf n iw = 0) : Svd.minSubsetX fix n reg iw V = .ok V := by
  cases reg <;> simp [Svd.minSubsetX, h]

theorem svd_answerOf_defect (fixed : Bool) (tol : K) (m n : Nat) (A : DMat K) (b : Array K) (reg : Reg) (d : Svd.Dec K)
    (a : Answer K) (h : Svd.answerOf fixed tol m n A b reg d = .ok a) :
    a.defect = Svd.defectOf n (Svd.invW tol n (Svd.vget d.W)) := by
  unfold Svd.answerOf at h
  simp only at h
  split at h
  · exact absurd h (by simp)
  · injection h with h
    subst h
    rfl

/-- **svd, any defect**: whenever the solve succeeds for `r` and for `r'`, the defect, `q_bb`, `lindep` and `cond`
    are the same (`r`, `rtr` are computed from the regularised `x`: not claimed) -/
theorem svd_indep (p : Problem K) (r r' : Reg) (a a' : Answer K)
    (h : Ls.svdSolve { p with reg := r } = .ok a) (h' : Ls.svdSolve { p with reg := r' } = .ok a') :
    a.defect = a'.defect ∧ a.qbb = a'.qbb ∧ a.lindep = a'.lindep ∧ a.cond = a'.cond := by
  rw [svdSolve_reg] at h h'
  cases hd : Svd.decompose p.m p.n p.dense with
  | error e => rw [hd] at h; exact absurd h (by simp)
  | ok d =>
    rw [hd] at h h'
    simp only [Svd.answerOf] at h h'
    split at h
    · exact absurd h (by simp)
    · split at h'
      · exact absurd h' (by simp)
      · injection h with h; injection h' with h'
        subst h; subst h'
        exact ⟨rfl, rfl, rfl, rfl⟩

/-- **svd, defect 0**: the whole answer record is the same for EVERY regularisation (`svd()` calls `min_subset_x`
    only `if (defect > 0)`) -/
theorem svd_regular (p : Problem K) (r r' : Reg) (a : Answer K)
    (h : Ls.svdSolve { p with reg := r } = .ok a) (hd : a.defect = 0) :
    Ls.svdSolve { p with reg := r' } = .ok a := by
  rw [svdSolve_reg] at h ⊢
  cases hdec : Svd.decompose p.m p.n p.dense with
  | error e => rw [hdec] at h; exact absurd h (by simp)
  | ok d =>
    rw [hdec] at h
    simp only at h ⊢
    have h0 := svd_answerOf_defect _ _ _ _ _ _ _ _ _ h
    rw [hd] at h0
    rw [← h]
    simp only [Svd.answerOf, minSubsetX_regular _ _ _ _ _ h0.symm]

/-! ### the three together -/

/-- the model covers the list (chol: inside `1..n`; gso, svd: no condition when the system is regular) -/
def RegCovered (alg : Ls.Alg) (n : Nat) (r : Reg) : Prop := alg = .chol → Chol.regList n r ≠ none

/-- **regular-case independence** of the chol / gso / svd solver models: if the solver reports defect 0 under ONE
    regularisation, it returns the same answer record under EVERY regularisation (the model covers) -/
theorem solver_regular (alg : Ls.Alg) (halg : alg ≠ .env) (p : Problem K) (r r' : Reg) (a : Answer K)
    (h : solverOf alg { p with reg := r } = .ok a) (hd : a.defect = 0) (hr : RegCovered alg p.n r') :
    solverOf alg { p with reg := r' } = .ok a := by
  cases alg with
  | env => exact absurd rfl halg
  | chol => exact chol_regular p r r' a h hd (hr rfl)
  | gso => exact gso_regular p r r' a h hd
  | svd => exact svd_regular p r r' a h hd

/-- the defect the model reports does not depend on the regularisation under which the solve succeeds -/
theorem solver_defect_indep (alg : Ls.Alg) (halg : alg ≠ .env) (p : Problem K) (r r' : Reg) (a a' : Answer K)
    (h : solverOf alg { p with reg := r } = .ok a) (h' : solverOf alg { p with reg := r' } = .ok a') :
    a.defect = a'.defect := by
  cases alg with
  | env => exact absurd rfl halg
  | chol => exact (chol_indep p r r' a a' h h').2.2.1
  | gso => exact (gso_indep p r r' a a' h h').2.2.1
  | svd => exact (svd_indep p r r' a a' h h').1

/-! ### the defect is at most the number of unknowns (`Inv.wf` of the symbolic input of a problem) -/

theorem factor_nullity_le (n : Nat) (fuel c : Nat) (perm : Array Nat) (a : DMat K) :
    (Chol.factor n fuel c perm a).nullity ≤ n := by
  induction fuel generalizing c perm a with
  | zero => simp [Chol.factor]
  | succ fuel ih =>
    unfold Chol.factor
    simp only
    split
    · exact Nat.sub_le _ _
    · exact ih _ _ _

theorem chol_defect_le (p : Problem K) (r : Reg) (a : Answer K) (h : Ls.cholSolve { p with reg := r } = .ok a) :
    a.defect ≤ p.n := by
  cases hS : Chol.regList p.n r with
  | none => rw [cholSolve_none p r hS] at h; exact absurd h (by simp)
  | some S =>
    rw [cholSolve_some p r S hS] at h
    cases hc : cholCore p S with
    | error e => rw [hc] at h; exact absurd h (by simp [Except.map])
    | ok s =>
      rw [hc] at h
      simp only [Except.map] at h
      injection h with h
      subst h
      unfold cholCore at hc
      simp only at hc
      split at hc
      · injection hc with hc; subst hc; exact Nat.zero_le _
      · split at hc
        · exact absurd hc (by simp)
        · injection hc with hc; subst hc; exact factor_nullity_le _ _ _ _ _

theorem step1_fold_dep (tol : K) (cols : List (Gso.Col K)) (s : Gso.S1 K) :
    (cols.foldl (Gso.step1 tol) s).dep.length ≤ s.dep.length + cols.length := by
  induction cols generalizing s with
  | nil => simp
  | cons c cs ih =>
    simp only [List.foldl_cons, List.length_cons]
    refine Nat.le_trans (ih _) ?_
    unfold Gso.step1
    simp only
    split <;> simp <;> omega

theorem gso_defect_le (p : Problem K) (r : Reg) (a : Answer K) (h : Ls.gsoSolve { p with reg := r } = .ok a) :
    a.defect ≤ p.n := by
  rw [gsoSolve_reg] at h
  simp only at h
  split at h
  · exact absurd h (by simp)
  · split at h
    · exact absurd h (by simp)
    · injection h with h
      subst h
      simp only [gsoPack, icgs2_dep, gsoPhase1, Gso.icgs1]
      refine Nat.le_trans (step1_fold_dep _ _ _) ?_
      simp [Gso.augmented]

theorem svd_defect_le (p : Problem K) (r : Reg) (a : Answer K) (h : Ls.svdSolve { p with reg := r } = .ok a) :
    a.defect ≤ p.n := by
  rw [svdSolve_reg] at h
  cases hd : Svd.decompose p.m p.n p.dense with
  | error e => rw [hd] at h; exact absurd h (by simp)
  | ok d =>
    rw [hd] at h
    rw [svd_answerOf_defect _ _ _ _ _ _ _ _ _ h]
    unfold Svd.defectOf
    exact Nat.le_trans (List.length_filter_le _ _) (by simp)

theorem defectF_le (alg : Ls.Alg) (halg : alg ≠ .env) (p : Problem K) : defectF alg p ≤ p.n := by
  unfold defectF
  cases h : solverOf alg { p with reg := .all } with
  | error e => exact Nat.zero_le _
  | ok a =>
    cases alg with
    | env => exact absurd rfl halg
    | chol => exact chol_defect_le p _ a h
    | gso => exact gso_defect_le p _ a h
    | svd => exact svd_defect_le p _ a h

end Gama.C04.Full
