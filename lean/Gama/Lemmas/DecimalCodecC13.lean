/-
  C13 — the number codec of `export_xml` / `GKFparser` instantiated with the real printer:
    `to_xmlstr(val, prec)` = `ostr << std::setprecision(prec) << std::defaultfloat << val`   (`%.{prec}g`: `fmtGen`)
    `CoreParser::toDouble` = `IsFloat` + `atof`                                             (`rdDecimal`)
    `to_xmlstr(adj_covband())` / `toInteger`                                                (`fmtInt` / `rdInt`)
  over ℚ.  `export_xml` uses prec = 8, 16 and 17 (default) by site; the network model has ONE `fmt`, so the precision
  `p` is a parameter.  Over ℚ the conversions `latitude()*200/M_PI`, `*0.324`, `*(1/0.324)` are exactly invertible
  (they are not for IEEE doubles: see the report).

  The sexagesimal second printer (`gon2deg(m, 0, 4)` / `deg2gon`) is NOT instantiated with C18's formatter here: the
  fields `fmtDeg` / `rdDeg` hold a STAND-IN (the letter `d` followed by the `%.{pd}g` text) that satisfies the law for
  every `x`.  The printer theorems of Props/C13Codec.lean are therefore about the real printer for documents in gons
  (`angles="400"`, the default), where `fmtDeg` / `rdDeg` are not called on a value; for `angles="360"` they are about
  the stand-in.  Real sexagesimal text: `C13_sexagesimal_read_back` (Props/C13.lean) gives `rdDeg (fmtDeg x) = some (qd x)`
  with `|qd x − x| ≤ ½·10⁻⁴″` for `0 ≤ x`; C18's formatter prints no sign, so the law for all `x` that `Codec.Printer`
  demands is false for it.
-/
import Gama.Lemmas.ExportQuant
import Gama.Lemmas.DecimalCodecSig
namespace Gama.Export
open Gama.Dec

/-- `M_PI`, exactly (0x400921fb54442d18) -/
def piQ : ℚ := 884279719003555 / 281474976710656

def fmtDegStandIn (m : RMode) (pd : Nat) (x : ℚ) : String := String.ofList ('d' :: fmtGenL m pd x)

def rdDegStandIn (s : String) : Option ℚ :=
  match s.toList with
  | 'd' :: r => rdDecimalL r
  | _ => none

attribute [irreducible] fmtDegStandIn rdDegStandIn

/-- the codec of `export_xml` with `to_xmlstr(·, p)`; `sd` = `apriori_m_0() * sqrt(dist)` (not rational: a parameter) -/
def realCodec (m : RMode) (p pd : Nat) (sd : ℚ → ℚ → ℚ) : Codec ℚ :=
  { fmt := fmtGen m p, rd := rdDecimal, zero := 0, isZero := fun x => decide (x = 0),
    neg := fun x => -x, fmtI := fmtInt, rdI := rdInt,
    latOut := fun x => x * 200 / piQ, latIn := fun x => x * piQ / 200,
    fmtDeg := fmtDegStandIn m pd, rdDeg := rdDegStandIn,
    toSec := fun x => x * (81 / 250), fromSec := fun x => x * (250 / 81),
    pos := fun x => decide (0 < x), lt1 := fun x => decide (x < 1), ellKnown := fun e => e == "wgs84", sdDist := sd }

theorem rd_fmtGenL (m : RMode) (p : Nat) (x : ℚ) : rdDecimalL (fmtGenL m p x) = some (roundSig m (sigDigits p) x) := by
  have := rd_fmtGen m p x
  unfold rdDecimal fmtGen at this
  rwa [String.toList_ofList] at this

theorem fmtGenL_roundSig (m : RMode) (p : Nat) (x : ℚ) : fmtGenL m p (roundSig m (sigDigits p) x) = fmtGenL m p x := by
  unfold fmtGenL roundSig
  rw [sigD_stable m m _ (sigDigits_pos p) x]

theorem rdDegStandIn_fmtGen (m : RMode) (p : Nat) (x : ℚ) : rdDegStandIn (fmtGen m p x) = none := by
  unfold rdDegStandIn fmtGen
  rw [String.toList_ofList]
  obtain ⟨c, r, h, hc⟩ := fmtGenL_head m p x
  rw [h]
  have hne : c ≠ 'd' := by
    rintro rfl
    rcases hc with hc | hc
    · exact absurd hc (by decide)
    · exact absurd hc (by decide)
  split
  · rename_i heq; injection heq with h1 _; exact absurd h1 hne
  · rfl

theorem rdDegStandIn_fmtDeg (m : RMode) (pd : Nat) (x : ℚ) :
    rdDegStandIn (fmtDegStandIn m pd x) = some (roundSig m (sigDigits pd) x) := by
  unfold rdDegStandIn fmtDegStandIn
  rw [String.toList_ofList]
  exact rd_fmtGenL m pd x

theorem fmtDegStandIn_q (m : RMode) (pd : Nat) (x : ℚ) :
    fmtDegStandIn m pd (roundSig m (sigDigits pd) x) = fmtDegStandIn m pd x := by
  unfold fmtDegStandIn
  rw [fmtGenL_roundSig]

theorem rdInt_fmtInt (i : Int) : rdInt (fmtInt i) = some i := by
  unfold rdInt fmtInt
  rw [String.toList_ofList]
  exact rdIntL_fmtIntL i

theorem piQ_ne : piQ ≠ 0 := by unfold piQ; norm_num

/-- **the real printer satisfies the law of the printer theorems of C13**, for every precision and rounding rule -/
theorem realCodec_printer (m : RMode) (p pd : Nat) (sd : ℚ → ℚ → ℚ) :
    (realCodec m p pd sd).Printer (roundSig m (sigDigits p)) (roundSig m (sigDigits pd)) :=
  { rd_fmt := fun x => rd_fmtGen m p x
    fmt_q := fun x => fmtGen_roundSig m p x
    isZero_iff := fun x => by simp [realCodec]
    isZero_q := fun x => by
      show decide (roundSig m (sigDigits p) x = 0) = decide (x = 0)
      rw [decide_eq_decide]
      exact roundSig_eq_zero_iff m _ (sigDigits_pos p) x
    pos_q := fun x => by
      show decide (0 < roundSig m (sigDigits p) x) = decide (0 < x)
      rw [decide_eq_decide]
      exact roundSig_pos_iff m _ (sigDigits_pos p) x
    q_neg := fun x => roundSig_neg m _ x
    neg_neg := fun x => by simp [realCodec]
    rdI_fmtI := fun i _ => rdInt_fmtInt i
    latIn_latOut := fun x => by
      show x * 200 / piQ * piQ / 200 = x
      field_simp [piQ_ne]
    latOut_latIn := fun x => by
      show x * piQ / 200 * 200 / piQ = x
      field_simp [piQ_ne]
    rdDeg_fmt := fun x => rdDegStandIn_fmtGen m p x
    fmt_ne := fun x => fmtGen_ne_empty m p x
    rdDeg_fmtDeg := fun x => rdDegStandIn_fmtDeg m pd x
    fmtDeg_qd := fun x => fmtDegStandIn_q m pd x
    fromSec_toSec := fun x => by
      show x * (81 / 250) * (250 / 81) = x
      ring
    toSec_fromSec := fun x => by
      show x * (250 / 81) * (81 / 250) = x
      ring }

end Gama.Export

namespace Gama.Export
open Gama.Dec

instance (m : RMode) (P : Nat) : DecidablePred (fun x : ℚ => roundSig m P x = x) :=
  fun x => inferInstanceAs (Decidable (roundSig m P x = x))

/-- a network over ℚ for the non-vacuity examples: en + left-handed is inconsistent (y, dy mirrored); coordinates with
    more digits than the printer keeps (1/3, 2/7, 1.23456789012), a constrained and an unused point, a vectors cluster
    with a full covariance matrix, latitude 50 gon = π/4 with the exact `M_PI` -/
def qNet : Net ℚ :=
  { head := ⟨.en, true, some (20213 / 10)⟩, descr := "real printer",
    par := ⟨10, 95 / 100, 1000 + 1 / 3, true, true, some "gso", some (50 * piQ / 200), some "wgs84", -1⟩,
    points := [⟨"A", some (1001 / 7, 2002 / 7), some (123456789012 / 100000000000), .fixed, .fixed⟩,
               ⟨"B", some (99996 / 100000, -5005 / 3), none, .constr, .free⟩,
               ⟨"C", some (6, 7), none, .unused, .unused⟩],
    clusters := [.vectors [⟨"A", "B", 31 / 3, -32 / 7, 1 / 1000000, 0, 0, ""⟩] ⟨3, 2, [11 / 3, 1, 2 / 7, 12, 3, 13]⟩] }

end Gama.Export
