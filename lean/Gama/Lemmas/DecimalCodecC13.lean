/-
  C13 — the number codec of `export_xml` / `GKFparser` instantiated with the real printers:
    `to_xmlstr(val, prec)` = `ostr << std::setprecision(prec) << std::defaultfloat << val`   (`%.{prec}g`: `fmtGen`)
    `CoreParser::toDouble` = `IsFloat` + `atof`                                             (`rdDecimal`)
    `to_xmlstr(adj_covband())` / `toInteger`                                                (`fmtInt` / `rdInt`)
    `str_val = GNU_gama::gon2deg(m, 0, 4)` (observation.cpp, `angles="360"`)                 (`Angles.gon2deg · 0 4`, C18's model)
    `deg2gon(sm, dm)` tried before `toDouble` (GKFparser `process_*` of the angular kinds)  (`Angles.deg2gon`, C18's model)
  over ℚ.  `export_xml` uses prec = 8, 16 and 17 (default) by site (the regenerated table `Gen/GkfFmtSites.lean`); the
  network model has ONE `fmt` for the `to_xmlstr` sites, so the precision `p` is a parameter and the statements are about a
  `%.{p}g` printer at every such site.  Round 8: the `<cov-mat>` elements are NOT printed by `to_xmlstr` but by
  `updated_xml_covmat` with `scientific`, `precision(16)` (`%.16e`): `fmtCov := Dec.fmtSci m 16`, read back as
  `roundSig m 17` (`rd_fmtSci`, projection `fmtSci_roundSig`) — the third printer of `Codec.PrinterOn`, with its own
  quantisation `qc`.  Over ℚ the conversions `latitude()*200/M_PI`, `*0.324`, `*(1/0.324)` are exactly invertible
  (they are not for IEEE doubles: see the report).

  Round 6: the sexagesimal second printer is C18's formatter / reader itself (no stand-in any more).  It prints no sign
  (`sign = 0`) and needs `int(gon·0.9)`, so its two laws hold on the domain `DegDom g := 0 ≤ g ∧ g·0.9 < 2³¹−1` only
  (gama keeps angles in [0, 400) gon): `realCodec_printerOn : (realCodec m p sd).PrinterOn DegDom (roundSig …) degQ`.
    * `rdDeg (fmtDeg g) = some (degQ g)`: C18's `deg2gon_gon2deg_string` (through `sexagesimal_read_back`);
    * `fmtDeg (degQ g) = fmtDeg g`: `gon2deg_degQ` (Lemmas/ExportDegrees.lean: the value read back is the angle the
      printed fields denote, and splitting it again gives those fields);
    * `rdDeg (fmt x) = none` — a `%g` numeral is never mistaken for a sexagesimal text, although the parser tries
      `deg2gon` first: every text `deg2gon` accepts has a `-` right after a digit, no `%g` text has (`digitDash`).
-/
import Gama.Lemmas.ExportQuant
import Gama.Lemmas.ExportDegrees
import Gama.Lemmas.DecimalCodecSig
namespace Gama.Export
open Gama.Dec

/-- `M_PI`, exactly (0x400921fb54442d18) -/
def piQ : ℚ := 884279719003555 / 281474976710656

/-- `str_val = GNU_gama::gon2deg(m, 0, 4)` (the formatter of the tree, C18's model; never `none` over ℚ) -/
def fmtDegReal (g : ℚ) : String := (Angles.gon2deg g 0 4).getD ""

/-- `deg2gon(sm, dm)` (C18's model) -/
def rdDegReal (s : String) : Option ℚ := Angles.deg2gon s

/-- the codec of `export_xml` with `to_xmlstr(·, p)`, the `%.16e` of `updated_xml_covmat` for the `<cov-mat>` elements
    (`fmtCov`; the regenerated site table says `.sci 16`) and the sexagesimal text `gon2deg(·, 0, 4)` / `deg2gon`;
    `sd` = `apriori_m_0() * sqrt(dist)` (not rational: a parameter) -/
def realCodec (m : RMode) (p : Nat) (sd : ℚ → ℚ → ℚ) : Codec ℚ :=
  { fmt := fmtGen m p, rd := rdDecimal, zero := 0, isZero := fun x => decide (x = 0),
    neg := fun x => -x, fmtI := fmtInt, rdI := rdInt,
    latOut := fun x => x * 200 / piQ, latIn := fun x => x * piQ / 200,
    fmtDeg := fmtDegReal, rdDeg := rdDegReal,
    toSec := fun x => x * (81 / 250), fromSec := fun x => x * (250 / 81),
    pos := fun x => decide (0 < x), lt1 := fun x => decide (x < 1), ellKnown := fun e => e == "wgs84", sdDist := sd,
    fmtCov := fmtSci m 16 }

theorem rd_fmtGenL (m : RMode) (p : Nat) (x : ℚ) : rdDecimalL (fmtGenL m p x) = some (roundSig m (sigDigits p) x) := by
  have := rd_fmtGen m p x
  unfold rdDecimal fmtGen at this
  rwa [String.toList_ofList] at this

theorem fmtGenL_roundSig (m : RMode) (p : Nat) (x : ℚ) : fmtGenL m p (roundSig m (sigDigits p) x) = fmtGenL m p x := by
  unfold fmtGenL roundSig
  rw [sigD_stable m m _ (sigDigits_pos p) x]

/-! ## a decimal numeral is never read as a sexagesimal text -/

/-- is there a `-` immediately after a decimal digit?  (`prev`: the previous character was a digit.)  Every text
    `deg2gon` accepts has one (`DDD-MM-SS`), no text of `%g` has: its `-` stand in front or after the `e`. -/
def digitDash : Bool → List Char → Bool
  | _, [] => false
  | prev, c :: cs => (prev && c == '-') || digitDash (Lit.isDigit c) cs

def endDigit : Bool → List Char → Bool
  | b, [] => b
  | _, c :: cs => endDigit (Lit.isDigit c) cs

theorem digitDash_append (b : Bool) (l r : List Char) :
    digitDash b (l ++ r) = (digitDash b l || digitDash (endDigit b l) r) := by
  induction l generalizing b with
  | nil => simp [digitDash, endDigit]
  | cons c cs ih => simp [digitDash, endDigit, ih, Bool.or_assoc]

theorem digitDash_mono (b : Bool) (l : List Char) (h : digitDash false l = true) : digitDash b l = true := by
  cases l with
  | nil => simp [digitDash] at h
  | cons c cs => simp only [digitDash, Bool.false_and, Bool.false_or] at h; simp [digitDash, h]

theorem digitDash_infix {l m : List Char} (hi : l <:+: m) (h : digitDash false l = true) : digitDash false m = true := by
  obtain ⟨s, t, rfl⟩ := hi
  rw [digitDash_append, digitDash_append, digitDash_mono _ l h]
  simp

theorem digit_ne_dash {c : Char} (h : Lit.isDigit c = true) : (c == '-') = false := by
  cases hc : c == '-' with
  | false => rfl
  | true => rw [beq_iff_eq.mp hc] at h; exact absurd h (by decide)

theorem digitDash_allDigit (b : Bool) (l : List Char) (h : Lit.AllDigit l) : digitDash b l = false := by
  induction l generalizing b with
  | nil => rfl
  | cons c cs ih =>
    have hc := h c List.mem_cons_self
    simp only [digitDash, digit_ne_dash hc, Bool.and_false, Bool.false_or]
    exact ih _ (fun x hx => h x (List.mem_cons_of_mem _ hx))

theorem endDigit_allDigit (b : Bool) (l : List Char) (h : Lit.AllDigit l) (hne : l ≠ []) : endDigit b l = true := by
  induction l generalizing b with
  | nil => exact absurd rfl hne
  | cons c cs ih =>
    have hc := h c List.mem_cons_self
    cases cs with
    | nil => simp [endDigit, hc]
    | cons d ds =>
      show endDigit (Lit.isDigit c) (d :: ds) = true
      exact ih _ (fun x hx => h x (List.mem_cons_of_mem _ hx)) (by simp)

/-- digits followed by `-`: what every sexagesimal text contains -/
theorem digitDash_digits_dash (l y : List Char) (h : Lit.AllDigit l) (hne : l ≠ []) : digitDash false (l ++ '-' :: y) = true := by
  rw [digitDash_append, endDigit_allDigit false l h hne]
  simp [digitDash]

theorem digitDash_dotFrac (b : Bool) (F : List Char) (h : Lit.AllDigit F) : digitDash b (dotFrac F) = false := by
  unfold dotFrac
  split
  · rfl
  · simp only [digitDash]
    rw [digitDash_allDigit _ F h]
    simp

theorem digitDash_expText (b : Bool) (X : Int) : digitDash b (expText X) = false := by
  unfold expText
  simp only [digitDash]
  rw [digitDash_allDigit _ _ (allDigit_natDigits _ _)]
  have h1 : ('e' == '-') = false := by decide
  have h2 : Lit.isDigit 'e' = false := by decide
  simp [h1, h2]

/-- the general shape of the three `%g` layouts -/
theorem digitDash_numeral (neg : Bool) (A F E : List Char) (hA : Lit.AllDigit A) (hF : Lit.AllDigit F)
    (hE : ∀ b, digitDash b E = false) : digitDash false (signText neg ++ (A ++ (dotFrac F ++ E))) = false := by
  have hs : digitDash false (signText neg) = false ∧ endDigit false (signText neg) = false := by
    cases neg <;> decide
  rw [digitDash_append, hs.1, hs.2, digitDash_append, digitDash_allDigit _ A hA, digitDash_append, digitDash_dotFrac _ F hF, hE]
  rfl

theorem digitDash_genShow (P : Nat) (d : Numeral) : digitDash false (genShow P d) = false := by
  have hds := allDigit_natDigits P d.m
  unfold genShow
  split
  · decide
  · simp only []
    split
    · split
      · have := digitDash_numeral d.neg ((natDigits P d.m).take ((d.e + ((P : Int) - 1)).toNat + 1))
          (stripZeros ((natDigits P d.m).drop ((d.e + ((P : Int) - 1)).toNat + 1))) []
          (allDigit_take hds _) (allDigit_stripZeros (allDigit_drop hds _)) (fun _ => rfl)
        simpa using this
      · have := digitDash_numeral d.neg ['0']
          (stripZeros (List.replicate ((-(d.e + ((P : Int) - 1))).toNat - 1) '0' ++ natDigits P d.m)) []
          (by intro c hc; simp at hc; subst hc; decide)
          (allDigit_stripZeros (allDigit_append (allDigit_replicate_zero _) hds)) (fun _ => rfl)
        simpa using this
    · exact digitDash_numeral d.neg _ _ _ (allDigit_take hds 1) (allDigit_stripZeros (allDigit_drop hds 1))
        (fun b => digitDash_expText b _)

section
open Gama.Angles Gama.Grammar Gama.Grammar.Rx

theorem grammar_isDigit_eq (c : Char) : Grammar.isDigit c = Lit.isDigit c := rfl

theorem body_suffix (t : List Char) : body t <:+ t := by
  unfold body
  split
  · rename_i b rest
    split
    · have h1 : skip isSign (rest.dropWhile Grammar.isSpace) <:+ rest.dropWhile Grammar.isSpace := by
        generalize rest.dropWhile Grammar.isSpace = y
        cases y with
        | nil => exact List.suffix_refl _
        | cons c y' =>
          show (if isSign c then y' else c :: y') <:+ c :: y'
          split
          · exact List.suffix_cons _ _
          · exact List.suffix_refl _
      exact (h1.trans (List.dropWhile_suffix _)).trans (List.suffix_cons _ _)
    · exact List.suffix_refl _
  · exact List.suffix_refl _

theorem trimWs_infix (l : List Char) : trimWs l <:+: l := by
  rw [trimWs_eq]
  unfold dropTrailing
  have h1 : ((l.dropWhile Grammar.isSpace).reverse.dropWhile Grammar.isSpace).reverse <+: l.dropWhile Grammar.isSpace := by
    rw [← List.reverse_suffix, List.reverse_reverse]
    exact List.dropWhile_suffix _
  exact h1.isInfix.trans (List.dropWhile_suffix _).isInfix

/-- every text `deg2gon` accepts contains a `-` right after a digit -/
theorem parseDms_digitDash (s : String) (h : (parseDms s).isSome = true) : digitDash false s.toList = true := by
  rw [parseDms_isSome] at h
  simp only [] at h
  obtain ⟨hne, -, hmin⟩ := h
  rw [parseMin_isSome] at hmin
  obtain ⟨y, hy, -⟩ := hmin
  have hb : body (trimWs s.toList) = degF (trimWs s.toList) ++ '-' :: y := by
    rw [← hy]; unfold degF; exact (List.takeWhile_append_dropWhile).symm
  have hd : Lit.AllDigit (degF (trimWs s.toList)) := by
    intro c hc
    unfold degF at hc
    have := List.all_eq_true.mp (List.all_takeWhile (p := Grammar.isDigit) (l := body (trimWs s.toList))) c hc
    rwa [grammar_isDigit_eq] at this
  have h1 := digitDash_digits_dash _ y hd hne
  rw [← hb] at h1
  exact digitDash_infix ((body_suffix _).isInfix.trans (trimWs_infix _)) h1

end

/-- **a `%g` numeral is not read as a sexagesimal text** (the parser tries `deg2gon` first, then `toDouble`) -/
theorem rdDegReal_fmtGen (m : RMode) (p : Nat) (x : ℚ) : rdDegReal (fmtGen m p x) = none := by
  unfold rdDegReal Angles.deg2gon
  cases h : Angles.parseDms (fmtGen m p x) with
  | none => rfl
  | some r =>
    have h1 := parseDms_digitDash (fmtGen m p x) (by rw [h]; rfl)
    unfold fmtGen at h1
    rw [String.toList_ofList] at h1
    unfold fmtGenL at h1
    rw [digitDash_genShow] at h1
    exact absurd h1 (by decide)

theorem rdDegReal_fmtDegReal (g : ℚ) (hD : DegDom g) : rdDegReal (fmtDegReal g) = some (degQ g) := by
  obtain ⟨str, h1, h2⟩ := deg2gon_gon2deg_degQ g hD
  unfold rdDegReal fmtDegReal
  rw [h1]
  exact h2

theorem fmtDegReal_degQ (g : ℚ) (hD : DegDom g) : fmtDegReal (degQ g) = fmtDegReal g := by
  unfold fmtDegReal
  rw [gon2deg_degQ g hD]

-- the unifier must not evaluate string operations when it compares the fields of the codec
attribute [irreducible] fmtDegReal rdDegReal

theorem rdInt_fmtInt (i : Int) : rdInt (fmtInt i) = some i := by
  unfold rdInt fmtInt
  rw [String.toList_ofList]
  exact rdIntL_fmtIntL i

theorem piQ_ne : piQ ≠ 0 := by unfold piQ; norm_num

/-- **the real printers satisfy the law of the printer theorems of C13**, for every precision and rounding rule; the
    `<cov-mat>` elements with `%.16e` (17 significant digits, whatever `p`); the sexagesimal printer on its domain -/
theorem realCodec_printerOn (m : RMode) (p : Nat) (sd : ℚ → ℚ → ℚ) :
    (realCodec m p sd).PrinterOn DegDom (roundSig m (sigDigits p)) (roundSig m 17) degQ :=
  { rd_fmt := fun x => rd_fmtGen m p x
    fmt_q := fun x => fmtGen_roundSig m p x
    isZero_iff := fun x => by simp [realCodec]
    isZero_q := fun x => by
      show decide (roundSig m (sigDigits p) x = 0) = decide (x = 0)
      rw [decide_eq_decide]
      exact roundSig_eq_zero_iff m _ (sigDigits_pos p) x
    pos_q := fun x => by
      show decide (0 < roundSig m (sigDigits p) x) = decide (0 < x)
      rw [decide_eq_decide]
      exact roundSig_pos_iff m _ (sigDigits_pos p) x
    q_neg := fun x => roundSig_neg m _ x
    neg_neg := fun x => by simp [realCodec]
    rdI_fmtI := fun i _ => rdInt_fmtInt i
    latIn_latOut := fun x => by
      show x * 200 / piQ * piQ / 200 = x
      field_simp [piQ_ne]
    latOut_latIn := fun x => by
      show x * piQ / 200 * 200 / piQ = x
      field_simp [piQ_ne]
    rdDeg_fmt := fun x => rdDegReal_fmtGen m p x
    fmt_ne := fun x => fmtGen_ne_empty m p x
    rd_fmtCov := fun x => rd_fmtSci m 16 x
    fmtCov_qc := fun x => fmtSci_roundSig m 16 x
    qc_neg := fun x => roundSig_neg m _ x
    rdDeg_fmtDeg := fun x hx => rdDegReal_fmtDegReal x hx
    fmtDeg_qd := fun x hx => fmtDegReal_degQ x hx
    fromSec_toSec := fun x => by
      show x * (81 / 250) * (250 / 81) = x
      ring
    toSec_fromSec := fun x => by
      show x * (250 / 81) * (81 / 250) = x
      ring }

/-- the law without a domain is FALSE for the real sexagesimal printer, whatever `qd`: the text of 2.4·10⁹ gon has
    2 160 000 000 degrees, which `deg2gon` (`istream >> int`) refuses.  (A negative angle is not a counterexample to the
    law as such — `gon2deg(·, 0, 4)` prints no sign, the text of −100 gon is read as +100 gon, and +100 prints the same
    text — but there `qd` is not a quantisation; `DegDom` excludes both.) -/
theorem realCodec_not_printer (m : RMode) (p : Nat) (sd : ℚ → ℚ → ℚ) (q qd : ℚ → ℚ) :
    ¬ (realCodec m p sd).Printer q qd := by
  intro P
  have h1 := P.rdDeg_fmtDeg (2400000000 : ℚ) trivial
  have e : (realCodec m p sd).rdDeg ((realCodec m p sd).fmtDeg (2400000000 : ℚ)) = none := by
    show rdDegReal (fmtDegReal 2400000000) = none
    unfold rdDegReal fmtDegReal
    decide +kernel
  rw [e] at h1
  exact absurd h1 (by simp)

end Gama.Export

namespace Gama.Export
open Gama.Dec

instance (m : RMode) (P : Nat) : DecidablePred (fun x : ℚ => roundSig m P x = x) :=
  fun x => inferInstanceAs (Decidable (roundSig m P x = x))

instance : DecidablePred (fun x : ℚ => DegDom x ∧ degQ x = x) :=
  fun x => inferInstanceAs (Decidable (DegDom x ∧ degQ x = x))

/-- a network over ℚ for the non-vacuity examples: en + left-handed is inconsistent (y, dy mirrored); coordinates with
    more digits than the printer keeps (1/3, 2/7, 1.23456789012), a constrained and an unused point, a vectors cluster
    with a full covariance matrix, latitude 50 gon = π/4 with the exact `M_PI` -/
def qNet : Net ℚ :=
  { head := ⟨.en, true, some (20213 / 10)⟩, descr := "real printer",
    par := ⟨10, 95 / 100, 1000 + 1 / 3, true, true, some "gso", some (50 * piQ / 200), some "wgs84", -1⟩,
    points := [⟨"A", some (1001 / 7, 2002 / 7), some (123456789012 / 100000000000), .fixed, .fixed⟩,
               ⟨"B", some (99996 / 100000, -5005 / 3), none, .constr, .free⟩,
               ⟨"C", some (6, 7), none, .unused, .unused⟩],
    clusters := [.vectors [⟨"A", "B", 31 / 3, -32 / 7, 1 / 1000000, 0, 0, ""⟩] ⟨3, 2, [11 / 3, 1, 2 / 7, 12, 3, 13]⟩] }

/-- the same in degrees (`angles="360"`), with an `<obs>` cluster: a direction 123.45678912 gon (more digits than four
    decimals of the second), a distance, an angle, a zenith angle whose seconds round up to 60 (carried), a full 4×4
    covariance matrix; standard deviations and covariance rows of the angular observations go through seconds -/
def qNetDeg : Net ℚ :=
  { qNet with
    par := { qNet.par with gons := false },
    clusters := qNet.clusters ++
      [.obs ⟨"A", [⟨.direction, "A", "B", "", 12345678912 / 100000000, 10 / 3, 0, 3 / 2, 0, ""⟩,
                   ⟨.distance, "A", "B", "", 500005 / 1000, 5, 0, 0, 0, "e"⟩,
                   ⟨.angle, "A", "B", "C", 2345678 / 10000, 20 / 7, 17 / 10, 0, 12 / 10, ""⟩,
                   ⟨.zangle, "A", "B", "", 999999999999 / 10000000000, 4, 0, 0, 0, ""⟩]⟩
         (some ⟨4, 3, [100 / 9, 1 / 7, 2 / 3, 1 / 11, 25, 3 / 7, 1 / 13, 400 / 49, 1 / 17, 16]⟩)] }

end Gama.Export
