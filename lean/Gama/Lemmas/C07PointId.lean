/-
  C07 — `PointID::operator<` (model `Gama/Model/PointId.lean`) is a strict total order on the
  values `PointID::init` produces, for all byte strings.
-/
import Gama.Model.PointId
namespace Gama.PointId

theorem toNat_inj {a b : UInt8} (h : a.toNat = b.toNat) : a = b := UInt8.toNat_inj.1 h

theorem bytesLt_irrefl : ∀ a : Bytes, bytesLt a a = false
  | [] => rfl
  | a :: as => by simp [bytesLt, bytesLt_irrefl as]

theorem bytesLt_trans : ∀ a b c : Bytes, bytesLt a b = true → bytesLt b c = true → bytesLt a c = true
  | [], [], _, h, _ => by simp [bytesLt] at h
  | [], _ :: _, [], _, h => by simp [bytesLt] at h
  | [], _ :: _, _ :: _, _, _ => rfl
  | _ :: _, [], _, h, _ => by simp [bytesLt] at h
  | _ :: _, _ :: _, [], _, h => by simp [bytesLt] at h
  | a :: as, b :: bs, c :: cs, h1, h2 => by
    simp only [bytesLt] at h1 h2 ⊢
    by_cases hab : a.toNat < b.toNat
    · by_cases hbc : b.toNat < c.toNat
      · have : a.toNat < c.toNat := by omega
        simp [this]
      · by_cases hcb : c.toNat < b.toNat
        · simp [hbc, hcb] at h2
        · have : a.toNat < c.toNat := by omega
          simp [this]
    · by_cases hba : b.toNat < a.toNat
      · simp [hab, hba] at h1
      · simp only [hab, hba, if_false] at h1
        by_cases hbc : b.toNat < c.toNat
        · have : a.toNat < c.toNat := by omega
          simp [this]
        · by_cases hcb : c.toNat < b.toNat
          · simp [hbc, hcb] at h2
          · simp only [hbc, hcb, if_false] at h2
            have e1 : ¬ a.toNat < c.toNat := by omega
            have e2 : ¬ c.toNat < a.toNat := by omega
            simp only [e1, e2, if_false]
            exact bytesLt_trans as bs cs h1 h2

theorem bytesLt_trichotomy : ∀ a b : Bytes, bytesLt a b = true ∨ a = b ∨ bytesLt b a = true
  | [], [] => Or.inr (Or.inl rfl)
  | [], _ :: _ => Or.inl rfl
  | _ :: _, [] => Or.inr (Or.inr rfl)
  | a :: as, b :: bs => by
    simp only [bytesLt]
    by_cases hab : a.toNat < b.toNat
    · simp [hab]
    · by_cases hba : b.toNat < a.toNat
      · simp [hab, hba]
      · have e : a = b := toNat_inj (by omega)
        subst e
        simp only [hab, if_false]
        rcases bytesLt_trichotomy as bs with h | h | h
        · exact Or.inl h
        · exact Or.inr (Or.inl (by rw [h]))
        · exact Or.inr (Or.inr h)

/-- what `init` guarantees: a non-zero `iid` determines `sid` (the canonical decimal spelling) -/
def Valid (p : PointID) : Prop := p.iid ≠ 0 → p.sid = renderNat p.iid

theorem init_valid (s : Bytes) : Valid (init s) := by
  unfold init Valid
  simp only
  split
  · intro h; exact absurd rfl h
  · split
    · intro h; exact absurd rfl h
    · split
      · intro h; exact absurd rfl h
      · rename_i h
        intro _
        have := Classical.not_not.1 h
        exact this.symm

theorem lt_irrefl (a : PointID) : lt a a = false := by
  unfold lt
  by_cases h : a.iid = 0 <;> simp [h, bytesLt_irrefl]

theorem lt_trans {a b c : PointID} (h1 : lt a b = true) (h2 : lt b c = true) : lt a c = true := by
  unfold lt at *
  by_cases ha : a.iid = 0 <;> by_cases hb : b.iid = 0 <;> by_cases hc : c.iid = 0 <;>
    simp [ha, hb, hc] at h1 h2 ⊢
  · exact bytesLt_trans _ _ _ h1 h2
  · omega

theorem lt_trichotomy {a b : PointID} (va : Valid a) (vb : Valid b) :
    lt a b = true ∨ a = b ∨ lt b a = true := by
  unfold lt
  by_cases ha : a.iid = 0 <;> by_cases hb : b.iid = 0 <;> simp [ha, hb]
  · rcases bytesLt_trichotomy a.sid b.sid with h | h | h
    · exact Or.inl h
    · refine Or.inr (Or.inl ?_)
      cases a; cases b; simp_all
    · exact Or.inr (Or.inr h)
  · rcases Nat.lt_trichotomy a.iid b.iid with h | h | h
    · exact Or.inl h
    · refine Or.inr (Or.inl ?_)
      have e1 := va ha
      have e2 := vb hb
      cases a; cases b; simp_all
    · exact Or.inr (Or.inr h)

theorem eq_iff (a b : PointID) : eq a b = true ↔ a = b := by
  unfold eq
  cases a; cases b; simp

theorem ne_eq_not_eq (a b : PointID) : ne a b = !eq a b := by
  unfold ne eq
  by_cases h1 : a.iid = b.iid <;> by_cases h2 : a.sid = b.sid <;> simp [h1, h2]

/-- at most one of `a < b`, `a = b`, `b < a` -/
theorem lt_asymm {a b : PointID} (h : lt a b = true) : lt b a = false := by
  cases h' : lt b a
  · rfl
  · have := lt_trans h h'
    rw [lt_irrefl] at this
    exact absurd this (by simp)

theorem lt_ne {a b : PointID} (h : lt a b = true) : a ≠ b := by
  intro e; subst e; rw [lt_irrefl] at h; exact absurd h (by simp)

end Gama.PointId
