/-
  Lemmas about the decision layer `Gama/Model/NetDecision.lean` (properties C02, C20):
  termination of the removal loops with the fuel `actives net + 1`, soundness of the recorded
  removals, what a verdict `adjusted` / `cannot` implies about the solver's last answers.
-/
import Gama.Model.NetDecision
import Mathlib.Tactic.Linarith
namespace Gama.NetDecision
open Gama Gama.Ls


/-- what `project_equations()` guarantees to the decision layer -/
structure WorldA.WF (W : WorldA) : Prop where
  /-- revision of points / `singular_coords` only switch coordinates off -/
  shrink : ∀ net, actives (W net).net ≤ actives net
  /-- a flagged index is an index of `unknowns_`, and the coordinates of an unknown are active at its point -/
  flagged_active : ∀ net i, i ∈ (W net).abs.flagged →
      ∃ u, (W net).abs.unknowns[i - 1]? = some u ∧
        ∃ P ∈ (W net).net, P.id = u.pid ∧ (if u.type = .Z then P.z.active else P.xy.active) = true
  /-- the huge-covariance test only fires on coordinates that are active (they have an index) -/
  huge_active : ∀ net P c, P ∈ (W net).net → (W net).abs.huge P = .ok (some c) → (P.strip c).actives < P.actives

/-- the cached project equations of a state are those of the world on some configuration whose
    revised points are the state's points -/
def Inv (W : WorldA) (s : St) : Prop :=
  ∀ a, s.proj = some a → ∃ n0, (W n0).abs = a ∧ (W n0).net = s.net

theorem inv_init (W : WorldA) (net : Net) : Inv W (St.init net) := by
  intro a h; simp [St.init] at h

/-- a world whose `project_equations()` leaves the points alone (no missing coordinates, no
    `singular_coords` removal) -/
def WorldA.Still (W : WorldA) : Prop := ∀ net, (W net).net = net ∧ (W net).rm = []


theorem strip_id (P : Point) (c : Rm) : (P.strip c).id = P.id := by cases c <;> rfl

theorem strip_actives_le (P : Point) (c : Rm) : (P.strip c).actives ≤ P.actives := by
  obtain ⟨id, xy, z⟩ := P
  cases c <;> cases xy <;> cases z <;> simp [Point.strip, Point.actives, CStat.active]

theorem hugePass_length (a : Abs) : ∀ net : Net, (hugePass a net).1.length = net.length
  | [] => rfl
  | P :: rest => by
    have ih := hugePass_length a rest
    cases h : a.huge P with
    | error e => simp [hugePass, h]
    | ok o => cases o <;> simp [hugePass, h, ih]

theorem hugePass_nil_removed (a : Abs) : ∀ net : Net, (hugePass a net).2.1 = [] → (hugePass a net).1 = net
  | [] => fun _ => rfl
  | P :: rest => by
    have ih := hugePass_nil_removed a rest
    cases h : a.huge P with
    | error e => simp [hugePass, h]
    | ok o => cases o <;> simp [hugePass, h]; exact ih

theorem hugePass_actives (a : Abs) : ∀ net : Net,
    (∀ P ∈ net, ∀ c, a.huge P = .ok (some c) → (P.strip c).actives < P.actives) →
    actives (hugePass a net).1 + (hugePass a net).2.1.length ≤ actives net
  | [] => fun _ => by simp [hugePass, actives]
  | P :: rest => by
    intro hA
    have ih := hugePass_actives a rest (fun Q hQ => hA Q (List.mem_cons_of_mem _ hQ))
    cases h : a.huge P with
    | error e => simp [hugePass, h]
    | ok o =>
      cases o with
      | none => simp [hugePass, h, actives]; omega
      | some c =>
        have := hA P (List.mem_cons_self ..) c h
        simp [hugePass, h, actives]; omega

theorem hugePass_pos (a : Abs) : ∀ (net : Net) (k : Nat) (hk : k < net.length)
    (hk' : k < (hugePass a net).1.length),
    ((hugePass a net).1[k]).id = (net[k]).id ∧
      ((hugePass a net).1[k] ≠ net[k] → (net[k]).id ∈ (hugePass a net).2.1.map Prod.fst)
  | [], k, hk, _ => by simp at hk
  | P :: rest, k, hk, hk' => by
    cases h : a.huge P with
    | error e =>
      have : hugePass a (P :: rest) = (P :: rest, [], some e) := by simp [hugePass, h]
      simp [this]
    | ok o =>
      cases o with
      | none =>
        have e : hugePass a (P :: rest) = (P :: (hugePass a rest).1, (hugePass a rest).2.1, (hugePass a rest).2.2) := by
          simp [hugePass, h]
        cases k with
        | zero => simp [e]
        | succ k =>
          have hk2 : k < rest.length := by simpa using hk
          have hk3 : k < (hugePass a rest).1.length := by rw [hugePass_length]; exact hk2
          have := hugePass_pos a rest k hk2 hk3
          simp only [e, List.getElem_cons_succ]
          exact this
      | some c =>
        have e : hugePass a (P :: rest) = (P.strip c :: (hugePass a rest).1, (P.id, c) :: (hugePass a rest).2.1, (hugePass a rest).2.2) := by
          simp [hugePass, h]
        cases k with
        | zero => simp [e, strip_id]
        | succ k =>
          have hk2 : k < rest.length := by simpa using hk
          have hk3 : k < (hugePass a rest).1.length := by rw [hugePass_length]; exact hk2
          have := hugePass_pos a rest k hk2 hk3
          simp only [e, List.getElem_cons_succ, List.map_cons, List.mem_cons]
          exact ⟨this.1, fun hne => Or.inr (this.2 hne)⟩


/-- state after `project_equations()` -/
def vS1 (W : WorldA) (s : St) : St := (projectEq W s).1
/-- decision data in use after `project_equations()` -/
def vA (W : WorldA) (s : St) : Abs := (projectEq W s).2
/-- the huge-covariance pass of one iteration -/
def vR (W : WorldA) (s : St) : Net × List (String × Rm) × Option ErrKind := hugePass (vA W s) (vS1 W s).net
/-- state after a pass that removed nothing -/
def vS2c (W : WorldA) (s : St) : St := { vS1 W s with adj := true }
/-- state after a pass with removals -/
def vS2 (W : WorldA) (s : St) : St :=
  { net := (vR W s).1, removed := (vS1 W s).removed ++ (vR W s).2.1, proj := none, adj := false }

/-- outcome of an iteration whose pass removed nothing -/
def vOutClean (W : WorldA) (s : St) : Outcome :=
  match (vR W s).2.2 with
  | some e => .ofErr e
  | none => match (vA W s).resid with
    | .ok _ => .ok
    | .error e => .ofErr e

theorem ofErr_ne_fuel (e : ErrKind) : Outcome.ofErr e ≠ .fuel := by cases e <;> simp [Outcome.ofErr]
theorem ofErr_ne_ok (e : ErrKind) : Outcome.ofErr e ≠ .ok := by cases e <;> simp [Outcome.ofErr]
theorem ofErr_badReg (e : ErrKind) (h : Outcome.ofErr e = .badReg) : e = .BadRegularization := by
  cases e <;> simp [Outcome.ofErr] at h ⊢

theorem St.adj_false_eta (t : St) (h : t.adj = false) : ({ t with adj := false } : St) = t := by
  cases t; simp_all

theorem projectEq_adj (W : WorldA) (s : St) : (projectEq W s).1.adj = s.adj := by
  unfold projectEq
  cases h : s.proj <;> simp

/-- one iteration of the `do … while` of `vyrovnani_` (entered with `tst_vyrovnani_` false); every
    exit by an exception leaves `tst_vyrovnani_` false (function-try-block of `vyrovnani_`) -/
theorem vyrovnani_succ (W : WorldA) (f : Nat) (s : St) (h : s.adj = false) : vyrovnani W (f+1) s =
   if (vA W s).unknowns.length = 0 then (vS1 W s, .noUnknowns)
   else if (vA W s).nObs = 0 then (vS1 W s, .noObs)
   else if (vA W s).nPts = 0 then (vS1 W s, .noPoints)
   else if (vR W s).2.1 = [] then (if vOutClean W s = .ok then vS2c W s else vS1 W s, vOutClean W s)
   else match (vR W s).2.2 with
     | some e => (vS2 W s, .ofErr e)
     | none => vyrovnani W f (vS2 W s) := by
  rw [vyrovnani]
  simp only [h]
  have hadj : (projectEq W s).1.adj = false := by rw [projectEq_adj, h]
  have heta := St.adj_false_eta _ hadj
  change _ = if (projectEq W s).2.unknowns.length = 0 then _ else _
  by_cases hr : (vR W s).2.1 = []
  · have hr' : (hugePass (projectEq W s).2 (projectEq W s).1.net).2.1 = [] := hr
    have hn := hugePass_nil_removed _ _ hr'
    have e1 : ∀ e, (Outcome.ofErr e = Outcome.ok) = False := fun e => eq_false (ofErr_ne_ok e)
    cases h22 : (hugePass (projectEq W s).2 (projectEq W s).1.net).2.2 with
    | some e => simp [vS1, vA, vOutClean, vR, hr', hn, heta, h22, e1]
    | none =>
      cases hres : (projectEq W s).2.resid with
      | ok u => simp [vS1, vA, vS2c, vOutClean, vR, hr', hn, heta, h22, hres]
      | error e => simp [vS1, vA, vOutClean, vR, hr', hn, heta, h22, hres, e1]
  · have hr' : (hugePass (projectEq W s).2 (projectEq W s).1.net).2.1 ≠ [] := hr
    have hr'' : (hugePass (projectEq W s).2 (projectEq W s).1.net).2.1.isEmpty = false := by
      simpa [List.isEmpty_iff] using hr'
    simp only [vS1, vA, vS2, vR, hr'', Bool.false_eq_true, if_false, heta]
    repeat' split
    all_goals first | rfl | simp_all

theorem vyrovnani_zero (W : WorldA) (s : St) : vyrovnani W 0 s = (s, if s.adj then .ok else .fuel) := by
  rw [vyrovnani]

theorem vyrovnani_adj (W : WorldA) (f : Nat) (s : St) (h : s.adj = true) : vyrovnani W f s = (s, .ok) := by
  cases f <;> simp [vyrovnani, h]

/-- fuel-free description of a run of `vyrovnani_` -/
inductive VRun (W : WorldA) : St → St → Outcome → Prop
  | adj (s) : s.adj = true → VRun W s s .ok
  | fuel (s) : s.adj = false → VRun W s s .fuel
  | early (s o) : s.adj = false → (o = .noUnknowns ∨ o = .noObs ∨ o = .noPoints) → VRun W s (vS1 W s) o
  | cleanOk (s) : s.adj = false → (vR W s).2.1 = [] → vOutClean W s = .ok → VRun W s (vS2c W s) .ok
  | cleanErr (s) : s.adj = false → (vR W s).2.1 = [] → vOutClean W s ≠ .ok → VRun W s (vS1 W s) (vOutClean W s)
  | err (s e) : s.adj = false → (vR W s).2.1 ≠ [] → (vR W s).2.2 = some e → VRun W s (vS2 W s) (.ofErr e)
  | loop (s s' o) : s.adj = false → (vR W s).2.1 ≠ [] → (vR W s).2.2 = none →
      VRun W (vS2 W s) s' o → VRun W s s' o

/-- every fuelled run is a `VRun` -/
theorem vyrovnani_run (W : WorldA) : ∀ (f : Nat) (s : St), VRun W s (vyrovnani W f s).1 (vyrovnani W f s).2
  | 0, s => by
    rw [vyrovnani_zero]
    cases h : s.adj
    · simpa using VRun.fuel s h
    · simpa using VRun.adj s h
  | f + 1, s => by
    cases h : s.adj
    · rw [vyrovnani_succ W f s h]
      split
      · exact VRun.early s _ h (Or.inl rfl)
      split
      · exact VRun.early s _ h (Or.inr (Or.inl rfl))
      split
      · exact VRun.early s _ h (Or.inr (Or.inr rfl))
      split
      · next hr =>
        split
        · next hok => rw [hok]; exact VRun.cleanOk s h hr hok
        · next hne => exact VRun.cleanErr s h hr hne
      next hr =>
      split
      · next e he => exact VRun.err s e h hr he
      · next he => exact VRun.loop s _ _ h hr he (vyrovnani_run W f _)
    · rw [vyrovnani_adj W _ s h]; exact VRun.adj s h


-- ------------------------------------------------------------------ projectEq

theorem projectEq_some (W : WorldA) (s : St) (a : Abs) (h : s.proj = some a) : projectEq W s = (s, a) := by
  simp [projectEq, h]

theorem vS1_proj (W : WorldA) (s : St) : (vS1 W s).proj = some (vA W s) := by
  unfold vS1 vA projectEq
  cases h : s.proj <;> simp [h]

theorem vS1_adj (W : WorldA) (s : St) : (vS1 W s).adj = s.adj := by
  unfold vS1 projectEq
  cases h : s.proj <;> simp

/-- the decision data in use are those of the world on a configuration whose revised points are the current points -/
theorem vA_world (W : WorldA) (s : St) (hI : Inv W s) :
    ∃ n0, (W n0).abs = vA W s ∧ (W n0).net = (vS1 W s).net := by
  unfold vS1 vA projectEq
  cases h : s.proj with
  | none => exact ⟨s.net, by simp⟩
  | some a => simpa using hI a h

theorem vS1_inv (W : WorldA) (s : St) (hI : Inv W s) : Inv W (vS1 W s) := by
  intro a ha
  rw [vS1_proj] at ha
  obtain ⟨n0, h1, h2⟩ := vA_world W s hI
  exact ⟨n0, by rw [h1]; exact Option.some.inj ha, h2⟩

theorem vS1_actives (W : WorldA) (hW : W.WF) (s : St) : actives (vS1 W s).net ≤ actives s.net := by
  unfold vS1 projectEq
  cases h : s.proj with
  | none => simpa using hW.shrink s.net
  | some a => simp

theorem vS1_removed (W : WorldA) (s : St) : ∃ l, (vS1 W s).removed = s.removed ++ l := by
  unfold vS1 projectEq
  cases h : s.proj with
  | none => exact ⟨(W s.net).rm, by simp⟩
  | some a => exact ⟨[], by simp⟩

theorem vS1_still (W : WorldA) (hS : W.Still) (s : St) :
    (vS1 W s).net = s.net ∧ (vS1 W s).removed = s.removed := by
  unfold vS1 projectEq
  cases h : s.proj with
  | none => simp [(hS s.net).1, (hS s.net).2]
  | some a => simp

theorem vR_actives (W : WorldA) (hW : W.WF) (s : St) (hI : Inv W s) :
    actives (vR W s).1 + (vR W s).2.1.length ≤ actives (vS1 W s).net := by
  obtain ⟨n0, h1, h2⟩ := vA_world W s hI
  unfold vR
  apply hugePass_actives
  intro P hP c hc
  rw [← h2] at hP
  rw [← h1] at hc
  exact hW.huge_active n0 P c hP hc

theorem vS2_actives (W : WorldA) (hW : W.WF) (s : St) (hI : Inv W s) (hr : (vR W s).2.1 ≠ []) :
    actives (vS2 W s).net < actives s.net := by
  have h1 := vR_actives W hW s hI
  have h2 := vS1_actives W hW s
  have h3 : 0 < (vR W s).2.1.length := List.length_pos_iff.mpr hr
  show actives (vR W s).1 < _
  omega

theorem inv_of_proj_none (W : WorldA) (s : St) (h : s.proj = none) : Inv W s := by
  intro a ha; rw [h] at ha; cases ha

-- ------------------------------------------------------------------ properties of a run

theorem VRun.inv0 {W : WorldA} {s s' : St} {o : Outcome} (h : VRun W s s' o) (hI : Inv W s) : Inv W s' := by
  induction h with
  | adj s _ => exact hI
  | fuel s _ => exact hI
  | early s o _ _ => exact vS1_inv W s hI
  | cleanOk s _ _ _ => exact vS1_inv W s hI
  | cleanErr s _ _ _ => exact vS1_inv W s hI
  | err s e _ _ _ => exact inv_of_proj_none W _ rfl
  | loop s s' o _ _ _ _ ih => exact ih (inv_of_proj_none W _ rfl)

theorem VRun.actives_le {W : WorldA} (hW : W.WF) {s s' : St} {o : Outcome} (h : VRun W s s' o) (hI : Inv W s) :
    actives s'.net ≤ actives s.net := by
  induction h with
  | adj s _ => exact Nat.le_refl _
  | fuel s _ => exact Nat.le_refl _
  | early s o _ _ => exact vS1_actives W hW s
  | cleanOk s _ _ _ => exact vS1_actives W hW s
  | cleanErr s _ _ _ => exact vS1_actives W hW s
  | err s e _ hr _ => exact Nat.le_of_lt (vS2_actives W hW s hI hr)
  | loop s s' o _ hr _ _ ih =>
    exact Nat.le_trans (ih (inv_of_proj_none W _ rfl)) (Nat.le_of_lt (vS2_actives W hW s hI hr))

theorem VRun.removed_prefix {W : WorldA} {s s' : St} {o : Outcome} (h : VRun W s s' o) :
    ∃ l, s'.removed = s.removed ++ l := by
  induction h with
  | adj s _ => exact ⟨[], by simp⟩
  | fuel s _ => exact ⟨[], by simp⟩
  | early s o _ _ => exact vS1_removed W s
  | cleanOk s _ _ _ => exact vS1_removed W s
  | cleanErr s _ _ _ => exact vS1_removed W s
  | err s e _ hr _ =>
    obtain ⟨l, hl⟩ := vS1_removed W s
    exact ⟨l ++ (vR W s).2.1, by simp [vS2, hl]⟩
  | loop s s' o _ hr _ _ ih =>
    obtain ⟨l, hl⟩ := vS1_removed W s
    obtain ⟨l', hl'⟩ := ih
    exact ⟨l ++ (vR W s).2.1 ++ l', by rw [hl']; simp [vS2, hl]⟩


theorem vOutClean_ne_fuel (W : WorldA) (s : St) : vOutClean W s ≠ .fuel := by
  unfold vOutClean
  split
  · exact ofErr_ne_fuel _
  · split
    · simp
    · exact ofErr_ne_fuel _

/-- with fuel above the number of active coordinate groups, `vyrovnani_` does not run out of fuel -/
theorem vyrovnani_fuel (W : WorldA) (hW : W.WF) (vf : Nat) (s : St) (hI : Inv W s)
    (hf : actives s.net < vf) : (vyrovnani W vf s).2 ≠ .fuel := by
  induction vf generalizing s with
  | zero => omega
  | succ f ih =>
    cases h : s.adj
    · rw [vyrovnani_succ W f s h]
      split
      · simp
      split
      · simp
      split
      · simp
      split
      · exact vOutClean_ne_fuel W s
      next hr =>
      split
      · exact ofErr_ne_fuel _
      · have := vS2_actives W hW s hI hr
        exact ih _ (inv_of_proj_none W _ rfl) (by omega)
    · rw [vyrovnani_adj W _ s h]; simp

/-- `vyrovnani_` keeps the invariant and never re-activates a coordinate -/
theorem vyrovnani_inv (W : WorldA) (hW : W.WF) (vf : Nat) (s : St) (hI : Inv W s) :
    Inv W (vyrovnani W vf s).1 ∧ actives (vyrovnani W vf s).1.net ≤ actives s.net :=
  ⟨(vyrovnani_run W vf s).inv0 hI, (vyrovnani_run W vf s).actives_le hW hI⟩

-- ------------------------------------------------------------------ removeUnknown

/-- the removal code `null_space` records for an unknown -/
def rmCode (u : Unknown) : Rm := match u.type with
  | .Z => .missing_z
  | _ => .singular_xy

theorem removeUnknown_eq (s : St) (u : Unknown) : removeUnknown s u =
    { net := s.net.map fun P => if P.id == u.pid then P.strip (rmCode u) else P
      removed := s.removed ++ [(u.pid, rmCode u)], proj := none, adj := false } := rfl

theorem actives_mapStrip_le (pid : String) (c : Rm) : ∀ net : Net,
    actives (net.map fun P => if P.id == pid then P.strip c else P) ≤ actives net
  | [] => Nat.le_refl _
  | P :: rest => by
    have ih := actives_mapStrip_le pid c rest
    have := strip_actives_le P c
    simp only [List.map_cons, actives]
    split <;> omega

theorem actives_mapStrip_lt (pid : String) (c : Rm) : ∀ net : Net,
    (∃ P ∈ net, P.id = pid ∧ (P.strip c).actives < P.actives) →
    actives (net.map fun P => if P.id == pid then P.strip c else P) < actives net
  | [], h => by obtain ⟨P, hP, _⟩ := h; cases hP
  | Q :: rest, h => by
    obtain ⟨P, hP, hid, hlt⟩ := h
    have hle := actives_mapStrip_le pid c rest
    have hQ := strip_actives_le Q c
    simp only [List.map_cons, actives]
    rcases List.mem_cons.mp hP with rfl | hP'
    · have : (P.id == pid) = true := by simp [hid]
      simp only [this, if_true]; omega
    · have ih := actives_mapStrip_lt pid c rest ⟨P, hP', hid, hlt⟩
      split <;> omega

theorem strip_rmCode_lt (P : Point) (u : Unknown)
    (h : (if u.type = .Z then P.z.active else P.xy.active) = true) :
    (P.strip (rmCode u)).actives < P.actives := by
  obtain ⟨id, xy, z⟩ := P
  obtain ⟨pid, t⟩ := u
  cases t <;> cases xy <;> cases z <;> simp [rmCode, Point.strip, Point.actives, CStat.active] at h ⊢

/-- **each step of `null_space` removes a point**: under `WF` the flagged unknown's coordinate group
    is active, so `removeUnknown` strictly decreases the number of active groups -/
theorem removeUnknown_decreases (s : St) (u : Unknown)
    (h : ∃ P ∈ s.net, P.id = u.pid ∧ (if u.type = .Z then P.z.active else P.xy.active) = true) :
    actives (removeUnknown s u).net < actives s.net := by
  obtain ⟨P, hP, hid, hact⟩ := h
  rw [removeUnknown_eq]
  exact actives_mapStrip_lt u.pid (rmCode u) s.net ⟨P, hP, hid, strip_rmCode_lt P u hact⟩

theorem removeUnknown_actives_le (s : St) (u : Unknown) : actives (removeUnknown s u).net ≤ actives s.net := by
  rw [removeUnknown_eq]; exact actives_mapStrip_le _ _ _


-- ------------------------------------------------------------------ nullSpace

theorem nullSpace_zero (W : WorldA) (vf : Nat) (s : St) : nullSpace W vf 0 s = (s, .exc .fuel) := by
  rw [nullSpace]

/-- one level of the recursion of `null_space` -/
theorem nullSpace_succ (W : WorldA) (vf f : Nat) (s : St) : nullSpace W vf (f+1) s =
  match (vyrovnani W vf s).2 with
  | .ok => match (vyrovnani W vf s).1.proj with
    | some a => ((vyrovnani W vf s).1, .defect a.defect)
    | none => ((vyrovnani W vf s).1, .exc .fuel)
  | .badReg => match (vA W (vyrovnani W vf s).1).flagged with
     | i :: _ => match (vA W (vyrovnani W vf s).1).unknowns[i-1]? with
        | some u => nullSpace W vf f (removeUnknown (vS1 W (vyrovnani W vf s).1) u)
        | none => (vS1 W (vyrovnani W vf s).1, .defect (vA W (vyrovnani W vf s).1).defect)
     | [] => (vS1 W (vyrovnani W vf s).1, .defect (vA W (vyrovnani W vf s).1).defect)
  | o => ((vyrovnani W vf s).1, .exc o) := by
  rw [nullSpace]; rfl

/-- fuel-free description of a run of `null_space` -/
inductive NRun (W : WorldA) : St → St → NsOut → Prop
  | fuel (s) : NRun W s s (.exc .fuel)
  | ok (s s1 a) : VRun W s s1 .ok → s1.proj = some a → NRun W s s1 (.defect a.defect)
  | okNone (s s1) : VRun W s s1 .ok → s1.proj = none → NRun W s s1 (.exc .fuel)
  | exc (s s1 o) : VRun W s s1 o → o ≠ .ok → o ≠ .badReg → NRun W s s1 (.exc o)
  | fall (s s1) : VRun W s s1 .badReg →
      ((vA W s1).flagged = [] ∨ ∃ i t, (vA W s1).flagged = i :: t ∧ (vA W s1).unknowns[i-1]? = none) →
      NRun W s (vS1 W s1) (.defect (vA W s1).defect)
  | step (s s1 i t u s' r) : VRun W s s1 .badReg → (vA W s1).flagged = i :: t →
      (vA W s1).unknowns[i-1]? = some u → NRun W (removeUnknown (vS1 W s1) u) s' r → NRun W s s' r

/-- every fuelled run is an `NRun` -/
theorem nullSpace_run (W : WorldA) (vf : Nat) : ∀ (nf : Nat) (s : St),
    NRun W s (nullSpace W vf nf s).1 (nullSpace W vf nf s).2
  | 0, s => by rw [nullSpace_zero]; exact NRun.fuel s
  | f + 1, s => by
    rw [nullSpace_succ]
    have hv := vyrovnani_run W vf s
    generalize (vyrovnani W vf s).2 = o at hv ⊢
    generalize (vyrovnani W vf s).1 = s1 at hv ⊢
    cases o with
    | ok =>
      simp only
      split
      · next a ha => exact NRun.ok s s1 a hv ha
      · next ha => exact NRun.okNone s s1 hv ha
    | badReg =>
      simp only
      split
      · next i t hfl =>
        split
        · next u hu => exact NRun.step s s1 i t u _ _ hv hfl hu (nullSpace_run W vf f _)
        · next hu => exact NRun.fall s s1 hv (Or.inr ⟨i, t, hfl, hu⟩)
      · next hfl => exact NRun.fall s s1 hv (Or.inl hfl)
    | matvec e => exact NRun.exc s s1 _ hv (by simp) (by simp)
    | noUnknowns => exact NRun.exc s s1 _ hv (by simp) (by simp)
    | noObs => exact NRun.exc s s1 _ hv (by simp) (by simp)
    | noPoints => exact NRun.exc s s1 _ hv (by simp) (by simp)
    | fuel => exact NRun.exc s s1 _ hv (by simp) (by simp)

/-- the point of a flagged unknown is active (under `WF`, for the decision data in use) -/
theorem flagged_decreases (W : WorldA) (hW : W.WF) (s1 : St) (hI : Inv W s1) (i : Nat) (t : List Nat) (u : Unknown)
    (hfl : (vA W s1).flagged = i :: t) (hu : (vA W s1).unknowns[i-1]? = some u) :
    actives (removeUnknown (vS1 W s1) u).net < actives (vS1 W s1).net := by
  obtain ⟨n0, h1, h2⟩ := vA_world W s1 hI
  have hi : i ∈ (W n0).abs.flagged := by rw [h1, hfl]; exact List.mem_cons_self ..
  obtain ⟨u', hu', P, hP, hid, hact⟩ := hW.flagged_active n0 i hi
  rw [h1, hu] at hu'
  cases hu'
  apply removeUnknown_decreases
  exact ⟨P, h2 ▸ hP, hid, hact⟩

theorem NRun.inv0 {W : WorldA} {s s' : St} {r : NsOut} (h : NRun W s s' r) (hI : Inv W s) : Inv W s' := by
  induction h with
  | fuel s => exact hI
  | ok s s1 a hv _ => exact hv.inv0 hI
  | okNone s s1 hv _ => exact hv.inv0 hI
  | exc s s1 o hv _ _ => exact hv.inv0 hI
  | fall s s1 hv _ => exact vS1_inv W s1 (hv.inv0 hI)
  | step s s1 i t u s' r hv _ _ _ ih => exact ih (inv_of_proj_none W _ rfl)

theorem NRun.actives_le {W : WorldA} (hW : W.WF) {s s' : St} {r : NsOut} (h : NRun W s s' r) (hI : Inv W s) :
    actives s'.net ≤ actives s.net := by
  induction h with
  | fuel s => exact Nat.le_refl _
  | ok s s1 a hv _ => exact hv.actives_le hW hI
  | okNone s s1 hv _ => exact hv.actives_le hW hI
  | exc s s1 o hv _ _ => exact hv.actives_le hW hI
  | fall s s1 hv _ => exact Nat.le_trans (vS1_actives W hW s1) (hv.actives_le hW hI)
  | step s s1 i t u s' r hv hfl hu _ ih =>
    have h1 := hv.actives_le hW hI
    have h2 := vS1_actives W hW s1
    have h3 := flagged_decreases W hW s1 (hv.inv0 hI) i t u hfl hu
    have h4 := ih (inv_of_proj_none W _ rfl)
    omega

theorem NRun.removed_prefix {W : WorldA} {s s' : St} {r : NsOut} (h : NRun W s s' r) :
    ∃ l, s'.removed = s.removed ++ l := by
  induction h with
  | fuel s => exact ⟨[], by simp⟩
  | ok s s1 a hv _ => exact hv.removed_prefix
  | okNone s s1 hv _ => exact hv.removed_prefix
  | exc s s1 o hv _ _ => exact hv.removed_prefix
  | fall s s1 hv _ =>
    obtain ⟨l, hl⟩ := hv.removed_prefix
    obtain ⟨l', hl'⟩ := vS1_removed W s1
    exact ⟨l ++ l', by rw [hl', hl]; simp⟩
  | step s s1 i t u s' r hv _ _ _ ih =>
    obtain ⟨l, hl⟩ := hv.removed_prefix
    obtain ⟨l', hl'⟩ := vS1_removed W s1
    obtain ⟨l'', hl''⟩ := ih
    exact ⟨l ++ l' ++ [(u.pid, rmCode u)] ++ l'', by rw [hl'', removeUnknown_eq]; simp [hl', hl]⟩

/-- `tst_vyrovnani_` is only set while the project equations are current -/
def AdjCur (s : St) : Prop := s.adj = true → ∃ a, s.proj = some a

theorem VRun.adjCur {W : WorldA} {s s' : St} {o : Outcome} (h : VRun W s s' o) (hA : AdjCur s) :
    AdjCur s' ∧ (o = .ok → s'.adj = true) := by
  induction h with
  | adj s h => exact ⟨hA, fun _ => h⟩
  | fuel s h => exact ⟨hA, fun h' => by cases h'⟩
  | early s o h ho =>
    refine ⟨fun h' => ⟨_, vS1_proj W s⟩, fun h' => ?_⟩
    subst h'; simp at ho
  | cleanOk s _ _ _ => exact ⟨fun _ => ⟨_, vS1_proj W s⟩, fun _ => rfl⟩
  | cleanErr s h _ hne =>
    exact ⟨fun h' => (by rw [vS1_adj, h] at h'; cases h'), fun h' => absurd h' hne⟩
  | err s e _ _ _ => exact ⟨fun h' => (by cases h'), fun h' => absurd h' (ofErr_ne_ok e)⟩
  | loop s s' o _ _ _ _ ih => exact ih (fun h' => by cases h')

theorem NRun.adjCur {W : WorldA} {s s' : St} {r : NsOut} (h : NRun W s s' r) (hA : AdjCur s) : AdjCur s' := by
  induction h with
  | fuel s => exact hA
  | ok s s1 a hv _ => exact (hv.adjCur hA).1
  | okNone s s1 hv _ => exact (hv.adjCur hA).1
  | exc s s1 o hv _ _ => exact (hv.adjCur hA).1
  | fall s s1 hv _ => exact fun _ => ⟨_, vS1_proj W s1⟩
  | step s s1 i t u s' r hv _ _ _ ih => exact ih (fun h' => by cases h')

/-- `null_space` terminates within `actives + 1` steps (both fuels).
    The hypothesis `AdjCur s` (`tst_vyrovnani_` set ⇒ project equations current) is necessary: on
    `{ net := [], removed := [], proj := none, adj := true }` the model's `nullSpace W 1 1` takes the
    branch commented "unreachable" and answers `.exc .fuel`.  `St.init` satisfies it and
    `vyrovnani` / `nullSpace` keep it (`VRun.adjCur`, `NRun.adjCur`). -/
theorem nullSpace_fuel (W : WorldA) (hW : W.WF) (vf nf : Nat) (s : St) (hI : Inv W s) (hA : AdjCur s)
    (hv : actives s.net < vf) (hn : actives s.net < nf) : (nullSpace W vf nf s).2 ≠ .exc .fuel := by
  induction nf generalizing s with
  | zero => omega
  | succ f ih =>
    rw [nullSpace_succ]
    have hrun := vyrovnani_run W vf s
    have hfu := vyrovnani_fuel W hW vf s hI hv
    generalize (vyrovnani W vf s).2 = o at hrun hfu ⊢
    generalize (vyrovnani W vf s).1 = s1 at hrun ⊢
    have hI1 := hrun.inv0 hI
    have hle := hrun.actives_le hW hI
    cases o with
    | ok =>
      simp only
      obtain ⟨a, ha⟩ := (hrun.adjCur hA).1 ((hrun.adjCur hA).2 rfl)
      rw [ha]; simp
    | badReg =>
      simp only
      split
      · next i t hfl =>
        split
        · next u hu =>
          have h2 := vS1_actives W hW s1
          have h3 := flagged_decreases W hW s1 hI1 i t u hfl hu
          exact ih _ (inv_of_proj_none W _ rfl) (fun h' => by cases h') (by omega) (by omega)
        · simp
      · simp
    | matvec e => simp
    | noUnknowns => simp
    | noObs => simp
    | noPoints => simp
    | fuel => exact absurd rfl hfu

theorem nullSpace_inv (W : WorldA) (hW : W.WF) (vf nf : Nat) (s : St) (hI : Inv W s) :
    Inv W (nullSpace W vf nf s).1 ∧ actives (nullSpace W vf nf s).1.net ≤ actives s.net :=
  ⟨(nullSpace_run W vf nf s).inv0 hI, (nullSpace_run W vf nf s).actives_le hW hI⟩

/-- the removal record only grows -/
theorem vyrovnani_removed_prefix (W : WorldA) (vf : Nat) (s : St) :
    ∃ l, (vyrovnani W vf s).1.removed = s.removed ++ l := (vyrovnani_run W vf s).removed_prefix

theorem nullSpace_removed_prefix (W : WorldA) (vf nf : Nat) (s : St) :
    ∃ l, (nullSpace W vf nf s).1.removed = s.removed ++ l := (nullSpace_run W vf nf s).removed_prefix


-- ------------------------------------------------------------------ generalParameters

/-- `GeneralParameters` with the destructuring `let`s spelled as projections -/
theorem generalParameters_eq (W : WorldA) (vf nf : Nat) (s0 : St) : generalParameters W vf nf s0 =
  match (nullSpace W vf nf s0).2 with
  | .exc o => ((nullSpace W vf nf s0).1, .exception o)
  | .defect _ =>
    match (nullSpace W vf nf (nullSpace W vf nf s0).1).2 with
    | .exc o => ((nullSpace W vf nf (nullSpace W vf nf s0).1).1, .exception o)
    | .defect d =>
      if minN (vA W (nullSpace W vf nf (nullSpace W vf nf s0).1).1).unknowns (vS1 W (nullSpace W vf nf (nullSpace W vf nf s0).1).1).net < d then
        (vS1 W (nullSpace W vf nf (nullSpace W vf nf s0).1).1, .cannot d true (singularList (vA W (nullSpace W vf nf (nullSpace W vf nf s0).1).1)))
      else
        match (vyrovnani W vf (vS1 W (nullSpace W vf nf (nullSpace W vf nf s0).1).1)).2 with
        | .ok => ((vyrovnani W vf (vS1 W (nullSpace W vf nf (nullSpace W vf nf s0).1).1)).1, .adjusted d)
        | .badReg => ((vyrovnani W vf (vS1 W (nullSpace W vf nf (nullSpace W vf nf s0).1).1)).1, .cannot d false (singularList (vA W (nullSpace W vf nf (nullSpace W vf nf s0).1).1)))
        | o => ((vyrovnani W vf (vS1 W (nullSpace W vf nf (nullSpace W vf nf s0).1).1)).1, .exception o) := by
  rfl

/-- `GeneralParameters` does not run out of fuel when both fuels exceed the number of active groups -/
theorem generalParameters_no_fuel (W : WorldA) (hW : W.WF) (vf nf : Nat) (s0 : St) (hI : Inv W s0) (hA : AdjCur s0)
    (hv : actives s0.net < vf) (hn : actives s0.net < nf) :
    (generalParameters W vf nf s0).2 ≠ .exception .fuel := by
  have r1 := nullSpace_run W vf nf s0
  have f1 := nullSpace_fuel W hW vf nf s0 hI hA hv hn
  have i1 := nullSpace_inv W hW vf nf s0 hI
  have a1 := r1.adjCur hA
  rw [generalParameters_eq]
  generalize nullSpace W vf nf s0 = p1 at *
  have f2 := nullSpace_fuel W hW vf nf p1.1 i1.1 a1 (by omega) (by omega)
  have i2 := nullSpace_inv W hW vf nf p1.1 i1.1
  generalize nullSpace W vf nf p1.1 = p2 at *
  have i3 := vS1_inv W p2.1 i2.1
  have l3 := vS1_actives W hW p2.1
  have f3 := vyrovnani_fuel W hW vf (vS1 W p2.1) i3 (by omega)
  generalize vyrovnani W vf (vS1 W p2.1) = p3 at *
  split
  · next o ho => intro h; simp at h; subst h; exact f1 ho
  split
  · next o ho => intro h; simp at h; subst h; exact f2 ho
  split
  · simp
  split
  · simp
  · simp
  · next hne1 hne2 => intro h; simp at h; exact f3 h

/-- **C20_removal_terminates**: the decision never ends by exhaustion of the fuel `actives net + 1` -/
theorem decideA_no_fuel (W : WorldA) (hW : W.WF) (net : Net) : (decideA W net).2 ≠ .exception .fuel := by
  apply generalParameters_no_fuel W hW _ _ _ (inv_of_proj_none W _ rfl) (fun h => by cases h) <;>
    simp [fuelFor, St.init]

/-- anything kept by `project_equations()`, `vyrovnani_` and `null_space` is kept by `GeneralParameters` -/
theorem generalParameters_preserves (W : WorldA) (vf nf : Nat) (Φ : St → Prop)
    (hP : ∀ s, Φ s → Φ (vS1 W s)) (hV : ∀ s, Φ s → Φ (vyrovnani W vf s).1)
    (hN : ∀ s, Φ s → Φ (nullSpace W vf nf s).1) (s0 : St) (h0 : Φ s0) :
    Φ (generalParameters W vf nf s0).1 := by
  have h1 := hN s0 h0
  have h2 := hN _ h1
  have h3 := hP _ h2
  have h4 := hV _ h3
  rw [generalParameters_eq]
  split
  · exact h1
  split
  · exact h2
  split
  · exact h3
  split <;> exact h4


-- ------------------------------------------------------------------ soundness of the record

/-- positions and identifiers are those of `net0`, and every changed point is named in the record -/
def Rec (net0 : Net) (s : St) : Prop :=
  s.net.length = net0.length ∧
  ∀ k (hk : k < net0.length) (hk' : k < s.net.length),
    (s.net[k]).id = (net0[k]).id ∧ (s.net[k] ≠ net0[k] → (net0[k]).id ∈ s.removed.map Prod.fst)

theorem Rec.congr {net0 : Net} {s s' : St} (h : Rec net0 s) (hn : s'.net = s.net) (hr : s'.removed = s.removed) :
    Rec net0 s' := by
  unfold Rec at *
  rw [hn, hr]; exact h

theorem Rec.step {net0 : Net} {s : St} (h : Rec net0 s) (net' : Net) (l : List (String × Rm))
    (proj : Option Abs) (adj : Bool) (hlen : net'.length = s.net.length)
    (hpos : ∀ k (hk : k < s.net.length) (hk' : k < net'.length),
      (net'[k]).id = (s.net[k]).id ∧ (net'[k] ≠ s.net[k] → (s.net[k]).id ∈ l.map Prod.fst)) :
    Rec net0 { net := net', removed := s.removed ++ l, proj := proj, adj := adj } := by
  refine ⟨hlen.trans h.1, ?_⟩
  intro k hk hk'
  have hks : k < s.net.length := by rw [h.1]; exact hk
  obtain ⟨e1, e2⟩ := h.2 k hk hks
  obtain ⟨p1, p2⟩ := hpos k hks hk'
  refine ⟨p1.trans e1, ?_⟩
  intro hne
  simp only [List.map_append, List.mem_append]
  by_cases hc : net'[k] = s.net[k]
  · left; apply e2; intro h'; exact hne (hc.trans h')
  · right; rw [← e1]; exact p2 hc

theorem vS2_rec (W : WorldA) (hS : W.Still) {net0 : Net} {s : St} (h : Rec net0 s) : Rec net0 (vS2 W s) := by
  have h1 : Rec net0 (vS1 W s) := h.congr (vS1_still W hS s).1 (vS1_still W hS s).2
  exact h1.step (vR W s).1 (vR W s).2.1 none false (hugePass_length _ _)
    (fun k hk hk' => hugePass_pos (vA W s) (vS1 W s).net k hk hk')

theorem removeUnknown_rec {net0 : Net} {s : St} (h : Rec net0 s) (u : Unknown) : Rec net0 (removeUnknown s u) := by
  rw [removeUnknown_eq]
  apply h.step _ _ none false (by simp)
  intro k hk hk'
  simp only [List.getElem_map]
  split
  · next hid =>
    refine ⟨strip_id _ _, fun _ => ?_⟩
    simpa using hid
  · exact ⟨rfl, fun hne => absurd rfl hne⟩

theorem VRun.keepsRec {W : WorldA} (hS : W.Still) {net0 : Net} {s s' : St} {o : Outcome} (h : VRun W s s' o)
    (hR : Rec net0 s) : Rec net0 s' := by
  induction h with
  | adj s _ => exact hR
  | fuel s _ => exact hR
  | early s o _ _ => exact hR.congr (vS1_still W hS s).1 (vS1_still W hS s).2
  | cleanOk s _ _ _ => exact hR.congr (vS1_still W hS s).1 (vS1_still W hS s).2
  | cleanErr s _ _ _ => exact hR.congr (vS1_still W hS s).1 (vS1_still W hS s).2
  | err s e _ _ _ => exact vS2_rec W hS hR
  | loop s s' o _ _ _ _ ih => exact ih (vS2_rec W hS hR)

theorem NRun.keepsRec {W : WorldA} (hS : W.Still) {net0 : Net} {s s' : St} {r : NsOut} (h : NRun W s s' r)
    (hR : Rec net0 s) : Rec net0 s' := by
  induction h with
  | fuel s => exact hR
  | ok s s1 a hv _ => exact hv.keepsRec hS hR
  | okNone s s1 hv _ => exact hv.keepsRec hS hR
  | exc s s1 o hv _ _ => exact hv.keepsRec hS hR
  | fall s s1 hv _ => exact (hv.keepsRec hS hR).congr (vS1_still W hS s1).1 (vS1_still W hS s1).2
  | step s s1 i t u s' r hv _ _ _ ih =>
    exact ih (removeUnknown_rec ((hv.keepsRec hS hR).congr (vS1_still W hS s1).1 (vS1_still W hS s1).2) u)

theorem rec_init (net : Net) : Rec net (St.init net) :=
  ⟨rfl, fun _ _ _ => ⟨rfl, fun hne => absurd rfl hne⟩⟩

/-- **what is removed is recorded** (decision layer proper): positions and identifiers of the
    points are kept, and a point whose status changed is named in the removal record -/
theorem decideA_sound (W : WorldA) (hS : W.Still) (net : Net) :
    let r := generalParameters W (fuelFor net) (fuelFor net) (St.init net)
    r.1.net.length = net.length ∧
    ∀ k (hk : k < net.length) (hk' : k < r.1.net.length),
      (r.1.net[k]).id = (net[k]).id ∧ (r.1.net[k] ≠ net[k] → (net[k]).id ∈ r.1.removed.map Prod.fst) :=
  generalParameters_preserves W _ _ (Rec net)
    (fun s h => h.congr (vS1_still W hS s).1 (vS1_still W hS s).2)
    (fun s h => (vyrovnani_run W _ s).keepsRec hS h)
    (fun s h => (nullSpace_run W _ _ s).keepsRec hS h) _ (rec_init net)

-- ------------------------------------------------------------------ bound on the record

theorem vS2_meas (W : WorldA) (hW : W.WF) (hS : W.Still) (s : St) (hI : Inv W s) :
    (vS2 W s).removed.length + actives (vS2 W s).net ≤ s.removed.length + actives s.net := by
  have h1 := vR_actives W hW s hI
  have h2 := vS1_still W hS s
  show ((vS1 W s).removed ++ (vR W s).2.1).length + actives (vR W s).1 ≤ _
  rw [List.length_append, ← h2.1, ← h2.2]
  omega

theorem VRun.meas {W : WorldA} (hW : W.WF) (hS : W.Still) {s s' : St} {o : Outcome} (h : VRun W s s' o)
    (hI : Inv W s) : s'.removed.length + actives s'.net ≤ s.removed.length + actives s.net := by
  induction h with
  | adj s _ => exact Nat.le_refl _
  | fuel s _ => exact Nat.le_refl _
  | early s o _ _ => rw [(vS1_still W hS s).1, (vS1_still W hS s).2]
  | cleanOk s _ _ _ =>
    show (vS1 W s).removed.length + actives (vS1 W s).net ≤ _
    rw [(vS1_still W hS s).1, (vS1_still W hS s).2]
  | cleanErr s _ _ _ => rw [(vS1_still W hS s).1, (vS1_still W hS s).2]
  | err s e _ _ _ => exact vS2_meas W hW hS s hI
  | loop s s' o _ _ _ _ ih =>
    exact Nat.le_trans (ih (inv_of_proj_none W _ rfl)) (vS2_meas W hW hS s hI)

theorem NRun.meas {W : WorldA} (hW : W.WF) (hS : W.Still) {s s' : St} {r : NsOut} (h : NRun W s s' r)
    (hI : Inv W s) : s'.removed.length + actives s'.net ≤ s.removed.length + actives s.net := by
  induction h with
  | fuel s => exact Nat.le_refl _
  | ok s s1 a hv _ => exact hv.meas hW hS hI
  | okNone s s1 hv _ => exact hv.meas hW hS hI
  | exc s s1 o hv _ _ => exact hv.meas hW hS hI
  | fall s s1 hv _ =>
    rw [(vS1_still W hS s1).1, (vS1_still W hS s1).2]; exact hv.meas hW hS hI
  | step s s1 i t u s' r hv hfl hu _ ih =>
    have h1 := hv.meas hW hS hI
    have h3 := flagged_decreases W hW s1 (hv.inv0 hI) i t u hfl hu
    have h4 := ih (inv_of_proj_none W _ rfl)
    have h5 : (removeUnknown (vS1 W s1) u).removed.length = (vS1 W s1).removed.length + 1 := by
      rw [removeUnknown_eq]; simp
    rw [(vS1_still W hS s1).1] at h3
    rw [(vS1_still W hS s1).2] at h5
    omega

/-- every recorded removal of the decision layer switched at least one active group off: under `WF`
    and `Still` the number of recorded removals is at most the number of active coordinate groups
    (≤ 2 per point) -/
theorem decideA_removed_bound (W : WorldA) (hW : W.WF) (hS : W.Still) (net : Net) :
    (decideA W net).1.length ≤ actives net := by
  have := generalParameters_preserves W (fuelFor net) (fuelFor net)
    (fun s => Inv W s ∧ s.removed.length + actives s.net ≤ actives net)
    (fun s h => ⟨vS1_inv W s h.1, by rw [(vS1_still W hS s).1, (vS1_still W hS s).2]; exact h.2⟩)
    (fun s h => ⟨(vyrovnani_run W _ s).inv0 h.1, Nat.le_trans ((vyrovnani_run W _ s).meas hW hS h.1) h.2⟩)
    (fun s h => ⟨(nullSpace_run W _ _ s).inv0 h.1, Nat.le_trans ((nullSpace_run W _ _ s).meas hW hS h.1) h.2⟩)
    (St.init net) ⟨inv_of_proj_none W _ rfl, by simp [St.init]⟩
  show (generalParameters W (fuelFor net) (fuelFor net) (St.init net)).1.removed.length ≤ _
  omega


-- ------------------------------------------------------------------ verdicts

/-- whenever `vyrovnani_` can meet `BadRegularization` on the project equations of a configuration
    (a huge-covariance query or the residual queries throw it), the first flagged index exists and
    is an index of `unknowns_` — for the real solvers: refusal ⇒ defect > 0 ⇒ #flags = defect > 0 -/
def WorldA.RefusalFlags (W : WorldA) : Prop :=
  ∀ n, ((W n).abs.resid = .error .BadRegularization ∨ ∃ P, (W n).abs.huge P = .error .BadRegularization) →
    ∃ i u, (W n).abs.flagged = i :: (W n).abs.flagged.tail ∧ (W n).abs.unknowns[i - 1]? = some u

/-- a huge-covariance pass that ends by `BadRegularization` has removed nothing before: the solver
    refuses on the first covariance query (`q_xx` triggers the lazy solve) -/
def WorldA.RefusalFirst (W : WorldA) : Prop :=
  ∀ n, (hugePass (W n).abs (W n).net).2.2 = some .BadRegularization → (hugePass (W n).abs (W n).net).2.1 = []

/-- sufficient for `RefusalFirst`: a solver that answers one covariance query with a removal does not
    refuse another one on the same project equations -/
def WorldA.UniformRefusal (W : WorldA) : Prop :=
  ∀ n P Q c, (W n).abs.huge P = .ok (some c) → (W n).abs.huge Q ≠ .error .BadRegularization

theorem hugePass_err (a : Abs) : ∀ (net : Net) (e : ErrKind), (hugePass a net).2.2 = some e →
    ∃ P ∈ net, a.huge P = .error e
  | [], e, h => by simp [hugePass] at h
  | P :: rest, e, h => by
    cases hP : a.huge P with
    | error e' =>
      have : e' = e := by simpa [hugePass, hP] using h
      exact ⟨P, List.mem_cons_self .., this ▸ hP⟩
    | ok o =>
      have h' : (hugePass a rest).2.2 = some e := by cases o <;> simpa [hugePass, hP] using h
      obtain ⟨Q, hQ, hQe⟩ := hugePass_err a rest e h'
      exact ⟨Q, List.mem_cons_of_mem _ hQ, hQe⟩

theorem hugePass_removed (a : Abs) : ∀ (net : Net), (hugePass a net).2.1 ≠ [] →
    ∃ P ∈ net, ∃ c, a.huge P = .ok (some c)
  | [], h => by simp [hugePass] at h
  | P :: rest, h => by
    cases hP : a.huge P with
    | error e' => simp [hugePass, hP] at h
    | ok o =>
      cases o with
      | some c => exact ⟨P, List.mem_cons_self .., c, hP⟩
      | none =>
        have h' : (hugePass a rest).2.1 ≠ [] := by simpa [hugePass, hP] using h
        obtain ⟨Q, hQ, hQe⟩ := hugePass_removed a rest h'
        exact ⟨Q, List.mem_cons_of_mem _ hQ, hQe⟩

theorem WorldA.UniformRefusal.refusalFirst {W : WorldA} (h : W.UniformRefusal) : W.RefusalFirst := by
  intro n he
  by_contra hne
  obtain ⟨P, _, c, hP⟩ := hugePass_removed _ _ hne
  obtain ⟨Q, _, hQ⟩ := hugePass_err _ _ _ he
  exact h n P Q c hP hQ

/-- `tst_vyrovnani_` set ⇒ the solver answered the residual queries on the current project equations -/
def Good (s : St) : Prop := s.adj = true → ∃ a, s.proj = some a ∧ a.resid = .ok ()

/-- `vyrovnani_` met `BadRegularization` on the project equations that are still current
    (`tst_vyrovnani_` itself was cleared by the function-try-block) -/
def Refused (s : St) : Prop :=
  ∃ a, s.proj = some a ∧
    (a.resid = .error .BadRegularization ∨ ∃ P, a.huge P = .error .BadRegularization)

theorem vOutClean_ok (W : WorldA) (s : St) (h : vOutClean W s = .ok) : (vA W s).resid = .ok () := by
  unfold vOutClean at h
  split at h
  · exact absurd h (ofErr_ne_ok _)
  · split at h
    · next u hu => exact hu
    · exact absurd h (ofErr_ne_ok _)

theorem vOutClean_badReg (W : WorldA) (s : St) (h : vOutClean W s = .badReg) :
    (vA W s).resid = .error .BadRegularization ∨ ∃ P, (vA W s).huge P = .error .BadRegularization := by
  unfold vOutClean at h
  split at h
  · next e he =>
    have := ofErr_badReg e h; subst this
    obtain ⟨P, _, hP⟩ := hugePass_err _ _ _ he
    exact Or.inr ⟨P, hP⟩
  · split at h
    · cases h
    · next e he =>
      have := ofErr_badReg e h; subst this
      exact Or.inl he

theorem VRun.verdict {W : WorldA} (hF : W.RefusalFirst) {s s' : St} {o : Outcome} (h : VRun W s s' o)
    (hI : Inv W s) (hG : Good s) : (o = .ok → s'.adj = true ∧ Good s') ∧ (o = .badReg → Refused s') := by
  induction h with
  | adj s h => exact ⟨fun _ => ⟨h, hG⟩, fun h' => by cases h'⟩
  | fuel s h => exact ⟨fun h' => (by cases h'), fun h' => by cases h'⟩
  | early s o h ho =>
    refine ⟨fun h' => ?_, fun h' => ?_⟩ <;> (subst h'; simp at ho)
  | cleanOk s _ _ hok =>
    exact ⟨fun _ => ⟨rfl, fun _ => ⟨_, vS1_proj W s, vOutClean_ok W s hok⟩⟩, fun h' => by cases h'⟩
  | cleanErr s _ _ hne =>
    exact ⟨fun h' => absurd h' hne, fun h' => ⟨_, vS1_proj W s, vOutClean_badReg W s h'⟩⟩
  | err s e _ hr he =>
    refine ⟨fun h' => absurd h' (ofErr_ne_ok e), fun h' => ?_⟩
    have := ofErr_badReg e h'; subst this
    obtain ⟨n0, h1, h2⟩ := vA_world W s hI
    have := hF n0
    rw [h1, h2] at this
    exact absurd (this he) hr
  | loop s s' o _ _ _ _ ih => exact ih (inv_of_proj_none W _ rfl) (fun h' => by cases h')

theorem vA_of_proj (W : WorldA) (s : St) (a : Abs) (h : s.proj = some a) : vA W s = a ∧ vS1 W s = s := by
  unfold vA vS1; rw [projectEq_some W s a h]; exact ⟨rfl, rfl⟩

theorem NRun.verdict {W : WorldA} (hF : W.RefusalFirst) (hflag : W.RefusalFlags) {s s' : St} {r : NsOut}
    (h : NRun W s s' r) (hI : Inv W s) (hG : Good s) (d : Nat) (hr : r = .defect d) :
    s'.adj = true ∧ ∃ a, s'.proj = some a ∧ a.resid = .ok () ∧ a.defect = d := by
  induction h with
  | fuel s => cases hr
  | okNone s s1 hv _ => cases hr
  | exc s s1 o hv _ _ => cases hr
  | ok s s1 a hv hp =>
    obtain ⟨hadj, hg⟩ := (hv.verdict hF hI hG).1 rfl
    obtain ⟨a', ha', hres⟩ := hg hadj
    rw [hp] at ha'; cases ha'
    cases hr
    exact ⟨hadj, a, hp, hres, rfl⟩
  | fall s s1 hv hfl =>
    exfalso
    obtain ⟨a, hp, hbad⟩ := (hv.verdict hF hI hG).2 rfl
    obtain ⟨n0, h1, _⟩ := hv.inv0 hI a hp
    rw [(vA_of_proj W s1 a hp).1] at hfl
    obtain ⟨i, u, hi, hu⟩ := hflag n0 (by rw [h1]; exact hbad)
    rw [h1] at hi hu
    rcases hfl with hfl | ⟨i', t, hfl, hnone⟩
    · rw [hfl] at hi; cases hi
    · rw [hfl] at hi
      have : i' = i := by simpa using (List.cons.inj hi).1
      subst this
      rw [hu] at hnone; cases hnone
  | step s s1 i t u s' r hv _ _ _ ih =>
    exact ih (inv_of_proj_none W _ rfl) (fun h' => by cases h') hr

/-- what the verdicts `adjusted` and `cannot` of `GeneralParameters` mean under `RefusalFirst` and
    `RefusalFlags`: both `null_space()` calls end with `tst_vyrovnani_` set on project equations `n0`
    whose residual queries were answered; `trans_VWV()` is a no-op; `cannot` can only be the
    "not enough constrained points" form on such an `n0` -/
theorem generalParameters_verdict (W : WorldA) (hF : W.RefusalFirst) (hflag : W.RefusalFlags)
    (vf nf : Nat) (s0 : St) (hI : Inv W s0) (hG : Good s0) :
    (∀ d, (generalParameters W vf nf s0).2 = .adjusted d →
      ∃ n0, (W n0).abs.resid = .ok () ∧ (W n0).abs.defect = d ∧
        (W n0).net = (generalParameters W vf nf s0).1.net ∧ d ≤ minN (W n0).abs.unknowns (W n0).net) ∧
    (∀ d b l, (generalParameters W vf nf s0).2 = .cannot d b l →
      ∃ n0, (W n0).abs.resid = .ok () ∧ (W n0).abs.defect = d ∧
        minN (W n0).abs.unknowns (W n0).net < d) := by
  have r1 := nullSpace_run W vf nf s0
  have v1 := r1.verdict hF hflag hI hG
  have i1 := r1.inv0 hI
  rw [generalParameters_eq]
  generalize nullSpace W vf nf s0 = p1 at *
  split
  · exact ⟨fun d h => by simp at h, fun d b l h => by simp at h⟩
  next d1 hd1 =>
  obtain ⟨hadj1, a1, hp1, hres1, _⟩ := v1 d1 hd1
  have g1 : Good p1.1 := fun _ => ⟨a1, hp1, hres1⟩
  have r2 := nullSpace_run W vf nf p1.1
  have v2 := r2.verdict hF hflag i1 g1
  have i2 := r2.inv0 i1
  generalize nullSpace W vf nf p1.1 = p2 at *
  split
  · exact ⟨fun d h => by simp at h, fun d b l h => by simp at h⟩
  next d hd =>
  obtain ⟨hadj2, a2, hp2, hres2, hdef2⟩ := v2 d hd
  obtain ⟨n0, hn0, hnet0⟩ := i2 a2 hp2
  rw [(vA_of_proj W p2.1 a2 hp2).1, (vA_of_proj W p2.1 a2 hp2).2, vyrovnani_adj W vf p2.1 hadj2]
  split
  · next hlt =>
    refine ⟨fun d' h => by simp at h, fun d' b l h => ?_⟩
    simp only [Verdict.cannot.injEq] at h
    obtain ⟨rfl, _, _⟩ := h
    exact ⟨n0, by rw [hn0]; exact hres2, by rw [hn0]; exact hdef2, by rw [hn0, hnet0]; exact hlt⟩
  · next hge =>
    refine ⟨fun d' h => ?_, fun d' b l h => by simp at h⟩
    simp only [Verdict.adjusted.injEq] at h
    subst h
    exact ⟨n0, by rw [hn0]; exact hres2, by rw [hn0]; exact hdef2, hnet0, by rw [hn0, hnet0]; omega⟩


-- what remains true of `adjusted` without `RefusalFirst`

theorem VRun.verdict0 {W : WorldA} {s s' : St} {o : Outcome} (h : VRun W s s' o) (hG : Good s) :
    (o = .ok → s'.adj = true ∧ Good s') ∧ (o = .badReg → Refused s' ∨ s'.adj = false) := by
  induction h with
  | adj s h => exact ⟨fun _ => ⟨h, hG⟩, fun h' => by cases h'⟩
  | fuel s h => exact ⟨fun h' => (by cases h'), fun h' => by cases h'⟩
  | early s o h ho =>
    refine ⟨fun h' => ?_, fun h' => ?_⟩ <;> (subst h'; simp at ho)
  | cleanOk s _ _ hok =>
    exact ⟨fun _ => ⟨rfl, fun _ => ⟨_, vS1_proj W s, vOutClean_ok W s hok⟩⟩, fun h' => by cases h'⟩
  | cleanErr s _ _ hne =>
    exact ⟨fun h' => absurd h' hne, fun h' => Or.inl ⟨_, vS1_proj W s, vOutClean_badReg W s h'⟩⟩
  | err s e _ hr he => exact ⟨fun h' => absurd h' (ofErr_ne_ok e), fun _ => Or.inr rfl⟩
  | loop s s' o _ _ _ _ ih => exact ih (fun h' => by cases h')

/-- since the function-try-block of `vyrovnani_` clears `tst_vyrovnani_` on every exception, `Good`
    (`tst_vyrovnani_` set ⇒ the residual queries were answered on the current project equations)
    is kept by `vyrovnani_` whatever the outcome -/
theorem VRun.good {W : WorldA} {s s' : St} {o : Outcome} (h : VRun W s s' o) (hG : Good s) : Good s' := by
  induction h with
  | adj s _ => exact hG
  | fuel s _ => exact hG
  | early s o h _ => exact fun h' => by rw [vS1_adj, h] at h'; cases h'
  | cleanOk s _ _ hok => exact fun _ => ⟨_, vS1_proj W s, vOutClean_ok W s hok⟩
  | cleanErr s h _ _ => exact fun h' => by rw [vS1_adj, h] at h'; cases h'
  | err s e _ _ _ => exact fun h' => by cases h'
  | loop s s' o _ _ _ _ ih => exact ih (fun h' => by cases h')

theorem vS1_good (W : WorldA) (s : St) (hG : Good s) : Good (vS1 W s) := by
  intro h
  rw [vS1_adj] at h
  obtain ⟨a, ha, hr⟩ := hG h
  rw [(vA_of_proj W s a ha).2]
  exact ⟨a, ha, hr⟩

theorem NRun.good {W : WorldA} (hflag : W.RefusalFlags) {s s' : St} {r : NsOut}
    (h : NRun W s s' r) (hI : Inv W s) (hG : Good s) (d : Nat) (hr : r = .defect d) : Good s' := by
  induction h with
  | fuel s => cases hr
  | okNone s s1 hv _ => cases hr
  | exc s s1 o hv _ _ => cases hr
  | ok s s1 a hv hp => exact ((hv.verdict0 hG).1 rfl).2
  | fall s s1 hv hfl =>
    rcases (hv.verdict0 hG).2 rfl with ⟨a, hp, hbad⟩ | hadj
    · exfalso
      obtain ⟨n0, h1, _⟩ := hv.inv0 hI a hp
      rw [(vA_of_proj W s1 a hp).1] at hfl
      obtain ⟨i, u, hi, hu⟩ := hflag n0 (by rw [h1]; exact hbad)
      rw [h1] at hi hu
      rcases hfl with hfl | ⟨i', t, hfl, hnone⟩
      · rw [hfl] at hi; cases hi
      · rw [hfl] at hi
        have : i' = i := by simpa using (List.cons.inj hi).1
        subst this
        rw [hu] at hnone; cases hnone
    · intro h'; rw [vS1_adj, hadj] at h'; cases h'
  | step s s1 i t u s' r hv _ _ _ ih =>
    exact ih (inv_of_proj_none W _ rfl) (fun h' => by cases h') hr

/-- with `RefusalFlags` alone, a verdict `adjusted d` still sits on a final configuration `n0` on
    which `vyrovnani_` completed (residual queries answered, revised points = final points); what
    is lost without `RefusalFirst` is that `d` is the defect of `n0` and `d ≤ min_n` of `n0` -/
theorem decideA_adjusted_weak (W : WorldA) (hflag : W.RefusalFlags) (net : Net) (d : Nat)
    (h : (decideA W net).2 = .adjusted d) :
    ∃ n0, (W n0).abs.resid = .ok () ∧
      (W n0).net = (generalParameters W (fuelFor net) (fuelFor net) (St.init net)).1.net := by
  change (generalParameters W (fuelFor net) (fuelFor net) (St.init net)).2 = _ at h
  generalize fuelFor net = f at h ⊢
  have hI : Inv W (St.init net) := inv_of_proj_none W _ rfl
  have hG : Good (St.init net) := fun h' => by cases h'
  generalize St.init net = s0 at h hI hG ⊢
  have r1 := nullSpace_run W f f s0
  have g1 := r1.good hflag hI hG
  have i1 := r1.inv0 hI
  generalize hgp : generalParameters W f f s0 = g at h ⊢
  rw [generalParameters_eq] at hgp
  generalize nullSpace W f f s0 = p1 at *
  split at hgp
  · subst hgp; simp at h
  next d1 hd1 =>
  have r2 := nullSpace_run W f f p1.1
  have g2 := r2.good hflag i1 (g1 d1 hd1)
  have i2 := r2.inv0 i1
  generalize nullSpace W f f p1.1 = p2 at *
  split at hgp
  · subst hgp; simp at h
  next d2 hd2 =>
  have r3 := vyrovnani_run W f (vS1 W p2.1)
  have g3 := r3.verdict0 (vS1_good W _ (g2 d2 hd2))
  have i3 := r3.inv0 (vS1_inv W _ i2)
  generalize vyrovnani W f (vS1 W p2.1) = p3 at *
  split at hgp
  · subst hgp; simp at h
  split at hgp
  · next ho =>
    subst hgp
    obtain ⟨hadj, hg⟩ := g3.1 ho
    obtain ⟨a, ha, hres⟩ := hg hadj
    obtain ⟨n0, h1, h2⟩ := i3 a ha
    exact ⟨n0, by rw [h1]; exact hres, h2⟩
  · subst hgp; simp at h
  · subst hgp; simp at h

/-- **no adjustment is reported for a refused configuration**: a verdict `adjusted d` means that
    `vyrovnani_` completed on the project equations of some configuration `n0` — the huge-covariance
    pass removed nothing and the solver answered the residual queries — whose revised points are the
    final points, whose defect is `d`, and `d ≤ min_n`.
    `RefusalFirst` is necessary (see `NetDecisionCex.lean`): if a pass first removes a point and then
    meets `BadRegularization`, `null_space` re-projects, may find nothing flagged and return the defect
    with `tst_vyrovnani_` still false; `trans_VWV()` then runs `vyrovnani_` again, which may remove
    further points, and `adjusted d` is reported with the `d` of an earlier configuration. -/
theorem decideA_adjusted (W : WorldA) (hflag : W.RefusalFlags) (hfirst : W.RefusalFirst) (net : Net) (d : Nat)
    (h : (decideA W net).2 = .adjusted d) :
    ∃ n0, (W n0).abs.resid = .ok () ∧ (W n0).abs.defect = d ∧
      (W n0).net = (generalParameters W (fuelFor net) (fuelFor net) (St.init net)).1.net ∧
      d ≤ minN (W n0).abs.unknowns (W n0).net :=
  (generalParameters_verdict W hfirst hflag _ _ _ (inv_of_proj_none W _ rfl) (fun h' => by cases h')).1 d h

/-- **the diagnosis is dead code when every solver refuses uniformly**: if (1) a configuration on
    which the solver answers the residual queries has at least `defect` constrained coordinates
    with an index, (2) whenever `vyrovnani_` meets `BadRegularization` on the current project
    equations at least one unknown is flagged, and (3) a refusal is not preceded by a removal in the
    same huge-covariance pass (`RefusalFirst`, necessary: `NetDecisionCex.lean`), then
    `GeneralParameters` never says "network can not be adjusted" -/
theorem decideA_never_cannot (W : WorldA)
    (hcount : ∀ n, (W n).abs.resid = .ok () → (W n).abs.defect ≤ minN (W n).abs.unknowns (W n).net)
    (hflag : W.RefusalFlags) (hfirst : W.RefusalFirst)
    (net : Net) (d : Nat) (b : Bool) (l : List (Nat × Unknown)) :
    (decideA W net).2 ≠ .cannot d b l := by
  intro h
  obtain ⟨n0, hres, hdef, hlt⟩ :=
    (generalParameters_verdict W hfirst hflag _ _ _ (inv_of_proj_none W _ rfl) (fun h' => by cases h')).2 d b l h
  have := hcount n0 hres
  omega

end Gama.NetDecision
