/-
  C13 — an EVALUATED, NON-DEGENERATE instance over ℝ of the hypothesis of
  `C13_rerun_zero_iterations_project_equations` (Props/C13Rerun.lean): gama-local (`Rerun.runLocal`) with the real
  adjustment (`Rerun.peEnv`: `PE.projectEquations` + `Ls.Net.netSolve alg`) on b-W7b's levelling network
  `C06NZ.Ex.netWobs` (Lemmas/PeWitnessReal.lean: inexact height differences, a correlated cluster, residuals
  `(3/11, 6/11, −2/11)`) leaves `refine_adjustment()` by `break` in its first turn, with zero iterations.

  Everything below `section facade` is stated at the DEFAULT instances of ℝ (`instTrigScalarReal`, `instScalarReal`) —
  the instances `C13_rerun_zero_iterations_project_equations` is stated at.  `peO` / `npG_answers` (proved at the
  carrier of the façade theorems, `fieldTrig` / `scalarOfField`) are transported once by `trig_eq` /
  `scalarReal_eq_fieldScalar` (`peO_inst`, `answers_inst`).
-/
import Gama.Lemmas.C06Refine
import Gama.Model.ExportRerun
import Gama.Lemmas.PeWitnessReal
import Gama.Lemmas.C06GN
namespace Gama.Rerun
open Gama Gama.Lin Gama.RA Gama.Gen.Obsdh Gama.TL Gama.C06NZ Gama.C06FP

section facade
open Gama.Ls
attribute [local instance] sqrtFnOfSqrtField
attribute [local instance 2000] scalarOfField
attribute [local instance 3000] fieldTrig

/-- `peO` at the default `TrigScalar ℝ` -/
theorem peO_inst : @PE.projectEquations ℝ instTrigScalarReal Ex.netWobs = .ok (Ex.npG [1], Ex.uO) := by
  rw [← trig_eq]; exact Ex.peO

/-- `npG_answers` at the default `Scalar ℝ` -/
theorem answers_inst (alg : Ls.Alg) (halg : alg ≠ .svd) :
    ∃ a, @Ls.Net.netSolve ℝ instScalarReal alg (Ex.npG [1]) = .ok a := by
  rw [scalarReal_eq_fieldScalar]; exact Ex.npG_answers [1] (Or.inl rfl) alg halg

end facade

/-- coordinates / orientations of the state: those of `netWobs` -/
noncomputable def σW : Lin.Net ℝ := PE.sigmaOf Ex.netWobs
/-- levelling points have no xy -/
def xyzW : Nat → Bool := fun _ => false
/-- `OD` in iteration order: the five height differences of the three clusters of `netWobs` -/
noncomputable def obsW : List (RA.DObs ℝ) :=
  [⟨.h_diff, 0, 0, 1, 0, 10 + 1 / 1000, 0, 0, 0⟩, ⟨.h_diff, 0, 1, 2, 0, -4, 0, 0, 0⟩,
   ⟨.h_diff, 0, 1, 2, 0, -5 + 2 / 1000, 0, 0, 0⟩, ⟨.h_diff, 1, 2, 0, 0, -5, 0, 0, 0⟩,
   ⟨.h_diff, 2, 0, 2, 0, 5 + 4 / 1000, 0, 0, 0⟩]

/-- `netWobs` with `z` added to every value -/
noncomputable def netWz (z : ℝ) : PE.Net ℝ :=
  { points := [⟨"A", ⟨0, 0, 100, .unused, .fixed⟩⟩, ⟨"B", ⟨0, 0, 110, .unused, .constrained⟩⟩,
               ⟨"C", ⟨0, 0, 105, .unused, .free⟩⟩]
    clusters := [⟨none, ⟨3, 2, #[16, 3, 8, 25, 5, 40]⟩,
                   [Ex.hdR true 0 1 (10 + 1 / 1000 + z), Ex.hdR false 1 2 (-4 + z), Ex.hdR true 1 2 (-5 + 2 / 1000 + z)]⟩,
                 ⟨none, ⟨1, 0, #[1]⟩, [Ex.hdR false 2 0 (-5 + z)]⟩,
                 ⟨none, ⟨1, 0, #[16]⟩, [Ex.hdR true 0 2 (5 + 4 / 1000 + z)]⟩]
    m0 := 2, xNorth := 0, fuel := 10, idx := IdxState.init }

/-- **(a)** the network `project_equations()` reads in the state `(σW, obsW)` IS `netWobs` -/
theorem withState_netWobs : withState Ex.netWobs σW obsW = Ex.netWobs := by
  have h : withState Ex.netWobs σW obsW = netWz 0 := rfl
  rw [h]
  unfold netWz Ex.netWobs Ex.netWg
  simp only [add_zero]

/-- **the adjustment of the state**: `project_equations()` answers `(npG [1], uO)` and the solver answers -/
theorem peAdjust_netWobs (alg : Ls.Alg) (halg : alg ≠ .svd) :
    ∃ a, Ls.Net.netSolve alg (Ex.npG [1]) = .ok a ∧
      peAdjust alg Ex.netWobs σW xyzW obsW = some ⟨Ex.uO.net.idx, a.x.toList, a.r.toList, PE.revisedObs Ex.uO.net⟩ := by
  obtain ⟨a, ha⟩ := answers_inst alg halg
  refine ⟨a, ha, ?_⟩
  unfold peAdjust
  rw [withState_netWobs, peO_inst]
  simp only []
  rw [ha]

/-- the state gama-local starts the loop from -/
noncomputable def sW : St ℝ := ⟨σW, xyzW, obsW, 0⟩

/-- `refine_obsdh_reductions` does nothing on height differences -/
theorem obsdh_W (adjusted : Bool) (idx : IdxState) (x : List ℝ) :
    refineObsdh adjusted σW xyzW idx x obsW = (obsW, false, false) := rfl

theorem start_W : start σW xyzW obsW = sW := rfl

/-- `TestLinearization` of a levelling network: every `pol` is 0 whatever the adjustment -/
theorem testLin_W (fuel : Nat) (idx : IdxState) (x v : List ℝ) :
    testLinearization σW fuel idx x v (PE.revisedObs Ex.uO.net) = some false := by
  have hr : PE.revisedObs Ex.uO.net =
      [⟨.h_diff, 0, 0, 1, 0, 10 + 1 / 1000⟩, ⟨.h_diff, 0, 1, 2, 0, -5 + 2 / 1000⟩, ⟨.h_diff, 2, 0, 2, 0, 5 + 4 / 1000⟩] := rfl
  rw [hr]
  have hp : polsFrom σW fuel idx x v 1
      [⟨.h_diff, 0, 0, 1, 0, 10 + 1 / 1000⟩, ⟨.h_diff, 0, 1, 2, 0, -5 + 2 / 1000⟩, ⟨.h_diff, 2, 0, 2, 0, 5 + 4 / 1000⟩]
      = some (List.replicate 3 (0 : ℝ)) := by
    have h0 : polsFrom σW fuel idx x v 1
        [⟨.h_diff, 0, 0, 1, 0, 10 + 1 / 1000⟩, ⟨.h_diff, 0, 1, 2, 0, -5 + 2 / 1000⟩, ⟨.h_diff, 2, 0, 2, 0, 5 + 4 / 1000⟩]
        = some [(Scalar.ofNat 0 : ℝ), Scalar.ofNat 0, Scalar.ofNat 0] := rfl
    rw [h0]
    simp only [C06R.ofNat_eq, Nat.cast_zero]
    rfl
  unfold testLinearization
  rw [hp, Option.map_some, C06L.testLin_zeros]

/-- one turn of the three regenerated tests at `sW`: none asks, nothing changes -/
theorem runTests_W (alg : Ls.Alg) (halg : alg ≠ .svd)
    (ra : Lin.Net ℝ → (Nat → Bool) → List (DObs ℝ) → RA.Adj ℝ → Lin.Net ℝ × (Nat → Bool)) (fuel : Nat) :
    runTests (peEnv alg Ex.netWobs ra fuel) refineTests sW = some (sW, false) := by
  obtain ⟨a, _, hadj⟩ := peAdjust_netWobs alg halg
  have hA : (peEnv alg Ex.netWobs ra fuel).adjust sW.σ sW.xyz sW.obs
      = some ⟨Ex.uO.net.idx, a.x.toList, a.r.toList, PE.revisedObs Ex.uO.net⟩ := hadj
  have h1 : ∀ (adjusted : Bool) (idx : IdxState) (x : List ℝ),
      refineObsdh adjusted sW.σ sW.xyz idx x sW.obs = (sW.obs, false, false) := obsdh_W
  have hT : ∀ (idx : IdxState) (x v : List ℝ),
      testLinearization sW.σ (peEnv alg Ex.netWobs ra fuel).fuel idx x v (PE.revisedObs Ex.uO.net) = some false :=
    fun idx x v => testLin_W fuel idx x v
  simp only [refineTests, runTests, runTest, h1, hA, hT, Option.map_some]

/-- **the run on `netWobs`** (default instances of ℝ — those of `C13_rerun_zero_iterations_project_equations`): with
    envelope, cholesky or gso, any `refine_approx_coordinates` `ra`, any fuel and any iteration bound ≥ 1, gama-local
    leaves `refine_adjustment()` by `break` after ZERO iterations in the state `(σW, xyzW, obsW)`; the hypothesis `hred`
    of the C13 theorem holds there, and the reported adjustment is `netSolve alg (npG [1])` on what
    `project_equations()` built — a NON-zero solution (`rhs_ = (1, 2, 4)`, inconsistent). -/
theorem netWobs_run (alg : Ls.Alg) (halg : alg ≠ .svd)
    (ra : Lin.Net ℝ → (Nat → Bool) → List (DObs ℝ) → RA.Adj ℝ → Lin.Net ℝ × (Nat → Bool)) (fuel maxIter : Nat) :
    ∃ s', runLocal (peEnv alg Ex.netWobs ra fuel) (maxIter + 1) σW xyzW obsW = some (s', true, false) ∧
      s'.σ = σW ∧ s'.obs = obsW ∧
      (∀ o ∈ s'.obs, C06RA.curRed s'.σ s'.xyz o = none → o.red = 0) ∧
      ∃ a, Ls.Net.netSolve alg (Ex.npG [1]) = .ok a ∧
        report (peEnv alg Ex.netWobs ra fuel) s'
          = some ⟨Ex.uO.net.idx, a.x.toList, a.r.toList, PE.revisedObs Ex.uO.net⟩ := by
  refine ⟨sW, ?_, rfl, rfl, ?_, ?_⟩
  · unfold runLocal refineAdjustment
    rw [start_W]
    have h0 : ({ sW with iters := 0 } : St ℝ) = sW := rfl
    rw [h0]
    simp only [loop, runTests_W alg halg ra fuel, Option.map_some]
    rfl
  · intro o ho _
    have ho' : o ∈ obsW := ho
    simp only [obsW, List.mem_cons, List.not_mem_nil, or_false] at ho'
    rcases ho' with rfl | rfl | rfl | rfl | rfl <;> rfl
  · obtain ⟨a, ha, hadj⟩ := peAdjust_netWobs alg halg
    exact ⟨a, ha, hadj⟩

end Gama.Rerun
