/-
  Lemmas about the model of gon2deg.cpp / latlong.cpp over ℚ (exact arithmetic):
  field splitting, decimal rounding of the seconds, carry, read-back value.
-/
import Mathlib.Tactic.Ring
import Mathlib.Tactic.Linarith
import Mathlib.Tactic.Positivity
import Mathlib.Tactic.FieldSimp
import Mathlib.Tactic.NormNum
import Mathlib.Tactic.NormNum.OfScientific
import Mathlib.Algebra.Order.Field.Basic
import Mathlib.Data.Rat.Floor
import Gama.Model.Angles
namespace Gama.Angles
open Gama

/-! ### the `Scalar ℚ` instance in Mathlib terms -/

theorem ofNat_rat (n : ℕ) : (Scalar.ofNat n : ℚ) = (n : ℚ) := rfl

theorem ofInt_rat (i : ℤ) : (Scalar.ofInt i : ℚ) = (i : ℚ) := by
  unfold Scalar.ofInt
  split_ifs with h
  · rw [ofNat_rat, Nat.cast_natAbs, abs_of_neg h]; push_cast; ring
  · rw [ofNat_rat, Nat.cast_natAbs, abs_of_nonneg (not_lt.mp h)]

theorem dec91 : (Scalar.dec 9 1 : ℚ) = 9 / 10 := by
  show (OfScientific.ofScientific 9 true 1 : ℚ) = 9 / 10
  norm_num

theorem trunc_rat_nonneg {q : ℚ} (h : 0 ≤ q) : Trunc.trunc q = q.floor := by
  show ratTrunc q = q.floor
  unfold ratTrunc
  rw [if_neg (not_lt.mpr h)]

theorem abs_rat (q : ℚ) : Scalar.abs q = |q| := by
  show (if q < 0 then -q else q) = |q|
  split_ifs with h
  · exact (abs_of_neg h).symm
  · exact (abs_of_nonneg (not_lt.mp h)).symm

theorem floor_nonneg_rat {q : ℚ} (h : 0 ≤ q) : 0 ≤ q.floor := by
  rw [Rat.le_floor_iff]; exact_mod_cast h

/-! ### rounding -/

theorem roundHalfEven_cases (q : ℚ) : roundHalfEven q = q.floor ∨ roundHalfEven q = q.floor + 1 := by
  unfold roundHalfEven
  simp only []
  split_ifs <;> simp

/-- the printed value is within half a unit of the last printed digit -/
theorem roundHalfEven_close (q : ℚ) : |(roundHalfEven q : ℚ) - q| ≤ 1 / 2 := by
  have h1 := Rat.floor_le q
  have h2 := Rat.lt_floor_add_one q
  push_cast at h2
  unfold roundHalfEven
  simp only []
  rw [abs_le]
  split_ifs with ha hb hc
  · constructor <;> linarith
  · push_cast; constructor <;> linarith
  · have : q - (q.floor : ℚ) = 1 / 2 := le_antisymm (not_lt.mp hb) (not_lt.mp ha)
    constructor <;> linarith
  · have : q - (q.floor : ℚ) = 1 / 2 := le_antisymm (not_lt.mp hb) (not_lt.mp ha)
    push_cast; constructor <;> linarith

theorem roundHalfEven_zero : roundHalfEven 0 = 0 := by
  have h0 : (0 : ℚ).floor = 0 := by simpa using Rat.floor_intCast 0
  unfold roundHalfEven
  simp only [h0]
  norm_num

theorem roundHalfEven_nonneg {q : ℚ} (h : 0 ≤ q) : 0 ≤ roundHalfEven q := by
  have := floor_nonneg_rat h
  rcases roundHalfEven_cases q with h' | h' <;> omega

/-- a value below the integer `M` never rounds above `M` -/
theorem roundHalfEven_le_of_lt {q : ℚ} {M : ℤ} (h : q < (M : ℚ)) : roundHalfEven q ≤ M := by
  have : q.floor < M := Rat.floor_lt_iff.mpr h
  rcases roundHalfEven_cases q with h' | h' <;> omega

theorem scaled_zero (prec : ℕ) : scaled 0 prec = 0 := by
  unfold scaled; rw [zero_mul]; exact roundHalfEven_zero

/-! ### field splitting -/

/-- `x ≥ 0` in degrees: the three fields are in range and denote `x` exactly -/
theorem splitDeg_spec (neg : Bool) {x : ℚ} (hx : 0 ≤ x) :
    let f := splitDeg neg x
    f.neg = neg ∧ f.d = x.floor ∧ 0 ≤ f.d ∧ 0 ≤ f.m ∧ f.m < 60 ∧ 0 ≤ f.s ∧ f.s < 60 ∧
      x = (f.d : ℚ) + (f.m : ℚ) / 60 + f.s / 3600 := by
  intro f
  have hd : f.d = x.floor := trunc_rat_nonneg hx
  have h1 := Rat.floor_le x
  have h2 := Rat.lt_floor_add_one x
  push_cast at h2
  set x2 : ℚ := (x - (x.floor : ℚ)) * 60 with hx2
  have hx2n : 0 ≤ x2 := by rw [hx2]; nlinarith
  have hx2l : x2 < 60 := by rw [hx2]; nlinarith
  have hm : f.m = x2.floor := by
    show Trunc.trunc ((x - Scalar.ofInt (Trunc.trunc x)) * Scalar.ofNat 60) = x2.floor
    rw [trunc_rat_nonneg hx, ofInt_rat, ofNat_rat]
    exact trunc_rat_nonneg hx2n
  have h3 := Rat.floor_le x2
  have h4 := Rat.lt_floor_add_one x2
  push_cast at h4
  have hs : f.s = (x2 - (x2.floor : ℚ)) * 60 := by
    show ((x - Scalar.ofInt (Trunc.trunc x)) * Scalar.ofNat 60
          - Scalar.ofInt (Trunc.trunc ((x - Scalar.ofInt (Trunc.trunc x)) * Scalar.ofNat 60))) * Scalar.ofNat 60
        = (x2 - (x2.floor : ℚ)) * 60
    rw [trunc_rat_nonneg hx, ofInt_rat, ofNat_rat]
    have : Trunc.trunc ((x - (x.floor : ℚ)) * ((60 : ℕ) : ℚ)) = x2.floor := trunc_rat_nonneg hx2n
    rw [this, ofInt_rat]; push_cast; ring
  have hm0 : 0 ≤ x2.floor := floor_nonneg_rat hx2n
  have hm60 : x2.floor < 60 := Rat.floor_lt_iff.mpr (by exact_mod_cast hx2l)
  refine ⟨rfl, hd, hd ▸ floor_nonneg_rat hx, hm ▸ hm0, hm ▸ hm60, ?_, ?_, ?_⟩
  · rw [hs]; nlinarith
  · rw [hs]; nlinarith
  · rw [hs, hm, hd, hx2]; ring

theorem dropSign_rat (absFix : Bool) (g : ℚ) : dropSign absFix (decide (g < 0)) g = |g| := by
  unfold dropSign
  cases absFix
  · simp only [Bool.false_eq_true, if_false, decide_eq_true_eq]
    split_ifs with h
    · exact (abs_of_neg h).symm
    · exact (abs_of_nonneg (not_lt.mp h)).symm
  · simp only [if_true]; exact abs_rat g

theorem gonFields_eq (absFix : Bool) (g : ℚ) :
    gonFields absFix g = splitDeg (decide (g < 0)) (|g| * (9 / 10)) := by
  unfold gonFields
  simp only [dropSign_rat, dec91]

/-! ### what is printed -/

/-- degrees denoted by the printed fields -/
def Printed.degrees (p : Printed) : ℚ :=
  (p.d : ℚ) + (p.m : ℚ) / 60 + ((p.n : ℚ) / (10 : ℚ) ^ p.prec) / 3600

/-- the value `deg2gon` computes from the three printed fields (without the sign) -/
def Printed.gon (p : Printed) : ℚ :=
  ((p.d : ℚ) / 360 + (p.m : ℚ) / 21600 + ((p.n : ℚ) / (10 : ℚ) ^ p.prec) / 1296000) * 400

theorem Printed.gon_eq (p : Printed) : p.gon = p.degrees / (9 / 10) := by
  unfold Printed.gon Printed.degrees; ring

theorem pow10_pos (prec : ℕ) : (0 : ℚ) < (10 : ℚ) ^ prec := by positivity

/-- without the carry the seconds are printed as they round -/
theorem toPrinted_nocarry (neg : Bool) (d m : ℤ) (s : ℚ) (prec : ℕ) (sz : Bool) :
    toPrinted false neg d m s prec sz = { neg, d, m, n := scaled s prec, prec, secNegZero := sz } := by
  unfold toPrinted; simp

/-- the carry does not change the denoted angle -/
theorem toPrinted_degrees_carry (neg : Bool) (d m : ℤ) (s : ℚ) (prec : ℕ) (sz : Bool)
    (hs : s < 60) :
    (toPrinted true neg d m s prec sz).degrees = (toPrinted false neg d m s prec sz).degrees := by
  have hp := pow10_pos prec
  have hle : scaled s prec ≤ 60 * (10 : ℤ) ^ prec := by
    unfold scaled
    apply roundHalfEven_le_of_lt
    push_cast
    nlinarith
  rw [toPrinted_nocarry]
  unfold toPrinted
  simp only [Bool.true_and, decide_eq_true_eq]
  split_ifs with h1 h2
  · -- m + 1 = 60
    have hn : scaled s prec = 60 * (10 : ℤ) ^ prec := le_antisymm hle h1
    have hm : (m : ℚ) = 59 := by have : m = 59 := by omega
                                 rw [this]; norm_num
    unfold Printed.degrees
    simp only [scaled_zero, hn, hm]
    push_cast
    field_simp
    ring
  · have hn : scaled s prec = 60 * (10 : ℤ) ^ prec := le_antisymm hle h1
    unfold Printed.degrees
    simp only [scaled_zero, hn]
    push_cast
    field_simp
    ring
  · rfl

/-- printed angle vs. the exact fields: half a unit of the printed precision (arc seconds / 3600) -/
theorem toPrinted_close (carry neg : Bool) (d m : ℤ) (s : ℚ) (prec : ℕ) (sz : Bool) (hs : s < 60) :
    |(toPrinted carry neg d m s prec sz).degrees - ((d : ℚ) + (m : ℚ) / 60 + s / 3600)|
      ≤ (1 / 2) / (10 : ℚ) ^ prec / 3600 := by
  have hp := pow10_pos prec
  have key : |(toPrinted false neg d m s prec sz).degrees - ((d : ℚ) + (m : ℚ) / 60 + s / 3600)|
      ≤ (1 / 2) / (10 : ℚ) ^ prec / 3600 := by
    rw [toPrinted_nocarry]
    unfold Printed.degrees
    simp only []
    have h := roundHalfEven_close (s * (10 : ℚ) ^ prec)
    have e : (d : ℚ) + (m : ℚ) / 60 + ((scaled s prec : ℚ) / (10 : ℚ) ^ prec) / 3600 - ((d : ℚ) + (m : ℚ) / 60 + s / 3600)
        = ((scaled s prec : ℚ) - s * (10 : ℚ) ^ prec) / (10 : ℚ) ^ prec / 3600 := by
      field_simp; ring
    rw [e, abs_div, abs_div, abs_of_pos hp, abs_of_pos (by norm_num : (0 : ℚ) < 3600)]
    unfold scaled
    gcongr
  cases carry
  · exact key
  · rw [toPrinted_degrees_carry neg d m s prec sz hs]; exact key

theorem toPrinted_carry_shape (neg : Bool) (d m : ℤ) (s : ℚ) (prec : ℕ) (sz : Bool) :
    toPrinted true neg d m s prec sz =
      if 60 * (10 : ℤ) ^ prec ≤ scaled s prec then
        (if m + 1 = 60 then { neg, d := d + 1, m := 0, n := scaled 0 prec, prec }
         else { neg, d, m := m + 1, n := scaled 0 prec, prec })
      else { neg, d, m, n := scaled s prec, prec, secNegZero := sz } := by
  unfold toPrinted; simp

/-- with the carry every printed field is in range: 0 ≤ m < 60, 0 ≤ seconds < 60 -/
theorem toPrinted_carry_range (neg : Bool) (d m : ℤ) (s : ℚ) (prec : ℕ) (sz : Bool)
    (hd : 0 ≤ d) (hm0 : 0 ≤ m) (hm : m < 60) (hs0 : 0 ≤ s) (hs : s < 60) :
    0 ≤ (toPrinted true neg d m s prec sz).d ∧ 0 ≤ (toPrinted true neg d m s prec sz).m ∧
      (toPrinted true neg d m s prec sz).m < 60 ∧ 0 ≤ (toPrinted true neg d m s prec sz).n ∧
      (toPrinted true neg d m s prec sz).n < 60 * (10 : ℤ) ^ prec ∧
      (toPrinted true neg d m s prec sz).prec = prec ∧ (toPrinted true neg d m s prec sz).neg = neg := by
  have hp := pow10_pos prec
  have hpz : (0 : ℤ) < 60 * (10 : ℤ) ^ prec := by positivity
  have hn0 : 0 ≤ scaled s prec := roundHalfEven_nonneg (by positivity)
  rw [toPrinted_carry_shape]
  split_ifs with h1 h2
  · refine ⟨?_, ?_, ?_, ?_, ?_, rfl, rfl⟩
    · show 0 ≤ d + 1; omega
    · show (0 : ℤ) ≤ 0; exact le_refl _
    · show (0 : ℤ) < 60; norm_num
    · show 0 ≤ scaled 0 prec; rw [scaled_zero]
    · show scaled 0 prec < _; rw [scaled_zero]; exact hpz
  · refine ⟨hd, ?_, ?_, ?_, ?_, rfl, rfl⟩
    · show 0 ≤ m + 1; omega
    · show m + 1 < 60; omega
    · show 0 ≤ scaled 0 prec; rw [scaled_zero]
    · show scaled 0 prec < _; rw [scaled_zero]; exact hpz
  · exact ⟨hd, hm0, hm, hn0, not_le.mp h1, rfl, rfl⟩

/-- without the carry the printed seconds can reach (never exceed) 60 -/
theorem toPrinted_nocarry_range (neg : Bool) (d m : ℤ) (s : ℚ) (prec : ℕ) (sz : Bool)
    (hs0 : 0 ≤ s) (hs : s < 60) :
    0 ≤ (toPrinted false neg d m s prec sz).n ∧ (toPrinted false neg d m s prec sz).n ≤ 60 * (10 : ℤ) ^ prec := by
  have hp := pow10_pos prec
  rw [toPrinted_nocarry]
  refine ⟨roundHalfEven_nonneg (by positivity), ?_⟩
  unfold scaled
  apply roundHalfEven_le_of_lt
  push_cast
  nlinarith

/-! ### the formatter on ℚ -/

theorem gon2degWith_rat (carry absFix : Bool) (g : ℚ) (sign : ℤ) (prec : ℕ) :
    gon2degWith carry absFix g sign prec =
      some ((toPrinted carry (gonFields absFix g).neg (gonFields absFix g).d (gonFields absFix g).m
              (gonFields absFix g).s prec false).renderGon sign) := rfl

end Gama.Angles
