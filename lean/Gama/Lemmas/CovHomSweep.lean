/-
  The forward-substitution loop of `Homogenization::run` on the WHOLE `UpperBlockDiagonal` object
  (`sweepTab`, Model/BlockDiagonal.lean: one buffer `nonz`, the row table `tab`) versus the one-block
  loop `sweep` (Model/BandChol.lean).  Pure bookkeeping, any `[Scalar K]`.

  * `flat_split`      : `flat Fs = flat (take k) ++ buffer of block k ++ flat (drop (k+1))`;
  * `nonz_read`       : a read of the whole buffer at `floatsBefore k + off i j` (in-band pair of
                        block `k`) is the raw read of block `k` at `off i j`;
  * `sweepTab_block`  : `sweepTab` on the rows of block `k` (table offset `rowsBefore k`) = `sweep` of
                        block `k`;
  * `sweepTab_whole`  : the loop over all rows `1 … m` acts on the segment of block `k` exactly like
                        `sweep` of block `k` on the extracted segment (no block touches another
                        block's segment), and keeps the size.
-/
import Gama.Lemmas.CovHomDefs
namespace Gama.Cov
open Packed CovMat

set_option linter.unusedSectionVars false

variable {K : Type} [Scalar K]

/-! ### the buffer -/

omit [Scalar K] in
theorem flat_append (As Bs : List (CovMat K)) : flat (As ++ Bs) = flat As ++ flat Bs := by
  simp [flat]

omit [Scalar K] in
theorem flat_split {Fs : List (CovMat K)} {k : Nat} (hk : k < Fs.length) :
    flat Fs = flat (Fs.take k) ++ (Fs[k]'hk).buf.toList ++ flat (Fs.drop (k + 1)) := by
  conv_lhs => rw [← List.take_append_drop k Fs, List.drop_eq_getElem_cons hk]
  rw [flat_append, flat_cons, List.append_assoc]

/-- reads of the whole buffer inside block `k` -/
theorem nonz_read {Fs : List (CovMat K)} {nonz : Array K} {tail : List K}
    (hn : nonz.toList = flat Fs ++ tail) {k : Nat} (hk : k < Fs.length) (hF : (Fs[k]'hk).WF)
    {i j : Nat} (hb : InBand (Fs[k]'hk).dim (Fs[k]'hk).band i j) {n : Nat}
    (hnn : (n : Int) = (floatsBefore Fs k : Int) + off (Fs[k]'hk).dim (Fs[k]'hk).band i j) :
    nonz.getD n 0 = (Fs[k]'hk).raw 0 (off (Fs[k]'hk).dim (Fs[k]'hk).band i j) := by
  have hE : Emb (flat (Fs.take k)) (flat (Fs.drop (k + 1)) ++ tail) (arena nonz) (Fs[k]'hk) := by
    show nonz.toList = _
    rw [hn, flat_split hk]
    simp
  have hin := inBuf_off hF hb
  have hr := hE.raw 0 hin
  have hA := hE.inBuf hin
  unfold floatsBefore at hnn
  rw [← hnn] at hr hA
  rw [← hr]
  unfold CovMat.raw
  rw [if_pos hA, Int.toNat_natCast]
  rfl

/-! ### one row of the loop -/

/-- one row: table row `row`, vector position `pos` (0-based) -/
def tabStepG (nonz : Array K) (tab : Array Nat) (row pos : Nat) (w : Array K) : Array K :=
  (List.range' 1 (tab.getD (row + 1) 0 - tab.getD row 0 - 1)).foldl
    (fun (u : Array K) (t : Nat) =>
      u.setIfInBounds (pos + t)
        (u.getD (pos + t) 0 - nonz.getD (tab.getD row 0 + t) 0 * (w.getD pos 0 / nonz.getD (tab.getD row 0) 0)))
    (w.setIfInBounds pos (w.getD pos 0 / nonz.getD (tab.getD row 0) 0))

/-- body of the loop of `sweepTab` -/
def tabStep (nonz : Array K) (tab : Array Nat) (off : Nat) (w : Array K) (i : Nat) : Array K :=
  tabStepG nonz tab (off + i) (i - 1) w

theorem sweepTab_unfold (nonz : Array K) (tab : Array Nat) (off cnt : Nat) (v : Array K) :
    sweepTab nonz tab off cnt v = (List.range' 1 cnt).foldl (tabStep nonz tab off) v := rfl

/-- a table row that is row `i` of a well-formed block `F` stored at `fb`: the step is `sweepBody` -/
theorem tabStepG_eq_sweepBody {F : CovMat K} (hF : F.WF) {nonz : Array K} {tab : Array Nat}
    {fb row i : Nat} (hi1 : 1 ≤ i) (hi2 : i ≤ F.dim)
    (h1 : (tab.getD row 0 : Int) = (fb : Int) + rowOff F.dim F.band i)
    (h2 : tab.getD (row + 1) 0 = tab.getD row 0 + rowLen F.dim F.band i)
    (hread : ∀ (i j n : Nat), InBand F.dim F.band i j → (n : Int) = (fb : Int) + off F.dim F.band i j →
      nonz.getD n 0 = F.raw 0 (off F.dim F.band i j))
    (w : Array K) :
    tabStepG nonz tab row (i - 1) w =
      sweepBody F w i (rowOff F.dim F.band i, rowLen F.dim F.band i) := by
  have hb := hF.band_le
  have hdiag : nonz.getD (tab.getD row 0) 0 = F.raw 0 (rowOff F.dim F.band i) := by
    have hpp : InBand F.dim F.band i i := ⟨hi1, le_refl _, hi2, by omega⟩
    have hoff : off F.dim F.band i i = rowOff F.dim F.band i := by unfold off; omega
    rw [← hoff]
    exact hread i i _ hpp (by rw [hoff]; exact h1)
  have hlen : tab.getD (row + 1) 0 - tab.getD row 0 - 1 = rowLen F.dim F.band i - 1 := by
    rw [h2]; omega
  unfold tabStepG sweepBody
  dsimp only
  rw [hdiag, hlen]
  refine (foldl_congr_inv _ _ (fun _ => True) _ ?_ _ trivial).1
  intro u t ht _
  rw [List.mem_range'_1] at ht
  refine ⟨?_, trivial⟩
  have hrd : nonz.getD (tab.getD row 0 + t) 0 = F.raw 0 (rowOff F.dim F.band i + (t : Int)) := by
    have hp : InBand F.dim F.band i (i + t) := by
      unfold rowLen at ht
      exact ⟨hi1, by omega, by omega, by omega⟩
    rw [← off_row]
    refine hread i (i + t) _ hp ?_
    rw [off_row]
    push_cast
    omega
  show u.setIfInBounds _ (_ - nonz.getD (tab.getD row 0 + t) 0 * _) = _
  rw [hrd]

/-! ### item 1 : the rows of one block -/

/-- **`sweepTab` on the rows of block `k` is `sweep` of block `k`** -/
theorem sweepTab_block {Fs : List (CovMat K)} (hwf : ∀ F ∈ Fs, F.WF) {nonz : Array K} {tail : List K}
    (hn : nonz.toList = flat Fs ++ tail) {tab : Array Nat} (htab : TabOK tab Fs)
    {k : Nat} (hk : k < Fs.length) (v : Array K) :
    sweepTab nonz tab (rowsBefore Fs k) (Fs[k]'hk).dim v = sweep (Fs[k]'hk) v := by
  have hF : (Fs[k]'hk).WF := hwf _ (List.getElem_mem hk)
  rw [sweepTab_unfold, sweep_unfold, upperRows_eq hF.band_le, List.foldl_map]
  have h := foldl_pair_range'
    (fun (w : Array K) (p : Nat) (i : Nat) =>
      sweepBody (Fs[k]'hk) w p (rowOff (Fs[k]'hk).dim (Fs[k]'hk).band i, rowLen (Fs[k]'hk).dim (Fs[k]'hk).band i))
    (fun (p : Nat) (_ : Nat) => p + 1) (fun i => i) (Fs[k]'hk).dim 1 v (by intros; rfl)
  refine Eq.trans ?_ (congrArg Prod.fst h).symm
  refine (foldl_congr_inv _ _ (fun _ => True) _ ?_ v trivial).1
  intro w i hi _
  rw [List.mem_range'_1] at hi
  refine ⟨?_, trivial⟩
  obtain ⟨h1, h2⟩ := htab k hk i hi.1 (by omega)
  exact tabStepG_eq_sweepBody hF hi.1 (by omega) h1 h2
    (fun i j n hb hnn => nonz_read hn hk hF hb hnn) w

/-! ### item 2 : the whole vector -/

/-- `s` is the segment `r … r+d-1` of `W`; outside the segment `W` agrees with `W0` -/
structure SegRel (W0 : Array K) (r d : Nat) (W s : Array K) : Prop where
  size_s : s.size = d
  size_W : W.size = W0.size
  bound  : r + d ≤ W0.size
  seg    : ∀ j, j < d → W.getD (r + j) 0 = s.getD j 0
  frame  : ∀ p, (p < r ∨ r + d ≤ p) → W.getD p 0 = W0.getD p 0

theorem SegRel.set {W0 W s : Array K} {r d : Nat} (h : SegRel W0 r d W s) {q : Nat} (hq : q < d) (x : K) :
    SegRel W0 r d (W.setIfInBounds (r + q) x) (s.setIfInBounds q x) := by
  obtain ⟨h1, h2, h3, h4, h5⟩ := h
  refine ⟨by rw [Array.size_setIfInBounds]; exact h1, by rw [Array.size_setIfInBounds]; exact h2, h3, ?_, ?_⟩
  · intro j hj
    rw [getD_setIfInBounds, getD_setIfInBounds]
    by_cases e : j = q
    · subst e
      rw [if_pos ⟨rfl, by omega⟩, if_pos ⟨rfl, by omega⟩]
    · rw [if_neg (by omega), if_neg (fun h => e h.1)]
      exact h4 j hj
  · intro p hp
    rw [getD_setIfInBounds, if_neg (by omega)]
    exact h5 p hp

/-- the same table row run on the big vector at `r + pos` and on the segment at `pos` -/
theorem tabStepG_rel (nonz : Array K) (tab : Array Nat) (row : Nat) {W0 W s : Array K} {r d pos : Nat}
    (h : SegRel W0 r d W s) (hpos : pos + (tab.getD (row + 1) 0 - tab.getD row 0 - 1) < d) :
    SegRel W0 r d (tabStepG nonz tab row (r + pos) W) (tabStepG nonz tab row pos s) := by
  unfold tabStepG
  have hx : W.getD (r + pos) 0 = s.getD pos 0 := h.seg pos (by omega)
  rw [hx]
  refine foldl_rel _ _ (SegRel W0 r d) _ ?_ _ _ (h.set (by omega) _)
  intro u u' t ht hr
  rw [List.mem_range'_1] at ht
  show SegRel W0 r d (u.setIfInBounds (r + pos + t) (u.getD (r + pos + t) 0 - _))
    (u'.setIfInBounds (pos + t) (u'.getD (pos + t) 0 - _))
  rw [Nat.add_assoc r pos t, hr.seg (pos + t) (by omega)]
  exact hr.set (by omega) _

theorem foldl_range'_shift {σ : Type} (f : σ → Nat → σ) (r : Nat) :
    ∀ (n s : Nat) (c : σ),
      (List.range' (r + s) n).foldl f c = (List.range' s n).foldl (fun w i => f w (r + i)) c := by
  intro n
  induction n with
  | zero => intro s c; rfl
  | succ n ih =>
    intro s c
    rw [List.range'_succ, List.range'_succ, List.foldl_cons, List.foldl_cons, ← ih (s + 1)]
    rfl

/-- the rows `r+1 … r+d` of the whole loop act on the segment like `sweepTab` with offset `r` -/
theorem blockRun (nonz : Array K) (tab : Array Nat) {r d : Nat}
    (hlen : ∀ i, 1 ≤ i → i ≤ d → i + (tab.getD (r + i + 1) 0 - tab.getD (r + i) 0 - 1) ≤ d)
    {W0 W s : Array K} (h : SegRel W0 r d W s) :
    SegRel W0 r d ((List.range' (r + 1) d).foldl (tabStep nonz tab 0) W) (sweepTab nonz tab r d s) := by
  rw [foldl_range'_shift, sweepTab_unfold]
  refine foldl_rel _ _ (SegRel W0 r d) _ ?_ _ _ h
  intro u u' i hi hr
  rw [List.mem_range'_1] at hi
  show SegRel W0 r d (tabStepG nonz tab (0 + (r + i)) (r + i - 1) u) (tabStepG nonz tab (r + i) (i - 1) u')
  rw [Nat.zero_add, show r + i - 1 = r + (i - 1) by omega]
  have := hlen i hi.1 (by omega)
  exact tabStepG_rel nonz tab (r + i) hr (by omega)

omit [Scalar K] in
theorem rowsBefore_succ {Fs : List (CovMat K)} {k : Nat} (hk : k < Fs.length) :
    rowsBefore Fs (k + 1) = rowsBefore Fs k + (Fs[k]'hk).dim := by
  unfold rowsBefore
  rw [List.take_succ_eq_append_getElem hk, List.map_append, List.sum_append]
  simp

omit [Scalar K] in
theorem rowsBefore_length (Fs : List (CovMat K)) :
    rowsBefore Fs Fs.length = (Fs.map (·.dim)).sum := by
  unfold rowsBefore
  rw [List.take_length]

omit [Scalar K] in
theorem rowsBefore_mono {Fs : List (CovMat K)} {a : Nat} :
    ∀ b, a ≤ b → b ≤ Fs.length → rowsBefore Fs a ≤ rowsBefore Fs b := by
  intro b
  induction b with
  | zero => intro h _; have : a = 0 := by omega
            subst this; exact le_refl _
  | succ b ih =>
    intro h hb
    by_cases e : a = b + 1
    · subst e; exact le_refl _
    · have := ih (by omega) (by omega)
      rw [rowsBefore_succ (show b < Fs.length by omega)]
      omega

omit [Scalar K] in
theorem getD_extract (v : Array K) (a b j : Nat) (z : K) (hj : a + j < b) (hb : b ≤ v.size) :
    (v.extract a b).getD j z = v.getD (a + j) z := by
  rw [Array.getD_eq_getD_getElem?, Array.getD_eq_getD_getElem?, Array.getElem?_extract,
    if_pos (by omega)]

/-- invariant of the whole loop after the rows of the first `n` blocks -/
theorem sweepTab_whole_inv {Fs : List (CovMat K)} (hwf : ∀ F ∈ Fs, F.WF) {nonz : Array K} {tail : List K}
    (hn : nonz.toList = flat Fs ++ tail) {tab : Array Nat} (htab : TabOK tab Fs)
    (v : Array K) (hv : v.size = (Fs.map (·.dim)).sum) :
    ∀ n, n ≤ Fs.length →
      ((List.range' 1 (rowsBefore Fs n)).foldl (tabStep nonz tab 0) v).size = v.size ∧
      (∀ k (hk : k < Fs.length), k < n → ∀ i, i < (Fs[k]'hk).dim →
        ((List.range' 1 (rowsBefore Fs n)).foldl (tabStep nonz tab 0) v).getD (rowsBefore Fs k + i) 0 =
          (sweep (Fs[k]'hk)
            (v.extract (rowsBefore Fs k) (rowsBefore Fs k + (Fs[k]'hk).dim))).getD i 0) ∧
      (∀ p, rowsBefore Fs n ≤ p →
        ((List.range' 1 (rowsBefore Fs n)).foldl (tabStep nonz tab 0) v).getD p 0 = v.getD p 0) := by
  intro n
  induction n with
  | zero =>
    intro _
    have e : rowsBefore Fs 0 = 0 := by simp [rowsBefore]
    rw [e]
    refine ⟨rfl, ?_, fun p _ => rfl⟩
    intro k _ hk0; omega
  | succ n ih =>
    intro hn1
    have hnl : n < Fs.length := by omega
    obtain ⟨hsz, hdone, hrest⟩ := ih (by omega)
    have htot : rowsBefore Fs (n + 1) ≤ v.size := by
      rw [hv, ← rowsBefore_length]
      exact rowsBefore_mono _ hn1 (le_refl _)
    rw [rowsBefore_succ hnl] at htot ⊢
    rw [← List.range'_append_1, List.foldl_append, Nat.add_comm 1 (rowsBefore Fs n)]
    generalize (List.range' 1 (rowsBefore Fs n)).foldl (tabStep nonz tab 0) v = Wn at hsz hdone hrest
    have h0 : SegRel Wn (rowsBefore Fs n) (Fs[n]'hnl).dim Wn
        (v.extract (rowsBefore Fs n) (rowsBefore Fs n + (Fs[n]'hnl).dim)) := by
      refine ⟨?_, rfl, by rw [hsz]; exact htot, ?_, fun p _ => rfl⟩
      · rw [Array.size_extract]; omega
      · intro j hj
        rw [hrest _ (by omega), getD_extract _ _ _ _ _ (by omega) htot]
    have hlen : ∀ i, 1 ≤ i → i ≤ (Fs[n]'hnl).dim →
        i + (tab.getD (rowsBefore Fs n + i + 1) 0 - tab.getD (rowsBefore Fs n + i) 0 - 1)
          ≤ (Fs[n]'hnl).dim := by
      intro i h1 h2
      rw [(htab n hnl i h1 h2).2]
      unfold rowLen
      omega
    have hrun := blockRun nonz tab hlen h0
    rw [sweepTab_block hwf hn htab hnl] at hrun
    obtain ⟨_, r2, _, r4, r5⟩ := hrun
    refine ⟨r2.trans hsz, ?_, ?_⟩
    · intro k hk hkn i hi
      by_cases e : k = n
      · subst e
        exact r4 i hi
      · have hkn' : k < n := by omega
        have hm : rowsBefore Fs (k + 1) ≤ rowsBefore Fs n := rowsBefore_mono _ (by omega) (by omega)
        rw [rowsBefore_succ hk] at hm
        rw [r5 _ (Or.inl (by omega))]
        exact hdone k hk hkn' i hi
    · intro p hp
      rw [r5 p (Or.inr hp)]
      exact hrest p (by omega)

/-- **the loop over all rows = `sweep` block by block.**  On a vector of length `m = Σ dim`, the
    forward substitution over the rows `1 … m` of the table leaves, in the segment of block `k`,
    `sweep` of block `k` applied to that segment of the input; the length is unchanged. -/
theorem sweepTab_whole {Fs : List (CovMat K)} (hwf : ∀ F ∈ Fs, F.WF) {nonz : Array K} {tail : List K}
    (hn : nonz.toList = flat Fs ++ tail) {tab : Array Nat} (htab : TabOK tab Fs)
    {m : Nat} (hm : m = (Fs.map (·.dim)).sum) (v : Array K) (hv : v.size = m) :
    (∀ k (hk : k < Fs.length) i, i < (Fs[k]'hk).dim →
      (sweepTab nonz tab 0 m v).getD (rowsBefore Fs k + i) 0 =
        (sweep (Fs[k]'hk)
          (v.extract (rowsBefore Fs k) (rowsBefore Fs k + (Fs[k]'hk).dim))).getD i 0) ∧
    (sweepTab nonz tab 0 m v).size = v.size := by
  subst hm
  have h := sweepTab_whole_inv hwf hn htab v hv Fs.length (le_refl _)
  rw [rowsBefore_length] at h
  rw [sweepTab_unfold]
  exact ⟨fun k hk i hi => h.2.1 k hk hk i hi, h.1⟩

/-! ### non-vacuity: two blocks `(dim 2, band 1)`, `(dim 1, band 0)` at `K := Rat` -/

def sweepExFs : List (CovMat Rat) := [⟨2, 1, #[2, 1, 2]⟩, ⟨1, 0, #[3]⟩]

theorem sweepExFs_wf : ∀ F ∈ sweepExFs, F.WF := by
  intro F hF
  simp only [sweepExFs, List.mem_cons, List.not_mem_nil, or_false] at hF
  rcases hF with rfl | rfl
  · exact ⟨by decide, by decide⟩
  · exact ⟨by decide, by decide⟩

/-- the 1-based row table (cell 0 unused) of the two blocks -/
theorem sweepExTab : TabOK #[0, 0, 2, 3, 4] sweepExFs := by
  intro k hk i h1 h2
  have hk' : k < 2 := hk
  obtain rfl | rfl : k = 0 ∨ k = 1 := by omega
  · have h2' : i ≤ 2 := h2
    obtain rfl | rfl : i = 1 ∨ i = 2 := by omega
    · decide +revert
    · decide +revert
  · have h2' : i ≤ 1 := h2
    obtain rfl : i = 1 := by omega
    decide +revert

example : sweepTab (K := Rat) #[2, 1, 2, 3] #[0, 0, 2, 3, 4] 0 3 #[1, 2, 3] = #[1/2, 3/4, 1] := by
  decide +kernel

example : sweepTab (K := Rat) #[2, 1, 2, 3] #[0, 0, 2, 3, 4] (rowsBefore sweepExFs 1) 1 #[3] =
    sweep (sweepExFs[1]) #[3] :=
  sweepTab_block sweepExFs_wf (tail := []) (by decide) sweepExTab (by decide) _

example : (sweepTab (K := Rat) #[2, 1, 2, 3] #[0, 0, 2, 3, 4] 0 3 #[1, 2, 3]).getD (rowsBefore sweepExFs 0 + 1) 0 =
    (sweep (sweepExFs[0]) ((#[1, 2, 3] : Array Rat).extract (rowsBefore sweepExFs 0)
      (rowsBefore sweepExFs 0 + (sweepExFs[0]).dim))).getD 1 0 :=
  (sweepTab_whole sweepExFs_wf (tail := []) (by decide) sweepExTab (by decide) #[1, 2, 3] rfl).1
    0 (by decide) 1 (by decide)

end Gama.Cov
