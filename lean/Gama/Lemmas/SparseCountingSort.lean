/-
  C16: `SparseMatrix::transpose()` (counting sort with row pointers shifted by two, model
  `Gama.SMat.transpose`) produces exactly the CRS storage of the functional specification
  `Gama.SMat.transposeSpec`, for every well-formed matrix (`SMat.WF`).

  Structure of the proof
  * `CS.*`    : the counting sort on an abstract entry list `E : List (Nat × Nat × K)`
                (row, column, value): count phase, prefix phase, scatter invariant.
  * bridging  : under `WF` the loops of the model are folds over `A.entries`.
  * assembly  : `transpose_eq_spec`.
-/
import Gama.Lemmas.SparseBasic

namespace Gama
namespace SMat

/-! ### `[i]!` helpers -/

theorem getElemBang_eq {α : Type} [Inhabited α] (a : Array α) (i : Nat) (h : i < a.size) :
    a[i]! = a[i] := by
  simp [h]

theorem getElemBang_ge {α : Type} [Inhabited α] (a : Array α) (i : Nat) (h : a.size ≤ i) :
    a[i]! = default := by
  simp [h]

theorem getElemBang_modify {α : Type} [Inhabited α] (a : Array α) (j : Nat) (f : α → α) (i : Nat) :
    (a.modify j f)[i]! = if j = i ∧ i < a.size then f a[i]! else a[i]! := by
  by_cases h : i < a.size
  · have h' : i < (a.modify j f).size := by simpa using h
    rw [getElemBang_eq _ _ h', getElemBang_eq _ _ h, Array.getElem_modify]
    by_cases hj : j = i <;> simp [hj, h]
  · have h1 : a.size ≤ i := Nat.le_of_not_lt h
    rw [getElemBang_ge _ _ (by simpa using h1), getElemBang_ge _ _ h1]
    simp [h]

theorem getElemBang_setIfInBounds {α : Type} [Inhabited α] (a : Array α) (j : Nat) (v : α) (i : Nat) :
    (a.setIfInBounds j v)[i]! = if j = i ∧ i < a.size then v else a[i]! := by
  by_cases h : i < a.size
  · have h' : i < (a.setIfInBounds j v).size := by simpa using h
    rw [getElemBang_eq _ _ h', getElemBang_eq _ _ h, Array.getElem_setIfInBounds h]
    by_cases hj : j = i <;> simp [hj, h]
  · have h1 : a.size ≤ i := Nat.le_of_not_lt h
    rw [getElemBang_ge _ _ (by simpa using h1), getElemBang_ge _ _ h1]
    simp [h]

theorem ext_getElemBang {α : Type} [Inhabited α] (a b : Array α) (hs : a.size = b.size)
    (h : ∀ i, i < a.size → a[i]! = b[i]!) : a = b := by
  apply Array.ext hs
  intro i h1 h2
  have := h i h1
  rwa [getElemBang_eq _ _ h1, getElemBang_eq _ _ h2] at this

/-! ### Abstract counting sort over an entry list -/

namespace CS
variable {K : Type}

/-- entries of column `c`, in order -/
def bucket (E : List (Nat × Nat × K)) (c : Nat) : List (Nat × Nat × K) :=
  E.filter fun e => e.2.1 == c

/-- number of entries of column `c` -/
def cnt (E : List (Nat × Nat × K)) (c : Nat) : Nat := (bucket E c).length

/-- number of entries with column in `1..k` -/
def pre (E : List (Nat × Nat × K)) : Nat → Nat
  | 0 => 0
  | k+1 => pre E k + cnt E (k+1)

/-- all column indices in `1..cols` -/
def InRange (cols : Nat) (E : List (Nat × Nat × K)) : Prop :=
  ∀ e ∈ E, 1 ≤ e.2.1 ∧ e.2.1 ≤ cols

theorem bucket_nil (c : Nat) : bucket ([] : List (Nat × Nat × K)) c = [] := rfl

theorem bucket_append (L R : List (Nat × Nat × K)) (c : Nat) :
    bucket (L ++ R) c = bucket L c ++ bucket R c := by
  simp [bucket]

theorem bucket_cons (e : Nat × Nat × K) (E : List (Nat × Nat × K)) (c : Nat) :
    bucket (e :: E) c = if e.2.1 = c then e :: bucket E c else bucket E c := by
  by_cases h : e.2.1 = c <;> simp [bucket, h]

theorem cnt_nil (c : Nat) : cnt ([] : List (Nat × Nat × K)) c = 0 := rfl

theorem cnt_append (L R : List (Nat × Nat × K)) (c : Nat) :
    cnt (L ++ R) c = cnt L c + cnt R c := by
  simp [cnt, bucket_append]

theorem cnt_cons (e : Nat × Nat × K) (E : List (Nat × Nat × K)) (c : Nat) :
    cnt (e :: E) c = cnt E c + if e.2.1 = c then 1 else 0 := by
  by_cases h : e.2.1 = c <;> simp [cnt, bucket_cons, h]

theorem cnt_out {cols : Nat} {E : List (Nat × Nat × K)} (h : InRange cols E) (c : Nat)
    (hc : c = 0 ∨ cols < c) : cnt E c = 0 := by
  induction E with
  | nil => rfl
  | cons e E ih =>
    have he := h e (by simp)
    rw [cnt_cons, ih (fun x hx => h x (by simp [hx]))]
    have : e.2.1 ≠ c := by omega
    simp [this]

theorem cnt_zero {cols : Nat} {E : List (Nat × Nat × K)} (h : InRange cols E) : cnt E 0 = 0 :=
  cnt_out h 0 (Or.inl rfl)

theorem pre_mono (E : List (Nat × Nat × K)) {a b : Nat} (h : a ≤ b) : pre E a ≤ pre E b := by
  induction b with
  | zero => have : a = 0 := by omega
            subst this; exact Nat.le_refl _
  | succ b ih =>
    by_cases hb : a = b + 1
    · subst hb; exact Nat.le_refl _
    · have := ih (by omega)
      simp only [pre]; omega

theorem pre_cons (e : Nat × Nat × K) (E : List (Nat × Nat × K)) (k : Nat) :
    pre (e :: E) k = pre E k + if 1 ≤ e.2.1 ∧ e.2.1 ≤ k then 1 else 0 := by
  induction k with
  | zero =>
    have : ¬ (1 ≤ e.2.1 ∧ e.2.1 ≤ 0) := by omega
    rw [if_neg this]; rfl
  | succ k ih =>
    simp only [pre, ih, cnt_cons]
    by_cases h1 : e.2.1 = k + 1
    · have h2 : ¬ (1 ≤ e.2.1 ∧ e.2.1 ≤ k) := by omega
      have h3 : 1 ≤ e.2.1 ∧ e.2.1 ≤ k + 1 := by omega
      rw [if_neg h2, if_pos h1, if_pos h3]; omega
    · by_cases h2 : 1 ≤ e.2.1 ∧ e.2.1 ≤ k
      · have h3 : 1 ≤ e.2.1 ∧ e.2.1 ≤ k + 1 := by omega
        rw [if_pos h2, if_neg h1, if_pos h3]; omega
      · have h3 : ¬ (1 ≤ e.2.1 ∧ e.2.1 ≤ k + 1) := by omega
        rw [if_neg h2, if_neg h1, if_neg h3]; omega

/-- every entry lies in exactly one bucket `1..cols` -/
theorem pre_cols {cols : Nat} {E : List (Nat × Nat × K)} (h : InRange cols E) :
    pre E cols = E.length := by
  induction E with
  | nil =>
    clear h
    induction cols with
    | zero => rfl
    | succ k ih => simp [pre, ih, cnt_nil]
  | cons e E ih =>
    have he := h e (by simp)
    rw [pre_cons, ih (fun x hx => h x (by simp [hx]))]
    simp [he]

/-! #### count phase -/

/-- `tCount` as a fold over the entry list -/
def countE (E : List (Nat × Nat × K)) (t : Array Nat) : Array Nat :=
  E.foldl (fun t e => t.modify (e.2.1 + 2) (· + 1)) t

theorem countE_size (E : List (Nat × Nat × K)) (t : Array Nat) : (countE E t).size = t.size := by
  induction E generalizing t with
  | nil => rfl
  | cons e E ih => simp only [countE, List.foldl_cons] at ih ⊢; rw [ih]; simp

theorem countE_get (E : List (Nat × Nat × K)) (t : Array Nat) (i : Nat) :
    (countE E t)[i]! = t[i]! + if 2 ≤ i ∧ i < t.size then cnt E (i - 2) else 0 := by
  induction E generalizing t with
  | nil => simp [countE, cnt_nil]
  | cons e E ih =>
    have ih' := ih (t.modify (e.2.1 + 2) (· + 1))
    simp only [countE, List.foldl_cons] at ih' ⊢
    rw [ih', getElemBang_modify, cnt_cons, Array.size_modify]
    by_cases h1 : 2 ≤ i ∧ i < t.size
    · by_cases h2 : e.2.1 = i - 2
      · have h3 : e.2.1 + 2 = i ∧ i < t.size := by omega
        rw [if_pos h3, if_pos h1, if_pos h1, if_pos h2]; omega
      · have h3 : ¬ (e.2.1 + 2 = i ∧ i < t.size) := by omega
        rw [if_neg h3, if_pos h1, if_pos h1, if_neg h2]; omega
    · have h3 : ¬ (e.2.1 + 2 = i ∧ i < t.size) := by omega
      rw [if_neg h3, if_neg h1, if_neg h1]

/-! #### prefix phase -/

theorem prefFold_size (l : List Nat) (t : Array Nat) :
    (l.foldl (fun t i => t.setIfInBounds i (t[i]! + t[i-1]!)) t).size = t.size := by
  induction l generalizing t with
  | nil => rfl
  | cons i l ih => rw [List.foldl_cons, ih]; simp

theorem tPrefix_size (trows : Nat) (t : Array Nat) : (tPrefix trows t).size = t.size :=
  prefFold_size _ t

theorem prefix_fold (E : List (Nat × Nat × K)) (h0 : cnt E 0 = 0) (t : Array Nat) (m : Nat)
    (hs : 3 + m ≤ t.size) (ht : ∀ j, 2 ≤ j → j < 3 + m → t[j]! = cnt E (j - 2)) :
    ∀ j, ((List.range' 3 m).foldl (fun t i => t.setIfInBounds i (t[i]! + t[i-1]!)) t)[j]! =
      if 2 ≤ j ∧ j < 3 + m then pre E (j - 2) else t[j]! := by
  induction m with
  | zero =>
    intro j
    by_cases h : 2 ≤ j ∧ j < 3 + 0
    · have hj : j = 2 := by omega
      subst hj
      rw [if_pos h, List.range'_zero, List.foldl_nil, ht 2 (by omega) (by omega)]
      simpa [pre] using h0
    · rw [if_neg h]; rfl
  | succ m ih =>
    have ih := ih (by omega) (fun j h1 h2 => ht j h1 (by omega))
    intro j
    rw [List.range'_concat, List.foldl_append, List.foldl_cons, List.foldl_nil,
      getElemBang_setIfInBounds, prefFold_size, ih (3 + 1 * m), ih (3 + 1 * m - 1), ih j]
    have e1 : ¬ (2 ≤ 3 + 1 * m ∧ 3 + 1 * m < 3 + m) := by omega
    have e2 : 2 ≤ 3 + 1 * m - 1 ∧ 3 + 1 * m - 1 < 3 + m := by omega
    rw [if_neg e1, if_pos e2, ht (3 + 1 * m) (by omega) (by omega)]
    by_cases h : 3 + 1 * m = j ∧ j < t.size
    · have h' : 2 ≤ j ∧ j < 3 + (m + 1) := by omega
      rw [if_pos h, if_pos h']
      have : j - 2 = (3 + 1 * m - 1 - 2) + 1 := by omega
      rw [this, pre]
      have : 3 + 1 * m - 2 = 3 + 1 * m - 1 - 2 + 1 := by omega
      rw [this]; omega
    · rw [if_neg h]
      by_cases h2 : 2 ≤ j ∧ j < 3 + m
      · have h' : 2 ≤ j ∧ j < 3 + (m + 1) := by omega
        rw [if_pos h2, if_pos h']
      · have h' : ¬ (2 ≤ j ∧ j < 3 + (m + 1)) := by omega
        rw [if_neg h2, if_neg h']

/-- the row-pointer array after the count and prefix phases -/
def ptr2 (cols : Nat) (E : List (Nat × Nat × K)) : Array Nat :=
  tPrefix cols (countE E (Array.replicate (cols + 4) 0))

theorem ptr2_size (cols : Nat) (E : List (Nat × Nat × K)) : (ptr2 cols E).size = cols + 4 := by
  simp [ptr2, tPrefix_size, countE_size]

theorem ptr2_get {cols : Nat} {E : List (Nat × Nat × K)} (h : InRange cols E) (j : Nat) :
    (ptr2 cols E)[j]! =
      if 2 ≤ j ∧ j ≤ cols + 1 then pre E (j - 2) else if j = cols + 2 then cnt E cols else 0 := by
  have h0 := cnt_zero h
  have hc : ∀ j, (countE E (Array.replicate (cols + 4) 0))[j]! =
      if 2 ≤ j ∧ j < cols + 4 then cnt E (j - 2) else 0 := by
    intro j
    rw [countE_get, Array.size_replicate]
    by_cases hj : j < cols + 4
    · rw [getElemBang_eq _ _ (by simpa using hj)]; simp
    · rw [getElemBang_ge _ _ (by simp; omega)]; simp
  unfold ptr2 tPrefix
  rw [prefix_fold E h0 _ (cols + 2 - 3) (by rw [countE_size, Array.size_replicate]; omega)
      (fun j h1 h2 => by rw [hc]; rw [if_pos (by omega)])]
  rw [hc]
  by_cases h1 : 2 ≤ j ∧ j ≤ cols + 1
  · rw [if_pos h1, if_pos (by omega)]
  · rw [if_neg h1]
    by_cases h2 : j = cols + 2
    · subst h2
      rw [if_pos rfl]
      by_cases hcols : cols = 0
      · subst hcols
        rw [if_pos (by omega)]
        show pre E 0 = cnt E 0
        rw [h0]; rfl
      · rw [if_neg (by omega), if_pos (by omega)]
        congr 1
    · rw [if_neg h2, if_neg (by omega)]
      by_cases h3 : j = cols + 3
      · subst h3
        rw [if_pos (by omega)]
        exact cnt_out h _ (Or.inr (by omega))
      · rw [if_neg (by omega)]

/-! #### scatter phase -/

/-- body of the scatter loop for one entry `(row, column, value)` -/
def step (s : TState K) (e : Nat × Nat × K) : TState K :=
  { tcind := s.tcind.setIfInBounds s.trptr[e.2.1 + 1]! e.1
    tnonz := s.tnonz.setIfInBounds s.trptr[e.2.1 + 1]! e.2.2
    trptr := s.trptr.modify (e.2.1 + 1) (· + 1) }

theorem pre_pred (E : List (Nat × Nat × K)) {c : Nat} (h : 1 ≤ c) :
    pre E c = pre E (c - 1) + cnt E c := by
  obtain ⟨k, rfl⟩ : ∃ k, c = k + 1 := ⟨c - 1, by omega⟩
  rfl

theorem bucket_disjoint (E : List (Nat × Nat × K)) {c c0 i i0 : Nat} (hc : 1 ≤ c) (hc0 : 1 ≤ c0)
    (hne : c ≠ c0) (hi : i < cnt E c) (hi0 : i0 < cnt E c0) :
    pre E (c - 1) + i ≠ pre E (c0 - 1) + i0 := by
  have h1 := pre_pred E hc
  have h2 := pre_pred E hc0
  by_cases hlt : c < c0
  · have := pre_mono E (show c ≤ c0 - 1 by omega)
    omega
  · have := pre_mono E (show c0 ≤ c - 1 by omega)
    omega

/-- invariant of the scatter loop after the entries `L` (a prefix of `E`) -/
structure Inv (cols : Nat) (E L : List (Nat × Nat × K)) (s : TState K) : Prop where
  sz_ptr : s.trptr.size = cols + 4
  sz_ci : s.tcind.size = E.length
  sz_nz : s.tnonz.size = E.length
  ptr : ∀ j, s.trptr[j]! =
    if 2 ≤ j ∧ j ≤ cols + 1 then pre E (j - 2) + cnt L (j - 1)
    else if j = cols + 2 then cnt E cols else 0
  ci : ∀ c, 1 ≤ c → c ≤ cols → ∀ i x, (bucket L c)[i]? = some x →
    s.tcind[pre E (c - 1) + i]? = some x.1
  nz : ∀ c, 1 ≤ c → c ≤ cols → ∀ i x, (bucket L c)[i]? = some x →
    s.tnonz[pre E (c - 1) + i]? = some x.2.2

theorem inv_init [Inhabited K] {cols : Nat} {E : List (Nat × Nat × K)} (h : InRange cols E) :
    Inv cols E [] { tcind := Array.replicate E.length 0
                    tnonz := Array.replicate E.length default
                    trptr := ptr2 cols E } where
  sz_ptr := ptr2_size cols E
  sz_ci := by simp
  sz_nz := by simp
  ptr := by intro j; simp [ptr2_get h j, cnt_nil]
  ci := by intro c _ _ i x hx; simp [bucket_nil] at hx
  nz := by intro c _ _ i x hx; simp [bucket_nil] at hx

theorem inv_step {cols : Nat} {E L R : List (Nat × Nat × K)} {e : Nat × Nat × K}
    (h : InRange cols E) (hE : E = L ++ e :: R) {s : TState K} (inv : Inv cols E L s) :
    Inv cols E (L ++ [e]) (step s e) := by
  have he : 1 ≤ e.2.1 ∧ e.2.1 ≤ cols := h e (by rw [hE]; simp)
  have hcE : ∀ c, cnt E c = cnt L c + (if e.2.1 = c then 1 else 0) + cnt R c := by
    intro c; rw [hE, cnt_append, cnt_cons]; omega
  have hj0 : s.trptr[e.2.1 + 1]! = pre E (e.2.1 - 1) + cnt L e.2.1 := by
    rw [inv.ptr, if_pos (by omega)]; rfl
  have hlt : pre E (e.2.1 - 1) + cnt L e.2.1 < E.length := by
    have h1 := pre_pred E he.1
    have h2 := pre_mono E he.2
    have h3 := pre_cols h
    have h4 := hcE e.2.1
    rw [if_pos rfl] at h4
    omega
  have hb : ∀ c, bucket (L ++ [e]) c = bucket L c ++ if e.2.1 = c then [e] else [] := by
    intro c; rw [bucket_append, bucket_cons, bucket_nil]
  -- generic argument for `tcind` and `tnonz`
  have key : ∀ {β : Type} (g : Nat × Nat × K → β) (a : Array β), a.size = E.length →
      (∀ c, 1 ≤ c → c ≤ cols → ∀ i x, (bucket L c)[i]? = some x →
        a[pre E (c - 1) + i]? = some (g x)) →
      ∀ c, 1 ≤ c → c ≤ cols → ∀ i x, (bucket (L ++ [e]) c)[i]? = some x →
        (a.setIfInBounds s.trptr[e.2.1 + 1]! (g e))[pre E (c - 1) + i]? = some (g x) := by
    intro β g a hsz hold c hc1 hc2 i x hx
    rw [hb, List.getElem?_append] at hx
    rw [hj0, Array.getElem?_setIfInBounds]
    by_cases hi : i < (bucket L c).length
    · rw [if_pos hi] at hx
      have hne : pre E (e.2.1 - 1) + cnt L e.2.1 ≠ pre E (c - 1) + i := by
        by_cases hcc : c = e.2.1
        · subst hcc; unfold cnt; omega
        · have h4 := hcE e.2.1
          rw [if_pos rfl] at h4
          have h5 := hcE c
          have h6 : i < cnt L c := hi
          exact (bucket_disjoint E hc1 he.1 hcc (by omega) (by omega)).symm
      rw [if_neg hne]
      exact hold c hc1 hc2 i x hx
    · rw [if_neg hi] at hx
      by_cases hcc : e.2.1 = c
      · rw [if_pos hcc] at hx
        have hi0 : i - (bucket L c).length = 0 := by
          by_cases h0 : i - (bucket L c).length = 0
          · exact h0
          · obtain ⟨k, hk⟩ : ∃ k, i - (bucket L c).length = k + 1 :=
              ⟨i - (bucket L c).length - 1, by omega⟩
            rw [hk] at hx; simp at hx
        rw [hi0] at hx
        have hx' : e = x := by simpa using hx
        subst hx'
        subst hcc
        have : i = cnt L e.2.1 := by unfold cnt; omega
        subst this
        rw [if_pos rfl, if_pos (by rw [hsz]; exact hlt)]
      · rw [if_neg hcc] at hx; simp at hx
  exact {
    sz_ptr := by simp [step, inv.sz_ptr]
    sz_ci := by simp [step, inv.sz_ci]
    sz_nz := by simp [step, inv.sz_nz]
    ptr := by
      intro j
      show (s.trptr.modify (e.2.1 + 1) (· + 1))[j]! = _
      rw [getElemBang_modify, inv.ptr, inv.sz_ptr, cnt_append, cnt_cons, cnt_nil]
      by_cases h1 : e.2.1 + 1 = j ∧ j < cols + 4
      · have h2 : 2 ≤ j ∧ j ≤ cols + 1 := by omega
        have h3 : e.2.1 = j - 1 := by omega
        rw [if_pos h1, if_pos h2, if_pos h2, if_pos h3]; omega
      · rw [if_neg h1]
        by_cases h2 : 2 ≤ j ∧ j ≤ cols + 1
        · have h3 : ¬ e.2.1 = j - 1 := by omega
          rw [if_pos h2, if_pos h2, if_neg h3]; rfl
        · rw [if_neg h2, if_neg h2]
    ci := key (fun x => x.1) s.tcind inv.sz_ci inv.ci
    nz := key (fun x => x.2.2) s.tnonz inv.sz_nz inv.nz }

theorem inv_fold {cols : Nat} {E : List (Nat × Nat × K)} (h : InRange cols E) :
    ∀ (R L : List (Nat × Nat × K)) (s : TState K), E = L ++ R → Inv cols E L s →
      Inv cols E E (R.foldl step s) := by
  intro R
  induction R with
  | nil => intro L s hE inv; simp at hE; subst hE; exact inv
  | cons e R ih =>
    intro L s hE inv
    rw [List.foldl_cons]
    exact ih (L ++ [e]) (step s e) (by simp [hE]) (inv_step h hE inv)

/-! #### reading off the result -/

/-- a list that agrees bucket-wise with a list of lists is its concatenation -/
theorem flatten_ext {α : Type} (Ls : List (List α)) (l : List α)
    (hlen : l.length = Ls.flatten.length)
    (h : ∀ k L, Ls[k]? = some L → ∀ i x, L[i]? = some x →
      l[(Ls.take k).flatten.length + i]? = some x) : l = Ls.flatten := by
  induction Ls generalizing l with
  | nil => simpa using hlen
  | cons L0 Ls ih =>
    rw [List.flatten_cons, ← List.take_append_drop L0.length l]
    simp only [List.flatten_cons, List.length_append] at hlen
    congr 1
    · apply List.ext_getElem?
      intro i
      rw [List.getElem?_take]
      by_cases hi : i < L0.length
      · rw [if_pos hi]
        have hx : L0[i]? = some L0[i] := by simp [hi]
        have := h 0 L0 (by simp) i _ hx
        simp only [List.take_zero, List.flatten_nil, List.length_nil, Nat.zero_add] at this
        rw [this, hx]
      · rw [if_neg hi]; simp at hi; simp [hi]
    · apply ih
      · rw [List.length_drop]; omega
      · intro k L hk i x hx
        have := h (k + 1) L (by simpa using hk) i x hx
        rw [List.getElem?_drop]
        simp only [List.take_succ_cons, List.flatten_cons, List.length_append] at this
        rw [← this]; congr 1; omega

theorem take_flatten_length (E : List (Nat × Nat × K)) {β : Type} (f : Nat → List β)
    (hf : ∀ c, (f c).length = cnt E c) (cols k : Nat) (hk : k ≤ cols) :
    ((((List.range' 1 cols).map f).take k).flatten).length = pre E k := by
  rw [← List.map_take, List.take_range'_of_length_ge hk]
  clear hk
  induction k with
  | zero => rfl
  | succ k ih =>
    rw [List.range'_concat, List.map_append, List.flatten_append, List.length_append, ih]
    simp [pre, hf, Nat.add_comm]

/-- rows of the transpose as a function of the entry list -/
def specRows (cols : Nat) (E : List (Nat × Nat × K)) : List (List (Nat × K)) :=
  (List.range' 1 cols).map fun c => (bucket E c).map fun e => (e.1, e.2.2)

theorem specRows_length (cols : Nat) (E : List (Nat × Nat × K)) :
    (specRows cols E).length = cols := by simp [specRows]

theorem specRows_take (cols : Nat) (E : List (Nat × Nat × K)) (k : Nat) (hk : k ≤ cols) :
    ((specRows cols E).take k).flatten.length = pre E k :=
  take_flatten_length E _ (by intro c; simp [cnt]) cols k hk

theorem specRows_flatten_length {cols : Nat} {E : List (Nat × Nat × K)} (h : InRange cols E) :
    (specRows cols E).flatten.length = E.length := by
  have := specRows_take cols E cols (Nat.le_refl _)
  rw [List.take_of_length_le (by rw [specRows_length])] at this
  rw [this, pre_cols h]

/-- generic read-off for `tcind` / `tnonz` -/
theorem scatter_read {β : Type} {cols : Nat} {E : List (Nat × Nat × K)} (h : InRange cols E)
    (g : Nat × Nat × K → β) (a : Array β) (hsz : a.size = E.length)
    (ha : ∀ c, 1 ≤ c → c ≤ cols → ∀ i x, (bucket E c)[i]? = some x →
      a[pre E (c - 1) + i]? = some (g x)) :
    a = (((List.range' 1 cols).map fun c => (bucket E c).map g).flatten).toArray := by
  have hlen : ∀ k, k ≤ cols →
      ((((List.range' 1 cols).map fun c => (bucket E c).map g).take k).flatten).length = pre E k :=
    fun k hk => take_flatten_length E _ (by intro c; simp [cnt]) cols k hk
  have htot := hlen cols (Nat.le_refl _)
  rw [List.take_of_length_le (by simp)] at htot
  apply Array.toList_inj.mp
  rw [List.toList_toArray]
  apply flatten_ext
  · rw [htot, pre_cols h]; simpa using hsz
  · intro k L hk i x hx
    rw [List.getElem?_map] at hk
    have hk1 : k < cols := by
      by_cases hk1 : k < cols
      · exact hk1
      · rw [List.getElem?_eq_none (by simp; omega)] at hk; simp at hk
    rw [List.getElem?_range' hk1] at hk
    simp only [Option.map_some, Option.some.injEq, Nat.one_mul] at hk
    subst hk
    rw [List.getElem?_map] at hx
    cases hy : (bucket E (1 + k))[i]? with
    | none => rw [hy] at hx; simp at hx
    | some y =>
      rw [hy] at hx
      simp only [Option.map_some, Option.some.injEq] at hx
      subst hx
      rw [hlen k (by omega)]
      have := ha (1 + k) (by omega) (by omega) i y hy
      rw [show 1 + k - 1 = k by omega] at this
      simpa using this

theorem ptrsOf_length {α : Type} (rs : List (List α)) (acc : Nat) :
    (ptrsOf acc rs).length = rs.length + 1 := by
  induction rs generalizing acc with
  | nil => rfl
  | cons r rs ih => simp [ptrsOf, ih]

theorem ptrsOf_get {α : Type} (rs : List (List α)) (acc k : Nat) (hk : k ≤ rs.length) :
    (ptrsOf acc rs)[k]? = some (acc + ((rs.take k).flatten).length) := by
  induction rs generalizing acc k with
  | nil => simp at hk; subst hk; simp [ptrsOf]
  | cons r rs ih =>
    cases k with
    | zero => simp [ptrsOf]
    | succ k =>
      simp only [ptrsOf, List.getElem?_cons_succ, List.take_succ_cons, List.flatten_cons,
        List.length_append]
      rw [ih _ _ (by simpa using hk)]
      simp [Nat.add_assoc]

/-- the state in which the scatter loop starts -/
def init [Inhabited K] (cols : Nat) (E : List (Nat × Nat × K)) : TState K :=
  { tcind := Array.replicate E.length 0
    tnonz := Array.replicate E.length default
    trptr := ptr2 cols E }

theorem final_inv [Inhabited K] {cols : Nat} {E : List (Nat × Nat × K)} (h : InRange cols E) :
    Inv cols E E (E.foldl step (init cols E)) :=
  inv_fold h E [] _ rfl (inv_init h)

theorem sort_cind [Inhabited K] {cols : Nat} {E : List (Nat × Nat × K)} (h : InRange cols E) :
    (E.foldl step (init cols E)).tcind = (((specRows cols E).flatten).map Prod.fst).toArray := by
  have inv := final_inv h
  rw [scatter_read h (fun x => x.1) _ inv.sz_ci inv.ci]
  simp [specRows, List.map_flatten, Function.comp_def]

theorem sort_nonz [Inhabited K] {cols : Nat} {E : List (Nat × Nat × K)} (h : InRange cols E) :
    (E.foldl step (init cols E)).tnonz = (((specRows cols E).flatten).map Prod.snd).toArray := by
  have inv := final_inv h
  rw [scatter_read h (fun x => x.2.2) _ inv.sz_nz inv.nz]
  simp [specRows, List.map_flatten, Function.comp_def]

theorem sort_rptr [Inhabited K] {cols : Nat} {E : List (Nat × Nat × K)} (h : InRange cols E) :
    (E.foldl step (init cols E)).trptr =
      (0 :: ptrsOf 0 (specRows cols E) ++ [cnt E cols, 0]).toArray := by
  have inv := final_inv h
  apply ext_getElemBang
  · simp [inv.sz_ptr, ptrsOf_length, specRows_length]
  · intro j hj
    rw [inv.sz_ptr] at hj
    rw [inv.ptr]
    have hR : ∀ x, (0 :: ptrsOf 0 (specRows cols E) ++ [cnt E cols, 0])[j]? = some x →
        (0 :: ptrsOf 0 (specRows cols E) ++ [cnt E cols, 0]).toArray[j]! = x := by
      intro x hx
      rw [List.cons_append] at hx
      simp [hx]
    apply Eq.symm
    apply hR
    cases j with
    | zero => simp
    | succ j =>
      rw [List.cons_append, List.getElem?_cons_succ, List.getElem?_append, ptrsOf_length,
        specRows_length]
      by_cases h1 : j < cols + 1
      · rw [if_pos h1, ptrsOf_get _ _ _ (by rw [specRows_length]; omega),
          specRows_take _ _ _ (by omega), Nat.zero_add]
        by_cases h2 : 2 ≤ j + 1 ∧ j + 1 ≤ cols + 1
        · rw [if_pos h2]
          have : j + 1 - 2 = j - 1 := by omega
          rw [this, Nat.add_sub_cancel, pre_pred E (by omega)]
        · have : j = 0 := by omega
          subst this
          rw [if_neg h2, if_neg (by omega)]; rfl
      · rw [if_neg h1, if_neg (by omega)]
        by_cases h2 : j + 1 = cols + 2
        · rw [if_pos h2]
          have : j - (cols + 1) = 0 := by omega
          rw [this]; rfl
        · rw [if_neg h2]
          have : j - (cols + 1) = 1 := by omega
          rw [this]; rfl

end CS

/-! ### Bridging: the loops of the model are folds over `A.entries` -/

section Bridge
variable {K : Type} [Inhabited K]

/-- the scatter loop is a fold over the entry list (no hypothesis needed: the carried
    `ire` is always `rptr[r]`) -/
theorem tScatter_eq (A : SMat K) (s : TState K) : tScatter A s = A.entries.foldl CS.step s := by
  have aux : ∀ m a (s : TState K),
      (List.range' a m).foldl (fun (p : TState K × Nat) r =>
        ((List.range' p.2 (A.rptr[r+1]! - p.2)).foldl (tScatter1 A r) p.1, A.rptr[r+1]!))
        (s, A.rptr[a]!) =
      ((List.range' a m).foldl (fun s r => (A.rowRange r).foldl (tScatter1 A r) s) s,
        A.rptr[a+m]!) := by
    intro m
    induction m with
    | zero => intro a s; rfl
    | succ m ih =>
      intro a s
      rw [List.range'_succ, List.foldl_cons, List.foldl_cons]
      have := ih (a + 1) ((A.rowRange a).foldl (tScatter1 A a) s)
      rw [show a + (m + 1) = a + 1 + m by omega]
      exact this
  unfold tScatter
  rw [aux]
  simp only [entries, rowEntries, List.foldl_flatMap, List.foldl_map]
  rfl

theorem range'_tile {x y z : Nat} (h1 : x ≤ y) (h2 : y ≤ z) :
    List.range' x (y - x) ++ List.range' y (z - y) = List.range' x (z - x) := by
  obtain ⟨d, rfl⟩ : ∃ d, y = x + d := ⟨y - x, by omega⟩
  obtain ⟨d', rfl⟩ : ∃ d', z = x + d + d' := ⟨z - (x + d), by omega⟩
  rw [show x + d - x = d by omega, show x + d + d' - (x + d) = d' by omega,
    show x + d + d' - x = d + d' by omega, List.range'_append_1]

omit [Inhabited K] in
/-- `rptr` is non-decreasing and the rows `a .. a+m-1` tile the positions
    `rptr[a] .. rptr[a+m]-1` -/
theorem rowRange_tile (A : SMat K) (m a : Nat)
    (hm : ∀ r, a ≤ r → r < a + m → A.rptr[r]! ≤ A.rptr[r+1]!) :
    A.rptr[a]! ≤ A.rptr[a+m]! ∧
    (List.range' a m).flatMap A.rowRange = List.range' A.rptr[a]! (A.rptr[a+m]! - A.rptr[a]!) := by
  induction m generalizing a with
  | zero => simp
  | succ m ih =>
    have h1 := hm a (Nat.le_refl _) (by omega)
    have ⟨h2, h3⟩ := ih (a + 1) (fun r hr1 hr2 => hm r (by omega) (by omega))
    rw [show a + 1 + m = a + (m + 1) by omega] at h2 h3
    refine ⟨Nat.le_trans h1 h2, ?_⟩
    rw [List.range'_succ, List.flatMap_cons, h3, rowRange]
    exact range'_tile h1 h2

omit [Inhabited K] in
theorem positions_eq (A : SMat K) (h : A.WF) :
    (List.range' 1 A.rows).flatMap A.rowRange = List.range A.ncnt := by
  have := (rowRange_tile A A.rows 1 (fun r h1 h2 => h.rptr_mono r h1 (by omega))).2
  rw [this, h.rptr_one, Nat.add_comm 1 A.rows, h.rptr_last, List.range_eq_range']
  rfl

theorem entries_cols (A : SMat K) (h : A.WF) :
    A.entries.map (fun e => e.2.1) = (List.range A.ncnt).map fun p => A.cind[p]! := by
  rw [← positions_eq A h]
  simp [entries, rowEntries, List.map_flatMap, Function.comp_def]

theorem entries_length (A : SMat K) (h : A.WF) : A.entries.length = A.ncnt := by
  have := congrArg List.length (entries_cols A h)
  simpa using this

theorem entries_inRange (A : SMat K) (h : A.WF) : CS.InRange A.cols A.entries := by
  intro e he
  have : e.2.1 ∈ A.entries.map (fun e => e.2.1) := List.mem_map_of_mem he
  rw [entries_cols A h, List.mem_map] at this
  obtain ⟨p, hp, hpe⟩ := this
  rw [← hpe]
  exact h.cind_range p (by simpa using hp)

theorem tCount_eq (A : SMat K) (h : A.WF) (t : Array Nat) :
    tCount A.cind A.ncnt t = CS.countE A.entries t := by
  have e1 : CS.countE A.entries t =
      (A.entries.map fun e => e.2.1).foldl (fun t c => t.modify (c + 2) (· + 1)) t := by
    rw [List.foldl_map]; rfl
  rw [e1, entries_cols A h, List.foldl_map]
  rfl

theorem extract_toList (a : Array Nat) (n : Nat) (hn : n ≤ a.size) :
    (a.extract 0 n).toList = (List.range n).map fun p => a[p]! := by
  apply List.ext_getElem?
  intro i
  rw [Array.getElem?_toList, Array.getElem?_extract, List.getElem?_map]
  by_cases hi : i < n
  · rw [if_pos (by omega), List.getElem?_range hi, Nat.zero_add]
    simp [show i < a.size by omega]
  · rw [if_neg (by omega), List.getElem?_eq_none (by simp; omega)]
    rfl

theorem colCount_eq (A : SMat K) (h : A.WF) (c : Nat) : A.colCount c = CS.cnt A.entries c := by
  unfold colCount CS.cnt CS.bucket
  rw [extract_toList _ _ h.cind_size, ← entries_cols A h, List.filter_map, List.length_map]
  rfl

theorem zipIdx_range'_map {β : Type} (f : Nat → β) (m a : Nat) :
    ((List.range' a m).map f).zipIdx a = (List.range' a m).map fun r => (f r, r) := by
  induction m generalizing a with
  | zero => rfl
  | succ m ih => rw [List.range'_succ, List.map_cons, List.zipIdx_cons, ih (a + 1)]; rfl

theorem transposeRows_eq (A : SMat K) :
    transposeRows A.cols A.toRows = CS.specRows A.cols A.entries := by
  unfold transposeRows CS.specRows
  apply List.map_congr_left
  intro c _
  unfold transposeRow toRows CS.bucket entries
  rw [zipIdx_range'_map]
  simp [List.flatMap_map, List.filter_flatMap, List.map_flatMap, List.filter_map,
    Function.comp_def]

end Bridge

/-! ### The theorem -/

theorem transpose_eq_spec {K : Type} [Inhabited K] (A : SMat K) (h : A.WF) :
    A.transpose = A.transposeSpec := by
  have hr := entries_inRange A h
  have hl := entries_length A h
  have hs : tScatter A { tcind := Array.replicate A.ncnt 0
                         tnonz := Array.replicate A.ncnt default
                         trptr := tPrefix A.cols (tCount A.cind A.ncnt
                           (Array.replicate (A.cols + 4) 0)) } =
      A.entries.foldl CS.step (CS.init A.cols A.entries) := by
    rw [tScatter_eq, tCount_eq A h, CS.init, hl]; rfl
  unfold transpose transposeSpec ofRows
  simp only [hs]
  rw [CS.sort_cind hr, CS.sort_nonz hr, CS.sort_rptr hr, transposeRows_eq, colCount_eq A h,
    CS.specRows_flatten_length hr, hl]

/-! ### The abstraction of the result -/

theorem flatten_getElem? {α : Type} (rs : List (List α)) (k i : Nat) (hk : k < rs.length)
    (hi : i < rs[k].length) :
    rs.flatten[((rs.take k).flatten).length + i]? = some (rs[k][i]) := by
  have e : rs = rs.take k ++ rs[k] :: rs.drop (k + 1) := by simp
  conv => lhs; arg 1; rw [e]
  rw [List.flatten_append, List.flatten_cons, List.getElem?_append_right (by omega),
    Nat.add_sub_cancel_left, List.getElem?_append_left hi]
  simp

/-- `toRows` reads back the rows that `ofRows` stored -/
theorem ofRows_toRows {K : Type} [Inhabited K] (rows cols : Nat) (rs : List (List (Nat × K)))
    (pad : List Nat) (hr : rs.length = rows) : (ofRows rows cols rs pad).toRows = rs := by
  subst hr
  apply List.ext_getElem
  · simp [toRows, ofRows]
  · intro k h1 h2
    have hp : ∀ j, j ≤ rs.length →
        (ofRows rs.length cols rs pad).rptr[1 + j]! = ((rs.take j).flatten).length := by
      intro j hj
      have : (0 :: ptrsOf 0 rs ++ pad)[1 + j]? = some ((rs.take j).flatten).length := by
        rw [List.cons_append, Nat.add_comm 1 j, List.getElem?_cons_succ,
          List.getElem?_append_left (by rw [CS.ptrsOf_length]; omega), CS.ptrsOf_get _ _ _ hj,
          Nat.zero_add]
      simp only [ofRows]
      rw [List.cons_append] at this
      simp [this]
    simp only [toRows, List.getElem_map, List.getElem_range', Nat.one_mul]
    unfold rowEntries rowRange
    rw [hp k (by omega), show 1 + k + 1 = 1 + (k + 1) by omega, hp (k + 1) (by omega)]
    have ht : ((rs.take (k + 1)).flatten).length = ((rs.take k).flatten).length + rs[k].length := by
      rw [List.take_succ_eq_append_getElem h2]
      simp only [List.flatten_append, List.length_append, List.flatten_cons, List.flatten_nil,
        List.append_nil]
    rw [ht, Nat.add_sub_cancel_left]
    apply List.ext_getElem
    · simp
    · intro i hi1 hi2
      have := flatten_getElem? rs k i h2 hi2
      have hb : ∀ {β : Type} [Inhabited β] (l : List β) (p : Nat) (x : β), l[p]? = some x →
          l.toArray[p]! = x := by
        intro β _ l p x hx; simp [hx]
      simp only [ofRows, List.getElem_map, List.getElem_range', Nat.one_mul]
      rw [hb _ _ (rs[k][i]).1 (by rw [List.getElem?_map, this]; rfl),
        hb _ _ (rs[k][i]).2 (by rw [List.getElem?_map, this]; rfl)]

/-- the rows of the transpose, read through `toRows`, are the columns of `A` -/
theorem transpose_toRows {K : Type} [Inhabited K] (A : SMat K) (h : A.WF) :
    A.transpose.toRows = transposeRows A.cols A.toRows := by
  rw [transpose_eq_spec A h, transposeSpec, ofRows_toRows]
  simp [transposeRows]

/-! ### Sanity tests (concrete matrices, kernel evaluation of model and specification) -/

/-- 3 x 4, rows `[(2,10),(4,11)]`, `[]`, `[(2,12),(1,13),(2,14)]` (unsorted, duplicate column) -/
def exA : SMat Nat :=
  (((((((((new 5 3 4 : SMat Nat).newRow).addElement 10 2).addElement 11 4).newRow).newRow).addElement
    12 2).addElement 13 1).addElement 14 2)

example : exA.transpose.rptr = #[0, 0, 1, 4, 4, 5, 1, 0] := by decide
example : exA.transpose.cind = #[3, 1, 3, 3, 1] := by decide
example : exA.transpose.nonz = #[13, 10, 12, 14, 11] := by decide
example : exA.transpose.rptr = exA.transposeSpec.rptr := by decide
example : exA.transpose.cind = exA.transposeSpec.cind := by decide
example : exA.transpose.nonz = exA.transposeSpec.nonz := by decide
example : (exA.transpose.rows, exA.transpose.cols, exA.transpose.rcnt, exA.transpose.rnxt,
    exA.transpose.ncnt) = (exA.transposeSpec.rows, exA.transposeSpec.cols, exA.transposeSpec.rcnt,
    exA.transposeSpec.rnxt, exA.transposeSpec.ncnt) := by decide

/-- the hypotheses of the theorem are satisfiable by a non-trivial matrix -/
example : exA.WF where
  rcnt_eq := by decide
  rptr_size := by decide
  rptr_one := by decide
  rptr_mono := by
    intro r h1 h2
    have h2 : r ≤ 3 := h2
    have : r = 1 ∨ r = 2 ∨ r = 3 := by omega
    rcases this with rfl | rfl | rfl <;> decide
  rptr_last := by decide
  cind_size := by decide
  nonz_size := by decide
  cind_range := by
    intro p hp
    have hp : p < 5 := hp
    have : p = 0 ∨ p = 1 ∨ p = 2 ∨ p = 3 ∨ p = 4 := by omega
    rcases this with rfl | rfl | rfl | rfl | rfl <;> decide

/-- empty matrices (no rows / no columns) -/
example : (new 0 0 0 : SMat Nat).transpose.rptr = (new 0 0 0 : SMat Nat).transposeSpec.rptr := by
  decide
example : ((new 0 2 0 : SMat Nat).newRow.newRow).transpose.rptr =
    ((new 0 2 0 : SMat Nat).newRow.newRow).transposeSpec.rptr := by decide

end SMat
end Gama
