/-
  C09 / C12 — the statistic fields of the adjustment XML (`LocalNetworkXML::equations_summary`, `std_dev_summary`,
  `std_error_ellipses`, `observations`, `<flt>` of `coordinates`) and the regenerated statistics formulas.

  Two REGENERATED tables of the same writer are joined here:
    * `Gen.XmlSites.sites`      (tools/gen/c12_sites.py, C12): every operand the writer streams, as text (`ml`, `qrr`, `no`, …);
    * `StatsXmlSites.sites`     (tools/gen/c09_stats.py `gen_xml_sites`, C09): the statistic sites with the local variables of
                                the operand replaced by their definitions — an expression over `netinfo-><accessor>()` calls.
  Hand-written (this file): `classify` — which regenerated formula of `Gen/StatsGen.lean` such an accessor expression is the
  value of; `expected` — which formula the XML element is documented to hold; `value` — that formula applied to the answer of
  `LocalNetwork` (`Model/NetFacade.lean`).  `Props/C09Xml.lean` proves (by `decide` on the two regenerated tables) that every
  statistic site is classified, as expected for its tag, and states what the values are for `netSolve`'s answer.
-/
import Gama.Gen.XmlSites
import Gama.Gen.StatsXmlSites
import Gama.Lemmas.StatsReal
import Gama.Model.NetFacade
namespace Gama.Stats.Xml
open Gama Gama.Ls Gama.Ls.Net

/-- what an XML statistic field holds.  The first group are not among C09's formulas: counters, the iteration count, the
    configured probability, the χ² bounds of the ratio test (statan.cpp, C17) and the literal 0 of the `dof = 0` branch. -/
inductive Stat
  | count | iterations | probability | chiBound | zero
  | dof | defect | pvv | apriori | aposteriori | ratio | confScale | cov
  | ellMajor | ellMinor | ellAlpha | stdev | qrr | f | stdRes | errObs | errAdj
deriving DecidableEq, Repr

/-- accessor expression (regenerated `source`, blanks removed) ↦ the formula it is the value of:
    `degrees_of_freedom()` ↦ `StatsGen.degreesOfFreedom`, `stdev_obs(i)` ↦ `StatsGen.sigmaL` (through `accessorReads`),
    `wcoef_res(i)` ↦ `StatsGen.wcoefRes`, `obs_control(i)` ↦ `StatsGen.obsControl`, `fabs(studentized_residual(i))` ↦
    `|StatsGen.studentizedResidual (StatsGen.stdevRes …)|`, `residuals()(i)/(wcoef_res(i)*weight_obs(i))` ↦
    `(StatsGen.errObsAdj …).1`, `… - residuals()(i)` ↦ `.2`, the `<aposteriori>` ternary ↦ `StatsGen.xmlAposteriori`,
    `m_0_aposteriori_value()/apriori_m_0()` ↦ `StatsGen.xmlRatio`, `m_0()*m_0()*qxx(ind[i],ind[j])` ↦ `StatsGen.covEntry`,
    `std_error_ellipse#k` ↦ the k-th component of `StatsGen.stdErrorEllipse`, `conf_int_coef()` ↦ `StatsGen.confIntCoef` -/
def classifyTable : List (String × Stat) := [
  ("netinfo->observations_count()", .count),
  ("netinfo->unknowns_count()", .count),
  ("netinfo->degrees_of_freedom()", .dof),
  ("netinfo->null_space()", .defect),
  ("netinfo->trans_VWV()", .pvv),
  ("netinfo->linearization_iterations()", .iterations),
  ("netinfo->apriori_m_0()", .apriori),
  ("(netinfo->degrees_of_freedom()>0?sqrt(netinfo->trans_VWV()/netinfo->degrees_of_freedom()):0)", .aposteriori),
  ("netinfo->conf_pr()", .probability),
  ("(netinfo->m_0_aposteriori_value()/netinfo->apriori_m_0())", .ratio),
  ("(sqrt(GNU_gama::Chi_square(1-((1-netinfo->conf_pr())/2),netinfo->degrees_of_freedom())/netinfo->degrees_of_freedom()))", .chiBound),
  ("(sqrt(GNU_gama::Chi_square(((1-netinfo->conf_pr())/2),netinfo->degrees_of_freedom())/netinfo->degrees_of_freedom()))", .chiBound),
  ("0", .zero),
  ("netinfo->conf_int_coef()", .confScale),
  ("(netinfo->m_0()*netinfo->m_0())*netinfo->qxx(ind[i],ind[j])", .cov),
  ("netinfo->std_error_ellipse#1", .ellMajor),
  ("netinfo->std_error_ellipse#2", .ellMinor),
  ("netinfo->std_error_ellipse#3", .ellAlpha),
  ("netinfo->stdev_obs(i)", .stdev),
  ("netinfo->wcoef_res(i)", .qrr),
  ("netinfo->obs_control(i)", .f),
  ("(fabs(netinfo->studentized_residual(i)))", .stdRes),
  ("(netinfo->residuals()(i)/(netinfo->wcoef_res(i)*netinfo->weight_obs(i)))", .errObs),
  ("((netinfo->residuals()(i)/(netinfo->wcoef_res(i)*netinfo->weight_obs(i)))-netinfo->residuals()(i))", .errAdj)]

def classify (source : String) : Option Stat := classifyTable.lookup source

/-- what the element is documented to hold (gama-local-adjustment.xsd / doc/gama-local-adj.texi), by tag; the literal
    operand `0` is the `dof = 0` branch of `<ratio>`, `<lower>`, `<upper>` -/
def expected (tag operand : String) : Option Stat :=
  if operand = "0" then (if tag = "ratio" ∨ tag = "lower" ∨ tag = "upper" then some .zero else none) else
  [("equations", Stat.count), ("unknowns", .count), ("degrees-of-freedom", .dof), ("defect", .defect),
   ("sum-of-squares", .pvv), ("linearization-iterations", .iterations), ("apriori", .apriori),
   ("aposteriori", .aposteriori), ("probability", .probability), ("ratio", .ratio), ("lower", .chiBound),
   ("upper", .chiBound), ("confidence-scale", .confScale), ("flt", .cov), ("major", .ellMajor), ("minor", .ellMinor),
   ("alpha", .ellAlpha), ("stdev", .stdev), ("qrr", .qrr), ("f", .f), ("std-residual", .stdRes), ("err-obs", .errObs),
   ("err-adj", .errAdj)].lookup tag

/-- printed in the angular output unit (`*sc`, 0.324 for sexagesimal seconds) when the observation is an angle -/
def unitOf : Stat → Bool
  | .stdev | .errObs | .errAdj => true
  | _ => false

/-- the statistic sites of C12's table: numeric operands of the four statistic writers and `<flt>` -/
def isStat (s : Gen.XmlSites.Site) : Bool :=
  decide (s.kind = .numeric) &&
    (["equations_summary", "std_dev_summary", "std_error_ellipses", "observations"].contains s.fn ||
      (s.fn == "coordinates" && s.tag == "flt"))

/-- the two regenerated tables list the same sites (tag, writer function, operand text) -/
def sameSites : Bool :=
  (Gen.XmlSites.sites.filter isStat).all (fun s =>
    StatsXmlSites.sites.any fun r => r.tag == s.tag && r.fn == s.fn && r.operand == s.operand) &&
  StatsXmlSites.sites.all (fun r =>
    (Gen.XmlSites.sites.filter isStat).any fun s => r.tag == s.tag && r.fn == s.fn && r.operand == s.operand)

/-- every row is classified, as the formula its tag names, with the unit factor exactly on the three fields in the
    observation's unit -/
def rowOK (r : StatsXmlSites.StatSite) : Bool :=
  match classify r.source with
  | none => false
  | some st => decide (expected r.tag r.operand = some st) && (r.unit == unitOf st)

def tableOK : Bool := sameSites && StatsXmlSites.sites.all rowOK

/-- configuration read by the formulas: kind of actual reference deviation, the coefficient functions (C17), `conf_pr` -/
structure Cfg where
  act : SigmaAct
  normal : ℝ → ℝ
  student : ℝ → ℤ → ℝ
  confPr : ℝ

def ofStr : Except String ℝ → Except ErrKind ℝ
  | .ok x => .ok x
  | .error _ => .error .NotModelled

/-- **the regenerated formula of each statistic field applied to the answer `a` of `LocalNetwork`** (`k` = observation,
    `i`, `j` = unknowns, all 1-based; for the ellipse `i = index_x()`, `j = index_y()`); before the unit factor `sc` -/
noncomputable def value (np : NetProblem ℝ) (a : NetAnswer ℝ) (c : Cfg) (st : Stat) (k i j : Nat) : Except ErrKind ℝ :=
  let ell : Except ErrKind (ℝ × ℝ × ℝ) :=
    match ofStr (a.m0 np c.act), a.qxx j j, a.qxx j i, a.qxx i i with
    | .ok m0, .ok cyy, .ok cyx, .ok cxx => .ok (StatsGen.stdErrorEllipse cyy cyx cxx m0)
    | .error e, _, _, _ => .error e
    | _, .error e, _, _ => .error e
    | _, _, .error e, _ => .error e
    | _, _, _, .error e => .error e
  match st with
  | .dof => .ok ((a.dof np : ℤ) : ℝ)
  | .defect => .ok (a.defect : ℝ)
  | .pvv => .ok a.pvv
  | .apriori => .ok np.m0
  | .aposteriori => .ok (StatsGen.xmlAposteriori a.pvv (a.dof np))
  | .ratio => .ok (StatsGen.xmlRatio a.pvv np.m0 (a.dof np))
  | .zero => .ok 0
  | .probability => .ok c.confPr
  | .confScale => ofStr (StatsGen.confIntCoef c.normal c.student c.act c.confPr (a.dof np))
  | .cov =>
    match ofStr (a.m0 np c.act), a.qxx i j with
    | .ok m0, .ok q => .ok (StatsGen.covEntry m0 q)
    | .error e, _ => .error e
    | _, .error e => .error e
  | .ellMajor => ell.map (·.1)
  | .ellMinor => ell.map (·.2.1)
  | .ellAlpha => ell.map (·.2.2)
  | .stdev => a.stdevObs np c.act k
  | .qrr => a.wcoefRes np k
  | .f => (a.qbb k k).map StatsGen.obsControl
  | .stdRes =>
    match ofStr (a.m0 np c.act), a.wcoefRes np k with
    | .ok m0, .ok qv => .ok |StatsGen.studentizedResidual (StatsGen.stdevRes m0 qv) (Dn.vget a.r (k - 1))|
    | .error e, _ => .error e
    | _, .error e => .error e
  | .errObs => (a.wcoefRes np k).map fun qv => (StatsGen.errObsAdj (Dn.vget a.r (k - 1)) qv (Net.weightObs np k)).1
  | .errAdj => (a.wcoefRes np k).map fun qv => (StatsGen.errObsAdj (Dn.vget a.r (k - 1)) qv (Net.weightObs np k)).2
  | .count | .iterations | .chiBound => .error .NotModelled

end Gama.Stats.Xml
