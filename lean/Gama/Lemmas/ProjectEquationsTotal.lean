/-
  PE — part 5: `unknowns_` is TOTAL.  After `project_equations()` every element `0 … n-1` of `unknowns_` was
  written (no value-initialised element is left), and the (type, point / stand-point) that claims a position is
  unique.  This is the invariant whose violation was the heap-buffer-overflow repaired by /repo 3fb8708
  (`index_x() = 0` with `index_y() ≠ 0`: the pair 'X','Y' was written through `index_x()-1 = -1`).

    J. keys of the index state a pass ends with ⊆ keys it started from ∪ names TOUCHED by an observation of
       the pass (for every carrier `K`: only the event shapes enter)
    K. a touched name is written by the loops over the stand-points / over `PD`:
         point coordinate  ⇒ the point is `free_*()` hence `active_*()` and exists in `PD`;
         orientation       ⇒ the observation is a Direction of a stand-point with an orientation (`oriOK`) whose
                              `from()` passed the revision (`active_xy()`), and `from()` IS the station
                              (`DirFromStation`: the C++ constructor invariant `StandPoint::station == Direction::from()`;
                              the model's `Cluster` does not enforce it, so it is a hypothesis — without it the model has
                              a counterexample: station ≠ from, station unused ⇒ the 'R' element stays unwritten)
    L. a write is never undone (`Written` is monotone along both loops)
    M. uniqueness of the claimant (`EntryOK … j e → EntryOK … j e' → e = e'`)
-/
import Gama.Lemmas.ProjectEquationsOri
namespace Gama.PE
open Gama Gama.Lin Gama.NetDecision

variable {K : Type}

/-! ### J. where the keys of the final index state come from -/

theorem touch_keys (s : IdxState) (u v : Unk) (h : v ∈ (s.touch u).tab.map Prod.fst) :
    v ∈ s.tab.map Prod.fst ∨ v = u := by
  unfold IdxState.touch at h
  split at h
  · simp only [List.map_cons, List.mem_cons] at h
    rcases h with h | h
    · exact Or.inr h
    · exact Or.inl h
  · exact Or.inl h

theorem runEvs_keys (name : Role → Coord → Unk) (evs : List (Ev K)) :
    ∀ (s : IdxState) (v : Unk), v ∈ (runEvs name evs s).1.tab.map Prod.fst →
      v ∈ s.tab.map Prod.fst ∨ ∃ r c, Ev.touch r c ∈ evs ∧ v = name r c := by
  induction evs with
  | nil => intro s v h; exact Or.inl h
  | cons e t ih =>
    intro s v h
    cases e with
    | touch r c =>
      rcases ih (s.touch (name r c)) v h with h1 | ⟨r', c', hm, hv⟩
      · rcases touch_keys s _ v h1 with h2 | h2
        · exact Or.inl h2
        · exact Or.inr ⟨r, c, List.mem_cons_self, h2⟩
      · exact Or.inr ⟨r', c', List.mem_cons_of_mem _ hm, hv⟩
    | push r c x =>
      have hrun : (runEvs name (Ev.push r c x :: t) s).1 = (runEvs name t s).1 := rfl
      rw [hrun] at h
      rcases ih s v h with h1 | ⟨r', c', hm, hv⟩
      · exact Or.inl h1
      · exact Or.inr ⟨r', c', List.mem_cons_of_mem _ hm, hv⟩

theorem passFrom_keys [TrigScalar K] (σ : Lin.Net K) (fuel : Nat) (obs : List (NObs K)) :
    ∀ (s : IdxState) (b : PassOut K), passFrom σ fuel obs s = .ok b → ∀ v ∈ b.idx.tab.map Prod.fst,
      v ∈ s.tab.map Prod.fst ∨ ∃ ob ∈ obs, ∃ out, ob.kind.lin fuel (σ.view ob) = .ok out ∧
        ∃ r c, Ev.touch r c ∈ out.evs ∧ v = ob.name r c := by
  induction obs with
  | nil =>
    intro s b h v hv
    simp only [passFrom] at h; injection h with h; subst h
    exact Or.inl hv
  | cons ob t ih =>
    intro s b h v hv
    obtain ⟨out, r, ho, hr, rfl⟩ := passFrom_cons' h
    rcases ih _ r hr v hv with h1 | ⟨ob', hm, out', ho', r', c', he, hv'⟩
    · rcases runEvs_keys ob.name out.evs s v h1 with h2 | ⟨r', c', he, hv'⟩
      · exact Or.inl h2
      · exact Or.inr ⟨ob, List.mem_cons_self, out, ho, r', c', he, hv'⟩
    · exact Or.inr ⟨ob', List.mem_cons_of_mem _ hm, out', ho', r', c', he, hv'⟩

/-- every index `1 … maxn` of a well-formed state is the index of a key -/
theorem IdxState.exists_key {s : IdxState} (h : s.WF) (j : Nat) (h1 : 1 ≤ j) (h2 : j ≤ s.maxn) :
    ∃ u, u ∈ s.tab.map Prod.fst ∧ s.get u = j := by
  have hj : j ∈ s.tab.map Prod.snd := by
    rw [h.vals]; exact List.mem_reverse.mpr (List.mem_range'_1.mpr ⟨h1, by omega⟩)
  obtain ⟨e, he, hej⟩ := List.mem_map.mp hj
  refine ⟨e.1, List.mem_map_of_mem he, ?_⟩
  have hne : s.get e.1 ≠ 0 := by
    rw [Ne, IdxState.get_eq_zero_iff h]; exact fun hn => hn (List.mem_map_of_mem he)
  have hm := IdxState.get_mem hne
  have := List.inj_on_of_nodup_map h.keys hm he rfl
  rw [← hej]
  exact congrArg Prod.snd this

/-! ### L. a write is never undone -/

/-- element `j` of `unknowns_` has been assigned -/
def Written (l : List (Option UEntry)) (j : Nat) : Prop := ∃ e, l[j]? = some (some e)

theorem setU_written (l : List (Option UEntry)) (i : Nat) (u : UEntry) (j : Nat) (h : Written l j) :
    Written (setU l i u) j := by
  obtain ⟨e, he⟩ := h
  unfold Written setU
  rw [List.getElem?_set]
  split
  · rename_i hij
    have hlt : j < l.length := by
      rcases Nat.lt_or_ge j l.length with h | h
      · exact h
      · rw [List.getElem?_eq_none h] at he; cases he
    subst hij
    simp [hlt]
  · exact ⟨e, he⟩

theorem setU_writes (l : List (Option UEntry)) (i : Nat) (u : UEntry) (h0 : i ≠ 0) (hle : i ≤ l.length) :
    Written (setU l i u) (i - 1) := by
  unfold Written setU
  exact ⟨u, by rw [List.getElem?_set_self (by omega)]⟩

theorem oriLoop_written [Zero K] (net : Net K) (idx : IdxState) (j : Nat) :
    ∀ (cs : List (Cluster K)) (k : Nat) (l : List (Option UEntry)), Written l j → Written (oriLoop net idx k cs l) j := by
  intro cs
  induction cs with
  | nil => intro k l h; exact h
  | cons c cs ih =>
    intro k l h
    simp only [oriLoop]
    rcases hst : c.stand with _ | ⟨st, _ | o⟩
    · exact ih (k + 1) l h
    · exact ih (k + 1) l h
    · simp only []
      split
      · exact ih (k + 1) _ (setU_written l _ _ j h)
      · exact ih (k + 1) l h

theorem ite_setU_written (l : List (Option UEntry)) (P : Prop) [Decidable P] (i : Nat) (u : UEntry) (j : Nat)
    (h : Written l j) : Written (if P then setU l i u else l) j := by
  split
  · exact setU_written l i u j h
  · exact h

theorem ptLoop_written (idx : IdxState) (j : Nat) :
    ∀ (ps : List (Point K)) (i : Nat) (l : List (Option UEntry)), Written l j → Written (ptLoop idx i ps l) j := by
  intro ps
  induction ps with
  | nil => intro i l h; exact h
  | cons p ps ih =>
    intro i l h
    simp only [ptLoop]
    exact ih (i + 1) _ (ite_setU_written _ _ _ _ j (ite_setU_written _ _ _ _ j (ite_setU_written _ _ _ _ j h)))

theorem ite_setU_length (l : List (Option UEntry)) (P : Prop) [Decidable P] (i : Nat) (u : UEntry) :
    (if P then setU l i u else l).length = l.length := by
  split
  · exact setU_length l i u
  · rfl

/-! ### K. a claimed position is written -/

/-- the loop over the stand-points writes the position of cluster `k` -/
theorem oriLoop_writes' [Zero K] (net : Net K) (idx : IdxState) (n : Nat) (k : Nat) (c : Cluster K) (st : Nat) (o : K)
    (hst : c.stand = some (st, some o)) (hact : (ptAt net st).active_xy = true)
    (hk0 : idx.get ⟨k, .ori⟩ ≠ 0) (hle : idx.get ⟨k, .ori⟩ ≤ n) :
    ∀ (cs : List (Cluster K)) (k0 : Nat) (l : List (Option UEntry)), l.length = n →
      k0 ≤ k → cs[k - k0]? = some c → Written (oriLoop net idx k0 cs l) (idx.get ⟨k, .ori⟩ - 1) := by
  intro cs
  induction cs with
  | nil => intro k0 l _ _ h; simp at h
  | cons c0 cs ih =>
    intro k0 l hlen h1 hc
    by_cases hk : k0 = k
    · subst hk
      simp only [Nat.sub_self, List.getElem?_cons_zero, Option.some.injEq] at hc
      subst hc
      simp only [oriLoop, hst]
      rw [if_pos ⟨hk0, hact⟩]
      exact oriLoop_written net idx _ cs (k0 + 1) _ (setU_writes l _ _ hk0 (by omega))
    · have hc' : cs[k - (k0 + 1)]? = some c := by
        have : k - k0 = (k - (k0 + 1)) + 1 := by omega
        rw [this, List.getElem?_cons_succ] at hc; exact hc
      simp only [oriLoop]
      rcases hst0 : c0.stand with _ | ⟨st0, _ | o0⟩
      · exact ih (k0 + 1) l hlen (by omega) hc'
      · exact ih (k0 + 1) l hlen (by omega) hc'
      · simp only []
        split
        · exact ih (k0 + 1) _ (by rw [setU_length]; exact hlen) (by omega) hc'
        · exact ih (k0 + 1) l hlen (by omega) hc'

/-- the loop over `PD` writes the position of coordinate `c` of point `i` -/
theorem ptLoop_writes' (idx : IdxState) (n : Nat) (i : Nat) (p : Point K) (c : Coord) (hc : c ≠ .ori)
    (hact : (if c = .z then p.pt.active_z else p.pt.active_xy) = true)
    (h0 : idx.get ⟨i, c⟩ ≠ 0) (hle : idx.get ⟨i, c⟩ ≤ n) :
    ∀ (ps : List (Point K)) (i0 : Nat) (l : List (Option UEntry)), l.length = n →
      i0 ≤ i → ps[i - i0]? = some p → Written (ptLoop idx i0 ps l) (idx.get ⟨i, c⟩ - 1) := by
  intro ps
  induction ps with
  | nil => intro i0 l _ _ h; simp at h
  | cons p0 ps ih =>
    intro i0 l hlen h1 hp
    by_cases hi : i0 = i
    · subst hi
      simp only [Nat.sub_self, List.getElem?_cons_zero, Option.some.injEq] at hp
      subst hp
      simp only [ptLoop]
      apply ptLoop_written
      cases c with
      | ori => exact absurd rfl hc
      | x =>
        simp only [reduceCtorEq, if_false] at hact
        refine ite_setU_written _ _ _ _ _ (ite_setU_written _ _ _ _ _ ?_)
        rw [if_pos ⟨hact, h0⟩]
        exact setU_writes l _ _ h0 (by omega)
      | y =>
        simp only [reduceCtorEq, if_false] at hact
        refine ite_setU_written _ _ _ _ _ ?_
        rw [if_pos ⟨hact, h0⟩]
        exact setU_writes _ _ _ h0 (by rw [ite_setU_length]; omega)
      | z =>
        simp only [if_true] at hact
        rw [if_pos ⟨hact, h0⟩]
        exact setU_writes _ _ _ h0 (by rw [ite_setU_length, ite_setU_length]; omega)
    · have hp' : ps[i - (i0 + 1)]? = some p := by
        have : i - i0 = (i - (i0 + 1)) + 1 := by omega
        rw [this, List.getElem?_cons_succ] at hp; exact hp
      simp only [ptLoop]
      exact ih (i0 + 1) _ (by rw [ite_setU_length, ite_setU_length, ite_setU_length]; exact hlen) (by omega) hp'

/-! ### the revision behind an observation of `revised_obs_` -/

/-- the C++ constructor invariant: the directions of a `StandPoint` are observed AT its station -/
def DirFromStation (net : Net K) : Prop :=
  ∀ c ∈ net.clusters, ∀ st o, c.stand = some (st, o) → ∀ ob ∈ c.obs, ob.kind = .direction → ob.pfrom = st

theorem mem_revisedFrom (cs : List (Cluster K)) : ∀ (k0 : Nat) (ob : NObs K), ob ∈ revisedFrom k0 cs →
    ∃ (j : Nat) (c : Cluster K) (o : Ob K), cs[j]? = some c ∧ o ∈ c.obs ∧ o.active = true ∧ ob = o.toN (k0 + j) := by
  induction cs with
  | nil => intro k0 ob h; cases h
  | cons c cs ih =>
    intro k0 ob h
    simp only [revisedFrom, List.mem_append, List.mem_map, List.mem_filter] at h
    rcases h with ⟨o, ⟨ho, ha⟩, rfl⟩ | h
    · exact ⟨0, c, o, rfl, ho, ha, rfl⟩
    · obtain ⟨j, c', o, hc, ho, ha, rfl⟩ := ih (k0 + 1) ob h
      exact ⟨j + 1, c', o, by simpa using hc, ho, ha, by rw [show k0 + 1 + j = k0 + (j + 1) by omega]⟩

theorem reviseFrom_get (pts : List MinX.PtS) (all : List (Bool × MinX.Obs)) (cs : List (Cluster K)) :
    ∀ (k0 j : Nat) (c : Cluster K), (reviseFrom pts all k0 cs)[j]? = some c →
      ∃ c0, cs[j]? = some c0 ∧ c.stand = c0.stand ∧
        c.obs = c0.obs.map fun o => { o with active := MinX.isRevised pts all (o.toMinX (k0 + j)) } := by
  induction cs with
  | nil => intro k0 j c h; simp [reviseFrom] at h
  | cons c0 cs ih =>
    intro k0 j c h
    cases j with
    | zero =>
      simp only [reviseFrom, List.getElem?_cons_zero, Option.some.injEq] at h
      subst h
      exact ⟨c0, rfl, rfl, rfl⟩
    | succ j =>
      simp only [reviseFrom, List.getElem?_cons_succ] at h
      obtain ⟨c1, h1, h2, h3⟩ := ih (k0 + 1) j c h
      exact ⟨c1, by simpa using h1, h2, by rw [h3, show k0 + 1 + j = k0 + (j + 1) by omega]⟩

/-- an observation that survived the revision has the xy group of its `from()` active when it is a Direction -/
theorem revised_direction_from [Zero K] (n1 : Net K) (ob : NObs K) (h : ob ∈ revisedObs (revise n1))
    (hk : ob.kind = .direction) : (ptAt (revise n1) ob.pfrom).active_xy = true := by
  obtain ⟨j, c, o, hc, ho, ha, rfl⟩ := mem_revisedFrom _ 0 ob h
  obtain ⟨c0, _, _, hobs⟩ := reviseFrom_get _ _ _ 0 j c hc
  rw [hobs] at ho
  obtain ⟨o0, _, rfl⟩ := List.mem_map.mp ho
  simp only [] at ha
  have hkind : o0.kind = .direction := hk
  unfold MinX.isRevised MinX.activeBasic at ha
  simp only [Bool.and_eq_true] at ha
  have hneeds := ha.1.2
  rw [List.all_eq_true] at hneeds
  have hmem : (o0.pfrom, true) ∈ (o0.toMinX (0 + j)).2.needs := by
    simp [Ob.toMinX, MinX.Obs.needs, kindM, hkind]
  have := hneeds _ hmem
  simp only [if_true] at this
  rw [xyOf_ptsOf, active_cstat] at this
  exact this

/-! ### the theorem -/

theorem ptAt_free_exists [Zero K] (net : Net K) (i : Nat) (h : (ptAt net i).free_xy = true ∨ (ptAt net i).free_z = true) :
    ∃ p : Point K, net.points[i]? = some p ∧ p.pt = ptAt net i := by
  unfold ptAt at h ⊢
  cases hp : net.points[i]? with
  | none => simp [hp, Pt.free_xy, Pt.free_z, Status.isFree] at h
  | some p => exact ⟨p, rfl, rfl⟩

theorem isFree_isActive (s : Status) (h : s.isFree = true) : s.isActive = true := by
  cases s <;> simp_all [Status.isFree, Status.isActive]


section total
variable [TrigScalar K] {net : Net K} {a : Asm K} {b : PassOut K}

/-- **every element of `unknowns_` is written** — for the inner call that completes `project_equations()` -/
theorem unknownsList_total (F : Fresh net a b) (hrev : ∃ n1, net = revise n1) (hds : DirFromStation net)
    (j : Nat) (hj : j < a.np.n) : Written (unknownsList net a.idx) j := by
  -- position j is index j+1 of a key of the pass from the cleared state
  obtain ⟨v, hvk, hvj⟩ := IdxState.exists_key F.ok.wf (j + 1) (by omega) (by rw [← F.n]; omega)
  rcases passFrom_keys _ _ _ _ _ F.pass v hvk with h0 | ⟨ob, hob, out, ho, r, c, he, rfl⟩
  · simp [IdxState.init] at h0
  -- the touched name is cleared by the prologue: the final state agrees with the fresh pass on it
  have hcl : Cleared net (ob.name r c) := by
    have := lin_events_cleared net ob out ho (Ev.touch r c) he
    simpa [evTarget] using this
  have hget : a.idx.get (ob.name r c) = j + 1 := by rw [F.agree _ hcl]; exact hvj
  have hpos : j = a.idx.get (ob.name r c) - 1 := by omega
  have hlen0 : (List.replicate a.idx.maxn (none : Option UEntry)).length = a.np.n := by
    rw [List.length_replicate, F.maxn, F.n]
  -- shape of the event
  have hs : (false, r, c) ∈ kindShape ob.kind ((sigmaOf net).view ob) := by
    rw [← shape_of_ok _ _ _ _ ho, evShape_eq_map]
    exact List.mem_map.mpr ⟨Ev.touch r c, he, rfl⟩
  have hf := shapeB_free _ _ _ _ _ _ _ hs
  rw [hpos]
  unfold unknownsList
  by_cases hc : c = .ori
  · -- an orientation: a Direction, role `station`
    subst hc
    obtain ⟨hkind, hr⟩ := shapeB_ori_direction _ _ _ _ _ _ _ hs rfl
    simp only at hr
    subst hr
    have hname : ob.name .station .ori = ⟨ob.sp, .ori⟩ := rfl
    rw [hname] at hget ⊢
    have hok := F.oris ob hob
    unfold oriOK at hok
    rw [hkind] at hok
    simp only at hok
    cases hcl' : net.clusters[ob.sp]? with
    | none => simp [hcl'] at hok
    | some cl =>
      rw [hcl'] at hok
      simp only at hok
      rcases hst : cl.stand with _ | ⟨st, _ | o⟩
      · simp [hst] at hok
      · simp [hst] at hok
      · -- the station is `from()`, which the revision found active
        obtain ⟨n1, rfl⟩ := hrev
        obtain ⟨jj, c', o', hc', ho', _, hobeq⟩ := mem_revisedFrom _ 0 ob hob
        have hsp : ob.sp = jj := by rw [hobeq]; simp [Ob.toN]
        have hcc : c' = cl := by
          rw [← hsp] at hc'
          have : (revise n1).clusters[ob.sp]? = some c' := hc'
          rw [hcl'] at this; injection this with this; exact this.symm
        subst hcc
        have hfrom : ob.pfrom = st := by
          have := hds c' (List.mem_of_getElem? hcl') st (some o) hst o' ho' (by rw [hobeq] at hkind; exact hkind)
          rw [hobeq]; exact this
        have hact := revised_direction_from n1 ob hob hkind
        rw [hfrom] at hact
        apply ptLoop_written
        exact oriLoop_writes' (revise n1) a.idx a.np.n ob.sp c' st o hst hact (by omega)
          (by omega) (revise n1).clusters 0 _ hlen0 (Nat.zero_le _) (by simpa using hcl')
  · -- a coordinate of a point: the point is free, hence active and in `PD`
    have hrs : r ≠ .station := by
      rintro rfl
      cases c <;> simp [freeB] at hf
      exact hc rfl
    rw [name_eq] at hget ⊢
    have hview := view_pt net ob r hrs
    have hfree : (ptAt net (roleId ob r)).free_xy = true ∨ (ptAt net (roleId ob r)).free_z = true := by
      rw [← hview]
      cases r <;> cases c <;> simp_all [freeB, kindShape, Obs.pt]
    obtain ⟨p, hp, hpt⟩ := ptAt_free_exists net _ hfree
    have hact : (if c = .z then p.pt.active_z else p.pt.active_xy) = true := by
      rw [hpt, ← hview]
      cases r <;> cases c <;>
        simp_all [freeB, kindShape, Obs.pt, Pt.active_xy, Pt.active_z, Pt.free_xy, Pt.free_z, isFree_isActive]
    have hlen1 : (oriLoop net a.idx 0 net.clusters (List.replicate a.idx.maxn none)).length = a.np.n := by
      have h0 : Sound net a.idx (List.replicate a.idx.maxn none) := by
        intro j e he
        rw [List.getElem?_replicate] at he
        split at he
        · injection he with he; cases he
        · cases he
      rw [(oriLoop_sound net a.idx net.clusters 0 _ (fun i c h => by simpa using h) h0).2]; exact hlen0
    exact ptLoop_writes' a.idx a.np.n (roleId ob r) p c hc hact (by omega) (by omega) net.points 0 _ hlen1
      (Nat.zero_le _) (by simpa using hp)

/-! ### M. the claimant of a position is unique -/

/-- the entry the loops write for the unknown `v` -/
def entryOf (net : Net K) (v : Unk) : UEntry :=
  match v.c with
  | .ori => ⟨match net.clusters[v.id]? with
             | some c => (match c.stand with | some (st, _) => idOf net st | none => "")
             | none => "", .R, some v.id⟩
  | .x => ⟨idOf net v.id, .X, none⟩
  | .y => ⟨idOf net v.id, .Y, none⟩
  | .z => ⟨idOf net v.id, .Z, none⟩

/-- an entry that is what its position says is the entry of ONE cleared unknown with that index -/
theorem entryOK_claim (net : Net K) (idx : IdxState) (j : Nat) (e : UEntry) (h : EntryOK net idx j e) :
    ∃ v, Cleared net v ∧ idx.get v = j + 1 ∧ e = entryOf net v := by
  have clP : ∀ (i : Nat) (p : Point K) (c : Coord), net.points[i]? = some p →
      (p.pt.active_xy = true ∨ p.pt.active_z = true) → Cleared net ⟨i, c⟩ := by
    intro i p c hp hact
    right
    show Gen.Lin.resetGuard (ptAt net i) = true
    rw [ptAt_of_get net i p hp]
    rcases hact with hact | hact
    · exact (resetGuard_of_active _).1 hact
    · exact (resetGuard_of_active _).2 hact
  obtain ⟨pid, ty, ori⟩ := e
  unfold EntryOK at h
  cases ty <;> simp only at h
  · obtain ⟨h1, i, p, h2, h3, h4, h5⟩ := h
    exact ⟨⟨i, .x⟩, clP i p _ h2 (Or.inl h4), h5, by simp [entryOf, idOf, h2, h1, h3]⟩
  · obtain ⟨h1, i, p, h2, h3, h4, h5⟩ := h
    exact ⟨⟨i, .y⟩, clP i p _ h2 (Or.inl h4), h5, by simp [entryOf, idOf, h2, h1, h3]⟩
  · obtain ⟨h1, i, p, h2, h3, h4, h5⟩ := h
    exact ⟨⟨i, .z⟩, clP i p _ h2 (Or.inr h4), h5, by simp [entryOf, idOf, h2, h1, h3]⟩
  · obtain ⟨k, c, st, o, h1, h2, h3, h4, h5, h6⟩ := h
    exact ⟨⟨k, .ori⟩, Or.inl rfl, h6, by simp [entryOf, h2, h3, h1, h4]⟩

/-- **the claimant of a position is unique**: two entries that both are what position `j` says are equal -/
theorem entryOK_unique (F : Fresh net a b) (j : Nat) (e e' : UEntry)
    (h : EntryOK net a.idx j e) (h' : EntryOK net a.idx j e') : e = e' := by
  obtain ⟨v, hv, hj, rfl⟩ := entryOK_claim net a.idx j e h
  obtain ⟨w, hw, hj', rfl⟩ := entryOK_claim net a.idx j e' h'
  rw [F.get_inj v w hv hw (by rw [hj, hj']) (by omega)]

end total

end Gama.PE
