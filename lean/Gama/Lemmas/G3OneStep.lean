/-
  C19 — the network level, continued (round 4):

  * one Gauss–Newton step on a network of *linear* observations (vectors, observed coordinates, heights, height
    differences): the hypothesis "every project equation is satisfied exactly by ξ" of
    `C19_one_step_network_reproduced` is *derived* from "the observed values were generated from the
    coordinates displaced by ξ" — every point displaced in its OWN n-e-u frame, the displacement applied
    in ECEF (`R_point · (dn, de, du)`), exactly as `Point::write_xml` applies the adjusted unknowns;
  * the regularisation list `minx` of `Model::update_linearization`: which column indices it holds
    (`mem_minx_iff`), no index twice, the set handed to class `Adj` (`regSet`) and its transport under
    the renumbering of the columns caused by another order of the input records.
-/
import Gama.Lemmas.G3NetLemmas
namespace Gama
namespace G3Net
open Neu G3Book G3Lin Matrix
set_option linter.unusedSectionVars false

variable {ι : Type} [DecidableEq ι]

/-! ### states of the points the linearisation reads -/

section state
variable {K : Type} [Scalar K]

/-- N and E of every point the linearisation reads are in the same state (`Model::update_parameters`):
    the hypothesis `Normal P` of `C19_only_free` holds for the points of the network model -/
theorem ptsOf_normal (net : Net ι K) (ind : Par ι → Nat) (ob : Obs ι) : Normal (ptsOf net ind ob) := by
  intro r
  unfold ptsOf
  cases roleName ob r with
  | none => rfl
  | some n =>
    simp only
    cases net.pts n with
    | none => rfl
    | some g => rfl

/-- `Parameter::free()` of the component `c` of the point of role `r` is `isFreePar` of the book -/
theorem ptsOf_isFree (net : Net ι K) (ind : Par ι → Nat) (ob : Obs ι) (r : Role) (n : ι)
    (hn : roleName ob r = some n) (c : Comp) :
    ((ptsOf net ind ob r).state c).isFree = isFreePar net.points (n, c) := by
  unfold ptsOf
  rw [hn]
  simp only
  cases hg : net.pts n with
  | none =>
    have : isFreePar net.points (n, c) = false := by
      simp [isFreePar, parState, Net.points, hg, PState.isFree]
    rw [this]
    cases c <;> rfl
  | some g =>
    simp only [mkGPt_state, isFreePar, parState, Net.points, hg, Option.map_some]

end state

/-! ### the displacement of a point as the rows see it = as the result writer applies it -/

/-- `R · (dn, de, du)`: the ECEF displacement of a point with frame `R` moved by `d` in its own n-e-u frame
    (`Point::x_transform / y_transform / z_transform`) -/
def neuDisp (R : Rot ℝ) (d : Comp → ℝ) : ℝ × ℝ × ℝ :=
  (R.r11 * d .N + R.r12 * d .E + R.r13 * d .U,
   R.r21 * d .N + R.r22 * d .E + R.r23 * d .U,
   R.r31 * d .N + R.r32 * d .E + R.r33 * d .U)

/-- with `x(0) = 0` (the accessor `vecAt`), the correction of a component is `x(index)/1000` -/
theorem neuCorr_eq (P : Points ι) (b : Book ι) (x : Nat → ℝ) (hx0 : x 0 = 0) (n : ι) (c : Comp) :
    neuCorr P b x n c = x (b.idx.index (isFreePar P) (n, c)) / 1000 := by
  unfold neuCorr
  by_cases h : b.idx.index (isFreePar P) (n, c) ≠ 0
  · rw [if_pos h]
  · rw [if_neg h]
    have : b.idx.index (isFreePar P) (n, c) = 0 := by omega
    rw [this, hx0]; simp

/-- the n, e, u the sparse rows multiply for the point of role `r` (name `n`) are the unknowns under the
    book's indices of (n, N), (n, E), (n, U) — 0 for a component that is not adjusted -/
theorem disp_ptsOf (net : Net ι ℝ) (b : Book ι) (y : Nat → ℝ) (hy0 : y 0 = 0) (ob : Obs ι) (r : Role) (n : ι)
    (hn : roleName ob r = some n) :
    dispN (toPt (ptsOfR net b.idx.ind ob r)) y = y (b.idx.index (isFreePar net.points) (n, .N)) ∧
    dispE (toPt (ptsOfR net b.idx.ind ob r)) y = y (b.idx.index (isFreePar net.points) (n, .E)) ∧
    dispU (toPt (ptsOfR net b.idx.ind ob r)) y = y (b.idx.index (isFreePar net.points) (n, .U)) := by
  have hidx : ∀ c, @GPt.index ℝ (ptsOfR net b.idx.ind ob r) c = b.idx.index (isFreePar net.points) (n, c) := by
    intro c
    have := @ptsOf_index ι _ ℝ realTrig.toSinCos.toScalar net b.idx ob r c
    rw [hn] at this
    exact this
  have hfree : ∀ c, ((ptsOfR net b.idx.ind ob r).state c).isFree = isFreePar net.points (n, c) :=
    fun c => @ptsOf_isFree ι _ ℝ realTrig.toSinCos.toScalar net b.idx.ind ob r n hn c
  have hnorm : (ptsOfR net b.idx.ind ob r).sN = (ptsOfR net b.idx.ind ob r).sE :=
    @ptsOf_normal ι _ ℝ realTrig.toSinCos.toScalar net b.idx.ind ob r
  have hz : ∀ c, isFreePar net.points (n, c) = false → b.idx.index (isFreePar net.points) (n, c) = 0 := by
    intro c hc
    simp [Idx.index, hc]
  set g := ptsOfR net b.idx.ind ob r with hg
  have hN : g.sN.isFree = isFreePar net.points (n, .N) := hfree .N
  have hE : g.sE.isFree = isFreePar net.points (n, .E) := hfree .E
  have hU : g.sU.isFree = isFreePar net.points (n, .U) := hfree .U
  have hNE : isFreePar net.points (n, .E) = isFreePar net.points (n, .N) := by rw [← hE, ← hN, hnorm]
  refine ⟨?_, ?_, ?_⟩
  · cases hf : isFreePar net.points (n, .N)
    · simp [dispN, toPt, hN, hf, hz .N hf, hy0]
    · simp [dispN, toPt, hN, hE, hNE, hf, hidx]
  · cases hf : isFreePar net.points (n, .E)
    · simp [dispE, toPt, hE, hf, hz .E hf, hy0]
    · simp [dispE, toPt, hN, hE, ← hNE, hf, hidx]
  · cases hf : isFreePar net.points (n, .U)
    · simp [dispU, toPt, hU, hf, hz .U hf, hy0]
    · simp [dispU, toPt, hU, hf, hidx]

/-- the ECEF displacement the rows of an observation see for the point of role `r`, when the unknowns are `x` [mm],
    in metres: the point's own frame applied to its own n-e-u corrections (`neuCorr`, what `update_adjustment` adds) -/
theorem dispXYZ_ptsOf (net : Net ι ℝ) (b : Book ι) (x : Nat → ℝ) (hx0 : x 0 = 0) (ob : Obs ι) (r : Role) (n : ι)
    (hn : roleName ob r = some n) :
    dispXYZ (toPt (ptsOfR net b.idx.ind ob r)) (fun i => x i / 1000) =
      neuDisp (ptsOfR net b.idx.ind ob r).R (neuCorr net.points b x n) := by
  obtain ⟨h1, h2, h3⟩ := disp_ptsOf net b (fun i => x i / 1000) (by simp [hx0]) ob r n hn
  unfold dispXYZ neuDisp
  rw [h1, h2, h3, neuCorr_eq _ _ _ hx0, neuCorr_eq _ _ _ hx0, neuCorr_eq _ _ _ hx0]
  rfl

/-! ### observations generated from displaced coordinates -/

/-- **the observed values were generated from the coordinates displaced by the unknowns `x`** [mm], for the observation
    types that are linear in the unknowns.  Every point `n` is displaced by `R_n · (dn, de, du)_n` in ECEF, where
    `(dn, de, du)_n = neuCorr … n` [m] are its own corrections in its own n-e-u frame (the frames of the points of one
    observation differ), added to the coordinates the linearisation reads:
    * vector `f → t`: observed = `(X_t + r13_t·dh_t + ΔX_t) − (X_f + r13_f·dh_f + ΔX_f)` …
    * observed coordinates of `p`: observed = `X_p + ΔX_p` …
    * height of `p`: observed = `H_p − geoid_p + du_p`; height difference: the difference of two such.
      (The ellipsoidal height is affine in the displacement *along the point's own normal*; a horizontal displacement
      `dn, de` changes it only by `(dn² + de²)/2R`, which is not modelled — `xyz2blh` is C18's.)
    The non-linear types (distance, angles) are excluded: `False`. -/
def GeneratedObs (net : Net ι ℝ) (b : Book ι) (x : Nat → ℝ) (ob : Obs ι) (o : GObs ℝ) : Prop :=
  match ob with
  | .vector f t =>
    o.v1 = (@GPt.Xdh ℝ realScalar (ptsOfR net b.idx.ind (.vector f t) .to) o.toDh +
              (neuDisp (ptsOfR net b.idx.ind (.vector f t) .to).R (neuCorr net.points b x t)).1) -
           (@GPt.Xdh ℝ realScalar (ptsOfR net b.idx.ind (.vector f t) .frm) o.fromDh +
              (neuDisp (ptsOfR net b.idx.ind (.vector f t) .frm).R (neuCorr net.points b x f)).1) ∧
    o.v2 = (@GPt.Ydh ℝ realScalar (ptsOfR net b.idx.ind (.vector f t) .to) o.toDh +
              (neuDisp (ptsOfR net b.idx.ind (.vector f t) .to).R (neuCorr net.points b x t)).2.1) -
           (@GPt.Ydh ℝ realScalar (ptsOfR net b.idx.ind (.vector f t) .frm) o.fromDh +
              (neuDisp (ptsOfR net b.idx.ind (.vector f t) .frm).R (neuCorr net.points b x f)).2.1) ∧
    o.v3 = (@GPt.Zdh ℝ realScalar (ptsOfR net b.idx.ind (.vector f t) .to) o.toDh +
              (neuDisp (ptsOfR net b.idx.ind (.vector f t) .to).R (neuCorr net.points b x t)).2.2) -
           (@GPt.Zdh ℝ realScalar (ptsOfR net b.idx.ind (.vector f t) .frm) o.fromDh +
              (neuDisp (ptsOfR net b.idx.ind (.vector f t) .frm).R (neuCorr net.points b x f)).2.2)
  | .xyz p =>
    o.v1 = (ptsOfR net b.idx.ind (.xyz p) .pt).X +
              (neuDisp (ptsOfR net b.idx.ind (.xyz p) .pt).R (neuCorr net.points b x p)).1 ∧
    o.v2 = (ptsOfR net b.idx.ind (.xyz p) .pt).Y +
              (neuDisp (ptsOfR net b.idx.ind (.xyz p) .pt).R (neuCorr net.points b x p)).2.1 ∧
    o.v3 = (ptsOfR net b.idx.ind (.xyz p) .pt).Z +
              (neuDisp (ptsOfR net b.idx.ind (.xyz p) .pt).R (neuCorr net.points b x p)).2.2
  | .height p =>
    o.v1 = @GPt.modelHeight ℝ realScalar (ptsOfR net b.idx.ind (.height p) .pt) + neuCorr net.points b x p .U
  | .hdiff f t =>
    o.v1 = (@GPt.modelHeight ℝ realScalar (ptsOfR net b.idx.ind (.hdiff f t) .to) + neuCorr net.points b x t .U) -
           (@GPt.modelHeight ℝ realScalar (ptsOfR net b.idx.ind (.hdiff f t) .frm) + neuCorr net.points b x f .U)
  | _ => False

theorem scale_back (x : Nat → ℝ) : (fun i => 1000 * (x i / 1000)) = x := by
  funext i; ring

theorem dispU_div (p : Pt ℝ) (x : Nat → ℝ) : dispU p (fun i => x i / 1000) = dispU p x / 1000 := by
  unfold dispU; split <;> simp

theorem linHeight_one_step (p : Pt ℝ) (obs : ℝ) (x : Nat → ℝ)
    (h : obs = @Pt.modelHeight ℝ realScalar p + dispU p x / 1000) :
    (@linHeight ℝ realScalar p obs).rhs = (@linHeight ℝ realScalar p obs).rows.map (fun r => @rowDot ℝ realScalar r x) := by
  subst h
  cases hf : p.freeU <;> simp [linHeight, dispU, hf, rowDot, linScale_real, Pt.modelHeight]

theorem linHeightDiff_one_step (p q : Pt ℝ) (obs : ℝ) (x : Nat → ℝ)
    (h : obs = (@Pt.modelHeight ℝ realScalar q + dispU q x / 1000) - (@Pt.modelHeight ℝ realScalar p + dispU p x / 1000)) :
    (@linHeightDiff ℝ realScalar p q obs).rhs =
      (@linHeightDiff ℝ realScalar p q obs).rows.map (fun r => @rowDot ℝ realScalar r x) := by
  subst h
  cases hf : p.freeU <;> cases hg : q.freeU <;>
    simp [linHeightDiff, dispU, hf, hg, rowDot, linScale_real, Pt.modelHeight] <;> ring

/-- per observation: generated from the displaced coordinates ⇒ every right-hand side is the row applied to `x` -/
theorem linObs_linear (net : Net ι ℝ) (b : Book ι) (x : Nat → ℝ) (hx0 : x 0 = 0) (no : NObs ι ℝ)
    (h : GeneratedObs net b x no.obs no.o) :
    (@linObs ι ℝ realTrig net b.idx.ind no).rhs =
      (@linObs ι ℝ realTrig net b.idx.ind no).rows.map (fun r => @rowDot ℝ realScalar r x) := by
  obtain ⟨ob, o⟩ := no
  simp only at h
  cases ob with
  | vector f t =>
    obtain ⟨h1, h2, h3⟩ := h
    have et := dispXYZ_ptsOf net b x hx0 (.vector f t) .to t rfl
    have ef := dispXYZ_ptsOf net b x hx0 (.vector f t) .frm f rfl
    show (evalLin _ (@Gen.G3Lin.vector ℝ realTrig _ o net.tol)).rhs =
      (evalLin _ (@Gen.G3Lin.vector ℝ realTrig _ o net.tol)).rows.map _
    rw [gen_vector_eq]
    have := linVector_one_step (toPt (ptsOfR net b.idx.ind (.vector f t) .frm)) (toPt (ptsOfR net b.idx.ind (.vector f t) .to))
      o.v1 o.v2 o.v3 o.fromDh o.toDh net.tol (fun i => x i / 1000)
      (by rw [et, ef]; exact h1) (by rw [et, ef]; exact h2) (by rw [et, ef]; exact h3)
    rw [scale_back] at this
    exact this
  | xyz p =>
    obtain ⟨h1, h2, h3⟩ := h
    have ep := dispXYZ_ptsOf net b x hx0 (.xyz p) .pt p rfl
    show (evalLin _ (@Gen.G3Lin.xyz ℝ realTrig _ o net.tol)).rhs =
      (evalLin _ (@Gen.G3Lin.xyz ℝ realTrig _ o net.tol)).rows.map _
    rw [gen_xyz_eq]
    have := linXYZ_one_step (toPt (ptsOfR net b.idx.ind (.xyz p) .pt)) o.v1 o.v2 o.v3 net.tol (fun i => x i / 1000)
      (by rw [ep]; exact h1) (by rw [ep]; exact h2) (by rw [ep]; exact h3)
    rw [scale_back] at this
    exact this
  | height p =>
    have eU := (disp_ptsOf net b (fun i => x i / 1000) (by simp [hx0]) (.height p) .pt p rfl).2.2
    rw [dispU_div] at eU
    show (evalLin _ (@Gen.G3Lin.height ℝ realTrig _ o net.tol)).rhs =
      (evalLin _ (@Gen.G3Lin.height ℝ realTrig _ o net.tol)).rows.map _
    rw [gen_height_eq]
    refine linHeight_one_step _ _ _ ?_
    rw [eU, ← neuCorr_eq _ _ _ hx0]; exact h
  | hdiff f t =>
    have eT := (disp_ptsOf net b (fun i => x i / 1000) (by simp [hx0]) (.hdiff f t) .to t rfl).2.2
    have eF := (disp_ptsOf net b (fun i => x i / 1000) (by simp [hx0]) (.hdiff f t) .frm f rfl).2.2
    rw [dispU_div] at eT eF
    show (evalLin _ (@Gen.G3Lin.hdiff ℝ realTrig _ o net.tol)).rhs =
      (evalLin _ (@Gen.G3Lin.hdiff ℝ realTrig _ o net.tol)).rows.map _
    rw [gen_hdiff_eq]
    refine linHeightDiff_one_step _ _ _ _ ?_
    rw [eT, eF, ← neuCorr_eq _ _ _ hx0, ← neuCorr_eq _ _ _ hx0]; exact h
  | angle _ _ _ => exact h.elim
  | azimuth _ _ => exact h.elim
  | distance _ _ => exact h.elim
  | zenith _ _ => exact h.elim

theorem mem_zip_map {α β : Type} (f : α → β) (l : List α) (p : α × β) (h : p ∈ l.zip (l.map f)) : p.2 = f p.1 := by
  induction l with
  | nil => simp at h
  | cons a l ih =>
    simp only [List.map_cons, List.zip_cons_cons, List.mem_cons] at h
    rcases h with h | h
    · subst h; rfl
    · exact ih h

/-- **`hlin` derived**: a network all of whose active observations were generated from the coordinates displaced by
    the unknowns `x` (linear types) has every project equation satisfied exactly by `x` -/
theorem netEqs_linear (net : Net ι ℝ) (nobs : List (NObs ι ℝ)) (x : Nat → ℝ) (hx0 : x 0 = 0)
    (hgen : ∀ no ∈ activeOf net nobs, GeneratedObs net (bookOf net nobs) x no.obs no.o) :
    ∀ p ∈ netEqsR net nobs, p.2 = @rowDot ℝ realScalar p.1 x := by
  intro p hm
  simp only [netEqsR, netEqs, linearizeNet, List.mem_flatMap, List.mem_map] at hm
  obtain ⟨e, ⟨no, hno, rfl⟩, hz⟩ := hm
  simp only at hz
  rw [linObs_linear net (bookOf net nobs) x hx0 no (hgen no hno)] at hz
  exact mem_zip_map _ _ p hz

theorem vecAt_zero {n : Nat} (x : Fin n → ℝ) : vecAt x 0 = 0 := by simp [vecAt]

/-! ### from the kernel of the design matrix to the rows of the observations -/

/-- `A g = 0` for the assembled matrix means every sparse row vanishes on `g` -/
theorem design_ker_rows {n : Nat} (eqs : List (Row ℝ × ℝ)) (g : Fin n → ℝ) (h : designOf n eqs *ᵥ g = 0) :
    ∀ p ∈ eqs, @rowDot ℝ realScalar p.1 (vecAt g) = 0 := by
  intro p hp
  obtain ⟨i, rfl⟩ := List.get_of_mem hp
  have := congrFun h i
  rw [designOf, matOfRows_mulVec] at this
  exact this

/-- every row of an active observation is a row of the project equations -/
theorem netEqs_rows_mem (net : Net ι ℝ) (nobs : List (NObs ι ℝ)) (no : NObs ι ℝ) (hno : no ∈ activeOf net nobs)
    (r : Row ℝ) (hr : r ∈ (@linObs ι ℝ realTrig net (bookOf net nobs).idx.ind no).rows) :
    ∃ c, (r, c) ∈ netEqsR net nobs := by
  have hl := @genOf_lengths ι _ ℝ realTrig no.obs (ptsOfR net (bookOf net nobs).idx.ind no.obs) no.o net.tol
  have hlen : (@linObs ι ℝ realTrig net (bookOf net nobs).idx.ind no).rows.length =
      (@linObs ι ℝ realTrig net (bookOf net nobs).idx.ind no).rhs.length := by
    simp only [linObs, evalLin, List.length_map]
    rw [hl.1, hl.2]
  obtain ⟨i, hi, rfl⟩ := List.getElem_of_mem hr
  refine ⟨(@linObs ι ℝ realTrig net (bookOf net nobs).idx.ind no).rhs[i]'(hlen ▸ hi), ?_⟩
  simp only [netEqsR, netEqs, linearizeNet, List.mem_flatMap, List.mem_map]
  refine ⟨_, ⟨no, hno, rfl⟩, ?_⟩
  simp only
  have hz : i < ((@linObs ι ℝ realTrig net (bookOf net nobs).idx.ind no).rows.zip
      (@linObs ι ℝ realTrig net (bookOf net nobs).idx.ind no).rhs).length := by
    rw [List.length_zip, ← hlen, Nat.min_self]; exact hi
  have := List.getElem_mem hz
  rwa [List.getElem_zip] at this

/-! ### the regularisation list `minx` -/

theorem isFree_of_isConstr {s : PState} (h : s.isConstr = true) : s.isFree = true := by
  cases s <;> simp_all [PState.isConstr, PState.isFree]

/-- **`minx_spec`**: the list `Model::update_linearization` hands to `Adj::min_x` holds exactly the column indices of
    the *constrained* parameters that occur in an active observation (a constrained parameter is `free()`, so it has a
    column as soon as it is on `par_list`) -/
theorem mem_minx_iff {P : Points ι} {b : Book ι} (inv : G3Book.Inv (isFreePar P) b.idx) (k : Nat) :
    k ∈ minx P b ↔ k ≠ 0 ∧ ∃ q, (parState P q).isConstr = true ∧ b.idx.index (isFreePar P) q = k := by
  unfold minx
  simp only [List.mem_map, List.mem_filter]
  constructor
  · rintro ⟨e, ⟨he, hc⟩, rfl⟩
    have hf : isFreePar P e.1 = true := isFree_of_isConstr hc
    have hne : b.idx.index (isFreePar P) e.1 ≠ 0 :=
      (index_ne_zero_iff inv e.1).mpr ⟨hf, List.mem_map.mpr ⟨e, he, rfl⟩⟩
    exact ⟨hne, e.1, hc, rfl⟩
  · rintro ⟨hk, q, hc, rfl⟩
    obtain ⟨_, hq⟩ := (index_ne_zero_iff inv q).mp hk
    obtain ⟨e, he, rfl⟩ := List.mem_map.mp hq
    exact ⟨e, ⟨he, hc⟩, rfl⟩

/-- no column index occurs twice on the list, and all of them are columns `1 … dm_cols` -/
theorem minx_nodup_range {P : Points ι} {b : Book ι} (inv : G3Book.Inv (isFreePar P) b.idx) :
    (minx P b).Nodup ∧ ∀ k ∈ minx P b, 1 ≤ k ∧ k ≤ b.idx.cols := by
  constructor
  · unfold minx
    have hpar : b.idx.par.Nodup := List.Nodup.of_map _ inv.nodup
    refine List.Nodup.map_on ?_ (hpar.filter _)
    intro e he e' he' heq
    obtain ⟨he1, hc⟩ := List.mem_filter.mp he
    obtain ⟨he1', _⟩ := List.mem_filter.mp he'
    have hc' : (parState P e.1).isConstr = true := by simpa using hc
    have hne : b.idx.index (isFreePar P) e.1 ≠ 0 :=
      (index_ne_zero_iff inv e.1).mpr ⟨isFree_of_isConstr hc', List.mem_map.mpr ⟨e, he1, rfl⟩⟩
    have h1 : e.1 = e'.1 := index_injective inv hne heq
    exact List.inj_on_of_nodup_map inv.nodup he1 he1' h1
  · intro k hk
    obtain ⟨hne, q, _, rfl⟩ := (mem_minx_iff inv k).mp hk
    exact index_range inv hne

theorem renum_ne_zero {n : Nat} (e : Fin n ≃ Fin n) {i : Nat} (h : 1 ≤ i ∧ i ≤ n) : renum e i ≠ 0 := by
  unfold renum; rw [dif_pos h]; omega

theorem renum_eq_zero_of {n : Nat} (e : Fin n ≃ Fin n) {i : Nat} (h : ¬ (1 ≤ i ∧ i ≤ n)) : renum e i = 0 := by
  unfold renum; rw [dif_neg h]

/-- under another order of the records the list holds the renumbered indices -/
theorem mem_minx_renum {P : Points ι} {b₁ b₂ : Book ι} (inv₁ : G3Book.Inv (isFreePar P) b₁.idx)
    (inv₂ : G3Book.Inv (isFreePar P) b₂.idx) (e : Fin b₁.idx.cols ≃ Fin b₁.idx.cols)
    (he : ∀ q, b₂.idx.index (isFreePar P) q = renum e (b₁.idx.index (isFreePar P) q)) (k : Nat) :
    k ∈ minx P b₂ ↔ ∃ j ∈ minx P b₁, k = renum e j := by
  rw [mem_minx_iff inv₂]
  constructor
  · rintro ⟨hk, q, hc, rfl⟩
    rw [he q] at hk ⊢
    have hj : b₁.idx.index (isFreePar P) q ≠ 0 := by
      intro h0; rw [h0, renum_zero] at hk; exact hk rfl
    exact ⟨_, (mem_minx_iff inv₁ _).mpr ⟨hj, q, hc, rfl⟩, rfl⟩
  · rintro ⟨j, hj, rfl⟩
    obtain ⟨hne, q, hc, rfl⟩ := (mem_minx_iff inv₁ j).mp hj
    exact ⟨renum_ne_zero e (index_range inv₁ hne), q, hc, he q⟩

theorem renum_injOn {n : Nat} (e : Fin n ≃ Fin n) {i j : Nat} (hi : 1 ≤ i ∧ i ≤ n) (hj : 1 ≤ j ∧ j ≤ n)
    (h : renum e i = renum e j) : i = j := by
  unfold renum at h
  rw [dif_pos hi, dif_pos hj] at h
  have h1 : e ⟨i - 1, by omega⟩ = e ⟨j - 1, by omega⟩ := Fin.ext (by omega)
  have h2 := congrArg Fin.val (e.injective h1)
  simp only at h2
  omega

/-- … as lists: a permutation of the renumbered list (the order on the list is the order of `par_list`) -/
theorem minx_perm_renum {P : Points ι} {b₁ b₂ : Book ι} (inv₁ : G3Book.Inv (isFreePar P) b₁.idx)
    (inv₂ : G3Book.Inv (isFreePar P) b₂.idx) (e : Fin b₁.idx.cols ≃ Fin b₁.idx.cols)
    (he : ∀ q, b₂.idx.index (isFreePar P) q = renum e (b₁.idx.index (isFreePar P) q)) :
    (minx P b₂).Perm ((minx P b₁).map (renum e)) := by
  obtain ⟨nd₁, rg₁⟩ := minx_nodup_range inv₁
  obtain ⟨nd₂, _⟩ := minx_nodup_range inv₂
  have ndm : ((minx P b₁).map (renum e)).Nodup :=
    List.Nodup.map_on (fun i hi j hj h => renum_injOn e (rg₁ i hi) (rg₁ j hj) h) nd₁
  rw [List.perm_ext_iff_of_nodup nd₂ ndm]
  intro k
  rw [mem_minx_renum inv₁ inv₂ e he, List.mem_map]
  constructor
  · rintro ⟨j, hj, rfl⟩; exact ⟨j, hj, rfl⟩
  · rintro ⟨j, hj, rfl⟩; exact ⟨j, hj, rfl⟩

/-- **the regularisation set class `Adj` works with** for the input gama-g3 builds, as a set of columns of the
    `n`-column design matrix: `Model::update_linearization` calls `set_minx` only `if (minx)` (at least one constrained
    parameter on `par_list`), and `Adj::init` calls `min_x(dim, list)` only when the input has a list; without a list
    the solver keeps its default `min_x()` — all unknowns (C08).  So: all columns if there is no constrained
    parameter, else exactly the columns on the list. -/
def regSet (n : Nat) (P : Points ι) (b : Book ι) : Finset (Fin n) :=
  if minx P b = [] then Finset.univ else Finset.univ.filter fun k => k.val + 1 ∈ minx P b

/-- **the regularisation set is transported by the same renumbering `e`** that relates the two numberings of the
    columns: the set of the second order of the records is the image under `e` of the set of the first -/
theorem regSet_renum {P : Points ι} {b₁ b₂ : Book ι} (inv₁ : G3Book.Inv (isFreePar P) b₁.idx)
    (inv₂ : G3Book.Inv (isFreePar P) b₂.idx) (e : Fin b₁.idx.cols ≃ Fin b₁.idx.cols)
    (he : ∀ q, b₂.idx.index (isFreePar P) q = renum e (b₁.idx.index (isFreePar P) q)) :
    regSet b₁.idx.cols P b₂ = (regSet b₁.idx.cols P b₁).map e.toEmbedding := by
  have hmem := mem_minx_renum inv₁ inv₂ e he
  have hnil : minx P b₂ = [] ↔ minx P b₁ = [] := by
    constructor
    · intro h2
      rw [List.eq_nil_iff_forall_not_mem]
      intro j hj
      have : renum e j ∈ minx P b₂ := (hmem _).mpr ⟨j, hj, rfl⟩
      rw [h2] at this; simp at this
    · intro h1
      rw [List.eq_nil_iff_forall_not_mem]
      intro k hk
      obtain ⟨j, hj, _⟩ := (hmem k).mp hk
      rw [h1] at hj; simp at hj
  unfold regSet
  by_cases h1 : minx P b₁ = []
  · rw [if_pos h1, if_pos (hnil.mpr h1)]
    ext k; simp
  · rw [if_neg h1, if_neg (fun h => h1 (hnil.mp h))]
    ext k
    rw [Finset.mem_map_equiv]
    simp only [Finset.mem_filter, Finset.mem_univ, true_and]
    rw [hmem]
    constructor
    · rintro ⟨j, hj, hk⟩
      have := (renum_eq_iff e j k).mp hk.symm
      rwa [this] at hj
    · intro hj
      exact ⟨_, hj, ((renum_eq_iff e _ k).mpr rfl).symm⟩

end G3Net
end Gama
