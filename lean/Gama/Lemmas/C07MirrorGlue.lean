/-
  C07 — `DegenInv` proved (round 13): the numeric half of `singular_coords` gives the same verdict on the homogenised
  matrix of the mirrored inner call.

    * `degenTest_rows`   (façade cone, every ordered field): `C07_degen_test_mirror` with its two entrywise hypotheses
                         produced from the sparse rows (`denseA_eq'`, `A_entry_rowSum`) and from the clusters
                         (`cofactor_matrix`, `sigmaF_conj`)
    * `degen_glue`       at `PE.Net ℝ`, for an arbitrary `S : Scalar ℝ` with `S = LS.fieldScalar Real.sqrt` (the carrier
                         bridge): one inner call on `net` and on `mirNet net`
    * `degenInv`         `DegenInv`
-/
import Gama.Lemmas.C07MirrorLink
import Gama.Lemmas.C07MirrorDegen
import Gama.Lemmas.Ls.RowSumEntry
namespace Gama.C07Glue
open Gama Gama.Ls Gama.Ls.Net Gama.Ls.AdjM Gama.Ls.Dn Gama.LS Gama.SingularCoords Matrix

section facade
variable {K : Type} [Field K] [LinearOrder K] [IsStrictOrderedRing K] [SqrtFn K]
attribute [local instance 2000] scalarOfField

theorem degenTest_rows (hsq : IsSqrt (SqrtFn.sq : K → K)) (np : NetProblem K)
    (r2 : Array (Array (Nat × K))) (b2 : Array K) (L : List (List Bool × Cluster K))
    (hcl : np.clusters = L.map (·.2))
    (hwfL : ∀ p ∈ L, p.2.cov.WF ∧ p.2.cov.dim ≤ p.1.length ∧ p.2.active.length ≤ p.2.cov.dim)
    (hdim : (dimsN np).sum = np.m) (hrows : RowsOK (toProblem np))
    (hrows2 : RowsOK (toProblem { np with rows := r2, rhs := b2, clusters := L.map C07Sig.conj }))
    (h h2 : Hom K) (hp : prepare np = .ok h)
    (hp2 : prepare { np with rows := r2, rhs := b2, clusters := L.map C07Sig.conj } = .ok h2)
    (s t : Nat → K) (hs : ∀ i, s i = 1 ∨ s i = -1) (ht : ∀ j, t j = 1 ∨ t j = -1)
    (hlink : ∀ i, i < np.m → C07Sig.rowSig L (dimsN np) i = s i)
    (hrow : ∀ i j, i < np.m → j < np.n →
      Lin.rowSum (r2.getD i #[]).toList (j + 1) = s i * Lin.rowSum (np.rows.getD i #[]).toList (j + 1) * t j)
    (ix iy : Nat) : degenTest h2.Ad ix iy = degenTest h.Ad ix iy := by
  set np2 : NetProblem K := { np with rows := r2, rhs := b2, clusters := L.map C07Sig.conj } with hnp2
  have hd2 : dimsN np2 = dimsN np := C07Sig.dimsN_conj np np2 L hcl rfl
  have hdim2 : (dimsN np2).sum = np.m := by rw [hd2]; exact hdim
  refine C07Degen.degenTest_prepare hsq np r2 b2 (L.map C07Sig.conj) hdim hdim2 h h2 hp hp2
    (fun i => s i.val) t (fun i => hs i.val) ht ?_ ?_ ix iy
  · intro i j
    have e1 : Dn.mget (denseA np2) i.val j.val = (toProblem np2).A i j := congrFun (congrFun (denseA_eq' np2) i) j
    have e2 : Dn.mget (denseA np) i.val j.val = (toProblem np).A i j := congrFun (congrFun (denseA_eq' np) i) j
    rw [e1, e2, A_entry_rowSum (toProblem np2) hrows2 i j, A_entry_rowSum (toProblem np) hrows i j]
    exact hrow i.val j.val i.isLt j.isLt
  · intro i j
    have c2 : (toProblem np2).C i j = 1 / (np.m0 * np.m0) * Sigma np2 i j := by
      rw [cofactor_matrix np2 hdim2]; rfl
    have c1 : (toProblem np).C i j = 1 / (np.m0 * np.m0) * Sigma np i j := by
      rw [cofactor_matrix np hdim]; rfl
    have e : Sigma np2 i j = C07Sig.rowSig L (dimsN np) i.val * Sigma np i j * C07Sig.rowSig L (dimsN np) j.val :=
      C07Sig.sigmaF_conj np np2 L hcl rfl hwfL i.val j.val (by rw [hdim]; exact i.isLt)
    rw [c2, c1, e, hlink i.val i.isLt, hlink j.val j.isLt]
    ring

end facade

section real
open Gama.Lin Gama.PE Gama.C07Mir Gama.C07Link
attribute [local instance 2000] scalarOfField

noncomputable local instance instSqrtR : SqrtFn ℝ := ⟨Real.sqrt⟩

theorem isSqrt_real : IsSqrt (SqrtFn.sq : ℝ → ℝ) :=
  ⟨fun x hx => Real.mul_self_sqrt hx, fun x _ => Real.sqrt_nonneg x⟩

theorem np_eq_of (p q : NetProblem ℝ) (h1 : q.m = p.m) (h2 : q.n = p.n) (h3 : q.m0 = p.m0) (h4 : q.minx = p.minx) :
    q = { p with rows := q.rows, rhs := q.rhs, clusters := q.clusters } := by
  cases p; cases q
  simp only at h1 h2 h3 h4
  subst h1 h2 h3 h4
  rfl

theorem rowsOK_of (rows : List (List (Nat × ℝ))) (m n : Nat) (hlen : rows.length = m)
    (hrange : ∀ row ∈ rows, ∀ e ∈ row, 1 ≤ e.1 ∧ e.1 ≤ n) :
    ∀ i, i < m → ∀ cv ∈ (((rows.map List.toArray).toArray).getD i #[]).toList, 1 ≤ cv.1 ∧ cv.1 ≤ n := by
  intro i hi cv hcv
  rw [PE.rows_getD] at hcv
  have hil : i < rows.length := by rw [hlen]; exact hi
  have hmem : rows.getD i [] ∈ rows := by
    rw [List.getD_eq_getElem?_getD, List.getElem?_eq_getElem hil]; exact List.getElem_mem hil
  exact hrange _ hmem cv hcv

theorem kSgn_pm (k : Kind) : kSgn k = 1 ∨ kSgn k = -1 := by
  rw [kSgn_eq]; cases kNeg k
  · exact Or.inl rfl
  · exact Or.inr rfl

theorem colSgn_pm (s : IdxState) (j : Nat) : colSgn s j = 1 ∨ colSgn s j = -1 := by
  unfold colSgn
  split
  · rename_i h
    cases (Classical.choose h).c
    · exact Or.inl rfl
    · exact Or.inr rfl
    · exact Or.inl rfl
    · exact Or.inr rfl
  · exact Or.inl rfl

/-- **one inner call**, for any name `S` of the field scalar structure of ℝ -/
theorem degen_glue (S : Scalar ℝ) (hS : S = LS.fieldScalar Real.sqrt) (net : PE.Net ℝ) (a a' : Asm ℝ) (h h' : Hom ℝ)
    (hreg : RegAll net) (hwf : WfAll net) (hA : assemble net = .ok a) (hA' : assemble (mirNet net) = .ok a')
    (hP : @prepare ℝ S a.np = .ok h) (hP' : @prepare ℝ S a'.np = .ok h') (ix iy : Nat) :
    @degenTest ℝ S h'.Ad ix iy = @degenTest ℝ S h.Ad ix iy := by
  subst hS
  obtain ⟨r, _, ei, hcl, hm, hn, hm0, hmx⟩ := assemble_inv net a hA
  obtain ⟨r', _, ei', hcl', hm', hn', hm0', hmx'⟩ := assemble_inv (mirNet net) a' hA'
  have hidx := assemble_mir_idx net a a' hA hA' (regAll_revised _ hreg)
  obtain ⟨b, Fb⟩ := assemble_fresh net a hA
  obtain ⟨b', Fb'⟩ := assemble_fresh (mirNet net) a' hA'
  have hpb' : passFrom (mirLin (sigmaOf net)) net.fuel ((revisedObs net).map mirNObs) IdxState.init = .ok b' := by
    have := Fb'.pass
    rw [sigmaOf_mir, revisedObs_mir] at this
    exact this
  obtain ⟨hbi, hent⟩ := mirror_matrix (sigmaOf net) net.fuel net.fuel (revisedObs net) IdxState.init b b'
    IdxState.wf_init Fb.pass hpb' (regAll_revised _ hreg)
  have hlen' : (revisedObs (mirNet net)).length = (revisedObs net).length := by rw [revisedObs_mir, List.length_map]
  have e : a'.np = { a.np with rows := a'.np.rows, rhs := a'.np.rhs, clusters := a'.np.clusters } :=
    np_eq_of a.np a'.np (by rw [hm', hm, hlen']) (by rw [hn', hn, ← ei', ← ei, hidx])
      (by rw [hm0', hm0]; rfl) (by rw [hmx', hmx])
  have ecl : a'.np.clusters = (signedClusters net).map C07Sig.conj := by rw [hcl', clusters_conj]
  rw [e, ecl] at hP'
  have hwfL : ∀ p ∈ signedClusters net, p.2.cov.WF ∧ p.2.cov.dim ≤ p.1.length ∧ p.2.active.length ≤ p.2.cov.dim := by
    intro p hp
    unfold signedClusters at hp
    obtain ⟨c, hcm, rfl⟩ := List.mem_map.1 hp
    obtain ⟨w, d⟩ := hwf c hcm
    refine ⟨w, ?_, ?_⟩
    · show c.cov.dim ≤ (msOf c).length
      unfold msOf; rw [List.length_map, d]
    · show (c.obs.map (·.active)).length ≤ c.cov.dim
      rw [List.length_map, d]
  have hdN := dimsN_of_clusters net a.np hcl
  have hdim : (dimsN a.np).sum = a.np.m := by rw [hdN, dims_sum, hm]
  have hnb : a.np.n = b.idx.maxn := Fb.n
  have hrows : RowsOK (toProblem a.np) := by
    intro i hi cv hcv
    have hcv' : cv ∈ (a.np.rows.getD i #[]).toList := hcv
    rw [Fb.rows] at hcv'
    have := rowsOK_of b.rows a.np.m b.idx.maxn (by rw [Fb.ok.nrows, hm]) Fb.ok.range i hi cv hcv'
    exact ⟨this.1, by show cv.1 ≤ a.np.n; rw [hnb]; exact this.2⟩
  have hrows2 : RowsOK (toProblem { a.np with rows := a'.np.rows, rhs := a'.np.rhs, clusters := (signedClusters net).map C07Sig.conj }) := by
    intro i hi cv hcv
    have hcv' : cv ∈ (a'.np.rows.getD i #[]).toList := hcv
    rw [Fb'.rows] at hcv'
    have := rowsOK_of b'.rows a.np.m b'.idx.maxn (by rw [Fb'.ok.nrows, hlen', hm]) Fb'.ok.range i hi cv hcv'
    exact ⟨this.1, by show cv.1 ≤ a.np.n; rw [hnb, ← hbi]; exact this.2⟩
  refine degenTest_rows isSqrt_real a.np a'.np.rows a'.np.rhs (signedClusters net) (by rw [hcl, clusters_signed]) hwfL
    hdim hrows hrows2 h h' hP hP'
    (fun i => kSgn (((revisedObs net).map (·.kind)).getD i .distance)) (fun j => colSgn b.idx j)
    (fun i => kSgn_pm _) (fun j => colSgn_pm _ _) ?_ ?_ ix iy
  · intro i hi
    exact rowSig_eq_kSgn net (dimsN a.np) hdN i (by rw [← hm]; exact hi)
  · intro i j hi hj
    have hi' : i < (revisedObs net).length := by rw [← hm]; exact hi
    have hj' : j < b.idx.maxn := by rw [← hnb]; exact hj
    have hk : ((revisedObs net).map (·.kind)).getD i Kind.distance = ((revisedObs net)[i]'hi').kind := by
      rw [List.getD_eq_getElem?_getD, List.getElem?_map, List.getElem?_eq_getElem hi']; rfl
    have he := hent ⟨i, hi'⟩ j hj'
    rw [Fb'.rows, Fb.rows, PE.rows_getD, PE.rows_getD]
    show @Lin.rowSum ℝ (LS.fieldScalar Real.sqrt) (b'.rows.getD i []) (j + 1) =
      _ * @Lin.rowSum ℝ (LS.fieldScalar Real.sqrt) (b.rows.getD i []) (j + 1) * _
    rw [← rowSum_real, ← rowSum_real]
    simp only [hk]
    have he2 : @Lin.rowSum ℝ instScalarReal (b'.rows.getD i []) (j + 1) =
        kSgn ((revisedObs net)[i]'hi').kind * colSgn b.idx j * @Lin.rowSum ℝ instScalarReal (b.rows.getD i []) (j + 1) := he
    rw [he2]
    ring

/-- **`DegenInv`** -/
theorem degenInv : DegenInv := by
  intro net a a' h h' hreg hwf hA hA' hP hP' p
  exact degen_glue _ scalarReal_eq_fieldScalar net a a' h h' hreg hwf hA hA' hP hP' _ _

end real

end Gama.C07Glue
