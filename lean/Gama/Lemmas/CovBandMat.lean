/-
  `BandMat` ("diagonal storage scheme", lib/matvec/bandmat.h; Model/Packed.lean `bandSize`, `bandIdx`):
  the index map is injective on the band and stays inside the buffer of `d*(b+1)` elements.
  It is NOT onto: row `i` owns the cells `(i-1)(b+1) + t`, `t ≤ b`, and those with `i + t > d`
  (the padding of the last `b` rows) are never addressed.
-/
import Gama.Lemmas.CovPacked
import Mathlib.Tactic.Ring
import Mathlib.Tactic.Linarith
namespace Gama.Cov.Packed

/-- offset of an in-band upper pair in the diagonal storage scheme -/
def boff (b i j : Nat) : Int := ((i : Int) - 1) * ((b : Int) + 1) + ((j : Int) - (i : Int))

theorem bandIdx_upper {d b i j : Nat} (h : InBand d b i j) : bandIdx b i j = some (boff b i j) := by
  obtain ⟨h1, h2, h3, h4⟩ := h
  unfold bandIdx boff
  have : ¬ (i > j) := by omega
  simp only [this, if_false]
  have : ¬ (j > i + b) := by omega
  simp [this]

theorem bandIdx_symm (b i j : Nat) : bandIdx b i j = bandIdx b j i := by
  unfold bandIdx
  by_cases h : i > j
  · have : ¬ (j > i) := by omega
    simp [h, this]
  · by_cases h' : j > i
    · simp [h, h']
    · have : i = j := by omega
      subst this; rfl

theorem bandIdx_none {b i j : Nat} (h1 : i ≤ j) (h : j > i + b) : bandIdx b i j = none := by
  unfold bandIdx
  have : ¬ (i > j) := by omega
  simp [this, h]

/-- row `i` owns the cells `[(i-1)(b+1), i(b+1))` -/
theorem boff_range {d b i j : Nat} (h : InBand d b i j) :
    ((i : Int) - 1) * ((b : Int) + 1) ≤ boff b i j ∧ boff b i j < (i : Int) * ((b : Int) + 1) := by
  obtain ⟨h1, h2, h3, h4⟩ := h
  unfold boff
  constructor
  · omega
  · have : (i : Int) * ((b : Int) + 1) = ((i : Int) - 1) * ((b : Int) + 1) + ((b : Int) + 1) := by ring
    rw [this]; omega

theorem rowStart_mono (b : Nat) {i i' : Nat} (h : i ≤ i') :
    (i : Int) * ((b : Int) + 1) ≤ (i' : Int) * ((b : Int) + 1) := by
  apply Int.mul_le_mul_of_nonneg_right
  · exact_mod_cast h
  · omega

/-- no access outside the buffer -/
theorem boff_bounds {d b i j : Nat} (h : InBand d b i j) : 0 ≤ boff b i j ∧ boff b i j < bandSize d b := by
  have hr := boff_range h
  obtain ⟨h1, h2, h3, h4⟩ := h
  have h0 : (0 : Int) ≤ ((i : Int) - 1) * ((b : Int) + 1) := by
    apply Int.mul_nonneg <;> omega
  have hl := rowStart_mono b (i := i) (i' := d) (by omega)
  unfold bandSize
  omega

/-- no aliasing (base-`(b+1)` digits) -/
theorem boff_inj {d b i j i' j' : Nat} (h : InBand d b i j) (h' : InBand d b i' j')
    (e : boff b i j = boff b i' j') : i = i' ∧ j = j' := by
  have r1 := boff_range h
  have r2 := boff_range h'
  have hi : i = i' := by
    rcases Nat.lt_trichotomy i i' with hlt | heq | hgt
    · have := rowStart_mono b (i := i) (i' := i' - 1) (by omega)
      have e' : ((i' - 1 : Nat) : Int) = (i' : Int) - 1 := by omega
      rw [e'] at this
      omega
    · exact heq
    · have := rowStart_mono b (i := i') (i' := i - 1) (by omega)
      have e' : ((i - 1 : Nat) : Int) = (i : Int) - 1 := by omega
      rw [e'] at this
      omega
  subst hi
  refine ⟨rfl, ?_⟩
  unfold boff at e
  omega

theorem bandIdx_bijection_onto_image (d b : Nat) :
    (∀ i j, InBand d b i j → ∃ k, bandIdx b i j = some k ∧ 0 ≤ k ∧ k < bandSize d b) ∧
    (∀ i j i' j' k, InBand d b i j → InBand d b i' j' → bandIdx b i j = some k → bandIdx b i' j' = some k →
        i = i' ∧ j = j') ∧
    (∀ i j, bandIdx b i j = bandIdx b j i) ∧ (∀ i j, i ≤ j → j > i + b → bandIdx b i j = none) := by
  refine ⟨?_, ?_, bandIdx_symm b, fun i j => bandIdx_none⟩
  · intro i j h
    exact ⟨boff b i j, bandIdx_upper h, (boff_bounds h).1, (boff_bounds h).2⟩
  · intro i j i' j' k h h' e e'
    rw [bandIdx_upper h] at e
    rw [bandIdx_upper h'] at e'
    exact boff_inj h h' ((Option.some.inj e).trans (Option.some.inj e').symm)

/-- every cell of the buffer is `(i-1)(b+1) + t` for a unique row `1 ≤ i ≤ d` and `t ≤ b` -/
theorem cell_decomp {d b : Nat} (k : Int) (h0 : 0 ≤ k) (hk : k < bandSize d b) :
    ∃ i t : Nat, 1 ≤ i ∧ i ≤ d ∧ t ≤ b ∧ k = ((i : Int) - 1) * ((b : Int) + 1) + (t : Int) := by
  have hb : (0 : Int) < (b : Int) + 1 := by omega
  refine ⟨(k / ((b : Int) + 1)).toNat + 1, (k % ((b : Int) + 1)).toNat, by omega, ?_, ?_, ?_⟩
  · have hq : k / ((b : Int) + 1) < (d : Int) := by
      apply Int.ediv_lt_of_lt_mul hb
      unfold bandSize at hk; exact hk
    have : 0 ≤ k / ((b : Int) + 1) := Int.ediv_nonneg h0 (by omega)
    omega
  · have := Int.emod_lt_of_pos k hb
    have := Int.emod_nonneg k (by omega : (b : Int) + 1 ≠ 0)
    omega
  · have hq : 0 ≤ k / ((b : Int) + 1) := Int.ediv_nonneg h0 (by omega)
    have hm := Int.emod_nonneg k (by omega : (b : Int) + 1 ≠ 0)
    have e1 : (((k / ((b : Int) + 1)).toNat + 1 : Nat) : Int) - 1 = k / ((b : Int) + 1) := by omega
    have e2 : ((k % ((b : Int) + 1)).toNat : Int) = k % ((b : Int) + 1) := by omega
    rw [e1, e2]
    have := Int.ediv_mul_add_emod k ((b : Int) + 1)
    linarith

/-- the used cells are exactly those with `i + t ≤ d`; the cells `(i-1)(b+1) + t` with `i + t > d`
    (padding of the last rows) are not the image of any in-band pair -/
theorem cell_used_iff {d b i t : Nat} (hi : 1 ≤ i) (_hid : i ≤ d) (ht : t ≤ b) :
    (∃ i' j', InBand d b i' j' ∧ bandIdx b i' j' = some (((i : Int) - 1) * ((b : Int) + 1) + (t : Int))) ↔
      i + t ≤ d := by
  constructor
  · rintro ⟨i', j', h, e⟩
    rw [bandIdx_upper h] at e
    have e' := Option.some.inj e
    by_contra hcon
    -- the cell of row i, digit t would be addressed as (i, i+t), which is in the band of a larger matrix
    have hbig : InBand (i + t) b i (i + t) := ⟨hi, by omega, le_refl _, by omega⟩
    have h'' : InBand (max d (i + t)) b i' j' := by
      obtain ⟨a1, a2, a3, a4⟩ := h
      exact ⟨a1, a2, by omega, a4⟩
    have hbig' : InBand (max d (i + t)) b i (i + t) := ⟨hi, by omega, by omega, by omega⟩
    have eq : boff b i' j' = boff b i (i + t) := by
      rw [e']; unfold boff; push_cast; ring
    obtain ⟨q1, q2⟩ := boff_inj h'' hbig' eq
    have := h.2.2.1
    omega
  · intro h
    refine ⟨i, i + t, ⟨hi, by omega, h, by omega⟩, ?_⟩
    rw [bandIdx_upper (d := d) ⟨hi, by omega, h, by omega⟩]
    unfold boff; push_cast; congr 1; ring

/-- number of unused cells: `b(b+1)/2` when `b ≤ d` is the difference to the packed `CovMat` size -/
theorem bandSize_sub_size (d b : Nat) : bandSize d b - size d b = (b : Int) * ((b : Int) + 1) / 2 := by
  unfold bandSize size; omega

end Gama.Cov.Packed
