/-
  `CovMat` read / write lemmas on well-formed objects (consequences of the packed bijection)
  and two generic `foldl` lemmas used for the loop nests of activeCov / scaleCov / cholDec.
-/
import Gama.Lemmas.CovPacked
namespace Gama.Cov
open Packed

/-- class invariant of a `CovMat(d,b)`: `b ≤ d` and the buffer has `d(b+1) - b(b+1)/2` elements -/
structure CovMat.WF {K : Type} (m : CovMat K) : Prop where
  band_le : m.band ≤ m.dim
  size_eq : (m.buf.size : Int) = Packed.size m.dim m.band

namespace CovMat
variable {K : Type}

theorem inBuf_off {m : CovMat K} (h : m.WF) {i j : Nat} (hb : InBand m.dim m.band i j) :
    m.inBuf (off m.dim m.band i j) = true := by
  have := off_bounds h.band_le hb
  unfold inBuf
  rw [h.size_eq]
  simp [this.1, this.2]

theorem rawSet_dim (m : CovMat K) (k : Int) (v : K) : (m.rawSet k v).dim = m.dim := by
  unfold rawSet; split <;> rfl
theorem rawSet_band (m : CovMat K) (k : Int) (v : K) : (m.rawSet k v).band = m.band := by
  unfold rawSet; split <;> rfl
theorem rawSet_size (m : CovMat K) (k : Int) (v : K) : (m.rawSet k v).buf.size = m.buf.size := by
  unfold rawSet; split <;> simp

theorem rawSet_WF {m : CovMat K} (h : m.WF) (k : Int) (v : K) : (m.rawSet k v).WF :=
  ⟨by rw [rawSet_dim, rawSet_band]; exact h.band_le,
   by rw [rawSet_dim, rawSet_band, rawSet_size]; exact h.size_eq⟩

/-- raw read after raw write -/
theorem raw_rawSet (z : K) (m : CovMat K) (k k' : Int) (v : K) (hk : m.inBuf k = true) :
    (m.rawSet k v).raw z k' = if k' = k then v else m.raw z k' := by
  have hk' := hk
  unfold inBuf at hk'
  simp only [Bool.and_eq_true, decide_eq_true_eq] at hk'
  unfold raw rawSet
  rw [if_pos hk]
  unfold inBuf
  simp only [Array.size_setIfInBounds]
  by_cases e : k' = k
  · subst e
    have hlt : k'.toNat < m.buf.size := by omega
    simp [hk'.1, hk'.2, Array.getD, hlt]
  · simp only [e, if_false]
    by_cases hin : (decide (0 ≤ k') && decide (k' < (m.buf.size : Int))) = true
    · simp only [hin, if_true]
      have hin' := hin
      simp only [Bool.and_eq_true, decide_eq_true_eq] at hin'
      have hne : k.toNat ≠ k'.toNat := by omega
      have hlt : k'.toNat < m.buf.size := by omega
      simp [Array.getD, hlt, Array.getElem_setIfInBounds, hne]
    · simp [hin]

variable [Zero K]

theorem get_upper {m : CovMat K} {i j : Nat} (hb : InBand m.dim m.band i j) :
    m.get i j = m.raw 0 (off m.dim m.band i j) := by
  unfold get; rw [idx_upper hb]

theorem get_symm (m : CovMat K) (i j : Nat) : m.get i j = m.get j i := by
  unfold get; rw [idx_symm]

theorem get_outside (m : CovMat K) {i j : Nat} (h1 : i ≤ j) (h : j > i + m.band) : m.get i j = 0 := by
  unfold get; rw [idx_none h1 h]

/-- `m(i,j) = v` for an in-band upper pair -/
theorem set_upper {m : CovMat K} {i j : Nat} (hb : InBand m.dim m.band i j) (v : K) :
    m.set i j v = .ok (m.rawSet (off m.dim m.band i j) v) := by
  unfold set; rw [idx_upper hb]

/-- read after write, both positions in the band (upper form) -/
theorem get_rawSet {m : CovMat K} (h : m.WF) {i j i' j' : Nat}
    (hb : InBand m.dim m.band i j) (hb' : InBand m.dim m.band i' j') (v : K) :
    (m.rawSet (off m.dim m.band i j) v).get i' j' = if i' = i ∧ j' = j then v else m.get i' j' := by
  have hb'' : InBand (m.rawSet (off m.dim m.band i j) v).dim (m.rawSet (off m.dim m.band i j) v).band i' j' := by
    rw [rawSet_dim, rawSet_band]; exact hb'
  rw [get_upper hb'', rawSet_dim, rawSet_band, raw_rawSet _ _ _ _ _ (inBuf_off h hb), get_upper hb']
  by_cases e : i' = i ∧ j' = j
  · obtain ⟨e1, e2⟩ := e; subst e1; subst e2; simp
  · have : off m.dim m.band i' j' ≠ off m.dim m.band i j := by
      intro he
      exact e (off_inj h.band_le hb' hb he)
    simp [this, e]

/-- a write inside the band does not change what is read outside the band (always 0) -/
theorem get_rawSet_outside {m : CovMat K} (k : Int) (v : K) {i' j' : Nat} (h1 : i' ≤ j') (h : j' > i' + m.band) :
    (m.rawSet k v).get i' j' = 0 := by
  apply get_outside _ h1
  rw [rawSet_band]; exact h

end CovMat

/-! ### generic fold lemmas -/

/-- plain invariant -/
theorem foldl_inv {σ α : Type} (step : σ → α → σ) (Inv : σ → Prop) (l : List α)
    (h : ∀ s a, a ∈ l → Inv s → Inv (step s a)) (s0 : σ) (h0 : Inv s0) : Inv (l.foldl step s0) := by
  induction l generalizing s0 with
  | nil => exact h0
  | cons x xs ih =>
    simp only [List.foldl_cons]
    exact ih (fun s a ha => h s a (List.mem_cons_of_mem _ ha)) _ (h s0 x (List.mem_cons_self) h0)

/-- every key of a duplicate-free list is processed exactly once: `U a` (untouched) holds until the
    step for `a`, which establishes `Q a`; steps for other keys preserve both -/
theorem foldl_nodup_cover {σ α : Type} (step : σ → α → σ) (Inv : σ → Prop) (U Q : α → σ → Prop) (M : α → Prop)
    (h1 : ∀ s a, M a → Inv s → U a s → Inv (step s a) ∧ Q a (step s a))
    (h2 : ∀ s a a', M a → M a' → a ≠ a' → Inv s → U a s →
            (U a' s → U a' (step s a)) ∧ (Q a' s → Q a' (step s a)))
    (l : List α) (hnd : l.Nodup) (hM : ∀ a ∈ l, M a) (s0 : σ) (D : α → Prop)
    (hD : ∀ a, D a → M a ∧ a ∉ l) (h0 : Inv s0) (hU : ∀ a ∈ l, U a s0) (hQ : ∀ a, D a → Q a s0) :
    Inv (l.foldl step s0) ∧ ∀ a, (D a ∨ a ∈ l) → Q a (l.foldl step s0) := by
  induction l generalizing s0 D with
  | nil =>
    refine ⟨h0, ?_⟩
    intro a ha
    rcases ha with ha | ha
    · exact hQ a ha
    · cases ha
  | cons x xs ih =>
    simp only [List.foldl_cons]
    have hx : M x := hM x List.mem_cons_self
    have hndx := List.nodup_cons.mp hnd
    obtain ⟨i1, q1⟩ := h1 s0 x hx h0 (hU x List.mem_cons_self)
    have := ih hndx.2 (fun a ha => hM a (List.mem_cons_of_mem _ ha)) (step s0 x) (fun a => D a ∨ a = x)
      (by
        intro a ha
        rcases ha with ha | ha
        · exact ⟨(hD a ha).1, fun hmem => (hD a ha).2 (List.mem_cons_of_mem _ hmem)⟩
        · subst ha; exact ⟨hx, hndx.1⟩)
      i1
      (by
        intro a ha
        have hne : x ≠ a := by intro e; subst e; exact hndx.1 ha
        exact (h2 s0 x a hx (hM a (List.mem_cons_of_mem _ ha)) hne h0 (hU x List.mem_cons_self)).1
          (hU a (List.mem_cons_of_mem _ ha)))
      (by
        intro a ha
        rcases ha with ha | ha
        · have hne : x ≠ a := by intro e; subst e; exact (hD x ha).2 List.mem_cons_self
          exact (h2 s0 x a hx (hD a ha).1 hne h0 (hU x List.mem_cons_self)).2 (hQ a ha)
        · subst ha; exact q1)
    refine ⟨this.1, ?_⟩
    intro a ha
    apply this.2
    rcases ha with ha | ha
    · exact Or.inl (Or.inl ha)
    · rcases List.mem_cons.mp ha with e | hmem
      · exact Or.inl (Or.inr e)
      · exact Or.inr hmem

end Gama.Cov
