/-
  The record pushed for a `<point>` depends only on its own child elements (and the section's kind and
  counter): whatever the reader state left by earlier points, `runPoint` pushes the same record.
-/
import Gama.Model.ReaderPoint
namespace Gama.ReaderPoint
variable {K : Type}

/-- the effect of a child element on what `point(false)` will read -/
def childV (v : View K) : Ev K → View K
  | .id t => { v with tmpId := t }
  | .x a c => { v with x := a, hasX := true, conX := v.conX || c }
  | .y a c => { v with y := a, hasY := true, conY := v.conY || c }
  | .z a c => { v with z := a, hasZ := true, conZ := v.conZ || c }

theorem view_child (s : PState K) (e : Ev K) : view (child s e) = childV (view s) e := by
  cases e <;> rfl

theorem view_foldl (s : PState K) (evs : List (Ev K)) :
    view (evs.foldl child s) = evs.foldl childV (view s) := by
  induction evs generalizing s with
  | nil => rfl
  | cons e evs ih => simp only [List.foldl_cons, ih, view_child]

/-- after `point(true)` and `<id>` nothing of an earlier point is visible to `point(false)` -/
def freshV (zero : K) (adjusted : Bool) (k : Nat) (id : String) : View K :=
  ⟨zero, zero, zero, 0, 0, 0, id, false, false, false, false, false, false, adjusted, k⟩

theorem view_start_id (zero : K) (s : PState K) (id : String) :
    view (child (pointStart zero s) (.id id)) = freshV zero s.adjusted s.k id := rfl

theorem out_foldl (s : PState K) (evs : List (Ev K)) : (evs.foldl child s).out = s.out := by
  induction evs generalizing s with
  | nil => rfl
  | cons e evs ih => rw [List.foldl_cons, ih]; cases e <;> rfl

/-- `runPoint` on `<id>` :: children pushes exactly `endV` of the fresh view folded over the children:
    record, counter and list depend on the previous state only through `adjusted`, `k` and `out` -/
theorem runPoint_spec (zero : K) (s : PState K) (id : String) (evs : List (Ev K)) :
    (runPoint zero s (.id id :: evs)).map (fun r => (r.tmp, r.k, r.out)) =
      (endV (evs.foldl childV (freshV zero s.adjusted s.k id))).map (fun pk => (pk.1, pk.2, s.out ++ [pk.1])) := by
  unfold runPoint pointEnd
  simp only [List.foldl_cons, view_foldl, view_start_id, out_foldl]
  cases endV (evs.foldl childV (freshV zero s.adjusted s.k id)) with
  | error e => rfl
  | ok pk => obtain ⟨p, k'⟩ := pk; simp [Except.map, child, pointStart]

/-- two reader states that agree on the section kind and the counter build the same record from the same children -/
theorem runPoint_local (zero : K) (s t : PState K) (ha : s.adjusted = t.adjusted) (hk : s.k = t.k)
    (id : String) (evs : List (Ev K)) :
    (runPoint zero s (.id id :: evs)).map (fun r => (r.tmp, r.k)) =
    (runPoint zero t (.id id :: evs)).map (fun r => (r.tmp, r.k)) := by
  have hs := congrArg (Except.map (fun x : PointRec K × Nat × List (PointRec K) => (x.1, x.2.1))) (runPoint_spec zero s id evs)
  have ht := congrArg (Except.map (fun x : PointRec K × Nat × List (PointRec K) => (x.1, x.2.1))) (runPoint_spec zero t id evs)
  rw [ha, hk] at hs
  cases h1 : runPoint zero s (.id id :: evs) <;> cases h2 : runPoint zero t (.id id :: evs) <;>
    cases h3 : endV (evs.foldl childV (freshV zero t.adjusted t.k id)) <;>
    simp_all [Except.map]

def isZ : Ev K → Bool
  | .z _ _ => true
  | _ => false

theorem foldl_noZ (v : View K) (evs : List (Ev K)) (h : ∀ e ∈ evs, isZ e = false) :
    (evs.foldl childV v).z = v.z ∧ (evs.foldl childV v).hasZ = v.hasZ ∧ (evs.foldl childV v).indz = v.indz ∧
    (evs.foldl childV v).conZ = v.conZ := by
  induction evs generalizing v with
  | nil => exact ⟨rfl, rfl, rfl, rfl⟩
  | cons e evs ih =>
    have he := h e (List.mem_cons_self)
    have := ih (childV v e) (fun e' h' => h e' (List.mem_cons_of_mem _ h'))
    cases e <;> simp_all [childV, isZ]

/-- a point without a `<z>` child gets `hz = false`, `z = 0`, `indz = 0`, `cz = false`, whatever came before -/
theorem endV_noZ (zero : K) (adjusted : Bool) (k : Nat) (id : String) (evs : List (Ev K))
    (h : ∀ e ∈ evs, isZ e = false) (p : PointRec K) (k' : Nat)
    (hp : endV (evs.foldl childV (freshV zero adjusted k id)) = .ok (p, k')) :
    p.hz = false ∧ p.z = zero ∧ p.indz = 0 ∧ p.cz = false := by
  obtain ⟨h1, h2, h3, h4⟩ := foldl_noZ (freshV zero adjusted k id) evs h
  change _ = zero at h1
  change _ = false at h2
  change _ = 0 at h3
  change _ = false at h4
  generalize evs.foldl childV (freshV zero adjusted k id) = w at *
  unfold endV at hp
  split at hp
  · simp at hp
  · split at hp
    · simp at hp
    · simp only [Except.ok.injEq, Prod.mk.injEq] at hp
      obtain ⟨rfl, _⟩ := hp
      simp [h1, h2, h3, h4]

/-! a concrete section for the non-vacuity examples of Props/C12 -/
def mixedSection : List (List (Ev Nat)) :=
  [[.id "A", .x 1 false, .y 2 false, .z 3 false], [.id "B", .x 4 true, .y 5 true], [.id "C", .z 6 false]]
def mixedOut : List (PointRec Nat) :=
  match runPoints 0 (sectionStart 0 true) mixedSection with
  | .ok s => s.out
  | .error _ => []

end Gama.ReaderPoint
