/-
  Concrete histories over ℚ used as non-vacuity instances in Props/C15Obj.lean, and the observers that
  make their outcomes decidable.
-/
import Gama.Lemmas.SymObjInv
import Gama.Lemmas.VecObj
import Gama.Lemmas.ObjCatch
namespace Gama.ObjEx
open Gama.MatObj (Stop)

/-- the state a run ended in (the initial state if it stopped) -/
def stOf {σ : Type} (d : σ) : Except Stop σ → σ
  | .ok s => s
  | .error _ => d

def isOk {σ : Type} : Except Stop σ → Bool
  | .ok _ => true
  | .error _ => false

/-- `SymMat A(2); A = [[4,2],[2,2]]` -/
def symHist : List (SymObj.Op Rat) := [.ctor 0 2, .set 0 1 1 4, .set 0 2 1 2, .set 0 2 2 2]

/-- … `SymMat B(A); B.invert(); B.cholDec()`-free continuation: copy, invert the copy, write the source -/
def symHist2 : List (SymObj.Op Rat) := symHist ++ [.copyCtor 1 0, .invert 1, .set 0 1 1 5]

def symData (s : SymObj.St Rat) (i : Nat) : Option (Nat × Nat × List Rat) :=
  (SymObj.val s i).map fun v => (v.ext.dim, v.ext.idf, v.data)

def symSpecData (v : SymObj.Vals Rat) (i : Nat) : Option (Nat × Nat × List Rat) :=
  (v i).map fun v => (v.ext.dim, v.ext.idf, v.data)

/-- caught throws: `SymMat A(2), B(3); A += B` (BadRank); `SymMat C(2,3)` (BadRank, base destroyed);
    `A = [[-1,0],[0,1]]; A.invert()` (BadRank at the first pivot); `A.set_all(1)` -/
def symCatchHist : List (SymObj.Op Rat) :=
  [.ctor 0 2, .ctor 1 3, .setAll 0 1, .setAll 1 2, .addAssign 0 1, .ctor2 2 2 3,
   .set 0 1 1 (-1), .set 0 2 1 0, .invert 0, .scale 0 3]

/-- `A = [[4,2],[2,-3]]; A.invert()`: the first exchange step completes, the second pivot is negative -/
def symCatchHist2 : List (SymObj.Op Rat) :=
  [.ctor 0 2, .set 0 1 1 4, .set 0 2 1 2, .set 0 2 2 (-3), .copyCtor 1 0, .invert 0]

def catchOut {σ : Type} : Except Stop (σ × List (Option Stop)) → Option (List (Option Stop))
  | .ok (_, tr) => some tr
  | .error _ => none

def catchSt {σ : Type} (d : σ) : Except Stop (σ × List (Option Stop)) → σ
  | .ok (s, _) => s
  | .error _ => d

/-- `Mat A(2,2) = [[1,2],[2,4]]; B = A; A.invert(0)` → Singular after one elimination step; `B` intact -/
def matCatchHist : List (MatObj.Op Rat) :=
  [.ctor 0 2 2, .set 0 1 1 1, .set 0 1 2 2, .set 0 2 1 2, .set 0 2 2 4, .copyCtor 1 0, .invert 0 0,
   .ctor 2 2 3, .invert 2 0, .set 0 1 1 7]

def matData (s : MatObj.St Rat) (i : Nat) : Option (Nat × Nat × List Rat) :=
  (MatObj.val s i).map fun v => (v.rows, v.cols, v.data)

def matSpecData (v : MatObj.Vals Rat) (i : Nat) : Option (Nat × Nat × List Rat) :=
  (v i).map fun v => (v.rows, v.cols, v.data)

/-- `Vec a(2) = (1,2), b(3); a += b` (BadRank); `c = a + b` (BadRank, temporary destroyed);
    `Vec d(-1)` (BadRank); `Vec e(std::move(a))`; `a` is empty afterwards -/
def vecCatchHist : List (VecObj.Op Rat) :=
  [.ctor 0 2, .set 0 1 1, .set 0 2 2, .ctor 1 3, .setAll 1 5, .addAssign 0 1, .plus 2 0 1, .ctor 3 (-1),
   .moveCtor 4 0, .plus 5 4 4]

def vecHist : List (VecObj.Op Rat) :=
  [.ctor 0 2, .set 0 1 1, .set 0 2 2, .copyCtor 1 0, .scale 1 3, .addAssign 1 0, .moveAssign 0 1]

theorem symHist_cells_posDef :
    MatVec.PosDef 2 (fun k => ([4, 2, 2] : List ℚ).getD k 0) := by
  have : (fun k => ([4, 2, 2] : List ℚ).getD k 0) = MatVec.sinvAEx := by
    funext k
    rcases k with _ | _ | _ | k <;> simp [MatVec.sinvAEx]
  rw [this]; exact MatVec.sinvAEx_posDef

end Gama.ObjEx
