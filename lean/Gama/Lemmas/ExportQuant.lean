/-
  C13 with a printer that keeps finitely many digits: reading what was printed gives the *quantised* number `q x`
  (`rd (fmt x) = some (q x)`), printing is a projection (`fmt (q x) = fmt x`).  Then the representable numbers
  `q x = x` satisfy the exact law, the exported document does not change when every number of the network is replaced
  by its quantised value, and reading the export gives exactly that quantised network.
-/
import Gama.Lemmas.ExportNet
namespace Gama.Export
open Gama.Gen.GkfAttrs Gama.Gen.GkfDoc

variable {K : Type}

structure Codec.Printer (C : Codec K) (q : K → K) : Prop where
  rd_fmt : ∀ x, C.rd (C.fmt x) = some (q x)         -- defined for every x
  fmt_q : ∀ x, C.fmt (q x) = C.fmt x                -- printing is a projection
  isZero_iff : ∀ x, C.isZero x = true ↔ x = C.zero
  isZero_q : ∀ x, C.isZero (q x) = C.isZero x       -- a non-zero height does not print as zero
  pos_q : ∀ x, C.pos (q x) = C.pos x
  q_neg : ∀ x, q (C.neg x) = C.neg (q x)            -- the sign is printed separately from the digits
  neg_neg : ∀ x, C.neg (C.neg x) = x
  rdI_fmtI : ∀ i : Int, -1 ≤ i → C.rdI (C.fmtI i) = some i
  latIn_latOut : ∀ x, C.latIn (C.latOut x) = x
  latOut_latIn : ∀ x, C.latOut (C.latIn x) = x
  rdDeg_fmt : ∀ x, C.rdDeg (C.fmt x) = none
  fmt_ne : ∀ x, C.fmt x ≠ ""

theorem Codec.Printer.q_idem {C : Codec K} {q : K → K} (P : C.Printer q) (x : K) : q (q x) = q x := by
  have h1 := P.rd_fmt (q x)
  rw [P.fmt_q, P.rd_fmt] at h1
  exact (Option.some.inj h1).symm

/-- the representable numbers of a printer satisfy the exact law -/
theorem Codec.Printer.lawfulOn {C : Codec K} {q : K → K} (P : C.Printer q) : C.LawfulOn (fun x => q x = x) :=
  { num := ⟨fun x hx => by rw [P.rd_fmt, hx], P.isZero_iff⟩
    neg_neg := P.neg_neg
    R_neg := fun x hx => by simp only [P.q_neg, hx]
    rdI_fmtI := P.rdI_fmtI
    latIn_latOut := P.latIn_latOut
    rdDeg_fmt := P.rdDeg_fmt
    fmt_ne := P.fmt_ne }

/-! ## the quantised network: what the parser stores after reading the export -/

def quantObs (q : K → K) (o : Obs K) : Obs K :=
  { o with val := q o.val, stdev := q o.stdev, fromDh := q o.fromDh, toDh := q o.toDh, fsDh := q o.fsDh }

/-- a height difference given with its distance gets its standard deviation recomputed from the printed values -/
def quantDh (C : Codec K) (q : K → K) (s0 : K) (h : HDiff K) : HDiff K :=
  { h with val := q h.val, dist := q h.dist, stdev := if C.pos h.dist then C.sdDist (q s0) (q h.dist) else q h.stdev }

def quantCov (q : K → K) (c : Cov K) : Cov K := { c with data := c.data.map q }
def quantPoint (q : K → K) (p : Point K) : Point K := { p with xy := p.xy.map (fun v => (q v.1, q v.2)), z := p.z.map q }
def quantCPoint (q : K → K) (p : CPoint K) : CPoint K := { p with xy := p.xy.map (fun v => (q v.1, q v.2)), z := p.z.map q }
def quantVec (q : K → K) (v : Vec K) : Vec K := { v with dx := q v.dx, dy := q v.dy, dz := q v.dz }

def quantParams (C : Codec K) (q : K → K) (p : Params K) : Params K :=
  { p with sigmaApr := q p.sigmaApr, confPr := q p.confPr, tolAbs := q p.tolAbs,
           latitude := p.latitude.map (fun l => C.latIn (q (C.latOut l))) }

def quantCluster (C : Codec K) (q : K → K) (s0 : K) : Cluster K → Cluster K
  | .obs sp cov => .obs ⟨sp.station, sp.obs.map (quantObs q)⟩ (cov.map (quantCov q))
  | .hdiffs dhs cov => .hdiffs (dhs.map (quantDh C q s0)) (cov.map (quantCov q))
  | .coords ext pts cov => .coords ext (pts.map (quantCPoint q)) (quantCov q cov)
  | .vectors vecs cov => .vectors (vecs.map (quantVec q)) (quantCov q cov)

def quantNet (C : Codec K) (q : K → K) (n : Net K) : Net K :=
  { n with head := { n.head with epoch := n.head.epoch.map q }
           par := quantParams C q n.par
           points := n.points.map (quantPoint q)
           clusters := n.clusters.map (quantCluster C q n.par.sigmaApr) }

variable {C : Codec K} {q : K → K}

theorem fmt_sgn_q (P : C.Printer q) (b : Bool) (x : K) : C.fmt (sgn C b (q x)) = C.fmt (sgn C b x) := by
  cases b
  · simp [sgn, P.fmt_q]
  · simp only [sgn, if_true]
    rw [← P.q_neg, P.fmt_q]

theorem flipWith_map (P : C.Printer q) (bs : List Bool) (xs : List K) :
    flipWith C.neg bs (xs.map q) = (flipWith C.neg bs xs).map q := by
  induction bs generalizing xs with
  | nil => cases xs <;> rfl
  | cons b bs ih =>
    cases xs with
    | nil => rfl
    | cons x xs => cases b <;> simp [flipWith, ih, P.q_neg]

theorem exportCov_quant (P : C.Printer q) (c : Cov K) : exportCov C.toNumFmt (quantCov q c) = exportCov C.toNumFmt c := by
  simp [exportCov, quantCov, List.map_map, Function.comp_def, P.fmt_q]

theorem exportCovCall_quant (P : C.Printer q) (call : Bool × Bool) (ys : Bool) (mir ang : Nat → Bool) (c : Cov K) :
    exportCovCall C call ys false mir ang (quantCov q c) = exportCovCall C call ys false mir ang c := by
  have hm : mirrorCov C.neg mir (quantCov q c) = quantCov q (mirrorCov C.neg mir c) := by
    simp [mirrorCov, quantCov, flipWith_map P]
  unfold exportCovCall
  by_cases h1 : (covSkipsDiagonal && !call.1 && c.band == 0) = true
  · have : (covSkipsDiagonal && !call.1 && (quantCov q c).band == 0) = true := h1
    simp [h1, this]
  · have : ¬ (covSkipsDiagonal && !call.1 && (quantCov q c).band == 0) = true := h1
    simp only [h1, this, if_false, Bool.and_false, Bool.false_and, Bool.false_eq_true]
    by_cases h2 : (call.2 && ys && covMirrors) = true
    · simp only [h2, if_true, hm, exportCov_quant P]
    · simp [h2, exportCov_quant P]

theorem exportObsU_quant (P : C.Printer q) (cf : String) (o : Obs K) :
    exportObsU C true cf (quantObs q o) = exportObsU C true cf o := by
  simp only [exportObsU, Bool.true_or, if_true, exportObs, quantObs, dhAttr, P.fmt_q, P.isZero_q]
  rfl

theorem exportDh_quant (P : C.Printer q) (s0 : K) (h : HDiff K) :
    exportDh C.toNumFmt true C.pos (quantDh C q s0 h) = exportDh C.toNumFmt true C.pos h := by
  cases hp : C.pos h.dist <;> simp [exportDh, quantDh, P.fmt_q, P.pos_q, hp]

theorem exportPoint_quant (P : C.Printer q) (ys : Bool) (p : Point K) :
    exportPoint C ys (quantPoint q p) = exportPoint C ys p := by
  obtain ⟨id, xy, z, s1, s2⟩ := p
  cases xy <;> cases z <;> simp [exportPoint, quantPoint, fixStr, adjStr, P.fmt_q, fmt_sgn_q P]

theorem exportCPoint_quant (P : C.Printer q) (ys : Bool) (p : CPoint K) :
    exportCPoint C ys (quantCPoint q p) = exportCPoint C ys p := by
  obtain ⟨id, xy, z⟩ := p
  cases xy <;> cases z <;> simp [exportCPoint, quantCPoint, fmt_sgn_q P]

theorem exportVec_quant (P : C.Printer q) (ys : Bool) (v : Vec K) : exportVec C ys (quantVec q v) = exportVec C ys v := by
  simp only [exportVec, quantVec, fmt_sgn_q P]
  rfl

theorem coordFlags_quant (pts : List (CPoint K)) : coordFlags (pts.map (quantCPoint q)) = coordFlags pts := by
  induction pts with
  | nil => rfl
  | cons c pts ih =>
    obtain ⟨cid, cxy, cz⟩ := c
    simp only [coordFlags, List.map_cons, List.flatMap_cons] at ih ⊢
    rw [ih]
    cases cxy <;> cases cz <;> simp [quantCPoint]

theorem map_map_eq {α β : Type} (f : α → β) (g : α → α) (h : ∀ a, f (g a) = f a) (l : List α) : (l.map g).map f = l.map f := by
  rw [List.map_map]
  apply List.map_congr_left
  intro a _
  exact h a

theorem exportCluster_quant (P : C.Printer q) (ys : Bool) (s0 : K) (c : Cluster K) :
    exportCluster' C ys true (quantCluster C q s0 c) = exportCluster' C ys true c := by
  cases c with
  | obs sp cov =>
    cases cov <;>
    simp [exportCluster', quantCluster, map_map_eq _ _ (exportObsU_quant P sp.station), exportCovCall_quant P, List.map_map,
      Function.comp_def, quantObs]
  | hdiffs dhs cov =>
    cases cov <;>
    simp [exportCluster', quantCluster, map_map_eq _ _ (exportDh_quant P s0), exportCovCall_quant P]
  | coords ext pts cov =>
    simp [exportCluster', quantCluster, map_map_eq _ _ (exportCPoint_quant P ys), exportCovCall_quant P, coordFlags_quant]
  | vectors vecs cov =>
    simp [exportCluster', quantCluster, map_map_eq _ _ (exportVec_quant P ys), exportCovCall_quant P, vecFlags_map]

theorem exportParams_quant (P : C.Printer q) (p : Params K) : exportParams C (quantParams C q p) = exportParams C p := by
  obtain ⟨sa, cp, ta, ap, g, alg, lat, ell, cb⟩ := p
  cases lat <;> simp only [exportParams, quantParams, Option.map, P.fmt_q, P.latOut_latIn, latitudeInGons, if_true] <;> rfl

theorem filter_active_quant (ps : List (Point K)) :
    (ps.map (quantPoint q)).filter Point.active = (ps.filter Point.active).map (quantPoint q) := by
  induction ps with
  | nil => rfl
  | cons p ps ih =>
    have : (quantPoint q p).active = p.active := rfl
    simp only [List.map_cons, List.filter_cons, this, ih]
    cases p.active <;> simp

/-- the document does not see the difference between a number and its printed-and-read value -/
theorem exportNet_quant (P : C.Printer q) (n : Net K) (hgons : n.par.gons = true) :
    exportNet C (quantNet C q n) = exportNet C n := by
  have hh : exportHead C { n.head with epoch := n.head.epoch.map q } = exportHead C n.head := by
    obtain ⟨ax, la, ep⟩ := n.head
    cases ep <;> simp [exportHead, P.fmt_q]
  have hys : ({ n.head with epoch := n.head.epoch.map q } : Head K).ys = n.head.ys := rfl
  have hg : (quantParams C q n.par).gons = n.par.gons := rfl
  have hp : ((n.points.filter Point.active).map (quantPoint q)).map (fun p => DItem.point (exportPoint C n.head.ys p)) =
      (n.points.filter Point.active).map (fun p => DItem.point (exportPoint C n.head.ys p)) :=
    map_map_eq (fun p => DItem.point (exportPoint C n.head.ys p)) (quantPoint q)
      (fun p => congrArg DItem.point (exportPoint_quant P n.head.ys p)) _
  have hc : (n.clusters.map (quantCluster C q n.par.sigmaApr)).map (exportCluster' C n.head.ys true) =
      n.clusters.map (exportCluster' C n.head.ys true) :=
    map_map_eq _ _ (exportCluster_quant P n.head.ys n.par.sigmaApr) _
  simp only [exportNet, quantNet, hh, hys, hg, exportParams_quant P, filter_active_quant, hgons, hp, hc]

/-- reading the export gives the quantised network (without its unused points) -/
theorem parse_export_net_printer (P : C.Printer q) (impl : Kind → K) (par0 : Params K) (n : Net K)
    (hw : (quantNet C q n).WF C (fun x => q x = x)) :
    parseNet C impl par0 (exportNet C n) = .ok (canon (quantNet C q n)) := by
  rw [← exportNet_quant P n hw.gons]
  exact parse_export_net C P.lawfulOn impl par0 _ hw

end Gama.Export
